// Correspondence harness for properties C10 / C11: executes typed write sequences and object graphs
// through the REAL mfuse::Archiver (memory streams), prints the bytes and what the same sequence of
// reading calls returns, and reads damaged copies (every cut, byte substitutions) of the archive.
// Line protocol: lean/Driver/Archive.lean.
#include <morfuse/Script/Archiver.h>
#include <morfuse/Script/Listener.h>
#include <morfuse/Script/Context.h>
#include <morfuse/Script/ClassDef.h>
#include <morfuse/Script/ScriptVariable.h>
#include <morfuse/Script/ScriptMaster.h>
#include <morfuse/Common/StringDictionary.h>
#include <morfuse/Common/SafePtr.h>
#include <morfuse/Common/membuf.h>
#include <morfuse/Common/str.h>
#include <morfuse/Common/MEM/Memory.h>
#include "lineio.h"

#include <algorithm>
#include <cstring>
#include <cxxabi.h>
#include <typeinfo>
#include <cstdint>
#include <deque>
#include <map>
#include <memory>
#include <new>
#include <string>
#include <vector>

using namespace mfuse;

namespace {

typedef std::vector<unsigned char> Bytes;

// "malloc fails" is made deterministic: a request of 2^20 bytes or more is refused (null), exactly the
// model's `allocLimit`.  Everything the reader allocates on the say-so of a length / count / index field
// of the archive (str::resize, Container::Resize) goes through this interface.
// A Listener used as the key of a hash array is hashed by its address (`Hash<ScriptVariable>`: `(intptr_t)listener`).
// So that the bucket of such a key is the same in every process (the `canon` pass, the run, a replay), the harness
// gives the listener of label L an address with `address % 7 == L % 6 + 1` (never 0): `g_residue` is set around the
// `new` / `ReadObject()` that creates it.  Tables with listener keys are generated with at most 7 entries, i.e. with
// 1 or 7 buckets.
unsigned g_residue = 0;
std::map<void*, void*> g_shifted;      // address handed out -> address malloc returned

class LimitedMemory : public IMemoryManager {
public:
    void* allocate(size_t size) override
    {
        if (size >= (size_t(1) << 20)) return nullptr;
        if (g_residue && size >= sizeof(Listener) && size <= sizeof(Listener) + 64) {
            char* raw = static_cast<char*>(std::malloc(size + 128));
            if (!raw) return nullptr;
            const unsigned want = g_residue;
            g_residue = 0;          // the bookkeeping below allocates too
            size_t off = 16;
            while (off < 112 && reinterpret_cast<uintptr_t>(raw + off) % 7 != want) off += 16;
            g_shifted[raw + off] = raw;
            return raw + off;
        }
        return std::malloc(size);
    }
    void free(void* ptr) noexcept override
    {
        auto it = g_shifted.find(ptr);
        if (it != g_shifted.end()) { void* raw = it->second; g_shifted.erase(it); std::free(raw); return; }
        std::free(ptr);
    }
};

enum Kind { KPrim, KRaw, KStr, KPtr, KSafe, KPos, KObj, KVal, KNamed, KVl };
enum VKind { VNone, VInt, VFloat, VChar, VStr, VConst0, VConst, VVec, VListener, VCArr, VCRef,
             VRef, VCon, VSCon, VArr, VARef, VPtr, VPRef };
enum PrimT { I8, I16, I32, I64, U8, U16, U32, U64, CHR, SIZE, BYTE, F32, F64, BOOL, POS, PRIM_BAD };
const char* primNames[] = { "i8", "i16", "i32", "i64", "u8", "u16", "u32", "u64", "chr", "size", "byte", "f32", "f64", "bool", "pos" };
const unsigned primWidth[] = { 1, 2, 4, 8, 1, 2, 4, 8, 1, 8, 1, 4, 8, 1, 4 };

struct ValT {
    VKind kind = VNone;
    uint64_t num = 0;
    Bytes bytes;
    size_t lbl = 0;       // holder / listener
    size_t rc = 0;
    std::vector<std::pair<size_t, ValT>> elems;   // const array elements; hash array: key, value, key, value … (insertion order)
    size_t tl = 0, th = 0, tli = 0;               // hash array: the set's header numbers the line announces
    std::vector<size_t> perm;                     // hash array: order of the writer's table walk; pointer cell: its list
};

struct ItemT {
    ValT val;             // KVal
    Kind kind = KPrim;
    PrimT prim = U8;
    uint64_t value = 0;
    Bytes bytes;          // raw / str / class name
    size_t lbl = 0;
    size_t slot = 0;      // pointer slot (read back after Close)
    bool hasName = false; // KNamed: `bytes` is the name (else: const_str 0)
    std::vector<ItemT> entries;   // KVl: the named variables of the list, in insertion order (val.tl/th/tli/perm: the set)
    int mode = 0;         // KObj, how the record is read back: 0 ArchiveObject(obj), 1 ReadObject<T>(), 2 ReadObject()
    std::vector<ItemT> body;
};

struct Run;

// a scripted object: Archive() performs the calls of `script`
class VNode : public Listener {
    MFUS_CLASS_PROTOTYPE(VNode);
public:
    Run* run = nullptr;
    const std::vector<ItemT>* script = nullptr;
    std::vector<ItemT>* out = nullptr;
    void Archive(Archiver& arc) override;
};
class VNodf : public VNode {
    MFUS_CLASS_PROTOTYPE(VNodf);
};

// what an instance created by the Archiver itself (ReadObject<T>() / ReadObject()) has to do in its Archive()
struct Pending {
    Run* run = nullptr;
    const std::vector<ItemT>* script = nullptr;
    std::vector<ItemT>* out = nullptr;
} g_pending;

struct Run {
    bool reading = false;
    std::vector<Class*> graveyard;             // objects replaced by an instance the Archiver created
    std::map<size_t, Listener*> objs;          // label -> object of this side
    std::map<size_t, std::string> clsOf;       // label -> class name
    std::deque<Listener*> plain;               // plain pointer slots (must outlive the Archiver)
    std::deque<SafePtr<Listener>> safe;
    std::deque<ScriptVariable> vars;           // top-level script variables (stable addresses)
    std::deque<ScriptVariableList> lists;      // `vl` items: the variable lists, in item order
    size_t nextList = 0;
    std::deque<ScriptVariable> strays;         // write side: variables named by a Ref / a cell list but never archived
    std::map<size_t, ScriptConstArrayHolder*> holderVar;   // write side: const-array holder <label>
    std::map<size_t, ScriptArrayHolder*> arrayVar;         // write side: hash-array holder <label>
    std::map<size_t, ScriptPointer*> cellVar;              // write side: pointer cell <label>
    std::map<size_t, ScriptVariable*> varAt;               // write side: variable <label> (top level, const-array elements)
    std::vector<std::pair<ScriptVariable*, size_t>> refFix;            // write side: Ref variables to resolve once all exist
    std::vector<std::pair<ScriptPointer*, std::vector<size_t>>> cellFix;
    std::vector<std::string> canon;            // write side: real `tl th tli perm…` of every hash array, in build order
    bool canonBad = false;                     // … differs from what the line announces
    std::map<const void*, size_t> holderSeen;  // read side: holders already rendered -> label
    std::map<const ScriptVariable*, size_t> varLabel;      // read side: variable -> label (top level, const-array elements)
    std::map<const void*, size_t> preSeen;                 // read side: holders met by labelVars

    Listener* obj(size_t lbl)
    {
        if (lbl == 0) return nullptr;
        auto it = objs.find(lbl);
        if (it != objs.end()) return it->second;
        Listener* o;
        auto c = clsOf.find(lbl);
        g_residue = (unsigned)(lbl % 6 + 1);
        if (c != clsOf.end() && c->second == "VNode") o = new VNode;
        else if (c != clsOf.end() && c->second == "VNodf") o = new VNodf;
        else o = new Listener;
        g_residue = 0;
        objs[lbl] = o;
        return o;
    }
    size_t labelOf(const Listener* p) const
    {
        if (!p) return 0;
        for (auto& kv : objs) if (kv.second == p) return kv.first;
        return 999999999;   // not any object of this run
    }
    void collect(const std::vector<ItemT>& items)
    {
        for (auto& it : items) if (it.kind == KObj) {
            clsOf[it.lbl] = std::string(it.bytes.begin(), it.bytes.end());
            collect(it.body);
        }
    }
    size_t nextVar = 0;
    // write side: every script variable exists (with its final sharing) before the archive is written
    void prebuild(const std::vector<ItemT>& items)
    {
        for (auto& it : items) {
            if (it.kind == KVal || it.kind == KNamed) {
                vars.emplace_back(); varAt[it.lbl] = &vars.back(); build(vars.back(), it.val);
                if (it.kind == KNamed && it.hasName)
                    vars.back().key = ScriptContext::Get().GetDirector().GetDictionary().Add(std::string(it.bytes.begin(), it.bytes.end()).c_str());
            }
            else if (it.kind == KVl) {
                lists.emplace_back();
                ScriptVariableList& vl = lists.back();
                StringDictionary& dict = ScriptContext::Get().GetDirector().GetDictionary();
                std::vector<const_str> ids;
                for (auto& e : it.entries) {
                    const const_str id = dict.Add(std::string(e.bytes.begin(), e.bytes.end()).c_str());
                    ids.push_back(id);
                    ScriptVariable* slot = vl.GetOrCreateVariable(id);
                    varAt[e.lbl] = slot;
                    build(*slot, e.val);
                }
                // the order in which the writer will walk the table, as indices into the insertion order
                auto& set = vl.list;
                std::string real = std::to_string(set.tableLength) + " " + std::to_string(set.threshold) + " " + std::to_string(set.tableLengthIndex);
                std::vector<size_t> walk;
                for (uintptr_t i = set.tableLength; i > 0; i--)
                    for (auto* e = set.table[i - 1]; e; e = e->Next()) {
                        size_t at = 0;
                        while (at < ids.size() && ids[at] != e->Key()) ++at;
                        walk.push_back(at);
                        real += " " + std::to_string(at);
                    }
                canon.push_back(real);
                if (set.tableLength != it.val.tl || set.threshold != it.val.th || set.tableLengthIndex != it.val.tli || walk != it.val.perm) canonBad = true;
            }
            else if (it.kind == KObj) prebuild(it.body);
        }
    }
    // Ref variables and the lists of pointer cells name variables that may be built later
    void resolve()
    {
        // a label that names no variable of the line (only in shrunk lines): a variable that is never archived
        auto at = [&](size_t l) -> ScriptVariable* {
            if (!l) return nullptr;
            auto a = varAt.find(l);
            if (a != varAt.end()) return a->second;
            strays.emplace_back();
            varAt[l] = &strays.back();
            return &strays.back();
        };
        for (auto& f : refFix) f.first->m_data.refValue = at(f.second);
        for (auto& f : cellFix) for (size_t l : f.second) f.first->list.AddObject(at(l));
        refFix.clear(); cellFix.clear();
    }
    std::string keyText(const ScriptVariable& v);
    void labelVars(const ScriptVariable& v, const std::vector<size_t>& supply, size_t& next);
    void build(ScriptVariable& v, const ValT& d);
    void render(const ScriptVariable& v, const std::vector<size_t>& supply, size_t& next, std::string& out);
    ~Run()
    {
        lists.clear();
        vars.clear();
        safe.clear();
        for (auto& kv : objs) delete kv.second;
        for (Class* c : graveyard) delete c;
    }
    void exec(Archiver& arc, const std::vector<ItemT>& items, std::vector<ItemT>& out);
};

std::string hexOf(const Bytes& b);

void supplyOf(const ValT& d, std::vector<size_t>& out)
{
    if (d.kind == VPtr) { out.push_back(d.lbl); return; }
    if (d.kind == VArr) {
        // the reader allocates the entries in archive order = the order of the writer's walk
        out.push_back(d.lbl);
        for (size_t j = 0; j < d.perm.size(); ++j) {
            const size_t at = d.perm[j];
            if (2 * at + 1 >= d.elems.size()) continue;
            for (size_t q = 0; q < 2; ++q) { out.push_back(d.elems[2 * at + q].first); supplyOf(d.elems[2 * at + q].second, out); }
        }
        return;
    }
    if (d.kind != VCArr) return;
    out.push_back(d.lbl);
    for (auto& e : d.elems) { out.push_back(e.first); supplyOf(e.second, out); }
}

void Run::build(ScriptVariable& v, const ValT& d)
{
    switch (d.kind) {
    case VNone: break;
    case VInt: v.ClearInternal(); v.type = variableType_e::Integer; v.m_data.long64Value = (int64_t)d.num; break;
    case VFloat: { v.ClearInternal(); v.type = variableType_e::Float; uint32_t b = (uint32_t)d.num; std::memcpy(&v.m_data.floatValue, &b, 4); break; }
    case VChar: v.ClearInternal(); v.type = variableType_e::Char; v.m_data.charValue = (char)d.num; break;
    case VStr: {
        str s;
        if (!d.bytes.empty()) { s.resize(d.bytes.size()); std::memcpy(const_cast<char*>(s.c_str()), d.bytes.data(), d.bytes.size()); }
        v.setStringValue(s);
        break;
    }
    case VConst0: v.setConstStringValue(const_str(0)); break;
    case VConst: {
        std::string t(d.bytes.begin(), d.bytes.end());
        v.setConstStringValue(ScriptContext::Get().GetDirector().GetDictionary().Add(t.c_str()));
        break;
    }
    case VVec: v.ClearInternal(); v.type = variableType_e::Vector; v.m_data.vectorValue = new float[3]; std::memcpy(v.m_data.vectorValue, d.bytes.data(), 12); break;
    case VListener: v.setListenerValue(obj(d.lbl)); break;
    case VCArr: {
        std::vector<ScriptVariable> tmp(d.elems.size());
        for (size_t i = 0; i < d.elems.size(); ++i) build(tmp[i], d.elems[i].second);
        ScriptVariable dummy;
        v.setConstArrayValue(tmp.empty() ? &dummy : tmp.data(), tmp.size());
        holderVar[d.lbl] = v.m_data.constArrayValue;
        for (size_t i = 0; i < d.elems.size(); ++i) {
            // the element now lives in the holder; a Ref element built into the temporary is re-registered there
            ScriptVariable* slot = &v.m_data.constArrayValue->constArrayValue[i + 1];
            varAt[d.elems[i].first] = slot;
            for (auto& f : refFix) if (f.first == &tmp[i]) f.first = slot;
        }
        break;
    }
    case VRef: v.ClearInternal(); v.type = variableType_e::Ref; v.m_data.refValue = nullptr; refFix.emplace_back(&v, d.lbl); break;
    case VCon: v.ClearInternal(); v.type = variableType_e::Container;
        v.m_data.containerValue = reinterpret_cast<const con::Container<SafePtr<Listener>>*>(obj(d.lbl)); break;
    case VSCon: v.ClearInternal(); v.type = variableType_e::SafeContainer; v.m_data.safeContainerValue = new ConListPtr;
        v.m_data.safeContainerValue->InitSafePtr(obj(d.lbl)); break;
    case VPtr: {
        ScriptPointer* cell = new ScriptPointer;
        v.ClearInternal(); v.type = variableType_e::Pointer; v.m_data.pointerValue = cell;
        cellVar[d.lbl] = cell;
        cellFix.emplace_back(cell, d.perm);
        break;
    }
    case VPRef: {
        auto it = cellVar.find(d.lbl);
        if (it != cellVar.end()) { v.ClearInternal(); v.type = variableType_e::Pointer; v.m_data.pointerValue = it->second; }
        break;
    }
    case VArr: {
        ScriptArrayHolder* hd = new ScriptArrayHolder;
        std::vector<std::string> keys;
        for (size_t i = 0; i + 1 < d.elems.size(); i += 2) {
            ScriptVariable k, val;
            build(k, d.elems[i].second);
            build(val, d.elems[i + 1].second);
            hd->arrayValue[k] = val;
            {
                ScriptVariable* slot = &hd->arrayValue[k];      // entries are heap nodes: stable across rehash
                for (auto& f : refFix) if (f.first == &val) f.first = slot;
            }
            keys.push_back(keyText(k));
        }
        v.ClearInternal(); v.type = variableType_e::Array; v.m_data.arrayValue = hd;
        arrayVar[d.lbl] = hd;
        // the order in which the writer will walk the table, as indices into the insertion order
        auto& set = hd->arrayValue.m_set;
        std::string real = std::to_string(set.tableLength) + " " + std::to_string(set.threshold) + " " + std::to_string(set.tableLengthIndex);
        std::vector<size_t> walk;
        for (uintptr_t i = set.tableLength; i > 0; i--)
            for (auto* e = set.table[i - 1]; e; e = e->Next()) {
                const std::string kt = keyText(e->Key());
                size_t at = 0;
                while (at < keys.size() && keys[at] != kt) ++at;
                walk.push_back(at);
                real += " " + std::to_string(at);
            }
        canon.push_back(real);
        if (set.tableLength != d.tl || set.threshold != d.th || set.tableLengthIndex != d.tli || walk != d.perm) canonBad = true;
        break;
    }
    case VARef: {
        auto it = arrayVar.find(d.lbl);
        if (it != arrayVar.end()) { v.ClearInternal(); v.type = variableType_e::Array; v.m_data.arrayValue = it->second; it->second->refCount++; }
        break;
    }
    case VCRef: {
        auto it = holderVar.find(d.lbl);
        if (it != holderVar.end()) {
            // what copying a variable that holds this array does
            v.ClearInternal();
            v.type = variableType_e::ConstArray;
            v.m_data.constArrayValue = it->second;
            it->second->refCount++;
        }
        break;
    }
    }
}

void Run::render(const ScriptVariable& v, const std::vector<size_t>& supply, size_t& next, std::string& out)
{
    auto take = [&]() -> size_t { return next < supply.size() ? supply[next++] : 0; };
    switch (v.type) {
    case variableType_e::None: out += "n"; break;
    case variableType_e::Integer: out += "i " + std::to_string((uint64_t)v.m_data.long64Value); break;
    case variableType_e::Float: { uint32_t b; std::memcpy(&b, &v.m_data.floatValue, 4); out += "f " + std::to_string(b); break; }
    case variableType_e::Char: out += "c " + std::to_string((unsigned)(unsigned char)v.m_data.charValue); break;
    case variableType_e::String: {
        const str& s = *v.m_data.stringValue;
        const unsigned char* p = reinterpret_cast<const unsigned char*>(s.c_str());
        out += "s " + hexOf(Bytes(p, p + s.length()));
        break;
    }
    case variableType_e::ConstString: {
        if (v.m_data.constStringValue == 0u) { out += "k0"; break; }
        const str& s = ScriptContext::Get().GetDirector().GetDictionary().Get(v.m_data.constStringValue);
        const unsigned char* p = reinterpret_cast<const unsigned char*>(s.c_str());
        out += "k " + hexOf(Bytes(p, p + s.length()));
        break;
    }
    case variableType_e::Vector: {
        const unsigned char* p = reinterpret_cast<const unsigned char*>(v.m_data.vectorValue);
        out += "vec " + hexOf(Bytes(p, p + 12));
        break;
    }
    case variableType_e::Listener:
        out += "l " + std::to_string(labelOf(v.m_data.listenerValue ? v.m_data.listenerValue->Pointer() : nullptr));
        break;
    case variableType_e::ConstArray: {
        const ScriptConstArrayHolder* h = v.m_data.constArrayValue;
        if (!h) { out += "car 0"; break; }
        auto it = holderSeen.find(h);
        if (it != holderSeen.end()) { out += "car " + std::to_string(it->second); break; }
        bool known = false;
        for (auto& kv : objs) if ((const void*)kv.second == (const void*)h) known = true;
        if (known) { out += "car 999999999"; break; }     // resolved to something that is not a holder
        const size_t lbl = take();
        holderSeen[h] = lbl;
        out += "ca " + std::to_string(lbl) + " " + std::to_string(h->refCount) + " " + std::to_string(h->size);
        for (size_t i = 1; i <= h->size; ++i) {
            take();     // the element variable's own label
            out += ' ';
            render(h->constArrayValue[i], supply, next, out);
        }
        break;
    }
    case variableType_e::Ref: {
        auto it = varLabel.find(v.m_data.refValue);
        out += "ref " + std::to_string(!v.m_data.refValue ? 0 : it == varLabel.end() ? 999999999 : it->second);
        break;
    }
    case variableType_e::Container:
        out += "con " + std::to_string(labelOf(reinterpret_cast<const Listener*>(v.m_data.containerValue)));
        break;
    case variableType_e::SafeContainer:
        out += "scon " + std::to_string(labelOf(reinterpret_cast<const Listener*>(
            v.m_data.safeContainerValue ? static_cast<SafePtrBase*>(v.m_data.safeContainerValue)->Pointer() : nullptr)));
        break;
    case variableType_e::Pointer: {
        const ScriptPointer* c = v.m_data.pointerValue;
        if (!c) { out += "pref 0"; break; }
        auto it = holderSeen.find(c);
        if (it != holderSeen.end()) { out += "pref " + std::to_string(it->second); break; }
        const size_t lbl = take();
        holderSeen[c] = lbl;
        out += "ptr " + std::to_string(lbl) + " " + std::to_string(c->list.NumObjects());
        for (size_t i = 1; i <= c->list.NumObjects(); ++i) {
            const ScriptVariable* pv = c->list.ObjectAt(i);
            auto w = varLabel.find(pv);
            out += " " + std::to_string(!pv ? 0 : w == varLabel.end() ? 999999999 : w->second);
        }
        break;
    }
    case variableType_e::Array: {
        const ScriptArrayHolder* h = v.m_data.arrayValue;
        if (!h) { out += "aref 0"; break; }
        auto it = holderSeen.find(h);
        if (it != holderSeen.end()) { out += "aref " + std::to_string(it->second); break; }
        const size_t lbl = take();
        holderSeen[h] = lbl;
        auto& set = h->arrayValue.m_set;
        std::vector<std::pair<std::string, std::string>> es;
        for (uintptr_t i = set.tableLength; i > 0; i--)
            for (auto* e = set.table[i - 1]; e; e = e->Next()) {
                take(); take();     // the entry's key and value variable
                std::string ks, vs;
                render(e->Key(), supply, next, ks);
                render(e->Value(), supply, next, vs);
                // every entry must be found again under its key (the table the load built must be usable)
                const ScriptVariable* found = const_cast<ScriptArrayHolder*>(h)->arrayValue.find(e->Key());
                es.emplace_back(ks, (found != &e->Value() ? "!" : "") + vs);
            }
        std::sort(es.begin(), es.end());
        // an entry that is not found under its own key is shown as `lost:<key>`
        for (auto& e : es) if (!e.second.empty() && e.second[0] == '!') { e.first = "lost:" + e.first; e.second.erase(0, 1); }
        out += "arr " + std::to_string(lbl) + " " + std::to_string(h->refCount) + " " + std::to_string(set.tableLength) + " " +
            std::to_string(set.threshold) + " " + std::to_string(set.tableLengthIndex) + " " + std::to_string(es.size());
        for (auto& e : es) out += " " + e.first + " " + e.second;
        break;
    }
    default: out += "?kind" + std::to_string((int)v.type); break;
    }
}

std::string Run::keyText(const ScriptVariable& v)
{
    std::string out;
    size_t next = 0;
    render(v, std::vector<size_t>(), next, out);
    return out;
}

// read side, before rendering: the labels of the variables a Ref / a pointer cell may name (top-level variables by the
// label of their `v` item, const-array elements by the supply, in the reader's allocation order)
void Run::labelVars(const ScriptVariable& v, const std::vector<size_t>& supply, size_t& next)
{
    auto take = [&]() -> size_t { return next < supply.size() ? supply[next++] : 0; };
    if (v.type == variableType_e::ConstArray && v.m_data.constArrayValue) {
        const ScriptConstArrayHolder* h = v.m_data.constArrayValue;
        if (preSeen.count(h)) return;
        preSeen[h] = take();
        for (size_t i = 1; i <= h->size; ++i) {
            varLabel[&h->constArrayValue[i]] = take();
            labelVars(h->constArrayValue[i], supply, next);
        }
    } else if (v.type == variableType_e::Array && v.m_data.arrayValue) {
        const ScriptArrayHolder* h = v.m_data.arrayValue;
        if (preSeen.count(h)) return;
        preSeen[h] = take();
        for (size_t i = 0; i < 2 * h->arrayValue.m_set.count; ++i) take();
    } else if (v.type == variableType_e::Pointer && v.m_data.pointerValue) {
        if (!preSeen.count(v.m_data.pointerValue)) preSeen[v.m_data.pointerValue] = take();
    }
}

template<typename T> void primCall(Archiver& arc, void (Archiver::*fn)(T&), bool reading, uint64_t in, uint64_t& outv)
{
    T v;
    std::memset(&v, 0, sizeof(v));
    if (!reading) std::memcpy(&v, &in, sizeof(v));
    (arc.*fn)(v);
    outv = 0;
    std::memcpy(&outv, &v, sizeof(v));
}

void Run::exec(Archiver& arc, const std::vector<ItemT>& items, std::vector<ItemT>& out)
{
    for (const ItemT& it : items) {
        out.emplace_back();
        const size_t me = out.size() - 1;
        out[me].kind = it.kind;
        out[me].prim = it.prim;
        out[me].lbl = it.lbl;
        out[me].bytes = it.kind == KObj ? it.bytes : Bytes();
        switch (it.kind) {
        case KPrim: {
            uint64_t r = 0;
            switch (it.prim) {
            case I8: primCall<int8_t>(arc, &Archiver::ArchiveInt8, reading, it.value, r); break;
            case I16: primCall<int16_t>(arc, &Archiver::ArchiveInt16, reading, it.value, r); break;
            case I32: primCall<int32_t>(arc, &Archiver::ArchiveInt32, reading, it.value, r); break;
            case I64: primCall<int64_t>(arc, &Archiver::ArchiveInt64, reading, it.value, r); break;
            case U8: primCall<uint8_t>(arc, &Archiver::ArchiveUInt8, reading, it.value, r); break;
            case U16: primCall<uint16_t>(arc, &Archiver::ArchiveUInt16, reading, it.value, r); break;
            case U32: primCall<uint32_t>(arc, &Archiver::ArchiveUInt32, reading, it.value, r); break;
            case U64: primCall<uint64_t>(arc, &Archiver::ArchiveUInt64, reading, it.value, r); break;
            case CHR: primCall<char>(arc, &Archiver::ArchiveChar, reading, it.value, r); break;
            case SIZE: primCall<size_t>(arc, &Archiver::ArchiveSize, reading, it.value, r); break;
            case BYTE: primCall<uint8_t>(arc, &Archiver::ArchiveByte, reading, it.value, r); break;
            case F32: primCall<float>(arc, &Archiver::ArchiveFloat, reading, it.value, r); break;
            case F64: primCall<double>(arc, &Archiver::ArchiveDouble, reading, it.value, r); break;
            case BOOL: {
                // the byte is moved in and out with memcpy: a damaged archive may hold any value
                alignas(bool) unsigned char cell = reading ? 0 : (unsigned char)it.value;
                arc.ArchiveBoolean(*reinterpret_cast<bool*>(&cell));
                r = cell;
                break;
            }
            case POS: primCall<uint32_t>(arc, &Archiver::ArchivePosition, reading, it.value, r); break;
            default: break;
            }
            out[me].value = r;
            break;
        }
        case KRaw: {
            const size_t n = it.bytes.size();
            std::unique_ptr<unsigned char[]> buf(new unsigned char[n ? n : 1]);
            std::memset(buf.get(), 0, n ? n : 1);
            if (!reading && n) std::memcpy(buf.get(), it.bytes.data(), n);
            arc.ArchiveRaw(buf.get(), n);
            out[me].bytes.assign(buf.get(), buf.get() + n);
            break;
        }
        case KStr: {
            str s;
            if (!reading && !it.bytes.empty()) {
                s.resize(it.bytes.size());
                std::memcpy(const_cast<char*>(s.c_str()), it.bytes.data(), it.bytes.size());
            }
            ::mfuse::Archive(arc, s);
            const unsigned char* p = reinterpret_cast<const unsigned char*>(s.c_str());
            out[me].bytes.assign(p, p + s.length());
            break;
        }
        case KPtr: {
            plain.push_back(reading ? nullptr : obj(it.lbl));
            out[me].slot = plain.size() - 1;
            arc.ArchiveObjectPointer(plain.back());
            break;
        }
        case KSafe: {
            safe.emplace_back();
            if (!reading) safe.back() = obj(it.lbl);
            out[me].slot = safe.size() - 1;
            arc.ArchiveSafePointer(safe.back());
            break;
        }
        case KPos:
            arc.ArchiveObjectPosition(obj(it.lbl));
            break;
        case KVal: {
            if (reading) vars.emplace_back();
            const size_t vi = reading ? vars.size() - 1 : nextVar++;
            out[me].slot = vi;
            out[me].val = it.val;
            vars[vi].ArchiveInternal(arc);
            break;
        }
        case KNamed: {
            if (reading) vars.emplace_back();
            const size_t vi = reading ? vars.size() - 1 : nextVar++;
            out[me].slot = vi;
            out[me].val = it.val;
            vars[vi].Archive(arc);      // the key through the dictionary, then ArchiveInternal
            break;
        }
        case KVl: {
            if (reading) lists.emplace_back();
            const size_t li = reading ? lists.size() - 1 : nextList++;
            out[me].slot = li;
            out[me].val = it.val;
            out[me].entries = it.entries;
            lists[li].Archive(arc);     // Class::Archive, then con::set<const_str, ScriptVariable>::Archive
            break;
        }
        case KObj: {
            out[me].mode = it.mode;
            if (reading && it.mode != 0) {
                // the Archiver creates the instance: by static type (ReadObject<T>()) or from the stored class name
                std::vector<ItemT> body;
                g_pending.run = this;
                g_pending.script = &it.body;
                g_pending.out = &body;
                const std::string want(it.bytes.begin(), it.bytes.end());
                Class* c;
                g_residue = (unsigned)(it.lbl % 6 + 1);
                if (it.mode == 1) {
                    if (want == "VNode") c = arc.ReadObject<VNode>();
                    else if (want == "VNodf") c = arc.ReadObject<VNodf>();
                    else c = arc.ReadObject<Listener>();
                } else {
                    c = arc.ReadObject();
                }
                g_residue = 0;
                g_pending = Pending();
                Listener* l = dynamic_cast<Listener*>(c);
                auto old = objs.find(it.lbl);
                if (old != objs.end()) graveyard.push_back(old->second);
                if (l) objs[it.lbl] = l; else { objs.erase(it.lbl); graveyard.push_back(c); }
                if (it.mode == 2) {
                    const char* cn = c->GetClassname();
                    out[me].bytes.assign(cn, cn + std::strlen(cn));
                }
                if (l && !dynamic_cast<VNode*>(l)) {
                    ItemT f;
                    f.kind = KPrim; f.prim = U8;
                    f.value = (l->m_NotifyList ? 1 : 0) | (l->m_WaitForList ? 2 : 0) | (l->vars ? 4 : 0) | (l->m_EndList ? 8 : 0);
                    body.push_back(f);
                }
                out[me].body = std::move(body);
                break;
            }
            Listener* o = obj(it.lbl);
            if (VNode* n = dynamic_cast<VNode*>(o)) {
                n->run = this;
                n->script = &it.body;
                std::vector<ItemT> body;
                n->out = &body;
                arc.ArchiveObject(*n);
                out[me].body = std::move(body);
            } else {
                // a real Listener with no lists: Listener::Archive writes the flag byte 0
                arc.ArchiveObject(*o);
                ItemT f;
                f.kind = KPrim; f.prim = U8;
                f.value = (o->m_NotifyList ? 1 : 0) | (o->m_WaitForList ? 2 : 0) | (o->vars ? 4 : 0) | (o->m_EndList ? 8 : 0);
                out[me].body.push_back(f);
            }
            break;
        }
        }
    }
}

void VNode::Archive(Archiver& arc)
{
    if (!run) {
        // created by the Archiver: the host's script for this record
        run = g_pending.run;
        script = g_pending.script;
        out = g_pending.out;
        if (!run) return;
        // nested records of the body set their own pending script
        Pending saved = g_pending;
        run->exec(arc, *script, *out);
        g_pending = saved;
        return;
    }
    run->exec(arc, *script, *out);
}

std::string hexOf(const Bytes& b)
{
    if (b.empty()) return "-";
    static const char* d = "0123456789abcdef";
    std::string s;
    s.reserve(b.size() * 2);
    for (unsigned char c : b) { s += d[c >> 4]; s += d[c & 15]; }
    return s;
}

bool unhex(const std::string& t, Bytes& out)
{
    out.clear();
    if (t == "-") return true;
    if (t.empty() || t.size() % 2) return false;
    auto v = [](char c) -> int { return c >= '0' && c <= '9' ? c - '0' : c >= 'a' && c <= 'f' ? c - 'a' + 10 : -1; };
    for (size_t i = 0; i < t.size(); i += 2) {
        int a = v(t[i]), b = v(t[i + 1]);
        if (a < 0 || b < 0) return false;
        out.push_back((unsigned char)(a * 16 + b));
    }
    return true;
}

bool nat(const std::string& t, uint64_t& v)
{
    if (t.empty() || t.size() > 20) return false;
    v = 0;
    for (char c : t) {
        if (c < '0' || c > '9') return false;
        uint64_t d = c - '0';
        if (v > (UINT64_MAX - d) / 10) return false;
        v = v * 10 + d;
    }
    return true;
}

bool parseItem(const std::vector<std::string>& t, size_t& i, ItemT& it);
bool parseValue(const std::vector<std::string>& t, size_t& i, ValT& v)
{
    if (i >= t.size()) return false;
    const std::string& k = t[i];
    uint64_t a;
    if (k == "n") { v.kind = VNone; i += 1; return true; }
    if (k == "k0") { v.kind = VConst0; i += 1; return true; }
    if (k == "i" || k == "f" || k == "c") {
        if (i + 1 >= t.size() || !nat(t[i + 1], a)) return false;
        if ((k == "f" && (a >> 32)) || (k == "c" && a > 255)) return false;
        v.kind = k == "i" ? VInt : k == "f" ? VFloat : VChar; v.num = a; i += 2; return true;
    }
    if (k == "s" || k == "k" || k == "vec") {
        if (i + 1 >= t.size() || !unhex(t[i + 1], v.bytes)) return false;
        if (k == "vec" && v.bytes.size() != 12) return false;
        v.kind = k == "s" ? VStr : k == "k" ? VConst : VVec; i += 2; return true;
    }
    if (k == "l" || k == "car" || k == "ref" || k == "con" || k == "scon" || k == "aref" || k == "pref") {
        if (i + 1 >= t.size() || !nat(t[i + 1], a)) return false;
        v.kind = k == "l" ? VListener : k == "car" ? VCRef : k == "ref" ? VRef : k == "con" ? VCon : k == "scon" ? VSCon :
            k == "aref" ? VARef : VPRef;
        v.lbl = a; i += 2; return true;
    }
    if (k == "ptr") {
        uint64_t p, n;
        if (i + 2 >= t.size() || !nat(t[i + 1], p) || !nat(t[i + 2], n) || i + 3 + n > t.size()) return false;
        v.kind = VPtr; v.lbl = p; i += 3;
        for (uint64_t e = 0; e < n; ++e) { if (!nat(t[i], a)) return false; v.perm.push_back(a); i += 1; }
        return true;
    }
    if (k == "arr") {
        uint64_t h, rc, tl, th, tli, n;
        if (i + 6 >= t.size() || !nat(t[i + 1], h) || !nat(t[i + 2], rc) || !nat(t[i + 3], tl) || !nat(t[i + 4], th) ||
            !nat(t[i + 5], tli) || !nat(t[i + 6], n) || i + 7 + n > t.size()) return false;
        v.kind = VArr; v.lbl = h; v.rc = rc; v.tl = tl; v.th = th; v.tli = tli; i += 7;
        for (uint64_t e = 0; e < n; ++e) { if (!nat(t[i], a)) return false; v.perm.push_back(a); i += 1; }
        for (uint64_t e = 0; e < 2 * n; ++e) {
            uint64_t self;
            if (i >= t.size() || !nat(t[i], self)) return false;
            i += 1;
            v.elems.emplace_back();
            v.elems.back().first = self;
            if (!parseValue(t, i, v.elems.back().second)) return false;
        }
        return true;
    }
    if (k == "ca") {
        uint64_t h, rc, n;
        if (i + 3 >= t.size() || !nat(t[i + 1], h) || !nat(t[i + 2], rc) || !nat(t[i + 3], n)) return false;
        v.kind = VCArr; v.lbl = h; v.rc = rc; i += 4;
        for (uint64_t e = 0; e < n; ++e) {
            uint64_t self;
            if (i >= t.size() || !nat(t[i], self)) return false;
            i += 1;
            v.elems.emplace_back();
            v.elems.back().first = self;
            if (!parseValue(t, i, v.elems.back().second)) return false;
        }
        return true;
    }
    return false;
}
bool parseN(const std::vector<std::string>& t, size_t& i, size_t n, std::vector<ItemT>& out)
{
    for (size_t k = 0; k < n; ++k) {
        out.emplace_back();
        if (!parseItem(t, i, out.back())) return false;
    }
    return true;
}

bool parseItem(const std::vector<std::string>& t, size_t& i, ItemT& it)
{
    if (i >= t.size()) return false;
    const std::string& k = t[i];
    uint64_t v;
    if (k == "p") {
        if (i + 2 >= t.size()) return false;
        it.kind = KPrim;
        it.prim = PRIM_BAD;
        for (int p = 0; p < PRIM_BAD; ++p) if (t[i + 1] == primNames[p]) it.prim = (PrimT)p;
        if (it.prim == PRIM_BAD || !nat(t[i + 2], v)) return false;
        if (primWidth[it.prim] < 8 && (v >> (8 * primWidth[it.prim]))) return false;
        it.value = v;
        i += 3;
        return true;
    }
    if (k == "r" || k == "s") {
        if (i + 1 >= t.size() || !unhex(t[i + 1], it.bytes)) return false;
        it.kind = k == "r" ? KRaw : KStr;
        i += 2;
        return true;
    }
    if (k == "op" || k == "sp" || k == "pos") {
        if (i + 1 >= t.size() || !nat(t[i + 1], v)) return false;
        it.kind = k == "op" ? KPtr : k == "sp" ? KSafe : KPos;
        it.lbl = v;
        i += 2;
        return true;
    }
    if (k == "v") {
        if (i + 1 >= t.size() || !nat(t[i + 1], v)) return false;
        it.kind = KVal;
        it.lbl = v;
        i += 2;
        return parseValue(t, i, it.val);
    }
    if (k == "nv") {
        if (i + 2 >= t.size() || !nat(t[i + 1], v)) return false;
        it.kind = KNamed;
        it.lbl = v;
        it.hasName = t[i + 2] != "-";
        if (it.hasName && !unhex(t[i + 2], it.bytes)) return false;
        i += 3;
        return parseValue(t, i, it.val);
    }
    if (k == "vl") {
        uint64_t tl, th, tli, n, a;
        if (i + 4 >= t.size() || !nat(t[i + 1], tl) || !nat(t[i + 2], th) || !nat(t[i + 3], tli) || !nat(t[i + 4], n) || i + 5 + n > t.size()) return false;
        it.kind = KVl;
        it.val.tl = tl; it.val.th = th; it.val.tli = tli;
        i += 5;
        for (uint64_t e = 0; e < n; ++e) { if (!nat(t[i], a)) return false; it.val.perm.push_back(a); i += 1; }
        for (uint64_t e = 0; e < n; ++e) {
            if (i + 1 >= t.size() || !nat(t[i], a)) return false;
            it.entries.emplace_back();
            ItemT& en = it.entries.back();
            en.kind = KNamed; en.lbl = a; en.hasName = true;
            if (t[i + 1] == "-" || !unhex(t[i + 1], en.bytes)) return false;
            i += 2;
            if (!parseValue(t, i, en.val)) return false;
        }
        return true;
    }
    if (k == "obj" || k == "objt" || k == "objp") {
        uint64_t n;
        it.mode = k == "obj" ? 0 : k == "objt" ? 1 : 2;
        if (i + 3 >= t.size() || !nat(t[i + 1], v) || !unhex(t[i + 2], it.bytes) || !nat(t[i + 3], n)) return false;
        it.kind = KObj;
        it.lbl = v;
        i += 4;
        return parseN(t, i, n, it.body);
    }
    return false;
}

void showItems(const std::vector<ItemT>& items, Run& run, std::string& s)
{
    bool first = true;
    for (const ItemT& it : items) {
        if (!first) s += ' ';
        first = false;
        switch (it.kind) {
        case KPrim: s += std::string("p ") + primNames[it.prim] + " " + std::to_string(it.value); break;
        case KRaw: s += "r " + hexOf(it.bytes); break;
        case KStr: s += "s " + hexOf(it.bytes); break;
        case KPtr: s += "op " + std::to_string(run.labelOf(run.plain[it.slot])); break;
        case KSafe: s += "sp " + std::to_string(run.labelOf(run.safe[it.slot].Pointer())); break;
        case KPos: s += "pos " + std::to_string(it.lbl); break;
        case KVal: {
            std::vector<size_t> supply;
            supplyOf(it.val, supply);
            size_t next = 0;
            s += "v " + std::to_string(it.lbl) + " ";
            run.render(run.vars[it.slot], supply, next, s);
            break;
        }
        case KNamed: {
            std::vector<size_t> supply;
            supplyOf(it.val, supply);
            size_t next = 0;
            const ScriptVariable& var = run.vars[it.slot];
            StringDictionary& dict = ScriptContext::Get().GetDirector().GetDictionary();
            std::string name = "-";
            if (var.GetKey() != 0u) { const str& t = dict.Get(var.GetKey()); const unsigned char* p = reinterpret_cast<const unsigned char*>(t.c_str()); name = hexOf(Bytes(p, p + t.length())); }
            s += "nv " + std::to_string(it.lbl) + " " + name + " ";
            run.render(var, supply, next, s);
            break;
        }
        case KVl: {
            // as the model shows it: the set's header numbers, then every variable looked up BY NAME in the loading
            // dictionary, in the order the archive holds them
            ScriptVariableList& vl = run.lists[it.slot];
            StringDictionary& dict = ScriptContext::Get().GetDirector().GetDictionary();
            s += "p u32 " + std::to_string(vl.list.tableLength) + " p u32 " + std::to_string(vl.list.threshold) + " p u32 " +
                std::to_string(vl.list.count) + " p u16 " + std::to_string(vl.list.tableLengthIndex);
            for (size_t at : it.val.perm) {
                if (at >= it.entries.size()) continue;
                const ItemT& en = it.entries[at];
                const std::string text(en.bytes.begin(), en.bytes.end());
                const const_str id = dict.Get(text.c_str());
                const ScriptVariable* var = id != 0u ? vl.GetVariable(id) : nullptr;
                s += " nv " + std::to_string(en.lbl) + " ";
                if (!var) { s += "?missing n"; continue; }
                const str& t2 = dict.Get(var->GetKey());
                const unsigned char* p = reinterpret_cast<const unsigned char*>(t2.c_str());
                s += hexOf(Bytes(p, p + t2.length())) + " ";
                std::vector<size_t> supply;
                supplyOf(en.val, supply);
                size_t next = 0;
                run.render(*var, supply, next, s);
            }
            break;
        }
        case KObj:
            s += std::string(it.mode == 0 ? "obj " : it.mode == 1 ? "objt " : "objp ") + std::to_string(it.lbl) + " " + hexOf(it.bytes) + " " + std::to_string(it.body.size());
            if (!it.body.empty()) { s += ' '; showItems(it.body, run, s); }
            break;
        }
    }
}

unsigned fnv(const std::string& s)
{
    unsigned h = 2166136261u;
    for (unsigned char c : s) { h ^= c; h *= 16777619u; }
    return h;
}

struct Case {
    bool have = false;
    std::string header, name;
    unsigned version = 0;
    std::vector<ItemT> items;
    Bytes bytes;
} cur;

// returns "ok <items>" / "err <exception>"; `shortForm`: "ok:<fnv>" / "<exception>"
// a script context that lives across several loads (`sess` / `sreset` / `sload`): the engine's save - reset - load cycle
std::unique_ptr<ScriptContext> g_session;

std::string readBack(const unsigned char* data, size_t len, bool shortForm, bool sameCtx = false, ScriptContext* session = nullptr)
{
    g_residue = 0;
    // an exact-size heap copy: a read past the end of the archive is an ASan report
    unsigned char* copy = static_cast<unsigned char*>(std::malloc(len ? len : 1));
    if (len) std::memcpy(copy, data, len);
    std::string res;
    // the archive is loaded in another session: a script context (string dictionary) that has never seen the
    // strings of the writing one; `sameCtx` reads in the writing context instead
    std::unique_ptr<ScriptContext> fresh;
    EventContext* const writer = &EventContext::Get();
    if (session) {
        EventContext::Set(session);
    } else if (!sameCtx) {
        fresh.reset(new ScriptContext);
        EventContext::Set(fresh.get());
    }
    {
        Run run;
        run.reading = true;
        run.collect(cur.items);
        std::vector<ItemT> out;
        const char* err = nullptr;
        version_info_t info;
        info.header = cur.header.c_str();
        info.archiveName = cur.name.c_str();
        info.version = cur.version;
        imemstream in(reinterpret_cast<const char*>(copy), len);
        try {
            Archiver arc = Archiver::CreateRead(in, info);
            run.exec(arc, cur.items, out);
        }
        catch (const ArchiveErrors::Base& e) {
            // the class name of the exception, whatever classes this tree has
            int st = 0;
            char* dn = abi::__cxa_demangle(typeid(e).name(), nullptr, nullptr, &st);
            static std::string keep;
            keep = dn ? dn : "ArchiveError:unknown";
            std::free(dn);
            const size_t c = keep.rfind("::");
            if (c != std::string::npos) keep = keep.substr(c + 2);
            err = keep.c_str();
        }
        catch (const std::bad_alloc&) { err = "std::bad_alloc"; }
        catch (const std::exception&) { err = "std::exception"; }
        catch (...) { err = "unknown-exception"; }
        if (err) res = shortForm ? std::string(err) : std::string("err ") + err;
        else {
            std::string s;
            for (const ItemT& it : out) if (it.kind == KVal || it.kind == KNamed) {
                std::vector<size_t> supply;
                supplyOf(it.val, supply);
                size_t next = 0;
                run.varLabel[&run.vars[it.slot]] = it.lbl;
                run.labelVars(run.vars[it.slot], supply, next);
            } else if (it.kind == KVl) {
                StringDictionary& dict = ScriptContext::Get().GetDirector().GetDictionary();
                for (const ItemT& en : it.entries) {
                    const const_str id = dict.Get(std::string(en.bytes.begin(), en.bytes.end()).c_str());
                    ScriptVariable* var = id != 0u ? run.lists[it.slot].GetVariable(id) : nullptr;
                    if (!var) continue;
                    std::vector<size_t> supply;
                    supplyOf(en.val, supply);
                    size_t next = 0;
                    run.varLabel[var] = en.lbl;
                    run.labelVars(*var, supply, next);
                }
            }
            showItems(out, run, s);
            res = shortForm ? "ok:" + std::to_string(fnv(s)) : "ok " + s;
        }
    }
    if (fresh) {
        fresh.reset();
        EventContext::Set(writer);
    }
    if (session) EventContext::Set(writer);
    std::free(copy);
    return res;
}

std::string rle(const std::vector<std::string>& l)
{
    if (l.empty()) return "-";
    std::string s;
    size_t start = 0;
    for (size_t i = 1; i <= l.size(); ++i) {
        if (i == l.size() || l[i] != l[start]) {
            if (!s.empty()) s += ' ';
            s += std::to_string(start) + "-" + std::to_string(i - 1) + ":" + l[start];
            start = i;
        }
    }
    return s;
}

std::vector<Bytes> registry()
{
    std::vector<Bytes> r;
    for (auto c = ClassDef::GetList(); c; c = c.Next()) {
        const char* n = c->GetClassName();
        r.emplace_back(n, n + std::strlen(n));
    }
    return r;
}

// ---- Listener::Archive with its own tables (con::set<const_str, ConList>) ------------------------------
// `lis <k> <N> (n|w|e <key-hex> <target>)*`: a Listener whose notify / wait-for / end tables are filled by the
// given insertions (key text, target listener 1..N or 0 for a null SafePtr), archived between the target
// listeners 1..k and k+1..N.  Answer: `<bytes> | <view as written> | <view as read back in a fresh context>`;
// view = per table `-` or `<tableLength> <threshold> <tableLengthIndex> <count> (<key-hex> <n> <targets…>)*`,
// written view in the order of the writer's table walk, read-back view sorted by key.
typedef con::set<const_str, ConList> ConSetT;

struct EntryView { std::string key; std::vector<size_t> tg; };

std::string viewOf(const ConSetT* set, const std::map<const Listener*, size_t>& lbl, bool sorted)
{
    if (!set) return "-";
    StringDictionary& dict = ScriptContext::Get().GetDirector().GetDictionary();
    std::vector<EntryView> es;
    for (uintptr_t i = set->tableLength; i > 0; i--) {
        for (con::Entry<const_str, ConList>* e = set->table[i - 1]; e; e = e->Next()) {
            EntryView v;
            const str& t = dict.Get(e->Key());
            const unsigned char* p = reinterpret_cast<const unsigned char*>(t.c_str());
            v.key = e->Key() == 0u ? std::string("-") : hexOf(Bytes(p, p + t.length()));
            const ConList& cl = e->Value();
            for (size_t j = 1; j <= cl.NumObjects(); ++j) {
                const Listener* l = cl.ObjectAt(j).Pointer();
                auto it = lbl.find(l);
                v.tg.push_back(!l ? 0 : it == lbl.end() ? 999999999 : it->second);
            }
            es.push_back(v);
        }
    }
    if (sorted) std::sort(es.begin(), es.end(), [](const EntryView& a, const EntryView& b) { return a.key < b.key; });
    std::string s = std::to_string(set->tableLength) + " " + std::to_string(set->threshold) + " " +
        std::to_string(set->tableLengthIndex) + " " + std::to_string(set->count);
    for (auto& e : es) {
        s += " " + e.key + " " + std::to_string(e.tg.size());
        for (size_t t : e.tg) s += " " + std::to_string(t);
    }
    return s;
}

void dropTables(Listener* l)
{
    // the tables were filled by hand (no counterpart entries in the targets): take them away before ~Listener
    delete l->m_NotifyList; l->m_NotifyList = nullptr;
    delete l->m_WaitForList; l->m_WaitForList = nullptr;
    delete l->m_EndList; l->m_EndList = nullptr;
}

std::string lisCase(const std::vector<std::string>& t)
{
    uint64_t k, n;
    if (t.size() < 3 || (t.size() - 3) % 3 || !nat(t[1], k) || !nat(t[2], n) || k > n || n > 64) return "bad-op";
    struct Ins { char tab; std::string key; size_t tgt; };
    std::vector<Ins> ins;
    for (size_t i = 3; i < t.size(); i += 3) {
        uint64_t g; Bytes kb;
        if (t[i].size() != 1 || !std::strchr("nwe", t[i][0]) || !unhex(t[i + 1], kb) || kb.empty() || !nat(t[i + 2], g) || g > n) return "bad-op";
        ins.push_back({ t[i][0], std::string(kb.begin(), kb.end()), (size_t)g });
    }
    version_info_t info;
    info.header = "MFUS";
    info.archiveName = "lis";
    info.version = 1;
    static char wbuf[1u << 20];
    size_t len = 0;
    std::string written, readback;
    {
        std::vector<std::unique_ptr<Listener>> tg;
        for (size_t i = 0; i < n; ++i) tg.emplace_back(new Listener);
        std::unique_ptr<Listener> L(new Listener);
        StringDictionary& dict = ScriptContext::Get().GetDirector().GetDictionary();
        for (auto& in : ins) {
            ConSetT*& set = in.tab == 'n' ? L->m_NotifyList : in.tab == 'w' ? L->m_WaitForList : L->m_EndList;
            if (!set) set = new ConSetT;
            ConList& cl = set->addKeyValue(dict.Add(in.key.c_str()));
            cl.AddObject(SafePtr<Listener>(in.tgt ? tg[in.tgt - 1].get() : nullptr));
        }
        std::map<const Listener*, size_t> lbl;
        for (size_t i = 0; i < n; ++i) lbl[tg[i].get()] = i + 1;
        written = viewOf(L->m_NotifyList, lbl, false) + " ; " + viewOf(L->m_WaitForList, lbl, false) + " ; " + viewOf(L->m_EndList, lbl, false);
        omemstream os(wbuf, sizeof(wbuf));
        try {
            {
                Archiver arc = Archiver::CreateWrite(os, info);
                for (size_t i = 0; i < k; ++i) arc.ArchiveObject(*tg[i]);
                arc.ArchiveObject(*L);
                for (size_t i = k; i < n; ++i) arc.ArchiveObject(*tg[i]);
            }
            len = (size_t)os.tellp();
        }
        catch (...) { dropTables(L.get()); return "write-failed"; }
        dropTables(L.get());
    }
    {
        EventContext* const writer = &EventContext::Get();
        std::unique_ptr<ScriptContext> fresh(new ScriptContext);
        EventContext::Set(fresh.get());
        unsigned char* copy = static_cast<unsigned char*>(std::malloc(len ? len : 1));
        std::memcpy(copy, wbuf, len);
        {
            std::vector<Class*> got;
            Listener* L = nullptr;
            const char* err = nullptr;
            imemstream in(reinterpret_cast<const char*>(copy), len);
            try {
                Archiver arc = Archiver::CreateRead(in, info);
                for (size_t i = 0; i < k; ++i) got.push_back(arc.ReadObject());
                L = dynamic_cast<Listener*>(arc.ReadObject());
                for (size_t i = k; i < n; ++i) got.push_back(arc.ReadObject<Listener>());
            }
            catch (const ArchiveErrors::Base&) { err = "archive-error"; }
            catch (...) { err = "other-exception"; }
            if (err || !L) readback = std::string("err ") + (err ? err : "no-listener");
            else {
                std::map<const Listener*, size_t> lbl;
                for (size_t i = 0; i < got.size(); ++i) lbl[dynamic_cast<Listener*>(got[i])] = i + 1;
                readback = viewOf(L->m_NotifyList, lbl, true) + " ; " + viewOf(L->m_WaitForList, lbl, true) + " ; " + viewOf(L->m_EndList, lbl, true);
            }
            if (L) { dropTables(L); }
            delete L;
            for (Class* c : got) delete c;
        }
        std::free(copy);
        fresh.reset();
        EventContext::Set(writer);
    }
    return hexOf(Bytes(reinterpret_cast<unsigned char*>(wbuf), reinterpret_cast<unsigned char*>(wbuf) + len)) + " | " + written + " | " + readback;
}

} // namespace

MFUS_CLASS_DECLARATION(Listener, VNode, nullptr)
{
    { nullptr, nullptr }
};
MFUS_CLASS_DECLARATION(VNode, VNodf, nullptr)
{
    { nullptr, nullptr }
};

int main(int argc, char** argv)
{
    static LimitedMemory limited;
    IMemoryManager::set(&limited);
    ScriptContext context;
    EventContext::Set(&context);

    static_assert(sizeof(strdata<char>) == 24, "the model's strOverhead");
    static_assert(sizeof(SafePtr<Listener>) == 32, "the model's safePtrSize");
    if (argc > 1 && std::string(argv[1]) == "--classes") {
        std::string s;
        for (auto& b : registry()) { if (!s.empty()) s += ' '; s += hexOf(b); }
        say(s);
        return 0;
    }

    std::vector<std::string> t;
    while (readTokens(t)) {
        if (t.empty()) { say("bad-op"); continue; }
        if (t[0] == "classes") {
            std::vector<Bytes> reg = registry();
            bool same = reg.size() == t.size() - 1;
            for (size_t i = 0; same && i < reg.size(); ++i) same = hexOf(reg[i]) == t[i + 1];
            cur = Case();
            g_session.reset();
            EventContext::Set(&context);
            say(same ? "ok" : "registry-mismatch");
            continue;
        }
        if (t[0] == "lis") { say(lisCase(t)); continue; }
        if (t[0] == "sess" && t.size() == 1) {
            // a new session: the script context the following `sload`s read into
            g_session.reset(new ScriptContext);
            EventContext::Set(&context);
            say("ok");
            continue;
        }
        if (t[0] == "sreset") {
            // `ScriptMaster::Reset()` of the session (the dictionary is emptied and refilled with the predefined strings),
            // then the given texts are interned, in this order
            if (!g_session) { say("bad-op"); continue; }
            bool ok = true;
            std::vector<Bytes> texts(t.size() - 1);
            for (size_t i = 1; ok && i < t.size(); ++i) ok = unhex(t[i], texts[i - 1]) && !texts[i - 1].empty();
            if (!ok) { say("bad-op"); continue; }
            EventContext::Set(g_session.get());
            g_session->GetDirector().Reset();
            for (auto& b : texts) g_session->GetDirector().GetDictionary().Add(std::string(b.begin(), b.end()).c_str());
            EventContext::Set(&context);
            say("ok");
            continue;
        }
        if (t[0] == "sload" && t.size() == 1) {
            if (!g_session || !cur.have) { say("bad-op"); continue; }
            say(readBack(cur.bytes.data(), cur.bytes.size(), false, false, g_session.get()));
            continue;
        }
        if (t[0] == "arc" || t[0] == "canon") {
            const bool canonOnly = t[0] == "canon";
            // the ids of the writing dictionary (the hash of a variable name) must not depend on earlier lines
            ScriptContext::Get().GetDirector().Reset();
            uint64_t v;
            Bytes h, n;
            Case c;
            if (t.size() < 4 || !nat(t[1], v) || !unhex(t[2], h) || !unhex(t[3], n)) { say("bad-op"); continue; }
            size_t i = 4;
            bool ok = true;
            while (ok && i < t.size()) { c.items.emplace_back(); ok = parseItem(t, i, c.items.back()); }
            if (!ok) { say("bad-op"); continue; }
            c.header.assign(h.begin(), h.end());
            c.name.assign(n.begin(), n.end());
            c.version = (unsigned)v;
            c.have = true;
            cur = c;
            const size_t cap = 1u << 23;
            static char wbuf[1u << 23];     // static: operator new goes through the limited memory manager
            struct { char* get() { return wbuf; } } buf;
            size_t len = 0;
            std::string werr, canon;
            bool canonBad = false;
            {
                Run run;
                run.collect(cur.items);
                run.prebuild(cur.items);
                run.resolve();
                for (auto& c : run.canon) canon += (canon.empty() ? "" : " ; ") + c;
                canonBad = run.canonBad;
                if (!(canonOnly || canonBad)) {
                std::vector<ItemT> out;
                version_info_t info;
                info.header = cur.header.c_str();
                info.archiveName = cur.name.c_str();
                info.version = cur.version;
                omemstream os(buf.get(), cap);
                try {
                    {
                        Archiver arc = Archiver::CreateWrite(os, info);
                        run.exec(arc, cur.items, out);
                    }
                    len = (size_t)os.tellp();
                }
                catch (...) { werr = "write-failed"; }
                }
            }
            // `canon`: the real header numbers and walk order of every hash array of the line, in build order
            if (canonOnly) { cur.have = false; say(canon.empty() ? "-" : canon); continue; }
            if (canonBad) { cur.have = false; say("canon-mismatch " + canon); continue; }
            if (!werr.empty() || len > cap) { cur.have = false; say("write-failed"); continue; }
            cur.bytes.assign(reinterpret_cast<unsigned char*>(buf.get()), reinterpret_cast<unsigned char*>(buf.get()) + len);
            say(hexOf(cur.bytes) + " | " + readBack(cur.bytes.data(), cur.bytes.size(), false));
            continue;
        }
        if (!cur.have) { say("bad-op"); continue; }
        uint64_t a, b;
        if (t[0] == "rsame" && t.size() == 1) {
            say(readBack(cur.bytes.data(), cur.bytes.size(), false, true));
        } else if (t[0] == "t" && t.size() == 2 && nat(t[1], a) && a <= cur.bytes.size()) {
            say(readBack(cur.bytes.data(), (size_t)a, false));
        } else if (t[0] == "s" && t.size() == 3 && nat(t[1], a) && nat(t[2], b) && a < cur.bytes.size() && b < 256) {
            Bytes m = cur.bytes;
            m[a] = (unsigned char)b;
            say(readBack(m.data(), m.size(), false));
        } else if (t[0] == "m" && t.size() >= 3 && t.size() % 2 == 1) {
            Bytes m = cur.bytes;
            bool ok = true;
            for (size_t i = 1; ok && i + 1 < t.size(); i += 2) {
                ok = nat(t[i], a) && nat(t[i + 1], b) && a < m.size() && b < 256;
                if (ok) m[a] = (unsigned char)b;
            }
            say(ok ? readBack(m.data(), m.size(), false) : std::string("bad-op"));
        } else if (t[0] == "tall" && t.size() == 1) {
            std::vector<std::string> l;
            for (size_t k = 0; k < cur.bytes.size(); ++k) l.push_back(readBack(cur.bytes.data(), k, true));
            say(rle(l));
        } else if (t[0] == "sx" && t.size() == 2 && nat(t[1], a) && a < cur.bytes.size()) {
            std::vector<std::string> l;
            for (unsigned v = 0; v < 256; ++v) {
                if (v == cur.bytes[a]) { l.push_back("same"); continue; }
                Bytes m = cur.bytes;
                m[a] = (unsigned char)v;
                l.push_back(readBack(m.data(), m.size(), true));
            }
            say(rle(l));
        } else {
            say("bad-op");
        }
    }
    return 0;
}
