// Correspondence harness for property C19: drives the real MEM::BlockAlloc<T, N> (N = 2, 3, 256)
// with the line protocol of lean/Driver/BlockAlloc.lean and prints the same observation lines.
//
// `pool <N> [e16|s1|s2|s3|h2]`: the element type.  e16 (default) = `Elem`, alignas(16), owns a forest of other
// elements; s1 / s2 / s3 = 1-, 2-, 3-byte types of alignment 1, h2 = a 2-byte type of alignment 2 (info_t then
// ends in padding: the header size is NOT sizeof(info_t) - sizeof(T)).  The small types cannot own anything
// (`own` is answered bad-op); their destructor looks its id up by address and checks its fill pattern.
// The slot a pointer denotes is located with the header offset computed HERE (offsetof(info_t, data)), not
// with block_s::getHeaderSize(): a pool that locates a different slot than the layout says is a difference.
//
// What is observed, all from the real object:
//   * the (block, slot index) of every pointer Alloc returns, recovered from the address exactly the
//     way BlockAlloc::Free does (info_t header -> index -> block base); blocks are named by the
//     ordinal of the MEM::Alloc call that produced them (a tracking IMemoryManager is installed, so
//     a block address that malloc hands out twice still gets two names, as in the model);
//   * Count(), BlockCount();
//   * the order in which element destructors complete during `del` and FreeAll (the element type
//     owns other elements of the same pool and destroys + frees them from its destructor).
// Facts about real addresses that the model cannot express are checked here and appended to the
// answer as `!flag` tokens (the model never prints one, so any flag is a difference):
//   !misaligned  !overlap  !outside-block  !unknown-block  !bad-index  !blockcount  !corrupt
#include <morfuse/Common/MEM/BlockAlloc.h>
#include <morfuse/Common/MEM/Memory.h>
#include "lineio.h"

#include <algorithm>
#include <cstddef>
#include <cstring>
#include <cstdint>
#include <cstdlib>
#include <map>
#include <memory>
#include <string>
#include <vector>

using namespace mfuse;

namespace {

// ---- block bookkeeping through the engine's own memory-manager interface --------------------
struct TrackMM : public IMemoryManager {
    std::map<uintptr_t, std::pair<size_t, size_t>> blocks;   // base -> (ordinal, size)
    size_t nextOrd = 1;
    void* allocate(size_t size) override
    {
        void* p = std::malloc(size);
        blocks[(uintptr_t)p] = { nextOrd++, size };
        return p;
    }
    void free(void* ptr) noexcept override
    {
        blocks.erase((uintptr_t)ptr);
        std::free(ptr);
    }
    void reset() { blocks.clear(); nextOrd = 1; }
};
TrackMM g_mm;

struct Elem;
struct PoolIface {
    virtual ~PoolIface() {}
    virtual void* Alloc() = 0;
    virtual void Free(void* p) = 0;
    virtual void FreeAll() = 0;
    virtual size_t Count() = 0;
    virtual size_t BlockCount() = 0;
    // (block base, index) of a payload pointer, computed as BlockAlloc::Free computes it
    virtual void locate(void* p, uintptr_t& base, size_t& idx, uintptr_t& payloadOfIdx) = 0;
    virtual size_t blockSize() const = 0;
    virtual size_t elemSize() const = 0;
    virtual size_t elemAlign() const = 0;
    virtual bool hasOwnership() const = 0;
    virtual void construct(void* p, size_t id) = 0;
    virtual void destroyAndFree(void* p) = 0;     // `p->~T(); pool.Free(p);`
};

PoolIface* g_pool = nullptr;
std::string g_flags;                 // anomalies seen while executing the current line
std::vector<size_t> g_destroyed;     // ids in the order their destructors completed
std::map<uintptr_t, size_t> g_liveAddr;   // payload address -> id  (what the host still uses)
std::vector<void*> g_elem;           // id -> live element (index 0 unused)

void flag(const char* f) { if (g_flags.find(f) == std::string::npos) { g_flags += ' '; g_flags += f; } }

void releaseTracking(void* e);

// ---- the pooled element: owns other elements of the same pool ---------------------------------
struct alignas(16) Elem {
    uint64_t id;
    uint64_t canary;
    Elem* parent;
    std::vector<Elem*> kids;

    explicit Elem(uint64_t i) : id(i), canary(i * 0x9E3779B97F4A7C15ull + 1), parent(nullptr) {}

    ~Elem()
    {
        if (canary != id * 0x9E3779B97F4A7C15ull + 1) flag("!corrupt");
        // destroy and free everything this element owns (each child unlinks itself from `kids`)
        while (!kids.empty()) {
            Elem* c = kids.front();
            c->~Elem();
            releaseTracking(c);
            g_pool->Free(c);
        }
        if (parent) {
            auto& pk = parent->kids;
            pk.erase(std::find(pk.begin(), pk.end(), this));
            parent = nullptr;
        }
        g_destroyed.push_back((size_t)id);
        canary = 0;
    }
};

void releaseTracking(void* e) { g_liveAddr.erase((uintptr_t)e); }

// ---- small pooled elements (1, 2, 3 bytes): no room for an id, the address is the identity --------
inline uint8_t fillOf(size_t id) { return (uint8_t)(id * 37u + 11u); }

void smallDestroyed(const void* self, const uint8_t* bytes, size_t n)
{
    auto it = g_liveAddr.find((uintptr_t)self);
    const size_t id = it == g_liveAddr.end() ? 0 : it->second;     // 0: the pool destroyed something the host does not own
    for (size_t i = 0; i < n; ++i) if (bytes[i] != fillOf(id)) flag("!corrupt");
    g_destroyed.push_back(id);
}

template<size_t N>
struct Small {                       // sizeof N, alignof 1
    uint8_t b[N];
    explicit Small(size_t id) { std::memset(b, fillOf(id), N); }
    ~Small() { smallDestroyed(this, b, N); }
};
struct Half {                        // sizeof 2, alignof 2
    uint16_t h;
    explicit Half(size_t id) : h((uint16_t)(fillOf(id) | (fillOf(id) << 8))) {}
    ~Half() { smallDestroyed(this, reinterpret_cast<const uint8_t*>(&h), 2); }
};
static_assert(sizeof(Small<1>) == 1 && sizeof(Small<2>) == 2 && sizeof(Small<3>) == 3 && alignof(Small<3>) == 1, "small element layout");
static_assert(sizeof(Half) == 2 && alignof(Half) == 2, "small element layout");

template<typename T> struct ElemTraits {
    static constexpr bool owns = false;
    static void construct(void* p, size_t id) { new (p) T(id); }
    static void destroy(void* p) { static_cast<T*>(p)->~T(); }
};
template<> struct ElemTraits<Elem> {
    static constexpr bool owns = true;
    static void construct(void* p, size_t id) { new (p) Elem(id); }
    static void destroy(void* p) { static_cast<Elem*>(p)->~Elem(); }
};

template<typename T, size_t BS>
struct Pool : public PoolIface {
    using block_t = MEM::block_s<T, BS>;
    using info_t = typename block_t::info_t;
    static_assert(sizeof(typename block_t::offset_t) * 8 >= 8 && ((size_t)1 << (sizeof(typename block_t::offset_t) * 8)) >= BS,
                  "offset_t must be able to index every slot");
    MEM::BlockAlloc<T, BS> a;
    void* Alloc() override { return a.Alloc(); }
    void Free(void* p) override { a.Free(p); }
    void FreeAll() override { a.FreeAll(); }
    size_t Count() override { return a.Count(); }
    size_t BlockCount() override { return a.BlockCount(); }
    size_t blockSize() const override { return sizeof(block_t); }
    size_t elemSize() const override { return sizeof(T); }
    size_t elemAlign() const override { return alignof(T); }
    bool hasOwnership() const override { return ElemTraits<T>::owns; }
    void construct(void* p, size_t id) override { ElemTraits<T>::construct(p, id); }
    void destroyAndFree(void* p) override { ElemTraits<T>::destroy(p); releaseTracking(p); a.Free(p); }
    void locate(void* ptr, uintptr_t& base, size_t& idx, uintptr_t& payloadOfIdx) override
    {
        // the layout's own answer: the payload is the member `data` of an info_t
#pragma GCC diagnostic push
#pragma GCC diagnostic ignored "-Winvalid-offsetof"
        constexpr size_t headerSize = offsetof(info_t, data);
#pragma GCC diagnostic pop
        info_t* header = reinterpret_cast<info_t*>(static_cast<unsigned char*>(ptr) - headerSize);
        // the block that contains the pointer, from the memory manager's records (not from the header)
        auto it = g_mm.blocks.upper_bound((uintptr_t)ptr);
        if (it == g_mm.blocks.begin()) { base = 0; idx = 0; payloadOfIdx = 0; return; }
        --it;
        if ((uintptr_t)ptr >= it->first + it->second.second) { base = 0; idx = 0; payloadOfIdx = 0; return; }
        block_t* const block = (block_t*)it->first;
        base = it->first;
        // the slot whose payload this is, by address arithmetic over the real array
        const size_t k = (size_t)((uint8_t*)header - (uint8_t*)&block->data[0]) / sizeof(info_t);
        idx = k;
        payloadOfIdx = k < BS ? (uintptr_t)block->data[k].data : 0;
        // ... and what the slot header says (what BlockAlloc::Free will read)
        if (k < BS && (size_t)block->data[k].index != k) flag("!bad-index");
    }
};

Elem* asElem(size_t id) { return static_cast<Elem*>(g_elem[id]); }

bool isAncestor(Elem* a, Elem* x)
{
    for (; x; x = x->parent) if (x == a) return true;
    return false;
}

std::string idList(const std::vector<size_t>& v)
{
    std::string s;
    for (size_t i = 0; i < v.size(); ++i) { if (i) s += ','; s += std::to_string(v[i]); }
    return s;
}

void checkBlockCount()
{
    if (g_pool->BlockCount() != g_mm.blocks.size()) flag("!blockcount");
}

void dropPool()
{
    // ~BlockAlloc runs FreeAll over whatever is still live
    delete g_pool;
    g_pool = nullptr;
    g_elem.assign(1, nullptr);
    g_liveAddr.clear();
    g_destroyed.clear();
    g_flags.clear();
    g_mm.reset();
}

} // namespace

int main()
{
    IMemoryManager::set(&g_mm);
    g_elem.assign(1, nullptr);
    std::vector<std::string> t;
    while (readTokens(t)) {
        std::vector<size_t> n;
        const bool numeric = parseNats(t, 1, n);
        const std::string& op = t.empty() ? std::string() : t[0];
        g_flags.clear();
        g_destroyed.clear();
        if (op == "pool" && (t.size() == 2 || t.size() == 3)) {
            const std::string kind = t.size() == 3 ? t[2] : "e16";
            std::vector<std::string> t2(t.begin(), t.begin() + 2);
            std::vector<size_t> bsv;
            if (!parseNats(t2, 1, bsv) || bsv.size() != 1 || !(bsv[0] == 2 || bsv[0] == 3 || bsv[0] == 256) ||
                !(kind == "e16" || kind == "s1" || kind == "s2" || kind == "s3" || kind == "h2")) { say("bad-op"); continue; }
            dropPool();
            const size_t bs = bsv[0];
#define MKPOOL(T) (bs == 2 ? (PoolIface*)new Pool<T, 2>() : bs == 3 ? (PoolIface*)new Pool<T, 3>() : (PoolIface*)new Pool<T, 256>())
            if (kind == "e16") g_pool = MKPOOL(Elem);
            else if (kind == "s1") g_pool = MKPOOL(Small<1>);
            else if (kind == "s2") g_pool = MKPOOL(Small<2>);
            else if (kind == "s3") g_pool = MKPOOL(Small<3>);
            else g_pool = MKPOOL(Half);
#undef MKPOOL
            say("ok");
            continue;
        }
        if (!numeric || !g_pool) { say("bad-op"); continue; }
        auto live = [&](size_t id) { return id != 0 && id < g_elem.size() && g_elem[id]; };
        if (op == "alloc" && n.empty()) {
            void* p = g_pool->Alloc();
            const size_t id = g_elem.size();
            uintptr_t base = 0, payload = 0; size_t idx = 0;
            if ((uintptr_t)p % g_pool->elemAlign() != 0) flag("!misaligned");
            g_pool->locate(p, base, idx, payload);
            std::string b = "?";
            auto it = g_mm.blocks.find(base);
            if (it == g_mm.blocks.end()) flag("!unknown-block");
            else {
                b = std::to_string(it->second.first);
                if ((uintptr_t)p < base || (uintptr_t)p + g_pool->elemSize() > base + it->second.second) flag("!outside-block");
                if (payload != (uintptr_t)p) flag("!bad-index");
            }
            // must not overlap anything the host still uses
            auto nx = g_liveAddr.lower_bound((uintptr_t)p);
            if (nx != g_liveAddr.end() && nx->first < (uintptr_t)p + g_pool->elemSize()) flag("!overlap");
            if (nx != g_liveAddr.begin()) { auto pv = std::prev(nx); if (pv->first + g_pool->elemSize() > (uintptr_t)p) flag("!overlap"); }
            checkBlockCount();
            if (g_flags.find("!overlap") == std::string::npos) {
                g_pool->construct(p, id);
                g_elem.push_back(p);
                g_liveAddr[(uintptr_t)p] = id;
            } else {
                g_elem.push_back(nullptr);     // do not construct over a live object
            }
            say("ok id=" + std::to_string(id) + " b=" + b + " i=" + std::to_string(idx) +
                " blocks=" + std::to_string(g_pool->BlockCount()) + g_flags);
        } else if (op == "own" && n.size() == 2) {
            if (g_pool->hasOwnership() && live(n[0]) && live(n[1]) && n[0] != n[1] && !asElem(n[1])->parent && !isAncestor(asElem(n[1]), asElem(n[0]))) {
                asElem(n[1])->parent = asElem(n[0]);
                asElem(n[0])->kids.push_back(asElem(n[1]));
                say("ok");
            } else say("bad-op");
        } else if (op == "del" && n.size() == 1) {
            if (!live(n[0])) { say("bad-op"); continue; }
            g_pool->destroyAndFree(g_elem[n[0]]);
            for (size_t id : g_destroyed) if (id < g_elem.size()) g_elem[id] = nullptr;
            checkBlockCount();
            say("ok d=" + idList(g_destroyed) + " blocks=" + std::to_string(g_pool->BlockCount()) + g_flags);
        } else if (op == "count" && n.empty()) {
            say("ok count=" + std::to_string(g_pool->Count()) + g_flags);
        } else if (op == "freeall" && n.empty()) {
            g_pool->FreeAll();
            for (size_t id : g_destroyed) if (id < g_elem.size()) g_elem[id] = nullptr;
            // whatever FreeAll did not destroy is still a live host object; it stays in the tables so
            // that a later overlap is seen
            for (auto it = g_liveAddr.begin(); it != g_liveAddr.end();) {
                if (it->second < g_elem.size() && !g_elem[it->second]) it = g_liveAddr.erase(it); else ++it;
            }
            checkBlockCount();
            say("ok d=" + idList(g_destroyed) + " count=" + std::to_string(g_pool->Count()) +
                " blocks=" + std::to_string(g_pool->BlockCount()) + g_flags);
        } else {
            say("bad-op");
        }
    }
    dropPool();
    IMemoryManager::set(nullptr);
    return 0;
}
