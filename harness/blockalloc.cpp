// Correspondence harness for property C19: drives the real MEM::BlockAlloc<Elem, N> (N = 2, 3, 256)
// with the line protocol of lean/Driver/BlockAlloc.lean and prints the same observation lines.
//
// What is observed, all from the real object:
//   * the (block, slot index) of every pointer Alloc returns, recovered from the address exactly the
//     way BlockAlloc::Free does (info_t header -> index -> block base); blocks are named by the
//     ordinal of the MEM::Alloc call that produced them (a tracking IMemoryManager is installed, so
//     a block address that malloc hands out twice still gets two names, as in the model);
//   * Count(), BlockCount();
//   * the order in which element destructors complete during `del` and FreeAll (the element type
//     owns other elements of the same pool and destroys + frees them from its destructor).
// Facts about real addresses that the model cannot express are checked here and appended to the
// answer as `!flag` tokens (the model never prints one, so any flag is a difference):
//   !misaligned  !overlap  !outside-block  !unknown-block  !bad-index  !blockcount  !corrupt
#include <morfuse/Common/MEM/BlockAlloc.h>
#include <morfuse/Common/MEM/Memory.h>
#include "lineio.h"

#include <algorithm>
#include <cstdint>
#include <cstdlib>
#include <map>
#include <memory>
#include <string>
#include <vector>

using namespace mfuse;

namespace {

// ---- block bookkeeping through the engine's own memory-manager interface --------------------
struct TrackMM : public IMemoryManager {
    std::map<uintptr_t, std::pair<size_t, size_t>> blocks;   // base -> (ordinal, size)
    size_t nextOrd = 1;
    void* allocate(size_t size) override
    {
        void* p = std::malloc(size);
        blocks[(uintptr_t)p] = { nextOrd++, size };
        return p;
    }
    void free(void* ptr) noexcept override
    {
        blocks.erase((uintptr_t)ptr);
        std::free(ptr);
    }
    void reset() { blocks.clear(); nextOrd = 1; }
};
TrackMM g_mm;

struct Elem;
struct PoolIface {
    virtual ~PoolIface() {}
    virtual void* Alloc() = 0;
    virtual void Free(void* p) = 0;
    virtual void FreeAll() = 0;
    virtual size_t Count() = 0;
    virtual size_t BlockCount() = 0;
    // (block base, index) of a payload pointer, computed as BlockAlloc::Free computes it
    virtual void locate(void* p, uintptr_t& base, size_t& idx, uintptr_t& payloadOfIdx) = 0;
    virtual size_t blockSize() const = 0;
};

PoolIface* g_pool = nullptr;
std::string g_flags;                 // anomalies seen while executing the current line
std::vector<size_t> g_destroyed;     // ids in the order their destructors completed
std::map<uintptr_t, size_t> g_liveAddr;   // payload address -> id  (what the host still uses)
std::vector<Elem*> g_elem;           // id -> live element (index 0 unused)

void flag(const char* f) { if (g_flags.find(f) == std::string::npos) { g_flags += ' '; g_flags += f; } }

void releaseTracking(Elem* e);

// ---- the pooled element: owns other elements of the same pool ---------------------------------
struct alignas(16) Elem {
    uint64_t id;
    uint64_t canary;
    Elem* parent;
    std::vector<Elem*> kids;

    explicit Elem(uint64_t i) : id(i), canary(i * 0x9E3779B97F4A7C15ull + 1), parent(nullptr) {}

    ~Elem()
    {
        if (canary != id * 0x9E3779B97F4A7C15ull + 1) flag("!corrupt");
        // destroy and free everything this element owns (each child unlinks itself from `kids`)
        while (!kids.empty()) {
            Elem* c = kids.front();
            c->~Elem();
            releaseTracking(c);
            g_pool->Free(c);
        }
        if (parent) {
            auto& pk = parent->kids;
            pk.erase(std::find(pk.begin(), pk.end(), this));
            parent = nullptr;
        }
        g_destroyed.push_back((size_t)id);
        canary = 0;
    }
};

void releaseTracking(Elem* e) { g_liveAddr.erase((uintptr_t)e); }

template<size_t BS>
struct Pool : public PoolIface {
    using block_t = MEM::block_s<Elem, BS>;
    static_assert(sizeof(typename block_t::offset_t) * 8 >= 8 && ((size_t)1 << (sizeof(typename block_t::offset_t) * 8)) >= BS,
                  "offset_t must be able to index every slot");
    MEM::BlockAlloc<Elem, BS> a;
    void* Alloc() override { return a.Alloc(); }
    void Free(void* p) override { a.Free(p); }
    void FreeAll() override { a.FreeAll(); }
    size_t Count() override { return a.Count(); }
    size_t BlockCount() override { return a.BlockCount(); }
    size_t blockSize() const override { return sizeof(block_t); }
    void locate(void* ptr, uintptr_t& base, size_t& idx, uintptr_t& payloadOfIdx) override
    {
        typename block_t::info_t* header = reinterpret_cast<typename block_t::info_t*>(
            static_cast<unsigned char*>(ptr) - block_t::getHeaderSize());
        idx = header->index;
        block_t* const block = (block_t*)((uint8_t*)header - idx * block_t::datasize - block_t::dataoffset);
        base = (uintptr_t)block;
        payloadOfIdx = idx < BS && g_mm.blocks.count(base) ? (uintptr_t)block->data[idx].data : 0;
    }
};

bool isAncestor(Elem* a, Elem* x)
{
    for (; x; x = x->parent) if (x == a) return true;
    return false;
}

std::string idList(const std::vector<size_t>& v)
{
    std::string s;
    for (size_t i = 0; i < v.size(); ++i) { if (i) s += ','; s += std::to_string(v[i]); }
    return s;
}

void checkBlockCount()
{
    if (g_pool->BlockCount() != g_mm.blocks.size()) flag("!blockcount");
}

void dropPool()
{
    // ~BlockAlloc runs FreeAll over whatever is still live
    delete g_pool;
    g_pool = nullptr;
    g_elem.assign(1, nullptr);
    g_liveAddr.clear();
    g_destroyed.clear();
    g_flags.clear();
    g_mm.reset();
}

} // namespace

int main()
{
    IMemoryManager::set(&g_mm);
    g_elem.assign(1, nullptr);
    std::vector<std::string> t;
    while (readTokens(t)) {
        std::vector<size_t> n;
        const bool numeric = parseNats(t, 1, n);
        const std::string& op = t.empty() ? std::string() : t[0];
        g_flags.clear();
        g_destroyed.clear();
        if (op == "pool" && numeric && n.size() == 1 && (n[0] == 2 || n[0] == 3 || n[0] == 256)) {
            dropPool();
            if (n[0] == 2) g_pool = new Pool<2>();
            else if (n[0] == 3) g_pool = new Pool<3>();
            else g_pool = new Pool<256>();
            say("ok");
            continue;
        }
        if (!numeric || !g_pool) { say("bad-op"); continue; }
        auto live = [&](size_t id) { return id != 0 && id < g_elem.size() && g_elem[id]; };
        if (op == "alloc" && n.empty()) {
            void* p = g_pool->Alloc();
            const size_t id = g_elem.size();
            uintptr_t base = 0, payload = 0; size_t idx = 0;
            g_pool->locate(p, base, idx, payload);
            std::string b = "?";
            auto it = g_mm.blocks.find(base);
            if (it == g_mm.blocks.end()) flag("!unknown-block");
            else {
                b = std::to_string(it->second.first);
                if ((uintptr_t)p < base || (uintptr_t)p + sizeof(Elem) > base + it->second.second) flag("!outside-block");
                if (payload != (uintptr_t)p) flag("!bad-index");
            }
            if ((uintptr_t)p % alignof(Elem) != 0) flag("!misaligned");
            // must not overlap anything the host still uses
            auto nx = g_liveAddr.lower_bound((uintptr_t)p);
            if (nx != g_liveAddr.end() && nx->first < (uintptr_t)p + sizeof(Elem)) flag("!overlap");
            if (nx != g_liveAddr.begin()) { auto pv = std::prev(nx); if (pv->first + sizeof(Elem) > (uintptr_t)p) flag("!overlap"); }
            checkBlockCount();
            if (g_flags.find("!overlap") == std::string::npos) {
                Elem* e = new (p) Elem(id);
                g_elem.push_back(e);
                g_liveAddr[(uintptr_t)p] = id;
            } else {
                g_elem.push_back(nullptr);     // do not construct over a live object
            }
            say("ok id=" + std::to_string(id) + " b=" + b + " i=" + std::to_string(idx) +
                " blocks=" + std::to_string(g_pool->BlockCount()) + g_flags);
        } else if (op == "own" && n.size() == 2) {
            if (live(n[0]) && live(n[1]) && n[0] != n[1] && !g_elem[n[1]]->parent && !isAncestor(g_elem[n[1]], g_elem[n[0]])) {
                g_elem[n[1]]->parent = g_elem[n[0]];
                g_elem[n[0]]->kids.push_back(g_elem[n[1]]);
                say("ok");
            } else say("bad-op");
        } else if (op == "del" && n.size() == 1) {
            if (!live(n[0])) { say("bad-op"); continue; }
            Elem* e = g_elem[n[0]];
            e->~Elem();
            releaseTracking(e);
            g_pool->Free(e);
            for (size_t id : g_destroyed) if (id < g_elem.size()) g_elem[id] = nullptr;
            checkBlockCount();
            say("ok d=" + idList(g_destroyed) + " blocks=" + std::to_string(g_pool->BlockCount()) + g_flags);
        } else if (op == "count" && n.empty()) {
            say("ok count=" + std::to_string(g_pool->Count()) + g_flags);
        } else if (op == "freeall" && n.empty()) {
            g_pool->FreeAll();
            for (size_t id : g_destroyed) if (id < g_elem.size()) g_elem[id] = nullptr;
            // whatever FreeAll did not destroy is still a live host object; it stays in the tables so
            // that a later overlap is seen
            for (auto it = g_liveAddr.begin(); it != g_liveAddr.end();) {
                if (it->second < g_elem.size() && !g_elem[it->second]) it = g_liveAddr.erase(it); else ++it;
            }
            checkBlockCount();
            say("ok d=" + idList(g_destroyed) + " count=" + std::to_string(g_pool->Count()) +
                " blocks=" + std::to_string(g_pool->BlockCount()) + g_flags);
        } else {
            say("bad-op");
        }
    }
    dropPool();
    IMemoryManager::set(nullptr);
    return 0;
}
