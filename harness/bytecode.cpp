// Correspondence harness for C02 (bytecode well-formedness / operand-stack discipline).
//
// One input line per program, one output line per program:
//
//   prog <hex-source> [nargs=<n>] [budget=<instructions>] [self=<0|1>]
//
// The source is compiled with the REAL compiler (director.GetProgramScript(name, stream)).  Answer:
//
//   dump len=<allocated length> code=<hex> stack=<requiredStackSize> dict=<dictionary size>
//        nev=<event count> nnames=<event name count> ctl=<event numbers of end,goto,throw,delete,remove,immediateremove>
//        labels=<off,...> sw=<token>:<off>,...|... catch=<tryStart>-<tryEnd>:<off>,...|...
//        starts=<off>:<idx>:<marked>,...            (distinct first probes of a VM)
//        edges=<off>:<idx>:<m>><off>:<idx>:<m>,...   (distinct pairs of consecutive H4 probes of one VM)
//        ends=<off>:<idx>:<m>><idx>,...              (last probe of an ended thread's VM > stack index at offset -1)
//        runs=<entry>:<outcome>;...  nprobe=<number of probe calls> stale=<probes without a known predecessor>
//   (idx is reported as 0 while marked: inside MARK..RESTORE pTop points into the host's argument cells)
//
// or `compile-error <kind>`.  The dump line is, verbatim, the input of `driver bytecode`.
// Everything before `probes=` is static (read out of the ProgramScript with -fno-access-control);
// `probes`/`ends` come from running the start of the script and every label of the main label table on
// the real VM with hook H4 (mfuse::verif::vm_probe) installed, under the injected clock (hook H1).
#include <morfuse/Script/Context.h>
#include <morfuse/Script/ScriptVariable.h>
#include <morfuse/Script/ScriptException.h>
#include <morfuse/Script/ScriptThread.h>
#include <morfuse/Script/ScriptVM.h>
#include <morfuse/Script/ProgramScript.h>
#include <morfuse/Script/StateScript.h>
#include <morfuse/Script/EventSystem.h>
#include <morfuse/Script/SourceException.h>
#include <morfuse/Script/Level.h>
#include <morfuse/Script/Game.h>
#include <morfuse/Script/SimpleEntity.h>
#include <morfuse/Script/ScriptClass.h>
#include <morfuse/Common/membuf.h>
#include <morfuse/Common/OutputInfo.h>
#include "lineio.h"

#include <csignal>
#include <sstream>
#include <set>
#include <map>
#include <tuple>
#include <memory>
#include <cstring>
#include <algorithm>

using namespace mfuse;

// A host class whose commands raise script errors / are write-only or read-only variables: the error
// paths of OP_STORE_FIELD, OP_LOAD_FIELD_VAR, OP_LOAD_SELF_VAR, OP_EXEC_* as a host can provoke them.
EventDef EV_VProbe_WOnly("vp_wonly", EV_DEFAULT, "i", "value", "write-only variable", evType_e::Setter);
EventDef EV_VProbe_ROnly("vp_ronly", EV_DEFAULT, NULL, NULL, "read-only variable", evType_e::Getter);
EventDef EV_VProbe_FailGet("vp_failget", EV_DEFAULT, NULL, NULL, "getter that raises", evType_e::Getter);
EventDef EV_VProbe_FailSet("vp_failset", EV_DEFAULT, "i", "value", "setter that raises", evType_e::Setter);
EventDef EV_VProbe_FailSetG("vp_failset", EV_DEFAULT, NULL, NULL, "its getter", evType_e::Getter);
EventDef EV_VProbe_Fail("vp_fail", EV_DEFAULT, "IIIIII", "a b c d e f", "command that raises", evType_e::Normal);
EventDef EV_VProbe_FailRet("vp_failret", EV_DEFAULT, "IIIIII", "a b c d e f", "method that raises", evType_e::Return);
EventDef EV_VProbe_Echo("vp_echo", EV_DEFAULT, "IIIIII", "a b c d e f", "method that returns its argument count", evType_e::Return);

class VProbe : public SimpleEntity
{
    MFUS_CLASS_PROTOTYPE(VProbe);
public:
    void WOnly(Event&) {}
    void ROnly(Event& ev) { ev.AddLong(7); }
    void FailGet(Event&) { throw ScriptException("vp_failget raised"); }
    void FailSet(Event&) { throw ScriptException("vp_failset raised"); }
    void FailSetG(Event& ev) { ev.AddLong(1); }
    void Fail(Event&) { throw ScriptException("vp_fail raised"); }
    void FailRet(Event&) { throw ScriptException("vp_failret raised"); }
    void Echo(Event& ev) { ev.AddLong(long(ev.NumArgs())); }
};

MFUS_CLASS_DECLARATION(SimpleEntity, VProbe, "vprobe")
{
    { &EV_VProbe_WOnly, &VProbe::WOnly },
    { &EV_VProbe_ROnly, &VProbe::ROnly },
    { &EV_VProbe_FailGet, &VProbe::FailGet },
    { &EV_VProbe_FailSet, &VProbe::FailSet },
    { &EV_VProbe_FailSetG, &VProbe::FailSetG },
    { &EV_VProbe_Fail, &VProbe::Fail },
    { &EV_VProbe_FailRet, &VProbe::FailRet },
    { &EV_VProbe_Echo, &VProbe::Echo },
    { NULL, NULL }
};

namespace {
uint64_t g_clock = 0;
uint64_t g_clockStep = 0;
uint64_t clockFn() { const uint64_t v = g_clock; g_clock += g_clockStep; return v; }

std::ostringstream g_out, g_warn, g_err;
std::unique_ptr<ScriptContext> g_ctx;

// distinct observations of the real VM (hook H4), as sets: what matters is which transitions exist
struct Obs { long off; unsigned long idx; int marked; };
inline bool operator<(const Obs& a, const Obs& b) { return std::tie(a.off, a.idx, a.marked) < std::tie(b.off, b.idx, b.marked); }
std::set<Obs> g_starts;                         // first probe of a VM
std::set<std::pair<Obs, Obs>> g_edges;          // consecutive probes of one VM
std::vector<std::pair<Obs, Obs>> g_edgeOrder;   // the same, in order of first occurrence (the first bad one is the root cause)
std::set<std::pair<Obs, unsigned long>> g_ends; // last probe of a VM that ended, stack index at the end
std::set<std::pair<Obs, unsigned long>> g_stackerr; // last probe before the VM's own stack check fired > reported index
std::map<const ScriptVM*, Obs> g_last;
Obs g_lastObs{ 0, 0, 0 };
bool g_haveLast = false;
unsigned long g_nprobe = 0, g_stale = 0;
unsigned long g_budget = 0;
const opval_t* g_base = nullptr;

struct Budget : std::exception { const char* what() const noexcept override { return "probe budget"; } };

void probe(const ScriptVM* vm, intptr_t offset, uintptr_t stackIndex, size_t, bool marked)
{
    ++g_nprobe;
    auto it = g_last.find(vm);
    if (offset == -1) {
        // the VM of an ended thread leaves Execute
        Obs prev{ -2, 0, 0 };
        if (it != g_last.end()) { prev = it->second; g_last.erase(it); }
        g_ends.insert(std::make_pair(prev, (unsigned long)stackIndex));
        return;
    }
    // inside a MARK..RESTORE bracket pTop points into the host's argument cells: the index means nothing
    const Obs cur{ long(offset), marked ? 0ul : (unsigned long)stackIndex, marked ? 1 : 0 };
    if (!vm->m_PrevCodePos) {
        g_starts.insert(cur);                  // the VM has not executed an instruction yet
    } else if (it != g_last.end()) {
        // (m_PrevCodePos itself is no reliable predecessor: ScriptVM::EventThrow overwrites it with the
        // end of the try block; a VM whose address is reused starts with m_PrevCodePos == nullptr)
        if (g_edges.insert(std::make_pair(it->second, cur)).second) g_edgeOrder.push_back(std::make_pair(it->second, cur));
    } else {
        ++g_stale;                             // address reused by a new VM / unknown predecessor: no edge recorded
    }
    g_last[vm] = cur;
    g_lastObs = cur; g_haveLast = true;
    if (g_budget && g_nprobe > g_budget) throw Budget();
}

// what the current program's answer line holds so far; written out by the sanitizer death callback as well,
// so that the transitions made before a crash can still be judged against the abstract VM
std::string g_static;
std::string g_runs;
bool g_inProgram = false;

std::string dynamicPart()
{
    std::ostringstream o;
    auto obs = [](const Obs& x) { return std::to_string(x.off) + ":" + std::to_string(x.idx) + ":" + std::to_string(x.marked); };
    o << " starts=";
    { bool first = true; for (auto& p : g_starts) { if (!first) o << ','; first = false; o << obs(p); } }
    o << " edges=";
    { bool first = true; for (auto& p : g_edgeOrder) { if (!first) o << ','; first = false; o << obs(p.first) << '>' << obs(p.second); } }
    o << " ends=";
    { bool first = true; for (auto& p : g_ends) { if (!first) o << ','; first = false; o << obs(p.first) << '>' << p.second; } }
    o << " stackerr=";
    { bool first = true; for (auto& p : g_stackerr) { if (!first) o << ','; first = false; o << obs(p.first) << '>' << p.second; } }
    return o.str();
}

extern "C" void __sanitizer_set_death_callback(void (*)());

void onDeath()
{
    if (!g_inProgram) return;
    g_inProgram = false;
    std::string last = "none";
    if (g_haveLast) last = std::to_string(g_lastObs.off) + ":" + std::to_string(g_lastObs.idx) + ":" + std::to_string(g_lastObs.marked);
    say(g_static + dynamicPart() + " runs=" + g_runs + "crash nprobe=" + std::to_string(g_nprobe) + " stale=" + std::to_string(g_stale) + " nwarn=0 crash=" + last);
}

void onAbort(int)
{
    onDeath();
    std::_Exit(98);
}

std::string unhex(const std::string& h)
{
    std::string s;
    for (size_t i = 0; i + 1 < h.size(); i += 2) s.push_back(char(std::stoi(h.substr(i, 2), nullptr, 16)));
    return s;
}

void clearStreams()
{
    g_out.str(""); g_out.clear(); g_warn.str(""); g_warn.clear(); g_err.str(""); g_err.clear();
}

void freshContext()
{
    g_ctx.reset();
    g_clock = 0;
    EventSystem::Get();
    g_ctx.reset(new ScriptContext);
    g_ctx->EventContext::Set(g_ctx.get());
    OutputInfo& oi = g_ctx->GetOutputInfo();
    oi.SetOutputStream(outputLevel_e::Output, &g_out);
    oi.SetOutputStream(outputLevel_e::Warn, &g_warn);
    oi.SetOutputStream(outputLevel_e::Debug, nullptr);
    oi.SetOutputStream(outputLevel_e::Error, &g_err);
    oi.SetOutputStream(outputLevel_e::Verbose, nullptr);
    g_ctx->GetSettings().SetDeveloperEnabled(false);
}

std::string labelOffsets(const StateScript& st, const opval_t* base)
{
    std::vector<long> offs;
    con::set_enum<const_str, script_label_t, Hash<const_str>, EqualTo<const_str>, MEM::ChildPreAllocator_set> en(const_cast<labelMap&>(st.label_list));
    for (auto* e = en.NextElement(); e; e = en.NextElement()) offs.push_back(long(e->Value().codepos - base));
    std::sort(offs.begin(), offs.end());
    std::string r;
    for (size_t i = 0; i < offs.size(); ++i) { if (i) r += ','; r += std::to_string(offs[i]); }
    return r;
}

std::vector<std::string> labelNames(const StateScript& st)
{
    std::vector<std::pair<long, std::string>> v;
    StringDictionary& dict = g_ctx->GetDirector().GetDictionary();
    con::set_enum<const_str, script_label_t, Hash<const_str>, EqualTo<const_str>, MEM::ChildPreAllocator_set> en(const_cast<labelMap&>(st.label_list));
    for (auto* e = en.NextElement(); e; e = en.NextElement()) v.emplace_back(long(e->Value().codepos - g_base), std::string(dict.Get(e->Key()).c_str()));
    std::sort(v.begin(), v.end());
    std::vector<std::string> r;
    for (auto& p : v) r.push_back(p.second);
    return r;
}

std::string excKind(const std::exception& e)
{
    if (dynamic_cast<const Budget*>(&e)) return "Budget";
    if (dynamic_cast<const ScriptVMErrors::CommandOverflow*>(&e)) return "CommandOverflow";
    if (dynamic_cast<const ScriptVMErrors::MaxStackDepth*>(&e)) return "MaxStackDepth";
    if (dynamic_cast<const ScriptVMErrors::StackError*>(&e)) return "StackError";
    if (dynamic_cast<const StateScriptErrors::LabelNotFound*>(&e)) return "LabelNotFound";
    if (dynamic_cast<const ScriptAbortExceptionBase*>(&e)) return "Abort";
    if (dynamic_cast<const ScriptExceptionBase*>(&e)) return "ScriptError";
    return "Exception";
}

size_t countLines(const std::string& s) { return size_t(std::count(s.begin(), s.end(), '\n')); }
}

int main()
{
    verif::now_ms = &clockFn;
    __sanitizer_set_death_callback(&onDeath);
    // UBSan's own reports do not run the death callback: the check runs with UBSAN_OPTIONS=abort_on_error=1
    std::signal(SIGABRT, &onAbort);
    std::vector<std::string> t;
    while (readTokens(t)) {
        if (t.size() < 2 || t[0] != "prog") { say("bad-op"); continue; }
        size_t nargs = 3; unsigned long budget = 20000; bool withSelf = false;
        for (size_t i = 2; i < t.size(); ++i) {
            if (t[i].rfind("nargs=", 0) == 0) nargs = std::stoul(t[i].substr(6));
            else if (t[i].rfind("budget=", 0) == 0) budget = std::stoul(t[i].substr(7));
            else if (t[i].rfind("self=", 0) == 0) withSelf = t[i].substr(5) == "1";
        }
        const std::string src = unhex(t[1]);
        verif::vm_probe = nullptr;
        clearStreams();
        freshContext();
        g_starts.clear(); g_edges.clear(); g_edgeOrder.clear(); g_ends.clear(); g_stackerr.clear(); g_last.clear(); g_haveLast = false; g_static.clear(); g_runs.clear(); g_nprobe = 0; g_stale = 0; g_budget = 0;
        const ProgramScript* s = nullptr;
        try {
            imemstream stream(src.data(), src.size());
            s = g_ctx->GetDirector().GetProgramScript("m", stream, true);
        } catch (const std::exception& e) {
            std::string k = "Exception";
            if (dynamic_cast<const ParseException::Base*>(&e)) k = "ParseError";
            else if (dynamic_cast<const CompileException::Base*>(&e)) k = "CompileError";
            else if (dynamic_cast<const ScriptExceptionBase*>(&e)) k = "ScriptError";
            std::string w = e.what() ? e.what() : "";
            std::string msg = g_err.str();
            for (char& c : w) if (c < 33 || c > 126) c = '_';
            for (char& c : msg) if (c < 33 || c > 126) c = '_';
            say("compile-error " + k + " " + w.substr(0, 120) + " " + msg.substr(0, 300));
            continue;
        }
        if (!s || !s->IsCompileSuccess()) { say("compile-error NotLoaded"); continue; }

        std::ostringstream o;
        const opval_t* base = s->m_ProgBuffer;
        const size_t len = s->m_ProgLength;
        g_base = base;
        o << "dump len=" << len << " code=";
        static const char* hexd = "0123456789abcdef";
        for (size_t i = 0; i < len; ++i) o << hexd[base[i] >> 4] << hexd[base[i] & 15];
        o << " stack=" << s->requiredStackSize;
        o << " dict=" << g_ctx->GetDirector().GetDictionary().stringDict.size();
        EventSystem& es = EventSystem::Get();
        o << " nev=" << EventSystem::NumEventCommands() << " nnames=" << es.eventDefName.size();
        o << " ctl=";
        {
            std::set<unsigned long> ctl;
            for (const char* n : { "end", "goto", "throw", "delete", "remove", "immediateremove" }) {
                const eventNum_t e = es.FindNormalEventNum(n);
                if (e) ctl.insert((unsigned long)e);
            }
            bool first = true;
            for (unsigned long e : ctl) { if (!first) o << ','; first = false; o << e; }
        }
        o << " labels=" << labelOffsets(s->m_State, base);
        o << " sw=";
        for (size_t i = 1; i <= s->m_StateScripts.NumObjects(); ++i) {
            const StateScript& st = s->m_StateScripts.ObjectAt(i);
            if (i > 1) o << '|';
            o << (unsigned long long)(uintptr_t)&st << ':' << labelOffsets(st, base);
        }
        o << " catch=";
        for (size_t i = 1; i <= s->m_CatchBlocks.NumObjects(); ++i) {
            CatchBlock& cb = s->m_CatchBlocks.ObjectAt(i);
            if (i > 1) o << '|';
            o << long(cb.m_TryStartCodePos - base) << '-' << long(cb.m_TryEndCodePos - base) << ':' << labelOffsets(cb.m_StateScript, base);
        }

        g_static = o.str(); g_inProgram = true;
        // ---- dynamic side: every entry of the main label table (and the start of the script)
        std::vector<std::string> entries = labelNames(s->m_State);
        entries.insert(entries.begin(), "");
        std::ostringstream runs;
        verif::vm_probe = &probe;
        ThreadExecutionProtection& prot = g_ctx->GetDirector().GetThreadExecutionProtection();
        prot.SetMaxExecutionTime(0);
        prot.SetLoopProtection(true);
        SimpleEntity* selfEnt = nullptr;
        if (withSelf) selfEnt = new VProbe;
        size_t warnLines = 0;
        for (size_t k = 0; k < entries.size(); ++k) {
            std::string outcome = "ok";
            g_budget = g_nprobe + budget;
            try {
                Event ev;
                for (size_t a = 0; a < nargs; ++a) {
                    if (a % 3 == 0) ev.AddLong(long(a) + 2);
                    else if (a % 3 == 1) ev.AddString("s");
                    else ev.AddNil();
                }
                if (selfEnt) {
                    if (entries[k].empty()) g_ctx->GetDirector().ExecuteThread(s, ev);   // no self variant of the start
                    else {
                        ScriptThread* th = g_ctx->GetDirector().CreateScriptThread(s, selfEnt, entries[k].c_str());
                        if (th) th->Execute(ev);
                    }
                } else {
                    if (entries[k].empty()) g_ctx->GetDirector().ExecuteThread(s, ev);
                    else g_ctx->GetDirector().ExecuteThread(s, ev, entries[k].c_str());
                }
                // let waiting threads run: a few frames under the injected clock
                for (int f = 0; f < 6; ++f) { g_clock += 1000; g_ctx->Execute(); }
            } catch (const std::exception& e) {
                outcome = excKind(e);
                if (auto* se = dynamic_cast<const ScriptVMErrors::StackError*>(&e)) {
                    // the VM's per-instruction check `index >= stack size` fired (before the probe)
                    g_stackerr.insert(std::make_pair(g_haveLast ? g_lastObs : Obs{ -2, 0, 0 }, (unsigned long)se->GetStack()));
                }
            }
            if (k) runs << ';';
            runs << (entries[k].empty() ? "-" : entries[k]) << ':' << outcome;
            g_runs = runs.str() + ";";
            if (outcome != "ok") {
                // an aborted VM cannot be resumed sensibly: start over with a fresh context and the same
                // source (same bytes; the static part of the dump was taken from the first compilation)
                verif::vm_probe = nullptr;
                freshContext();
                try {
                    imemstream stream(src.data(), src.size());
                    s = g_ctx->GetDirector().GetProgramScript("m", stream, true);
                } catch (const std::exception&) { s = nullptr; }
                if (!s) { runs << "!recompile-failed"; break; }
                ThreadExecutionProtection& p2 = g_ctx->GetDirector().GetThreadExecutionProtection();
                p2.SetMaxExecutionTime(0);
                p2.SetLoopProtection(true);
                if (withSelf) selfEnt = new VProbe;
                verif::vm_probe = &probe;
            }
        }
        verif::vm_probe = nullptr;
        warnLines = countLines(g_warn.str());
        g_inProgram = false;
        o << dynamicPart();
        o << " runs=" << runs.str() << " nprobe=" << g_nprobe << " stale=" << g_stale << " nwarn=" << warnLines;
        say(o.str());
        try { g_ctx->GetDirector().Reset(); } catch (const std::exception&) {}
    }
    verif::vm_probe = nullptr;
    g_ctx.reset();
    return 0;
}
