// Correspondence harness for the host call protocol on call records (property C05, model
// lean/MorfuseModel/PtrCell/Call.lean): a real ScriptContext under the injected clock (hook H1); the host's
// Event records are kept and may be used for further calls while earlier calls made with them still wait.
//
//   reset                          fresh context, clock 0, no records
//   script <name> <hex> [## …]     compile (recompile = true)
//   call <label|-> new <val>*      ExecuteThread(script, <fresh Event with these values>, label)
//                                  label: letters then digits, handed to the engine as written
//   call <label|-> r<k>            ExecuteThread(script, <record k as it is now>, label)
//   step <ms>                      clock += ms; context.Execute()
//   val = i<int> | s<letters> | n
//
// Answer: `ok|err <kind> out=[…] t=<started thread still alive> recs=[v,v,…|v,…] cls=<n> thr=<n>`:
// every value of every record (arguments and results) after the command.
#include <morfuse/Script/Context.h>
#include <morfuse/Script/ScriptVariable.h>
#include <morfuse/Script/ScriptException.h>
#include <morfuse/Script/ScriptThread.h>
#include <morfuse/Script/ScriptVM.h>
#include <morfuse/Script/ProgramScript.h>
#include <morfuse/Script/StateScript.h>
#include <morfuse/Common/membuf.h>
#include <morfuse/Common/OutputInfo.h>
#include "lineio.h"

#include <sstream>
#include <memory>
#include <cstring>

using namespace mfuse;

namespace {
uint64_t g_clock = 0;
uint64_t clockFn() { return g_clock; }

std::ostringstream g_out, g_sink;
std::unique_ptr<ScriptContext> g_ctx;
std::vector<std::unique_ptr<Event>> g_records;
const ProgramScript* g_script = nullptr;     // the compiled script of this scenario

std::string unhex(const std::string& h)
{
    std::string s;
    for (size_t i = 0; i + 1 < h.size(); i += 2) s.push_back(char(std::stoi(h.substr(i, 2), nullptr, 16)));
    return s;
}

void freshContext()
{
    g_records.clear();
    g_script = nullptr;
    g_ctx.reset();
    g_clock = 0;
    EventSystem::Get();
    g_ctx.reset(new ScriptContext);
    g_ctx->EventContext::Set(g_ctx.get());
    OutputInfo& oi = g_ctx->GetOutputInfo();
    oi.SetOutputStream(outputLevel_e::Output, &g_out);
    oi.SetOutputStream(outputLevel_e::Warn, &g_sink);
    oi.SetOutputStream(outputLevel_e::Error, &g_sink);
}

std::string takeOut()
{
    std::string s = g_out.str();
    g_out.str(""); g_out.clear();
    g_sink.str(""); g_sink.clear();
    std::string r = "[";
    size_t i = 0; bool first = true;
    while (i < s.size()) {
        size_t j = s.find('\n', i);
        if (j == std::string::npos) j = s.size();
        if (!first) r += '|';
        first = false;
        for (size_t k = i; k < j; ++k) { const char c = s[k]; r += (c == ' ' ? '_' : (c == '|' || c == '[' || c == ']' || c < 33 || c > 126) ? '?' : c); }
        i = j + 1;
    }
    return r + "]";
}

std::string showValue(ScriptVariable& v)
{
    switch (v.GetType()) {
    case variableType_e::None: return "nil";
    case variableType_e::Integer: return "i" + std::to_string(v.longValue());
    case variableType_e::String: case variableType_e::ConstString: {
        std::string s = v.stringValue().c_str(); std::string r = "s";
        for (char c : s) r += (c == ' ' ? '_' : (c < 33 || c > 126) ? '?' : c);
        return r; }
    case variableType_e::Pointer: return "pending";
    default: return std::string("t") + v.GetTypeName();
    }
}

std::string showRecords()
{
    std::string r = "[";
    for (size_t k = 0; k < g_records.size(); ++k) {
        if (k) r += '|';
        Event& ev = *g_records[k];
        for (size_t i = 1; i <= ev.NumArgs(); ++i) { if (i > 1) r += ','; r += showValue(ev.GetValue(i)); }
    }
    return r + "]";
}

std::string excKind(const std::exception& e)
{
    if (dynamic_cast<const StateScriptErrors::LabelNotFound*>(&e)) return "LabelNotFound";
    if (dynamic_cast<const ScriptAbortExceptionBase*>(&e)) return "Abort";
    if (dynamic_cast<const ScriptExceptionBase*>(&e)) return "ScriptError";
    return "Exception";
}

bool okVal(const std::string& v)
{
    if (v == "n") return true;
    if (v.size() < 1) return false;
    if (v[0] == 'i') { if (v.size() < 2) return false; for (size_t i = 1; i < v.size(); ++i) if (!isdigit((unsigned char)v[i])) return false; return true; }
    if (v[0] == 's') { for (size_t i = 1; i < v.size(); ++i) if (v[i] < 'a' || v[i] > 'z') return false; return true; }
    return false;
}
}

int main()
{
    verif::now_ms = &clockFn;
    freshContext();
    std::vector<std::string> t;
    while (readTokens(t)) {
        if (t.empty()) { say("bad-op"); continue; }
        const std::string& op = t[0];
        std::string status = "ok";
        bool alive = false;
        try {
            if (op == "reset" && t.size() == 1) {
                freshContext();
            } else if (op == "script" && t.size() >= 4 && t[3] == "##") {
                const std::string src = unhex(t[2]);
                imemstream stream(src.data(), src.size());
                const ProgramScript* s = g_ctx->GetDirector().GetProgramScript(t[1].c_str(), stream, true);
                if (!s || !s->IsCompileSuccess()) status = "err CompileFailed";
                else g_script = s;
            } else if (op == "call" && t.size() >= 3) {
                const ProgramScript* s = g_script;
                Event* rec = nullptr;
                std::unique_ptr<Event> fresh;
                if (t[2] == "new") {
                    bool ok = true;
                    for (size_t i = 3; i < t.size(); ++i) ok = ok && okVal(t[i]);
                    if (!ok) { say("bad-op"); continue; }
                    fresh.reset(new Event);
                    for (size_t i = 3; i < t.size(); ++i) {
                        if (t[i][0] == 'i') fresh->AddLong(std::stoll(t[i].substr(1)));
                        else if (t[i][0] == 's') fresh->AddString(t[i].substr(1).c_str());
                        else fresh->AddNil();
                    }
                    rec = fresh.get();
                } else if (t[2].size() > 1 && t[2][0] == 'r' && t.size() == 3) {
                    std::vector<size_t> n;
                    std::vector<std::string> one{ "", t[2].substr(1) };
                    if (!parseNats(one, 1, n) || n.size() != 1 || n[0] >= g_records.size()) { say("bad-op"); continue; }
                    rec = g_records[n[0]].get();
                } else { say("bad-op"); continue; }
                if (!s) { say("bad-op"); continue; }
                if (t[1] != "-") {
                    size_t a = 0;
                    while (a < t[1].size() && isalpha((unsigned char)t[1][a])) ++a;
                    size_t d = a;
                    while (d < t[1].size() && isdigit((unsigned char)t[1][d])) ++d;
                    if (a == 0 || d == a || d != t[1].size()) { say("bad-op"); continue; }
                }
                ScriptThread* th = nullptr;
                if (t[1] == "-") th = g_ctx->GetDirector().ExecuteThread(s, *rec);
                else th = g_ctx->GetDirector().ExecuteThread(s, *rec, t[1].c_str());
                alive = th != nullptr;
                if (fresh) g_records.push_back(std::move(fresh));     // only successful calls keep their record
            } else if (op == "step" && t.size() == 2) {
                g_clock += std::stoull(t[1]);
                g_ctx->Execute();
            } else {
                status = "bad-op";
            }
        } catch (const std::exception& e) {
            status = "err " + excKind(e);
        }
        if (status == "bad-op") { say("bad-op"); continue; }
        DefaultScriptAllocator& a = g_ctx->GetAllocator();
        const std::string out = takeOut();
        say(status + " out=" + out + " t=" + (alive ? "1" : "0") + " recs=" + showRecords() +
            " cls=" + std::to_string(a.ScriptClass_allocator.Count()) + " thr=" + std::to_string(a.ScriptThread_allocator.Count()));
    }
    g_records.clear();
    g_ctx.reset();
    return 0;
}
