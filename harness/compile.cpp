// Correspondence harness for C01 (compilation is total).
//
// The translation unit includes /repo's src/Script/Compiler.cpp itself (and the check leaves
// Compiler.cpp.o out of the link), so that the file-local classes ScriptCountManager and
// ScriptProgramManager can be instantiated and read here.  The *observed* compile always goes through
// ScriptMaster::GetProgramScript -> ProgramScript::Load -> ScriptCompiler::Compile (the real path);
// the file-local classes are only used for (a) the size info of a counting pass over the same tree and
// (b) a replica of ScriptCompiler::EmitProgram on a scratch script whose only purpose is to read the
// final code position ("bytes actually written"); the replica's bytes are compared with the real ones.
//
//   case <dev:0|1> <hex-source>     one self-contained scenario, one answer line (see answer())
//   ast <hex-source>                parse only, print the tree
//
// Answer of `case` (one line, key=value, no spaces inside values):
//   out=<ok|ParseError|CompileError:<kind>|Other:<type>>   what GetProgramScript(name, stream) did
//   again=<same|notloaded|recompiled|Other:..>             asking again for the same name
//   sent=<ok|..> pre=<ok|..> others=<ok|changed>           sentinel compiled+run afterwards; earlier script re-run; its entry untouched
//   trap=<-|kind:need:have>                                hook H3 (first call)
//   pl= wr= ar=<used>/<size> nsw= nca= tl= stk=            accepted programs: progLength, bytes written, arena, containers' reserved sizes, main table length, stack size
//   code=<hex> lab=.. sw=.. ca=..                          accepted programs: code bytes (switch operands -> ordinals), label sets
//   cnt=<progLength,numLabels,numCaseLabels,numStrings,numCatches,numSwitches | err:<kind>>   counting pass over the harness's own parse
//   ast=<s-expression | ->                                 the parse tree as the emitter reads it, annotated (see dumpNode)
//   ms=<n>                                                 wall time of the compile call (not compared)
#include "Script/Compiler.cpp"

#include <morfuse/Script/Context.h>
#include <morfuse/Script/StateScript.h>
#include <morfuse/Script/ProgramScript.h>
#include <morfuse/Common/membuf.h>
#include <morfuse/Common/OutputInfo.h>
#include "lineio.h"

#include <cxxabi.h>
#include <chrono>
#include <map>
#include <memory>
#include <sstream>
#include <typeinfo>

namespace {
std::ostringstream g_out, g_warn, g_dbg, g_err;
std::unique_ptr<ScriptContext> g_ctx;
std::string g_trap = "-";

void onTrap(int kind, size_t need, size_t have)
{
    if (g_trap == "-") g_trap = std::to_string(kind) + ":" + std::to_string(need) + ":" + std::to_string(have);
}

std::string unhex(const std::string& h)
{
    std::string s;
    auto v = [](char c) { return c <= '9' ? c - '0' : (c | 32) - 'a' + 10; };
    for (size_t i = 0; i + 1 < h.size(); i += 2) s.push_back(char(v(h[i]) * 16 + v(h[i + 1])));
    return s;
}

const char HEX[] = "0123456789abcdef";
std::string hexOf(const unsigned char* p, size_t n)
{
    std::string s;
    s.reserve(2 * n);
    for (size_t i = 0; i < n; ++i) { s.push_back(HEX[p[i] >> 4]); s.push_back(HEX[p[i] & 15]); }
    return s;
}
std::string hexStr(const char* p) { return p ? (*p ? hexOf(reinterpret_cast<const unsigned char*>(p), strlen(p)) : "-") : "-"; }

void freshContext(bool dev)
{
    g_ctx.reset();
    EventSystem::Get();
    g_ctx.reset(new ScriptContext);
    g_ctx->EventContext::Set(g_ctx.get());
    OutputInfo& oi = g_ctx->GetOutputInfo();
    oi.SetOutputStream(outputLevel_e::Output, &g_out);
    oi.SetOutputStream(outputLevel_e::Warn, &g_warn);
    oi.SetOutputStream(outputLevel_e::Debug, nullptr);     // the emitter's opcode listing: off (it is huge)
    oi.SetOutputStream(outputLevel_e::Error, &g_err);
    oi.SetOutputStream(outputLevel_e::Verbose, nullptr);
    g_ctx->GetSettings().SetDeveloperEnabled(dev);
}

void clearStreams()
{
    g_out.str(""); g_out.clear(); g_warn.str(""); g_warn.clear(); g_dbg.str(""); g_dbg.clear(); g_err.str(""); g_err.clear();
}

std::string kindOf(const std::exception& e)
{
    int st = 0;
    char* d = abi::__cxa_demangle(typeid(e).name(), nullptr, nullptr, &st);
    std::string n = d ? d : typeid(e).name();
    free(d);
    const std::string p = "mfuse::";
    if (n.compare(0, p.size(), p) == 0) n = n.substr(p.size());
    if (n == "ParseException::ParseError") return "ParseError";
    const std::string c = "CompileException::";
    if (n.compare(0, c.size(), c) == 0) return "CompileError:" + n.substr(c.size());
    if (n == "CompileErrors::StackOverflow") return "CompileError:StackOverflow";
    for (char& ch : n) if (ch == ' ') ch = '_';
    return "Other:" + n;
}

// ------------------------------------------------------------------------------------------------
// parse tree dump: every access mirrors the access the emitter makes for that node kind
struct Dumper
{
    ScriptEmitter& em;      // only for BuiltinReadVariable / BuiltinWriteVariable (pure lookups)
    StringDictionary& dict;
    EventSystem& es;
    std::string out;
    size_t budget = 40u << 20;

    uint32_t dictIndex(const char* s) { return s ? uint32_t(dict.Get(s)) : 0; }

    void str(const char* s) { out += hexStr(s); out += ' '; out += std::to_string(dictIndex(s)); }

    void list(const sval_t* cell)
    {
        for (; cell; cell = cell[1].node) { out += ' '; node(*cell); }
    }

    // parameter lists: null, or a pointer to {first cell, last cell}
    void params(sval_t p, bool byNode)
    {
        if (!p.node) { out += "(nop)"; return; }
        out += "(params";
        for (const sval_t* c = p.node->node; c; c = c[1].node) { out += ' '; node(byNode ? sval_t(c->node) : *c); }
        out += ')';
    }

    int rd(uint8_t type, const char* name)
    {
        const eventName_t en = es.GetEventConstName(name);
        const eventNum_t g = es.FindGetterEventNum(en);
        if (!g) return 0;
        try { return em.BuiltinReadVariable(sourceLocation_t(-1), type, name, g) ? 1 : 0; } catch (CompileException::WriteOnly&) { return 2; }
    }
    int wr(uint8_t type, const char* name)
    {
        const eventName_t en = es.GetEventConstName(name);
        const eventNum_t s = es.FindSetterEventNum(en);
        if (!s) return 0;
        try { return em.BuiltinWriteVariable(sourceLocation_t(-1), type, name, s) ? 1 : 0; } catch (CompileException::ReadOnly&) { return 2; }
    }

    void node(sval_t val)
    {
        if (out.size() > budget) throw std::length_error("ast dump too large");
        const sval_t* n = val.node;
        switch (n[0].type)
        {
        case statementType_e::None: out += "(none)"; break;
        case statementType_e::Next: out += "(next "; node(n[1]); out += ')'; break;
        case statementType_e::StatementList: out += "(list"; list(n[1].node[0].node); out += ')'; break;
        case statementType_e::Labeled: out += "(label "; str(n[1].stringValue); out += ' '; params(n[2], true); out += ')'; break;
        case statementType_e::PrivateLabeled: out += "(plabel "; str(n[1].stringValue); out += ' '; params(n[2], true); out += ')'; break;
        case statementType_e::NegIntLabeled: out += "(negcase)"; break;     // never produced by the grammar
        case statementType_e::IntLabeled: {
            // EmitCaseLabel(case_parm, parameter_list): the label name the emitter derives + the raw tree
            const sval_t cp = n[1];
            out += "(case ";
            char name[21]{};      // as EmitCaseLabel(int64_t): 20 characters and the terminator
            const char* nm = nullptr;
            int kind = 0;       // 1 int, 2 string, 3 negated integer, 4 negated something else, 0 bad
            if (cp.node[0].type == statementType_e::Integer) { kind = 1; std::to_chars(name, name + sizeof(name) - 1, (int64_t)cp.node[1].longValue); nm = name; }
            else if (cp.node[0].type == statementType_e::String) { kind = 2; nm = cp.node[1].stringValue; }
            else if (cp.node[0].type == statementType_e::Func1Expr && cp.node[1].byteValue == OP_UN_MINUS) {
                // the emitter reads node[2].node[1].longValue whatever node[2] is: for anything but an Integer
                // node that is a pointer / string address (kind 4: name not reproducible)
                kind = cp.node[2].node[0].type == statementType_e::Integer ? 3 : 4;
                std::to_chars(name, name + sizeof(name) - 1, (int64_t)(0 - cp.node[2].node[1].longValue)); nm = name;
            }
            out += std::to_string(kind); out += ' ';
            if (kind) str(nm); else out += "- 0";
            out += ' '; out += std::to_string(unsigned(cp.node[0].type));
            out += ' '; params(n[2], true); out += ')';
            break; }
        case statementType_e::Assignment: out += "(assign "; lhs(n[1]); out += ' '; node(n[2]); out += ')'; break;
        case statementType_e::If: out += "(if "; node(n[1]); out += ' '; node(n[2]); out += ')'; break;
        case statementType_e::IfElse: out += "(ifelse "; node(n[1]); out += ' '; node(n[2]); out += ' '; node(n[3]); out += ')'; break;
        case statementType_e::While: out += "(while "; node(n[1]); out += ' '; node(n[2]); out += ' '; node(n[3]); out += ')'; break;
        case statementType_e::Do: out += "(do "; node(n[1]); out += ' '; node(n[2]); out += ')'; break;
        case statementType_e::LogicalAnd: out += "(and "; node(n[1]); out += ' '; node(n[2]); out += ')'; break;
        case statementType_e::LogicalOr: out += "(or "; node(n[1]); out += ' '; node(n[2]); out += ')'; break;
        case statementType_e::MethodEvent:
            out += "(mcmd "; out += std::to_string(es.FindNormalEventNum(n[2].stringValue)); out += ' '; out += hexStr(n[2].stringValue); out += ' '; node(n[1]); out += ' '; params(n[3], true); out += ')'; break;
        case statementType_e::MethodEventExpr:
            out += "(mcmdx "; out += std::to_string(es.FindReturnEventNum(n[2].stringValue)); out += ' '; out += hexStr(n[2].stringValue); out += ' '; node(n[1]); out += ' '; params(n[3], true); out += ')'; break;
        case statementType_e::CmdEvent:
            out += "(cmd "; out += std::to_string(es.FindNormalEventNum(n[1].stringValue)); out += ' '; out += hexStr(n[1].stringValue); out += ' '; params(n[2], true); out += ')'; break;
        case statementType_e::CmdEventExpr:
            out += "(cmdx "; out += std::to_string(es.FindReturnEventNum(n[1].stringValue)); out += ' '; out += hexStr(n[1].stringValue); out += ' '; params(n[2], true); out += ')'; break;
        case statementType_e::Field: field(n); break;
        case statementType_e::Listener: out += "(listener "; out += std::to_string(unsigned(n[1].byteValue)); out += ')'; break;
        case statementType_e::String: out += "(str "; str(n[1].stringValue); out += ')'; break;
        case statementType_e::Integer: out += "(int "; out += std::to_string(n[1].longValue); out += ')'; break;
        case statementType_e::Float: { uint32_t b; memcpy(&b, &n[1].floatValue, 4); out += "(float "; out += std::to_string(b); out += ')'; break; }
        case statementType_e::Vector: out += "(vec "; node(n[1]); out += ' '; node(n[2]); out += ' '; node(n[3]); out += ')'; break;
        case statementType_e::NIL: out += "(nil)"; break;
        case statementType_e::NULLPTR: out += "(null)"; break;
        case statementType_e::Func1Expr: out += "(f1 "; out += std::to_string(unsigned(n[1].byteValue)); out += ' '; node(n[2]); out += ')'; break;
        case statementType_e::Func2Expr: out += "(f2 "; out += std::to_string(unsigned(n[1].byteValue)); out += ' '; node(n[2]); out += ' '; node(n[3]); out += ')'; break;
        case statementType_e::BoolNot: out += "(not "; node(n[1]); out += ')'; break;
        case statementType_e::ArrayExpr: out += "(idx "; node(n[1]); out += ' '; node(n[2]); out += ')'; break;
        case statementType_e::ConstArrayExpr: out += "(carr "; node(n[1]); list(n[2].node[0].node); out += ')'; break;
        case statementType_e::MakeArray: out += "(marr"; list(n[1].node[0].node); out += ')'; break;
        case statementType_e::Try: out += "(try "; node(n[1]); out += ' '; node(n[2]); out += ')'; break;
        case statementType_e::Switch: out += "(switch "; node(n[1]); out += ' '; node(n[2]); out += ')'; break;
        case statementType_e::Break: out += "(break)"; break;
        case statementType_e::Continue: out += "(continue)"; break;
        default: out += "(unknown "; out += std::to_string(unsigned(n[0].type)); out += ')'; break;
        }
    }

    // (field <name-hex> <dict index> <event name index> <rd> <wr> <listener expr>)
    void field(const sval_t* n)
    {
        const char* name = n[2].stringValue;
        const sval_t l = n[1];
        int r = 0, w = 0;
        if (l.node[0].type == statementType_e::Listener) { r = rd(l.node[1].byteValue, name); w = wr(l.node[1].byteValue, name); }
        out += "(field "; str(name); out += ' '; out += std::to_string(uint32_t(es.GetEventConstName(name)));
        out += ' '; out += std::to_string(r); out += ' '; out += std::to_string(w); out += ' '; node(l); out += ')';
    }

    // the lvalue of an assignment, as EmitAssignmentStatement / EmitRef read it
    void lhs(sval_t v) { node(v); }
};

struct Parsed
{
    ParseTree tree;
    bool ok = false;
    std::string err;
};

void parseInto(Parsed& p, const std::string& src)
{
    imemstream stream(src.data(), src.size());
    try {
        ScriptParser parser;
        parser.SetOutputInfo(&g_ctx->GetOutputInfo());
        p.tree = parser.Parse("t", stream, nullptr, 0);
        p.ok = true;
    } catch (const std::exception& e) {
        p.err = kindOf(e);
    }
}

std::string runScript(const ProgramScript* s, const char* expect)
{
    clearStreams();
    try {
        Event ev;
        g_ctx->GetDirector().ExecuteThread(s, ev);
    } catch (const std::exception& e) {
        return "exc:" + kindOf(e);
    }
    const std::string o = g_out.str();
    clearStreams();
    return o == expect ? "ok" : "wrong-output";
}

const char PRE_SRC[] =
    "local.n = 0\n"
    "for (local.i = 1; local.i <= 4; local.i++) { local.n += local.i }\n"
    "println (\"pre \" + local.n)\n"
    "end\n";
const char PRE_OUT[] = "pre 10\n";
const char SENT_SRC[] =
    "local.r = 0\n"
    "local.k = 0\n"
    "while (local.k < 3) {\n"
    "  switch (local.k) {\n"
    "  case 0: local.r += 1; break\n"
    "  case 2: local.r += 5; break\n"
    "  default: local.r += 20; break\n"
    "  }\n"
    "  local.k++\n"
    "}\n"
    "if (local.r == 26 && !(local.k != 3)) { println (\"sentinel \" + local.r) } else { println \"sentinel-bad\" }\n"
    "end\n";
const char SENT_OUT[] = "sentinel 26\n";

std::string labelSet(const StateScript& s, const opval_t* base)
{
    // sorted by dictionary index
    std::map<uint32_t, std::string> m;
    con::set_enum<const_str, script_label_t, Hash<const_str>, EqualTo<const_str>, MEM::ChildPreAllocator_set> en(const_cast<labelMap&>(s.label_list));
    for (auto* e = en.NextElement(); e; e = en.NextElement()) {
        m[uint32_t(e->Key())] = std::to_string(uint32_t(e->Key())) + ":" + std::to_string(e->Value().codepos - base) + ":" + (e->Value().isprivate ? "1" : "0");
    }
    std::string r = "[";
    bool first = true;
    for (auto& kv : m) { if (!first) r += ','; first = false; r += kv.second; }
    return r + "]";
}

std::string doCase(bool dev, const std::string& src)
{
    freshContext(dev);
    clearStreams();
    g_trap = "-";
    ScriptMaster& director = g_ctx->GetDirector();
    StringDictionary& dict = director.GetDictionary();
    std::ostringstream o;

    // a script loaded (and run) before the input under test
    const ProgramScript* pre = nullptr;
    {
        imemstream ps(PRE_SRC, sizeof(PRE_SRC) - 1);
        pre = director.GetProgramScript("pre", ps);
        if (runScript(pre, PRE_OUT) != "ok") return "harness-error pre-script";
    }
    const opval_t* const preBuf = pre->GetProgBuffer();
    const size_t preLen = pre->GetProgLength();
    const std::string preCode = hexOf(preBuf, preLen);

    // ---- the observed compile
    std::string outcome = "ok";
    const ProgramScript* scr = nullptr;
    const auto t0 = std::chrono::steady_clock::now();
    {
        imemstream stream(src.data(), src.size());
        try {
            scr = director.GetProgramScript("t", stream);
            if (!scr) outcome = "Other:null-script";
            else if (!scr->IsCompileSuccess()) outcome = "Other:returned-unsuccessful-script";
        } catch (const std::exception& e) {
            outcome = kindOf(e);
        }
    }
    const auto ms = std::chrono::duration_cast<std::chrono::milliseconds>(std::chrono::steady_clock::now() - t0).count();
    const std::string trap = g_trap;
    o << "out=" << outcome;

    // ---- the entry after the compile, and asking again
    ProgramScript* const entry = director.FindScript(dict.Add("t"));
    o << " entry=" << (entry ? (entry->IsCompileSuccess() ? "loaded" : "failed") : "absent");
    {
        imemstream stream(src.data(), src.size());
        std::string again;
        try {
            const ProgramScript* s2 = director.GetProgramScript("t", stream);
            again = (s2 == scr && scr) ? "same" : "recompiled";
        } catch (const ScriptException& e) {
            again = strstr(e.what(), "was not properly loaded") ? "notloaded" : "Other:ScriptException";
        } catch (const std::exception& e) {
            again = kindOf(e);
        }
        o << " again=" << again;
    }

    // ---- the engine afterwards
    {
        std::string sent;
        try {
            imemstream ss(SENT_SRC, sizeof(SENT_SRC) - 1);
            const ProgramScript* s = director.GetProgramScript("sentinel", ss);
            sent = runScript(s, SENT_OUT);
        } catch (const std::exception& e) {
            sent = "exc:" + kindOf(e);
        }
        o << " sent=" << sent;
        const bool same = director.FindScript(dict.Add("pre")) == pre && pre->IsCompileSuccess() && pre->GetProgBuffer() == preBuf &&
            pre->GetProgLength() == preLen && hexOf(pre->GetProgBuffer(), preLen) == preCode;
        o << " pre=" << (same ? runScript(pre, PRE_OUT) : std::string("changed"));
    }
    o << " trap=" << trap;

    // ---- what the accepted program looks like
    if (scr && outcome == "ok") {
        ProgramScript* s = const_cast<ProgramScript*>(scr);
        MEM::PreAllocator& a = s->GetAllocator();
        o << " pl=" << s->m_ProgLength << " ar=" << size_t(a.current - a.allocatedBlock) << "/" << a.Size()
          << " nsw=" << s->m_StateScripts.MaxObjects() << " nca=" << s->m_CatchBlocks.MaxObjects()
          << " osw=" << s->m_StateScripts.NumObjects() << " oca=" << s->m_CatchBlocks.NumObjects()
          << " tl=" << s->m_State.label_list.tableLength << " stk=" << s->requiredStackSize;
        // code with switch operands canonicalised to ordinals (0-based creation order)
        std::string code(reinterpret_cast<const char*>(s->m_ProgBuffer), s->m_ProgLength);
        for (size_t k = 1; k <= s->m_StateScripts.NumObjects(); ++k) {
            const StateScript* p = &s->m_StateScripts.ObjectAt(k);
            char pat[8]; memcpy(pat, &p, 8);
            uint64_t ord = k - 1; char rep[8]; memcpy(rep, &ord, 8);
            for (size_t pos = code.find(std::string(pat, 8)); pos != std::string::npos; pos = code.find(std::string(pat, 8), pos + 8)) code.replace(pos, 8, std::string(rep, 8));
        }
        o << " code=" << (code.empty() ? "-" : hexOf(reinterpret_cast<const unsigned char*>(code.data()), code.size()));
        o << " lab=" << labelSet(s->m_State, s->m_ProgBuffer);
        o << " sw=[";
        for (size_t k = 1; k <= s->m_StateScripts.NumObjects(); ++k) { if (k > 1) o << ','; o << labelSet(s->m_StateScripts.ObjectAt(k), s->m_ProgBuffer); }
        o << "] ca=[";
        for (size_t k = 1; k <= s->m_CatchBlocks.NumObjects(); ++k) {
            CatchBlock& c = s->m_CatchBlocks.ObjectAt(k);
            if (k > 1) o << ',';
            o << (c.m_TryStartCodePos - s->m_ProgBuffer) << ":" << (c.m_TryEndCodePos - s->m_ProgBuffer) << ":" << labelSet(c.m_StateScript, s->m_ProgBuffer);
        }
        o << "]";
    }

    // ---- the harness's own parse of the same text: tree dump, counting pass, replica of the program pass
    {
        Parsed p;
        parseInto(p, src);
        clearStreams();
        if (!p.ok) {
            o << " cnt=- wr=- ast=-";
        } else {
            const sval_t root = p.tree.getRootNode();
            ProgramScript* scratch = new ProgramScript(dict.Add("scratch"));
            const OutputInfo* info = &g_ctx->GetOutputInfo();
            {
                ScriptCountManager cm;
                try {
                    ScriptEmitter e(cm, scratch->GetStateScript(), info);
                    e.EmitRoot(root);
                    const sizeInfo_t& si = cm.getSizeInfo();
                    o << " cnt=" << si.progLength << "," << si.numLabels << "," << si.numCaseLabels << "," << si.numStrings << "," << si.numCatches << "," << si.numSwitches;
                } catch (const std::exception& e) {
                    o << " cnt=err:" << kindOf(e);
                }
            }
            if (scr && outcome == "ok") {
                // replica of ScriptCompiler::Compile up to the end of EmitProgram, on a scratch script
                std::string wr;
                g_trap = "-";
                try {
                    ScriptCompiler comp;
                    comp.SetOutputInfo(info);
                    opval_t* buf = nullptr;
                    const size_t pl = comp.Preallocate(scratch, root, buf);
                    ScriptProgramManager mgr(dict, scratch, buf, pl);
                    ScriptEmitter e(mgr, scratch->GetStateScript(), info);
                    e.EmitRoot(root);
                    wr = std::to_string(size_t(mgr.code_pos - mgr.prog_ptr));
                    // the replica must have produced what the real path produced
                    bool same = pl == scr->GetProgLength();
                    if (same) {
                        std::string a(reinterpret_cast<const char*>(buf), pl), b(reinterpret_cast<const char*>(scr->GetProgBuffer()), pl);
                        // switch operands are addresses: blank them on both sides
                        for (int side = 0; side < 2; ++side) {
                            ProgramScript* ps = side ? const_cast<ProgramScript*>(scr) : scratch;
                            std::string& c = side ? b : a;
                            for (size_t k = 1; k <= ps->m_StateScripts.NumObjects(); ++k) {
                                const StateScript* q = &ps->m_StateScripts.ObjectAt(k);
                                char pat[8]; memcpy(pat, &q, 8);
                                for (size_t pos = c.find(std::string(pat, 8)); pos != std::string::npos; pos = c.find(std::string(pat, 8), pos + 8)) c.replace(pos, 8, std::string(8, char(0xEE)));
                            }
                        }
                        same = a == b;
                    }
                    if (!same) wr += "!replica-differs";
                } catch (const std::exception& e) {
                    wr = "err:" + kindOf(e);
                }
                o << " wr=" << wr;
            } else {
                o << " wr=-";
            }
            clearStreams();
            // the tree, after everything that could add names to the tables has run
            try {
                ScriptCountManager cm;
                ScriptEmitter e(cm, scratch->GetStateScript(), nullptr);
                Dumper d{ e, dict, EventSystem::Get() };
                d.node(root);
                o << " ast=" << d.out;
                for (char& c : d.out) (void)c;
            } catch (const std::length_error&) {
                o << " ast=too-large";
            }
            delete scratch;
        }
    }
    o << " ms=" << ms;
    std::string r = o.str();
    return r;
}
}

int main()
{
    verif::arena_trap = &onTrap;
    std::vector<std::string> t;
    while (readTokens(t)) {
        if (t.size() == 3 && t[0] == "case" && (t[1] == "0" || t[1] == "1")) {
            say(doCase(t[1] == "1", t[2] == "-" ? std::string() : unhex(t[2])));
        } else if (t.size() == 1 && t[0] == "consts") {
            // what the translator writes into lean/MorfuseModel/Gen/EmitConsts.lean
            std::ostringstream o;
            o << "breakMax=" << BREAK_JUMP_LOCATION_COUNT << " continueMax=" << CONTINUE_JUMP_LOCATION_COUNT
              << " prevMax=" << MAX_PREV_OPCODES << " ringSize=" << ScriptCountManager::prevopSize
              << " szStateScript=" << sizeof(StateScript) << " szCatchBlock=" << sizeof(CatchBlock)
              << " szEntry=" << sizeof(con::Entry<const_str, script_label_t>) << " szPtr=" << sizeof(void*)
              << " szSourcePos=" << sizeof(sourcePosMap_t)
              << " parmNumMax=" << unsigned(std::numeric_limits<op_parmNum_t>::max())
              << " arrayParmNumMax=" << unsigned(std::numeric_limits<op_arrayParmNum_t>::max()) << " opMax=" << int(OP_MAX) << " opPrevious=" << int(OP_PREVIOUS)
              << " ops=";
            // OpcodeInfo[] is file-local: read through its accessors, one entry per opcode below OP_PREVIOUS
            for (int i = 0; i < int(OP_PREVIOUS); ++i) {
                if (i) o << ',';
                o << OpcodeName(opval_t(i)) << ':' << OpcodeLength(opval_t(i)) << ':' << OpcodeVarStackOffset(opval_t(i)) << ':' << (IsExternalOpcode(opval_t(i)) ? 1 : 0);
            }
            o << " primes=";
            for (size_t i = 0; i < sizeof(con::set_primes) / sizeof(con::set_primes[0]); ++i) { if (i) o << ','; o << con::set_primes[i]; }
            say(o.str());
        } else if (t.size() == 2 && t[0] == "ast") {
            freshContext(false);
            Parsed p;
            parseInto(p, t[1] == "-" ? std::string() : unhex(t[1]));
            if (!p.ok) { say("parse-failed " + p.err); continue; }
            ProgramScript* scratch = new ProgramScript(g_ctx->GetDirector().GetDictionary().Add("scratch"));
            ScriptCountManager cm;
            ScriptEmitter e(cm, scratch->GetStateScript(), nullptr);
            Dumper d{ e, g_ctx->GetDirector().GetDictionary(), EventSystem::Get() };
            d.node(p.tree.getRootNode());
            say(d.out);
            delete scratch;
        } else {
            say("bad-op");
        }
    }
    g_ctx.reset();
    return 0;
}
