// Search / validation harness for C20 (engines on different OS threads do not interfere).
//
//   conc solo|par [spin]      workloads on stdin, one line each:
//       w <id> <start-offset-us> <op> <op> ...
//   ops (no blanks inside an op):
//       S:<name>:<hex-source>   compile (recompile = true)
//       C:<name>:<label|->      ExecuteThread(script, Event, label)
//       T:<ms>                  clock += ms; context.Execute()
//       X:<ms>:<n>              up to n times: stop when idle, else clock += ms; Execute()
//       R                       director.Reset()
//       N                       destroy the context, create a fresh one (clock := 0)
//       P:<n>                   n rounds of a con::set<int,int> fill/lookup/remove (process-wide entry pool)
//
// Every workload runs on its own OS thread with its own ScriptContext (created and destroyed on
// that thread).  `solo`: the threads run one after the other (thread k+1 starts after thread k was
// joined).  `par`: all threads are released together by a barrier, each then busy-waits its start
// offset.  The injected clock (hook H1, a process-wide function pointer) is set once before any
// thread exists and reads a thread_local counter, so the clock itself is not shared state.
//
// Answer: one line per workload, in id order: `r <id> <canonical per-context transcript>`.
// The transcript is: for every op its status, what scripts printed on the context's five streams, the
// idle flag and the per-context pool counts.  Nothing in it depends on addresses or on wall time.
// A ThreadSanitizer report, a crash or a transcript that differs from the solo one is a violation.
#include <morfuse/Script/Context.h>
#include <morfuse/Script/ScriptVariable.h>
#include <morfuse/Script/ScriptException.h>
#include <morfuse/Script/ScriptThread.h>
#include <morfuse/Script/ScriptVM.h>
#include <morfuse/Script/ProgramScript.h>
#include <morfuse/Script/StateScript.h>
#include <morfuse/Common/membuf.h>
#include <morfuse/Common/OutputInfo.h>
#include <morfuse/Container/set.h>
#include "lineio.h"

#include <atomic>
#include <chrono>
#include <memory>
#include <sstream>
#include <thread>
#include <map>

using namespace mfuse;

namespace {
thread_local uint64_t t_clock = 0;
uint64_t clockFn() { return t_clock; }

struct Workload
{
    int id = 0;
    unsigned offsetUs = 0;
    std::vector<std::string> ops;
    std::string transcript;
};

std::string unhex(const std::string& h)
{
    std::string s;
    for (size_t i = 0; i + 1 < h.size(); i += 2) s.push_back(char(std::stoi(h.substr(i, 2), nullptr, 16)));
    return s;
}

std::string canon(const std::string& s)
{
    std::string r;
    for (char c : s) r += (c == ' ' ? '_' : c == '\n' ? '|' : (c < 33 || c > 126 || c == '|') ? '?' : c);
    return r;
}

std::string excKind(const std::exception& e)
{
    if (dynamic_cast<const ScriptVMErrors::CommandOverflow*>(&e)) return "CommandOverflow";
    if (dynamic_cast<const ScriptVMErrors::MaxStackDepth*>(&e)) return "MaxStackDepth";
    if (dynamic_cast<const StateScriptErrors::LabelNotFound*>(&e)) return "LabelNotFound";
    if (dynamic_cast<const ScriptAbortExceptionBase*>(&e)) return "Abort";
    if (dynamic_cast<const ScriptExceptionBase*>(&e)) return "ScriptError";
    return "Exception";
}

class FileImpl : public IFile
{
public:
    explicit FileImpl(const std::string& src) : stream(src.data(), src.size()) {}
    std::istream& getStream() noexcept override { return stream; }
private:
    imemstream stream;
};

class FileManagement : public IFileManagement
{
public:
    std::map<std::string, std::string> sources;      // per host: served to the engine's by-name lookup
    IFile* OpenFile(const char* fname) override
    {
        auto it = sources.find(fname);
        return it == sources.end() ? nullptr : new FileImpl(it->second);
    }
    void CloseFile(IFile* file) noexcept override { delete file; }
};

struct Host
{
    std::ostringstream out, warn, dbg, err, verb;
    FileManagement files;
    std::unique_ptr<ScriptContext> ctx;

    void fresh()
    {
        ctx.reset();
        t_clock = 0;
        EventSystem::Get();
        ctx.reset(new ScriptContext);
        ctx->EventContext::Set(ctx.get());
        ctx->GetScriptInterfaces().fileManagement = &files;
        OutputInfo& oi = ctx->GetOutputInfo();
        oi.SetOutputStream(outputLevel_e::Output, &out);
        oi.SetOutputStream(outputLevel_e::Warn, &warn);
        oi.SetOutputStream(outputLevel_e::Debug, &dbg);
        oi.SetOutputStream(outputLevel_e::Error, &err);
        oi.SetOutputStream(outputLevel_e::Verbose, nullptr);
        ctx->GetSettings().SetDeveloperEnabled(true);
    }

    std::string take()
    {
        std::string r = "o=" + canon(out.str());
        // warnings carry script positions and messages: part of what a context "outputs"
        r += " w=" + canon(warn.str()) + " e=" + canon(err.str()) + " d=" + canon(dbg.str());
        out.str(""); out.clear(); warn.str(""); warn.clear(); dbg.str(""); dbg.clear(); err.str(""); err.clear();
        return r;
    }

    std::string trailer()
    {
        DefaultScriptAllocator& a = ctx->GetAllocator();
        std::ostringstream o;
        o << " idle=" << (ctx->IsIdle() ? 1 : 0)
          << " cls=" << a.ScriptClass_allocator.Count()
          << " thr=" << a.ScriptThread_allocator.Count()
          << " vm=" << a.ScriptVM_allocator.Count()
          << " tim=" << ctx->GetDirector().GetTimerList().m_Elements.NumObjects()
          << " ev=" << ctx->GetEventQueue().GetNumPendingEvents();
        return o.str();
    }
};

std::vector<std::string> splitColon(const std::string& s)
{
    std::vector<std::string> r;
    size_t i = 0;
    for (;;) {
        size_t j = s.find(':', i);
        if (j == std::string::npos) { r.push_back(s.substr(i)); break; }
        r.push_back(s.substr(i, j - i));
        i = j + 1;
    }
    return r;
}

bool poolRounds(int id, unsigned n)
{
    for (unsigned round = 0; round < n; ++round) {
        con::set<int, int> s;
        const int base = id * 100000;
        for (int i = 0; i < 96; ++i) s.addKeyValue(base + i) = i * 3 + id;
        for (int i = 0; i < 96; ++i) { int* v = s.findKeyValue(base + i); if (!v || *v != i * 3 + id) return false; }
        for (int i = 0; i < 96; i += 2) s.remove(base + i);
        for (int i = 1; i < 96; i += 2) { int* v = s.findKeyValue(base + i); if (!v || *v != i * 3 + id) return false; }
    }
    return true;
}

void runWorkload(Workload& w)
{
    Host h;
    std::string& tr = w.transcript;
    h.fresh();
    for (const std::string& opTok : w.ops) {
        const std::vector<std::string> p = splitColon(opTok);
        std::string status = "ok";
        try {
            if (p[0] == "S" && p.size() == 3) {
                const std::string& src = (h.files.sources[p[1]] = unhex(p[2]));
                imemstream stream(src.data(), src.size());
                const ProgramScript* s = h.ctx->GetDirector().GetProgramScript(p[1].c_str(), stream, true);
                if (!s || !s->IsCompileSuccess()) status = "CompileFailed";
            } else if (p[0] == "C" && p.size() == 3) {
                Event ev;
                const ProgramScript* s = h.ctx->GetDirector().GetProgramScript(p[1].c_str());
                if (!s) status = "NoScript";
                else if (p[2] == "-") h.ctx->GetDirector().ExecuteThread(s, ev);
                else h.ctx->GetDirector().ExecuteThread(s, ev, p[2].c_str());
            } else if (p[0] == "T" && p.size() == 2) {
                t_clock += std::stoull(p[1]);
                h.ctx->Execute();
            } else if (p[0] == "X" && p.size() == 3) {
                const uint64_t ms = std::stoull(p[1]);
                unsigned n = unsigned(std::stoul(p[2])), k = 0;
                for (; k < n && !h.ctx->IsIdle(); ++k) { t_clock += ms; h.ctx->Execute(); }
                status = "ok" + std::to_string(k);
            } else if (p[0] == "R") {
                h.ctx->GetDirector().Reset();
            } else if (p[0] == "N") {
                h.fresh();
            } else if (p[0] == "P" && p.size() == 2) {
                if (!poolRounds(w.id, unsigned(std::stoul(p[1])))) status = "CORRUPT";
            } else {
                status = "bad-op";
            }
        } catch (const std::exception& e) {
            status = "err:" + excKind(e) + ":" + canon(e.what());
        }
        tr += p[0] + "=" + status + " " + h.take() + h.trailer() + " ; ";
    }
    h.ctx.reset();
    tr += "destroyed";
}
}

int main(int argc, char** argv)
{
    const std::string mode = argc > 1 ? argv[1] : "par";
    verif::now_ms = &clockFn;      // before any thread exists: ordered before every read by thread creation
    // the one-time registries are built here, on the main thread, exactly as a host would before
    // starting workers?  No: the property says contexts are *created* on different threads and the
    // anchors name the function-local static as the mechanism, so the first Get() is left to the workers.
    std::vector<Workload> ws;
    std::vector<std::string> t;
    while (readTokens(t)) {
        if (t.size() < 3 || t[0] != "w") continue;
        Workload w;
        w.id = std::stoi(t[1]);
        w.offsetUs = unsigned(std::stoul(t[2]));
        w.ops.assign(t.begin() + 3, t.end());
        ws.push_back(std::move(w));
    }
    if (mode == "solo") {
        for (Workload& w : ws) { std::thread th(runWorkload, std::ref(w)); th.join(); }
    } else {
        std::atomic<int> ready{0};
        std::atomic<bool> go{false};
        std::vector<std::thread> ths;
        for (Workload& w : ws) {
            ths.emplace_back([&w, &ready, &go] {
                ready.fetch_add(1);
                while (!go.load(std::memory_order_acquire)) {}
                const auto until = std::chrono::steady_clock::now() + std::chrono::microseconds(w.offsetUs);
                while (std::chrono::steady_clock::now() < until) {}
                runWorkload(w);
            });
        }
        while (ready.load() < int(ws.size())) std::this_thread::yield();
        go.store(true, std::memory_order_release);
        for (std::thread& th : ths) th.join();
    }
    for (const Workload& w : ws) say("r " + std::to_string(w.id) + " " + w.transcript);
    return 0;
}
