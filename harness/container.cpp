// Correspondence harness for property C18, area Container: drives the real con::Container<Elem>
// with the line protocol of lean/Driver/Container.lean and prints the same observation lines.
//
// Elem counts its constructions / destructions and keeps a registry of the addresses at which an
// Elem currently lives, so that the lifetime discipline is observed directly:
//   overwrite   placement-new on an address that already holds an Elem
//   rawDestroy  destructor on an address that holds none
//   rawAssign / rawRead   operator= / copy / compare on an address that holds none
// Any such event is appended to the observation (`fault=...`); the proved model never has one.
//
// Operations whose C++ meaning is undefined (the model faults) are answered `ub` and NOT executed;
// the guards below are the ones stated and proved in lean/MorfuseModel/Props/C18.lean.
//
// -DC18_HAVE_INSERT: also drive InsertObjectAt (it does not instantiate on a tree where
// `objlist = Object_allocator.Alloc(...)` lacks the cast; tools/props/c18.py probes that).
#include <morfuse/Container/Container.h>
#include "lineio.h"

#include <set>
#include <string>
#include <vector>
#include <new>

using namespace mfuse;

namespace {
struct Elem;
std::set<const Elem*> reg;
long ctors = 0, dtors = 0;
std::string faults;
void fault(const char* what) { if (faults.size() < 200) { if (!faults.empty()) faults += ','; faults += what; } }

struct Elem {
    long v;
    void born() { ++ctors; if (!reg.insert(this).second) fault("overwrite"); }
    void isObj(const char* what) const { if (!reg.count(this)) fault(what); }
    Elem() : v(0) { born(); }
    explicit Elem(long x) : v(x) { born(); }
    Elem(const Elem& o) : v(o.v) { o.isObj("rawRead"); born(); }
    Elem(Elem&& o) noexcept : v(o.v) { o.isObj("rawRead"); o.v = -1; born(); }
    ~Elem() { ++dtors; if (!reg.erase(this)) fault("rawDestroy"); v = -2; }
    Elem& operator=(const Elem& o) { isObj("rawAssign"); o.isObj("rawRead"); v = o.v; return *this; }
    Elem& operator=(Elem&& o) noexcept { isObj("rawAssign"); o.isObj("rawRead"); v = o.v; if (&o != this) o.v = -1; return *this; }
    bool operator==(const Elem& o) const { isObj("rawRead"); o.isObj("rawRead"); return v == o.v; }
};
using Cont = con::Container<Elem>;

Cont* cs[2] = {nullptr, nullptr};
long cumC = 0, cumD = 0;   // constructions / destructions performed by container code

void resetAll()
{
    for (auto*& c : cs) { delete c; c = nullptr; }
    reg.clear(); ctors = dtors = 0; cumC = cumD = 0; faults.clear();
    for (auto*& c : cs) c = new Cont;
}

std::string showC(const Cont& c)
{
    std::string o = std::to_string(c.NumObjects()) + " " + std::to_string(c.MaxObjects()) + (c.objlist ? " buf" : " null");
    if (c.size() != c.NumObjects() || c.begin() != c.Data() || c.end() != c.Data() + c.NumObjects() || c.data() != c.objlist)
        o += " !stl-accessors-disagree";
    if (c.objlist) for (size_t i = 0; i < c.NumObjects(); ++i) {
        const Elem* e = c.objlist + i;
        o += ' ';
        o += reg.count(e) ? std::to_string(e->v) : std::string("?");
    }
    return o;
}

std::string showW()
{
    std::string o = showC(*cs[0]) + " | " + showC(*cs[1]) + " | c=" + std::to_string(cumC) + " d=" + std::to_string(cumD)
        + " live=" + std::to_string(reg.size());
    if (!faults.empty()) { o += " fault=" + faults; }
    return o;
}

// run `f` and charge the constructions / destructions it performs to the container code
template<typename F> void charged(F f)
{
    const long c0 = ctors, d0 = dtors;
    f();
    cumC += ctors - c0; cumD += dtors - d0;
}
}

int main()
{
    resetAll();
    std::vector<std::string> t;
    while (readTokens(t)) {
        std::vector<size_t> n;
        const bool numeric = parseNats(t, 1, n);
        const std::string op = t.empty() ? std::string() : t[0];
        if (op == "reset" && t.size() == 1) { resetAll(); say("ok - | " + showW()); continue; }
        if (!numeric || n.empty() || n[0] > 1) { say("bad-op"); continue; }
        Cont& c = *cs[n[0]];
        std::string ret = "-";
        bool ok = true, ub = false;
        if (op == "add" && n.size() == 2) {
            // even values go through the STL-style alias
            Elem tmp((long)n[1]); size_t r = 0;
            if (n[1] % 2 == 0) charged([&] { c.push_back(tmp); r = c.size(); }); else charged([&] { r = c.AddObject(tmp); });
            ret = std::to_string(r);
        } else if (op == "adddef" && n.size() == 1) {
            size_t r = 0; charged([&] { r = c.AddObject(); }); ret = std::to_string(r);
        } else if (op == "new" && n.size() == 2) {
            charged([&] { new (c) Elem((long)n[1]); });
        } else if (op == "addu" && n.size() == 2) {
            Elem tmp((long)n[1]); size_t r = 0; charged([&] { r = c.AddUniqueObject(tmp); }); ret = std::to_string(r);
        } else if (op == "addat" && n.size() == 3) {
            if (n[1] == 0) ub = true;
            else { Elem tmp((long)n[2]); charged([&] { c.AddObjectAt(n[1], tmp); }); }
        } else if (op == "ins" && n.size() == 3) {
#ifdef C18_HAVE_INSERT
            Elem tmp((long)n[2]); charged([&] { c.InsertObjectAt(n[1], tmp); });
#else
            ok = false;
#endif
        } else if (op == "rmat" && n.size() == 2) {
            charged([&] { try { c.RemoveObjectAt(n[1]); } catch (const con::OutOfRangeContainerException&) { ret = "threw"; } });
        } else if (op == "rm" && n.size() == 2) {
            Elem tmp((long)n[1]); charged([&] { c.RemoveObject(tmp); });
        } else if (op == "rmptr" && n.size() == 2) {
            // a pointer `off` elements past objlist (never dereferenced when off >= numobjects)
            charged([&] { c.RemoveObject(static_cast<const Elem*>(c.objlist) + n[1]); });
        } else if (op == "set" && n.size() == 3) {
            if (n[1] == 0 || n[1] > c.NumObjects()) ub = true;
            else { Elem tmp((long)n[2]); charged([&] { c.SetObjectAt(n[1], tmp); }); }
        } else if (op == "get" && n.size() == 2) {
            if (n[1] == 0 || n[1] > c.NumObjects()) ub = true;
            else { const Elem& e = c.ObjectAt(n[1]); e.isObj("rawRead"); ret = "v" + std::to_string(e.v);
                   if (&c[n[1] - 1] != &e || &c.at(n[1] - 1) != &e) ret += "!index-operators-disagree"; }
        } else if (op == "idx" && n.size() == 2) {
            Elem tmp((long)n[1]); ret = std::to_string(c.IndexOfObject(tmp));
        } else if (op == "has" && n.size() == 2) {
            Elem tmp((long)n[1]); ret = c.ObjectInList(tmp) ? "true" : "false";
        } else if (op == "resize" && n.size() == 2) {
            if (n[1] % 2) charged([&] { c.reserve(n[1]); }); else charged([&] { c.Resize(n[1]); });
        } else if (op == "setnum" && n.size() == 2) {
            if (n[1] % 2) charged([&] { c.resize(n[1]); }); else charged([&] { c.SetNumObjects(n[1]); });
        } else if (op == "shrink" && n.size() == 1) {
            if (c.NumObjects() % 2) charged([&] { c.shrink_to_fit(); }); else charged([&] { c.Shrink(); });
        } else if (op == "clear" && n.size() == 1) {
            if (c.NumObjects() % 2) charged([&] { c.clear(); }); else charged([&] { c.ClearObjectList(); });
        } else if (op == "free" && n.size() == 1) {
            charged([&] { c.FreeObjectList(); });
        } else if ((op == "copy" || op == "move" || op == "cctor" || op == "mctor") && n.size() == 2 && n[1] <= 1) {
            Cont& d = *cs[n[1]];
            if (op == "copy") charged([&] { c = d; });
            else if (op == "move") charged([&] { c = std::move(d); });
            else if (n[0] == n[1]) ok = false;
            else if (op == "cctor") charged([&] { c.~Cont(); new (&c) Cont(d); });
            else charged([&] { c.~Cont(); new (&c) Cont(std::move(d)); });
        } else if (op == "adddup" && n.size() == 2) {
            if (n[1] == 0 || n[1] > c.NumObjects() || c.NumObjects() >= c.MaxObjects()) ub = true;
            else { size_t r = 0; charged([&] { r = c.AddObject(c.ObjectAt(n[1])); }); ret = std::to_string(r); }
        } else ok = false;
        if (!ok) say("bad-op");
        else if (ub) say("ub");
        else say("ok " + ret + " | " + showW());
    }
    for (auto*& c : cs) { delete c; c = nullptr; }
    return 0;
}
