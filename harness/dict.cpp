// Correspondence harness for property C17: drives the real StringDictionary / con::arrayset and the
// real ScriptMaster (predefined strings) with the line protocol of lean/Driver/Dict.lean.
// Texts are hex-encoded (`-` = empty).  Private fields are read thanks to -fno-access-control.
//
//   dict            fresh stand-alone StringDictionary
//   master          fresh ScriptContext; the dictionary is its ScriptMaster's
//   add H | adds H  dict.Add(strview(ptr,len)) | dict.Add(strview(str))   -> ok id count tl thr tli
//   get H           dict.Get(const char*)                                 -> ok id count tl thr tli
//   str i           dict.Get(const_str(i))  (1 <= i <= size, else bad-op) -> ok H
//   more n          dict.AllocateMoreString(n)
//   reset           dict.Reset()  |  master: ScriptMaster::Reset()
//   predef          i:text:Get(text):Get(i) for every registered PredefinedString
//   all             Get(i) for i = 1..size
//   dump            bucket chains (entry indices), default entry, reverse-table check
//   --tables        (command line) print set_primes and the predefined registry, then exit
#include <morfuse/Common/StringDictionary.h>
#include <morfuse/Container/set_types.h>
#include <morfuse/Script/Context.h>
#include <morfuse/Script/EventSystem.h>
#include <morfuse/Script/ScriptMaster.h>
#include <morfuse/Script/PredefinedString.h>
#include "lineio.h"

#include <cstring>
#include <memory>
#include <string>
#include <vector>

using namespace mfuse;

namespace {
const size_t MAX_MORE = 4000000;

bool unhex(const std::string& t, std::string& out)
{
    out.clear();
    if (t == "-") return true;
    if (t.empty() || t.size() % 2) return false;
    auto val = [](char c) -> int {
        if (c >= '0' && c <= '9') return c - '0';
        if (c >= 'a' && c <= 'f') return c - 'a' + 10;
        return -1;
    };
    for (size_t i = 0; i < t.size(); i += 2) {
        const int a = val(t[i]), b = val(t[i + 1]);
        if (a < 0 || b < 0) return false;
        if (a * 16 + b == 0) return false;   // NUL: not expressible through the C-string API
        out.push_back((char)(a * 16 + b));
    }
    return true;
}

std::string hex(const char* p, size_t n)
{
    if (!n) return "-";
    static const char* d = "0123456789abcdef";
    std::string o;
    o.reserve(n * 2);
    for (size_t i = 0; i < n; ++i) { o.push_back(d[(unsigned char)p[i] >> 4]); o.push_back(d[(unsigned char)p[i] & 15]); }
    return o;
}

std::string hexOf(const str& s) { return hex(s.c_str(), s.length()); }

std::unique_ptr<StringDictionary> own;
std::unique_ptr<ScriptContext> ctx;
StringDictionary* dict = nullptr;

using Set = decltype(StringDictionary::stringDict);
using Entry = con::EntryArraySet<str, str>;

std::string obs()
{
    const Set& s = dict->stringDict;
    return std::to_string(s.count) + " " + std::to_string(s.tableLength) + " " + std::to_string(s.threshold) + " " +
           std::to_string((size_t)s.tableLengthIndex);
}

std::string dump()
{
    const Set& s = dict->stringDict;
    const bool inl = s.table == &s.defaultEntry;
    std::string o = std::string("inl=") + (inl ? "1" : "0") + " def=" + std::to_string(s.defaultEntry ? s.defaultEntry->Index() : 0);
    size_t bad = 0;
    for (size_t i = 1; i <= s.count; ++i) {
        const Entry* e = s.reverseTable[i];
        if (!e || e->Index() != i) { bad = i; break; }
    }
    o += bad ? " rev=bad@" + std::to_string(bad) : std::string(" rev=ok");
    o += " ";
    bool first = true;
    for (size_t b = 0; b < s.tableLength; ++b) {
        if (!s.table[b]) continue;
        if (!first) o += " ";
        first = false;
        o += std::to_string(b) + ":[";
        size_t guard = 0;
        for (const Entry* e = s.table[b]; e && guard <= s.count; e = e->Next(), ++guard) {
            if (e != s.table[b]) o += ",";
            o += std::to_string(e->Index());
        }
        o += "]";
    }
    return o;
}

void dropAll()
{
    dict = nullptr;
    own.reset();
    ctx.reset();
}

void newMaster()
{
    dropAll();
    ctx.reset(new ScriptContext);
    EventSystem::Get();
    ctx->EventContext::Set(ctx.get());
    dict = &ctx->GetDirector().GetDictionary();
}

int printTables()
{
    std::string o = "primes";
    for (size_t i = 0; i < sizeof(con::set_primes) / sizeof(con::set_primes[0]); ++i) o += " " + std::to_string(con::set_primes[i]);
    say(o);
    o = "predef";
    size_t n = 0;
    for (PredefinedString::List::iterator it = PredefinedString::GetList(); it; it = it.Next(), ++n) {
        o += " " + std::to_string((unsigned)it->GetIndex()) + ":" + hex(it->GetString(), std::strlen(it->GetString()));
    }
    say(o);
    say("numstrings " + std::to_string(PredefinedString::GetNumStrings()) + " " + std::to_string(n));
    return 0;
}
}

int main(int argc, char** argv)
{
    if (argc > 1 && std::string(argv[1]) == "--tables") return printTables();
    std::vector<std::string> t;
    std::string text;
    while (readTokens(t)) {
        const std::string op = t.empty() ? std::string() : t[0];
        if (op == "dict" && t.size() == 1) {
            dropAll();
            own.reset(new StringDictionary);
            dict = own.get();
            say("ok " + obs());
            continue;
        }
        if (op == "master" && t.size() == 1) {
            newMaster();
            say("ok " + obs());
            continue;
        }
        if (!dict) { say("bad-op"); continue; }
        if ((op == "add" || op == "adds" || op == "addp") && t.size() == 2 && unhex(t[1], text)) {
            unsigned id;
            if (op == "addp") {
                // a (pointer, length) view into a longer buffer: the characters behind the view are
                // not part of the text (a token inside a source line, the file half of "file::label")
                static const char tail[] = "\x01tail-behind-the-view";
                std::unique_ptr<char[]> buf(new char[text.size() + sizeof(tail)]);
                std::memcpy(buf.get(), text.data(), text.size());
                std::memcpy(buf.get() + text.size(), tail, sizeof(tail));
                id = (unsigned)dict->Add(strview(buf.get(), text.size()));
            } else if (op == "add") {
                // the character-array path; the buffer is exactly `len` bytes + NUL on the heap so
                // that any over-read is an ASan report
                std::unique_ptr<char[]> buf(new char[text.size() + 1]);
                std::memcpy(buf.get(), text.c_str(), text.size() + 1);
                id = (unsigned)dict->Add(strview(buf.get(), text.size()));
            } else {
                const str s(text.c_str());
                id = (unsigned)dict->Add(strview(s));
            }
            say("ok " + std::to_string(id) + " " + obs());
        } else if (op == "get" && t.size() == 2 && unhex(t[1], text)) {
            const unsigned id = (unsigned)dict->Get(text.c_str());
            say("ok " + std::to_string(id) + " " + obs());
        } else if (op == "str" && t.size() == 2) {
            std::vector<size_t> n;
            if (parseNats(t, 1, n) && n[0] >= 1 && n[0] <= dict->stringDict.size()) {
                say("ok " + hexOf(dict->Get(const_str((unsigned long)n[0]))));
            } else say("bad-op");
        } else if (op == "more" && t.size() == 2) {
            std::vector<size_t> n;
            if (parseNats(t, 1, n) && n[0] <= MAX_MORE) {
                dict->AllocateMoreString(n[0]);
                say("ok " + obs());
            } else say("bad-op");
        } else if (op == "reset" && t.size() == 1) {
            if (ctx) ctx->GetDirector().Reset(); else dict->Reset();
            say("ok " + obs());
        } else if (op == "predef" && t.size() == 1) {
            std::string o = "ok";
            for (PredefinedString::List::iterator it = PredefinedString::GetList(); it; it = it.Next()) {
                const unsigned idx = (unsigned)it->GetIndex();
                const char* s = it->GetString();
                o += " " + std::to_string(idx) + ":" + hex(s, std::strlen(s)) + ":" + std::to_string((unsigned)dict->Get(s)) + ":";
                if (idx >= 1 && idx <= dict->stringDict.size()) o += hexOf(dict->Get(const_str(idx))); else o += "?";
            }
            say(o);
        } else if (op == "all" && t.size() == 1) {
            std::string o = "ok ";
            for (size_t i = 1; i <= dict->stringDict.size(); ++i) {
                if (i > 1) o += " ";
                o += hexOf(dict->Get(const_str((unsigned long)i)));
            }
            say(o);
        } else if (op == "dump" && t.size() == 1) {
            say("ok " + dump());
        } else {
            say("bad-op");
        }
    }
    dropAll();
    return 0;
}
