// Correspondence harness for property C16 (command dispatch): drives the REAL class / event
// registry of libmorfuse with the line protocol of lean/Driver/Dispatch.lean.
//
//   dump mode   (argv[1] == "dump"): prints the built-in registry as `bevent` / `bclass` lines
//                (every EventDef of the global list in creation order, every ClassDef of the class
//                list with its parent and its declared responses) followed by `endbuiltins`.
//   line mode:   the same lines are fed back (they are the preamble of every run): the harness
//                answers each with what the real registry holds, the model with what it computed.
//                Then cases: `reset`, run-time registration of host events / classes through the
//                public EventDef / ClassDef constructors, `init` (first EventSystem::Get() of the
//                process, later EventSystem::InitEvents() rebuilds), table rows, name look-ups and
//                real invocations on an instance (Listener::ProcessScriptEvent / ProcessEventReturn
//                / ProcessEvent) whose handlers record which declaration ran, and the script
//                command `commanddelay` (Listener::CommandDelay + the event queue).
//
//   event <name> <kind> <ns> [h|v|c|a]   where the EventDef object lives: h (default) its own heap object;
//                v an element of a std::vector<EventDef> without reserve(), c of a con::Container<EventDef>
//                (both reallocate while they grow: every element is MOVE-CONSTRUCTED to its new place, the
//                response lists that point at it are re-pointed, as a host completes them once its table has
//                reached its final place); a: constructed, then MOVE-ASSIGNED onto a moved-from shell left by
//                an earlier move (or move-constructed when there is no shell yet).
//   ext <host class> <ev:has>...         new ClassDefExt(class, responses): a class extension; applied by
//                ClassDefExt::InitClassDef at the end of the next build.  Its responses are identified as
//                `<1000000 + k>.<index>` (k = number of the extension in this case).
//
// Ids: event objects and classes are numbered in construction order (built-ins first).
// A handler is identified by `<declaring class id>.<index in that class's Responses[]>`.
#include <morfuse/Script/Class.h>
#include <morfuse/Script/ClassDef.h>
#include <morfuse/Script/Event.h>
#include <morfuse/Script/EventSystem.h>
#include <morfuse/Script/EventContext.h>
#include <morfuse/Script/Listener.h>
#include <morfuse/Script/EventQueue.h>
#include <morfuse/Common/Time.h>
#include <morfuse/Script/NamespaceDef.h>
#include <morfuse/Script/NamespaceManager.h>
#include <morfuse/Container/ContainerView.h>
#include <morfuse/Container/Container.h>
#include "lineio.h"

#include <algorithm>
#include <deque>
#include <memory>
#include <string>
#include <utility>
#include <vector>

using namespace mfuse;

namespace {

constexpr size_t MAX_HANDLERS = 768;
constexpr size_t NUM_NS = 3;

int g_lastHandler = -1;

class HostObj : public Listener
{
public:
    explicit HostObj(const ClassDef* c) : cd(c) {}
    const ClassDef& classinfo() const override { return *cd; }
    template<int K> void H(Event&) { g_lastHandler = K; }
    const ClassDef* cd;
};

using HostFn = void (HostObj::*)(Event&);
template<size_t... I>
const HostFn* makeTable(std::index_sequence<I...>)
{
    static const HostFn t[] = { &HostObj::H<(int)I>... };
    return t;
}
const HostFn* const handlerTable = makeTable(std::make_index_sequence<MAX_HANDLERS>());

Class* noInstance() { return nullptr; }

NamespaceDef* g_ns[NUM_NS + 1];   // 1..NUM_NS

// where a host EventDef lives: 'h' own heap object, 'v' element idx of g_vec, 'c' element idx of g_con
struct EvRec { const EventDef* def; bool host; std::unique_ptr<std::string> name; char store = 'h'; size_t idx = 0; };
struct ClsRec {
    ClassDef* def;
    bool host;
    std::unique_ptr<std::string> name;
    std::unique_ptr<std::vector<ResponseDefClass>> resp;   // host only (stable storage)
    size_t nresp;
    const ResponseDefClass* respBase;
    std::vector<size_t> respEv;                            // host only: event id of every response
};
struct ExtRec {
    ClassDefExt* ext;
    std::unique_ptr<std::vector<ResponseDefClass>> resp;
    size_t nresp;
    const ResponseDefClass* respBase;
    std::vector<size_t> respEv;
};
std::vector<ExtRec> exts;                      // index = k - 1
std::vector<EventDef>* g_vec = nullptr;        // grows without reserve(): elements are move-constructed
con::Container<EventDef>* g_con = nullptr;     // the engine's own growable array: Resize() move-constructs
std::vector<EventDef*> g_shells;               // moved-from EventDef objects (targets of move assignment)
constexpr size_t EXT_BASE = 1000000;

std::vector<EvRec> evs;      // index = id - 1
std::vector<ClsRec> clss;    // index = id - 1
size_t nBuiltinEv = 0, nBuiltinCls = 0;
size_t baselineDefCount = 0;
size_t nextHandler = 0;
std::vector<std::pair<size_t, size_t>> handlerOwner;   // K -> (class id, index)
bool built = false;
bool systemStarted = false;
bool builtinsDone = false;
size_t bevCursor = 0, bclsCursor = 0;
std::vector<const EventDef*> builtinEvOrder;   // creation order
std::vector<ClassDef*> builtinClsOrder;

const char* kindTok(evType_e t)
{
    switch (t) {
    case evType_e::None: return "X";
    case evType_e::Normal: return "N";
    case evType_e::Return: return "R";
    case evType_e::Getter: return "G";
    case evType_e::Setter: return "S";
    }
    return "?";
}
bool parseKind(const std::string& s, evType_e& out)
{
    if (s == "X") out = evType_e::None;
    else if (s == "N") out = evType_e::Normal;
    else if (s == "R") out = evType_e::Return;
    else if (s == "G") out = evType_e::Getter;
    else if (s == "S") out = evType_e::Setter;
    else return false;
    return true;
}
bool nameOk(const std::string& s)
{
    if (s.empty() || s.size() > 64) return false;
    for (char c : s) if (!((c >= 'a' && c <= 'z') || (c >= 'A' && c <= 'Z') || (c >= '0' && c <= '9') || c == '_')) return false;
    return true;
}
bool parseNat(const std::string& s, size_t& out)
{
    if (s.empty() || s.size() > 9) return false;
    for (char c : s) if (c < '0' || c > '9') return false;
    out = std::strtoull(s.c_str(), nullptr, 10);
    return true;
}
size_t nsId(const ObjectInNamespace& o) { return o.GetNamespace() ? o.GetNamespace()->GetId() : 0; }

void collectBuiltins()
{
    for (const EventDef* e = EventDef::GetHead(); e; e = e->GetNext()) builtinEvOrder.push_back(e);
    std::reverse(builtinEvOrder.begin(), builtinEvOrder.end());   // head = most recent
    for (auto c = ClassDef::GetList(); c; c = c.Next()) builtinClsOrder.push_back(c.Node());
}

size_t clsIdOf(const ClassDef* c)
{
    if (!c) return 0;
    for (size_t i = 0; i < clss.size(); ++i) if (clss[i].def == c) return i + 1;
    for (size_t i = 0; i < builtinClsOrder.size(); ++i) if (builtinClsOrder[i] == c) return i + 1;
    return 999999;
}

// id of the event OBJECT a response refers to: the object itself when it is registered, otherwise
// (a built-in duplicate that never entered the list) the list event carrying the same number
size_t evIdOfBuiltinDecl(const EventDef* e)
{
    for (size_t i = 0; i < builtinEvOrder.size(); ++i) if (builtinEvOrder[i] == e) return i + 1;
    for (size_t i = 0; i < builtinEvOrder.size(); ++i)
        if (builtinEvOrder[i]->GetEventNum() == e->GetEventNum()) return i + 1;
    return 999999;
}

std::string declList(const ClassDef* c)
{
    std::string out;
    for (const ResponseDefClass* r = c->GetResponseList(); r->event; ++r) {
        out += ' ';
        out += std::to_string(evIdOfBuiltinDecl(r->event)) + ":" + (r->response ? "1" : "0");
    }
    return out;
}

std::string bevLine(const char* tag, size_t k)
{
    const EventDef* e = builtinEvOrder[k];
    const EventDefAttributes& a = e->GetAttributes();
    return std::string(tag) + " " + a.GetString() + " " + kindTok(a.GetType()) + " " + std::to_string(nsId(*e));
}
std::string bclsLine(const char* tag, size_t k)
{
    const ClassDef* c = builtinClsOrder[k];
    return std::string(tag) + " " + c->GetClassName() + " " + std::to_string(clsIdOf(c->GetSuper())) + " " +
        std::to_string(nsId(*c)) + declList(c);
}

// which declaration a ResponseDef pointer is: "<class id>.<index>"
std::string respTok(const ResponseDefClass* r)
{
    for (size_t i = 0; i < clss.size(); ++i) {
        const ResponseDefClass* b = clss[i].respBase;
        if (r >= b && r < b + clss[i].nresp) return std::to_string(i + 1) + "." + std::to_string(r - b);
    }
    for (size_t k = 0; k < exts.size(); ++k) {
        const ResponseDefClass* b = exts[k].respBase;
        if (r >= b && r < b + exts[k].nresp) return std::to_string(EXT_BASE + k + 1) + "." + std::to_string(r - b);
    }
    return "?.?";
}
bool respIsHost(const ResponseDefClass* r)
{
    for (size_t k = 0; k < exts.size(); ++k) {
        const ResponseDefClass* b = exts[k].respBase;
        if (r >= b && r < b + exts[k].nresp) return true;
    }
    for (size_t i = nBuiltinCls; i < clss.size(); ++i) {
        const ResponseDefClass* b = clss[i].respBase;
        if (r >= b && r < b + clss[i].nresp) return true;
    }
    return false;
}

// after g_vec / g_con have grown: every resident event may have moved; re-point the records and the
// response lists (of classes and extensions) that refer to them
void repoint()
{
    for (size_t i = nBuiltinEv; i < evs.size(); ++i) {
        if (evs[i].store == 'v') evs[i].def = &(*g_vec)[evs[i].idx];
        else if (evs[i].store == 'c') evs[i].def = &g_con->ObjectAt(evs[i].idx);
    }
    for (size_t i = nBuiltinCls; i < clss.size(); ++i)
        for (size_t j = 0; j < clss[i].respEv.size(); ++j)
            (*clss[i].resp)[j].event = const_cast<EventDef*>(evs[clss[i].respEv[j] - 1].def);
    for (auto& x : exts)
        for (size_t j = 0; j < x.respEv.size(); ++j)
            (*x.resp)[j].event = const_cast<EventDef*>(evs[x.respEv[j] - 1].def);
}

void teardownHost()
{
    while (!exts.empty()) { delete exts.back().ext; exts.pop_back(); }
    while (clss.size() > nBuiltinCls) { delete clss.back().def; clss.pop_back(); }
    while (evs.size() > nBuiltinEv) { if (evs.back().store == 'h') delete evs.back().def; evs.pop_back(); }
    delete g_vec; g_vec = nullptr;
    delete g_con; g_con = nullptr;
    for (EventDef* sh : g_shells) delete sh;
    g_shells.clear();
    // outside the model: unregistering is not part of the property.  ~EventDef decrements the
    // counter also for duplicates that never incremented it, so put it back where the built-ins left it
    EventDef::defCount = baselineDefCount;
    handlerOwner.clear();
    nextHandler = 0;
    built = false;
    NamespaceManager& nm = EventContext::Get().GetNamespaceManager();
    nm.SetFilterMode(namespaceFilterMode_e::None);
    nm.SetFilteredNamespace(con::ContainerView<const NamespaceDef*>());
}

std::string doInit()
{
    if (!systemStarted) { EventSystem::Get(); systemStarted = true; }   // first Get() builds everything
    else EventSystem::Get().InitEvents();                                // rebuild
    built = true;
    EventSystem& es = EventSystem::Get();
    return "init " + std::to_string(EventSystem::NumEventCommands()) + " " + std::to_string(es.eventDefName.size());
}

std::string doRow(size_t cls, bool decide)
{
    const ClassDef* c = clss[cls - 1].def;
    const size_t n = EventSystem::NumEventCommands();
    EventSystem& es = EventSystem::Get();
    const NamespaceManager& nm = EventContext::Get().GetNamespaceManager();
    std::string out = decide ? "drow" : "row";
    size_t filtered = 0;
    std::string body;
    for (size_t i = 1; i <= n; ++i) {
        if (decide) {
            const EventDef* d = es.GetEventDef((eventNum_t)i);
            if (!d || !nm.IsObjectInNamespaceAllowed(*d)) { ++filtered; continue; }
        }
        const ResponseDefClass* r = c->GetResponse((eventNum_t)i);
        const EventDef* d = c->GetDef((eventNum_t)i);
        if ((r != nullptr) != (d != nullptr) || (r && r->event != d)) { body += " " + std::to_string(i) + "=GETDEF-MISMATCH"; continue; }
        if (r) body += " " + std::to_string(i) + "=" + respTok(r);
    }
    if (decide) out += " F=" + std::to_string(filtered);
    return out + body;
}

std::string doName(const std::string& name)
{
    EventSystem& es = EventSystem::Get();
    const eventName_t idx = es.GetEventConstName(name.c_str());
    const eventInfo_t& info = es.FindEventInfoChecked(idx);
    const eventInfo_t* p = es.FindEventInfo(idx);
    std::string out = "nm " + std::to_string(idx) + " " + std::to_string(info.normalNum) + " " + std::to_string(info.returnNum) +
        " " + std::to_string(info.getterNum) + " " + std::to_string(info.setterNum);
    // the index-based API (used by the compiler for level./local./group./parm. fields, by
    // `commanddelay` and by spawn arguments): what it answers for each kind
    out += " I=" + std::to_string(es.FindNormalEventNum(idx)) + "," + std::to_string(es.FindReturnEventNum(idx)) + "," +
        std::to_string(es.FindGetterEventNum(idx)) + "," + std::to_string(es.FindSetterEventNum(idx)) + "," + (p ? "1" : "0");
    if (p && p != &info) out += " INFO-PTR-MISMATCH";
    if (es.FindNormalEventNum(name.c_str()) != info.normalNum || es.FindReturnEventNum(name.c_str()) != info.returnNum ||
        es.FindGetterEventNum(name.c_str()) != info.getterNum || es.FindSetterEventNum(name.c_str()) != info.setterNum ||
        es.FindEventInfo(name.c_str()) != p)
        out += " RAW-MISMATCH";
    return out;
}

eventNum_t numFor(const std::string& name, evType_e kind)
{
    EventSystem& es = EventSystem::Get();
    switch (kind) {
    case evType_e::Normal: return es.FindNormalEventNum(name.c_str());
    case evType_e::Return: return es.FindReturnEventNum(name.c_str());
    case evType_e::Getter: return es.FindGetterEventNum(name.c_str());
    case evType_e::Setter: return es.FindSetterEventNum(name.c_str());
    default: return 0;
    }
}

std::string doCall(size_t cls, const std::string& mode, evType_e kind, const std::string& name)
{
    const ClassDef* c = clss[cls - 1].def;
    const eventNum_t num = numFor(name, kind);
    std::string out = "call " + std::to_string(num) + " ";
    // a response inherited from a built-in class is not invoked (its handler acts on engine state);
    // the decision the dispatcher would take is reported instead
    if (num) {
        const ResponseDefClass* r = c->GetResponse(num);
        if (r && !respIsHost(r)) {
            const EventDef* d = EventSystem::Get().GetEventDef(num);
            const NamespaceManager& nm = EventContext::Get().GetNamespaceManager();
            if (!nm.IsObjectInNamespaceAllowed(*d)) return out + (mode == "proc" ? "false" : "notfound");
            return out + "ran " + respTok(r);
        }
    }
    HostObj obj(c);
    Event ev(num);
    g_lastHandler = -1;
    std::string res;
    try {
        if (mode == "script") { obj.ProcessScriptEvent(ev); res = "returned"; }
        else if (mode == "ret") { obj.ProcessEventReturn(ev); res = "returned"; }
        else { res = obj.ProcessEvent(ev) ? "returned" : "false"; }
    } catch (const ListenerErrors::EventNotFound&) { res = "notfound"; }
    catch (const ListenerErrors::EventListenerFailed&) { res = "failed"; }
    catch (const std::exception&) { res = "exception"; }
    if (g_lastHandler >= 0) {
        if (res != "returned") return out + "RAN-AND-" + res;
        const auto& o = handlerOwner[(size_t)g_lastHandler];
        return out + "ran " + std::to_string(o.first) + "." + std::to_string(o.second);
    }
    if (res == "returned") res = "silent";
    return out + res;
}

// the script command `commanddelay <seconds> <command> ...` (Listener::CommandDelay) on an instance
// of a host class: resolves <command> through the index-based FindEventInfo, posts the event, and
// the queue delivers it through ProcessEvent.  Reports the number that was posted (0: nothing was)
// and what the delivery did.
uinttime_t fixedClock() { return 1000; }

std::string doDelay(size_t cls, const std::string& name)
{
    const ClassDef* c = clss[cls - 1].def;
    EventSystem& es = EventSystem::Get();
    EventQueue& q = EventContext::Get().GetEventQueue();
    std::unique_ptr<HostObj> obj(new HostObj(c));
    Event ev(es.FindNormalEventNum("commanddelay"));
    ev.AddFloat(0.f);
    ev.AddString(name.c_str());
    g_lastHandler = -1;
    try { obj->CommandDelay(ev); }
    catch (const std::exception&) { return "delay 0 exception"; }
    eventNum_t posted = 0;
    size_t count = 0;
    for (auto n = q.Node.CreateIterator(); n; n = n.Next())
        if (n->GetSourceObject() == obj.get()) { posted = n->event->Num(); ++count; }
    if (count == 0) return "delay 0 dropped";
    if (count > 1) return "delay " + std::to_string(posted) + " POSTED-TWICE";
    const ResponseDefClass* r = c->GetResponse(posted);
    std::string out = "delay " + std::to_string(posted) + " ";
    if (r && !respIsHost(r)) {
        // inherited from a built-in class: not delivered (its handler acts on engine state)
        obj->CancelPendingEvents();
        const EventDef* d = es.GetEventDef(posted);
        const NamespaceManager& nm = EventContext::Get().GetNamespaceManager();
        return out + (nm.IsObjectInNamespaceAllowed(*d) ? "ran " + respTok(r) : std::string("nothing"));
    }
    q.ProcessPendingEvents(obj.get());
    if (g_lastHandler >= 0) {
        const auto& o = handlerOwner[(size_t)g_lastHandler];
        return out + "ran " + std::to_string(o.first) + "." + std::to_string(o.second);
    }
    return out + "nothing";
}

} // namespace

int main(int argc, char** argv)
{
    mfuse::verif::now_ms = &fixedClock;
    EventContext ctx;
    static NamespaceDef ns1("verif_ns1", "host namespace 1");
    static NamespaceDef ns2("verif_ns2", "host namespace 2");
    static NamespaceDef ns3("verif_ns3", "host namespace 3");
    g_ns[1] = &ns1; g_ns[2] = &ns2; g_ns[3] = &ns3;
    collectBuiltins();

    if (argc > 1 && std::string(argv[1]) == "dump") {
        for (size_t k = 0; k < builtinEvOrder.size(); ++k) say(bevLine("bevent", k));
        for (size_t k = 0; k < builtinClsOrder.size(); ++k) say(bclsLine("bclass", k));
        say("endbuiltins");
        return 0;
    }

    std::vector<std::string> t;
    while (readTokens(t)) {
        const std::string op = t.empty() ? std::string() : t[0];
        if (op == "bevent") {
            if (builtinsDone || bevCursor >= builtinEvOrder.size()) { say("bad-op"); continue; }
            const EventDef* e = builtinEvOrder[bevCursor];
            evs.push_back(EvRec{ e, false, nullptr });
            say("ev " + std::to_string(evs.size()) + " " + std::to_string(e->GetEventNum()) + " 1 |" + bevLine("", bevCursor));
            ++bevCursor;
            continue;
        }
        if (op == "bclass") {
            if (builtinsDone || bclsCursor >= builtinClsOrder.size()) { say("bad-op"); continue; }
            ClassDef* c = builtinClsOrder[bclsCursor];
            size_t n = 0;
            for (const ResponseDefClass* r = c->GetResponseList(); r->event; ++r) ++n;
            clss.push_back(ClsRec{ c, false, nullptr, nullptr, n, c->GetResponseList(), {} });
            say("cls " + std::to_string(clss.size()) + " |" + bclsLine("", bclsCursor));
            ++bclsCursor;
            continue;
        }
        if (op == "endbuiltins") {
            if (builtinsDone || bevCursor != builtinEvOrder.size() || bclsCursor != builtinClsOrder.size()) { say("bad-op"); continue; }
            builtinsDone = true;
            nBuiltinEv = evs.size(); nBuiltinCls = clss.size();
            baselineDefCount = EventDef::defCount;
            say("ok " + std::to_string(nBuiltinEv) + " " + std::to_string(nBuiltinCls));
            continue;
        }
        if (!builtinsDone) { say("bad-op"); continue; }
        if (op == "reset" && t.size() == 1) { teardownHost(); say("ok"); continue; }
        if (op == "event" && (t.size() == 4 || (t.size() == 5 && (t[4] == "h" || t[4] == "v" || t[4] == "c" || t[4] == "a")))) {
            evType_e kind; size_t ns;
            if (!nameOk(t[1]) || !parseKind(t[2], kind) || !parseNat(t[3], ns) || ns > NUM_NS) { say("bad-op"); continue; }
            auto nm = std::make_unique<std::string>(t[1]);
            const char mode = t.size() == 5 ? t[4][0] : 'h';
            const EventDef* e = nullptr;
            char store = 'h'; size_t idx = 0;
            if (mode == 'v') {
                if (!g_vec) g_vec = new std::vector<EventDef>();
                if (ns) g_vec->emplace_back(*g_ns[ns], nm->c_str(), 0, "", "", "", kind);
                else g_vec->emplace_back(nm->c_str(), 0, "", "", "", kind);
                store = 'v'; idx = g_vec->size() - 1; e = &g_vec->back();
            } else if (mode == 'c') {
                if (!g_con) g_con = new con::Container<EventDef>();
                if (ns) new (*g_con) EventDef(*g_ns[ns], nm->c_str(), 0, "", "", "", kind);
                else new (*g_con) EventDef(nm->c_str(), 0, "", "", "", kind);
                store = 'c'; idx = g_con->NumObjects(); e = &g_con->ObjectAt(idx);
            } else if (mode == 'a') {
                EventDef* tmp = ns ? new EventDef(*g_ns[ns], nm->c_str(), 0, "", "", "", kind)
                                   : new EventDef(nm->c_str(), 0, "", "", "", kind);
                if (g_shells.empty()) {
                    e = new EventDef(std::move(*tmp));            // move construction
                } else {
                    EventDef* sh = g_shells.back(); g_shells.pop_back();
                    *sh = std::move(*tmp);                        // move assignment onto a moved-from shell
                    e = sh;
                }
                g_shells.push_back(tmp);                          // tmp is now a moved-from shell
            } else {
                e = ns ? new EventDef(*g_ns[ns], nm->c_str(), 0, "", "", "", kind)
                       : new EventDef(nm->c_str(), 0, "", "", "", kind);
            }
            const bool linked = e->next != nullptr || e->prev != nullptr || EventDef::GetHead() == e;
            evs.push_back(EvRec{ e, true, std::move(nm), store, idx });
            if (store != 'h') repoint();
            built = false;
            say("ev " + std::to_string(evs.size()) + " " + std::to_string(e->GetEventNum()) + " " + (linked ? "1" : "0"));
            continue;
        }
        if (op == "class" && t.size() >= 3) {
            size_t parent, ns;
            if (!parseNat(t[1], parent) || !parseNat(t[2], ns) || parent > clss.size() || ns > NUM_NS) { say("bad-op"); continue; }
            auto resp = std::make_unique<std::vector<ResponseDefClass>>();
            std::vector<std::pair<size_t, size_t>> owners;
            std::vector<size_t> respEv;
            bool ok = true;
            size_t used = 0;
            for (size_t i = 3; i < t.size() && ok; ++i) {
                const size_t colon = t[i].find(':');
                size_t ev, f;
                if (colon == std::string::npos || !parseNat(t[i].substr(0, colon), ev) || !parseNat(t[i].substr(colon + 1), f) ||
                    ev == 0 || ev > evs.size() || f > 1) { ok = false; break; }
                ResponseDefClass r;
                respEv.push_back(ev);
                r.event = const_cast<EventDef*>(evs[ev - 1].def);
                if (f) {
                    if (nextHandler + used >= MAX_HANDLERS) { ok = false; break; }
                    r.response = static_cast<Response>(handlerTable[nextHandler + used]);
                    owners.emplace_back(clss.size() + 1, i - 3);
                    ++used;
                } else r.response = nullptr;
                resp->push_back(r);
            }
            if (!ok) { say("bad-op"); continue; }
            ResponseDefClass end; end.event = nullptr; end.response = nullptr;
            resp->push_back(end);
            nextHandler += used;
            for (auto& o : owners) handlerOwner.push_back(o);
            auto nm = std::make_unique<std::string>("VerifHost" + std::to_string(clss.size() + 1));
            ClassDef* super = parent ? clss[parent - 1].def : nullptr;
            ClassDef* c = ns ? new ClassDef(*g_ns[ns], super, nm->c_str(), nullptr, resp->data(), &noInstance)
                             : new ClassDef(super, nm->c_str(), nullptr, resp->data(), &noInstance);
            const size_t n = resp->size() - 1;
            const ResponseDefClass* base = resp->data();
            clss.push_back(ClsRec{ c, true, std::move(nm), std::move(resp), n, base, std::move(respEv) });
            built = false;
            say("cls " + std::to_string(clss.size()));
            continue;
        }
        if (op == "ext" && t.size() >= 2) {
            size_t cls;
            if (!parseNat(t[1], cls) || cls <= nBuiltinCls || cls > clss.size()) { say("bad-op"); continue; }
            auto resp = std::make_unique<std::vector<ResponseDefClass>>();
            std::vector<std::pair<size_t, size_t>> owners;
            std::vector<size_t> respEv;
            bool ok = true;
            size_t used = 0;
            for (size_t i = 2; i < t.size() && ok; ++i) {
                const size_t colon = t[i].find(':');
                size_t ev, f;
                if (colon == std::string::npos || !parseNat(t[i].substr(0, colon), ev) || !parseNat(t[i].substr(colon + 1), f) ||
                    ev == 0 || ev > evs.size() || f > 1) { ok = false; break; }
                ResponseDefClass r;
                respEv.push_back(ev);
                r.event = const_cast<EventDef*>(evs[ev - 1].def);
                if (f) {
                    if (nextHandler + used >= MAX_HANDLERS) { ok = false; break; }
                    r.response = static_cast<Response>(handlerTable[nextHandler + used]);
                    owners.emplace_back(EXT_BASE + exts.size() + 1, i - 2);
                    ++used;
                } else r.response = nullptr;
                resp->push_back(r);
            }
            if (!ok) { say("bad-op"); continue; }
            ResponseDefClass end; end.event = nullptr; end.response = nullptr;
            resp->push_back(end);
            nextHandler += used;
            for (auto& o : owners) handlerOwner.push_back(o);
            ClassDefExt* x = new ClassDefExt(clss[cls - 1].def, resp->data());
            const size_t n = resp->size() - 1;
            const ResponseDefClass* base = resp->data();
            exts.push_back(ExtRec{ x, std::move(resp), n, base, std::move(respEv) });
            built = false;
            say("ext " + std::to_string(exts.size()));
            continue;
        }
        if (op == "init" && t.size() == 1) { say(doInit()); continue; }
        if (op == "filter" && t.size() >= 2) {
            size_t mode; bool ok = parseNat(t[1], mode) && mode <= 2;
            std::vector<const NamespaceDef*> defs;
            for (size_t i = 2; i < t.size() && ok; ++i) {
                size_t ns;
                if (!parseNat(t[i], ns) || ns == 0 || ns > NUM_NS) ok = false; else defs.push_back(g_ns[ns]);
            }
            if (!ok) { say("bad-op"); continue; }
            NamespaceManager& nm = EventContext::Get().GetNamespaceManager();
            nm.SetFilterMode(mode == 0 ? namespaceFilterMode_e::None : mode == 1 ? namespaceFilterMode_e::Inclusive : namespaceFilterMode_e::Exclusive);
            nm.SetFilteredNamespace(con::ContainerView<const NamespaceDef*>(defs.data(), defs.size()));
            say("ok");
            continue;
        }
        if ((op == "row" || op == "drow") && t.size() == 2) {
            size_t cls;
            if (!built || !parseNat(t[1], cls) || cls == 0 || cls > clss.size()) { say("bad-op"); continue; }
            say(doRow(cls, op == "drow"));
            continue;
        }
        if (op == "name" && t.size() == 2) {
            if (!built || !nameOk(t[1])) { say("bad-op"); continue; }
            say(doName(t[1]));
            continue;
        }
        if (op == "call" && t.size() == 5) {
            size_t cls; evType_e kind;
            if (!built || !parseNat(t[1], cls) || cls <= nBuiltinCls || cls > clss.size() ||
                !(t[2] == "script" || t[2] == "ret" || t[2] == "proc") || !parseKind(t[3], kind) || kind == evType_e::None || !nameOk(t[4])) { say("bad-op"); continue; }
            say(doCall(cls, t[2], kind, t[4]));
            continue;
        }
        if (op == "delay" && t.size() == 3) {
            size_t cls;
            if (!built || !parseNat(t[1], cls) || cls <= nBuiltinCls || cls > clss.size() || !nameOk(t[2])) { say("bad-op"); continue; }
            say(doDelay(cls, t[2]));
            continue;
        }
        say("bad-op");
    }
    teardownHost();
    return 0;
}
