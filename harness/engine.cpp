// Correspondence harness for the scheduler-level properties (C05, C06, C07, C09, C13, C14):
// hosts a real ScriptContext under the injected clock (hook H1) and answers one line per command.
//
//   reset                      destroy the context, create a fresh one, clock := 0
//   script <name> <hex-source> compile (recompile = true)
//   source <name> <hex-source> only store the text: the engine finds it by name through IFileManagement
//                              (`thread aux.scr::label`, `exec aux.scr`) and compiles it on first use
//   call <name> <label|-> <arg>*   ExecuteThread(script, Event(args), label); arg = i<int> | s<hex> | n
//   thread-result              re-read the Event of the last `call` (asynchronous result)
//   advance <ms>               clock += ms
//   execute                    context.Execute()
//   step <ms>                  advance + execute
//   cfg maxexec <ms> | loopprot <0|1> | depth <n> | clockstep <ms> | stream <level> <0|1> | developer <0|1>
//   reset-director             director.Reset()
//   save / load                archive the director to memory / Reset + read it back
//   c14reset                   (C14, unwind model) fresh context, clock 0, clock step 0, default streams /
//                              developer flag / nesting limit, and switch the answers to the C14 observation
//                              format: `ok|err <kind> out=[…] idle cls thr vm tim ev cur prev depth clk dbg warn err verb=[d.d…]`
//                              (`reset` switches back)
//
// Answer: `ok out=[l1|l2|…] ret=<v> idle=<b> cls=<n> thr=<n> vm=<n> tim=<n> ev=<n>` or `err <kind> …` with the
// same trailer.  `out` is everything scripts printed on the Output stream during the command.
#include <morfuse/Script/Context.h>
#include <morfuse/Script/ScriptVariable.h>
#include <morfuse/Script/ScriptException.h>
#include <morfuse/Script/ScriptThread.h>
#include <morfuse/Script/ScriptVM.h>
#include <morfuse/Script/ProgramScript.h>
#include <morfuse/Script/StateScript.h>
#include <morfuse/Script/Archiver.h>
#include <morfuse/Script/Level.h>
#include <morfuse/Script/Game.h>
#include <morfuse/Common/membuf.h>
#include <morfuse/Common/OutputInfo.h>
#include "lineio.h"
#include <algorithm>

#include <sstream>
#include <map>
#include <memory>
#include <cstring>

using namespace mfuse;

namespace {
uint64_t g_clock = 0;
uint64_t g_clockStep = 0;      // added on every read (C14: time passes while a script runs)
uint64_t clockFn() { const uint64_t v = g_clock; g_clock += g_clockStep; return v; }

std::ostringstream g_out, g_warn, g_dbg, g_err, g_verb;
std::unique_ptr<ScriptContext> g_ctx;
std::vector<std::pair<std::unique_ptr<Event>, size_t>> g_events;   // every host call record since the last reset, with its argument count
std::string g_archive;
bool g_streams[5] = { true, true, true, true, false }; // Output, Warn, Debug, Error, Verbose
bool g_developer = true;
bool g_c14obs = false;            // C14 observation format (see c14reset)
std::string g_diag;               // per-stream diagnostics of the last command (C14 observation format)

std::map<std::string, std::string> g_sources;   // served to the engine through IFileManagement

class FileImpl : public IFile
{
public:
    explicit FileImpl(const std::string& src) : stream(src.data(), src.size()) {}
    std::istream& getStream() noexcept override { return stream; }
private:
    imemstream stream;
};

class FileManagement : public IFileManagement
{
public:
    IFile* OpenFile(const char* fname) override
    {
        auto it = g_sources.find(fname);
        return it == g_sources.end() ? nullptr : new FileImpl(it->second);
    }
    void CloseFile(IFile* file) noexcept override { delete file; }
};
FileManagement g_files;

std::string unhex(const std::string& h)
{
    std::string s;
    for (size_t i = 0; i + 1 < h.size(); i += 2) s.push_back(char(std::stoi(h.substr(i, 2), nullptr, 16)));
    return s;
}

void attachStreams()
{
    OutputInfo& oi = g_ctx->GetOutputInfo();
    oi.SetOutputStream(outputLevel_e::Output, g_streams[0] ? &g_out : nullptr);
    oi.SetOutputStream(outputLevel_e::Warn, g_streams[1] ? &g_warn : nullptr);
    oi.SetOutputStream(outputLevel_e::Debug, g_streams[2] ? &g_dbg : nullptr);
    oi.SetOutputStream(outputLevel_e::Error, g_streams[3] ? &g_err : nullptr);
    oi.SetOutputStream(outputLevel_e::Verbose, g_streams[4] ? &g_verb : nullptr);
    g_ctx->GetSettings().SetDeveloperEnabled(g_developer);
}

void freshContext()
{
    g_events.clear();
    g_ctx.reset();
    g_clock = 0;
    EventSystem::Get();
    g_ctx.reset(new ScriptContext);
    g_ctx->EventContext::Set(g_ctx.get());
    g_ctx->GetScriptInterfaces().fileManagement = &g_files;
    attachStreams();
}

std::string takeOut()
{
    std::string s = g_out.str();
    g_out.str(""); g_out.clear();
    {
        // C14: what reached each diagnostic stream during the command
        auto countOf = [](const std::string& h, const std::string& n) { size_t c = 0; for (size_t p = h.find(n); p != std::string::npos; p = h.find(n, p + n.size())) ++c; return c; };
        const std::string dbg = g_dbg.str(), warn = g_warn.str(), err = g_err.str(), verb = g_verb.str();
        std::string frames;
        for (size_t p = verb.find("----FRAME: "); p != std::string::npos; p = verb.find("----FRAME: ", p + 1)) {
            size_t q = p + 11; std::string num;
            while (q < verb.size() && isdigit((unsigned char)verb[q])) num += verb[q++];
            if (!frames.empty()) frames += '.';
            frames += num;
        }
        g_diag = " dbg=" + std::to_string(countOf(dbg, "Update of script position")) +
                 " warn=" + std::to_string(countOf(warn, "^~^~^ Script Warning")) +
                 " err=" + std::to_string(countOf(err, "(m, ")) + " verb=[" + frames + "]";
    }
    g_warn.str(""); g_warn.clear(); g_dbg.str(""); g_dbg.clear(); g_err.str(""); g_err.clear(); g_verb.str(""); g_verb.clear();
    std::string r = "[";
    size_t i = 0; bool first = true;
    while (i < s.size()) {
        size_t j = s.find('\n', i);
        if (j == std::string::npos) j = s.size();
        if (!first) r += '|';
        first = false;
        for (size_t k = i; k < j; ++k) { const char c = s[k]; r += (c == ' ' ? '_' : (c == '|' || c == '[' || c == ']' || c < 33 || c > 126) ? '?' : c); }
        i = j + 1;
    }
    return r + "]";
}

std::string trailer()
{
    DefaultScriptAllocator& a = g_ctx->GetAllocator();
    std::ostringstream o;
    o << " idle=" << (g_ctx->IsIdle() ? 1 : 0)
      << " cls=" << a.ScriptClass_allocator.Count()
      << " thr=" << a.ScriptThread_allocator.Count()
      << " vm=" << a.ScriptVM_allocator.Count()
      << " tim=" << g_ctx->GetDirector().GetTimerList().m_Elements.NumObjects()
      << " ev=" << g_ctx->GetEventQueue().GetNumPendingEvents()
      << " cur=" << (g_ctx->GetDirector().CurrentThread() ? 1 : 0);
    return o.str();
}

std::string c14Trailer()
{
    std::ostringstream o;
    o << " prev=" << (g_ctx->GetDirector().PreviousThread() ? 1 : 0)
      << " depth=" << ScriptExecutionStack::GetStackDepth()
      << " clk=" << g_clock << g_diag;
    return o.str();
}

std::string showValue(ScriptVariable& v)
{
    switch (v.GetType()) {
    case variableType_e::None: return "nil";
    case variableType_e::Integer: return "i" + std::to_string(v.longValue());
    case variableType_e::String: case variableType_e::ConstString: {
        std::string s = v.stringValue().c_str(); std::string r = "s";
        for (char c : s) r += (c == ' ' ? '_' : (c < 33 || c > 126) ? '?' : c);
        return r; }
    case variableType_e::Pointer: return "pending";
    default: return std::string("t") + v.GetTypeName();
    }
}

std::string resultOf(size_t k)
{
    Event& ev = *g_events[k].first;
    const size_t n = ev.NumArgs();
    if (n <= g_events[k].second) return "none";
    // the result is the value appended by ScriptThread::Execute(Event&) after the arguments
    ScriptVariable& v = ev.GetValue(n);
    return showValue(v);
}

std::string allResults()
{
    if (g_events.empty()) return "none";
    std::string r;
    for (size_t k = 0; k < g_events.size(); ++k) { if (k) r += ','; r += resultOf(k); }
    return r;
}

std::string excKind(const std::exception& e)
{
    if (dynamic_cast<const ScriptVMErrors::CommandOverflow*>(&e)) return "CommandOverflow";
    if (dynamic_cast<const ScriptVMErrors::MaxStackDepth*>(&e)) return "MaxStackDepth";
    if (dynamic_cast<const StateScriptErrors::LabelNotFound*>(&e)) return "LabelNotFound";
    if (dynamic_cast<const ScriptAbortExceptionBase*>(&e)) return "Abort";
    if (dynamic_cast<const ScriptExceptionBase*>(&e)) return "ScriptError";
    return "Exception";
}
}

int main()
{
    verif::now_ms = &clockFn;
    freshContext();
    std::vector<std::string> t;
    while (readTokens(t)) {
        if (t.empty()) { say("bad-op"); continue; }
        const std::string& op = t[0];
        std::string status = "ok", extra;
        try {
            if (op == "reset") {
                g_archive.clear();
                g_c14obs = false;
                freshContext();
            } else if (op == "c14reset") {
                g_archive.clear();
                g_c14obs = true;
                g_clockStep = 0;
                for (int i = 0; i < 4; ++i) g_streams[i] = true;
                g_streams[4] = false; g_developer = true;
                ScriptExecutionStack::SetMaxStackDepth(20);   // MAX_STACK_DEPTH_DEFAULT
                freshContext();
            } else if (op == "script" && t.size() >= 3 && (t.size() == 3 || t[3] == "##")) {
                const std::string& src = (g_sources[t[1]] = unhex(t[2]));
                imemstream stream(src.data(), src.size());
                const ProgramScript* s = g_ctx->GetDirector().GetProgramScript(t[1].c_str(), stream, true);
                if (!s || !s->IsCompileSuccess()) status = "err CompileFailed";
            } else if (op == "source" && t.size() == 3) {
                g_sources[t[1]] = unhex(t[2]);
            } else if (op == "call" && t.size() >= 3) {
                std::unique_ptr<Event> ev(new Event);
                for (size_t i = 3; i < t.size(); ++i) {
                    if (t[i][0] == 'i') ev->AddLong(std::stoll(t[i].substr(1)));
                    else if (t[i][0] == 's') ev->AddString(unhex(t[i].substr(1)).c_str());
                    else ev->AddNil();
                }
                if (t[1][0] == '@') {
                    // `@name`: the host starts the thread through the by-name overloads
                    const StringResolvable byName(t[1].c_str() + 1);
                    if (t[2] == "-") g_ctx->GetDirector().ExecuteThread(byName, *ev);
                    else g_ctx->GetDirector().ExecuteThread(byName, *ev, StringResolvable(t[2].c_str()));
                } else {
                const ProgramScript* s = g_ctx->GetDirector().GetProgramScript(t[1].c_str());
                if (t[2] == "-") g_ctx->GetDirector().ExecuteThread(s, *ev);
                else g_ctx->GetDirector().ExecuteThread(s, *ev, t[2].c_str());
                }
                g_events.emplace_back(std::move(ev), t.size() - 3);     // only successful calls leave a record
                if (!g_c14obs) extra = " ret=" + resultOf(g_events.size() - 1);
            } else if (op == "callv" && t.size() == 3) {
                if (t[1][0] == '@') {
                    g_ctx->GetDirector().ExecuteThread(StringResolvable(t[1].c_str() + 1), StringResolvable(t[2].c_str()));
                } else {
                const ProgramScript* s = g_ctx->GetDirector().GetProgramScript(t[1].c_str());
                g_ctx->GetDirector().ExecuteThread(s, t[2].c_str());
                }
            } else if (op == "thread-result") {
                extra = " ret=" + allResults();
            } else if (op == "advance" && t.size() == 2) {
                g_clock += std::stoull(t[1]);
            } else if (op == "execute") {
                g_ctx->Execute();
            } else if (op == "step" && t.size() == 2) {
                g_clock += std::stoull(t[1]);
                g_ctx->Execute();
            } else if (op == "cfg" && t.size() >= 3) {
                ThreadExecutionProtection& p = g_ctx->GetDirector().GetThreadExecutionProtection();
                if (t[1] == "maxexec") p.SetMaxExecutionTime(std::stoull(t[2]));
                else if (t[1] == "loopprot") p.SetLoopProtection(t[2] == "1");
                else if (t[1] == "depth") ScriptExecutionStack::SetMaxStackDepth(std::stoull(t[2]));
                else if (t[1] == "clockstep") g_clockStep = std::stoull(t[2]);
                else if (t[1] == "developer") { g_developer = t[2] == "1"; attachStreams(); }
                else if (t[1] == "stream" && t.size() == 4) { g_streams[std::stoul(t[2]) % 5] = t[3] == "1"; attachStreams(); }
                else status = "bad-op";
            } else if (op == "c14" && t.size() >= 8) {
                // c14 <hex> prot=<b> max=<ms> step=<ms> depth=<n> streams=<5 bits> dev=<b> [## ...]
                // composite scenario for C14: sentinel, runaway program, then recovery observations
                auto val = [&](size_t i) { return t[i].substr(t[i].find('=') + 1); };
                const std::string src = unhex(t[1]);
                const bool prot = val(2) == "1";
                const uint64_t maxExec = std::stoull(val(3)), stepMs = std::stoull(val(4)), depth = std::stoull(val(5));
                const std::string bits = val(6);
                g_clockStep = 0;
                for (int i = 0; i < 5; ++i) g_streams[i] = bits[i] == '1';
                g_streams[0] = true;   // the Output stream carries the observations
                g_developer = val(7) == "1";
                freshContext();
                g_sources["m"] = src;
                ThreadExecutionProtection& p = g_ctx->GetDirector().GetThreadExecutionProtection();
                p.SetMaxExecutionTime(maxExec);
                p.SetLoopProtection(prot);
                const size_t savedDepth = ScriptExecutionStack::GetMaxStackDepth();
                ScriptExecutionStack::SetMaxStackDepth(depth);
                std::string outcome = "ok";
                {
                    imemstream stream(src.data(), src.size());
                    g_ctx->GetDirector().GetProgramScript("m", stream, true);
                    Event ev0;
                    g_ctx->GetDirector().ExecuteThread(g_ctx->GetDirector().GetProgramScript("m"), ev0, "sentinel");
                }
                g_clockStep = stepMs;
                try {
                    Event ev1;
                    g_ctx->GetDirector().ExecuteThread(g_ctx->GetDirector().GetProgramScript("m"), ev1, "prog");
                } catch (const std::exception& e) {
                    outcome = excKind(e);
                }
                if (std::find(t.begin(), t.end(), std::string("late")) != t.end() && outcome == "ok") {
                    // the program yielded first (`wait 0.125`): the runaway part runs in a thread that the
                    // scheduler resumes (ScriptContext::Execute -> ExecuteRunning -> Resume), not in a host call
                    try {
                        g_clock += 125;
                        g_ctx->Execute();
                    } catch (const std::exception& e) {
                        outcome = excKind(e);
                    }
                }
                g_clockStep = 0;
                const bool cur = g_ctx->GetDirector().CurrentThread() != nullptr;
                std::string o1 = takeOut();
                bool sentinel = false, newcall = false, resetOk = false;
                try { g_clock += 1000; g_ctx->Execute(); sentinel = takeOut().find("s2") != std::string::npos; } catch (const std::exception&) {}
                try { Event ev2; g_ctx->GetDirector().ExecuteThread(g_ctx->GetDirector().GetProgramScript("m"), ev2, "ping"); newcall = takeOut().find("pong") != std::string::npos; } catch (const std::exception&) {}
                try {
                    g_ctx->GetDirector().Reset();
                    DefaultScriptAllocator& a = g_ctx->GetAllocator();
                    const bool clean = a.ScriptClass_allocator.Count() == 0 && a.ScriptThread_allocator.Count() == 0 && a.ScriptVM_allocator.Count() == 0;
                    imemstream stream(src.data(), src.size());
                    g_ctx->GetDirector().GetProgramScript("m", stream, true);
                    Event ev3; g_ctx->GetDirector().ExecuteThread(g_ctx->GetDirector().GetProgramScript("m"), ev3, "ping");
                    resetOk = clean && takeOut().find("pong") != std::string::npos;
                } catch (const std::exception&) {}
                ScriptExecutionStack::SetMaxStackDepth(savedDepth);
                for (int i = 0; i < 4; ++i) g_streams[i] = true;
                g_streams[4] = false; g_developer = true;
                say("ok outcome=" + outcome + " cur=" + (cur ? "1" : "0") + " sentinel=" + (sentinel ? "1" : "0") +
                    " newcall=" + (newcall ? "1" : "0") + " reset=" + (resetOk ? "1" : "0"));
                freshContext();
                continue;
            } else if (op == "reset-director") {
                g_ctx->GetDirector().Reset();
            } else if (op == "save") {
                std::ostringstream os;
                version_info_t info; info.header = "VRIF"; info.version = 1; info.archiveName = "verif";
                // what a host archives: its persistent script objects, then the director
                { Archiver arc = Archiver::CreateWrite(os, info); arc.ArchiveObject(*g_ctx->GetLevel()); arc.ArchiveObject(*g_ctx->GetGame()); g_ctx->GetDirector().Archive(arc); }
                g_archive = os.str();
            } else if (op == "load") {
                if (g_archive.empty()) { say("bad-op"); continue; }
                g_ctx->GetDirector().Reset();
                imemstream is(g_archive.data(), g_archive.size());
                version_info_t info; info.header = "VRIF"; info.version = 1; info.archiveName = "verif";
                { Archiver arc = Archiver::CreateRead(is, info); arc.ArchiveObject(*g_ctx->GetLevel()); arc.ArchiveObject(*g_ctx->GetGame()); g_ctx->GetDirector().Archive(arc); }
            } else {
                status = "bad-op";
            }
        } catch (const std::exception& e) {
            status = "err " + excKind(e);
        }
        if (status == "bad-op") { say("bad-op"); continue; }
        {
            const std::string out = takeOut();
            say(status + " out=" + out + extra + trailer() + (g_c14obs ? c14Trailer() : std::string()));
        }
    }
    g_events.clear();
    g_ctx.reset();
    return 0;
}
