// Program-level harness for C04: runs one generated program per input line on a fresh, real
// ScriptContext (injected clock = hook H1, pool poisoning = hook H2, VM probe = hook H4) and prints
// ONE canonical line with everything the property speaks about:
//
//   prog <hex source> [frames]
//
//   ok compiled=<b> log=[e|e|...] ends=[h,...] trans=[OP:N:dh:dp,...] sentinel=<b> idle=<b>
//
// log entries, in the order things happened:
//   O:<text>   a line on the Output stream (script println markers)
//   W:<text>   a line on the Warn stream          D:/E: Debug / Error stream
//   T:<class>  an exception object was thrown (hooked __cxa_throw)
//   X:<class>  an exception left a host call (ExecuteThread / Execute); A: = abort kinds, S: = script
//              warning kinds, F: = anything else
//   F<n>       host frame n starts (clock advanced, ScriptContext::Execute)
//   S          the sentinel script is compiled and started; L<n> = frame n after that (until the sentinel,
//              which sleeps once, has printed its second line; at most 6)
// ends  = operand-stack index of every VM whose thread ended (H4, offset -1)
// trans = distinct (opcode, operand count, height delta, operand bytes consumed) between consecutive
//         probes of the same VM, outside parameter binding
#include <morfuse/Script/Context.h>
#include <morfuse/Script/ScriptVariable.h>
#include <morfuse/Script/ScriptException.h>
#include <morfuse/Script/ScriptThread.h>
#include <morfuse/Script/ScriptVM.h>
#include <morfuse/Script/ScriptOpcodes.h>
#include <morfuse/Script/ProgramScript.h>
#include <morfuse/Script/StateScript.h>
#include <morfuse/Script/ScriptClass.h>
#include <morfuse/Script/SimpleEntity.h>
#include <morfuse/Script/Level.h>
#include <morfuse/Script/Game.h>
#include <morfuse/Common/membuf.h>
#include <morfuse/Common/OutputInfo.h>
#include "lineio.h"

#include <cxxabi.h>
#include <dlfcn.h>
#include <cstring>
#include <map>
#include <memory>
#include <set>
#include <sstream>
#include <typeinfo>

using namespace mfuse;

namespace {
uint64_t g_clock = 0;
uint64_t clockFn() { return g_clock; }

std::vector<std::string> g_log;
bool g_hookOn = false;

std::string clean(const std::string& s, size_t maxLen)
{
    std::string r;
    for (char c : s) {
        if (r.size() >= maxLen) break;
        r += (c == ' ' ? '_' : (c == '|' || c == '[' || c == ']' || c == ',' || c < 33 || c > 126) ? '?' : c);
    }
    return r;
}

// a stream buffer that turns every completed line into one log entry
class LineBuf : public std::streambuf
{
public:
    explicit LineBuf(char tagValue) : tag(tagValue) {}
protected:
    int overflow(int c) override
    {
        if (c == '\n') { flushLine(); }
        else if (c != EOF) cur.push_back((char)c);
        return c;
    }
    int sync() override { return 0; }
public:
    void flushLine()
    {
        if (!cur.empty()) g_log.push_back(std::string(1, tag) + ":" + clean(cur, 70));
        cur.clear();
    }
private:
    char tag;
    std::string cur;
};

LineBuf g_bufOut('O'), g_bufWarn('W'), g_bufDbg('D'), g_bufErr('E');
std::ostream g_out(&g_bufOut), g_warn(&g_bufWarn), g_dbg(&g_bufDbg), g_err(&g_bufErr);

std::string demangle(const char* n)
{
    int st = 0;
    char* d = abi::__cxa_demangle(n, nullptr, nullptr, &st);
    std::string r = d ? d : n;
    std::free(d);
    const std::string p = "mfuse::";
    if (r.compare(0, p.size(), p) == 0) r = r.substr(p.size());
    return r;
}

std::unique_ptr<ScriptContext> g_ctx;
std::map<std::string, std::string> g_sources;

class FileImpl : public IFile
{
public:
    explicit FileImpl(const std::string& src) : stream(src.data(), src.size()) {}
    std::istream& getStream() noexcept override { return stream; }
private:
    imemstream stream;
};

class FileManagement : public IFileManagement
{
public:
    IFile* OpenFile(const char* fname) override
    {
        auto it = g_sources.find(fname);
        return it == g_sources.end() ? nullptr : new FileImpl(it->second);
    }
    void CloseFile(IFile* file) noexcept override { delete file; }
};
FileManagement g_files;

// ---- hook H4 --------------------------------------------------------------------------------
struct VmRec { intptr_t offset; uintptr_t h; bool marked; int op; };
std::map<const ScriptVM*, VmRec> g_last;
std::vector<std::string> g_ends;
std::set<std::string> g_trans;
size_t g_instr = 0;

void probe(const ScriptVM* vm, intptr_t offset, uintptr_t h, size_t, bool marked)
{
    if (offset < 0) {
        // a thread that ends at statement level (OP_DONE, a command statement such as `end`, `remove`)
        // must leave an empty stack; one that is destroyed from outside while an expression of it is
        // in progress (`local.r = waitthread f` whose callee removes the caller's group) is marked k
        // (the script instance of an ended VM may be gone already: only what earlier probes recorded is used)
        bool statementLevel = true;
        auto it = g_last.find(vm);
        if (it != g_last.end() && it->second.op >= 0) {
            const int op = it->second.op;
            statementLevel = op == OP_DONE || (op >= OP_EXEC_CMD0 && op <= OP_EXEC_CMD_METHOD_COUNT1);
        }
        g_ends.push_back((statementLevel ? "" : "k") + std::to_string(h));
        g_last.erase(vm);
        return;
    }
    ++g_instr;
    const ProgramScript* scr = vm->m_ScriptClass ? vm->m_ScriptClass->GetScript() : nullptr;
    const opval_t* base = scr ? scr->GetProgBuffer() : nullptr;
    auto it = g_last.find(vm);
    if (it != g_last.end() && base && vm->m_PrevCodePos) {
        const intptr_t prev = vm->m_PrevCodePos - base;
        const VmRec& l = it->second;
        if (l.offset == prev && !l.marked && !marked) {
            const opval_t op = base[prev];
            long n = 0;
            switch (op) {
            case OP_EXEC_CMD_COUNT1: case OP_EXEC_CMD_METHOD_COUNT1: case OP_EXEC_METHOD_COUNT1:
                n = base[prev + 1]; break;
            case OP_LOAD_CONST_ARRAY1: { uint16_t v; std::memcpy(&v, base + prev + 1, 2); n = v; break; }
            case OP_FUNC: n = base[prev + 1] ? base[prev + 10] : base[prev + 6]; break;
            default: break;
            }
            char buf[96];
            snprintf(buf, sizeof buf, "%u:%ld:%ld:%ld", (unsigned)op, n, (long)h - (long)l.h, (long)(offset - prev - 1));
            g_trans.insert(buf);
        }
    }
    g_last[vm] = VmRec{ offset, h, marked, base ? (int)base[offset] : -1 };
}

std::string unhex(const std::string& h)
{
    std::string s;
    for (size_t i = 0; i + 1 < h.size(); i += 2) s.push_back(char(std::stoi(h.substr(i, 2), nullptr, 16)));
    return s;
}

void freshContext()
{
    g_ctx.reset();
    g_clock = 0;
    g_last.clear(); g_ends.clear(); g_trans.clear(); g_log.clear(); g_instr = 0;
    EventSystem::Get();
    g_ctx.reset(new ScriptContext);
    g_ctx->EventContext::Set(g_ctx.get());
    g_ctx->GetScriptInterfaces().fileManagement = &g_files;
    OutputInfo& oi = g_ctx->GetOutputInfo();
    oi.SetOutputStream(outputLevel_e::Output, &g_out);
    oi.SetOutputStream(outputLevel_e::Warn, &g_warn);
    oi.SetOutputStream(outputLevel_e::Debug, &g_dbg);
    oi.SetOutputStream(outputLevel_e::Error, &g_err);
    oi.SetOutputStream(outputLevel_e::Verbose, nullptr);
    // diagnostics of Listener::ProcessEvent (events that are not sent by a VM) go to the process-wide streams
    OutputInfo& go = GlobalOutput::Get();
    go.SetOutputStream(outputLevel_e::Output, &g_out);
    go.SetOutputStream(outputLevel_e::Warn, &g_warn);
    go.SetOutputStream(outputLevel_e::Debug, &g_dbg);
    go.SetOutputStream(outputLevel_e::Error, &g_err);
    g_ctx->GetSettings().SetDeveloperEnabled(true);
    ThreadExecutionProtection& p = g_ctx->GetDirector().GetThreadExecutionProtection();
    p.SetMaxExecutionTime(0);          // the injected clock does not move inside a frame
    p.SetLoopProtection(true);
}

void noteLeft(const std::exception& e)
{
    const char kind = dynamic_cast<const ScriptAbortExceptionBase*>(&e) ? 'A' : dynamic_cast<const ScriptExceptionBase*>(&e) ? 'S' : 'F';
    g_log.push_back(std::string("X:") + kind + ":" + demangle(typeid(e).name()));
}

void flushStreams() { g_bufOut.flushLine(); g_bufWarn.flushLine(); g_bufDbg.flushLine(); g_bufErr.flushLine(); }

const char* SENTINEL =
    "main:\n"
    "local.s = 0\n"
    "for (local.i = 1; local.i <= 6; local.i++) { local.s += local.i * 2 }\n"
    "local.a[1] = \"sen\"\n"
    "local.a[2] = \"tinel\"\n"
    "println (local.a[1] + local.a[2] + \"-ok \" + local.s)\n"
    "wait 0.05\n"
    "println \"sentinel-late\"\n"
    "end\n";

template<typename F> bool hostCall(F&& f)
{
    try { f(); return true; }
    catch (const std::exception& e) { flushStreams(); noteLeft(e); return false; }
}
}

// every throw of the process passes here first (the sanitizer runtime's own interceptor, if any, is next)
extern "C" void __cxa_throw(void* thrown, void* tinfoRaw, void (*dest)(void*))
{
    typedef void (*throw_t)(void*, void*, void (*)(void*));
    static throw_t real = (throw_t)dlsym(RTLD_NEXT, "__cxa_throw");
    const std::type_info* tinfo = static_cast<const std::type_info*>(tinfoRaw);
    if (g_hookOn && tinfo) {
        flushStreams();
        g_log.push_back("T:" + demangle(tinfo->name()));
    }
    real(thrown, tinfoRaw, dest);
    __builtin_unreachable();
}

int main()
{
    verif::now_ms = &clockFn;
    verif::vm_probe = &probe;
    std::vector<std::string> t;
    while (readTokens(t)) {
        if (t.size() < 2 || t[0] != "prog") { say("bad-op"); continue; }
        const std::string src = unhex(t[1]);
        const int frames = t.size() > 2 ? std::atoi(t[2].c_str()) : 12;
        freshContext();
        g_sources["m"] = src;
        bool compiled = false;
        g_hookOn = true;
        hostCall([&] {
            imemstream stream(src.data(), src.size());
            const ProgramScript* s = g_ctx->GetDirector().GetProgramScript("m", stream, true);
            compiled = s && s->IsCompileSuccess();
        });
        flushStreams();
        // compile diagnostics are not part of the run-time property (kept apart for the generator's statistics)
        std::string clog;
        for (const std::string& e : g_log) if (e[0] == 'E' || e[0] == 'X') { clog += (clog.empty() ? "" : "|") + e; }
        g_log.clear();
        if (compiled) {
            // the bystander runs in a script instance of its own (a thread of `main`'s instance would
            // legitimately die with it when the program removes its own group)
            hostCall([&] {
                Event ev;
                g_ctx->GetDirector().ExecuteThread(g_ctx->GetDirector().GetProgramScript("m"), ev, "bystander");
            });
            hostCall([&] {
                Event ev;
                g_ctx->GetDirector().ExecuteThread(g_ctx->GetDirector().GetProgramScript("m"), ev, "main");
            });
            flushStreams();
            for (int f = 1; f <= frames; ++f) {
                g_clock += 60;
                g_log.push_back("F" + std::to_string(f));
                hostCall([&] { g_ctx->Execute(); });
                flushStreams();
            }
        }
        // the engine must still be usable: compile and run a fixed program
        g_log.push_back("S");
        bool sentinel = false;
        {
            const size_t mark = g_log.size();
            g_sources["sen"] = SENTINEL;
            hostCall([&] {
                imemstream stream(SENTINEL, std::strlen(SENTINEL));
                const ProgramScript* s = g_ctx->GetDirector().GetProgramScript("sen", stream, true);
                if (s && s->IsCompileSuccess()) { Event ev; g_ctx->GetDirector().ExecuteThread(s, ev, "main"); }
            });
            flushStreams();
            bool ran = false, late = false;
            for (size_t i = mark; i < g_log.size(); ++i) if (g_log[i] == "O:sentinel-ok_42") ran = true;
            // ... and still schedule: the sentinel sleeps once and must be resumed by a later frame (threads of the
            // program that are still due may abort a frame each, hence a few frames)
            for (int f = 1; f <= 6 && !late; ++f) {
                g_clock += 60;
                g_log.push_back("L" + std::to_string(f));
                hostCall([&] { g_ctx->Execute(); });
                flushStreams();
                for (size_t i = mark; i < g_log.size(); ++i) if (g_log[i] == "O:sentinel-late") late = true;
            }
            sentinel = ran && late;
        }
        const bool idle = g_ctx->IsIdle();
        std::ostringstream o;
        o << "ok compiled=" << (compiled ? 1 : 0) << " log=[";
        for (size_t i = 0; i < g_log.size(); ++i) o << (i ? "|" : "") << g_log[i];
        o << "] ends=[";
        for (size_t i = 0; i < g_ends.size(); ++i) o << (i ? "," : "") << g_ends[i];
        o << "] trans=[";
        { bool first = true; for (const std::string& s : g_trans) { o << (first ? "" : ",") << s; first = false; } }
        o << "] sentinel=" << (sentinel ? 1 : 0) << " idle=" << (idle ? 1 : 0) << " instr=" << g_instr;
        if (!compiled) o << " clog=[" << clog << "]";
        // tear the context down inside the line, so that a crash in a destructor belongs to this program
        g_hookOn = false;
        // an orderly host shutdown: stop every script first (ScriptMaster::Reset), then drop the context
        hostCall([&] { g_ctx->GetDirector().Reset(); });
        hostCall([&] { g_ctx.reset(); });
        g_last.clear();
        say(o.str());
    }
    g_ctx.reset();
    // objects that scripts spawned and nobody deleted outlive the context; the static pools they sit in
    // are torn down in unspecified order at exit, which is not part of any property
    std::fflush(stdout);
    std::_Exit(0);
}
