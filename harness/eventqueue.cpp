// Correspondence harness for property C08: drives the real EventQueue / EventQueueNode /
// LinkedList<T*> / Listener::PostEvent.. / EventContext::ProcessEvents code with the line protocol of
// lean/Driver/EventQueue.lean and prints the same observation lines.
//
// Host side (not engine code, mirrored literally by the model's `Host` record):
//   * up to `NL` listeners of one host class `C08Host` with responses for event types 1..3
//     (type 4 is a declared EventDef without a response in the class, type 0 is `Event()` with Num()==0);
//   * a handler table (listener id, type) -> list of actions executed re-entrantly from the response;
//     an action on a listener that is not alive is skipped; a re-entrant post consumes one unit of a
//     global budget and is skipped when the budget is 0 (this is what makes every pass finite);
//   * the injected millisecond clock mfuse::verif::now_ms.
// Every observation is canonical: events are named by their posting sequence number (carried as the
// event's first integer argument), listeners by id, no addresses.
#include <morfuse/Script/Context.h>
#include <morfuse/Script/EventContext.h>
#include <morfuse/Script/EventQueue.h>
#include <morfuse/Script/EventQueueNode.h>
#include <morfuse/Script/EventSystem.h>
#include <morfuse/Script/Event.h>
#include <morfuse/Script/Listener.h>
#include <morfuse/Script/Archiver.h>
#include <morfuse/Common/Time.h>
#include "lineio.h"

#include <map>
#include <memory>
#include <sstream>
#include <string>
#include <vector>

using namespace mfuse;

namespace {
constexpr size_t NL = 3;          // listener ids 1..NL
constexpr size_t NT = 4;          // event types 0..NT

struct Action { char kind; long a, b, c, d; };   // p(ost) l t d f | T(ype cancel) l t | A(ll) l | F(lag) l f | D(estroy) l | K (tick) k
                                                 // P(ostponeEvent) l t d | Q (PostponeAllEvents) l d

uinttime_t g_clock = 1000;        // absolute injected clock; the engine sees g_clock - start
uinttime_t clockFn() { return g_clock; }

class C08Host;
C08Host* g_l[NL + 1];
std::map<std::pair<long, long>, std::vector<Action>> g_handlers;
unsigned long g_budget = 0;
unsigned long g_seq = 1;
std::string g_deliveries;
unsigned long g_calls = 0;     // responses entered since the last `process` line started
uinttime_t g_start = 1000;

bool perform(const Action& a, bool reentrant);

class C08Host : public Listener {
    MFUS_CLASS_PROTOTYPE(C08Host);
public:
    long id = 0;
    void on(long type, Event& ev)
    {
        const long me = id;                      // `this` may be deleted by one of the actions below
        if (++g_calls > 200000) {                // a pass that never ends (only possible when the real loop is broken)
            say("RUNAWAY-PASS");
            std::_Exit(97);
        }
        const long seq = ev.NumArgs() >= 1 ? ev.GetInteger(1) : -1;
        if (!g_deliveries.empty()) g_deliveries += ',';
        g_deliveries += std::to_string(me) + ":" + std::to_string(type) + ":" + std::to_string(seq) + "@" +
                        std::to_string((unsigned long long)(g_clock - g_start));
        auto it = g_handlers.find({me, type});
        if (it == g_handlers.end()) return;
        const std::vector<Action> acts = it->second;   // copy: the table itself is never changed re-entrantly
        for (const Action& a : acts) perform(a, true);
    }
    void H1(Event& ev) { on(1, ev); }
    void H2(Event& ev) { on(2, ev); }
    void H3(Event& ev) { on(3, ev); }
};

EventDef EV_C08_1("c08_ev1", 0, "i", "seq", "C08 harness event 1", evType_e::Normal);
EventDef EV_C08_2("c08_ev2", 0, "i", "seq", "C08 harness event 2", evType_e::Normal);
EventDef EV_C08_3("c08_ev3", 0, "i", "seq", "C08 harness event 3", evType_e::Normal);
EventDef EV_C08_4("c08_ev4", 0, "i", "seq", "C08 harness event 4 (no response)", evType_e::Normal);

const EventDef* defOf(long t)
{
    switch (t) { case 1: return &EV_C08_1; case 2: return &EV_C08_2; case 3: return &EV_C08_3; case 4: return &EV_C08_4; }
    return nullptr;
}
long typeOf(eventNum_t n)
{
    for (long t = 1; t <= 4; ++t) if (defOf(t)->GetEventNum() == n) return t;
    return n == 0 ? 0 : 99;
}
long idOfListener(Listener* l)
{
    if (!l) return 0;
    for (size_t i = 1; i <= NL; ++i) if (g_l[i] == l) return (long)i;
    return 99;    // dangling / foreign
}

bool alive(long l) { return l >= 1 && l <= (long)NL && g_l[l]; }

// result: the boolean the engine returned (Postpone…), false otherwise
bool perform(const Action& a, bool reentrant)
{
    switch (a.kind) {
    case 'K': g_clock += (uinttime_t)a.a; return false;
    default: break;
    }
    if (!alive(a.a)) return false;
    C08Host* const l = g_l[a.a];
    switch (a.kind) {
    case 'p': {
        if (reentrant) { if (g_budget == 0) return false; --g_budget; }
        Event* ev = a.b == 0 ? new Event() : new Event(*defOf(a.b));
        ev->AddInteger((int32_t)g_seq++);
        l->PostEvent(ev, (inttime_t)a.c, (int)a.d);
        return false; }
    case 'T': l->CancelEventsOfType(*defOf(a.b)); return false;
    case 'A': l->CancelPendingEvents(); return false;
    case 'F': l->CancelFlaggedEvents((int)a.b); return false;
    case 'D': g_l[a.a] = nullptr; delete l; return false;
    case 'P': {
        if (a.b == 0) { Event ev; return l->PostponeEvent(ev, (inttime_t)a.c); }
        Event ev(*defOf(a.b));
        return l->PostponeEvent(ev, (inttime_t)a.c); }
    case 'Q': return l->PostponeAllEvents((inttime_t)a.b);
    }
    return false;
}

// EventQueue::Archive, saving then loading, on the same context: the live listeners are archived first (so that
// the queue's safe pointers have an object index) and read back into the same objects.
void saveLoad(ScriptContext& ctx)
{
    version_info_t info;
    info.header = "C08Q";
    info.archiveName = "c08";
    info.version = 1;
    std::stringstream buf(std::ios::in | std::ios::out | std::ios::binary);
    {
        Archiver arc = Archiver::CreateWrite(buf, info);
        for (size_t i = 1; i <= NL; ++i) if (g_l[i]) arc.ArchiveObject(*g_l[i]);
        ctx.GetEventQueue().Archive(arc);
    }
    buf.seekg(0);
    {
        Archiver arc = Archiver::CreateRead(buf, info);
        for (size_t i = 1; i <= NL; ++i) if (g_l[i]) arc.ArchiveObject(*g_l[i]);
        ctx.GetEventQueue().Archive(arc);
    }
}

std::string dumpQueue(EventContext& ctx)
{
    EventQueue& q = ctx.GetEventQueue();
    const size_t n = q.GetNumPendingEvents();
    std::string out = "n=" + std::to_string(n) + " q=";
    size_t walked = 0;
    EventQueueNode* prev = nullptr;
    bool linksOk = true;
    for (EventQueueNode* node = q.Node.Root(); node; node = node->next) {
        if (walked) out += ',';
        if (++walked > 100000) { out += "LOOP"; break; }
        const long seq = node->event && node->event->NumArgs() >= 1 ? node->event->GetInteger(1) : -1;
        out += std::to_string(seq) + "@" + std::to_string((long long)node->time);
        if (node->prev != prev) linksOk = false;
        if (idOfListener(node->GetSourceObject()) == 99 || idOfListener(node->GetSourceObject()) == 0) out += "!dead-listener";
        prev = node;
    }
    if (walked && q.Node.Tail() != prev) linksOk = false;
    if (walked != n) out += " COUNT-MISMATCH";
    if (!linksOk) out += " LINKS-BAD";
    return out;
}

bool parseInt(const std::string& s, long& out)
{
    if (s.empty() || s.size() > 12) return false;
    size_t i = 0; bool neg = false;
    if (s[0] == '-') { neg = true; i = 1; if (s.size() == 1) return false; }
    long v = 0;
    for (; i < s.size(); ++i) { if (s[i] < '0' || s[i] > '9') return false; v = v * 10 + (s[i] - '0'); }
    out = neg ? -v : v;
    return true;
}

bool splitColon(const std::string& s, std::string& head, std::vector<long>& nums)
{
    nums.clear();
    size_t p = s.find(':');
    head = s.substr(0, p);
    while (p != std::string::npos) {
        size_t q = s.find(':', p + 1);
        long v;
        if (!parseInt(s.substr(p + 1, q == std::string::npos ? std::string::npos : q - p - 1), v)) return false;
        nums.push_back(v);
        p = q;
    }
    return true;
}

bool okL(long l) { return l >= 1 && l <= (long)NL; }
bool okT(long t) { return t >= 0 && t <= (long)NT; }

// action token -> Action; same legality rules as the top-level lines (ids inside the universe)
bool parseAction(const std::string& tok, Action& a)
{
    std::string h; std::vector<long> n;
    if (!splitColon(tok, h, n)) return false;
    a = Action{0, 0, 0, 0, 0};
    if (h == "p" && n.size() == 4 && okL(n[0]) && okT(n[1]) && n[3] >= 0 && n[3] <= 7) { a = {'p', n[0], n[1], n[2], n[3]}; return true; }
    if (h == "ct" && n.size() == 2 && okL(n[0]) && n[1] >= 1 && okT(n[1])) { a = {'T', n[0], n[1], 0, 0}; return true; }
    if (h == "ca" && n.size() == 1 && okL(n[0])) { a = {'A', n[0], 0, 0, 0}; return true; }
    if (h == "cf" && n.size() == 2 && okL(n[0]) && n[1] >= 0 && n[1] <= 7) { a = {'F', n[0], n[1], 0, 0}; return true; }
    if (h == "d" && n.size() == 1 && okL(n[0])) { a = {'D', n[0], 0, 0, 0}; return true; }
    if (h == "t" && n.size() == 1 && n[0] >= 0) { a = {'K', n[0], 0, 0, 0}; return true; }
    if (h == "pp" && n.size() == 3 && okL(n[0]) && okT(n[1]) && n[2] >= 0) { a = {'P', n[0], n[1], n[2], 0}; return true; }
    if (h == "pa" && n.size() == 2 && okL(n[0]) && n[1] >= 0) { a = {'Q', n[0], n[1], 0, 0}; return true; }
    return false;
}
}

MFUS_CLASS_DECLARATION(Listener, C08Host, nullptr)
{
    { &EV_C08_1, &C08Host::H1 },
    { &EV_C08_2, &C08Host::H2 },
    { &EV_C08_3, &C08Host::H3 },
    { nullptr, nullptr }
};

int main()
{
    mfuse::verif::now_ms = &clockFn;
    EventSystem::Get();
    std::unique_ptr<ScriptContext> ctx;
    auto killAll = [&]() {
        for (size_t i = 1; i <= NL; ++i) if (g_l[i]) { C08Host* l = g_l[i]; g_l[i] = nullptr; delete l; }
    };
    std::vector<std::string> t;
    while (readTokens(t)) {
        const std::string op = t.empty() ? std::string() : t[0];
        std::vector<long> n;
        bool numeric = true;
        if (op != "handler") {
            for (size_t i = 1; i < t.size(); ++i) { long v; if (!parseInt(t[i], v)) { numeric = false; break; } n.push_back(v); }
        }
        if (op == "reset" && t.size() == 3 && t[2] == "src") { t.pop_back(); numeric = true; n.clear(); long v; if (parseInt(t[1], v)) n.push_back(v); else numeric = false; }
        if (op == "reset" && numeric && n.size() == 1 && n[0] >= 0) {
            if (ctx) killAll();
            ctx.reset();
            g_clock += 7;                       // the engine only ever sees differences
            ctx.reset(new ScriptContext());
            g_start = g_clock;
            g_handlers.clear();
            g_budget = (unsigned long)n[0];
            g_seq = 1;
            say("ok");
            continue;
        }
        if (!ctx || !numeric) { say("bad-op"); continue; }
        Action a{0, 0, 0, 0, 0};
        bool ok = false, isAct = false;
        if (op == "newl" && n.size() == 1) {
            if (okL(n[0]) && !g_l[n[0]]) { g_l[n[0]] = new C08Host; g_l[n[0]]->id = n[0]; say("ok"); } else say("bad-op");
            continue;
        }
        if (op == "handler" && t.size() >= 3) {
            long l, ty;
            bool good = parseInt(t[1], l) && parseInt(t[2], ty) && okL(l) && ty >= 1 && ty <= 3;
            std::vector<Action> acts;
            for (size_t i = 3; good && i < t.size(); ++i) { Action x; if (parseAction(t[i], x)) acts.push_back(x); else good = false; }
            if (good) { g_handlers[{l, ty}] = acts; say("ok"); } else say("bad-op");
            continue;
        }
        if (op == "pend" && n.size() == 2) {
            if (alive(n[0]) && n[1] >= 1 && okT(n[1])) say(std::string("ok ") + (g_l[n[0]]->EventPending(*defOf(n[1])) ? "1" : "0"));
            else say("bad-op");
            continue;
        }
        if (op == "process" && n.empty()) {
            g_deliveries.clear();
            g_calls = 0;
            ctx->ProcessEvents();
            say("ok d=" + g_deliveries + " " + dumpQueue(*ctx));
            continue;
        }
        if (op == "processl" && n.size() == 1) {
            if (!alive(n[0])) { say("bad-op"); continue; }
            g_deliveries.clear();
            g_calls = 0;
            const bool r = g_l[n[0]]->ProcessPendingEvents();
            say(std::string("ok r=") + (r ? "1" : "0") + " d=" + g_deliveries + " " + dumpQueue(*ctx));
            continue;
        }
        if (op == "clear" && n.empty()) {
            ctx->GetEventQueue().ClearEventList();
            say("ok " + dumpQueue(*ctx));
            continue;
        }
        if (op == "saveload" && n.empty()) {
            saveLoad(*ctx);
            // first use of the loaded nodes through the engine's own API (reads node->event)
            for (size_t i = 1; i <= NL; ++i) if (g_l[i]) (void)g_l[i]->EventPending(EV_C08_1);
            say("ok " + dumpQueue(*ctx));
            continue;
        }
        if ((op == "postpone" && n.size() == 3 && okL(n[0]) && okT(n[1]) && n[2] >= 0) ||
            (op == "postponeall" && n.size() == 2 && okL(n[0]) && n[1] >= 0)) {
            if (!alive(n[0])) { say("bad-op"); continue; }
            if (op == "postpone") a = {'P', n[0], n[1], n[2], 0}; else a = {'Q', n[0], n[1], 0, 0};
            const bool r = perform(a, false);
            say(std::string("ok r=") + (r ? "1" : "0") + " " + dumpQueue(*ctx));
            continue;
        }
        if (op == "post" && n.size() == 4 && okL(n[0]) && okT(n[1]) && n[3] >= 0 && n[3] <= 7) { a = {'p', n[0], n[1], n[2], n[3]}; isAct = true; }
        else if (op == "ctype" && n.size() == 2 && okL(n[0]) && n[1] >= 1 && okT(n[1])) { a = {'T', n[0], n[1], 0, 0}; isAct = true; }
        else if (op == "call" && n.size() == 1 && okL(n[0])) { a = {'A', n[0], 0, 0, 0}; isAct = true; }
        else if (op == "cflag" && n.size() == 2 && okL(n[0]) && n[1] >= 0 && n[1] <= 7) { a = {'F', n[0], n[1], 0, 0}; isAct = true; }
        else if (op == "destroy" && n.size() == 1 && okL(n[0])) { a = {'D', n[0], 0, 0, 0}; isAct = true; }
        else if (op == "tick" && n.size() == 1 && n[0] >= 0) { a = {'K', n[0], 0, 0, 0}; isAct = true; }
        if (isAct && (a.kind == 'K' || alive(a.a))) { perform(a, false); ok = true; }
        if (ok) say("ok " + dumpQueue(*ctx)); else say("bad-op");
    }
    if (ctx) killAll();
    ctx.reset();
    return 0;
}
