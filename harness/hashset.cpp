// Correspondence harness for property C18, area HashSet: drives the real con::map / con::set /
// map_enum / set_enum with the line protocol of lean/Driver/HashSet.lean.
// Keys 0..n-1 hash to the numbers given on the `reset` line (HashT is a template parameter of the
// real set, so the generator decides which keys collide).  Key and value objects count their
// constructions / destructions; contents are read straight from the bucket array (private fields via
// -fno-access-control) and printed sorted by key; `enum` / `enext` go through the real enumerators.
// Two maps exist (`sel 0|1` selects the one the other lines act on and observe) so that an enumerator can be
// re-bound to another set: `estart` = `set_enum en(selected)` + `map_enum men(selected)`, `enew` = default-
// constructed enumerators, `erebind i` = `en = map_i.m_set; men = map_i;` on the EXISTING enumerator objects,
// `enext` = `NextElement()` / `NextKey()` in lockstep (they must agree).
#include <morfuse/Container/set.h>
#include "lineio.h"

#include <algorithm>
#include <string>
#include <vector>
#include <set>

using namespace mfuse;

namespace {
std::vector<size_t> hashes;

template<int Tag> struct Counted {
    long v;
    static long live, ctors, dtors;
    Counted() : v(0) { ++live; ++ctors; }
    explicit Counted(long x) : v(x) { ++live; ++ctors; }
    Counted(const Counted& o) : v(o.v) { ++live; ++ctors; }
    ~Counted() { --live; ++dtors; v = -2; }
    Counted& operator=(const Counted& o) { v = o.v; return *this; }
    bool operator==(const Counted& o) const { return v == o.v; }
};
template<int Tag> long Counted<Tag>::live = 0;
template<int Tag> long Counted<Tag>::ctors = 0;
template<int Tag> long Counted<Tag>::dtors = 0;
using Key = Counted<0>;
using Val = Counted<1>;

struct KeyHash { intptr_t operator()(const Key& k) const { return (intptr_t)hashes[(size_t)k.v]; } };
using Map = con::map<Key, Val, KeyHash>;
using Set = con::set<Key, Val, KeyHash>;
using MapEnum = con::map_enum<Key, Val, KeyHash>;
using SetEnum = con::set_enum<Key, Val, KeyHash>;

Map* maps[2] = { nullptr, nullptr };
Map* m = nullptr;              // the selected map
size_t sel = 0;
SetEnum* en = nullptr;
MapEnum* men = nullptr;        // advanced in lockstep with `en`
bool quiet = false;
long cums[2][2] = { { 0, 0 }, { 0, 0 } };   // per map: entries constructed / destroyed (measured on the values)
#define cumC cums[sel][0]
#define cumD cums[sel][1]

std::string obs()
{
    Set& s = m->m_set;
    std::vector<std::pair<long, long>> all;
    if (!quiet) for (size_t i = 0; i < s.tableLength; ++i)
        for (auto* e = s.table[i]; e; e = e->Next()) {
            all.emplace_back(e->Key().v, e->Value().v);
            if (all.size() > 1000000) break;
        }
    std::sort(all.begin(), all.end());
    std::string o = std::to_string(s.count) + " " + std::to_string(s.tableLength) + " " + std::to_string(s.threshold) + " "
        + std::to_string(s.tableLengthIndex) + " de=" + (s.defaultEntry ? "1" : "0") + " |";
    if (quiet) o += " -";
    for (auto& kv : all) o += " " + std::to_string(kv.first) + ":" + std::to_string(kv.second);
    // objects alive in THIS map: everything alive minus what the other map's ledger says it holds
    const long otherLive = cums[1 - sel][0] - cums[1 - sel][1];
    o += " | c=" + std::to_string(cumC) + " d=" + std::to_string(cumD) + " live=" + std::to_string(Val::live - otherLive);
    if (Key::live != Val::live) o += " keys-live=" + std::to_string(Key::live - otherLive);
    return o;
}

template<typename F> void charged(F f)
{
    const long c0 = Val::ctors, d0 = Val::dtors;
    f();
    cumC += Val::ctors - c0; cumD += Val::dtors - d0;
}

void resetAll()
{
    delete en; en = nullptr;
    delete men; men = nullptr;
    delete maps[0]; delete maps[1];
    Key::live = Key::ctors = Key::dtors = 0;
    Val::live = Val::ctors = Val::dtors = 0;
    cums[0][0] = cums[0][1] = cums[1][0] = cums[1][1] = 0;
    quiet = false;
    maps[0] = new Map; maps[1] = new Map;
    sel = 0; m = maps[0];
}
}

int main()
{
    hashes.assign(1, 0);
    resetAll();
    std::vector<std::string> t;
    while (readTokens(t)) {
        std::vector<size_t> n;
        const std::string op = t.empty() ? std::string() : t[0];
        bool numeric = true;
        n.clear();
        for (size_t i = 1; i < t.size() && numeric; ++i) {
            if (t[i].empty() || t[i].size() > 20) { numeric = false; break; }
            for (char ch : t[i]) if (ch < '0' || ch > '9') numeric = false;
            if (!numeric) break;
            errno = 0;
            unsigned long long x = std::strtoull(t[i].c_str(), nullptr, 10);
            if (errno) numeric = false;
            n.push_back((size_t)x);
        }
        if (!numeric) { say("bad-op"); continue; }
        if (op == "reset") {
            if (n.empty()) { say("bad-op"); continue; }
            hashes = n;
            resetAll();
            say("ok - | " + obs());
            continue;
        }
        auto isKey = [&](size_t k) { return k < hashes.size(); };
        Set& s = m->m_set;
        std::string ret = "-";
        bool ok = true, mutated = true;
        if (op == "quiet" && n.size() == 1 && n[0] <= 1) {
            quiet = n[0] == 1; mutated = false;
        } else if (op == "put" && n.size() == 2 && isKey(n[0])) {
            Key k((long)n[0]); Val v((long)n[1]);
            charged([&] { (*m)[k] = v; });
        } else if (op == "touch" && n.size() == 1 && isKey(n[0])) {
            Key k((long)n[0]);
            charged([&] { ret = "v" + std::to_string((*m)[k].v); });
        } else if (op == "addi" && n.size() == 2 && isKey(n[0])) {
            Key k((long)n[0]); Val v((long)n[1]);
            charged([&] { ret = "v" + std::to_string(s.addKeyValue(k, v).v); });
        } else if (op == "get" && n.size() == 1 && isKey(n[0])) {
            Key k((long)n[0]);
            const Val* p = m->find(k);
            const Val* q = static_cast<const Map*>(m)->find(k);
            ret = p ? "v" + std::to_string(p->v) : std::string("none");
            if (p != q) ret += "!const-find-disagrees";
            mutated = false;
        } else if (op == "rm" && n.size() == 1 && isKey(n[0])) {
            Key k((long)n[0]);
            charged([&] { ret = m->remove(k) ? "true" : "false"; });
        } else if (op == "size" && n.empty()) {
            ret = std::to_string(m->size());
            if (s.isEmpty() != (m->size() == 0)) ret += "!isEmpty-disagrees";
            if (s.allocated() != s.tableLength) ret += "!allocated-disagrees";
            mutated = false;
        } else if (op == "resize" && n.size() == 1 && n[0] <= 100000) {
            charged([&] { m->resize(n[0]); });
        } else if (op == "shrink" && n.empty()) {
            charged([&] { s.shrink(); });
        } else if (op == "clear" && n.empty()) {
            charged([&] { m->clear(); });
        } else if (op == "enum" && n.empty()) {
            MapEnum e(*m);
            ret.clear();
            size_t guard = 0;
            while (const Key* k = e.NextKey()) {
                const Val* v = e.CurrentValue();
                const Key* ck = e.CurrentKey();
                if (!ret.empty()) ret += ' ';
                ret += std::to_string(k->v) + ":" + (v ? std::to_string(v->v) : std::string("null"));
                if (ck != k) ret += "!CurrentKey-disagrees";
                if (++guard > 1000000) { ret += " RUNAWAY"; break; }
            }
            if (e.CurrentKey() || e.CurrentValue()) ret += " !current-after-end";
            if (ret.empty()) ret = "";
            mutated = false;
        } else if (op == "sel" && n.size() == 1 && n[0] <= 1) {
            sel = n[0]; m = maps[sel];
            mutated = false;
            say("ok - | " + obs());
            continue;
        } else if (op == "estart" && n.empty()) {
            delete en; en = new SetEnum(s);
            delete men; men = new MapEnum(*m);
            mutated = false;
        } else if (op == "enew" && n.empty()) {
            delete en; en = new SetEnum();
            delete men; men = new MapEnum();
            mutated = false;
        } else if (op == "erebind" && n.size() == 1 && n[0] <= 1) {
            if (!en) ok = false;
            else {
                // re-use of the SAME enumerator objects: operator=(set&) / operator=(map&)
                *en = maps[n[0]]->m_set;
                *men = *maps[n[0]];
            }
            mutated = false;
        } else if (op == "enext" && n.empty()) {
            if (!en) ok = false;
            else {
                const auto* e = en->NextElement();
                ret = e ? std::to_string(e->Key().v) + ":" + std::to_string(e->Value().v) : std::string("end");
                if (en->CurrentElement() != e) ret += "!CurrentElement-disagrees";
                const Key* mk = men->NextKey();
                const Val* mv = men->CurrentValue();
                if ((mk != nullptr) != (e != nullptr) || (e && (mk != &e->Key() || mv != &e->Value()))) ret += "!map_enum-disagrees";
            }
            mutated = false;
        } else ok = false;
        if (!ok) { say("bad-op"); continue; }
        if (mutated) { delete en; en = nullptr; delete men; men = nullptr; }
        say("ok " + ret + " | " + obs());
    }
    delete en; delete men; delete maps[0]; delete maps[1];
    std::fflush(stdout);
    std::_Exit(0);   // the static pool allocator outlives the default memory manager otherwise
}
