// Correspondence harness for C03 (reference semantics of the language).
//
//   prog <label|-> <nargs> <arg>* <nlayouts> <hex-source>+ [## <AST for the Lean driver>]
//        every layout is compiled on a fresh ScriptContext and started at <label> with the host
//        arguments (arg = i<int> | s<hex> | n); the Output stream, the host Event's result and the
//        variables of level / game / parm (read through Listener::Vars()) are printed in a canonical form.
//        All layouts must give the same line; the answer is that line + ` layouts=<n>`, otherwise
//        `LAYOUT-DIFF <k> <line k> <> <line 0>`.
//   tree <hex-source> [## <tokens for the Lean parser model>]
//        parse only; dump the parse tree of the right-hand side of the first assignment as an s-expression.
//
// Canonical forms: text is %XX-escaped outside [A-Za-z0-9_.-]; values nil | i<dec> | s<text> | c<code> |
// a<k>{key:val,...} (keys sorted: integers ascending, then strings; holder ordinals by first appearance,
// a repeated holder prints a<k> only) | t<typename>.  No floats.
#include <morfuse/Script/Context.h>
#include <morfuse/Script/ScriptVariable.h>
#include <morfuse/Script/ScriptException.h>
#include <morfuse/Script/ScriptThread.h>
#include <morfuse/Script/ScriptVM.h>
#include <morfuse/Script/ProgramScript.h>
#include <morfuse/Script/StateScript.h>
#include <morfuse/Script/Level.h>
#include <morfuse/Script/Game.h>
#include <morfuse/Script/Parm.h>
#include <morfuse/Script/ScriptOpcodes.h>
#include <morfuse/Common/membuf.h>
#include <morfuse/Common/OutputInfo.h>
#include <Script/Compiler.h>
#include <morfuse/Script/SourceException.h>
#include <Parser/parsetree.h>
#include "lineio.h"

#include <sstream>
#include <map>
#include <memory>
#include <algorithm>
#include <cstring>
#include <unistd.h>

using namespace mfuse;

namespace {
std::ostringstream g_out, g_warn, g_err;

// deterministic run-away guard: the injected clock (hook H1) advances by one per reading, i.e. by one per
// executed instruction; with loop protection on, a thread that executes more than kMaxTicks instructions
// in one activation is aborted with CommandOverflow (a mutant that turns a loop infinite must not hang the check)
uint64_t g_ticks = 0;
uint64_t clockFn() { return ++g_ticks; }
const uint64_t kMaxTicks = 3000000;

std::string unhex(const std::string& h)
{
    std::string s;
    for (size_t i = 0; i + 1 < h.size(); i += 2) s.push_back(char(std::stoi(h.substr(i, 2), nullptr, 16)));
    return s;
}

std::string esc(const std::string& s)
{
    static const char* hexd = "0123456789ABCDEF";
    std::string r;
    for (unsigned char c : s) {
        if ((c >= 'A' && c <= 'Z') || (c >= 'a' && c <= 'z') || (c >= '0' && c <= '9') || c == '_' || c == '.' || c == '-') r += char(c);
        else { r += '%'; r += hexd[c >> 4]; r += hexd[c & 15]; }
    }
    return r;
}

struct Canon {
    std::map<const void*, size_t> ids;

    std::string key(const ScriptVariable& k)
    {
        switch (k.GetType()) {
        case variableType_e::Integer: return "i" + std::to_string((long long)k.GetData().long64Value);
        case variableType_e::String: case variableType_e::ConstString: return "s" + esc(k.stringValue().c_str());
        default: return std::string("t") + esc(k.GetTypeName());
        }
    }

    std::string val(const ScriptVariable& v)
    {
        switch (v.GetType()) {
        case variableType_e::None: return "nil";
        case variableType_e::Integer: return "i" + std::to_string((long long)v.GetData().long64Value);
        case variableType_e::String: case variableType_e::ConstString: return "s" + esc(v.stringValue().c_str());
        case variableType_e::Char: return "c" + std::to_string((int)(unsigned char)v.GetData().charValue);
        case variableType_e::Array: {
            ScriptArrayHolder* h = v.GetData().arrayValue;
            auto it = ids.find(h);
            if (it != ids.end()) return "a" + std::to_string(it->second);
            const size_t id = ids.size() + 1;
            ids[h] = id;
            // sort first, then print (printing assigns ordinals to nested holders in sorted order)
            struct Ent { bool isInt; long long i; std::string s; const ScriptVariable* k; const ScriptVariable* v; };
            std::vector<Ent> ents;
            con::map_enum<ScriptVariable, ScriptVariable> en = h->arrayValue;
            for (const con::Entry<ScriptVariable, ScriptVariable>* e = en.m_Set_Enum.NextElement(); e; e = en.m_Set_Enum.NextElement()) {
                Ent x; x.k = &e->Key(); x.v = &e->Value();
                x.isInt = x.k->GetType() == variableType_e::Integer;
                x.i = x.isInt ? (long long)x.k->GetData().long64Value : 0;
                x.s = x.isInt ? "" : std::string(x.k->stringValue().c_str());
                ents.push_back(x);
            }
            std::sort(ents.begin(), ents.end(), [](const Ent& a, const Ent& b) {
                if (a.isInt != b.isInt) return a.isInt;
                if (a.isInt) return a.i < b.i;
                return a.s < b.s;
            });
            std::string r = "a" + std::to_string(id) + "{";
            bool first = true;
            for (const Ent& x : ents) {
                if (!first) r += ',';
                first = false;
                r += key(*x.k) + ":" + val(*x.v);
            }
            return r + "}";
        }
        default: return std::string("t") + esc(v.GetTypeName());
        }
    }

    std::string vars(Listener* l)
    {
        std::vector<std::pair<std::string, const ScriptVariable*>> v;
        ScriptVariableList* list = l->Vars();
        con::set_enum<const_str, ScriptVariable> en = list->list;
        const StringDictionary& dict = ScriptContext::Get().GetDirector().GetDictionary();
        for (const con::Entry<const_str, ScriptVariable>* e = en.NextElement(); e; e = en.NextElement()) {
            if (e->Value().GetType() == variableType_e::None) continue;
            v.emplace_back(std::string(dict.Get(e->Key()).c_str()), &e->Value());
        }
        std::sort(v.begin(), v.end(), [](const auto& a, const auto& b) { return a.first < b.first; });
        std::string r = "{";
        bool first = true;
        for (auto& p : v) {
            if (!first) r += ',';
            first = false;
            r += esc(p.first) + "=" + val(*p.second);
        }
        return r + "}";
    }
};

std::string excKind(const std::exception& e)
{
    if (dynamic_cast<const ScriptVMErrors::CommandOverflow*>(&e)) return "CommandOverflow";
    if (dynamic_cast<const ScriptVMErrors::MaxStackDepth*>(&e)) return "MaxStackDepth";
    if (dynamic_cast<const StateScriptErrors::LabelNotFound*>(&e)) return "LabelNotFound";
    if (dynamic_cast<const ParseException::Base*>(&e)) return "ParseError";
    if (dynamic_cast<const CompileException::Base*>(&e)) return "CompileError";
    if (dynamic_cast<const ScriptAbortExceptionBase*>(&e)) return "Abort";
    if (dynamic_cast<const ScriptExceptionBase*>(&e)) return "ScriptError";
    return "Exception";
}

void setup(ScriptContext& ctx)
{
    EventSystem::Get();
    ctx.EventContext::Set(&ctx);
    OutputInfo& oi = ctx.GetOutputInfo();
    oi.SetOutputStream(outputLevel_e::Output, &g_out);
    oi.SetOutputStream(outputLevel_e::Warn, &g_warn);
    oi.SetOutputStream(outputLevel_e::Error, &g_err);
    oi.SetOutputStream(outputLevel_e::Debug, nullptr);
    oi.SetOutputStream(outputLevel_e::Verbose, nullptr);
    ctx.GetSettings().SetDeveloperEnabled(false);
    ctx.GetDirector().GetThreadExecutionProtection().SetMaxExecutionTime(kMaxTicks);
    ctx.GetDirector().GetThreadExecutionProtection().SetLoopProtection(true);
    g_out.str(""); g_out.clear(); g_warn.str(""); g_warn.clear(); g_err.str(""); g_err.clear();
}

// one layout on a fresh context
std::string runOne(const std::string& src, const std::string& label, const std::vector<std::string>& args)
{
    ScriptContext ctx;
    setup(ctx);
    std::string status = "ok";
    std::string ret = "none";
    try {
        imemstream stream(src.data(), src.size());
        const ProgramScript* s = ctx.GetDirector().GetProgramScript("m", stream, true);
        if (!s || !s->IsCompileSuccess()) status = "err CompileFailed";
        else {
            Event ev;
            for (const std::string& a : args) {
                if (a[0] == 'i') ev.AddLong(std::stoll(a.substr(1)));
                else if (a[0] == 's') ev.AddString(unhex(a.substr(1)).c_str());
                else ev.AddNil();
            }
            const size_t n0 = ev.NumArgs();
            if (label == "-") ctx.GetDirector().ExecuteThread(s, ev);
            else ctx.GetDirector().ExecuteThread(s, ev, label.c_str());
            // drain anything a script left suspended (nothing in the typed fragment does)
            for (int i = 0; i < 4 && !ctx.IsIdle(); ++i) ctx.Execute();
            Canon c0;
            if (ev.NumArgs() > n0) ret = c0.val(ev.GetValue(ev.NumArgs()));
        }
    } catch (const std::exception& e) {
        status = "err " + excKind(e);
    }
    Canon c;
    std::string line = status + " out=" + esc(g_out.str()) + " ret=" + ret;
    line += " level=" + c.vars(ctx.GetLevel());
    line += " game=" + c.vars(ctx.GetGame());
    line += " parm=" + c.vars(&ctx.GetDirector().GetParm());
    // a script error (warning stream) is an observation too: error-free programs produce none
    const std::string w = g_warn.str();
    size_t nwarn = 0;
    for (size_t p = w.find("Script Warning"); p != std::string::npos; p = w.find("Script Warning", p + 1)) ++nwarn;
    line += " warn=" + std::to_string(nwarn);
    if (nwarn) {
        const size_t p = w.find("Script Warning : ");
        const size_t q = w.find('\n', p);
        line += ":" + esc(w.substr(p + 17, q == std::string::npos ? std::string::npos : q - p - 17));
    }
    line += " idle=" + std::string(ctx.IsIdle() ? "1" : "0");
    return line;
}

// ---- parse-tree dump -------------------------------------------------------------------------
const char* binName(unsigned char op)
{
    switch (op) {
    case OP_BIN_BITWISE_AND: return "&"; case OP_BIN_BITWISE_OR: return "|"; case OP_BIN_BITWISE_EXCL_OR: return "^";
    case OP_BIN_EQUALITY: return "=="; case OP_BIN_INEQUALITY: return "!=";
    case OP_BIN_LESS_THAN: return "<"; case OP_BIN_GREATER_THAN: return ">";
    case OP_BIN_LESS_THAN_OR_EQUAL: return "<="; case OP_BIN_GREATER_THAN_OR_EQUAL: return ">=";
    case OP_BIN_PLUS: return "+"; case OP_BIN_MINUS: return "-"; case OP_BIN_MULTIPLY: return "*";
    case OP_BIN_DIVIDE: return "/"; case OP_BIN_PERCENTAGE: return "%";
    case OP_BIN_SHIFT_LEFT: return "<<"; case OP_BIN_SHIFT_RIGHT: return ">>";
    case OP_UN_MINUS: return "neg"; case OP_UN_COMPLEMENT: return "~"; case OP_UN_SIZE: return "size";
    case OP_UN_INC: return "++"; case OP_UN_DEC: return "--"; case OP_UN_TARGETNAME: return "$";
    default: return "?";
    }
}

const char* scopeName(unsigned char b)
{
    switch (b) {
    case method_game: return "game"; case method_level: return "level"; case method_local: return "local";
    case method_parm: return "parm"; case method_self: return "self"; case method_group: return "group";
    case method_owner: return "owner"; default: return "?";
    }
}

std::string dumpExpr(const sval_t& v)
{
    const sval_t* n = v.node;
    switch (n[0].type) {
    case statementType_e::Integer: return "(int " + std::to_string((long long)n[1].longValue) + ")";
    case statementType_e::String: return "(str " + esc(n[1].stringValue) + ")";
    case statementType_e::NIL: return "(nil)";
    case statementType_e::NULLPTR: return "(null)";
    case statementType_e::Listener: return std::string("(listener ") + scopeName(n[1].byteValue) + ")";
    case statementType_e::Field: return "(field " + dumpExpr(n[1]) + " " + esc(n[2].stringValue) + ")";
    case statementType_e::ArrayExpr: return "(index " + dumpExpr(n[1]) + " " + dumpExpr(n[2]) + ")";
    case statementType_e::Func1Expr: return std::string("(un ") + binName(n[1].byteValue) + " " + dumpExpr(n[2]) + ")";
    case statementType_e::Func2Expr: return std::string("(bin ") + binName(n[1].byteValue) + " " + dumpExpr(n[2]) + " " + dumpExpr(n[3]) + ")";
    case statementType_e::BoolNot: return "(not " + dumpExpr(n[1]) + ")";
    case statementType_e::LogicalAnd: return "(and " + dumpExpr(n[1]) + " " + dumpExpr(n[2]) + ")";
    case statementType_e::LogicalOr: return "(or " + dumpExpr(n[1]) + " " + dumpExpr(n[2]) + ")";
    default: return "(node" + std::to_string((int)n[0].type) + ")";
    }
}

const sval_t* firstAssignment(const sval_t& v)
{
    const sval_t* n = v.node;
    if (!n) return nullptr;
    switch (n[0].type) {
    case statementType_e::StatementList:
        for (const sval_t* node = n[1].node[0].node; node; node = node[1].node) {
            if (const sval_t* r = firstAssignment(*node)) return r;
        }
        return nullptr;
    case statementType_e::Next: return firstAssignment(n[1]);
    case statementType_e::Assignment: return n;
    default: return nullptr;
    }
}

std::string treeOf(const std::string& src)
{
    ScriptContext ctx;
    setup(ctx);
    try {
        imemstream stream(src.data(), src.size());
        ScriptParser parser;
        parser.SetOutputInfo(&ctx.GetOutputInfo());
        const ParseTree pt = parser.Parse("t", stream, nullptr, 0);
        const sval_t* a = firstAssignment(pt.getRootNode());
        if (!a) return "err NoAssignment";
        return "tree " + dumpExpr(a[2]);
    } catch (const std::exception& e) {
        return "err " + excKind(e);
    }
}
}

int main()
{
    verif::now_ms = &clockFn;
    std::vector<std::string> t;
    while (readTokens(t)) {
        if (t.empty()) { say("bad-op"); continue; }
        size_t end = t.size();
        for (size_t i = 0; i < t.size(); ++i) if (t[i] == "##") { end = i; break; }
        if (t[0] == "prog" && end >= 5) {
            size_t i = 1;
            const std::string label = t[i++];
            const size_t nargs = std::stoul(t[i++]);
            std::vector<std::string> args;
            for (size_t k = 0; k < nargs && i < end; ++k) args.push_back(t[i++]);
            if (i >= end) { say("bad-op"); continue; }
            const size_t nl = std::stoul(t[i++]);
            if (!nl || i + nl != end) { say("bad-op"); continue; }
            std::string first;
            std::string answer;
            for (size_t k = 0; k < nl; ++k) {
                const std::string line = runOne(unhex(t[i + k]), label, args);
                if (k == 0) first = line;
                else if (line != first && answer.empty()) answer = "LAYOUT-DIFF " + std::to_string(k) + " " + line + " <> " + first;
            }
            if (answer.empty()) answer = first + " layouts=" + std::to_string(nl);
            say(answer);
        } else if (t[0] == "tree" && end == 2) {
            say(treeOf(unhex(t[1])));
        } else {
            say("bad-op");
        }
    }
    // Leave without running static destructors: a script that builds a cyclic array (a[k] = a) leaks the
    // holders (reference counts never reach zero) and the static pool's FreeAll() at exit then destroys the
    // leaked entries recursively through already released slots.  That is a leak / teardown matter outside
    // C03 (noted in notes/C03-findings.md); everything C03 observes has been printed by now.
    std::fflush(stdout);
    std::_Exit(0);
}
