// Line-protocol plumbing shared by all correspondence harnesses: one input line of
// space-separated tokens in, exactly one output line out.
#pragma once
#include <cstdio>
#include <cstdlib>
#include <string>
#include <vector>
#include <iostream>

inline bool readTokens(std::vector<std::string>& out)
{
    std::string line;
    if (!std::getline(std::cin, line)) return false;
    out.clear();
    size_t i = 0;
    while (i < line.size()) {
        while (i < line.size() && (line[i] == ' ' || line[i] == '\r' || line[i] == '\t')) ++i;
        size_t j = i;
        while (j < line.size() && line[j] != ' ' && line[j] != '\r' && line[j] != '\t') ++j;
        if (j > i) out.emplace_back(line.substr(i, j - i));
        i = j;
    }
    return true;
}

// parses tokens [from..) as decimal naturals; false if any is not one
inline bool parseNats(const std::vector<std::string>& t, size_t from, std::vector<size_t>& out)
{
    out.clear();
    for (size_t i = from; i < t.size(); ++i) {
        if (t[i].empty() || t[i].size() > 18) return false;
        for (char c : t[i]) if (c < '0' || c > '9') return false;
        out.push_back(std::strtoull(t[i].c_str(), nullptr, 10));
    }
    return true;
}

inline void say(const std::string& s)
{
    std::fputs(s.c_str(), stdout);
    std::fputc('\n', stdout);
    std::fflush(stdout);   // a sanitizer abort must not lose the lines before it
}
