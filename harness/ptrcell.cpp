// Correspondence harness for the ScriptPointer result-cell model (property C05): heap-allocated
// ScriptVariable cells, so a write through a stale back-reference is an ASan report.
#include <morfuse/Script/ScriptVariable.h>
#include <morfuse/Script/Context.h>
#include "lineio.h"

#include <map>
#include <vector>

using namespace mfuse;

namespace {
std::vector<ScriptVariable*> cells;
std::map<const void*, size_t> holderOrd;
size_t nextOrd = 1;

bool live(size_t a) { return a != 0 && a < cells.size() && cells[a]; }
bool freeSlot(size_t a) { return a != 0 && a < cells.size() && !cells[a]; }

std::string observe()
{
    std::string out;
    for (size_t a = 1; a < cells.size(); ++a) {
        if (!cells[a]) continue;
        if (!out.empty()) out += ' ';
        ScriptVariable& v = *cells[a];
        switch (v.GetType()) {
        case variableType_e::None: out += std::to_string(a) + ":none"; break;
        case variableType_e::Integer: out += std::to_string(a) + ":i" + std::to_string(v.longValue()); break;
        case variableType_e::Pointer: {
            auto it = holderOrd.find(v.m_data.pointerValue);
            out += std::to_string(a) + ":p" + (it == holderOrd.end() ? std::string("?") : std::to_string(it->second));
            break; }
        default: out += std::to_string(a) + ":other"; break;
        }
    }
    return out;
}
}

int main()
{
    EventSystem::Get();
    ScriptContext ctx;
    ctx.EventContext::Set(&ctx);
    cells.assign(7, nullptr);
    std::vector<std::string> t;
    while (readTokens(t)) {
        std::vector<size_t> n;
        const bool numeric = parseNats(t, 1, n);
        const std::string op = t.empty() ? std::string() : t[0];
        if (op == "universe" && numeric && n.size() == 1) {
            for (auto*& c : cells) { delete c; c = nullptr; }
            cells.assign(n[0] + 1, nullptr);
            holderOrd.clear(); nextOrd = 1;
            say("ok");
            continue;
        }
        bool ok = false;
        if (numeric) {
            if (op == "newcell" && n.size() == 1) {
                if (freeSlot(n[0])) { cells[n[0]] = new ScriptVariable(); ok = true; }
            } else if (op == "newptr" && n.size() == 1) {
                if (live(n[0]) && cells[n[0]]->GetType() == variableType_e::None) {
                    cells[n[0]]->newPointer();
                    holderOrd[cells[n[0]]->m_data.pointerValue] = nextOrd++;
                    ok = true;
                }
            } else if (op == "copy" && n.size() == 2) {
                if (live(n[0]) && freeSlot(n[1])) { cells[n[1]] = new ScriptVariable(*cells[n[0]]); ok = true; }
            } else if (op == "move" && n.size() == 2) {
                if (live(n[0]) && freeSlot(n[1])) { cells[n[1]] = new ScriptVariable(std::move(*cells[n[0]])); ok = true; }
            } else if (op == "assign" && n.size() == 2) {
                if (live(n[0]) && live(n[1]) && n[0] != n[1]) { *cells[n[1]] = *cells[n[0]]; ok = true; }
            } else if (op == "destroy" && n.size() == 1) {
                if (live(n[0])) { delete cells[n[0]]; cells[n[0]] = nullptr; ok = true; }
            } else if (op == "setint" && n.size() == 2) {
                if (live(n[0])) { cells[n[0]]->setLongValue((int64_t)n[1]); ok = true; }
            } else if (op == "endref" && n.size() == 2) {
                if (live(n[0]) && cells[n[0]]->GetType() == variableType_e::Pointer) {
                    ScriptVariable v; v.setLongValue((int64_t)n[1]);
                    cells[n[0]]->setPointerRef(v); ok = true;
                }
            } else if (op == "endplain" && n.size() == 1) {
                if (live(n[0]) && cells[n[0]]->GetType() == variableType_e::Pointer) { cells[n[0]]->ClearPointer(); ok = true; }
            }
        }
        if (ok) say("ok " + observe()); else say("bad-op");
    }
    for (auto*& c : cells) { delete c; c = nullptr; }
    return 0;
}
