// Correspondence harness for property C12: drives the real SafePtr / AbstractClass code with the
// line protocol of lean/Driver/SafePtr.lean and prints the same observation lines.
// References live on the heap so that a write through a stale link is an ASan report.
#include <morfuse/Common/SafePtr.h>
#include <morfuse/Common/AbstractClass.h>
#include "lineio.h"

#include <vector>
#include <string>

using namespace mfuse;

#include <morfuse/Container/Container.h>

namespace {
// the engine base is deliberately NOT the first base: conversions between Obj* and AbstractClass*
// must adjust the address; the canary sits where a missing adjustment would scribble
struct Tagged { virtual ~Tagged() {} unsigned long canary = 0xC0FFEE11u; unsigned long pad[4] = {0, 0, 0, 0}; };
struct Obj : public Tagged, public AbstractClass { int tag = 0; };
using Ref = SafePtr<Obj>;
con::Container<Ref>* cont = nullptr;
bool quiet = false;

std::vector<Obj*> objs;   // index = id, 0 unused
std::vector<Ref*> refs;

Obj* objOrNull(size_t o) { return o == 0 ? nullptr : objs[o]; }
bool okTarget(size_t o) { return o == 0 || (o < objs.size() && objs[o]); }
bool liveRef(size_t r) { return r != 0 && r < refs.size() && refs[r]; }

size_t idOf(const Obj* p)
{
    if (!p) return 0;
    for (size_t i = 1; i < objs.size(); ++i) if (objs[i] == p) return i;
    return 999999; // dangling: not any live object
}

std::string canaries()
{
    std::string out;
    for (size_t i = 1; i < objs.size(); ++i) {
        if (objs[i] && (objs[i]->canary != 0xC0FFEE11u || objs[i]->pad[0] || objs[i]->pad[1] || objs[i]->pad[2] || objs[i]->pad[3]))
            out += " CANARY-BAD:" + std::to_string(i);
    }
    return out;
}

std::string observe()
{
    std::string out;
    for (size_t r = 1; r < refs.size(); ++r) {
        if (!refs[r]) continue;
        if (!out.empty()) out += ' ';
        const Obj* p = refs[r]->Pointer();
        const bool valid = refs[r]->Valid();
        if (valid != (p != nullptr)) { out += std::to_string(r) + ":VALID-MISMATCH"; continue; }
        if (!p) out += std::to_string(r) + ":0";
        else out += std::to_string(r) + ":" + std::to_string(idOf(p)) + ":" + (refs[r]->IsLastReference() ? "L" : "N");
    }
    if (cont) {
        for (size_t k = 1; k <= cont->NumObjects(); ++k) {
            if (!out.empty()) out += ' ';
            const Ref& e = cont->ObjectAt(k);
            const Obj* p = e.Pointer();
            if (!p) out += "c" + std::to_string(k) + ":0";
            else out += "c" + std::to_string(k) + ":" + std::to_string(idOf(p)) + ":" + (e.IsLastReference() ? "L" : "N");
        }
    }
    out += canaries();
    return out;
}

std::string tokOf(const Ref& e)
{
    const Obj* p = e.Pointer();
    if (e.Valid() != (p != nullptr)) return "VALID-MISMATCH";
    if (!p) return "0";
    return std::to_string(idOf(p)) + ":" + (e.IsLastReference() ? "L" : "N");
}

// run-length encoded observation (same format as Driver.SafePtr.observeRle)
std::string observeRle()
{
    std::string out;
    size_t a = 0, b = 0; std::string cur;
    auto flush = [&]() {
        if (!a) return;
        if (!out.empty()) out += ' ';
        out += std::to_string(a) + "-" + std::to_string(b) + ":" + cur;
        a = 0;
    };
    for (size_t r = 1; r < refs.size(); ++r) {
        if (!refs[r]) { flush(); continue; }
        const std::string t = tokOf(*refs[r]);
        if (a && t == cur) { b = r; continue; }
        flush();
        a = b = r; cur = t;
    }
    flush();
    if (cont) {
        for (size_t k = 1; k <= cont->NumObjects(); ++k) {
            if (!out.empty()) out += ' ';
            out += "c" + std::to_string(k) + ":" + tokOf(cont->ObjectAt(k));
        }
    }
    out += canaries();
    return out;
}
}

int main()
{
    objs.assign(4, nullptr);
    refs.assign(6, nullptr);
    cont = new con::Container<Ref>;
    std::vector<std::string> t;
    while (readTokens(t)) {
        std::vector<size_t> n;
        const bool numeric = parseNats(t, 1, n);
        const std::string& op = t.empty() ? std::string() : t[0];
        bool ok = false;
        const bool uq = op == "universe" && t.size() == 4 && t[3] == "q";
        if (uq) { t.pop_back(); n.clear(); }
        if (op == "universe" && (numeric || (uq && parseNats(t, 1, n))) && n.size() == 2) {
            delete cont; cont = new con::Container<Ref>;
            for (auto*& r : refs) { delete r; r = nullptr; }
            for (auto*& o : objs) { delete o; o = nullptr; }
            objs.assign(n[0] + 1, nullptr);
            refs.assign(n[1] + 1, nullptr);
            quiet = uq;
            say("ok");
            continue;
        }
        if (op == "obs" && t.size() == 1) { say("ok " + observeRle()); continue; }
        if (!numeric) { say("bad-op"); continue; }
        if (op == "quiet" && n.size() == 1) { quiet = n[0] != 0; say("ok"); continue; }
        if (op == "mkrefs" && n.size() == 3) {
            // references a..b onto object o, alternately `Ref r(o)` and `Ref r(previous)`; all-or-nothing
            const size_t o = n[0], a = n[1], b = n[2];
            bool legal = o < objs.size() && a != 0 && b < refs.size() && a <= b && okTarget(o);
            for (size_t r = a; legal && r <= b; ++r) if (refs[r]) legal = false;
            if (legal) {
                for (size_t r = a; r <= b; ++r)
                    refs[r] = ((r - a) % 2 == 1) ? new Ref(*refs[r - 1]) : new Ref(objOrNull(o));
                ok = true;
            }
        } else if (op == "delrefs" && n.size() == 2) {
            const size_t a = n[0], b = n[1];
            bool legal = a != 0 && b < refs.size() && a <= b;
            for (size_t r = a; legal && r <= b; ++r) if (!refs[r]) legal = false;
            if (legal) { for (size_t r = a; r <= b; ++r) { delete refs[r]; refs[r] = nullptr; } ok = true; }
        } else
        if (op == "newobj" && n.size() == 1) {
            if (n[0] != 0 && n[0] < objs.size() && !objs[n[0]]) { objs[n[0]] = new Obj; ok = true; }
        } else if (op == "delobj" && n.size() == 1) {
            if (n[0] != 0 && n[0] < objs.size() && objs[n[0]]) { delete objs[n[0]]; objs[n[0]] = nullptr; ok = true; }
        } else if (op == "newref" && n.size() == 2) {
            if (n[0] != 0 && n[0] < refs.size() && !refs[n[0]] && okTarget(n[1])) { refs[n[0]] = new Ref(objOrNull(n[1])); ok = true; }
        } else if (op == "copyref" && n.size() == 2) {
            if (n[0] != 0 && n[0] < refs.size() && !refs[n[0]] && liveRef(n[1])) { refs[n[0]] = new Ref(*refs[n[1]]); ok = true; }
        } else if (op == "assignobj" && n.size() == 2) {
            if (liveRef(n[0]) && okTarget(n[1])) { *refs[n[0]] = objOrNull(n[1]); ok = true; }
        } else if (op == "assignref" && n.size() == 2) {
            if (liveRef(n[0]) && liveRef(n[1])) { *refs[n[0]] = *refs[n[1]]; ok = true; }
        } else if (op == "moveassign" && n.size() == 2) {
            if (liveRef(n[0]) && liveRef(n[1]) && n[0] != n[1]) { *refs[n[0]] = std::move(*refs[n[1]]); refs[n[1]]->Clear(); ok = true; }
        } else if (op == "movector" && n.size() == 2) {
            if (n[0] != 0 && n[0] < refs.size() && !refs[n[0]] && liveRef(n[1])) { refs[n[0]] = new Ref(std::move(*refs[n[1]])); refs[n[1]]->Clear(); ok = true; }
        } else if (op == "cadd" && n.size() == 1) {
            if (cont && okTarget(n[0]) && cont->NumObjects() < 40) { cont->AddObject(Ref(objOrNull(n[0]))); ok = true; }
        } else if (op == "cremove" && n.size() == 1) {
            if (cont && n[0] >= 1 && n[0] <= cont->NumObjects()) { cont->RemoveObjectAt(n[0]); ok = true; }
        } else if (op == "clear" && n.size() == 1) {
            if (liveRef(n[0])) { refs[n[0]]->Clear(); ok = true; }
        } else if (op == "delref" && n.size() == 1) {
            if (liveRef(n[0])) { delete refs[n[0]]; refs[n[0]] = nullptr; ok = true; }
        }
        if (ok) say(quiet ? std::string("ok") : "ok " + observe()); else say("bad-op");
    }
    delete cont; cont = nullptr;
    for (auto*& r : refs) { delete r; r = nullptr; }
    for (auto*& o : objs) { delete o; o = nullptr; }
    return 0;
}
