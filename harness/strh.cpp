// Correspondence harness for property C18, area Str: drives the real mfuse::str (copy-on-write
// buffers) with the line protocol of lean/Driver/Str.lean.  Four heap-allocated str objects 0..3;
// texts hex-encoded, characters as decimal byte values.  Observation after every line, per string:
// the bytes c_str() shows, length(), which strings share its block (first sharer), the block's
// refcount and alloced fields; plus the number of live blocks (counted by an IMemoryManager).
// Member functions whose only guard is an assert (compiled out) are answered `ub` and NOT executed
// when the guard fails: tolower/toupper/non-const operator[]/icmpn(str)/icmp(const char*) on a
// string whose m_data is null.
#include <morfuse/Common/str.h>
#include <morfuse/Common/MEM/Memory.h>
#include "lineio.h"

#include <cstdlib>
#include <string>
#include <vector>
#include <new>

using namespace mfuse;

namespace {
long liveBlocks = 0;
class CountingManager : public IMemoryManager {
public:
    void* allocate(size_t size) override { ++liveBlocks; return std::malloc(size); }
    void free(void* ptr) noexcept override { if (ptr) --liveBlocks; std::free(ptr); }
};
CountingManager manager;

const size_t NH = 4;
str* H[NH] = {nullptr, nullptr, nullptr, nullptr};

void resetAll()
{
    for (auto*& h : H) { delete h; h = nullptr; }
    for (auto*& h : H) h = new str;
}

int hexVal(char c) { if (c >= '0' && c <= '9') return c - '0'; if (c >= 'a' && c <= 'f') return c - 'a' + 10; return -1; }

bool unhex(const std::string& t, std::string& out)
{
    out.clear();
    if (t == "-") return true;
    if (t.empty() || t.size() % 2) return false;
    for (size_t i = 0; i < t.size(); i += 2) {
        const int a = hexVal(t[i]), b = hexVal(t[i + 1]);
        if (a < 0 || b < 0 || (a * 16 + b) == 0) return false;
        out.push_back((char)(a * 16 + b));
    }
    return true;
}

std::string hex(const char* p)
{
    static const char* d = "0123456789abcdef";
    std::string o;
    for (; *p; ++p) { o.push_back(d[((unsigned char)*p) >> 4]); o.push_back(d[((unsigned char)*p) & 15]); }
    return o.empty() ? std::string("-") : o;
}

std::string showH(size_t h)
{
    const str& s = *H[h];
    if (!s.m_data) {
        std::string o = "- " + std::to_string(s.length()) + " n - -";
        if (*s.c_str()) o += " !c_str-of-null-not-empty";
        return o;
    }
    std::string extra;
    if (s.isEmpty() != (s.length() == 0)) extra += " !isEmpty-disagrees";
    if ((const char*)s != s.c_str()) extra += " !conversion-disagrees";
    if ((s == nullptr) || !(s != nullptr)) extra += " !nullptr-comparison";
    size_t grp = h;
    for (size_t g = 0; g < NH; ++g) if (H[g]->m_data == s.m_data) { grp = g; break; }
    return hex(s.c_str()) + " " + std::to_string(s.length()) + " g" + std::to_string(grp) + " "
        + std::to_string(s.m_data->refcount) + " " + std::to_string(s.m_data->alloced) + extra;
}

std::string obs()
{
    std::string o;
    for (size_t h = 0; h < NH; ++h) { if (h) o += " | "; o += showH(h); }
    return o + " | blocks=" + std::to_string(liveBlocks);
}

bool nat(const std::string& t, size_t& out, size_t max)
{
    if (t.empty() || t.size() > 9) return false;
    for (char c : t) if (c < '0' || c > '9') return false;
    out = std::strtoull(t.c_str(), nullptr, 10);
    return out <= max;
}

std::string sign(int r) { return r < 0 ? "-1" : (r > 0 ? "1" : "0"); }

template<typename F> void install(size_t h, F make)
{
    str tmp(make());
    H[h]->~str();
    new (H[h]) str(std::move(tmp));
}
}

int main()
{
    IMemoryManager::set(&manager);
    resetAll();
    std::vector<std::string> t;
    while (readTokens(t)) {
        const std::string op = t.empty() ? std::string() : t[0];
        if (op == "reset" && t.size() == 1) { resetAll(); say("ok - | " + obs()); continue; }
        size_t h = 0, g = 0, a = 0, b = 0, n = 0, c = 0;
        std::string txt, ret = "-";
        bool ok = true, ub = false;
        const size_t BIG = 1000000;
        if (op == "ctor" && t.size() == 3 && nat(t[1], h, NH - 1) && unhex(t[2], txt)) {
            install(h, [&] { return str(txt.c_str()); });
        } else if (op == "ctorn" && t.size() == 4 && nat(t[1], h, NH - 1) && unhex(t[2], txt) && nat(t[3], n, BIG) && n <= txt.size()) {
            install(h, [&] { return str(txt.c_str(), n); });
        } else if (op == "ctorc" && t.size() == 3 && nat(t[1], h, NH - 1) && nat(t[2], c, 255) && c != 0) {
            install(h, [&] { return str((char)c); });
        } else if (op == "ctorsub" && t.size() == 5 && nat(t[1], h, NH - 1) && nat(t[2], g, NH - 1) && nat(t[3], a, BIG) && nat(t[4], b, BIG)) {
            install(h, [&] { return str(*H[g], a, b); });
        } else if (op == "cctor" && t.size() == 3 && nat(t[1], h, NH - 1) && nat(t[2], g, NH - 1)) {
            install(h, [&] { return str(*H[g]); });
        } else if (op == "copy" && t.size() == 3 && nat(t[1], h, NH - 1) && nat(t[2], g, NH - 1)) {
            *H[h] = *H[g];
        } else if (op == "move" && t.size() == 3 && nat(t[1], h, NH - 1) && nat(t[2], g, NH - 1)) {
            *H[h] = std::move(*H[g]);
        } else if (op == "assign" && t.size() == 3 && nat(t[1], h, NH - 1) && unhex(t[2], txt)) {
            *H[h] = txt.c_str();
        } else if (op == "assignn" && t.size() == 4 && nat(t[1], h, NH - 1) && unhex(t[2], txt) && nat(t[3], n, BIG) && n <= txt.size()) {
            H[h]->assign(txt.c_str(), n);
        } else if (op == "app" && t.size() == 3 && nat(t[1], h, NH - 1) && nat(t[2], g, NH - 1)) {
            *H[h] += *H[g];
        } else if (op == "apps" && t.size() == 3 && nat(t[1], h, NH - 1) && unhex(t[2], txt)) {
            if (txt.size() % 2) *H[h] += txt.c_str(); else H[h]->append(txt.c_str());
        } else if (op == "appc" && t.size() == 3 && nat(t[1], h, NH - 1) && nat(t[2], c, 255) && c != 0) {
            if (c % 2) *H[h] += (char)c; else H[h]->append((char)c);
        } else if (op == "plus" && t.size() == 4 && nat(t[1], h, NH - 1) && nat(t[2], a, NH - 1) && nat(t[3], b, NH - 1)) {
            if ((a + b) % 2) *H[h] = *H[a] + H[b]->c_str(); else *H[h] = *H[a] + *H[b];
        } else if (op == "setc" && t.size() == 4 && nat(t[1], h, NH - 1) && nat(t[2], n, BIG) && nat(t[3], c, 255) && c != 0) {
            if (!H[h]->m_data) ub = true; else (*H[h])[n] = (char)c;
        } else if (op == "getc" && t.size() == 3 && nat(t[1], h, NH - 1) && nat(t[2], n, BIG)) {
            ret = std::to_string((unsigned)(unsigned char)static_cast<const str&>(*H[h])[n]);
        } else if (op == "cap" && t.size() == 3 && nat(t[1], h, NH - 1) && nat(t[2], n, BIG)) {
            H[h]->CapLength(n);
        } else if (op == "minus" && t.size() == 3 && nat(t[1], h, NH - 1) && nat(t[2], n, BIG)) {
            if (n == 1) (*H[h])--; else *H[h] -= (int)n;
        } else if ((op == "lower" || op == "upper") && t.size() == 2 && nat(t[1], h, NH - 1)) {
            if (!H[h]->m_data) ub = true; else if (op == "lower") H[h]->tolower(); else H[h]->toupper();
        } else if (op == "strip" && t.size() == 2 && nat(t[1], h, NH - 1)) {
            H[h]->strip();
        } else if (op == "reserve" && t.size() == 3 && nat(t[1], h, NH - 1) && nat(t[2], n, BIG)) {
            H[h]->reserve(n);
        } else if (op == "clear" && t.size() == 2 && nat(t[1], h, NH - 1)) {
            H[h]->clear();
        } else if (op == "eq" && t.size() == 3 && nat(t[1], a, NH - 1) && nat(t[2], b, NH - 1)) {
            const bool e = *H[a] == *H[b];
            ret = e ? "true" : "false";
            if ((*H[a] != *H[b]) == e) ret += "!operator!=-disagrees";
        } else if (op == "eqs" && t.size() == 3 && nat(t[1], a, NH - 1) && unhex(t[2], txt)) {
            const bool e = *H[a] == txt.c_str();
            ret = e ? "true" : "false";
            if ((txt.c_str() == *H[a]) != e) ret += "!reversed-operator==-disagrees";
        } else if (op == "icmp" && t.size() == 3 && nat(t[1], a, NH - 1) && nat(t[2], b, NH - 1)) {
            ret = sign(H[a]->icmp(*H[b]));
        } else if (op == "cmpn" && t.size() == 4 && nat(t[1], a, NH - 1) && nat(t[2], b, NH - 1) && nat(t[3], n, BIG)) {
            ret = sign(H[a]->cmpn(*H[b], n));
        } else if (op == "icmpn" && t.size() == 4 && nat(t[1], a, NH - 1) && nat(t[2], b, NH - 1) && nat(t[3], n, BIG)) {
            if (!H[a]->m_data || !H[b]->m_data) ub = true; else ret = sign(H[a]->icmpn(*H[b], n));
        } else if (op == "icmps" && t.size() == 3 && nat(t[1], a, NH - 1) && unhex(t[2], txt)) {
            if (!H[a]->m_data) ub = true; else ret = sign(H[a]->icmp(txt.c_str()));
        } else ok = false;
        if (!ok) say("bad-op");
        else if (ub) say("ub");
        else say("ok " + ret + " | " + obs());
    }
    for (auto*& h : H) { delete h; h = nullptr; }
    std::fflush(stdout);
    std::_Exit(0);
}
