// Correspondence harness for property C15 (`$name`): the real TargetList / TargetComponent /
// SimpleEntity / ScriptVM of /repo, same line protocol as lean/Driver/Target.lean.
//
//   universe snapshot=<b> fieldfan=<b> max=<n> [dbg=<b> warn=<b> dev=<b>]
//                               fresh ScriptContext, `level.n = 0`; snapshot/fieldfan are for the model only;
//                               dbg / warn: a Debug / Warn output stream is attached (default 0 / 1), dev: developer mode
// host level (direct calls):
//   spawn                       new SimpleEntity; ids are 1,2,... in creation order
//   setname <o> <n>             o->GetTargetComponent().SetTargetName(name n)
//   delete <o>                  delete o
//   gettarget <n>               TargetList::GetTarget            -> r=<id|0|multi:k>
//   getnext <o|0> <n>           TargetList::GetNextTarget        -> r=<id|0>
//   index <o> <n>               TargetList::GetTargetnameIndex   -> r=<k>
// script level:
//   s <hex source> ## <abstract statement>     compile the source, run label `main` in the same
//                                               context (objects live in level.o[k], level.n, level.v<k>)
// names: 0 = empty StringResolvable, 1 = "", 2..5 = "n1".."n4".
// Answer: `ok <r> T[1=ids;..;5=ids] A[live ids] C[id:cnt:fld,..] G[id:target:targetname,..]`, script level
// `ok out=[line|line] T[..] A[..] C[..]`; everything printed on Output/Warn/Error in order, warnings
// canonicalised to !null !nil (also: cast of NIL to listener) !cast !range.
#include <morfuse/Script/Context.h>
#include <morfuse/Script/ScriptVariable.h>
#include <morfuse/Script/ScriptException.h>
#include <morfuse/Script/ScriptThread.h>
#include <morfuse/Script/ProgramScript.h>
#include <morfuse/Script/SimpleEntity.h>
#include <morfuse/Script/TargetList.h>
#include <morfuse/Script/Level.h>
#include <morfuse/Script/PredefinedString.h>
#include <morfuse/Common/membuf.h>
#include <morfuse/Common/OutputInfo.h>
#include "lineio.h"

#include <sstream>
#include <memory>

using namespace mfuse;

namespace {
std::ostringstream g_out;
std::ostringstream g_dbgSink;              // Debug stream when attached: its text is not compared
bool g_dbg = false, g_warn = true, g_dev = false;
std::unique_ptr<ScriptContext> g_ctx;
std::vector<SafePtr<Listener>> g_objs;      // g_objs[id-1]
size_t g_max = 8;
size_t g_scriptNo = 0;

std::string unhex(const std::string& h)
{
    std::string s;
    for (size_t i = 0; i + 1 < h.size(); i += 2) s.push_back(char(std::stoi(h.substr(i, 2), nullptr, 16)));
    return s;
}

void dropContext()
{
    if (!g_ctx) return;
    for (auto& p : g_objs) { Listener* l = p.Pointer(); if (l) delete l; }
    g_objs.clear();
    g_ctx.reset();
}

void freshContext()
{
    dropContext();
    EventSystem::Get();
    g_ctx.reset(new ScriptContext);
    g_ctx->EventContext::Set(g_ctx.get());
    OutputInfo& oi = g_ctx->GetOutputInfo();
    oi.SetOutputStream(outputLevel_e::Output, &g_out);
    oi.SetOutputStream(outputLevel_e::Warn, g_warn ? &g_out : nullptr);
    oi.SetOutputStream(outputLevel_e::Error, &g_out);
    oi.SetOutputStream(outputLevel_e::Debug, g_dbg ? &g_dbgSink : nullptr);
    oi.SetOutputStream(outputLevel_e::Verbose, nullptr);
    g_ctx->GetSettings().SetDeveloperEnabled(g_dev);
    g_out.str(""); g_out.clear();
    g_scriptNo = 0;
}

bool queryName(const std::string& t, const_str& out);

bool nameOf(const std::string& t, StringResolvable& out)
{
    if (t.size() != 1 || t[0] < '0' || t[0] > '5') return false;
    const int n = t[0] - '0';
    if (n == 0) out = StringResolvable();
    else if (n == 1) out = StringResolvable(const_str(ConstStrings::Empty));
    else out = StringResolvable(g_ctx->GetDirector().GetDictionary().Add(("n" + std::to_string(n - 1)).c_str()));
    return true;
}

const_str constName(int n)
{
    if (n == 0) return const_str(0);       // const_str::None()
    if (n == 1) return ConstStrings::Empty;
    return g_ctx->GetDirector().GetDictionary().Add(("n" + std::to_string(n - 1)).c_str());
}

bool queryName(const std::string& t, const_str& out)
{
    if (t.size() != 1 || t[0] < '0' || t[0] > '5') return false;
    out = constName(t[0] - '0');
    return true;
}

size_t idOf(const Listener* l)
{
    if (!l) return 0;
    for (size_t i = 0; i < g_objs.size(); ++i) if (g_objs[i].Pointer() == l) return i + 1;
    return 99;
}

long varOf(Listener* l, const char* name)
{
    ScriptVariableList* vars = l->Vars();
    ScriptVariable* v = vars ? vars->GetVariable(str(name)) : nullptr;
    if (!v || v->GetType() != variableType_e::Integer) return 0;
    return (long)v->longValue();
}

// pick up objects spawned by scripts: level.n, level.o[k]
void syncObjects()
{
    Level* lv = g_ctx->GetLevel();
    ScriptVariableList* vars = lv->Vars();
    ScriptVariable* nv = vars ? vars->GetVariable(str("n")) : nullptr;
    ScriptVariable* ov = vars ? vars->GetVariable(str("o")) : nullptr;
    if (!nv || !ov) return;
    const size_t n = (size_t)nv->longValue();
    for (size_t k = g_objs.size() + 1; k <= n; ++k) {
        ScriptVariable idx; idx.setIntValue((int)k);
        ScriptVariable e = *ov;
        e.evalArrayAt(idx);
        Listener* l = e.GetType() == variableType_e::Listener ? e.listenerValue() : nullptr;
        g_objs.emplace_back(l);
    }
}

std::string dump()
{
    TargetList& tl = g_ctx->GetTargetList();
    std::ostringstream o;
    o << "T[";
    for (int n = 1; n <= 5; ++n) {
        if (n > 1) o << ';';
        o << n << '=';
        const ConTarget* list = tl.GetExistingTargetList(constName(n));
        if (list) for (size_t i = 1; i <= list->NumObjects(); ++i) { if (i > 1) o << ','; o << idOf(list->ObjectAt(i)); }
    }
    o << "] A[";
    bool first = true;
    for (size_t i = 0; i < g_objs.size(); ++i) if (g_objs[i].Pointer()) { if (!first) o << ','; first = false; o << (i + 1); }
    o << "] C[";
    first = true;
    for (size_t i = 0; i < g_objs.size(); ++i) if (Listener* l = g_objs[i].Pointer()) {
        if (!first) o << ','; first = false;
        o << (i + 1) << ':' << varOf(l, "cnt") << ':' << varOf(l, "fld");
    }
    o << "] G[";
    first = true;
    StringDictionary& dict = g_ctx->GetDirector().GetDictionary();
    for (size_t i = 0; i < g_objs.size(); ++i) if (Listener* l = g_objs[i].Pointer()) {
        if (!first) o << ','; first = false;
        TargetComponent& tc = static_cast<SimpleEntity*>(l)->GetTargetComponent();
        // setter-backed `target` field: "t<k>" is k, empty is 0
        const str tg = tc.GetTarget().GetString(dict);
        long tv = 98;
        if (tg.length() == 0) tv = 0;
        else if (tg[0] == 't' && tg.length() > 1 && tg.length() < 6) {
            tv = 0;
            for (size_t k = 1; k < tg.length(); ++k) { if (tg[k] < '0' || tg[k] > '9') { tv = 98; break; } tv = tv * 10 + (tg[k] - '0'); }
        }
        // cached target name (TargetComponent::GetTargetName): same numbering as T[..]
        StringResolvable tnr = tc.GetTargetName();
        const const_str tn = tnr.GetConstString(dict);
        int nv = 9;
        for (int n = 1; n <= 5; ++n) if (tn == constName(n)) nv = n;
        o << (i + 1) << ':' << tv << ':' << nv;
    }
    o << "]";
    return o.str();
}

std::string takeOut()
{
    const std::string s = g_out.str();
    g_out.str(""); g_out.clear();
    std::string r = "[";
    size_t i = 0; bool first = true;
    while (i < s.size()) {
        size_t j = s.find('\n', i);
        if (j == std::string::npos) j = s.size();
        std::string line = s.substr(i, j - i);
        i = j + 1;
        if (line.empty()) continue;
        if (g_dev && line.size() > 4 && line[0] == '(' && line[1] == 'c' && line.compare(line.size() - 2, 2, "):") == 0) {
            // developer mode: HandleScriptException prints the source position in front of the
            // warning: "(c<k>, <line>):", the source line, a caret line
            for (int k = 0; k < 2 && i < s.size(); ++k) { size_t e = s.find('\n', i); i = (e == std::string::npos) ? s.size() : e + 1; }
            continue;
        }
        const std::string w = "^~^~^ Script Warning : ";
        if (line.compare(0, w.size(), w) == 0) {
            const std::string m = line.substr(w.size());
            if (m.find("Can't find target name") != std::string::npos) line = "!notarget";
            else if (m.find("applied to NULL listener") != std::string::npos) line = "!null";
            else if (m.find("applied to NIL") != std::string::npos) line = "!nil";
            else if (m.find("Cannot cast 'none' to 'listener'") != std::string::npos) line = "!nil";
            else if (m.find("Cannot cast 'array' to 'listener'") != std::string::npos || m.find("Cannot cast 'const array' to 'listener'") != std::string::npos) line = "!cast";
            else if (m.find("out of range") != std::string::npos) line = "!range";
            else line = "!other:" + m;
        }
        if (!first) r += '|';
        first = false;
        for (char c : line) r += ((c == '|' || c == '[' || c == ']' || c < 32 || c > 126) ? '?' : c);
    }
    return r + "]";
}

Listener* liveObj(const std::string& t, bool allowZero, bool& ok)
{
    ok = false;
    if (t.empty() || t.size() > 3) return nullptr;
    for (char c : t) if (c < '0' || c > '9') return nullptr;
    const size_t k = std::stoul(t);
    if (k == 0) { ok = allowZero; return nullptr; }
    if (k > g_objs.size() || !g_objs[k - 1].Pointer()) return nullptr;
    ok = true;
    return g_objs[k - 1].Pointer();
}
}

int main()
{
    std::vector<std::string> t;
    freshContext();
    while (readTokens(t)) {
        if (t.empty()) { say("bad-op"); continue; }
        const std::string& op = t[0];
        std::string r;
        try {
            if (op == "universe" && (t.size() == 4 || t.size() == 7) && t[3].compare(0, 4, "max=") == 0) {
                g_max = std::stoul(t[3].substr(4));
                g_dbg = false; g_warn = true; g_dev = false;
                if (t.size() == 7) {
                    if (t[4].compare(0, 4, "dbg=") || t[5].compare(0, 5, "warn=") || t[6].compare(0, 4, "dev=")) { say("bad-op"); continue; }
                    g_dbg = t[4].substr(4) == "1"; g_warn = t[5].substr(5) == "1"; g_dev = t[6].substr(4) == "1";
                }
                freshContext();
                {
                    // script-level bookkeeping: level.n = number of objects spawned so far
                    static const std::string init = "main:\nlevel.n = 0\nend\n";
                    imemstream stream(init.data(), init.size());
                    const ProgramScript* s = g_ctx->GetDirector().GetProgramScript("init", stream, true);
                    Event ev;
                    g_ctx->GetDirector().ExecuteThread(s, ev, "main");
                    g_out.str(""); g_out.clear();
                }
                // the model's `emptyName ≠ 0` and `normName`
                say(const_str(ConstStrings::Empty) ? "ok" : "bad-universe empty-is-none");
                continue;
            } else if (op == "spawn" && t.size() == 1) {
                if (g_objs.size() >= g_max) { say("bad-op"); continue; }
                g_objs.emplace_back(new SimpleEntity);
                r = "sp=" + std::to_string(g_objs.size());
            } else if (op == "setname" && t.size() == 3) {
                bool ok; Listener* l = liveObj(t[1], false, ok); StringResolvable nm;
                if (!ok || !nameOf(t[2], nm)) { say("bad-op"); continue; }
                static_cast<SimpleEntity*>(l)->GetTargetComponent().SetTargetName(nm);
                r = "-";
            } else if (op == "delete" && t.size() == 2) {
                bool ok; Listener* l = liveObj(t[1], false, ok);
                if (!ok) { say("bad-op"); continue; }
                delete l;
                r = "-";
            } else if (op == "gettarget" && t.size() == 2) {
                const_str nm;
                if (!queryName(t[1], nm)) { say("bad-op"); continue; }
                try {
                    r = "r=" + std::to_string(idOf(g_ctx->GetTargetList().GetTarget(nm)));
                } catch (const TargetListErrors::MultipleTargetsException& e) {
                    r = "r=multi:" + std::to_string(e.GetNumTargets());
                }
            } else if (op == "getnext" && t.size() == 3) {
                bool ok; Listener* l = liveObj(t[1], true, ok); const_str nm;
                if (!ok || !queryName(t[2], nm)) { say("bad-op"); continue; }
                r = "r=" + std::to_string(idOf(g_ctx->GetTargetList().GetNextTarget(l, nm)));
            } else if (op == "index" && t.size() == 3) {
                bool ok; Listener* l = liveObj(t[1], false, ok); const_str nm;
                if (!ok || !queryName(t[2], nm)) { say("bad-op"); continue; }
                r = "r=" + std::to_string(g_ctx->GetTargetList().GetTargetnameIndex(*l, nm));
            } else if (op == "s" && t.size() >= 4 && t[2] == "##") {
                const std::string src = unhex(t[1]);
                const std::string name = "c" + std::to_string(++g_scriptNo);
                imemstream stream(src.data(), src.size());
                const ProgramScript* s = g_ctx->GetDirector().GetProgramScript(name.c_str(), stream, true);
                if (!s || !s->IsCompileSuccess()) { say("err CompileFailed " + takeOut()); continue; }
                Event ev;
                g_ctx->GetDirector().ExecuteThread(s, ev, "main");
                syncObjects();
                r = "out=" + takeOut();
            } else {
                say("bad-op");
                continue;
            }
        } catch (const std::exception& e) {
            say(std::string("err exception ") + e.what());
            continue;
        }
        say("ok " + r + " " + dump());
    }
    dropContext();
    return 0;
}
