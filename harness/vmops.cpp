// Operator-level correspondence harness for C04 (area VMOps): every line runs ONE operator / cast /
// index function of the REAL mfuse::ScriptVariable on operands written in the line and prints
//   ok <value>            the result (the left operand after an in-place operator)
//   err <Class> <value>   the exception class that left the call and the left operand afterwards
// Undefined behaviour shows as a sanitizer abort / signal of this process (a CRASH observation).
//
// value syntax (no spaces):  nil | i:<int64> | f:<8 hex bits> | c:<0..255> | s:<hex> | k:<hex> |
//   l:<n> (live listener n in 1..4, 0 = NULL pointer) | d:<n> (listener variable whose object was deleted) |
//   v:<bits>/<bits>/<bits> | A{k=v;...} | C{v;...} | T{n;...} (raw listener container) |
//   S{n;...} (safe container) | S! (safe container whose list object is gone) | P (pointer) | R<value>
// fixed universe: listeners 1..4; target name "t1" -> {1}, "t2" -> {2,3}.
#include <morfuse/Script/Context.h>
#include <morfuse/Script/ScriptVariable.h>
#include <morfuse/Script/ScriptException.h>
#include <morfuse/Script/ScriptVM.h>
#include <morfuse/Script/Listener.h>
#include <morfuse/Script/TargetList.h>
#include <morfuse/Script/StateScript.h>
#include <morfuse/Common/OutputInfo.h>
#include "lineio.h"

#include <algorithm>
#include <cstring>
#include <cmath>
#include <memory>
#include <sstream>
#include <typeinfo>
#include <cxxabi.h>

using namespace mfuse;

namespace {
std::unique_ptr<ScriptContext> g_ctx;
Listener* g_listeners[5] = { nullptr, nullptr, nullptr, nullptr, nullptr };
std::vector<std::unique_ptr<ScriptVariable>> g_keep;          // referents of R<...>
std::vector<std::unique_ptr<ConTarget>> g_containers;         // referents of T{...}
std::vector<ConList*> g_lists;                                 // referents of S{...}

struct ParseError {};

int hexv(char c)
{
    if (c >= '0' && c <= '9') return c - '0';
    if (c >= 'a' && c <= 'f') return c - 'a' + 10;
    if (c >= 'A' && c <= 'F') return c - 'A' + 10;
    throw ParseError();
}

std::string unhex(const std::string& h)
{
    if (h.size() % 2) throw ParseError();
    std::string s;
    for (size_t i = 0; i + 1 < h.size(); i += 2) s.push_back(char(hexv(h[i]) * 16 + hexv(h[i + 1])));
    return s;
}

std::string hex(const char* p, size_t n)
{
    static const char* d = "0123456789abcdef";
    std::string r;
    for (size_t i = 0; i < n; ++i) { r += d[(unsigned char)p[i] >> 4]; r += d[(unsigned char)p[i] & 15]; }
    return r;
}

uint32_t hex32(const std::string& s, size_t& i)
{
    if (i + 8 > s.size()) throw ParseError();
    uint32_t v = 0;
    for (int k = 0; k < 8; ++k) v = v * 16 + hexv(s[i++]);
    return v;
}

float bitsToFloat(uint32_t b) { float f; std::memcpy(&f, &b, 4); return f; }
std::string floatTok(float f)
{
    if (f != f) return "nan";
    uint32_t b; std::memcpy(&b, &f, 4);
    char buf[16]; snprintf(buf, sizeof buf, "%08x", b);
    return buf;
}

int64_t parseInt(const std::string& s, size_t& i)
{
    size_t j = i;
    if (j < s.size() && s[j] == '-') ++j;
    size_t d0 = j;
    while (j < s.size() && s[j] >= '0' && s[j] <= '9') ++j;
    if (j == d0 || j - d0 > 19) throw ParseError();
    const std::string t = s.substr(i, j - i);
    errno = 0;
    const long long v = std::strtoll(t.c_str(), nullptr, 10);
    if (errno) throw ParseError();
    i = j;
    return v;
}

std::string hexRun(const std::string& s, size_t& i)
{
    size_t j = i;
    while (j < s.size() && std::isxdigit((unsigned char)s[j])) ++j;
    std::string r = unhex(s.substr(i, j - i));
    i = j;
    return r;
}

Listener* listenerById(int64_t n)
{
    if (n == 0) return nullptr;
    if (n < 1 || n > 4) throw ParseError();
    return g_listeners[n];
}

void parseValue(const std::string& s, size_t& i, ScriptVariable& out, int depth = 0);

void parseValue(const std::string& s, size_t& i, ScriptVariable& out, int depth)
{
    if (depth > 4 || i >= s.size()) throw ParseError();
    auto expect = [&](char c) { if (i >= s.size() || s[i] != c) throw ParseError(); ++i; };
    if (s.compare(i, 3, "nil") == 0) { i += 3; out.Clear(); return; }
    const char t = s[i];
    if (t == 'R') {
        ++i;
        g_keep.emplace_back(new ScriptVariable);
        ScriptVariable* target = g_keep.back().get();
        parseValue(s, i, *target, depth + 1);
        out.setRefValue(target);
        return;
    }
    if (t == 'P') { ++i; out.Clear(); out.newPointer(); return; }
    if (t == 'A') {
        ++i; expect('{');
        // an empty array holder is what `local.a[1] = NIL` creates from a none variable
        ScriptVariable idx0(int32_t(0)), nil;
        out.Clear();
        out.setArrayAtRef(idx0, nil);
        while (i < s.size() && s[i] != '}') {
            ScriptVariable k, v;
            parseValue(s, i, k, depth + 1);
            expect('=');
            parseValue(s, i, v, depth + 1);
            if (k.GetType() != variableType_e::Integer && k.GetType() != variableType_e::String &&
                k.GetType() != variableType_e::ConstString && k.GetType() != variableType_e::Listener) throw ParseError();
            if (v.GetType() == variableType_e::None) throw ParseError();
            out.setArrayAtRef(k, v);
            if (i < s.size() && s[i] == ';') ++i;
        }
        expect('}');
        return;
    }
    if (t == 'C') {
        ++i; expect('{');
        std::vector<std::unique_ptr<ScriptVariable>> elems;
        while (i < s.size() && s[i] != '}') {
            elems.emplace_back(new ScriptVariable);
            parseValue(s, i, *elems.back(), depth + 1);
            if (i < s.size() && s[i] == ';') ++i;
        }
        expect('}');
        ScriptVariable* p = out.createConstArrayValue(elems.size());
        for (size_t k = 0; k < elems.size(); ++k) p[k] = *elems[k];
        return;
    }
    if (t == 'T') {
        ++i; expect('{');
        g_containers.emplace_back(new ConTarget);
        ConTarget* c = g_containers.back().get();
        while (i < s.size() && s[i] != '}') {
            c->AddObject(SafePtr<Listener>(listenerById(parseInt(s, i))));
            if (i < s.size() && s[i] == ';') ++i;
        }
        expect('}');
        out.setContainerValue(c);
        return;
    }
    if (t == 'S') {
        ++i;
        if (i < s.size() && s[i] == '!') {
            ++i;
            ConList* l = new ConList;
            out.setSafeContainerValue(l);
            delete l;                       // the SafePtr inside the variable is now null
            return;
        }
        expect('{');
        ConList* l = new ConList;
        g_lists.push_back(l);
        while (i < s.size() && s[i] != '}') {
            l->AddObject(SafePtr<Listener>(listenerById(parseInt(s, i))));
            if (i < s.size() && s[i] == ';') ++i;
        }
        expect('}');
        out.setSafeContainerValue(l);
        return;
    }
    if (i + 1 >= s.size() || s[i + 1] != ':') throw ParseError();
    i += 2;
    switch (t) {
    case 'i': out.setLongValue((uint64_t)parseInt(s, i)); return;
    case 'f': out.setFloatValue(bitsToFloat(hex32(s, i))); return;
    case 'c': { const int64_t v = parseInt(s, i); if (v < 0 || v > 255) throw ParseError(); out.setCharValue((char)v); return; }
    case 's': out.setStringValue(str(hexRun(s, i).c_str())); return;
    case 'k': out.setConstStringValue(g_ctx->GetDirector().GetDictionary().Add(hexRun(s, i).c_str())); return;
    case 'l': out.setListenerValue(listenerById(parseInt(s, i))); return;
    case 'd': {
        parseInt(s, i);
        Listener* tmp = new Listener;
        out.setListenerValue(tmp);
        delete tmp;
        return; }
    case 'v': {
        float f[3];
        f[0] = bitsToFloat(hex32(s, i)); expect('/');
        f[1] = bitsToFloat(hex32(s, i)); expect('/');
        f[2] = bitsToFloat(hex32(s, i));
        out.setVectorValue(Vector(f[0], f[1], f[2]));
        return; }
    default: throw ParseError();
    }
}

std::string showListener(const Listener* l)
{
    if (!l) return "l:0";
    for (int k = 1; k <= 4; ++k) if (g_listeners[k] == l) return "l:" + std::to_string(k);
    return "l:?";
}

std::string show(const ScriptVariable& v, int depth = 0)
{
    if (depth > 6) return "...";
    const scriptData_u d = v.GetData();
    switch (v.GetType()) {
    case variableType_e::None: return "nil";
    case variableType_e::Integer: return "i:" + std::to_string((long long)d.long64Value);
    case variableType_e::Float: return "f:" + floatTok(d.floatValue);
    case variableType_e::Char: return "c:" + std::to_string((unsigned)(unsigned char)d.charValue);
    case variableType_e::String: return "s:" + (d.stringValue ? hex(d.stringValue->c_str(), d.stringValue->length()) : std::string("<null>"));
    case variableType_e::ConstString: {
        const str& t = g_ctx->GetDirector().GetDictionary().Get(d.constStringValue);
        return "k:" + hex(t.c_str(), t.length()); }
    case variableType_e::Listener: return showListener(d.listenerValue ? d.listenerValue->Pointer() : nullptr);
    case variableType_e::Vector: return "v:" + floatTok(d.vectorValue[0]) + "/" + floatTok(d.vectorValue[1]) + "/" + floatTok(d.vectorValue[2]);
    case variableType_e::Ref: return d.refValue == &v ? std::string("Rself") : "R" + show(*d.refValue, depth + 1);
    case variableType_e::Pointer: return "P";
    case variableType_e::Array: {
        std::vector<std::string> items;
        con::set_enum<ScriptVariable, ScriptVariable> en(d.arrayValue->arrayValue.m_set);
        for (const con::Entry<ScriptVariable, ScriptVariable>* e = en.NextElement(); e; e = en.NextElement())
            items.push_back(show(e->Key(), depth + 1) + "=" + show(e->Value(), depth + 1));
        std::sort(items.begin(), items.end());
        std::string r = "A{";
        for (size_t k = 0; k < items.size(); ++k) r += (k ? ";" : "") + items[k];
        return r + "}"; }
    case variableType_e::ConstArray: {
        std::string r = "C{";
        for (size_t k = 1; k <= d.constArrayValue->size; ++k) r += (k > 1 ? ";" : "") + show(d.constArrayValue->constArrayValue[k], depth + 1);
        return r + "}"; }
    case variableType_e::Container: {
        std::string r = "T{";
        for (size_t k = 1; k <= d.containerValue->NumObjects(); ++k) r += (k > 1 ? ";" : "") + showListener(d.containerValue->ObjectAt(k)).substr(2);
        return r + "}"; }
    case variableType_e::SafeContainer: {
        const ConList* l = *d.safeContainerValue;
        if (!l) return "S!";
        std::string r = "S{";
        for (size_t k = 1; k <= l->NumObjects(); ++k) r += (k > 1 ? ";" : "") + showListener(l->ObjectAt(k)).substr(2);
        return r + "}"; }
    default: return "?";
    }
}

std::string showSorted(const ScriptVariable& v)
{
    const scriptData_u d = v.GetData();
    std::vector<std::string> items;
    for (size_t k = 1; k <= d.constArrayValue->size; ++k) items.push_back(show(d.constArrayValue->constArrayValue[k], 1));
    std::sort(items.begin(), items.end());
    std::string r = "C{";
    for (size_t k = 0; k < items.size(); ++k) r += (k ? ";" : "") + items[k];
    return r + "}";
}

std::string className(const std::exception& e)
{
    int st = 0;
    char* n = abi::__cxa_demangle(typeid(e).name(), nullptr, nullptr, &st);
    std::string r = n ? n : typeid(e).name();
    std::free(n);
    const std::string p = "mfuse::";
    if (r.compare(0, p.size(), p) == 0) r = r.substr(p.size());
    return r;
}

// which base the exception is caught as by ScriptVM::Execute: W = warning (ScriptExceptionBase),
// A = abort kind, X = anything else (leaves the host call as a foreign std::exception)
char catchClass(const std::exception& e)
{
    if (dynamic_cast<const ScriptExceptionBase*>(&e)) return 'W';
    if (dynamic_cast<const ScriptAbortExceptionBase*>(&e)) return 'A';
    return 'X';
}

void setup()
{
    EventSystem::Get();
    g_ctx.reset(new ScriptContext);
    g_ctx->EventContext::Set(g_ctx.get());
    for (int k = 1; k <= 4; ++k) g_listeners[k] = new Listener;
    StringDictionary& dict = g_ctx->GetDirector().GetDictionary();
    TargetList& tl = g_ctx->GetTargetList();
    tl.AddListener(*g_listeners[1], dict.Add("t1"));
    tl.AddListener(*g_listeners[2], dict.Add("t2"));
    tl.AddListener(*g_listeners[3], dict.Add("t2"));
}

void cleanupLine()
{
    g_keep.clear();
    g_containers.clear();
    for (ConList* l : g_lists) delete l;
    g_lists.clear();
}

typedef void (ScriptVariable::*BinOp)(const ScriptVariable&);

struct BinEntry { const char* name; BinOp fn; };
const BinEntry binOps[] = {
    { "add", &ScriptVariable::operator+= }, { "sub", &ScriptVariable::operator-= }, { "mul", &ScriptVariable::operator*= },
    { "div", &ScriptVariable::operator/= }, { "mod", &ScriptVariable::operator%= }, { "and", &ScriptVariable::operator&= },
    { "xor", &ScriptVariable::operator^= }, { "or", &ScriptVariable::operator|= }, { "shl", &ScriptVariable::operator<<= },
    { "shr", &ScriptVariable::operator>>= }, { "gt", &ScriptVariable::greaterthan }, { "ge", &ScriptVariable::greaterthanorequal },
    { "lt", &ScriptVariable::lessthan }, { "le", &ScriptVariable::lessthanorequal }, { "evalat", &ScriptVariable::evalArrayAt },
};

std::string run(const std::vector<std::string>& t)
{
    const std::string& op = t[0];
    ScriptVariable a, b, c;
    std::vector<ScriptVariable*> vs = { &a, &b, &c };
    if (t.size() < 2 || t.size() > 4) return "bad-op";
    try {
        for (size_t k = 1; k < t.size(); ++k) {
            size_t i = 0;
            parseValue(t[k], i, *vs[k - 1]);
            if (i != t[k].size()) return "bad-op";
        }
    } catch (const ParseError&) {
        return "bad-op";
    }
    const size_t n = t.size() - 1;
    std::string res;
    try {
        bool done = false;
        if (n == 2) {
            for (const BinEntry& e : binOps) {
                if (op == e.name) { (a.*e.fn)(b); res = "ok " + show(a); done = true; break; }
            }
        }
        if (done) {}
        else if (op == "eq" && n == 2) res = std::string("ok i:") + ((a == b) ? "1" : "0");
        else if (op == "ne" && n == 2) res = std::string("ok i:") + ((a != b) ? "1" : "0");
        else if (op == "assign" && n == 2) { a = b; res = "ok " + show(a); }
        else if (op == "minus" && n == 1) { a.minus(); res = "ok " + show(a); }
        else if (op == "compl" && n == 1) { a.complement(); res = "ok " + show(a); }
        else if (op == "inc" && n == 1) { a++; res = "ok " + show(a); }
        else if (op == "dec" && n == 1) { a--; res = "ok " + show(a); }
        else if (op == "size" && n == 1) { a.setLongValue((uintptr_t)a.size()); res = "ok " + show(a); }
        else if (op == "arraysize" && n == 1) res = "ok i:" + std::to_string((long long)a.arraysize());
        else if (op == "bool" && n == 1) { a.CastBoolean(); res = "ok " + show(a); }
        else if (op == "boolv" && n == 1) res = std::string("ok i:") + (a.booleanValue() ? "1" : "0");
        else if (op == "boolnum" && n == 1) res = std::string("ok i:") + (a.booleanNumericValue() ? "1" : "0");
        else if (op == "int" && n == 1) res = "ok i:" + std::to_string((unsigned long long)a.intValue());
        else if (op == "long" && n == 1) res = "ok i:" + std::to_string((long long)a.longValue());
        else if (op == "float" && n == 1) res = "ok f:" + floatTok(a.floatValue());
        else if (op == "char" && n == 1) res = "ok c:" + std::to_string((unsigned)(unsigned char)a.charValue());
        else if (op == "str" && n == 1) { const str s = a.stringValue(); res = "ok s:" + hex(s.c_str(), s.length()); }
        else if (op == "listener" && n == 1) res = "ok " + showListener(a.listenerValue());
        else if (op == "vector" && n == 1) { const Vector v = a.vectorValue(); res = "ok v:" + floatTok(v.x) + "/" + floatTok(v.y) + "/" + floatTok(v.z); }
        else if (op == "cint" && n == 1) { a.CastInteger(); res = "ok " + show(a); }
        else if (op == "cfloat" && n == 1) { a.CastFloat(); res = "ok " + show(a); }
        else if (op == "cstr" && n == 1) { a.CastString(); res = "ok " + show(a); }
        else if (op == "carr" && n == 1) {
            const bool hashed = a.GetType() == variableType_e::Array;
            a.CastConstArrayValue();
            res = "ok " + (hashed ? showSorted(a) : show(a));
        }
        else if (op == "targets" && n == 1) {
            // the listener enumeration of ScriptVM::ExecCmdMethodCommon (ScriptVMOperation.cpp)
            const bool hashed = a.GetType() == variableType_e::Array;
            const size_t arraysize = a.arraysize();
            std::vector<std::string> items;
            if (arraysize == (size_t)-1) throw ScriptVMErrors::NilListenerCommand(0);
            if (arraysize > 1) {
                ScriptVariable array = a;
                array.CastConstArrayValue();
                if (a.IsConstArray()) { for (uintptr_t i = 1; i <= arraysize; i++) items.push_back(showListener(array.listenerAt(i))); }
                else { for (uintptr_t i = array.arraysize(); i > 0; i--) items.push_back(showListener(array.listenerAt(i))); }
            } else {
                items.push_back(showListener(a.listenerValue()));
            }
            if (hashed) std::sort(items.begin(), items.end());
            res = "ok C{";
            for (size_t k = 0; k < items.size(); ++k) res += (k ? ";" : "") + items[k];
            res += "}";
        }
        else if (op == "typename" && n == 1) { const char* s = a.GetTypeName(); res = "ok s:" + hex(s, strlen(s)); }
        else if (op == "listenerat" && n == 2 && b.GetType() == variableType_e::Integer) res = "ok " + showListener(a.listenerAt((uintptr_t)b.GetData().long64Value));
        else if (op == "index" && n == 2) { const ScriptVariable& ca = a; res = "ok " + show(ca[b]); }
        else if (op == "setat" && n == 3) {
            // OP_LOAD_ARRAY_VAR: the stack holds a reference to the indexed variable
            ScriptVariable ref; ref.setRefValue(&a);
            ref.setArrayAt(b, c);
            res = "ok " + show(a);
        }
        else if (op == "setref" && n == 2) {
            // OP_STORE_ARRAY_REF: reference re-aimed at the element (created when missing)
            ScriptVariable ref; ref.setRefValue(&a);
            ref.setArrayRefValue(b);
            res = "ok " + show(a) + " " + show(ref);
        }
        else if (op == "calcvec" && n == 3) { a.setVectorValue(Vector(a.floatValue(), b.floatValue(), c.floatValue())); res = "ok " + show(a); }
        else return "bad-op";
    } catch (const std::exception& e) {
        res = std::string("err ") + catchClass(e) + " " + className(e) + " " + show(a);
    }
    return res;
}
}

int main()
{
    setup();
    std::vector<std::string> t;
    while (readTokens(t)) {
        if (t.empty()) { say("bad-op"); continue; }
        std::string r;
        try { r = run(t); } catch (const ParseError&) { r = "bad-op"; }
        say(r);
        cleanupLine();
    }
    // orderly teardown while the allocators still exist (static destruction order is unspecified)
    for (int k = 1; k <= 4; ++k) { delete g_listeners[k]; g_listeners[k] = nullptr; }
    g_ctx.reset();
    return 0;
}
