import MorfuseModel.Archive.Value
import MorfuseModel.Archive.Dict
import MorfuseModel.Archive.Tables
import Driver.Util
/-! driver for the Archive model (properties C10, C11).

A case is `classes <hex>…` (the class registry of the build, in `ClassDef` list order), then
`arc <version> <header-hex> <name-hex> <items…>` (a typed write sequence), then any number of
`t k` / `s pos byte` / `tall` / `sx pos` / `layout` lines about the archive just written.

items (prefix notation): `p <prim> <nat>` | `r <hex>` | `s <hex>` | `op <lbl>` | `sp <lbl>` |
`pos <lbl>` | `obj <lbl> <classname-hex> <n> <n items>` (read back with `ArchiveObject`; `objt`: with `ReadObject<T>()`;
`objp`: with the polymorphic `ReadObject()`) | `v <self> <value>`;  `-` is the empty byte string.
values: `n` | `i <nat>` | `f <nat>` | `c <nat>` | `s <hex>` | `k0` | `k <hex>` | `vec <hex>` | `l <lbl>` (Listener) |
`ref <lbl>` (Ref to a variable) | `con <lbl>` | `scon <lbl>` (Container / SafeContainer) |
`ca <holder> <refcount> <n> (<self> <value>)*n` | `car <holder>` |
`arr <holder> <refcount> <tableLength> <threshold> <tableLengthIndex> <n> <perm>*n (<kself> <key> <vself> <value>)*n`
(entries in insertion order; `perm` = the order in which the writer's table walk visits them) | `aref <holder>` |
`ptr <cell> <n> <variable>*n` | `pref <cell>`.
Read-backs print elements without `<self>`, arrays without `perm` and with the entries sorted by key text. -/
namespace Driver.Archive
open Morfuse.Archive

def hexVal (c : Char) : Option Nat :=
  if '0' ≤ c ∧ c ≤ '9' then some (c.toNat - '0'.toNat)
  else if 'a' ≤ c ∧ c ≤ 'f' then some (c.toNat - 'a'.toNat + 10)
  else none

def bytes? (t : String) : Option Bytes :=
  if t = "-" then some [] else
  let rec go : List Char → List UInt8 → Option Bytes
    | [], acc => some acc.reverse
    | [_], _ => none
    | a :: b :: r, acc =>
      match hexVal a, hexVal b with
      | some x, some y => go r (UInt8.ofNat (x * 16 + y) :: acc)
      | _, _ => none
  if t.isEmpty then none else go t.toList []

def hexDigit (n : Nat) : Char := if n < 10 then Char.ofNat (48 + n) else Char.ofNat (87 + n)

def toHex (bs : Bytes) : String :=
  if bs.isEmpty then "-" else
  String.ofList (bs.flatMap fun b => [hexDigit (b.toNat / 16), hexDigit (b.toNat % 16)])

def primOf? : String → Option Prim
  | "i8" => some .i8 | "i16" => some .i16 | "i32" => some .i32 | "i64" => some .i64
  | "u8" => some .u8 | "u16" => some .u16 | "u32" => some .u32 | "u64" => some .u64
  | "chr" => some .chr | "size" => some .size | "byte" => some .byte | "f32" => some .f32
  | "f64" => some .f64 | "bool" => some .bool | "pos" => some .pos
  | _ => none

def primName : Prim → String
  | .i8 => "i8" | .i16 => "i16" | .i32 => "i32" | .i64 => "i64"
  | .u8 => "u8" | .u16 => "u16" | .u32 => "u32" | .u64 => "u64"
  | .chr => "chr" | .size => "size" | .byte => "byte" | .f32 => "f32"
  | .f64 => "f64" | .bool => "bool" | .pos => "pos"

mutual
partial def parseItem : List String → Option (Item × List String)
  | "p" :: p :: v :: r => do
    let p ← primOf? p
    let v ← v.toNat?
    if v < 256 ^ p.width then some (.prim p v, r) else none
  | "r" :: h :: r => do some (.raw (← bytes? h), r)
  | "s" :: h :: r => do some (.str (← bytes? h), r)
  | "op" :: l :: r => do some (.ptr false (← l.toNat?), r)
  | "sp" :: l :: r => do some (.ptr true (← l.toNat?), r)
  | "pos" :: l :: r => do some (.position (← l.toNat?), r)
  | "obj" :: l :: c :: n :: r => do
    let (body, r') ← parseN (← n.toNat?) r
    some (.object .into (← l.toNat?) (← bytes? c) body, r')
  | "objt" :: l :: c :: n :: r => do
    let (body, r') ← parseN (← n.toNat?) r
    some (.object .typed (← l.toNat?) (← bytes? c) body, r')
  | "objp" :: l :: c :: n :: r => do
    let (body, r') ← parseN (← n.toNat?) r
    some (.object .poly (← l.toNat?) (← bytes? c) body, r')
  | _ => none
partial def parseN : Nat → List String → Option (List Item × List String)
  | 0, r => some ([], r)
  | n + 1, r => do
    let (i, r1) ← parseItem r
    let (is, r2) ← parseN n r1
    some (i :: is, r2)
end

mutual
partial def parseValue : List String → Option (Value × List String)
  | "n" :: r => some (.none, r)
  | "i" :: v :: r => do let v ← v.toNat?; if v < 2 ^ 64 then some (.int v, r) else none
  | "f" :: v :: r => do let v ← v.toNat?; if v < 2 ^ 32 then some (.float v, r) else none
  | "c" :: v :: r => do let v ← v.toNat?; if v < 256 then some (.char v, r) else none
  | "s" :: h :: r => do some (.string (← bytes? h), r)
  | "k0" :: r => some (.constString none, r)
  | "k" :: h :: r => do some (.constString (some (← bytes? h)), r)
  | "vec" :: h :: r => do let b ← bytes? h; if b.length = 12 then some (.vector b, r) else none
  | "l" :: l :: r => do some (.link 6 true (← l.toNat?), r)
  | "ref" :: l :: r => do some (.link 7 false (← l.toNat?), r)
  | "con" :: l :: r => do some (.link 10 false (← l.toNat?), r)
  | "scon" :: l :: r => do some (.link 11 true (← l.toNat?), r)
  | "car" :: h :: r => do some (.holderRef 9 (← h.toNat?), r)
  | "aref" :: h :: r => do some (.holderRef 8 (← h.toNat?), r)
  | "pref" :: h :: r => do some (.holderRef 12 (← h.toNat?), r)
  | "ptr" :: p :: n :: r => do
    let n ← n.toNat?
    if r.length < n then none else
    some (.pointer (← p.toNat?) (← (r.take n).mapM String.toNat?), r.drop n)
  | "arr" :: h :: rc :: tl :: th :: tli :: n :: r => do
    -- entries in insertion order (what the harness does), preceded by the order of the writer's table walk
    let n ← n.toNat?
    if r.length < n then none else
    let perm ← (r.take n).mapM String.toNat?
    let (es, r') ← parseElems (2 * n) (r.drop n)
    let pairs := (List.range n).map fun i => (es.getD (2 * i) (0, .none), es.getD (2 * i + 1) (0, .none))
    if perm.any (· ≥ n) then none else
    let walk := perm.flatMap fun i => match pairs[i]? with | some (k, v) => [k, v] | none => []
    some (.array (← h.toNat?) (← rc.toNat?) (← tl.toNat?) (← th.toNat?) (← tli.toNat?) walk, r')
  | "ca" :: h :: rc :: n :: r => do
    let (es, r') ← parseElems (← n.toNat?) r
    some (.constArray (← h.toNat?) (← rc.toNat?) es, r')
  | _ => none
partial def parseElems : Nat → List String → Option (List (Lbl × Value) × List String)
  | 0, r => some ([], r)
  | n + 1, l :: r => do
    let (v, r1) ← parseValue r
    let (es, r2) ← parseElems n r1
    some ((← l.toNat?, v) :: es, r2)
  | _, _ => none
end

def lisClass' : Bytes := [76, 105, 115, 116, 101, 110, 101, 114]

/-- the top-level calls of a line, each with the schema the reading host uses for it: a `vl` group is read
    count-directed (`.vars`), a real Listener record flag-directed (`.lobj`), everything else as `schemaW` says -/
partial def parseAll (r : List String) : Option (List (List WItem × List WSch)) :=
  match r with
  | [] => some []
  | "v" :: self :: r => do
    let (v, r1) ← parseValue r
    let is ← parseAll r1
    some (([.value (← self.toNat?) v], schemaW [.value (← self.toNat?) v]) :: is)
  | "nv" :: self :: key :: r => do
    -- a named variable (`ScriptVariable::Archive`): `<self> <name-hex | ->`, then the value
    let (v, r1) ← parseValue r
    let is ← parseAll r1
    let k ← if key = "-" then some none else (bytes? key).map some
    some (([.named (← self.toNat?) k v], schemaW [.named (← self.toNat?) k v]) :: is)
  | "vl" :: tl :: th :: tli :: n :: r => do
    -- `ScriptVariableList::Archive` = `con::set<const_str, ScriptVariable>::Archive`: the header numbers, then
    -- `ScriptVariable::Archive` of every entry in the order of the writer's walk (`perm` over the insertion order)
    let n ← n.toNat?
    if r.length < n then none else
    let perm ← (r.take n).mapM String.toNat?
    let rec entries : Nat → List String → Option (List WItem × List String)
      | 0, r => some ([], r)
      | k + 1, self :: key :: r => do
        let (v, r1) ← parseValue r
        let (es, r2) ← entries k r1
        let k ← if key = "-" then some none else (bytes? key).map some
        some (.named (← self.toNat?) k v :: es, r2)
      | _, _ => none
    let (es, r1) ← entries n (r.drop n)
    if perm.any (· ≥ n) then none else
    let walk := perm.filterMap fun i => es[i]?
    let is ← parseAll r1
    let specs := walk.filterMap fun w => match w with | .named s _ v => some (s, supplyOf v) | _ => none
    some (([.item (.prim .u32 (← tl.toNat?)), .item (.prim .u32 (← th.toNat?)), .item (.prim .u32 n),
            .item (.prim .u16 (← tli.toNat?))] ++ walk, [.vars specs]) :: is)
  | r => do
    let (i, r1) ← parseItem r
    let is ← parseAll r1
    match i with
    | .object m o cls [.prim .u8 _] =>
      if cls = lisClass' then some (([.item i], [.lobj m o cls]) :: is)
      else some (([.item i], schemaW [.item i]) :: is)
    | _ => some (([.item i], schemaW [.item i]) :: is)

mutual
partial def showItem : Item → String
  | .prim p v => s!"p {primName p} {v}"
  | .raw bs => s!"r {toHex bs}"
  | .str bs => s!"s {toHex bs}"
  | .ptr false l => s!"op {l}"
  | .ptr true l => s!"sp {l}"
  | .position l => s!"pos {l}"
  | .object m l c body => s!"{match m with | .into => "obj" | .typed => "objt" | .poly => "objp"} {l} {toHex c} {body.length}" ++ (if body.isEmpty then "" else " " ++ showItems body)
partial def showItems (l : List Item) : String := " ".intercalate (l.map showItem)
end

/-- a hash array as read back: the entries sorted by the text of their key (the reader's own table order is not
    the writer's); an entry that a look-up under its own key does not find is shown as `lost:<key>` — the harness
    gives the listener of label `L` an address with `address % 7 = L % 6 + 1` -/
def showArr (h rc tl th tli : Nat) (keys : List Value) (rendered : List String) : String :=
  let rec pairs : List Value → List String → List (Value × String × String)
    | kv :: _ :: ks, k :: v :: r => (kv, k, v) :: pairs ks r
    | _, _ => []
  let ps := ((pairs keys rendered).toArray.qsort fun a b => a.2.1 < b.2.1).toList
  let show1 := fun (e : Value × String × String) =>
    (if foundAfterLoad Morfuse.Gen.Archive.arrayRefiled (fun _ => 0) (fun o => o % 6 + 1) tl e.1 then "" else "lost:") ++ e.2.1 ++ " " ++ e.2.2
  s!"arr {h} {rc} {tl} {th} {tli} {ps.length}" ++ (if ps.isEmpty then "" else " " ++ " ".intercalate (ps.map show1))

mutual
partial def showValue : Value → String
  | .none => "n"
  | .int v => s!"i {v}"
  | .float v => s!"f {v}"
  | .char v => s!"c {v}"
  | .string bs => s!"s {toHex bs}"
  | .constString none => "k0"
  | .constString (some bs) => s!"k {toHex bs}"
  | .vector bs => s!"vec {toHex bs}"
  | .link c _ l => s!"{match c with | 6 => "l" | 7 => "ref" | 10 => "con" | _ => "scon"} {l}"
  | .holderRef c h => s!"{match c with | 8 => "aref" | 9 => "car" | _ => "pref"} {h}"
  | .pointer p vs => s!"ptr {p} {vs.length}" ++ (if vs.isEmpty then "" else " " ++ " ".intercalate (vs.map toString))
  | .array h rc tl th tli es => showArr h rc tl th tli (es.map (·.2)) (es.map fun (_, v) => showValue v)
  | .constArray h rc es => s!"ca {h} {rc} {es.length}" ++ (if es.isEmpty then "" else " " ++ " ".intercalate (es.map fun (_, v) => showValue v))
end

def showW : WItem → String
  | .item i => showItem i
  | .value s v => s!"v {s} {showValue v}"
  | .named s k v => s!"nv {s} {match k with | some b => toHex b | none => "-"} {showValue v}"

def showWs (l : List WItem) : String := " ".intercalate (l.map showW)

/-! read-backs: a ConstString value is printed as the text its `const_str` denotes in the reading dictionary
    (what the harness prints: `dictionary.Get(id)`), ids taken in load order -/
mutual
partial def showValueD (d : Dict) : Value → List Nat → String × List Nat
  | .constString (some _), ids =>
    match ids with
    | i :: r => ((match d.text i with | some bs => s!"k {toHex bs}" | none => "k0"), r)
    | [] => ("k?", [])
  | .constArray h rc es, ids =>
    let r := showElemsD d es ids
    (s!"ca {h} {rc} {es.length}" ++ (if es.isEmpty then "" else " " ++ " ".intercalate r.1), r.2)
  | .array h rc tl th tli es, ids =>
    let r := showElemsD d es ids
    (showArr h rc tl th tli (es.map (·.2)) r.1, r.2)
  | v, ids => (showValue v, ids)
partial def showElemsD (d : Dict) : List (Lbl × Value) → List Nat → List String × List Nat
  | [], ids => ([], ids)
  | (_, v) :: es, ids =>
    let a := showValueD d v ids
    let b := showElemsD d es a.2
    (a.1 :: b.1, b.2)
end

partial def showWsD (d : Dict) : List WItem → List Nat → List String
  | [], _ => []
  | .item i :: ws, ids => showItem i :: showWsD d ws ids
  | .value s v :: ws, ids =>
    let a := showValueD d v ids
    s!"v {s} {a.1}" :: showWsD d ws a.2
  | .named s none v :: ws, ids =>
    let a := showValueD d v ids
    s!"nv {s} - {a.1}" :: showWsD d ws a.2
  | .named s (some _) v :: ws, ids =>
    -- the name is the text its `const_str` denotes in the reading dictionary
    let (name, ids) := match ids with
      | i :: r => ((match d.text i with | some bs => toHex bs | none => "-"), r)
      | [] => ("?", [])
    let a := showValueD d v ids
    s!"nv {s} {name} {a.1}" :: showWsD d ws a.2

def showLoaded (L : Loaded) : String := " ".intercalate (showWsD L.dict L.items L.ids)

def errName : Err → String
  | .invalidHeader => "InvalidArchiveHeader" | .wrongVersion => "WrongVersion" | .typeError => "TypeError"
  | .invalidClass => "InvalidClass" | .objectClassError => "ObjectClassError"
  | .readPastEnd => "ReadPastEndObject" | .notReadEntire => "NotReadEntireDataObject"
  | .streamFail => "ReadStreamFail" | .invalidIndex => "InvalidObjectIndex"
  | .uninit => "UB:uninit" | .oob => "UB:oob" | .alloc => "UB:alloc" | .badHash => "std::exception"

def pcName : PC → String
  | .hdr => "hdr" | .tag => "tag" | .ver => "ver" | .size => "size" | .cls => "cls" | .pcls => "pcls" | .len => "len"
  | .name => "name" | .ncls => "ncls" | .idx => "idx" | .data => "data"

/-- FNV-1a (32 bit) of the characters; short stand-in for a long read-back in summaries -/
def fnv (s : String) : Nat :=
  (s.toList.foldl (fun (h : UInt32) c => (h ^^^ UInt32.ofNat (c.toNat % 256)) * 16777619) (2166136261 : UInt32)).toNat

def showOutcome (r : Except Err Loaded) : String :=
  match r with
  | .ok L => "ok " ++ showLoaded L
  | .error e => "err " ++ errName e

def shortOutcome (r : Except Err Loaded) : String :=
  match r with
  | .ok L => s!"ok:{fnv (showLoaded L)}"
  | .error e => errName e

/-- run-length summary `a-b:outcome` of a list of outcomes indexed from `base` -/
def rle (base : Nat) (l : List String) : String :=
  let rec go (start cur : Nat) (last : String) (rest : List String) (acc : List String) : List String :=
    match rest with
    | [] => (s!"{start}-{cur}:{last}" :: acc).reverse
    | x :: xs =>
      if x = last then go start (cur + 1) last xs acc
      else go (cur + 1) (cur + 1) x xs (s!"{start}-{cur}:{last}" :: acc)
  match l with
  | [] => "-"
  | x :: xs => " ".intercalate (go base base x xs [])

structure St where
  classes : List Bytes := []
  info : Info := { header := [], name := [], version := 0 }
  w : List WItem := []
  calls : List Item := []
  sch : List WSch := []
  bytes : Bytes := []
  have_ : Bool := false
  flags : List Nat := []
  /-- the dictionary of the session (`sess` / `sreset` / `sload`); `none`: no session -/
  sdict : Option Dict := none

/-- positions of the flag bytes of the Listener records that are read flag-directed -/
def flagBytes (info : Info) (chunks : List (List WItem × List WSch)) : List Nat :=
  let hdr := (encHeader info 0).length
  let rec go (t : List Lbl) (pos : Nat) : List (List WItem × List WSch) → List Nat
    | [] => []
    | (ws, sch) :: r =>
      let e := expand t ws
      let len := (encItems t e.2).2.length
      (match sch with | [.lobj _ _ _] => [pos + len - 1] | _ => []) ++ go (encItems t e.2).1 (pos + len) r
  go [] hdr chunks

def cfg : Cfg := Cfg.current

/-- the archive is loaded by a script context whose dictionary holds none of the writer's strings (the
    harness: a new `ScriptContext`; its predefined strings do not matter as long as the load side interns) -/
def dec (st : St) (bs : Bytes) : Except Err Loaded := decodeWD cfg st.classes st.info st.sch [] bs

def step (st : St) (t : List String) : St × String :=
  match t with
  | "classes" :: cs =>
    match cs.mapM bytes? with
    | some l => ({ classes := l }, "ok")
    | none => (st, "bad-op")
  | "arc" :: v :: h :: n :: items =>
    match v.toNat?, bytes? h, bytes? n, parseAll items with
    | some v, some h, some n, some chunks =>
      let w := chunks.flatMap (·.1)
      let info : Info := { header := h, name := n, version := v }
      let calls := (expand [] w).2
      let bytes := encode info calls
      let st' := { st with info := info, w := w, calls := calls, sch := chunks.flatMap (·.2), flags := flagBytes info chunks, bytes := bytes, have_ := true }
      (st', toHex bytes ++ " | " ++ showOutcome (dec st' bytes))
    | _, _, _, _ => (st, "bad-op")
  | ["rsame"] =>
    -- the same archive loaded in the writing context (whose dictionary holds every text): same answer
    if !st.have_ then (st, "bad-op") else
    (st, showOutcome (decodeWD cfg st.classes st.info st.sch (constTextsW st.w) st.bytes))
  | ["layout"] =>
    if !st.have_ then (st, "bad-op") else
    -- the flag byte of a real Listener record the model follows (`.lobj`) is shown as `flag`
    (st, rle 0 (((layout st.info st.calls).map pcName).zipIdx.map fun (c, i) => if st.flags.contains i then "flag" else c))
  | ["t", k] =>
    match k.toNat? with
    | some k => if !st.have_ || k > st.bytes.length then (st, "bad-op") else (st, showOutcome (dec st (st.bytes.take k)))
    | none => (st, "bad-op")
  | ["s", p, b] =>
    match p.toNat?, b.toNat? with
    | some p, some b =>
      if !st.have_ || p ≥ st.bytes.length || b > 255 then (st, "bad-op")
      else (st, showOutcome (dec st (st.bytes.set p (UInt8.ofNat b))))
    | _, _ => (st, "bad-op")
  | "m" :: ps =>
    match ps.mapM String.toNat? with
    | some l =>
      let rec pairs : List Nat → Option (List (Nat × Nat))
        | [] => some []
        | [_] => none
        | p :: b :: r => (pairs r).map ((p, b) :: ·)
      match pairs l with
      | some pb =>
        if !st.have_ || pb.isEmpty || pb.any (fun (p, b) => p ≥ st.bytes.length || b > 255) then (st, "bad-op")
        else (st, showOutcome (dec st (pb.foldl (fun bs (p, b) => bs.set p (UInt8.ofNat b)) st.bytes)))
      | none => (st, "bad-op")
    | none => (st, "bad-op")
  | ["tall"] =>
    if !st.have_ then (st, "bad-op") else
    (st, rle 0 ((List.range st.bytes.length).map fun k => shortOutcome (dec st (st.bytes.take k))))
  | ["sx", p] =>
    match p.toNat? with
    | some p =>
      if !st.have_ || p ≥ st.bytes.length then (st, "bad-op") else
      let orig := (st.bytes.getD p 0).toNat
      (st, rle 0 ((List.range 256).map fun b =>
        if b = orig then "same" else shortOutcome (dec st (st.bytes.set p (UInt8.ofNat b)))))
    | none => (st, "bad-op")
  | _ => (st, "bad-op")

/-! ### `Listener::Archive` with tables: `lisv <k> <N> <view> ; <view> ; <view>`
(the view of the three `con::set<const_str, ConList>` tables as the harness's `lis` printed it:
`-` | `<tableLength> <threshold> <tableLengthIndex> <count> (<key-hex> <n> <targets…>)*`).
Answer: the archive bytes ` | ` the tables the data-directed reader returns, entries sorted by key. -/

partial def parseEntries : Nat → List String → Option (List ConEntry × List String)
  | 0, r => some ([], r)
  | n + 1, k :: c :: r => do
    let kb ← bytes? k
    let c ← c.toNat?
    if r.length < c then none else
    let tg ← (r.take c).mapM String.toNat?
    let (es, r') ← parseEntries n (r.drop c)
    some (((if k = "-" then none else some kb), tg) :: es, r')
  | _, _ => none

def parseSet (t : List String) : Option (Option ConSet) :=
  match t with
  | ["-"] => some none
  | tl :: th :: tli :: cnt :: r => do
    let (es, r') ← parseEntries (← cnt.toNat?) r
    if !r'.isEmpty then none else
    some (some { tableLength := ← tl.toNat?, threshold := ← th.toNat?, tableLengthIndex := ← tli.toNat?, entries := es })
  | _ => none

def splitOn (t : List String) (sep : String) : List (List String) :=
  let rec go : List String → List String → List (List String) → List (List String)
    | [], cur, acc => (cur.reverse :: acc).reverse
    | x :: xs, cur, acc => if x = sep then go xs [] (cur.reverse :: acc) else go xs (x :: cur) acc
  go t [] []

def showSet : Option ConSet → String
  | none => "-"
  | some s =>
    let es := (s.entries.toArray.qsort fun a b => toHex (a.1.getD []) < toHex (b.1.getD [])).toList
    " ".intercalate ([toString s.tableLength, toString s.threshold, toString s.tableLengthIndex, toString s.entries.length]
      ++ es.flatMap fun e => [match e.1 with | none => "-" | some k => toHex k, toString e.2.length] ++ e.2.map toString)

def lisInfo : Info := { header := [77, 70, 85, 83], name := [108, 105, 115], version := 1 }
def lisClass : Bytes := [76, 105, 115, 116, 101, 110, 101, 114]

def lisStep (t : List String) : String :=
  match t with
  | k :: n :: rest =>
    match k.toNat?, n.toNat?, (splitOn rest ";").mapM parseSet with
    | some k, some n, some [a, b, c] =>
      if k > n then "bad-op" else
      let st : LTables := { notify := a, waitFor := b, endl := c }
      let tgt (i : Nat) : Item := .object .into i lisClass [.prim .u8 0]
      let pre := (List.range k).map fun i => tgt (i + 1)
      let post := (List.range (n - k)).map fun i => tgt (k + i + 1)
      let w := pre ++ [.object .into (n + 1) lisClass (listenerCalls st)] ++ post
      let bytes := encode lisInfo w
      let T := (encItems [] w).1
      let t1 := (addUnique (encItems [] pre).1 (n + 1)).1
      let body := (encItems t1 (listenerCalls st)).2
      let r := readListener cfg ⟨body, 0, true, List.replicate T.length 0, []⟩
      toHex bytes ++ " | " ++ (match r with
        | .ok raw s =>
          if !s.rest.isEmpty then "err trailing-bytes" else
          let f := fixTables T raw
          showSet f.notify ++ " ; " ++ showSet f.waitFor ++ " ; " ++ showSet f.endl
        | .err e _ => "err " ++ errName e)
    | _, _, _ => "bad-op"
  | _ => "bad-op"

def step' (st : St) (t : List String) : St × String :=
  match t with
  | "lisv" :: r => (st, lisStep r)
  | ["sess"] => ({ st with sdict := some [] }, "ok")
  | "sreset" :: texts =>
    -- `ScriptMaster::Reset()`: the dictionary is emptied (the predefined strings it is refilled with do not matter to a
    -- reader that interns, `C10_const_string_any_dictionary`), then the given texts are interned in order
    match st.sdict, texts.mapM bytes? with
    | some _, some ts => if ts.any (·.isEmpty) then (st, "bad-op") else ({ st with sdict := some (Dict.loadAll [] ts).1 }, "ok")
    | _, _ => (st, "bad-op")
  | ["sload"] =>
    match st.sdict with
    | some d =>
      if !st.have_ then (st, "bad-op") else
      match decodeWD cfg st.classes st.info st.sch d st.bytes with
      | .ok L => ({ st with sdict := some L.dict }, "ok " ++ showLoaded L)
      | .error e => (st, "err " ++ errName e)
    | none => (st, "bad-op")
  | _ => step st t

def main : IO Unit := Driver.runLoop step' ({} : St)

end Driver.Archive
