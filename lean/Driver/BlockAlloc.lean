import MorfuseModel.BlockAlloc.Model
import Driver.Util
import Std.Data.HashMap
/-!
driver for the BlockAlloc model (property C19)

Lines:
* `pool <bs> [kind]`    reset; `bs ∈ {2, 3, 256}` (the instantiations the harness has); `kind` = the element
                        type of the harness's pool: `e16` (default; 16-aligned, owns other elements) or one of the
                        small types `s1 s2 s3 h2` (1, 2, 3 bytes of alignment 1; 2 bytes of alignment 2).  The
                        allocator's algorithm does not depend on the element type — the model is the same — but a
                        small element cannot own anything: `own` is illegal there
* `alloc`               `ok id=<element ordinal> b=<block ordinal> i=<slot index> blocks=<BlockCount>`
* `own <p> <c>`         element `p` now owns element `c` (its destructor destroys and frees `c`)
* `del <id>`            destroy (cascading through owned elements) and free: `ok d=<ids> blocks=<n>`
* `count`               `ok count=<Count()>`
* `freeall`             `ok d=<destroyed ids in completion order> count=<n> blocks=<n>`

The ownership forest lives here, not in the model: the model's `free`/`freeAll` are handed the
flattened cascades (`freeAll` through the `dtor` parameter).
-/
namespace Driver.BlockAlloc
open Morfuse.BlockAlloc

structure St where
  bs : Nat := 0                                   -- 0: no pool yet
  owns : Bool := true                             -- the element type can own other elements (`e16`)
  s : State := init
  nextElem : Nat := 1
  slotOf : Std.HashMap Nat Slot := {}             -- live element id → slot
  idOf : Std.HashMap Slot Nat := {}               -- live slot → element id
  parent : Std.HashMap Nat Nat := {}              -- owned element → owner
  kids : Std.HashMap Nat (List Nat) := {}         -- owner → owned elements, in `own` order

def kidsOf (st : St) (p : Nat) : List Nat := st.kids.getD p []

/-- strict descendants of `p` in the order their destructors complete (post-order) -/
partial def desc (st : St) (p : Nat) : List Nat :=
  (kidsOf st p).flatMap fun c => desc st c ++ [c]

partial def isAncestor (st : St) (a x : Nat) : Bool :=
  -- is `a` equal to `x` or an owner (transitively) of `x`
  if a = x then true else
  match st.parent.get? x with
  | none => false
  | some q => isAncestor st a q

def ids (l : List Nat) : String := ",".intercalate (l.map toString)

/-- forget destroyed elements -/
def forget (st : St) (dead : List Nat) : St :=
  dead.foldl (fun st x =>
    let st := match st.parent.get? x with
      | some q => { st with kids := st.kids.insert q ((kidsOf st q).erase x), parent := st.parent.erase x }
      | none => st
    match st.slotOf.get? x with
    | some sl => { st with slotOf := st.slotOf.erase x, idOf := st.idOf.erase sl, kids := st.kids.erase x }
    | none => st) st

def step (st : St) (t : List String) : St × String :=
  match t with
  | ["pool", n] =>
    match n.toNat? with
    | some bs => if bs = 2 ∨ bs = 3 ∨ bs = 256 then ({ bs := bs }, "ok") else (st, "bad-op")
    | none => (st, "bad-op")
  | ["pool", n, kind] =>
    match n.toNat? with
    | some bs =>
      if (bs = 2 ∨ bs = 3 ∨ bs = 256) ∧ (kind = "e16" ∨ kind = "s1" ∨ kind = "s2" ∨ kind = "s3" ∨ kind = "h2") then
        ({ bs := bs, owns := kind = "e16" }, "ok")
      else (st, "bad-op")
    | none => (st, "bad-op")
  | ["alloc"] =>
    if st.bs = 0 then (st, "bad-op") else
    let r := alloc st.bs st.s
    let id := st.nextElem
    ({ st with s := r.1, nextElem := id + 1, slotOf := st.slotOf.insert id r.2, idOf := st.idOf.insert r.2 id },
     s!"ok id={id} b={r.2.1} i={r.2.2} blocks={r.1.blockCount}")
  | ["own", p, c] =>
    match p.toNat?, c.toNat? with
    | some p, some c =>
      if st.owns ∧ st.slotOf.contains p ∧ st.slotOf.contains c ∧ p ≠ c ∧ ¬ st.parent.contains c ∧ ¬ isAncestor st c p then
        ({ st with parent := st.parent.insert c p, kids := st.kids.insert p (kidsOf st p ++ [c]) }, "ok")
      else (st, "bad-op")
    | _, _ => (st, "bad-op")
  | ["del", p] =>
    match p.toNat? with
    | some p =>
      if st.slotOf.contains p then
        let order := desc st p ++ [p]
        let s' := order.foldl (fun s x => match st.slotOf.get? x with
          | some sl => free st.bs s sl
          | none => s) st.s
        let st' := forget { st with s := s' } order
        (st', s!"ok d={ids order} blocks={s'.blockCount}")
      else (st, "bad-op")
    | none => (st, "bad-op")
  | ["count"] =>
    if st.bs = 0 then (st, "bad-op") else (st, s!"ok count={count st.bs st.s}")
  | ["freeall"] =>
    if st.bs = 0 then (st, "bad-op") else
    let dtor : State → Slot → List Slot := fun s p =>
      match st.idOf.get? p with
      | none => []
      | some id =>
        let d := desc st id
        if d.isEmpty then [] else
        let live := liveOf st.bs s
        (d.filterMap fun x => st.slotOf.get? x).filter fun q => live.contains q
    match freeAll st.bs dtor st.s with
    | none => (st, "hang")
    | some (s', d) =>
      let st' := { st with s := s', slotOf := {}, idOf := {}, parent := {}, kids := {} }
      (st', s!"ok d={ids (d.map fun q => st.idOf.getD q 0)} count={count st.bs s'} blocks={s'.blockCount}")
  | _ => (st, "bad-op")

def main : IO Unit := Driver.runLoop step {}
end Driver.BlockAlloc
