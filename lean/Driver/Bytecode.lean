import MorfuseModel.Bytecode.Model
import Driver.Util
/-! driver for the bytecode verifier (property C02).

Input: the `dump …` line of `harness/bytecode.cpp`, verbatim.  Output, one line:

  `accept instrs=<n> reached=<n> maxh=<n> ops=<histogram> | dyn-ok starts=<n> edges=<n> ends=<n>`
  `reject rule=<rule> pc=<offset> op=<opcode> [detail] | dyn-…`
  `… | dyn-bad kind=<kind> op=<opcode executed> at=<from>><to> [detail]`

The static part is `Bytecode.verify`; when it answers `false`, `explain` (diagnostics only, not part of
any theorem) names the first rule that fails.  The dynamic part replays every transition the real VM
made (hook H4) on the abstract VM `Bytecode.step` and the annotation `Bytecode.infer` computed. -/
namespace Driver.Bytecode
open Morfuse.Bytecode Morfuse.Bytecode.Gen

def hexVal (c : Char) : Nat :=
  if '0' ≤ c ∧ c ≤ '9' then c.toNat - '0'.toNat
  else if 'a' ≤ c ∧ c ≤ 'f' then c.toNat - 'a'.toNat + 10
  else 0

def hexBytes (s : String) : Array Nat :=
  let rec go : List Char → Array Nat → Array Nat
    | a :: b :: r, acc => go r (acc.push (hexVal a * 16 + hexVal b))
    | _, acc => acc
  go s.toList #[]

def field (ts : List String) (key : String) : String :=
  match ts.find? (·.startsWith (key ++ "=")) with
  | some t => (t.drop (key.length + 1)).toString
  | none => ""

def natList (s : String) (sep : String := ",") : List Nat :=
  (s.splitOn sep).filterMap (·.toNat?)

def parseSwitches (s : String) : List SwitchTable :=
  (s.splitOn "|").filterMap fun t =>
    match t.splitOn ":" with
    | [tok, offs] => tok.toNat?.map fun k => ⟨k, natList offs⟩
    | _ => none

def parseCatches (s : String) : List CatchBlock :=
  (s.splitOn "|").filterMap fun t =>
    match t.splitOn ":" with
    | [rng, offs] =>
      match (rng.splitOn "-").map (·.toNat?) with
      | [some a, some b] => some ⟨a, b, natList offs⟩
      | _ => none
    | _ => none

def parseProgram (ts : List String) : Program :=
  { code := hexBytes (field ts "code")
    declared := (field ts "stack").toNat?.getD 0
    dictSize := (field ts "dict").toNat?.getD 0
    numEvents := (field ts "nev").toNat?.getD 0
    numEventNames := (field ts "nnames").toNat?.getD 0
    ctl := natList (field ts "ctl")
    labels := natList (field ts "labels")
    switches := parseSwitches (field ts "sw")
    catches := parseCatches (field ts "catch") }

/-- one H4 observation: offset, stack index (0 while marked), marked -/
structure Obs where
  off : Nat
  idx : Nat
  marked : Bool

def parseObs (s : String) : Option Obs :=
  match (s.splitOn ":").map (·.toNat?) with
  | [some a, some b, some c] => some ⟨a, b, c != 0⟩
  | _ => none

def Obs.show (o : Obs) : String := s!"{o.off}:{o.idx}:{if o.marked then 1 else 0}"

def opNameAt (p : Program) (pc : Nat) : String :=
  match Opcode.ofCode (p.byte pc) with
  | some o => o.name
  | none => s!"byte{p.byte pc}"

/-! ### diagnostics: the first rule `check` refuses (mirrors `check`, clause by clause) -/

def firstSome {α β} (l : List α) (f : α → Option β) : Option β :=
  match l with
  | [] => none
  | a :: r => match f a with | some b => some b | none => firstSome r f

def sweepFail (p : Program) : Nat → Nat → Option Nat
  | 0, pc => if pc = p.size then none else some pc
  | fuel + 1, pc =>
    if pc = p.size then none
    else match decode p pc with
      | none => some pc
      | some i => sweepFail p fuel (pc + i.len)

def showAnn (a : Option (Nat × Option Nat)) : String :=
  match a with
  | none => "unreached"
  | some (h, none) => s!"h{h}"
  | some (h, some m) => s!"h{h}/mark{m}"

def explainAt (p : Program) (H : Ann) (pc : Nat) : Option String :=
  match H.at pc with
  | none => none
  | some (h, m) =>
    let s : St := ⟨pc, h, m⟩
    let op := opNameAt p pc
    if !(interiorFree p H pc) then
      let inner := match decode p pc with
        | some i => (List.range (i.len - 1)).filter (fun k => (H.at (pc + 1 + k)).isSome) |>.map (· + pc + 1)
        | none => []
      some s!"rule=overlap pc={pc} op={op} reached-offsets-inside-this-instruction={inner}"
    else if !(decide (h + 1 ≤ p.declared)) then some s!"rule=declared pc={pc} op={op} height={h} declared={p.declared}"
    else if !(refsOk p pc) then some s!"rule=reference pc={pc} op={op}"
    else if (match endHeight p s with | none => false | some k => k != 0) then some s!"rule=end-height pc={pc} op={op} height={h}"
    else match step p s with
      | none => some s!"rule=not-executable pc={pc} op={op} state={showAnn (some (h, m))}"
      | some l =>
        firstSome l fun s' =>
          if !(decide (s'.pc < p.size)) then some s!"rule=target-outside pc={pc} op={op} target={s'.pc}"
          else if !(H.holds s') then
            some s!"rule=join pc={pc} op={op} target={s'.pc} arrives={showAnn (some (s'.h, s'.mark))} annotated={showAnn (H.at s'.pc)}"
          else none

def explain (p : Program) (H : Ann) : String :=
  if H.size ≠ p.size then "rule=annotation-size pc=0 op=?"
  else match firstSome p.entries (fun e =>
      if !(decide (e < p.size)) then some s!"rule=entry-outside pc={e} op=?"
      else if !(H.holds (St.start e)) then some s!"rule=entry-height pc={e} op={opNameAt p e} annotated={showAnn (H.at e)}"
      else none) with
    | some r => r
    | none => match firstSome (List.range p.size) (explainAt p H) with
      | some r => r
      | none => match firstSome p.catches (fun c => if catchOk p c then none else some s!"rule=catch-range pc={c.tryStart} op=? end={c.tryEnd}") with
        | some r => r
        | none => if !(marginOk p H) then s!"rule=margin pc=0 op=? declared={p.declared}" else "rule=unknown pc=0 op=?"

/-! ### the dynamic side -/

def obsMatches (o : Obs) (a : Nat × Option Nat) : Bool :=
  if o.marked then a.2.isSome else (a.2.isNone && o.idx == a.1)

def checkStart (p : Program) (H : Ann) (o : Obs) : Option String :=
  if !(p.labels.contains o.off || o.off == 0) then some s!"kind=start-not-a-label op={opNameAt p o.off} at={o.show}"
  else match H.at o.off with
    | none => some s!"kind=start-unreached op={opNameAt p o.off} at={o.show}"
    | some a => if obsMatches o a then none else some s!"kind=start-height op={opNameAt p o.off} at={o.show} model={showAnn (some a)}"

def checkEdge (p : Program) (H : Ann) (a b : Obs) : Option String :=
  let op := opNameAt p a.off
  let at_ := s!"{a.show}>{b.show}"
  match H.at a.off with
  | none => some s!"kind=executes-unreached op={op} at={at_}"
  | some ha =>
    if !(obsMatches a ha) then some s!"kind=height-before op={op} at={at_} model={showAnn (some ha)}"
    else match step p ⟨a.off, ha.1, ha.2⟩ with
      | none => some s!"kind=not-executable op={op} at={at_}"
      | some l =>
        match l.filter (fun s' => s'.pc == b.off) with
        | [] => some s!"kind=transition op={op} at={at_} model-successors={l.map (·.pc)}"
        | cands =>
          if cands.any (fun s' => obsMatches b (s'.h, s'.mark)) then none
          else some s!"kind=height-after op={op} at={at_} model={cands.map (fun s' => showAnn (some (s'.h, s'.mark)))}"

def checkEnd (p : Program) (H : Ann) (a : Obs) (idx : Nat) : Option String :=
  let op := opNameAt p a.off
  if idx != 0 then some s!"kind=end-nonzero op={op} at={a.show}>{idx}"
  else match H.at a.off with
    | none => some s!"kind=executes-unreached op={op} at={a.show}>end"
    | some ha => match endHeight p ⟨a.off, ha.1, ha.2⟩ with
      | some _ => none
      | none => some s!"kind=end-at-non-end op={op} at={a.show}>end"

def parseEdges (s : String) : List (Obs × Obs) :=
  (s.splitOn ",").filterMap fun e =>
    match e.splitOn ">" with
    | [x, y] => match parseObs x, parseObs y with
      | some a, some b => some (a, b)
      | _, _ => none
    | _ => none

def parseEnds (s : String) : List (Obs × Nat) :=
  (s.splitOn ",").filterMap fun e =>
    match e.splitOn ">" with
    | [x, y] => match parseObs x, y.toNat? with
      | some a, some b => some (a, b)
      | _, _ => none
    | _ => none

def histogram (p : Program) (H : Ann) : String :=
  let counts := (List.range p.size).foldl (fun (acc : List (String × Nat)) pc =>
      match H.at pc with
      | none => acc
      | some _ =>
        let n := opNameAt p pc
        match acc.find? (·.1 == n) with
        | some _ => acc.map (fun kv => if kv.1 == n then (kv.1, kv.2 + 1) else kv)
        | none => (n, 1) :: acc) []
  ",".intercalate (counts.map fun kv => s!"{kv.1.drop 3}:{kv.2}")

def answer (ts : List String) : String :=
  let p := parseProgram ts
  let H := infer p
  let ok := check p H
  let static :=
    if ok then
      let reached := (List.range p.size).filter (fun pc => (H.at pc).isSome)
      let maxh := reached.foldl (fun m pc => match H.at pc with | some (h, _) => max m h | none => m) 0
      -- diagnostics: does the whole buffer decode front to back? (stale tail of absorbed instructions otherwise)
      let linear := match boundaries p with
        | some l => s!"instrs={l.length} tail=clean"
        | none => match sweepFail p p.size 0 with
          | some pc => s!"instrs=0 tail=stale@{pc}"
          | none => "instrs=0 tail=?"
      s!"accept {linear} reached={reached.length} maxh={maxh} ops={histogram p H}"
    else s!"reject {explain p H}"
  let starts := ((field ts "starts").splitOn ",").filterMap parseObs
  let edges := parseEdges (field ts "edges")
  let ends := parseEnds (field ts "ends")
  let stackerrs := parseEnds (field ts "stackerr")
  let bad : Option String :=
    match firstSome starts (checkStart p H) with
    | some r => some r
    | none => match firstSome edges (fun e => checkEdge p H e.1 e.2) with
      | some r => some r
      | none =>
        -- (a stack error that follows a bad transition is its consequence: transitions are judged first)
        match firstSome stackerrs (fun e => some s!"kind=vm-stack-error op={opNameAt p e.1.off} at={e.1.show}>{e.2} declared={p.declared}") with
        | some r => some r
        | none => firstSome ends (fun e => checkEnd p H e.1 e.2)
  let dyn := match bad with
    | some r => s!"dyn-bad {r}"
    | none => s!"dyn-ok starts={starts.length} edges={edges.length} ends={ends.length}"
  let crash := match parseObs (field ts "crash") with
    | some o => s!" | crashed-in op={opNameAt p o.off} at={o.show}"
    | none => if field ts "crash" == "" then "" else " | crashed-in op=? at=none"
  s!"{static} | {dyn}{crash}"

def step (_ : Unit) (ts : List String) : Unit × String :=
  match ts with
  | "dump" :: rest => ((), answer rest)
  | _ => ((), "bad-op")

def main : IO Unit := Driver.runLoop step ()

end Driver.Bytecode
