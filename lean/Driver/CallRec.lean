import MorfuseModel.PtrCell.Call
import Driver.Util
/-! driver for the host-call protocol on result cells (property C05; commands of harness/callrec.cpp)

    reset
    script m <hex> ## [@<prefix>] <section> / <section> / …      section = `(<tgt>,…)` <instr>*
    call <label|-> new <val>*                         a fresh call record with these arguments
    call <label|-> r<k>                               call record k used again as it is
  label = letters then digits.  Label K of the script is declared under the name `<prefix><K>` (prefix: lower-case
  letters, `t` when the script line does not say); any other text — a larger K, other letters, the same letters
  in another case — is the name of no label: label names are case sensitive.
    step <ms>
  tgt = l<n> local.v<n> | v<n> level.v<n> | g<n> game.v<n> | p<n> parm.v<n> | r<n> group.v<n>
  val = i<int> | s<letters> | n
  instr = `=<tgt>:<val>` | `P<tgt>` | `w<ms>` | `t<tgt>:<label>[:<tgt>,…]` | `e` | `e=<val>` | `e@<tgt>` -/
namespace Driver.CallRec
open Morfuse.CallRec

structure St where
  s : State := {}
  names : Array String := #[]       -- interned value tokens
  prefix_ : String := "t"           -- label K is declared as `<prefix><K>`

/-- the label a host call names: `some K` when the text is exactly the declared name of label K (K may be past
the last label: not declared either), `some 0` (never a label) for every other text of the form
letters-then-digits, `none` for a malformed token -/
def labelOf (pre : String) (lab : String) : Option Nat :=
  let letters := lab.toList.takeWhile Char.isAlpha
  let digits := lab.toList.dropWhile Char.isAlpha
  if letters.isEmpty || digits.isEmpty || !digits.all Char.isDigit then none
  else if letters == pre.toList then
    -- `t03` is not the name `t3`
    (String.ofList digits).toNat?.map fun k => if (toString k).toList == digits then k else 0
  else some 0

def intern (st : St) (tok : String) : Nat × St :=
  match st.names.toList.idxOf? tok with
  | some i => (i, st)
  | none => (st.names.size, { st with names := st.names.push tok })

def parseTgt (x : String) : Option Tgt := do
  let n ← (x.drop 1).toString.toNat?
  match x.front with
  | 'l' => some ⟨0, n⟩ | 'v' => some ⟨1, n⟩ | 'g' => some ⟨2, n⟩ | 'p' => some ⟨3, n⟩ | 'r' => some ⟨4, n⟩
  | _ => none

def okVal (x : String) : Bool :=
  x == "n" || (x.front == 'i' && (x.drop 1).toString.toNat?.isSome) ||
    (x.front == 's' && (x.drop 1).toString.toList.all (fun c => 'a' ≤ c ∧ c ≤ 'z'))

def parseVal (st : St) (x : String) : Option (Option Nat × St) :=
  if !okVal x then none
  else if x == "n" then some (none, st)
  else let (i, st) := intern st x; some (some i, st)

def parseTgts (x : String) : Option (List Tgt) :=
  if x.isEmpty then some [] else (x.splitOn ",").mapM parseTgt

def parseInstr (st : St) (tok : String) : Option (Instr × St) :=
  let rest := (tok.drop 1).toString
  match tok.front with
  | '=' => match rest.splitOn ":" with
    | [t, v] => do
      let t ← parseTgt t
      let (v, st) ← parseVal st v
      some (.set t v, st)
    | _ => none
  | 'P' => (parseTgt rest).map (fun t => (.print t, st))
  | 'w' => rest.toNat?.bind (fun ms => if ms = 0 then none else some (.wait ms, st))
  | 't' => match rest.splitOn ":" with
    | [t, l] => do some (.thread (← parseTgt t) (← l.toNat?) [], st)
    | [t, l, a] => do some (.thread (← parseTgt t) (← l.toNat?) (← parseTgts a), st)
    | _ => none
  | 'e' =>
    if rest.isEmpty then some (.end_ .none, st)
    else if rest.front == '=' then do
      let (v, st) ← parseVal st (rest.drop 1).toString
      some (.end_ (.lit v), st)
    else if rest.front == '@' then (parseTgt (rest.drop 1).toString).map (fun t => (.end_ (.var t), st))
    else none
  | _ => none

def parseSec (st : St) (toks : List String) : Option (Sec × St) :=
  match toks with
  | [] => none
  | p :: body =>
    if !(p.startsWith "(" && p.endsWith ")") then none else do
    let params ← parseTgts ((p.drop 1).dropEnd 1).toString
    let (ins, st) ← body.foldlM (fun (acc : List Instr × St) t => do
      let (i, st) ← parseInstr acc.2 t
      some (acc.1 ++ [i], st)) ([], st)
    some ({ params := params, body := ins }, st)

def splitSecs (toks : List String) : List (List String) :=
  toks.foldr (fun t acc => if t == "/" then [] :: acc else
    match acc with | h :: r => (t :: h) :: r | [] => [[t]]) [[]]

def showCell (st : St) (k v : Nat) : String :=
  if k = 0 then "nil" else if k = 2 then "pending" else st.names.getD v "?"

def showPrint (st : St) (kv : Nat × Nat) : String :=
  if kv.1 = 0 then "p_NIL" else if kv.1 = 2 then "p_Type:_'pointer'"
  else "p_" ++ ((st.names.getD kv.2 "?").drop 1).toString

def trailer (st : St) (alive : Bool) : String :=
  let out := "|".intercalate (st.s.out.reverse.map (showPrint st))
  let recs := "|".intercalate (st.s.records.map fun r =>
    ",".intercalate (r.map fun c => showCell st (st.s.cells.kind.get c) (st.s.cells.val.get c)))
  let flag := if st.s.stuck then " MODEL-STUCK" else if st.s.outOfFuel then " MODEL-FUEL" else ""
  s!" out=[{out}] t={if alive then 1 else 0} recs=[{recs}] cls={st.s.insts.length} thr={st.s.threads.length}{flag}"

def answer (st : St) (status : String) (alive : Bool := false) : St × String :=
  let line := status ++ trailer st alive
  ({ st with s := { st.s with out := [] } }, line)

def step (st : St) (t : List String) : St × String :=
  match t with
  | ["reset"] => answer {} "ok"
  | "script" :: _ :: _ :: "##" :: abs0 =>
    let (pre, abs) := match abs0 with
      | p :: rest => if p.front == '@' then ((p.drop 1).toString, rest) else ("t", abs0)
      | [] => ("t", abs0)
    if pre.isEmpty || !pre.toList.all Char.isLower then (st, "bad-op") else
    let st := { st with prefix_ := pre }
    let secs := (splitSecs abs).foldl (fun (acc : Option (List Sec × St)) toks =>
      acc.bind fun (l, st) => (parseSec st toks).map fun (sec, st) => (l ++ [sec], st)) (some ([], st))
    match secs with
    | some (l, st) =>
      if (l.head?.map (·.params.length)).getD 1 ≠ 0 then (st, "bad-op")
      else answer { st with s := { st.s with prog := l } } "ok"
    | none => (st, "bad-op")
  | "call" :: lab :: how :: vals =>
    let start : Option (Option Nat) :=
      if lab == "-" then some none else (labelOf st.prefix_ lab).map some
    match start with
    | none => (st, "bad-op")
    | some start =>
      if st.s.prog.isEmpty then (st, "bad-op") else
      if how == "new" then
        match vals.foldlM (fun (acc : List (Option Nat) × St) v => do
            let (x, st) ← parseVal acc.2 v
            some (acc.1 ++ [x], st)) ([], st) with
        | none => (st, "bad-op")
        | some (vs, st) =>
          let (k, s1) := newRecord st.s vs
          let (s2, status, alive) := hostCall s1 start k
          -- a call that fails leaves no record (the harness drops the Event it built)
          if status == "ok" then answer { st with s := s2 } status alive
          else answer st status
      else if how.front == 'r' ∧ vals.isEmpty then
        match (how.drop 1).toString.toNat? with
        | some k =>
          if k ≥ st.s.records.length then (st, "bad-op") else
          let (s2, status, alive) := hostCall st.s start k
          answer { st with s := s2 } status alive
        | none => (st, "bad-op")
      else (st, "bad-op")
  | ["step", ms] =>
    match ms.toNat? with
    | some d => answer { st with s := hostExecute { st.s with clock := st.s.clock + d } } "ok"
    | none => (st, "bad-op")
  | _ => (st, "bad-op")

def main : IO Unit := Driver.runLoop step {}
end Driver.CallRec
