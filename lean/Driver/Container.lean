import MorfuseModel.Container.Model
import Driver.Util
/-! driver for the `con::Container` model (property C18).  Two containers `0` / `1` of `Nat`-valued
elements (`Type()` = 0).  Every line is answered `ok <ret> | <state>`, `ub` (the model faults: the
C++ statement has undefined behaviour, the harness does not execute it) or `bad-op`. -/
namespace Driver.Container
open Morfuse.Container

structure St where
  w : World Nat := {}

def cid? (t : String) : Option Bool := if t = "0" then some false else if t = "1" then some true else none

def parseOp : List String → Option (Op Nat)
  | ["add", c, v] => do some (.add (← cid? c) (← v.toNat?))
  | ["adddef", c] => do some (.addDefault (← cid? c))
  | ["new", c, v] => do some (.newIn (← cid? c) (← v.toNat?))
  | ["addu", c, v] => do some (.addUnique (← cid? c) (← v.toNat?))
  | ["addat", c, i, v] => do some (.addAt (← cid? c) (← i.toNat?) (← v.toNat?))
  | ["ins", c, i, v] => do some (.insertAt (← cid? c) (← i.toNat?) (← v.toNat?))
  | ["rmat", c, i] => do some (.removeAt (← cid? c) (← i.toNat?))
  | ["rm", c, v] => do some (.remove (← cid? c) (← v.toNat?))
  | ["rmptr", c, o] => do some (.removePtr (← cid? c) (← o.toNat?))
  | ["set", c, i, v] => do some (.setAt (← cid? c) (← i.toNat?) (← v.toNat?))
  | ["get", c, i] => do some (.objectAt (← cid? c) (← i.toNat?))
  | ["idx", c, v] => do some (.indexOf (← cid? c) (← v.toNat?))
  | ["has", c, v] => do some (.inList (← cid? c) (← v.toNat?))
  | ["resize", c, n] => do some (.resize (← cid? c) (← n.toNat?))
  | ["setnum", c, n] => do some (.setNum (← cid? c) (← n.toNat?))
  | ["shrink", c] => do some (.shrink (← cid? c))
  | ["clear", c] => do some (.clear (← cid? c))
  | ["free", c] => do some (.free (← cid? c))
  | ["copy", c, d] => do some (.copyAssign (← cid? c) (← cid? d))
  | ["move", c, d] => do some (.moveAssign (← cid? c) (← cid? d))
  | ["cctor", c, d] => do
    let c ← cid? c; let d ← cid? d
    if c = d then none else some (.copyCtor c d)
  | ["mctor", c, d] => do
    let c ← cid? c; let d ← cid? d
    if c = d then none else some (.moveCtor c d)
  | ["adddup", c, i] => do some (.addDup (← cid? c) (← i.toNat?))
  | _ => none

def showRet : Ret Nat → String
  | .unit => "-"
  | .nat n => s!"{n}"
  | .bool b => if b then "true" else "false"
  | .val v => s!"v{v}"
  | .threw => "threw"

/-- `num max null? elements…`; elements are the first `num` slots, `?` for raw storage -/
def showC (s : Cs Nat) : String :=
  match s.objlist with
  | none => s!"{s.num} {s.max} null"
  | some b =>
    let els := (List.range s.num).map fun i =>
      match b[i]? with
      | some (some v) => s!"{v}"
      | _ => "?"
    " ".intercalate ([s!"{s.num}", s!"{s.max}", "buf"] ++ els)

/-- objects alive in a container's storage (whatever `numobjects` claims) -/
def liveIn (s : Cs Nat) : Nat :=
  match s.objlist with
  | none => 0
  | some b => (b.filter Option.isSome).length

def showW (w : World Nat) : String :=
  s!"{showC w.a} | {showC w.b} | c={w.a.led.ctor + w.b.led.ctor} d={w.a.led.dtor + w.b.led.dtor} live={liveIn w.a + liveIn w.b}"

def step (st : St) (t : List String) : St × String :=
  match t with
  | ["reset"] => ({}, "ok - | " ++ showW {})
  | _ =>
    match parseOp t with
    | none => (st, "bad-op")
    | some op =>
      match Morfuse.Container.step st.w op with
      | .error _ => (st, "ub")
      | .ok (w, r) => ({ w := w }, s!"ok {showRet r} | {showW w}")

def main : IO Unit := Driver.runLoop step {}
end Driver.Container
