import MorfuseModel.Dict.Model
import MorfuseModel.Gen.Primes
import MorfuseModel.Gen.Predefined
import Driver.Util
/-! driver for the arrayset / StringDictionary model (property C17).
Texts travel hex-encoded (`-` is the empty text); the key type of the model instance is that
token, so equal tokens ⇔ equal byte strings. -/
namespace Driver.Dict
open Morfuse.Dict

def hexVal (c : Char) : Option Nat :=
  if '0' ≤ c ∧ c ≤ '9' then some (c.toNat - '0'.toNat)
  else if 'a' ≤ c ∧ c ≤ 'f' then some (c.toNat - 'a'.toNat + 10)
  else none

/-- bytes of a text token; `none` when it is not canonical lower-case hex, or contains a NUL byte
    (not expressible through the C-string API) -/
def bytes? (t : String) : Option (List Nat) :=
  if t = "-" then some [] else
  let rec go : List Char → List Nat → Option (List Nat)
    | [], acc => some acc.reverse
    | [_], _ => none
    | a :: b :: r, acc =>
      match hexVal a, hexVal b with
      | some x, some y => if x * 16 + y = 0 then none else go r ((x * 16 + y) :: acc)
      | _, _ => none
  if t.isEmpty then none else go t.toList []

def hexDigit (n : Nat) : Char := if n < 10 then Char.ofNat (48 + n) else Char.ofNat (87 + n)

def toHex (bs : List Nat) : String :=
  if bs.isEmpty then "-" else String.ofList (bs.flatMap fun b => [hexDigit (b / 16), hexDigit (b % 16)])

/-- `HashCharArray<const char*>`: `hash = hash * 31 + *p` in `intptr_t` (wrapping, `char` signed),
    then read as `size_t` by the `%` -/
def hashBytes (bs : List Nat) : Nat :=
  (bs.foldl (fun (h : UInt64) b =>
      h * 31 + (if b < 128 then UInt64.ofNat b else UInt64.ofNat b - 256)) (0 : UInt64)).toNat

def hashTok (t : String) : Nat := match bytes? t with | some bs => hashBytes bs | none => 0

def primes : List Nat := Morfuse.Gen.setPrimes
def predefined : List String := Morfuse.Gen.predefined.map toHex

structure St where
  s : State String := init
  master : Bool := false

def obs (s : State String) : String :=
  s!"{s.count} {s.tableLength} {s.threshold} {s.tableLengthIndex}"

def optHex (o : Option String) : String := match o with | some h => h | none => "?"

def dump (s : State String) : String :=
  let chain (e : Nat) : List Nat :=
    let rec go : Nat → Nat → List Nat → List Nat
      | 0, _, acc => acc.reverse
      | f + 1, e, acc => if e = 0 then acc.reverse else go f (s.next.get e) (s.idx.get e :: acc)
    go (s.count + 1) e []
  let buckets := (List.range s.tableLength).filterMap fun b =>
    let c := chain (tableGet s b)
    if c.isEmpty then none else some (s!"{b}:[" ++ ",".intercalate (c.map toString) ++ "]")
  let revBad := (List.range s.count).find? fun i => s.idx.get (revGet s (i + 1)) ≠ i + 1
  let rv := match revBad with | none => "rev=ok" | some i => s!"rev=bad@{i + 1}"
  s!"inl={if s.inl then 1 else 0} def={s.idx.get s.defaultEntry} {rv} " ++ " ".intercalate buckets

/-- guard shared with the harness: `AllocateMoreString` argument the harness is willing to try -/
def maxMore : Nat := 4000000

def step (st : St) (t : List String) : St × String :=
  -- `st` is taken apart at once and never mentioned again, so that the hash maps inside the model
  -- state stay uniquely referenced and are updated in place (10^5-entry histories)
  let ⟨s, master⟩ := st
  let t := match t with | ["adds", h] => ["add", h] | ["addp", h] => ["add", h] | _ => t     -- the three `strview` flavours of `Add`
  match t with
  | ["dict"] => (⟨init, false⟩, "ok " ++ obs (init : State String))
  | ["master"] =>
    match initConstStrings hashTok primes predefined (init : State String) with
    | some s => let o := obs s; (⟨s, true⟩, "ok " ++ o)
    | none => (⟨init, true⟩, "ub")
  | ["add", h] =>
    match bytes? h with
    | none => (⟨s, master⟩, "bad-op")
    | some _ =>
      match add hashTok primes s h with
      | none => (⟨init, master⟩, "ub")
      | some (s', i) => let o := obs s'; (⟨s', master⟩, s!"ok {i} " ++ o)
  | ["get", h] =>
    match bytes? h with
    | none => (⟨s, master⟩, "bad-op")
    | some _ => let o := s!"ok {idOf hashTok s h} " ++ obs s; (⟨s, master⟩, o)
  | ["str", i] =>
    match i.toNat? with
    | none => (⟨s, master⟩, "bad-op")
    | some i =>
      match textOf s i with
      | none => (⟨s, master⟩, "bad-op")
      | some h => (⟨s, master⟩, "ok " ++ h)
  | ["more", n] =>
    match n.toNat? with
    | none => (⟨s, master⟩, "bad-op")
    | some n =>
      if n > maxMore then (⟨s, master⟩, "bad-op") else
      let s' := allocateMoreString hashTok s n
      let o := obs s'
      (⟨s', master⟩, "ok " ++ o)
  | ["reset"] =>
    if master then
      match initConstStrings hashTok primes predefined (clear s) with
      | some s => let o := obs s; (⟨s, master⟩, "ok " ++ o)
      | none => (⟨init, master⟩, "ub")
    else
      let s' := clear s
      let o := obs s'
      (⟨s', master⟩, "ok " ++ o)
  | ["predef"] =>
    let parts := predefined.zipIdx.map fun (h, k) =>
      s!"{k + 1}:{h}:{idOf hashTok s h}:{optHex (textOf s (k + 1))}"
    (⟨s, master⟩, "ok " ++ " ".intercalate parts)
  | ["all"] =>
    let o := " ".intercalate ((List.range s.count).map fun i => optHex (textOf s (i + 1)))
    (⟨s, master⟩, "ok " ++ o)
  | ["dump"] => let o := dump s; (⟨s, master⟩, "ok " ++ o)
  | _ => (⟨s, master⟩, "bad-op")

def main : IO Unit := Driver.runLoop step {}
end Driver.Dict
