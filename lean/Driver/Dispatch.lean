import MorfuseModel.Dispatch.Model
import MorfuseModel.Dispatch.Spec
import Driver.Util
/-! driver for the command-dispatch model (property C16); protocol in harness/dispatch.cpp -/
namespace Driver.Dispatch
open Morfuse.Dispatch

structure St where
  s : State := init
  base : State := init          -- the registry as the built-ins left it (snapshot at `endbuiltins`)
  builtinsDone : Bool := false
  nBuiltinCls : Nat := 0
  handlers : Nat := 0           -- host handlers handed out in this case (the harness has 768)
  exts : List (Nat × Nat × List Decl) := []   -- `ClassDefExt::list`, head first: (pseudo id, class, responses)
  nExt : Nat := 0               -- extensions constructed in this case
  patched : List (Nat × Nat) := []   -- (class, number) slots written by `InitClassDef` in the last build

def maxHandlers : Nat := 768
def numNs : Nat := 3

/-- decimal natural of 1..9 digits (what the harness accepts) -/
def nat? (t : String) : Option Nat :=
  if t.length = 0 ∨ t.length > 9 ∨ !t.all Char.isDigit then none else t.toNat?

def nameOk (t : String) : Bool :=
  t.length ≥ 1 ∧ t.length ≤ 64 ∧ t.all fun c => c.isAlphanum ∨ c = '_'

def toName (t : String) : Name := t.toList.map Char.toNat

def kind? : String → Option Kind
  | "X" => some .none | "N" => some .normal | "R" => some .ret | "G" => some .getter | "S" => some .setter
  | _ => none

def kindTok : Kind → String
  | .none => "X" | .normal => "N" | .ret => "R" | .getter => "G" | .setter => "S"

def decl? (t : String) : Option Decl :=
  match t.splitOn ":" with
  | [a, b] => do
    let ev ← nat? a
    let f ← nat? b
    if f ≤ 1 then some ⟨ev, f = 1⟩ else none
  | _ => none

def declTok (d : Decl) : String := s!"{d.ev}:{if d.has then 1 else 0}"

def entry? : String → Option Entry
  | "script" => some .script | "ret" => some .ret | "proc" => some .proc
  | _ => none

def outcomeTok : Outcome → String
  | .ran c i => s!"ran {c}.{i}"
  | .notFound => "notfound"
  | .failed => "failed"
  | .silent => "silent"
  | .retFalse => "false"
  | .crash => "crash"

/-- `row` / `drow` line: the transcribed table; every slot is also recomputed with the abstract
    specification (`Spec.nearest`, proved equal in `Props/C16.lean`) and flagged if it differed -/
def rowLine (s : State) (c : Nat) (decide : Bool) (patched : List (Nat × Nat) := []) : String := Id.run do
  let mut body := ""
  let mut filtered := 0
  for k in [0:s.es.numEvents] do
    let n := k + 1
    if decide then
      match getEventDef s n with
      | none => filtered := filtered + 1; continue
      | some d => if !nsAllowed s d.ns then filtered := filtered + 1; continue
    let r := getResponse s c n
    if !patched.contains (c, n) && r != nearest s.reg (s.reg.clss.length + 1) c n then body := body ++ s!" {n}=SPEC-MISMATCH"
    match r with
    | some (dc, di) => body := body ++ s!" {n}={dc}.{di}"
    | none => pure ()
  return (if decide then s!"drow F={filtered}" else "row") ++ body

def nameLine (s : State) (name : Name) : String :=
  let idx := constName s name
  let f := fun k => infoNum s idx k
  let g := fun k => findNumByIndex s idx k
  s!"nm {idx} {f .normal} {f .ret} {f .getter} {f .setter} I={g .normal},{g .ret},{g .getter},{g .setter},{if findEventInfoOk s idx then 1 else 0}"

def applyOp (st : St) (op : Op) (out : State → String) : St × String :=
  match Morfuse.Dispatch.step st.s op with
  | none => (st, "bad-op")
  | some s' => ({ st with s := s' }, out s')

def lastEv (s : State) : String :=
  match s.reg.evs.getLast? with
  | some e => s!"ev {s.reg.evs.length} {e.num} {if e.linked then 1 else 0}"
  | none => "bad-op"

def newEv (st : St) (name k ns : String) : St × String :=
  match kind? k, nat? ns with
  | some kind, some n =>
    if !nameOk name ∨ n > numNs then (st, "bad-op") else
    applyOp st (.newEvent (toName name) kind n) lastEv
  | _, _ => (st, "bad-op")

def step (st : St) (t : List String) : St × String :=
  match t with
  | ["bevent", name, k, ns] =>
    if st.builtinsDone then (st, "bad-op") else
    match kind? k, nat? ns with
    | some kind, some n =>
      applyOp st (.newEvent (toName name) kind n) fun s' => s!"{lastEv s'} | {name} {k} {ns}"
    | _, _ => (st, "bad-op")
  | "bclass" :: name :: parent :: ns :: ds =>
    if st.builtinsDone then (st, "bad-op") else
    match nat? parent, nat? ns, ds.mapM decl? with
    | some p, some n, some decls =>
      applyOp st (.newClass p n decls) fun s' =>
        s!"cls {s'.reg.clss.length} | " ++ " ".intercalate (name :: parent :: ns :: ds)
    | _, _, _ => (st, "bad-op")
  | ["endbuiltins"] =>
    if st.builtinsDone then (st, "bad-op") else
    ({ st with builtinsDone := true, base := st.s, nBuiltinCls := st.s.reg.clss.length },
      s!"ok {st.s.reg.evs.length} {st.s.reg.clss.length}")
  | _ =>
  if !st.builtinsDone then (st, "bad-op") else
  match t with
  | ["reset"] => ({ st with s := st.base, handlers := 0, exts := [], nExt := 0, patched := [] }, "ok")
  | ["event", name, k, ns] => newEv st name k ns
  -- `event … h|v|c|a`: where the harness keeps the object (heap; std::vector / con::Container that
  -- reallocate = move construction; move assignment onto a moved-from shell): a move is the identity
  -- on the registry, so the answer is that of `event …`
  | ["event", name, k, ns, m] => if m = "h" ∨ m = "v" ∨ m = "c" ∨ m = "a" then newEv st name k ns else (st, "bad-op")
  -- `ext <host class> <decl>…`: `new ClassDefExt(class, responses)`
  | "ext" :: cls :: ds =>
    match nat? cls, ds.mapM decl? with
    | some c, some decls =>
      let used := (decls.filter (·.has)).length
      if c ≤ st.nBuiltinCls ∨ c > st.s.reg.clss.length ∨ st.handlers + used > maxHandlers ∨
          !decls.all (fun d => d.ev ≠ 0 ∧ d.ev ≤ st.s.reg.evs.length) then (st, "bad-op") else
      let k := st.nExt + 1
      ({ st with exts := (1000000 + k, c, decls) :: st.exts, nExt := k, handlers := st.handlers + used,
                 s := { st.s with built := false } }, s!"ext {k}")
    | _, _ => (st, "bad-op")
  | "class" :: parent :: ns :: ds =>
    match nat? parent, nat? ns, ds.mapM decl? with
    | some p, some n, some decls =>
      let used := (decls.filter (·.has)).length
      if p > st.s.reg.clss.length ∨ n > numNs ∨ st.handlers + used > maxHandlers then (st, "bad-op") else
      let (st', o) := applyOp st (.newClass p n decls) fun s' => s!"cls {s'.reg.clss.length}"
      (if o = "bad-op" then st' else { st' with handlers := st.handlers + used }, o)
    | _, _, _ => (st, "bad-op")
  | ["init"] =>
    match Morfuse.Dispatch.step st.s .initEvents with
    | none => (st, "bad-op")
    | some s' =>
      -- `BuildEventResponses` ends with `ClassDefExt::InitClassDef()`
      let (s'', rest) := initClassDef s' st.exts
      let patched := match st.exts with
        | (_, c, ds) :: _ => (ds.filter (·.has)).map fun d => (c, evNum s'.reg d.ev)
        | [] => []
      ({ st with s := s'', exts := rest, patched := patched }, s!"init {s''.es.numEvents} {s''.es.names.length}")
  | "filter" :: mode :: nss =>
    match nat? mode, nss.mapM nat? with
    | some m, some l =>
      if m > 2 ∨ l.any (fun n => n = 0 ∨ n > numNs) then (st, "bad-op") else
      applyOp st (.setFilter m l) fun _ => "ok"
    | _, _ => (st, "bad-op")
  | [op, cls] =>
    if op = "row" ∨ op = "drow" then
      match nat? cls with
      | some c =>
        if !st.s.built ∨ c = 0 ∨ c > st.s.reg.clss.length then (st, "bad-op")
        else (st, rowLine st.s c (op = "drow") st.patched)
      | none => (st, "bad-op")
    else if op = "name" then
      if !st.s.built ∨ !nameOk cls then (st, "bad-op") else (st, nameLine st.s (toName cls))
    else (st, "bad-op")
  | ["call", cls, mode, k, name] =>
    match nat? cls, entry? mode, kind? k with
    | some c, some e, some kind =>
      if !st.s.built ∨ c ≤ st.nBuiltinCls ∨ c > st.s.reg.clss.length ∨ kind = .none ∨ !nameOk name then (st, "bad-op")
      else (st, s!"call {findNum st.s (toName name) kind} {outcomeTok (invoke st.s e c (toName name) kind)}")
    | _, _, _ => (st, "bad-op")
  | ["delay", cls, name] =>
    match nat? cls with
    | some c =>
      if !st.s.built ∨ c ≤ st.nBuiltinCls ∨ c > st.s.reg.clss.length ∨ !nameOk name then (st, "bad-op")
      else
        match commandDelay st.s c (toName name) with
        | (_, none) => (st, "delay 0 dropped")
        | (n, some (.ran dc di)) => (st, s!"delay {n} ran {dc}.{di}")
        | (n, some _) => (st, s!"delay {n} nothing")
    | none => (st, "bad-op")
  | _ => (st, "bad-op")

def main : IO Unit := Driver.runLoop step {}
end Driver.Dispatch
