import MorfuseModel.Emit.Model
import MorfuseModel.Emit.Check
import MorfuseModel.Emit.SimEmit
import Driver.Util
/-!
Line protocol of the `Emit` model (C01):

  `emit <dev:0|1> <parse tree as printed by harness/compile.cpp>`

answers with the fields of the harness answer that the model predicts:
`out= pl= wr= ar= nsw= nca= osw= oca= tl= stk= code= lab= sw= ca= cnt= wf= cert=`.
-/
namespace Driver.Emit
open Morfuse.Emit

/-- tokens: `(`, `)`, atoms -/
def lex (s : String) : List String := Id.run do
  let mut out : Array String := #[]
  let mut cur := ""
  for c in s.toList do
    if c == '(' || c == ')' || c == ' ' then
      if cur ≠ "" then out := out.push cur; cur := ""
      if c ≠ ' ' then out := out.push (String.singleton c)
    else cur := cur.push c
  if cur ≠ "" then out := out.push cur
  return out.toList

abbrev P := StateT (List String) Option

def tok : P String := do
  match ← get with
  | [] => failure
  | t :: ts => set ts; pure t

def peek : P (Option String) := do
  match ← get with
  | [] => pure none
  | t :: _ => pure (some t)

def expect (t : String) : P Unit := do
  if (← tok) == t then pure () else failure

def nat : P Nat := do
  match (← tok).toNat? with
  | some n => pure n
  | none => failure

mutual
partial def node : P Node := do
  expect "("
  let h ← tok
  let r ← match h with
    | "none" => pure Node.none
    | "next" => do pure (Node.next (← node))
    | "list" => do pure (Node.list (← nodes))
    | "label" => do let _ ← tok; let i ← nat; let (h, ps) ← params; pure (Node.label i h ps)
    | "plabel" => do let _ ← tok; let i ← nat; let (h, ps) ← params; pure (Node.plabel i h ps)
    | "case" => do let k ← nat; let _ ← tok; let i ← nat; let ty ← nat; let (h, ps) ← params; pure (Node.case k i ty h ps)
    | "assign" => do let l ← node; let r ← node; pure (Node.assign l r)
    | "if" => do let c ← node; let t ← node; pure (Node.if_ c t)
    | "ifelse" => do let c ← node; let t ← node; let e ← node; pure (Node.ifelse c t e)
    | "while" => do let c ← node; let b ← node; let i ← node; pure (Node.while_ c b i)
    | "do" => do let b ← node; let c ← node; pure (Node.do_ b c)
    | "and" => do let a ← node; let b ← node; pure (Node.and_ a b)
    | "or" => do let a ← node; let b ← node; pure (Node.or_ a b)
    | "mcmd" => do let ev ← nat; let _ ← tok; let l ← node; let (h, ps) ← params; pure (Node.mcmd ev l h ps)
    | "mcmdx" => do let ev ← nat; let _ ← tok; let l ← node; let (h, ps) ← params; pure (Node.mcmdx ev l h ps)
    | "cmd" => do let ev ← nat; let _ ← tok; let (h, ps) ← params; pure (Node.cmd ev h ps)
    | "cmdx" => do let ev ← nat; let _ ← tok; let (h, ps) ← params; pure (Node.cmdx ev h ps)
    | "field" => do let _ ← tok; let i ← nat; let ev ← nat; let rd ← nat; let wr ← nat; let l ← node; pure (Node.field i ev rd wr l)
    | "listener" => do pure (Node.listener (← nat))
    | "str" => do let _ ← tok; pure (Node.str (← nat))
    | "int" => do pure (Node.int (← nat))
    | "float" => do pure (Node.float (← nat))
    | "vec" => do let a ← node; let b ← node; let c ← node; pure (Node.vec a b c)
    | "nil" => pure Node.nil
    | "null" => pure Node.null
    | "f1" => do let op ← nat; pure (Node.f1 op (← node))
    | "f2" => do let op ← nat; let a ← node; let b ← node; pure (Node.f2 op a b)
    | "not" => do pure (Node.not_ (← node))
    | "idx" => do let a ← node; let i ← node; pure (Node.idx a i)
    | "carr" => do let a ← node; pure (Node.carr a (← nodes))
    | "marr" => do pure (Node.marr (← nodes))
    | "try" => do let b ← node; let c ← node; pure (Node.try_ b c)
    | "switch" => do let e ← node; let b ← node; pure (Node.switch e b)
    | "break" => pure Node.brk
    | "continue" => pure Node.cont
    | "unknown" => do pure (Node.unknown (← nat))
    | _ => failure
  expect ")"
  pure r
/-- zero or more nodes up to the closing parenthesis (not consumed) -/
partial def nodes : P Nodes := do
  match ← peek with
  | some "(" => do let x ← node; let xs ← nodes; pure (Nodes.cons x xs)
  | _ => pure Nodes.nil
partial def params : P (Bool × Nodes) := do
  expect "("
  let h ← tok
  let r ← match h with
    | "nop" => pure (false, Nodes.nil)
    | "params" => do pure (true, ← nodes)
    | _ => failure
  expect ")"
  pure r
end

def hex2 (b : Nat) : String :=
  let d := "0123456789abcdef".toList
  String.mk [d.getD (b / 16 % 16) '0', d.getD (b % 16) '0']

def errName : Err → String
  | .illegalBreak => "CompileError:IllegalBreak"
  | .illegalContinue => "CompileError:IllegalContinue"
  | .breakOverflow => "CompileError:BreakJumpLocOverflow"
  | .continueOverflow => "CompileError:ContinueJumpLocOverflow"
  | .unknownCommand => "CompileError:UnknownCommand"
  | .unknownCommandRet => "CompileError:UnknownCommandRet"
  | .badLValue => "CompileError:BadLeftValueExpectFieldArray"
  | .badCase => "CompileError:BadCaseValueExpectIntString"
  | .badParam => "CompileError:BadParameterLValueExpectField"
  | .writeOnly => "CompileError:WriteOnly"
  | .readOnly => "CompileError:ReadOnly"
  | .notAllowed => "CompileError:NotAllowed"
  | .duplicateLabel => "CompileError:DuplicateLabel"
  | .unknownNode => "CompileError:UnknownNodeType"
  | .tooManyParameters => "CompileError:TooManyParameters"
  | .ub u => "UB:" ++ (reprStr u)

/-- insertion sort by key -/
def sortSet (l : List (Nat × Nat × Bool)) : List (Nat × Nat × Bool) :=
  l.foldl (fun acc e => (acc.filter (·.1 < e.1)) ++ [e] ++ (acc.filter (fun x => ¬ x.1 < e.1))) []

def showSet (ls : LabelSet) : String :=
  "[" ++ ",".intercalate ((sortSet ls.entries).map fun e => s!"{e.1}:{e.2.1}:{if e.2.2 then 1 else 0}") ++ "]"

def showInfo (i : SizeInfo) : String :=
  s!"{i.progLength},{i.numLabels},{i.numCaseLabels},{i.numStrings},{i.numCatches},{i.numSwitches}"

def answer (dev : Bool) (root : Node) : String :=
  let cnt := match emitRoot root (St.init true) with
    | .ok c => showInfo c.info
    | .error e => "err:" ++ errName e
  let wf := if root.wf then "1" else "0"
  let cert := if certify dev root then "1" else "0"
  let plain := if root.plain then "1" else "0"
  match compile dev root with
  | .error e => s!"out={errName e} cnt={cnt} wf={wf} cert={cert} plain={plain}"
  | .ok r =>
    let s := r.final
    let code := if s.progLen = 0 then "-" else String.join ((List.range s.progLen).map fun i => hex2 (s.buf.get i))
    let stk := s.maxInt + 9 * s.maxExt + 1
    let sw := "[" ++ ",".intercalate (s.switches.toList.map showSet) ++ "]"
    let ca := "[" ++ ",".intercalate (s.catches.toList.map fun c => s!"{c.tryStart}:{c.tryEnd}:{showSet c.set}") ++ "]"
    s!"out=ok pl={s.progLen} wr={s.pos} ar={s.arenaUsed}/{s.arenaSize} nsw={s.swCont.cap.getD 0} nca={s.caCont.cap.getD 0} osw={s.swCont.num} oca={s.caCont.num} tl={s.mainSet.tableLength} stk={stk} code={code} lab={showSet s.mainSet} sw={sw} ca={ca} cnt={cnt} wf={wf} cert={cert} plain={plain}"

def step (_ : Unit) (t : List String) : Unit × String :=
  match t with
  | "emit" :: dev :: rest =>
    match (node.run (lex (" ".intercalate rest))) with
    | some (n, []) => ((), answer (dev == "1") n)
    | _ => ((), "bad-op")
  | _ => ((), "bad-op")

def main : IO Unit := Driver.runLoop step ()

end Driver.Emit
