import MorfuseModel.EventQueue.Model
import Driver.Util
/-! driver for the posted-event queue model (property C08); protocol in harness/eventqueue.cpp -/
namespace Driver.EventQueue
open Morfuse.EventQueue

structure St where
  s : Option State := none

def NL : Nat := 3
def NT : Nat := 4

def okL (l : Nat) : Bool := 1 ≤ l && l ≤ NL
def okT (t : Nat) : Bool := t ≤ NT
def okF (f : Nat) : Bool := f ≤ 7

def parseAct (tok : String) : Option Act :=
  match tok.splitOn ":" with
  | ["p", l, t, d, f] => do
    let l ← l.toNat?; let t ← t.toNat?; let d ← d.toInt?; let f ← f.toNat?
    if okL l && okT t && okF f then some (.post l t d f) else none
  | ["ct", l, t] => do
    let l ← l.toNat?; let t ← t.toNat?
    if okL l && okT t && 1 ≤ t then some (.cancelType l t) else none
  | ["ca", l] => do
    let l ← l.toNat?
    if okL l then some (.cancelAll l) else none
  | ["cf", l, f] => do
    let l ← l.toNat?; let f ← f.toNat?
    if okL l && okF f then some (.cancelFlag l f) else none
  | ["d", l] => do
    let l ← l.toNat?
    if okL l then some (.destroy l) else none
  | ["t", k] => do
    let k ← k.toNat?
    some (.tick k)
  | _ => none

def parseOp : List String → Option Op
  | ["newl", l] => do
    let l ← l.toNat?
    if okL l then some (.newl l) else none
  | "handler" :: l :: t :: acts => do
    let l ← l.toNat?; let t ← t.toNat?
    if okL l && 1 ≤ t && t ≤ 3 then some (.handler l t (← acts.mapM parseAct)) else none
  | ["process"] => some .process
  | ["post", l, t, d, f] => do
    let l ← l.toNat?; let t ← t.toNat?; let d ← d.toInt?; let f ← f.toNat?
    if okL l && okT t && okF f then some (.act (.post l t d f)) else none
  | ["ctype", l, t] => do
    let l ← l.toNat?; let t ← t.toNat?
    if okL l && okT t && 1 ≤ t then some (.act (.cancelType l t)) else none
  | ["call", l] => do
    let l ← l.toNat?
    if okL l then some (.act (.cancelAll l)) else none
  | ["cflag", l, f] => do
    let l ← l.toNat?; let f ← f.toNat?
    if okL l && okF f then some (.act (.cancelFlag l f)) else none
  | ["destroy", l] => do
    let l ← l.toNat?
    if okL l then some (.act (.destroy l)) else none
  | ["tick", k] => do
    let k ← k.toNat?
    some (.act (.tick k))
  | _ => none

def showQueue (s : State) : String :=
  let l := pending s
  s!"n={l.length} q=" ++ ",".intercalate (l.map fun e => s!"{e.id}@{e.due}")

def showDeliveries (ds : List Delivery) : String :=
  ",".intercalate (ds.map fun d => s!"{d.ev.lis}:{d.ev.typ}:{d.ev.id}@{d.clock}")

def step (st : St) (t : List String) : St × String :=
  match t with
  | ["reset", b] =>
    match b.toNat? with
    | some b => ({ s := some (init b) }, "ok")
    | none => (st, "bad-op")
  | _ =>
    match st.s with
    | none => (st, "bad-op")
    | some s =>
      match t with
      | ["pend", l, ty] =>
        match l.toNat?, ty.toNat? with
        | some l, some ty =>
          if okL l && okT ty && 1 ≤ ty && decide (l ∈ s.h.alive) then
            (st, if isPending s l ty then "ok 1" else "ok 0")
          else (st, "bad-op")
        | _, _ => (st, "bad-op")
      | _ =>
        match parseOp t with
        | none => (st, "bad-op")
        | some op =>
          match Morfuse.EventQueue.step s op with
          | none => (st, "bad-op")
          | some s' =>
            let out := match op with
              | .newl _ | .handler .. => "ok"
              | .process =>
                let newd := (s'.h.log.take (s'.h.log.length - s.h.log.length)).reverse
                "ok d=" ++ showDeliveries newd ++ " " ++ showQueue s'
              | .act _ => "ok " ++ showQueue s'
            ({ s := some s' }, out)

def main : IO Unit := Driver.runLoop step {}
end Driver.EventQueue
