import MorfuseModel.EventQueue.Model
import MorfuseModel.Gen.EventQueueCfg
import Driver.Util
/-! driver for the posted-event queue model (property C08); protocol in harness/eventqueue.cpp -/
namespace Driver.EventQueue
open Morfuse.EventQueue

/-- `reset B` runs the repaired configuration (the one the theorems are about), `reset B src` the
    configuration the translator read from the source text (`Gen/EventQueueCfg.lean`) -/
structure St where
  s : Option State := none
  cfg : Cfg := Cfg.repaired

def NL : Nat := 3
def NT : Nat := 4

def okL (l : Nat) : Bool := 1 ≤ l && l ≤ NL
def okT (t : Nat) : Bool := t ≤ NT
def okF (f : Nat) : Bool := f ≤ 7

def parseAct (tok : String) : Option Act :=
  match tok.splitOn ":" with
  | ["p", l, t, d, f] => do
    let l ← l.toNat?; let t ← t.toNat?; let d ← d.toInt?; let f ← f.toNat?
    if okL l && okT t && okF f then some (.post l t d f) else none
  | ["ct", l, t] => do
    let l ← l.toNat?; let t ← t.toNat?
    if okL l && okT t && 1 ≤ t then some (.cancelType l t) else none
  | ["ca", l] => do
    let l ← l.toNat?
    if okL l then some (.cancelAll l) else none
  | ["cf", l, f] => do
    let l ← l.toNat?; let f ← f.toNat?
    if okL l && okF f then some (.cancelFlag l f) else none
  | ["d", l] => do
    let l ← l.toNat?
    if okL l then some (.destroy l) else none
  | ["t", k] => do
    let k ← k.toNat?
    some (.tick k)
  | ["pp", l, t, d] => do
    let l ← l.toNat?; let t ← t.toNat?; let d ← d.toNat?
    if okL l && okT t then some (.postpone l t d) else none
  | ["pa", l, d] => do
    let l ← l.toNat?; let d ← d.toNat?
    if okL l then some (.postponeAll l d) else none
  | _ => none

def parseOp : List String → Option Op
  | ["newl", l] => do
    let l ← l.toNat?
    if okL l then some (.newl l) else none
  | "handler" :: l :: t :: acts => do
    let l ← l.toNat?; let t ← t.toNat?
    if okL l && 1 ≤ t && t ≤ 3 then some (.handler l t (← acts.mapM parseAct)) else none
  | ["process"] => some .process
  | ["post", l, t, d, f] => do
    let l ← l.toNat?; let t ← t.toNat?; let d ← d.toInt?; let f ← f.toNat?
    if okL l && okT t && okF f then some (.act (.post l t d f)) else none
  | ["ctype", l, t] => do
    let l ← l.toNat?; let t ← t.toNat?
    if okL l && okT t && 1 ≤ t then some (.act (.cancelType l t)) else none
  | ["call", l] => do
    let l ← l.toNat?
    if okL l then some (.act (.cancelAll l)) else none
  | ["cflag", l, f] => do
    let l ← l.toNat?; let f ← f.toNat?
    if okL l && okF f then some (.act (.cancelFlag l f)) else none
  | ["destroy", l] => do
    let l ← l.toNat?
    if okL l then some (.act (.destroy l)) else none
  | ["tick", k] => do
    let k ← k.toNat?
    some (.act (.tick k))
  | ["postpone", l, t, d] => do
    let l ← l.toNat?; let t ← t.toNat?; let d ← d.toNat?
    if okL l && okT t then some (.act (.postpone l t d)) else none
  | ["postponeall", l, d] => do
    let l ← l.toNat?; let d ← d.toNat?
    if okL l then some (.act (.postponeAll l d)) else none
  | ["processl", l] => do
    let l ← l.toNat?
    if okL l then some (.processL l) else none
  | ["clear"] => some .clear
  | ["saveload"] => some .saveLoad
  | _ => none

def showQueue (s : State) : String :=
  let l := pending s
  s!"n={l.length} q=" ++ ",".intercalate (l.map fun e => s!"{e.id}@{e.due}")

def showDeliveries (ds : List Delivery) : String :=
  ",".intercalate (ds.map fun d => s!"{d.ev.lis}:{d.ev.typ}:{d.ev.id}@{d.clock}")

def step (st : St) (t : List String) : St × String :=
  match t with
  | ["reset", b] =>
    match b.toNat? with
    | some b => ({ s := some (init b), cfg := Cfg.repaired }, "ok")
    | none => (st, "bad-op")
  | ["reset", b, "src"] =>
    match b.toNat? with
    | some b => ({ s := some (init b), cfg := srcCfg }, "ok")
    | none => (st, "bad-op")
  | _ =>
    match st.s with
    | none => (st, "bad-op")
    | some s =>
      match t with
      | ["pend", l, ty] =>
        match l.toNat?, ty.toNat? with
        | some l, some ty =>
          if okL l && okT ty && 1 ≤ ty && decide (l ∈ s.h.alive) then
            (st, if isPending s l ty then "ok 1" else "ok 0")
          else (st, "bad-op")
        | _, _ => (st, "bad-op")
      | _ =>
        match parseOp t with
        | none => (st, "bad-op")
        | some op =>
          match Morfuse.EventQueue.stepC st.cfg s op with
          | none => (st, "bad-op")
          | some s' =>
            if s'.h.ub then
              -- the real code has undefined behaviour here: nothing more can be said about this run
              ({ st with s := none }, "ub")
            else
            let newd := (s'.h.log.take (s'.h.log.length - s.h.log.length)).reverse
            let out := match op with
              | .newl _ | .handler .. => "ok"
              | .process => "ok d=" ++ showDeliveries newd ++ " " ++ showQueue s'
              | .processL _ => "ok r=" ++ (if newd.isEmpty then "0" else "1") ++ " d=" ++ showDeliveries newd ++ " " ++ showQueue s'
              | .act (.postpone ..) | .act (.postponeAll ..) =>
                "ok r=" ++ (if s'.h.nextOrd == s.h.nextOrd then "0" else "1") ++ " " ++ showQueue s'
              | .act _ | .clear | .saveLoad => "ok " ++ showQueue s'
            ({ st with s := some s' }, out)

def main : IO Unit := Driver.runLoop step {}
end Driver.EventQueue
