import MorfuseModel.Sched.Guard
import Driver.Util
/-! driver for the execution guards (property C14): predicts the outcome of the composite `c14`
scenario of harness/engine.cpp from the guard model; the recovery flags are what the property demands. -/
namespace Driver.Guard
open Morfuse.Sched.Guard

def kv (t : String) : Option Nat := ((t.splitOn "=").getD 1 "").toNat?

/-- line: `c14 <hex> prot= max= step= depth= streams= dev= ## <kind> <K>` with kind ∈ inf | fin | rec -/
def step (_ : Unit) (t : List String) : Unit × String :=
  match t with
  | "c14" :: _hex :: prot :: mx :: st :: dp :: _streams :: _dev :: "##" :: kind :: k :: _ =>
    match kv prot, kv mx, kv st, kv dp, k.toNat? with
    | some prot, some mx, some st, some dp, some k =>
      let outcome : String :=
        if kind == "inf" then
          -- a thread that never yields; the clock advances `st` ms per reading
          if prot == 1 then
            match Morfuse.Sched.Guard.runLoop (fun i => i * st) mx (mx / (max st 1) + 3) 1 with
            | some _ => "CommandOverflow"
            | none => "hang"
          else "hang"
        else if kind == "fin" then "ok"
        else if kind == "rec" then
          -- k nested `thread` calls below the host call: k + 1 activations
          if (nest dp (k + 1) 0).isSome then "ok" else "MaxStackDepth"
        else "bad-kind"
      ((), s!"ok outcome={outcome} cur=0 sentinel=1 newcall=1 reset=1")
    | _, _, _, _, _ => ((), "bad-op")
  | _ => ((), "bad-op")

def main : IO Unit := Driver.runLoop step ()
end Driver.Guard
