import MorfuseModel.HashSet.Model
import MorfuseModel.Gen.Primes
import Driver.Util
/-! driver for the `con::set` / `con::map` model (property C18).  Keys are `0 … n-1`, the hash of key
`k` is the k-th number of the `reset` line (so the generator chooses which keys collide), values are
naturals (`ValueT()` = 0).  There are two maps (`sel 0|1` chooses the one the other lines act on and
observe) so that an enumerator can be re-bound to ANOTHER set: `estart` = `set_enum en(selected)`, `enew` =
`set_enum en` (default-constructed), `erebind i` = `en = map_i` (`set_enum::operator=(set&)` on the existing
enumerator, whatever its state), `enext` = `NextElement()` on the set the enumerator is bound to. -/
namespace Driver.HashSet
open Morfuse.HashSet

structure St where
  s : State Nat Nat := init
  hashes : Array Nat := #[]
  o : State Nat Nat := init               -- the map that is NOT selected
  sel : Nat := 0                          -- which of the two maps `s` is
  en : Option (Enum Nat Nat) := none      -- a live enumerator (invalidated by every mutation)
  enSet : Option Nat := none              -- the map the enumerator is bound to (`none`: default-constructed)
  quiet : Bool := false                   -- long growth histories: contents only on `enum` lines

def primes : List Nat := Morfuse.Gen.setPrimes

def St.hash (st : St) (k : Nat) : Nat := st.hashes.getD k 0

def showPairs (l : List (Nat × Nat)) : String := " ".intercalate (l.map fun (k, v) => s!"{k}:{v}")

def obsQ (quiet : Bool) (s : State Nat Nat) : String :=
  let contents := if quiet then " -" else
    String.join (((s.table.flatten.map fun e => (e.key, e.val)).mergeSort fun a b => a.1 < b.1 ∨ (a.1 = b.1 ∧ a.2 ≤ b.2)).map fun (k, v) => s!" {k}:{v}")
  let de := if defaultEntryPtr s = 0 then 0 else 1
  s!"{s.count} {s.tableLength} {s.threshold} {s.tableLengthIndex} de={de} |{contents} | c={s.ctor} d={s.dtor} live={s.ctor - s.dtor}"

def key? (st : St) (t : String) : Option Nat := do
  let k ← t.toNat?
  if k < st.hashes.size then some k else none

def optVal : Option Nat → String
  | some v => s!"v{v}"
  | none => "none"

def mutate (st : St) (s : State Nat Nat) (ret : String) : St × String :=
  ({ st with s := s, en := none, enSet := none }, s!"ok {ret} | {obsQ st.quiet s}")

def step (st : St) (t : List String) : St × String :=
  match t with
  | "reset" :: hs =>
    match nats? hs with
    | some l => if l.isEmpty ∨ l.any (· ≥ 2 ^ 64) then (st, "bad-op") else
      let st' : St := { hashes := l.toArray }
      (st', s!"ok - | {obsQ false st'.s}")
    | none => (st, "bad-op")
  | ["quiet", q] =>
    if q = "0" ∨ q = "1" then
      let st := { st with quiet := q = "1" }
      (st, s!"ok - | {obsQ st.quiet st.s}")
    else (st, "bad-op")
  | ["put", k, v] =>
    match key? st k, v.toNat? with
    | some k, some v => mutate st (Morfuse.HashSet.step st.hash primes st.s (.put k v)) "-"
    | _, _ => (st, "bad-op")
  | ["touch", k] =>
    match key? st k with
    | some k =>
      let (s, e) := addKeyEntry st.hash primes st.s k default
      mutate st s s!"v{e.val}"
    | none => (st, "bad-op")
  | ["addi", k, v] =>
    match key? st k, v.toNat? with
    | some k, some v =>
      let (s, e) := addKeyEntry st.hash primes st.s k v
      mutate st s s!"v{e.val}"
    | _, _ => (st, "bad-op")
  | ["get", k] =>
    match key? st k with
    | some k => (st, s!"ok {optVal (findKeyValue st.hash st.s k)} | {obsQ st.quiet st.s}")
    | none => (st, "bad-op")
  | ["rm", k] =>
    match key? st k with
    | some k =>
      let (s, r) := remove st.hash st.s k
      mutate st s (if r then "true" else "false")
    | none => (st, "bad-op")
  | ["size"] => (st, s!"ok {st.s.count} | {obsQ st.quiet st.s}")
  | ["resize", n] =>
    match n.toNat? with
    | some n => if n > 100000 then (st, "bad-op") else mutate st (resize st.hash st.s n) "-"
    | none => (st, "bad-op")
  | ["shrink"] => mutate st (shrink st.hash st.s) "-"
  | ["clear"] => mutate st (clear st.s) "-"
  | ["enum"] =>
    -- a full sweep of map_enum::NextKey / CurrentValue, in visit order
    (st, s!"ok {showPairs ((enumAll st.s).map fun e => (e.key, e.val))} | {obsQ st.quiet st.s}")
  | ["sel", i] =>
    if i = "0" ∨ i = "1" then
      let j := if i = "0" then 0 else 1
      let st := if j = st.sel then st else { st with s := st.o, o := st.s, sel := j }
      (st, s!"ok - | {obsQ st.quiet st.s}")
    else (st, "bad-op")
  | ["estart"] => ({ st with en := some (enumStart st.s), enSet := some st.sel }, s!"ok - | {obsQ st.quiet st.s}")
  | ["enew"] => ({ st with en := some enumDefault, enSet := none }, s!"ok - | {obsQ st.quiet st.s}")
  | ["erebind", i] =>
    if i = "0" ∨ i = "1" then
      let j := if i = "0" then 0 else 1
      match st.en with
      | none => (st, "bad-op")
      | some en =>
        let target := if j = st.sel then st.s else st.o
        ({ st with en := some (enumRebind target en), enSet := some j }, s!"ok - | {obsQ st.quiet st.s}")
    else (st, "bad-op")
  | ["enext"] =>
    match st.en with
    | none => (st, "bad-op")
    | some en =>
      -- `m_Set`: the map the enumerator is bound to (a default-constructed one never reads it)
      let bound := match st.enSet with
        | some j => if j = st.sel then st.s else st.o
        | none => init
      let (en, r) := enumNext bound en
      let ret := match r with | some e => s!"{e.key}:{e.val}" | none => "end"
      ({ st with en := some en }, s!"ok {ret} | {obsQ st.quiet st.s}")
  | _ => (st, "bad-op")

def main : IO Unit := Driver.runLoop step {}
end Driver.HashSet
