import MorfuseModel.Lang.Sem
import MorfuseModel.Lang.PrecTable
import Driver.Util
/-! driver for the reference semantics `Lang.Sem` (property C03): reads the AST payload of a `prog`
line (after `##`), evaluates it and prints the canonical observation line of `harness/langrun.cpp` -/
namespace Driver.Lang
open Morfuse.Lang

inductive SExp where
  | atom (s : String)
  | list (l : List SExp)
  deriving Repr, Inhabited

/-- tokens → s-expressions (stack of open lists) -/
def parseSExps (toks : List String) : Option (List SExp) :=
  let rec go (toks : List String) (stack : List (List SExp)) : Option (List SExp) :=
    match toks with
    | [] => match stack with
        | [top] => some top.reverse
        | _ => none
    | "(" :: t => go t ([] :: stack)
    | ")" :: t => match stack with
        | cur :: parent :: rest => go t ((SExp.list cur.reverse :: parent) :: rest)
        | _ => none
    | a :: t => match stack with
        | cur :: rest => go t ((SExp.atom a :: cur) :: rest)
        | [] => none
  go toks [[]]

def hexVal (c : Char) : Option Nat :=
  if '0' ≤ c ∧ c ≤ '9' then some (c.toNat - '0'.toNat)
  else if 'a' ≤ c ∧ c ≤ 'f' then some (c.toNat - 'a'.toNat + 10)
  else if 'A' ≤ c ∧ c ≤ 'F' then some (c.toNat - 'A'.toNat + 10)
  else none

def unhex (s : String) : Option String :=
  let rec go : List Char → List Char → Option (List Char)
    | [], acc => some acc.reverse
    | a :: b :: t, acc => do
        let x ← hexVal a
        let y ← hexVal b
        go t (Char.ofNat (x * 16 + y) :: acc)
    | _, _ => none
  if s = "-" then some "" else (go s.toList []).map String.ofList

def parseScope : String → Option Scope
  | "local" => some .loc | "group" => some .grp | "level" => some .lvl
  | "game" => some .game | "parm" => some .parm | _ => none

def parseBinOp : String → Option BinOp
  | "bor" => some .bor | "bxor" => some .bxor | "band" => some .band | "eq" => some .eq | "ne" => some .ne
  | "lt" => some .lt | "gt" => some .gt | "le" => some .le | "ge" => some .ge | "shl" => some .shl
  | "shr" => some .shr | "add" => some .add | "sub" => some .sub | "mul" => some .mul | "div" => some .div
  | "mod" => some .mod | _ => none

def parseKind : String → Option CallKind
  | "thread" => some .thread | "waitthread" => some .waitthread | _ => none

mutual
partial def toExpr : SExp → Option Expr
  | .list [.atom "int", .atom n] => do some (.int (BitVec.ofInt 64 (← n.toInt?)))
  | .list [.atom "str", .atom h] => do some (.str (← unhex h))
  | .list [.atom "nil"] => some .nil
  | .list [.atom "var", .atom sc, .atom n] => do some (.var (← parseScope sc) n)
  | .list [.atom "index", a, i] => do some (.index (← toExpr a) (← toExpr i))
  | .list [.atom "size", a] => do some (.size (← toExpr a))
  | .list [.atom "bin", .atom op, a, b] => do some (.bin (← parseBinOp op) (← toExpr a) (← toExpr b))
  | .list [.atom "land", a, b] => do some (.land (← toExpr a) (← toExpr b))
  | .list [.atom "lor", a, b] => do some (.lor (← toExpr a) (← toExpr b))
  | .list [.atom "not", a] => do some (.not (← toExpr a))
  | .list [.atom "neg", a] => do some (.neg (← toExpr a))
  | .list [.atom "compl", a] => do some (.compl (← toExpr a))
  | .list (.atom "call" :: .atom k :: .atom l :: args) => do some (.call (← parseKind k) l (← toExprs args))
  | _ => none
partial def toExprs : List SExp → Option (List Expr)
  | [] => some []
  | e :: t => do some ((← toExpr e) :: (← toExprs t))
end

partial def toLVal : SExp → Option LVal
  | .list [.atom "var", .atom sc, .atom n] => do some (.var (← parseScope sc) n)
  | .list [.atom "idx", b, i] => do some (.idx (← toLVal b) (← toExpr i))
  | _ => none

def toParams : List SExp → Option (List (Scope × String))
  | [] => some []
  | .list [.atom sc, .atom n] :: t => do some ((← parseScope sc, n) :: (← toParams t))
  | _ => none

mutual
partial def toStmt : SExp → Option Stmt
  | .list [.atom "assign", lv, e] => do some (.assign (← toLVal lv) (← toExpr e))
  | .list [.atom "opassign", .atom op, lv, e] => do some (.opassign (← parseBinOp op) (← toLVal lv) (← toExpr e))
  | .list [.atom "incr", lv] => do some (.incr (← toLVal lv))
  | .list [.atom "decr", lv] => do some (.decr (← toLVal lv))
  | .list (.atom "block" :: ss) => do some (.block (← toStmts ss))
  | .list [.atom "ite", c, .list t, .list e] => do some (.ite (← toExpr c) (← toStmts t) (← toStmts e))
  | .list [.atom "while", c, .list b, .list i] => do some (.while_ (← toExpr c) (← toStmts b) (← toStmts i))
  | .list [.atom "for", .list i, c, .list inc, .list b] =>
      do some (.for_ (← toStmts i) (← toExpr c) (← toStmts inc) (← toStmts b))
  | .list [.atom "dowhile", .list b, c] => do some (.dowhile (← toStmts b) (← toExpr c))
  | .list [.atom "brk"] => some .brk
  | .list [.atom "cont"] => some .cont
  | .list [.atom "switch", e, .list b] => do some (.switch (← toExpr e) (← toStmts b))
  | .list [.atom "case", .atom h] => do some (.case_ (← unhex h))
  | .list [.atom "try", .list b, .list h] => do some (.try_ (← toStmts b) (← toStmts h))
  | .list (.atom "label" :: .atom n :: ps) => do some (.label n (← toParams ps))
  | .list (.atom "throw" :: .atom n :: args) => do some (.throw n (← toExprs args))
  | .list [.atom "goto", .atom n] => some (.goto n)
  | .list [.atom "end"] => some (.end_ none)
  | .list [.atom "end", e] => do some (.end_ (some (← toExpr e)))
  | .list (.atom "print" :: .atom nl :: args) => do some (.print (nl == "1") (← toExprs args))
  | .list (.atom "scall" :: .atom k :: .atom l :: args) => do some (.call (← parseKind k) l (← toExprs args))
  | _ => none
partial def toStmts : List SExp → Option (List Stmt)
  | [] => some []
  | s :: t => do some ((← toStmt s) :: (← toStmts t))
end

/-! canonical output (must match `harness/langrun.cpp`) -/

def hexDigit (n : Nat) : Char := "0123456789ABCDEF".toList.getD n '0'

/-- a `Lang` string is a byte string, one `Char` below 256 per byte (`Lang.strBytes`, the reading `unhex` builds
    and `Props/XLinks.lean` relates to the C04 value layer): printed byte by byte, not as UTF-8 -/
def esc (s : String) : String :=
  String.ofList ((strBytes s).flatMap fun b =>
    let c := Char.ofNat b.toNat
    if c.isAlphanum || c == '_' || c == '.' || c == '-' then [c]
    else ['%', hexDigit (b.toNat / 16), hexDigit (b.toNat % 16)])

def keyLt : Key → Key → Bool
  | .int a, .int b => a.slt b
  | .int _, .str _ => true
  | .str _, .int _ => false
  | .str a, .str b => a < b

def showKey : Key → String
  | .int v => "i" ++ toString v.toInt
  | .str s => "s" ++ esc s

/-- value with holder ordinals by first appearance; `seen` maps holder → ordinal -/
partial def showVal (heap : Heap) (seen : List (Nat × Nat)) : Val → String × List (Nat × Nat)
  | .nil => ("nil", seen)
  | .int v => ("i" ++ toString v.toInt, seen)
  | .str s => ("s" ++ esc s, seen)
  | .chr c => ("c" ++ toString c.toNat, seen)
  | .arr h =>
    match alookup h seen with
    | some k => ("a" ++ toString k, seen)
    | none =>
      let id := seen.length + 1
      let seen1 := seen ++ [(h, id)]
      let ents := ((heap.getD h []).toArray.qsort (fun a b => keyLt a.1 b.1)).toList
      let (parts, seen2) := ents.foldl (fun (acc : List String × List (Nat × Nat)) (kv : Key × Val) =>
        let (sv, sn) := showVal heap acc.2 kv.2
        (acc.1 ++ [showKey kv.1 ++ ":" ++ sv], sn)) ([], seen1)
      ("a" ++ toString id ++ "{" ++ ",".intercalate parts ++ "}", seen2)

def showVars (heap : Heap) (seen : List (Nat × Nat)) (vars : Vars) : String × List (Nat × Nat) :=
  let vs := ((vars.filter (fun p => p.2 != Val.nil)).toArray.qsort (fun a b => a.1 < b.1)).toList
  let (parts, seen1) := vs.foldl (fun (acc : List String × List (Nat × Nat)) (p : String × Val) =>
    let (sv, sn) := showVal heap acc.2 p.2
    (acc.1 ++ [esc p.1 ++ "=" ++ sv], sn)) ([], seen)
  ("{" ++ ",".intercalate parts ++ "}", seen1)

def parseArg (s : String) : Option Val :=
  match s.toList with
  | 'i' :: t => (String.ofList t).toInt?.map fun i => Val.int (BitVec.ofInt 64 i)
  | 's' :: t => (unhex (String.ofList t)).map Val.str
  | ['n'] => some .nil
  | _ => none

def fuel : Nat := 4000

def runLine (t : List String) : String :=
  match t with
  | "prog" :: label :: nargs :: rest =>
    match nargs.toNat? with
    | none => "bad-op"
    | some na =>
      let argToks := rest.take na
      match (rest.drop na) with
      | nl :: rest2 =>
        match nl.toNat?, argToks.mapM parseArg with
        | some nlay, some args =>
          let payload := (rest2.drop nlay)
          match payload with
          | "##" :: ast =>
            match parseSExps ast with
            | some [.list ss] =>
              match toStmts ss with
              | some prog =>
                match runProgram fuel prog label args with
                | .ok (r, st) =>
                  let ret := match r with
                    | some v => if v = Val.nil then "none" else (showVal st.heap [] v).1
                    | none => "none"
                  let (l, s1) := showVars st.heap [] st.level
                  let (g, s2) := showVars st.heap s1 st.game
                  let (p, _) := showVars st.heap s2 st.parm
                  s!"ok out={esc st.out} ret={ret} level={l} game={g} parm={p} warn=0 idle=1 layouts={nlay}"
                | .err e => "err " ++ e.toString
                | .timeout => "timeout"
              | none => "bad-ast"
            | _ => "bad-sexp"
          | _ => "bad-op"
        | _, _ => "bad-op"
      | [] => "bad-op"
  | _ => "bad-op"

/-! `tree` lines: the token list after `##` is parsed by the precedence-climbing model with the
reference levels and printed in the s-expression format of the harness' parse-tree dump -/
open Morfuse.Lang.Prec in
def parseTok : String → Option Tok
  | "(" => some .lp | ")" => some .rp
  | "||" => some (.op .lor) | "&&" => some (.op .land) | "|" => some (.op .bor) | "^" => some (.op .bxor)
  | "&" => some (.op .band) | "==" => some (.op .eq) | "!=" => some (.op .ne) | "<" => some (.op .lt)
  | ">" => some (.op .gt) | "<=" => some (.op .le) | ">=" => some (.op .ge) | "<<" => some (.op .shl)
  | ">>" => some (.op .shr) | "+" => some (.op .add) | "-" => some (.op .sub) | "*" => some (.op .mul)
  | "/" => some (.op .div) | "%" => some (.op .mod)
  | "neg" => some (.un .neg) | "~" => some (.un .compl) | "!" => some (.un .not)
  | s => match s.toList with
    | 'a' :: t => (String.ofList t).toNat?.map Tok.atom
    | _ => none

open Morfuse.Lang.Prec in
def opText : Op → String
  | .lor => "||" | .land => "&&" | .bor => "|" | .bxor => "^" | .band => "&" | .eq => "==" | .ne => "!="
  | .lt => "<" | .gt => ">" | .le => "<=" | .ge => ">=" | .shl => "<<" | .shr => ">>" | .add => "+"
  | .sub => "-" | .mul => "*" | .div => "/" | .mod => "%"

open Morfuse.Lang.Prec in
def showPT : PT → String
  | .atom n => s!"(int {n})"
  | .un .neg a => s!"(un neg {showPT a})"
  | .un .compl a => s!"(un ~ {showPT a})"
  | .un .not a => s!"(not {showPT a})"
  | .bin .land a b => s!"(and {showPT a} {showPT b})"
  | .bin .lor a b => s!"(or {showPT a} {showPT b})"
  | .bin o a b => s!"(bin {opText o} {showPT a} {showPT b})"

def runTree (t : List String) : String :=
  match (t.dropWhile (· != "##")).drop 1 |>.mapM parseTok with
  | none => "bad-op"
  | some toks =>
    match Morfuse.Lang.Prec.parse Morfuse.Lang.PrecTable.refLv toks with
    | some e => "tree " ++ showPT e
    | none => "err ParseError"

def step (u : Unit) (t : List String) : Unit × String :=
  match t with
  | "tree" :: _ => (u, runTree t)
  | _ => (u, runLine t)

def main : IO Unit := Driver.runLoop step ()

end Driver.Lang
