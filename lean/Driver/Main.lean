import Driver.SafePtr
import Driver.Sched
import Driver.Guard
import Driver.PtrCell
import Driver.Dict
import Driver.BlockAlloc
import Driver.EventQueue
import Driver.Dispatch
import Driver.Emit

def main (args : List String) : IO UInt32 := do
  match args with
  | ["safeptr"] => Driver.SafePtr.main; return 0
  | ["sched"] => Driver.Sched.main; return 0
  | ["guard"] => Driver.Guard.main; return 0
  | ["ptrcell"] => Driver.PtrCell.main; return 0
  | ["dict"] => Driver.Dict.main; return 0
  | ["blockalloc"] => Driver.BlockAlloc.main; return 0
  | ["eventqueue"] => Driver.EventQueue.main; return 0
  | ["dispatch"] => Driver.Dispatch.main; return 0
  | ["emit"] => Driver.Emit.main; return 0
  | _ => IO.eprintln "usage: driver <area>"; return 2
