import Driver.SafePtr
import Driver.Sched
import Driver.Guard
import Driver.Unwind
import Driver.PtrCell
import Driver.Dict
import Driver.BlockAlloc
import Driver.EventQueue
import Driver.Dispatch
import Driver.Archive
import Driver.Container
import Driver.HashSet
import Driver.Str
import Driver.Lang
import Driver.VMOps
import Driver.Target
import Driver.Bytecode
import Driver.Emit

def main (args : List String) : IO UInt32 := do
  match args with
  | ["safeptr"] => Driver.SafePtr.main; return 0
  | ["sched"] => Driver.Sched.main; return 0
  | ["guard"] => Driver.Guard.main; return 0
  | ["unwind"] => Driver.Unwind.main; return 0
  | ["ptrcell"] => Driver.PtrCell.main; return 0
  | ["dict"] => Driver.Dict.main; return 0
  | ["blockalloc"] => Driver.BlockAlloc.main; return 0
  | ["eventqueue"] => Driver.EventQueue.main; return 0
  | ["dispatch"] => Driver.Dispatch.main; return 0
  | ["archive"] => Driver.Archive.main; return 0
  | ["container"] => Driver.Container.main; return 0
  | ["hashset"] => Driver.HashSet.main; return 0
  | ["str"] => Driver.Str.main; return 0
  | ["lang"] => Driver.Lang.main; return 0
  | ["vmops"] => Driver.VMOps.main; return 0
  | ["target"] => Driver.Target.main; return 0
  | ["bytecode"] => Driver.Bytecode.main; return 0
  | ["emit"] => Driver.Emit.main; return 0
  | _ => IO.eprintln "usage: driver <area>"; return 2
