import Driver.SafePtr
import Driver.EventQueue

def main (args : List String) : IO UInt32 := do
  match args with
  | ["safeptr"] => Driver.SafePtr.main; return 0
  | ["eventqueue"] => Driver.EventQueue.main; return 0
  | _ => IO.eprintln "usage: driver <area>"; return 2
