import Driver.SafePtr
import Driver.BlockAlloc

def main (args : List String) : IO UInt32 := do
  match args with
  | ["safeptr"] => Driver.SafePtr.main; return 0
  | ["blockalloc"] => Driver.BlockAlloc.main; return 0
  | _ => IO.eprintln "usage: driver <area>"; return 2
