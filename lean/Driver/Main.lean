import Driver.SafePtr
import Driver.Dispatch

def main (args : List String) : IO UInt32 := do
  match args with
  | ["safeptr"] => Driver.SafePtr.main; return 0
  | ["dispatch"] => Driver.Dispatch.main; return 0
  | _ => IO.eprintln "usage: driver <area>"; return 2
