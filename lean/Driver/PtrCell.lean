import MorfuseModel.PtrCell.Model
import Driver.Util
/-! driver for the ScriptPointer result-cell model (property C05) -/
namespace Driver.PtrCell
open Morfuse.PtrCell

structure St where
  s : State := init
  n : Nat := 6

def parseOp : List String → Option Op
  | ["newcell", a] => do some (.newCell (← a.toNat?))
  | ["newptr", a] => do some (.newPointer (← a.toNat?))
  | ["copy", a, b] => do some (.copyTo (← a.toNat?) (← b.toNat?))
  | ["move", a, b] => do some (.moveTo (← a.toNat?) (← b.toNat?))
  | ["assign", a, b] => do some (.assign (← a.toNat?) (← b.toNat?))
  | ["destroy", a] => do some (.destroy (← a.toNat?))
  | ["setint", a, v] => do some (.setInt (← a.toNat?) (← v.toNat?))
  | ["endref", a, v] => do some (.endRef (← a.toNat?) (← v.toNat?))
  | ["endplain", a] => do some (.endPlain (← a.toNat?))
  | _ => none

def cellsOf : Op → List Nat
  | .newCell a | .newPointer a | .destroy a | .setInt a _ | .endRef a _ | .endPlain a => [a]
  | .copyTo a b | .moveTo a b | .assign a b => [a, b]

def observe (st : St) : String :=
  let parts := (List.range st.n).filterMap fun i =>
    let a := i + 1
    if st.s.live.get a = 1 then
      let k := st.s.kind.get a
      some (if k = 0 then s!"{a}:none" else if k = 1 then s!"{a}:i{st.s.val.get a}" else s!"{a}:p{st.s.val.get a}")
    else none
  " ".intercalate parts

def step (st : St) (t : List String) : St × String :=
  match t with
  | ["universe", n] =>
    match n.toNat? with
    | some k => ({ s := init, n := k }, "ok")
    | none => (st, "bad-op")
  | _ =>
    match parseOp t with
    | none => (st, "bad-op")
    | some op =>
      if (cellsOf op).any (fun a => a > st.n) then (st, "bad-op") else
      match Morfuse.PtrCell.step st.s op with
      | none => (st, "bad-op")
      | some s' => let st' := { st with s := s' }; (st', "ok " ++ observe st')

def main : IO Unit := Driver.runLoop step {}
end Driver.PtrCell
