import MorfuseModel.SafePtr.Model
import Driver.Util
/-! driver for the SafePtr model (property C12) -/
namespace Driver.SafePtr
open Morfuse.SafePtr

structure St where
  s : State := init
  nObj : Nat := 3
  nRef : Nat := 5
  cont : List Nat := []      -- reference ids of the elements of a `con::Container<SafePtr<Obj>>`, in order
  nextC : Nat := 1000000
  quiet : Bool := false      -- large-ring families: accepted operations answer `ok` only, `obs` observes on demand

def parseOp : List String → Option Op
  | ["newobj", o] => do some (.newObj (← o.toNat?))
  | ["delobj", o] => do some (.delObj (← o.toNat?))
  | ["newref", r, o] => do some (.newRef (← r.toNat?) (← o.toNat?))
  | ["copyref", r, q] => do some (.copyRef (← r.toNat?) (← q.toNat?))
  | ["assignobj", r, o] => do some (.assignObj (← r.toNat?) (← o.toNat?))
  | ["assignref", r, q] => do some (.assignRef (← r.toNat?) (← q.toNat?))
  | ["clear", r] => do some (.clear (← r.toNat?))
  | ["delref", r] => do some (.delRef (← r.toNat?))
  | _ => none

/-- observation: for every constructed reference `r:pointer[:L|:N]` (last-reference flag only for
    non-null references — `IsLastReference` on a null reference is outside the property) -/
def observe (st : St) : String :=
  let parts := (List.range st.nRef).filterMap fun i =>
    let r := i + 1
    if st.s.liveR.get r = 1 then
      let p := pointer st.s r
      some (if p = 0 then s!"{r}:0" else s!"{r}:{p}:{if isLast st.s r then "L" else "N"}")
    else none
  let showRef (tag : String) (r : Nat) : String :=
    let p := pointer st.s r
    if p = 0 then s!"{tag}:0" else s!"{tag}:{p}:{if isLast st.s r then "L" else "N"}"
  let cparts := (st.cont.zipIdx).map fun (r, k) => showRef s!"c{k + 1}" r
  " ".intercalate (parts ++ cparts)

/-- observation token of one reference -/
def tokOf (st : St) (r : Nat) : String :=
  let p := pointer st.s r
  if p = 0 then "0" else s!"{p}:{if isLast st.s r then "L" else "N"}"

/-- run-length encoded observation (`obs`): maximal runs `a-b:token` of consecutive constructed reference
    ids with the same token, so that a ring of thousands of references is one short line -/
def observeRle (st : St) : String :=
  let flush (acc : Array String) (cur : Option (Nat × Nat × String)) : Array String :=
    match cur with
    | some (a, b, t) => acc.push s!"{a}-{b}:{t}"
    | none => acc
  let (acc, cur) := (List.range st.nRef).foldl (init := ((#[] : Array String), (none : Option (Nat × Nat × String))))
    fun (acc, cur) i =>
      let r := i + 1
      if st.s.liveR.get r = 1 then
        let t := tokOf st r
        match cur with
        | some (a, b, t') => if t' = t then (acc, some (a, r, t)) else (flush acc cur, some (r, r, t))
        | none => (acc, some (r, r, t))
      else (flush acc cur, none)
  let cparts := (st.cont.zipIdx).map fun (r, k) => s!"c{k + 1}:{tokOf st r}"
  " ".intercalate ((flush acc cur).toList ++ cparts)

def reply (st : St) : String := if st.quiet then "ok" else "ok " ++ observe st

/-- run several model operations; `none` if any is illegal -/
def runOps (s : State) (ops : List Op) : Option State := ops.foldlM (fun s op => Morfuse.SafePtr.step s op) s

def step (st : St) (t : List String) : St × String :=
  match t with
  | ["universe", no, nr] =>
    match no.toNat?, nr.toNat? with
    | some a, some b => ({ s := init, nObj := a, nRef := b }, "ok")
    | _, _ => (st, "bad-op")
  -- `universe o r q`: as `universe o r` with quiet mode on from the start (large-ring families)
  | ["universe", no, nr, "q"] =>
    match no.toNat?, nr.toNat? with
    | some a, some b => ({ s := init, nObj := a, nRef := b, quiet := true }, "ok")
    | _, _ => (st, "bad-op")
  | ["quiet", b] =>
    match b.toNat? with
    | some b => ({ st with quiet := b != 0 }, "ok")
    | none => (st, "bad-op")
  | ["obs"] => (st, "ok " ++ observeRle st)
  -- `mkrefs o a b`: references a..b onto object o, alternately `SafePtr r(o)` and `SafePtr r(previous)`
  | ["mkrefs", o, a, b] =>
    match o.toNat?, a.toNat?, b.toNat? with
    | some o, some a, some b =>
      if o > st.nObj || a == 0 || b > st.nRef || a > b then (st, "bad-op") else
      let ops := (List.range (b + 1 - a)).map fun k => if k % 2 == 1 then Op.copyRef (a + k) (a + k - 1) else Op.newRef (a + k) o
      match runOps st.s ops with
      | some s' => let st' := { st with s := s' }; (st', reply st')
      | none => (st, "bad-op")
    | _, _, _ => (st, "bad-op")
  -- `delrefs a b`: destroy the references a..b in increasing order
  | ["delrefs", a, b] =>
    match a.toNat?, b.toNat? with
    | some a, some b =>
      if a == 0 || b > st.nRef || a > b then (st, "bad-op") else
      match runOps st.s ((List.range (b + 1 - a)).map fun k => Op.delRef (a + k)) with
      | some s' => let st' := { st with s := s' }; (st', reply st')
      | none => (st, "bad-op")
    | _, _ => (st, "bad-op")
  -- move semantics: on this code base a move is a copy; the harness clears the source afterwards
  | ["moveassign", r, q] =>
    match r.toNat?, q.toNat? with
    | some r, some q =>
      if r > st.nRef || q > st.nRef || r == q then (st, "bad-op") else
      match runOps st.s [.assignRef r q, .clear q] with
      | some s' => let st' := { st with s := s' }; (st', reply st')
      | none => (st, "bad-op")
    | _, _ => (st, "bad-op")
  | ["movector", r, q] =>
    match r.toNat?, q.toNat? with
    | some r, some q =>
      if r > st.nRef || q > st.nRef then (st, "bad-op") else
      match runOps st.s [.copyRef r q, .clear q] with
      | some s' => let st' := { st with s := s' }; (st', reply st')
      | none => (st, "bad-op")
    | _, _ => (st, "bad-op")
  -- a container of weak references (the engine's ConList): AddObject / RemoveObjectAt / growth
  | ["cadd", o] =>
    match o.toNat? with
    | some o =>
      if o > st.nObj || st.cont.length ≥ 40 then (st, "bad-op") else
      match Morfuse.SafePtr.step st.s (.newRef st.nextC o) with
      | some s' => let st' := { st with s := s', cont := st.cont ++ [st.nextC], nextC := st.nextC + 1 }; (st', reply st')
      | none => (st, "bad-op")
    | none => (st, "bad-op")
  | ["cremove", i] =>
    match i.toNat? with
    | some i =>
      if i == 0 || i > st.cont.length then (st, "bad-op") else
      -- objlist[j] = move_if_noexcept(objlist[j+1]) for j = i-1 .. n-2, then destroy the last
      let ids := st.cont.drop (i - 1)
      let shifts := (ids.zip (ids.drop 1)).map (fun (a, b) => Op.assignRef a b)
      let last := st.cont.getLastD 0
      match runOps st.s (shifts ++ [.delRef last]) with
      | some s' => let st' := { st with s := s', cont := st.cont.dropLast }; (st', reply st')
      | none => (st, "bad-op")
    | none => (st, "bad-op")
  | _ =>
    match parseOp t with
    | none => (st, "bad-op")
    | some op =>
      -- ids outside the universe announced by the harness are rejected on both sides
      let inU : Bool := match op with
        | .newObj o | .delObj o => o ≤ st.nObj
        | .newRef r o | .assignObj r o => r ≤ st.nRef ∧ o ≤ st.nObj
        | .copyRef r q | .assignRef r q => r ≤ st.nRef ∧ q ≤ st.nRef
        | .clear r | .delRef r => r ≤ st.nRef
      if !inU then (st, "bad-op") else
      match Morfuse.SafePtr.step st.s op with
      | none => (st, "bad-op")
      | some s' => let st' := { st with s := s' }; (st', reply st')

def main : IO Unit := Driver.runLoop step {}
end Driver.SafePtr
