import MorfuseModel.SafePtr.Model
import Driver.Util
/-! driver for the SafePtr model (property C12) -/
namespace Driver.SafePtr
open Morfuse.SafePtr

structure St where
  s : State := init
  nObj : Nat := 3
  nRef : Nat := 5

def parseOp : List String → Option Op
  | ["newobj", o] => do some (.newObj (← o.toNat?))
  | ["delobj", o] => do some (.delObj (← o.toNat?))
  | ["newref", r, o] => do some (.newRef (← r.toNat?) (← o.toNat?))
  | ["copyref", r, q] => do some (.copyRef (← r.toNat?) (← q.toNat?))
  | ["assignobj", r, o] => do some (.assignObj (← r.toNat?) (← o.toNat?))
  | ["assignref", r, q] => do some (.assignRef (← r.toNat?) (← q.toNat?))
  | ["clear", r] => do some (.clear (← r.toNat?))
  | ["delref", r] => do some (.delRef (← r.toNat?))
  | _ => none

/-- observation: for every constructed reference `r:pointer[:L|:N]` (last-reference flag only for
    non-null references — `IsLastReference` on a null reference is outside the property) -/
def observe (st : St) : String :=
  let parts := (List.range st.nRef).filterMap fun i =>
    let r := i + 1
    if st.s.liveR.get r = 1 then
      let p := pointer st.s r
      some (if p = 0 then s!"{r}:0" else s!"{r}:{p}:{if isLast st.s r then "L" else "N"}")
    else none
  " ".intercalate parts

def step (st : St) (t : List String) : St × String :=
  match t with
  | ["universe", no, nr] =>
    match no.toNat?, nr.toNat? with
    | some a, some b => ({ s := init, nObj := a, nRef := b }, "ok")
    | _, _ => (st, "bad-op")
  | _ =>
    match parseOp t with
    | none => (st, "bad-op")
    | some op =>
      -- ids outside the universe announced by the harness are rejected on both sides
      let inU : Bool := match op with
        | .newObj o | .delObj o => o ≤ st.nObj
        | .newRef r o | .assignObj r o => r ≤ st.nRef ∧ o ≤ st.nObj
        | .copyRef r q | .assignRef r q => r ≤ st.nRef ∧ q ≤ st.nRef
        | .clear r | .delRef r => r ≤ st.nRef
      if !inU then (st, "bad-op") else
      match Morfuse.SafePtr.step st.s op with
      | none => (st, "bad-op")
      | some s' => let st' := { st with s := s' }; (st', "ok " ++ observe st')

def main : IO Unit := Driver.runLoop step {}
end Driver.SafePtr
