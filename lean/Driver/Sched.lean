import MorfuseModel.Sched.Machine
import Driver.Util
/-! driver for the scheduler machine (properties C05, C06, C07, C13; commands of harness/engine.cpp) -/
namespace Driver.Sched
open Morfuse.Sched

structure St where
  s : State := {}
  lastCall : Option Nat := none

def natsDot (x : String) : Option (List Nat) := (x.splitOn ".").mapM (·.toNat?)

def parseInstr (tok : String) : Option Instr :=
  let c := tok.front
  let rest := (tok.drop 1).toString
  match c with
  | 'm' => rest.toNat?.map .mark
  | 'w' => rest.toNat?.map .wait
  | 'W' => match natsDot rest with
    | some (o :: ns) => if ns.isEmpty then none else some (.waittill o ns)
    | _ => none
  | 'N' => match natsDot rest with | some [o, n] => some (.notify o n) | _ => none
  | 'E' => match natsDot rest with | some [o, n] => some (.endon o n) | _ => none
  | 'D' => rest.toNat?.map .delete
  | 'S' => rest.toNat?.map .spawn
  | 't' => rest.toNat?.map .thread
  | 'T' => rest.toNat?.map .waitthread
  | 'p' => if rest.isEmpty then some .pause else none
  | 'e' => if rest.isEmpty then some (.end_ none) else rest.toNat?.map (fun v => .end_ (some v))
  | _ => none

/-- labels separated by `/` -/
def parseProg (ts : List String) : Option (List (List Instr)) :=
  let groups := ts.foldl (fun (acc : List (List String)) t =>
    if t == "/" then acc ++ [[]] else
    match acc.reverse with
    | [] => [[t]]
    | last :: initRev => initRev.reverse ++ [last ++ [t]]) [[]]
  groups.mapM (fun g => g.mapM parseInstr)

def showRet : Ret → String
  | .open_ => "open" | .none => "none" | .pending => "pending" | .nil => "nil" | .int v => s!"i{v}"

def takeOut (s : State) : State × String :=
  ({ s with out := [] }, "[" ++ "|".intercalate s.out.reverse ++ "]")

def trailer (s : State) : String :=
  let cls := s.insts.length
  let thr := (s.threads.filter (fun e => !e.2.dead)).length
  let vm := (s.threads.filter (fun e => e.2.vmObj)).length
  s!" idle={if cls == 0 then 1 else 0} cls={cls} thr={thr} vm={vm} tim={s.timer.elems.length} ev=0 cur={if s.cur.isSome then 1 else 0}"

def reply (st : St) (status : String) (extra : String := "") : St × String :=
  let (s', o) := takeOut st.s
  let fuelNote := if s'.outOfFuel then " FUEL" else ""
  ({ st with s := s' }, s!"{status} out={o}{extra}{trailer s'}{fuelNote}")

def labelIdx (l : String) : Option Nat :=
  if l.front == 't' then (l.drop 1).toString.toNat? else none

def step (st : St) (t : List String) : St × String :=
  match t with
  | ["reset"] => reply {} "ok"
  | "script" :: _name :: _hex :: "##" :: abs =>
    match parseProg abs with
    | some p => reply { st with s := { st.s with prog := p } } "ok"
    | none => (st, "bad-op")
  | "call" :: _name :: label :: _args =>
    match labelIdx label with
    | none => (st, "bad-op")
    | some l =>
      let c := st.s.nextCall
      let (s', status) := hostCall st.s l
      if status == "ok" then
        reply { s := s', lastCall := some c } status s!" ret={showRet (s'.getRet c)}"
      else reply { st with s := s' } status
  | ["thread-result"] =>
    match st.lastCall with
    | some c => reply st "ok" s!" ret={showRet (st.s.getRet c)}"
    | none => reply st "ok" " ret=none"
  | ["advance", n] =>
    match n.toNat? with
    | some k => reply { st with s := { st.s with clock := st.s.clock + k } } "ok"
    | none => (st, "bad-op")
  | ["execute"] => reply { st with s := hostExecute st.s } "ok"
  | ["step", n] =>
    match n.toNat? with
    | some k => reply { st with s := hostExecute { st.s with clock := st.s.clock + k } } "ok"
    | none => (st, "bad-op")
  | _ => (st, "bad-op")

def main : IO Unit := Driver.runLoop step {}
end Driver.Sched
