import MorfuseModel.Sched.Machine
import MorfuseModel.Sched.Snapshot
import MorfuseModel.Sched.HostOps
import Driver.Util
/-! driver for the scheduler machine (properties C05, C06, C07, C13; commands of harness/engine.cpp) -/
namespace Driver.Sched
open Morfuse.Sched

structure St where
  s : State := {}
  lastCall : Option Nat := none
  saved : Option Snap := none

def natsDot (x : String) : Option (List Nat) := (x.splitOn ".").mapM (·.toNat?)

def parseInstr (tok : String) : Option Instr :=
  let c := tok.front
  let rest := (tok.drop 1).toString
  match c with
  | 'm' => rest.toNat?.map .mark
  | 'w' => rest.toNat?.map .wait
  | 'W' => match natsDot rest with
    | some (o :: ns) => if ns.isEmpty then none else some (.waittill o ns)
    | _ => none
  | 'X' => match natsDot rest with | some [o, n, ms] => some (.waittillTimeout o n ms) | _ => none
  | 'N' => match natsDot rest with | some [o, n] => some (.notify o n) | _ => none
  | 'E' => match natsDot rest with | some [o, n] => some (.endon o n) | _ => none
  | 'D' => rest.toNat?.map .delete
  | 'S' => rest.toNat?.map .spawn
  | 't' => rest.toNat?.map .thread
  | 'T' => rest.toNat?.map .waitthread
  | 'p' => if rest.isEmpty then some .pause else none
  | 'R' => rest.toNat?.map .waitParent
  | 'Y' => match natsDot rest with | some ns => if ns.isEmpty then none else some (.waittillParent ns) | none => none
  | 'Z' => rest.toNat?.map .notifyParent
  | 'P' => rest.toNat?.map .pparam
  | 'e' =>
    if rest.isEmpty then some (.end_ .none)
    else if rest.front == 'P' then (rest.drop 1).toString.toNat?.map (fun i => .end_ (.param i))
    else rest.toNat?.map (fun v => .end_ (.lit v))
  | _ => none

def hexVal (c : Char) : Option Nat :=
  if '0' ≤ c ∧ c ≤ '9' then some (c.toNat - '0'.toNat)
  else if 'a' ≤ c ∧ c ≤ 'f' then some (c.toNat - 'a'.toNat + 10) else none

def unhex : List Char → Option (List Char)
  | [] => some []
  | a :: b :: rest => do
    let x ← hexVal a; let y ← hexVal b
    let r ← unhex rest
    some (Char.ofNat (16 * x + y) :: r)
  | _ => none

/-- host argument tokens: `i<int>`, `s<hex>`, `n` -/
def parseArg (t : String) : Option V :=
  let rest := (t.drop 1).toString
  match t.front with
  | 'i' => rest.toNat?.map .int
  | 's' => (unhex rest.toList).map (fun cs => .str (String.ofList (cs.map (fun c => if c == ' ' then '_' else c))))
  | 'n' => if rest.isEmpty then some .nil else none
  | _ => none

/-- a label group may start with `(k)`: the number of declared parameters -/
def splitParams (g : List String) : Nat × List String :=
  match g with
  | h :: rest =>
    if h.front == '(' then (((h.drop 1).toString.dropEnd 1).toString.toNat?.getD 0, rest) else (0, g)
  | [] => (0, [])

/-- labels separated by `/` -/
def parseProg (ts : List String) : Option (List (Nat × List Instr)) :=
  let groups := ts.foldl (fun (acc : List (List String)) t =>
    if t == "/" then acc ++ [[]] else
    match acc.reverse with
    | [] => [[t]]
    | last :: initRev => initRev.reverse ++ [last ++ [t]]) [[]]
  groups.mapM (fun g => let (k, r) := splitParams g; (r.mapM parseInstr).map (fun is => (k, is)))

def showRet : Ret → String
  | .open_ => "open" | .none => "none" | .pending => "pending" | .nil => "nil"
  | .val (.int v) => s!"i{v}" | .val (.str x) => s!"s{x}" | .val .nil => "nil"

def takeOut (s : State) : State × String :=
  (HostOp.apply s .takeOut, "[" ++ "|".intercalate s.out.reverse ++ "]")

def trailer (s : State) : String :=
  let cls := s.insts.length
  let thr := (s.threads.filter (fun e => !e.2.dead)).length
  let vm := (s.threads.filter (fun e => e.2.vmObj)).length
  s!" idle={if cls == 0 && s.events.isEmpty then 1 else 0} cls={cls} thr={thr} vm={vm} tim={s.timer.elems.length} ev={s.events.length} cur={if s.cur.isSome then 1 else 0}"

def reply (st : St) (status : String) (extra : String := "") : St × String :=
  let (s', o) := takeOut st.s
  let fuelNote := if s'.outOfFuel then " FUEL" else ""
  ({ st with s := s' }, s!"{status} out={o}{extra}{trailer s'}{fuelNote}")

/-- `t<k>` names label k.  `T<k>` is the same name spelled in upper case: the renderer declares every label
in lower case and label names are case sensitive, so it names no label of the program (an index past the
last label: `hostCallStatus` answers LabelNotFound and the call leaves nothing behind). -/
def labelIdx (nlabels : Nat) (l : String) : Option Nat :=
  if l.front == 't' then (l.drop 1).toString.toNat?
  else if l.front == 'T' then ((l.drop 1).toString.toNat?).map (· + nlabels) else none

def step (st : St) (t : List String) : St × String :=
  match t with
  | ["reset"] => reply { s := HostOp.apply st.s .reset } "ok"
  | "script" :: _name :: _hex :: "##" :: abs =>
    match parseProg abs with
    | some p => reply { st with s := HostOp.apply st.s (.script (p.map (·.2)) (p.map (·.1))) } "ok"
    | none => (st, "bad-op")
  | "call" :: _name :: label :: args =>
    -- no script compiled under that name: the engine's file lookup fails with a script error
    if st.s.prog.isEmpty then reply { st with lastCall := none } "err ScriptError" else
    match labelIdx st.s.prog.length label, args.mapM parseArg with
    | none, _ => (st, "bad-op")
    | _, none => (st, "bad-op")
    | some l, some vs =>
      let c := st.s.nextCall
      let status := hostCallStatus st.s l
      let s' := HostOp.apply st.s (.call l vs)
      if status == "ok" then
        reply { s := s', lastCall := some c } status s!" ret={showRet (s'.getRet c)}"
      else reply { s := s', lastCall := none } status      -- the host's Event of the failed call holds no result
  | ["callv", _name, label] =>
    -- `director.ExecuteThread(script, label)`: no host Event, no result cell
    if st.s.prog.isEmpty then reply st "err ScriptError" else
    match labelIdx st.s.prog.length label with
    | none => (st, "bad-op")
    | some l =>
      let status := hostCallStatus st.s l
      reply { st with s := HostOp.apply st.s (.callv l) } status
  -- a file the engine may open by name later; the machine has one program only and starts of labels in
  -- other files are rendered from out-of-range labels (tools/vlib/schedgen.py `badstart`)
  | ["source", _name, _hex] => reply st "ok"
  | ["save"] => reply { st with saved := some (save st.s) } "ok"
  | ["load"] =>
    match st.saved with
    | none => (st, "bad-op")
    | some k => reply { st with s := load (killAllInsts st.s) k } "ok"
  | ["thread-result"] =>
    -- every host call record since the last reset, in call order
    let rs := st.s.calls.map (fun e => showRet e.2)
    reply st "ok" s!" ret={if rs.isEmpty then "none" else ",".intercalate rs}"
  | ["advance", n] =>
    match n.toNat? with
    | some k => reply { st with s := HostOp.apply st.s (.advance k) } "ok"
    | none => (st, "bad-op")
  | ["reset-director"] => reply { st with s := HostOp.apply st.s .resetDirector } "ok"
  | ["execute"] => reply { st with s := HostOp.apply st.s .execute } "ok"
  | ["step", n] =>
    match n.toNat? with
    | some k => reply { st with s := HostOp.apply st.s (.step k) } "ok"
    | none => (st, "bad-op")
  | _ => (st, "bad-op")

def main : IO Unit := Driver.runLoop step {}
end Driver.Sched
