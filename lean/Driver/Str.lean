import MorfuseModel.Str.Model
import Driver.Util
/-! driver for the `mfuse::str` model (property C18).  Four `str` objects `0 … 3`; texts travel
hex-encoded (`-` is the empty text, no NUL bytes), characters as decimal byte values. -/
namespace Driver.Str
open Morfuse.Str

def NH : Nat := 4

structure St where
  s : State := init

def hexVal (c : Char) : Option Nat :=
  if '0' ≤ c ∧ c ≤ '9' then some (c.toNat - '0'.toNat)
  else if 'a' ≤ c ∧ c ≤ 'f' then some (c.toNat - 'a'.toNat + 10)
  else none

def bytes? (t : String) : Option (List UInt8) :=
  if t = "-" then some [] else
  let rec go : List Char → List UInt8 → Option (List UInt8)
    | [], acc => some acc.reverse
    | [_], _ => none
    | a :: b :: r, acc =>
      match hexVal a, hexVal b with
      | some x, some y => if x * 16 + y = 0 then none else go r (UInt8.ofNat (x * 16 + y) :: acc)
      | _, _ => none
  if t.isEmpty then none else go t.toList []

def hexDigit (n : Nat) : Char := if n < 10 then Char.ofNat (48 + n) else Char.ofNat (87 + n)

def toHex (bs : List UInt8) : String :=
  if bs.isEmpty then "-" else String.ofList (bs.flatMap fun b => [hexDigit (b.toNat / 16), hexDigit (b.toNat % 16)])

def h? (t : String) : Option Nat := do
  let h ← t.toNat?
  if h < NH then some h else none

def ch? (t : String) : Option UInt8 := do
  let c ← t.toNat?
  if 0 < c ∧ c < 256 then some (UInt8.ofNat c) else none

def small? (t : String) : Option Nat := do
  let n ← t.toNat?
  if n ≤ 1000000 then some n else none

def showH (s : State) (h : Nat) : String :=
  let p := ptr s h
  if p = 0 then "- 0 n - -"
  else
    let grp := ((List.range NH).find? fun g => ptr s g = p).getD h
    match s.heap.get? p with
    | some d => s!"{toHex d.bytes} {d.len} g{grp} {d.refcount} {d.alloced}"
    | none => "FREED"

def obs (s : State) : String :=
  " | ".intercalate ((List.range NH).map (showH s)) ++ s!" | blocks={s.heap.size}"

def parseOp : List String → Option Op
  | ["ctor", h, t] => do some (.ctorText (← h? h) (← bytes? t))
  | ["ctorn", h, t, n] => do
    let t ← bytes? t; let n ← small? n
    if n ≤ t.length then some (.ctorTextN (← h? h) t n) else none
  | ["ctorc", h, c] => do some (.ctorChar (← h? h) (← ch? c))
  | ["ctorsub", h, g, a, b] => do some (.ctorSub (← h? h) (← h? g) (← small? a) (← small? b))
  | ["cctor", h, g] => do some (.ctorCopy (← h? h) (← h? g))
  | ["copy", h, g] => do some (.assignStr (← h? h) (← h? g))
  | ["move", h, g] => do some (.assignMove (← h? h) (← h? g))
  | ["assign", h, t] => do some (.assignText (← h? h) (← bytes? t))
  | ["assignn", h, t, n] => do
    let t ← bytes? t; let n ← small? n
    if n ≤ t.length then some (.assignN (← h? h) t n) else none
  | ["app", h, g] => do some (.appendStr (← h? h) (← h? g))
  | ["apps", h, t] => do some (.appendText (← h? h) (← bytes? t))
  | ["appc", h, c] => do some (.appendChar (← h? h) (← ch? c))
  | ["plus", h, a, b] => do some (.plus (← h? h) (← h? a) (← h? b))
  | ["setc", h, i, c] => do some (.setChar (← h? h) (← small? i) (← ch? c))
  | ["cap", h, n] => do some (.capLength (← h? h) (← small? n))
  | ["minus", h, n] => do some (.minus (← h? h) (← small? n))
  | ["lower", h] => do some (.lower (← h? h))
  | ["upper", h] => do some (.upper (← h? h))
  | ["strip", h] => do some (.strip (← h? h))
  | ["reserve", h, n] => do some (.reserve (← h? h) (← small? n))
  | ["clear", h] => do some (.clear (← h? h))
  | _ => none

def showInt (i : Int) : String := if i < 0 then "-1" else if i > 0 then "1" else "0"

/-- queries: `some (some r)` answer, `some none` undefined behaviour, `none` not a query -/
def query (s : State) : List String → Option (Option String)
  | ["getc", h, i] => do
    let h ← h? h; let i ← small? i
    some (some s!"{(getChar s h i).toNat}")
  | ["eq", a, b] => do
    let a ← h? a; let b ← h? b
    some (some (if eqStr s a b then "true" else "false"))
  | ["eqs", a, t] => do
    let a ← h? a; let t ← bytes? t
    some (some (if cmpn (cstr s a) t ((cstr s a).length + t.length + 1) = 0 then "true" else "false"))
  | ["icmp", a, b] => do
    let a ← h? a; let b ← h? b
    some (some (showInt (icmpn (cstr s a) (cstr s b) ((cstr s a).length + (cstr s b).length + 1))))
  | ["cmpn", a, b, n] => do
    let a ← h? a; let b ← h? b; let n ← small? n
    some (some (showInt (cmpn (cstr s a) (cstr s b) n)))
  | ["icmpn", a, b, n] => do
    let a ← h? a; let b ← h? b; let n ← small? n
    match icmpnStr s a b n with
    | .ok r => some (some (showInt r))
    | .error _ => some none
  | ["icmps", a, t] => do
    -- icmp(const CharT*): `m_data->data()` with the assert compiled out
    let a ← h? a; let t ← bytes? t
    if ptr s a = 0 then some none
    else some (some (showInt (icmpn (cstr s a) t ((cstr s a).length + t.length + 1))))
  | _ => none

def step (st : St) (t : List String) : St × String :=
  match t with
  | ["reset"] => ({}, "ok - | " ++ obs init)
  | _ =>
    match query st.s t with
    | some (some r) => (st, s!"ok {r} | {obs st.s}")
    | some none => (st, "ub")
    | none =>
      match parseOp t with
      | none => (st, "bad-op")
      | some op =>
        match Morfuse.Str.step st.s op with
        | .error _ => (st, "ub")
        | .ok s => ({ s := s }, s!"ok - | {obs s}")

def main : IO Unit := Driver.runLoop step {}
end Driver.Str
