import MorfuseModel.Target.Model
import Driver.Util
/-! driver for the `$name` model (property C15); protocol described in harness/target.cpp -/
namespace Driver.Target
open Morfuse.Target

structure St where
  cfg : Cfg := {}
  s : State := init
  /-- a Warn stream is attached: without one `HandleScriptException` prints nothing (the `!…`
      tokens), everything else is the same -/
  warn : Bool := true

def ids (rs : List WeakRef) : String :=
  ",".intercalate (rs.map fun r => match r with | some o => toString o | none => "0")

/-- canonical dump of the table (names 1..5), the live objects and their counters -/
def dump (s : State) : String :=
  let names := [1, 2, 3, 4, 5]
  let t := ";".intercalate (names.map fun n => s!"{n}={ids (listOf s n)}")
  let objs := (List.range s.nextObj).filter fun o => s.alive o
  let a := ",".intercalate (objs.map toString)
  let c := ",".intercalate (objs.map fun o => s!"{o}:{s.cnt o}:{s.fld o}")
  -- G[..]: the setter-backed `target` field ("t<k>" is k, never set = 0) and the cached targetname
  -- (`TargetComponent::GetTargetName`, names as in T[..]; the empty resolvable reads as "" = 1)
  let g := ",".intercalate (objs.map fun o => s!"{o}:{s.tgt o}:{s.comp o}")
  s!"T[{t}] A[{a}] C[{c}] G[{g}]"

def parseName (t : String) : Option Name := do
  let n ← t.toNat?
  if n ≤ 5 then some n else none

def parseWho (t : String) : Option Who :=
  if t = "self" then some .self
  else if t.startsWith "o" then
    match (t.drop 1).toNat? with
    | some k => if k = 0 then none else some (.obj k)     -- objects are numbered from 1
    | none => none
  else none

def parseSrc (t : String) : Option Src :=
  if t.startsWith "$" then (parseName (t.drop 1).toString).map .name
  else if t.startsWith "v" then (t.drop 1).toNat?.map .val
  else none

def parseAct : List String → Option Act
  | ["spawn", n] => do some (.spawn (← parseName n))
  | ["setname", w, n] => do some (.setName (← parseWho w) (← parseName n))
  | ["delete", w] => do some (.delete (← parseWho w))
  | ["mark", w] => do some (.mark (← parseWho w))
  | ["hello"] => some .hello
  | ["capture", v, n] => do some (.capture (← v.toNat?) (← parseName n))
  | ["copy", v, w] => do some (.copy (← v.toNat?) (← w.toNat?))
  | ["query", x] => do some (.query (← parseSrc x))
  | ["size", x] => do some (.size (← parseSrc x))
  | ["index", x, i] => do some (.index (← parseSrc x) (← i.toNat?))
  | _ => none

/-- split on ";" tokens -/
def splitActs (t : List String) : List (List String) :=
  let rec go (cur : List String) (acc : List (List String)) : List String → List (List String)
    | [] => (if cur.isEmpty then acc else cur.reverse :: acc).reverse
    | x :: xs => if x = ";" then go [] (cur.reverse :: acc) xs else go (x :: cur) acc xs
  go [] [] t

def parseStmt : List String → Option Stmt
  | "fan" :: x :: rest => do
    let src ← parseSrc x
    let h ← (splitActs rest).mapM parseAct
    some (.fan src h)
  | ["fanname", x, n] => do some (.fanName (← parseSrc x) (← parseName n))
  | ["fandelete", x] => do some (.fanDelete (← parseSrc x))
  | ["fieldset", x, v] => do some (.fieldSet (← parseSrc x) (← v.toNat?))
  | ["fieldtarget", x, v] => do some (.fieldSetter (← parseSrc x) (.target (← v.toNat?)))
  | ["fieldname", x, n] => do some (.fieldSetter (← parseSrc x) (.name (← parseName n)))
  | t => (parseAct t).map .act

def flag (t : String) (key : String) : Option Nat :=
  if t.startsWith (key ++ "=") then (t.drop (key.length + 1)).toNat? else none

def hostOk (st : St) (r : String) (s' : State) : St × String :=
  ({ st with s := s' }, s!"ok {r} {dump s'}")

def step (st : St) (t : List String) : St × String :=
  match t with
  | ["universe", sn, ff, mx] =>
    match flag sn "snapshot", flag ff "fieldfan", flag mx "max" with
    | some a, some b, some c => ({ cfg := { snapshot := a == 1, fieldFan := b == 1, maxObj := c }, s := init }, "ok")
    | _, _, _ => (st, "bad-op")
  -- with the output streams of the context: dbg = Debug attached, warn = Warn attached,
  -- dev = developer mode (source positions in front of warnings; dropped by the harness)
  | ["universe", sn, ff, mx, dg, wn, dv] =>
    match flag sn "snapshot", flag ff "fieldfan", flag mx "max", flag dg "dbg", flag wn "warn", flag dv "dev" with
    | some a, some b, some c, some d, some w, some _ =>
      ({ cfg := { snapshot := a == 1, fieldFan := b == 1, maxObj := c, dbg := d == 1 }, s := init, warn := w == 1 }, "ok")
    | _, _, _, _, _, _ => (st, "bad-op")
  -- host level: calls on the real TargetList / TargetComponent
  | ["spawn"] =>
    if st.cfg.maxObj < st.s.nextObj then (st, "bad-op") else
    hostOk st s!"sp={st.s.nextObj}" (spawnObj st.s)
  | ["setname", o, n] =>
    match o.toNat?, parseName n with
    | some o, some n => if st.s.alive o then hostOk st "-" (setTargetName st.s o n) else (st, "bad-op")
    | _, _ => (st, "bad-op")
  | ["delete", o] =>
    match o.toNat? with
    | some o => if st.s.alive o then hostOk st "-" (destroy st.s o) else (st, "bad-op")
    | none => (st, "bad-op")
  | ["gettarget", n] =>
    match parseName n with
    | some n =>
      let r := match getTarget st.s n with
        | .none => "r=0"
        | .one r => s!"r={ids [r]}"
        | .multiple k => s!"r=multi:{k}"
      hostOk st r st.s
    | none => (st, "bad-op")
  | ["getnext", o, n] =>
    match o.toNat?, parseName n with
    | some o, some n =>
      if o ≠ 0 ∧ !st.s.alive o then (st, "bad-op") else
      hostOk st s!"r={ids [getNextTarget st.s (if o = 0 then none else some o) n]}" st.s
    | _, _ => (st, "bad-op")
  | ["index", o, n] =>
    match o.toNat?, parseName n with
    | some o, some n =>
      if !st.s.alive o then (st, "bad-op") else hostOk st s!"r={getTargetnameIndex st.s o n}" st.s
    | _, _ => (st, "bad-op")
  -- script level: `s <hex of the rendered script> ## <abstract statement>`
  | ["s", _, "##", "init"] => (st, s!"ok out=[] {dump st.s}")
  | "s" :: _ :: "##" :: rest =>
    match parseStmt rest with
    | none => (st, "bad-op")
    | some stm =>
      match stmt st.cfg { st.s with out := [] } stm with
      | .ub => (st, "ub")
      | .ok s' =>
        let shown := if st.warn then s'.out else s'.out.filter fun t => !t.startsWith "!"
        ({ st with s := s' }, s!"ok out=[{"|".intercalate shown}] {dump s'}")
  | _ => (st, "bad-op")

def main : IO Unit := Driver.runLoop step {}
end Driver.Target
