import MorfuseModel.Unwind.Model
import Driver.Util
/-! driver for the unwind model (property C14): the same command lines as `harness/engine.cpp` in its
`c14reset` observation mode, one answer line per command. -/
namespace Driver.Unwind
open Morfuse.Unwind

structure DSt where
  s : St := {}
  cfg : Cfg := {}
  prog : Prog := []
  tickMs : Nat := 0

def parseOp (tok : String) : Option Op :=
  let rest := (tok.drop 1).toString
  match tok.front with
  | 'n' => if rest.isEmpty then some .nop else none
  | 'd' => if rest.isEmpty then some .done else none
  | 'e' => if rest.isEmpty then some (.raise false) else none
  | 'E' => if rest.isEmpty then some (.raise true) else none
  | 'j' => rest.toNat?.map .jmp
  | 'c' => rest.toNat?.map .setc
  | 't' => rest.toNat?.map .loopTest
  | 's' => rest.toNat?.map (.spawn · false)
  | 'w' => rest.toNat?.map (.spawn · true)
  | 'N' => rest.toNat?.map .notify
  | 'W' => rest.toNat?.map .waittill
  | 'y' => rest.toNat?.map .wait
  | 'p' => rest.toNat?.map .print
  | _ => none

/-- `l0ops/l1ops/…`, ops separated by `,` -/
def parseProg (t : String) : Option Prog :=
  (t.splitOn "/").mapM (fun l => if l.isEmpty then some [] else (l.splitOn ",").mapM parseOp)

def fuel : Nat := 40000

def env (d : DSt) : Env := { cfg := d.cfg, prog := d.prog, inc := fun _ => d.tickMs }

def b (x : Bool) : String := if x then "1" else "0"

def excName : Exc → String
  | .overflow => "CommandOverflow"
  | .depth => "MaxStackDepth"
  | .abort => "Abort"
  | .scriptError => "ScriptError"

def count (p : Diag → Bool) (l : List Diag) : Nat := (l.filter p).length

def answer (s : St) (diag : List Diag) : String :=
  let status := if s.ub then "ub" else match s.exc with | some e => "err " ++ excName e | none => "ok"
  let outs := diag.filterMap (fun d => match d with | .out m => some s!"m{m}" | _ => none)
  let verbs := diag.filterMap (fun d => match d with | .verbFrame k => some (toString k) | _ => none)
  let n := s.threads.length
  let cls := (s.threads.map (·.2.grp)).eraseDups.length
  s!"{status} out=[{"|".intercalate outs}] idle={b (n == 0)} cls={cls} thr={n} vm={n} tim={s.timer.elems.length} ev=0" ++
  s!" cur={b s.cur.isSome} prev={b s.prev.isSome} depth={s.depth} clk={s.now}" ++
  s!" dbg={count (· == .dbgUpdate) diag} warn={count (· == .warn) diag} err={count (· == .errPos) diag}" ++
  s!" verb=[{".".intercalate verbs}]"

/-- finish a host operation: run to the end, print, clear the per-command observations -/
def finish (d : DSt) (s : St) : DSt × String :=
  match runToHalt (env d) fuel (s, []) with
  | some (s', diag) => ({ d with s := { s' with exc := none } }, answer s' diag)
  | none => ({ d with s := { s with stack := [], exc := none, ub := true } }, "hang")

def step (d : DSt) (t : List String) : DSt × String :=
  if d.s.ub && t != ["c14reset"] then (d, "ub") else
  match t with
  | ["c14reset"] =>
    let d : DSt := { s := { depth := d.s.depth }, cfg := { maxDepth := d.cfg.maxDepth }, tickMs := 0 }
    -- the harness restores the default nesting limit and streams, zeroes the clock, creates a context
    let d := { d with cfg := {} }
    finish d (fresh (env d) { d.s with now := 0 })
  | ["cfg", "maxexec", v] => match v.toNat? with
    | some v => finish { d with cfg := { d.cfg with maxExec := v } } d.s
    | none => (d, "bad-op")
  | ["cfg", "loopprot", v] => finish { d with cfg := { d.cfg with prot := v == "1" } } d.s
  | ["cfg", "depth", v] => match v.toNat? with
    | some v => finish { d with cfg := { d.cfg with maxDepth := v } } d.s
    | none => (d, "bad-op")
  | ["cfg", "clockstep", v] => match v.toNat? with
    | some v => finish { d with tickMs := v } d.s
    | none => (d, "bad-op")
  | ["cfg", "developer", v] => finish { d with cfg := { d.cfg with dev := v == "1" } } d.s
  | ["cfg", "stream", i, v] =>
    let on := v == "1"
    match i with
    | "0" => finish { d with cfg := { d.cfg with sOut := on } } d.s
    | "1" => finish { d with cfg := { d.cfg with sWarn := on } } d.s
    | "2" => finish { d with cfg := { d.cfg with sDbg := on } } d.s
    | "3" => finish { d with cfg := { d.cfg with sErr := on } } d.s
    | "4" => finish { d with cfg := { d.cfg with sVerb := on } } d.s
    | _ => (d, "bad-op")
  | "script" :: "m" :: _hex :: "##" :: [p] =>
    match parseProg p with
    | some p =>
      -- recompile: every instance of the old program is deleted
      let d := { d with prog := p, s := if d.prog.isEmpty then d.s else resetDirector d.s }
      finish d d.s
    | none => (d, "bad-op")
  | ["call", "m", l] =>
    match (l.drop 1).toString.toNat? with
    | some l => if l < d.prog.length then finish d (startCall (env d) d.s l) else (d, "bad-op")
    | none => (d, "bad-op")
  | ["advance", ms] => match ms.toNat? with
    | some ms => finish d { d.s with now := d.s.now + ms }
    | none => (d, "bad-op")
  | ["execute"] => finish d (startExecute (env d) d.s)
  | ["step", ms] => match ms.toNat? with
    | some ms => finish d (startExecute (env d) { d.s with now := d.s.now + ms })
    | none => (d, "bad-op")
  | ["reset-director"] => finish d (resetDirector d.s)
  | _ => (d, "bad-op")

def main : IO Unit := Driver.runLoop step {}
end Driver.Unwind
