/-! line-protocol plumbing shared by all model drivers -/
namespace Driver

def toks (line : String) : List String :=
  (line.trimAscii.toString.splitOn " ").filter (· ≠ "")

def nats? (l : List String) : Option (List Nat) := l.mapM (·.toNat?)

/-- run `step` over stdin, one output line per input line -/
partial def loop {σ : Type} (step : σ → List String → σ × String) (h : IO.FS.Stream) (out : IO.FS.Stream) (s : σ) : IO Unit := do
  let line ← h.getLine
  if line.isEmpty then
    out.flush
    return ()
  let (s', o) := step s (toks line)
  out.putStrLn o
  loop step h out s'

def runLoop {σ : Type} (step : σ → List String → σ × String) (s : σ) : IO Unit := do
  loop step (← IO.getStdin) (← IO.getStdout) s

end Driver
