import MorfuseModel.VMOps.Step
import MorfuseModel.VMOps.VM
import MorfuseModel.Gen.OpAccept
import Driver.Util
/-! line protocol of the `vmops` area (same as harness/vmops.cpp; see there for the value syntax) -/
namespace Driver.VMOps
open Morfuse.VMOps Morfuse

/-- the repairs the source under check shows (regenerated on every run) -/
def fixes : Fixes :=
  { divMin := Gen.OpAccept.fix_divMin, shiftCount := Gen.OpAccept.fix_shiftCount,
    vecDivAlias := Gen.OpAccept.fix_vecDivAlias, safeContainerBound := Gen.OpAccept.fix_safeContainerBound,
    negIndexStore := Gen.OpAccept.fix_negIndexStore, floatCast := Gen.OpAccept.fix_floatCast,
    floatStr := Gen.OpAccept.fix_floatStr }

def hexDigit (c : Char) : Option Nat :=
  if '0' ≤ c ∧ c ≤ '9' then some (c.toNat - 48)
  else if 'a' ≤ c ∧ c ≤ 'f' then some (c.toNat - 87)
  else if 'A' ≤ c ∧ c ≤ 'F' then some (c.toNat - 55)
  else none

abbrev P := List Char → Option (Val × List Char)

def takeHexRun (s : List Char) : List Char × List Char := (s.takeWhile (hexDigit · |>.isSome), s.dropWhile (hexDigit · |>.isSome))

def unhex : List Char → Option Bytes
  | [] => some []
  | a :: b :: t => do
    let x ← hexDigit a
    let y ← hexDigit b
    let r ← unhex t
    pure (UInt8.ofNat (x * 16 + y) :: r)
  | _ => none

def hex32 (s : List Char) : Option (UInt32 × List Char) :=
  if s.length < 8 then none else
  (s.take 8).foldlM (fun acc c => (hexDigit c).map (acc * 16 + ·)) 0 |>.map fun v => (UInt32.ofNat v, s.drop 8)

def parseInt (s : List Char) : Option (Int × List Char) :=
  let (neg, t) := match s with
    | '-' :: t => (true, t)
    | _ => (false, s)
  let ds := t.takeWhile Char.isDigit
  if ds.isEmpty || ds.length > 19 then none
  else
    let n : Nat := ds.foldl (fun acc c => acc * 10 + (c.toNat - 48)) 0
    let v : Int := if neg then -(n : Int) else n
    if v < -(2 ^ 63) || v > 2 ^ 63 - 1 then none else some (v, t.drop ds.length)

def objOf (n : Int) : Option Obj :=
  if n == 0 then some none else if 1 ≤ n ∧ n ≤ 4 then some (some n.toNat) else none

/-- `n;n;…}` -/
partial def parseObjs (s : List Char) (acc : List Obj) : Option (List Obj × List Char) :=
  match s with
  | '}' :: t => some (acc.reverse, t)
  | _ => do
    let (n, t) ← parseInt s
    let o ← objOf n
    let t := match t with
      | ';' :: u => u
      | _ => t
    parseObjs t (o :: acc)

def hashable : Val → Bool
  | .int _ | .str _ | .cstr _ | .obj _ => true
  | _ => false

partial def parseVal (depth : Nat) (s : List Char) : Option (Val × List Char) :=
  if depth > 4 then none else
  match s with
  | 'n' :: 'i' :: 'l' :: t => some (.nil, t)
  | 'R' :: t => do
    let (v, t) ← parseVal (depth + 1) t
    pure (.ref v, t)
  | 'P' :: t => some (.ptr, t)
  | 'A' :: '{' :: t => parseArr depth t []
  | 'C' :: '{' :: t => parseCarr depth t []
  | 'T' :: '{' :: t => (parseObjs t []).map fun (l, t) => (.cont l, t)
  | 'S' :: '!' :: t => some (.scont none, t)
  | 'S' :: '{' :: t => (parseObjs t []).map fun (l, t) => (.scont (some l), t)
  | 'i' :: ':' :: t => (parseInt t).map fun (v, t) => (.int (BitVec.ofInt 64 v), t)
  | 'f' :: ':' :: t => (hex32 t).map fun (b, t) => (.flt b, t)
  | 'c' :: ':' :: t => do
    let (v, t) ← parseInt t
    if v < 0 || v > 255 then none else pure (.chr (UInt8.ofNat v.toNat), t)
  | 's' :: ':' :: t => let (h, r) := takeHexRun t; (unhex h).map fun b => (.str b, r)
  | 'k' :: ':' :: t => let (h, r) := takeHexRun t; (unhex h).map fun b => (.cstr b, r)
  | 'l' :: ':' :: t => do
    let (n, t) ← parseInt t
    let o ← objOf n
    pure (.obj o, t)
  | 'd' :: ':' :: t => (parseInt t).map fun (_, t) => (.obj none, t)
  | 'v' :: ':' :: t => do
    let (x, t) ← hex32 t
    let t ← (match t with | '/' :: u => some u | _ => none)
    let (y, t) ← hex32 t
    let t ← (match t with | '/' :: u => some u | _ => none)
    let (z, t) ← hex32 t
    pure (.vec x y z, t)
  | _ => none
where
  parseArr (depth : Nat) (s : List Char) (acc : List (Val × Val)) : Option (Val × List Char) :=
    match s with
    | '}' :: t => some (.arr acc, t)
    | _ => do
      let (k, t) ← parseVal (depth + 1) s
      let t ← (match t with | '=' :: u => some u | _ => none)
      let (v, t) ← parseVal (depth + 1) t
      if !hashable k then none
      else if (match v with | .nil => true | _ => false) then none
      else
        let t := match t with
          | ';' :: u => u
          | _ => t
        let acc := match keyOfStored k with
          | some kk => insert acc k kk v
          | none => acc
        parseArr depth t acc
  parseCarr (depth : Nat) (s : List Char) (acc : List Val) : Option (Val × List Char) :=
    match s with
    | '}' :: t => some (.carr acc.reverse, t)
    | _ => do
      let (v, t) ← parseVal (depth + 1) s
      let t := match t with
        | ';' :: u => u
        | _ => t
      parseCarr depth t (v :: acc)

def parseTok (tok : String) : Option Val :=
  match parseVal 0 tok.toList with
  | some (v, []) => some v
  | _ => none

def hexOf (b : Bytes) : String :=
  let d := "0123456789abcdef".toList.toArray
  String.ofList (b.flatMap fun c => [d[c.toNat / 16]!, d[c.toNat % 16]!])

def hex8 (b : UInt32) : String :=
  if F32.isNaN b then "nan" else
  let d := "0123456789abcdef".toList.toArray
  String.ofList ((List.range 8).map fun i => d[(b.toNat >>> (4 * (7 - i))) % 16]!)

def showObj : Obj → String
  | none => "0"
  | some n => toString n

def insertSorted (x : String) : List String → List String
  | [] => [x]
  | y :: ys => if x ≤ y then x :: y :: ys else y :: insertSorted x ys

def sortStrs (l : List String) : List String := l.foldr insertSorted []

partial def showVal : Val → String
  | .nil => "nil"
  | .int v => "i:" ++ toString v.toInt
  | .flt b => "f:" ++ hex8 b
  | .chr c => "c:" ++ toString c.toNat
  | .str s => "s:" ++ hexOf s
  | .cstr s => "k:" ++ hexOf s
  | .obj o => "l:" ++ showObj o
  | .vec x y z => "v:" ++ hex8 x ++ "/" ++ hex8 y ++ "/" ++ hex8 z
  | .ref t => "R" ++ showVal t
  | .ptr => "P"
  | .arr items => "A{" ++ ";".intercalate (sortStrs (items.map fun (k, v) => showVal k ++ "=" ++ showVal v)) ++ "}"
  | .carr items => "C{" ++ ";".intercalate (items.map showVal) ++ "}"
  | .cont items => "T{" ++ ";".intercalate (items.map showObj) ++ "}"
  | .scont none => "S!"
  | .scont (some items) => "S{" ++ ";".intercalate (items.map showObj) ++ "}"

def opOf : String → Option Op
  | "add" => some (.bin .add) | "sub" => some (.bin .sub) | "mul" => some (.bin .mul) | "div" => some (.bin .div)
  | "mod" => some (.bin .mod) | "and" => some (.bin .band) | "xor" => some (.bin .bxor) | "or" => some (.bin .bor)
  | "shl" => some (.bin .shl) | "shr" => some (.bin .shr) | "gt" => some (.bin .gt) | "ge" => some (.bin .ge)
  | "lt" => some (.bin .lt) | "le" => some (.bin .le) | "eq" => some (.bin .eq) | "ne" => some .ne
  | "assign" => some .assign | "evalat" => some .evalAt | "setat" => some .setAt | "setref" => some .setRef
  | "index" => some .index | "minus" => some .minus | "compl" => some .compl | "inc" => some .inc | "dec" => some .dec
  | "size" => some .size | "arraysize" => some .arraySize | "bool" => some .castBool | "boolv" => some .boolValue
  | "boolnum" => some .boolNum | "int" => some .intValue | "long" => some .longValue | "float" => some .floatValue
  | "char" => some .charValue | "str" => some .strValue | "listener" => some .listenerValue
  | "vector" => some .vectorValue | "cint" => some .castInt | "cfloat" => some .castFloat | "cstr" => some .castStr
  | "carr" => some .castConstArray | "calcvec" => some .calcVector | "targets" => some .cmdTargets
  | _ => none

/-- canonical forms the harness also applies: array values of `carr` / `targets` on a script array
    come out in hash order, compared sorted -/
def canonResult (op : Op) (args : List Val) (v : Val) : String :=
  match op, args, v with
  | .castConstArray, [.arr _], .carr items => "C{" ++ ";".intercalate (sortStrs (items.map showVal)) ++ "}"
  | .cmdTargets, [.arr _], .carr items => "C{" ++ ";".intercalate (sortStrs (items.map showVal)) ++ "}"
  | _, _, v => showVal v

def showOut (op : Op) (args : List Val) : Out → String
  | .ok v => "ok " ++ canonResult op args v
  | .ok2 v w => "ok " ++ showVal v ++ " R" ++ showVal w
  | .err e lhs => "err W " ++ e.className ++ " " ++ showVal lhs
  | .ub u => "ub " ++ u.name
  | .badop => "bad-op"

def runLine (t : List String) : String :=
  match t with
  | [] => "bad-op"
  | "vm" :: rest => VM.runLine rest
  | name :: rest =>
    match opOf name, rest.mapM parseTok with
    | some op, some args =>
      -- `setat` / `setref` take the indexed variable itself; the VM reaches it through a reference
      let args := match op, args with
        | .setAt, a :: r => Val.ref a :: r
        | .setRef, a :: r => Val.ref a :: r
        | _, args => args
      showOut op args (step fixes op args)
    | _, _ => "bad-op"

def step (_ : Unit) (t : List String) : Unit × String := ((), runLine t)

def main : IO Unit := Driver.runLoop step ()

end Driver.VMOps
