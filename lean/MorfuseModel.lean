import MorfuseModel.Common.Mem
import MorfuseModel.Common.Ring
import MorfuseModel.Common.Mem2
import MorfuseModel.SafePtr.Model
import MorfuseModel.SafePtr.Lemmas
import MorfuseModel.Props.C12
import MorfuseModel.BlockAlloc.Model
