import MorfuseModel.Common.Mem
import MorfuseModel.Common.Ring
import MorfuseModel.SafePtr.Model
import MorfuseModel.SafePtr.Lemmas
import MorfuseModel.Props.C12
import MorfuseModel.Dispatch.Model
import MorfuseModel.Dispatch.Spec
import MorfuseModel.Props.C16
