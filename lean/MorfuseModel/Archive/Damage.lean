import MorfuseModel.Archive.Trunc
/-! Substitutions (C11): one byte of an honest archive replaced at a type-tag, object-size, class-name,
header or version position makes the reader stop with an error (which `Safety` shows is a reported one). -/
namespace Morfuse.Archive

theorem set_ne_self {α : Type} (l : List α) (q : Nat) (x : α) (hq : q < l.length) (hx : x ≠ l[q]) :
    l.set q x ≠ l := by
  intro h
  have := congrArg (fun m => m[q]?) h
  simp [List.getElem?_set_self hq, List.getElem?_eq_getElem hq] at this
  exact hx this

theorem unle_set_ne (bs : Bytes) (q : Nat) (b : UInt8) (hq : q < bs.length) (hb : b ≠ bs[q]) :
    unle (bs.set q b) ≠ unle bs := by
  intro h
  exact set_ne_self bs q b hq hb (unle_inj (by simp) h)

theorem set_append_left {α : Type} (a c : List α) (q : Nat) (x : α) (h : q < a.length) :
    (a ++ c).set q x = a.set q x ++ c := by
  rw [List.set_append]; simp [h]

theorem set_append_right {α : Type} (a c : List α) (q : Nat) (x : α) (h : a.length ≤ q) :
    (a ++ c).set q x = a ++ c.set (q - a.length) x := by
  rw [List.set_append]; simp [Nat.not_lt.mpr h]

theorem getElem_append_left' {α : Type} (a c : List α) (q : Nat) (h : q < a.length) (h2 : q < (a ++ c).length) :
    (a ++ c)[q] = a[q] := List.getElem_append_left h

/-- a damaged tag: `CheckType` throws -/
theorem readTag_damaged (cfg : Cfg) (t : Nat) (ht : t < 256 ^ 4) (q : Nat) (b : UInt8) (hq : q < 4)
    (hb : b ≠ (tagB t)[q]'(by simpa using hq)) (tail : Bytes) (pos : Nat) (R : List Lbl) (F : List Nat) :
    readTag cfg t ⟨(tagB t).set q b ++ tail, pos, true, R, F⟩ = .err .typeError ⟨tail, pos + 4, true, R, F⟩ := by
  have hne := unle_set_ne (tagB t) q b (by simpa using hq) hb
  rw [unle_tagB ht] at hne
  simp [readTag, readN_ok cfg ((tagB t).set q b) tail none pos R F 4 (by simp), Res.bind, hne]

theorem readData_damaged_tag (cfg : Cfg) (t : Nat) (ht : t < 256 ^ 4) (q : Nat) (b : UInt8) (hq : q < 4)
    (hb : b ≠ (tagB t)[q]'(by simpa using hq)) (w : Nat) (old : Option Bytes) (tail : Bytes) (pos : Nat)
    (R : List Lbl) (F : List Nat) :
    readData cfg t w old ⟨(tagB t).set q b ++ tail, pos, true, R, F⟩ = .err .typeError ⟨tail, pos + 4, true, R, F⟩ := by
  simp [readData, readTag_damaged cfg t ht q b hq hb, Res.bind]

end Morfuse.Archive

namespace Morfuse.Archive

theorem lay_split {n : Nat} {x c : PC} {rest : List PC} {q : Nat}
    (h : (List.replicate n x ++ rest)[q]? = some c) : (q < n ∧ c = x) ∨ (n ≤ q ∧ rest[q - n]? = some c) := by
  by_cases hq : q < n
  · left
    rw [List.getElem?_append_left (by simpa using hq)] at h
    simp [List.getElem?_replicate, hq] at h
    exact ⟨hq, h.symm⟩
  · right
    rw [List.getElem?_append_right (by simpa using hq)] at h
    simp only [List.length_replicate] at h
    exact ⟨Nat.not_lt.mp hq, h⟩

theorem lay_last {n : Nat} {x c : PC} {q : Nat} (h : (List.replicate n x)[q]? = some c) : q < n ∧ c = x := by
  by_cases hq : q < n
  · simp [List.getElem?_replicate, hq] at h; exact ⟨hq, h.symm⟩
  · simp [List.getElem?_replicate, hq] at h

/-- classes of bytes whose substitution the reader must notice -/
def PC.det (c : PC) : Prop := c = .tag ∨ c = .size ∨ c = .cls

/-- what counts as a different byte: the reader compares class names case-insensitively -/
def bcond (c : PC) (old b : UInt8) : Prop := if c = .cls then upc b ≠ upc old else b ≠ old

theorem getElem?_tagB_append {t : Nat} {rest : Bytes} {q : Nat} {old : UInt8} (hq : q < 4)
    (h : (tagB t ++ rest)[q]? = some old) : old = (tagB t)[q]'(by simpa using hq) := by
  rw [List.getElem?_append_left (by simpa using hq)] at h
  rw [List.getElem?_eq_getElem (by simpa using hq)] at h
  exact (Option.some.inj h).symm

/-- a record whose first four bytes (its tag) are damaged -/
theorem readData_tag_hit (cfg : Cfg) (t : Nat) (ht : t < 256 ^ 4) (payload : Bytes) (q : Nat) (b old : UInt8)
    (hq : q < 4) (ho : (tagB t ++ payload)[q]? = some old) (hb : b ≠ old) (w : Nat) (oldbuf : Option Bytes)
    (tail : Bytes) (pos : Nat) (R : List Lbl) (F : List Nat) :
    readData cfg t w oldbuf ⟨(tagB t ++ payload).set q b ++ tail, pos, true, R, F⟩ =
      .err .typeError ⟨payload ++ tail, pos + 4, true, R, F⟩ := by
  have e := getElem?_tagB_append hq ho
  rw [set_append_left _ _ _ _ (by simpa using hq), List.append_assoc]
  exact readData_damaged_tag cfg t ht q b hq (e ▸ hb) w oldbuf _ pos R F

theorem encStr_set (bs : Bytes) (j : Nat) (b : UInt8) (hj : j < bs.length) :
    (encStr bs).set (16 + j) b = encStr (bs.set j b) := by
  have h0 : bs.length ≠ 0 := by omega
  simp only [encStr, h0, ↓reduceIte, List.length_set, encRaw, encPrim]
  rw [set_append_right _ _ _ _ (by simp [Prim.width]; omega)]
  rw [set_append_right _ _ _ _ (by simp [Prim.width]; omega)]
  have : 16 + j - (tagB (Prim.size).tag ++ le (Prim.size).width bs.length).length - (tagB rawTag).length = j := by
    simp [Prim.width]; omega
  rw [this]

theorem layStr_length (c : PC) (bs : Bytes) : (layStr c bs).length = (encStr bs).length := by
  simp only [layStr, layPrim, encStr, encPrim, encRaw]
  split <;> simp <;> omega

end Morfuse.Archive

namespace Morfuse.Archive

theorem layStr_cases {cc c : PC} {bs : Bytes} {q : Nat} (h : (layStr cc bs)[q]? = some c) :
    (q < 4 ∧ c = .tag) ∨ (4 ≤ q ∧ q < 12 ∧ c = .len) ∨ (bs.length ≠ 0 ∧ 12 ≤ q ∧ q < 16 ∧ c = .tag) ∨
      (16 ≤ q ∧ q < 16 + bs.length ∧ c = cc) := by
  simp only [layStr, layPrim, List.append_assoc, Prim.width] at h
  rcases lay_split h with ⟨hq, rfl⟩ | ⟨hq, h⟩
  · exact Or.inl ⟨hq, rfl⟩
  rcases lay_split h with ⟨hq2, rfl⟩ | ⟨hq2, h⟩
  · exact Or.inr (Or.inl ⟨hq, by omega, rfl⟩)
  by_cases h0 : bs.length = 0
  · simp [h0] at h
  simp only [h0, ↓reduceIte] at h
  rcases lay_split h with ⟨hq3, rfl⟩ | ⟨hq3, h⟩
  · exact Or.inr (Or.inr (Or.inl ⟨h0, by omega, by omega, rfl⟩))
  · obtain ⟨hq4, rfl⟩ := lay_last h
    exact Or.inr (Or.inr (Or.inr ⟨by omega, by omega, rfl⟩))

theorem readStr_tag1_hit (cfg : Cfg) (bs : Bytes) (q : Nat) (b old : UInt8) (hq : q < 4)
    (ho : (encStr bs)[q]? = some old) (hb : b ≠ old) (init tail : Bytes) (pos : Nat) (R : List Lbl) (F : List Nat) :
    ∃ s', readStr cfg init ⟨(encStr bs).set q b ++ tail, pos, true, R, F⟩ = .err .typeError s' := by
  simp only [encStr, encPrim, List.append_assoc] at ho ⊢
  unfold readStr
  rw [readData_tag_hit cfg _ (Prim.tag_lt _) _ q b old hq ho hb]
  exact ⟨_, rfl⟩

theorem readStr_tag2_hit (cfg : Cfg) (bs : Bytes) (q : Nat) (b old : UInt8) (h0 : bs.length ≠ 0) (hq1 : 12 ≤ q)
    (hq2 : q < 16) (ho : (encStr bs)[q]? = some old) (hb : b ≠ old)
    (hl : bs.length < 2 ^ 64) (ha : strAlloc bs.length < cfg.allocLimit)
    (init tail : Bytes) (pos : Nat) (R : List Lbl) (F : List Nat) :
    ∃ s', readStr cfg init ⟨(encStr bs).set q b ++ tail, pos, true, R, F⟩ = .err .typeError s' := by
  have hw : bs.length < 256 ^ (Prim.size).width := by simpa [Prim.width] using hl
  simp only [encStr, encPrim, h0, ↓reduceIte, encRaw, List.append_assoc] at ho ⊢
  have e1 : (tagB (Prim.size).tag ++ (le (Prim.size).width bs.length ++ (tagB rawTag ++ bs))).set q b =
      tagB (Prim.size).tag ++ (le (Prim.size).width bs.length ++ (tagB rawTag ++ bs).set (q - 12) b) := by
    rw [set_append_right _ _ _ _ (by simp; omega), set_append_right _ _ _ _ (by simp [Prim.width]; omega)]
    have : q - (tagB (Prim.size).tag).length - (le (Prim.size).width bs.length).length = q - 12 := by
      simp [Prim.width]; omega
    rw [this]
  have ho2 : (tagB rawTag ++ bs)[q - 12]? = some old := by
    rw [List.getElem?_append_right (by simp; omega), List.getElem?_append_right (by simp [Prim.width]; omega)] at ho
    have : q - (tagB (Prim.size).tag).length - (le (Prim.size).width bs.length).length = q - 12 := by
      simp [Prim.width]; omega
    rw [this] at ho
    exact ho
  rw [e1]
  unfold readStr
  have e2 := readData_ok cfg (Prim.size).tag (Prim.tag_lt _) (le (Prim.size).width bs.length)
    ((tagB rawTag ++ bs).set (q - 12) b ++ tail) none pos R F 8 (by simp [Prim.width])
  simp only [List.append_assoc] at e2 ⊢
  rw [e2]
  simp only [Res.bind, unle_le_of_lt hw, h0, ↓reduceIte]
  have hlg : lenGe ((tagB rawTag ++ bs).set (q - 12) b ++ tail) bs.length = true := by
    rw [lenGe_iff]; simp; omega
  have hna : ¬ (strAlloc bs.length ≥ cfg.allocLimit) := by omega
  simp only [hlg, Bool.not_true, Bool.and_false, Bool.false_eq_true, ↓reduceIte, hna]
  exact ⟨_, readData_tag_hit cfg rawTag (tagOf_lt _) bs (q - 12) b old (by omega) ho2 hb _ _ tail _ R F⟩

theorem readStr_char_hit (cfg : Cfg) (bs : Bytes) (q : Nat) (b : UInt8) (hq1 : 16 ≤ q) (hq2 : q < 16 + bs.length)
    (hl : bs.length < 2 ^ 64) (ha : strAlloc bs.length < cfg.allocLimit)
    (tail : Bytes) (pos : Nat) (R : List Lbl) (F : List Nat) :
    readStr cfg [] ⟨(encStr bs).set q b ++ tail, pos, true, R, F⟩ =
      .ok (bs.set (q - 16) b) ⟨tail, pos + (encStr bs).length, true, R, F⟩ := by
  have : q = 16 + (q - 16) := by omega
  rw [this, encStr_set bs (q - 16) b (by omega)]
  have e := readStr_ok cfg (bs.set (q - 16) b) [] tail pos R F (by simpa using hl) (by simpa using ha) (fun _ => rfl)
  rw [e]
  have : 16 + (q - 16) - 16 = q - 16 := by omega
  simp [encStr_length, this]

end Morfuse.Archive

namespace Morfuse.Archive

theorem prefix_eq_of_length {α : Type} {a l : List α} (hp : a <+: l) (hl : a.length = l.length) : a = l := by
  obtain ⟨t, rfl⟩ := hp
  have : t = [] := by
    apply List.eq_nil_of_length_eq_zero
    simp only [List.length_append] at hl; omega
  simp [this]

/-- a class name with one character replaced by a character that differs even ignoring case no longer
    resolves to the class -/
theorem getClass_damaged (classes : List Bytes) (cls : Bytes) (j : Nat) (b : UInt8) (hj : j < cls.length)
    (hb : upc b ≠ upc cls[j]) : getClass classes (cls.set j b) ≠ some cls := by
  intro h
  unfold getClass at h
  split at h
  · simp at h
  · have he := List.find?_some h
    simp only [eqi, beq_iff_eq] at he
    have hlen : (cstr (cls.set j b)).length = cls.length := by
      have := congrArg List.length he
      simpa using this.symm
    have hpre : cstr (cls.set j b) <+: cls.set j b := List.takeWhile_prefix _
    have hall : cstr (cls.set j b) = cls.set j b := prefix_eq_of_length hpre (by simp [hlen])
    rw [hall] at he
    have := congrArg (fun l => l[j]?) he
    simp [hj] at this
    exact hb this.symm

end Morfuse.Archive

namespace Morfuse.Archive

mutual
theorem layItem_length : (it : Item) → (t : List Lbl) → (layItem it).length = (encItem t it).2.length
  | .prim p v, t => by simp [layItem, layPrim, encItem]; omega
  | .raw bs, t => by simp [layItem, encItem]; omega
  | .str bs, t => by simp [layItem, encItem, layStr_length]
  | .ptr safe o, t => by simp only [layItem, encItem]; split <;> simp
  | .position o, t => by simp [layItem, layPrim, encItem]; omega
  | .object _ o cls body, t => by
    simp only [layItem, encItem, List.length_append, layStr_length, layItems_length body (addUnique t o).1]
    simp [layPrim]; omega
theorem layItems_length : (w : List Item) → (t : List Lbl) → (layItems w).length = (encItems t w).2.length
  | [], t => by simp [layItems, encItems]
  | i :: is, t => by
    simp only [layItems, encItems, List.length_append, layItem_length i t, layItems_length is (encItem t i).1]
end

theorem det_not_data {c : PC} (h : c.det) : c ≠ .data ∧ c ≠ .idx ∧ c ≠ .len := by
  rcases h with rfl | rfl | rfl <;> simp

theorem bcond_ne {c : PC} {old b : UInt8} (hc : c ≠ .cls) (h : bcond c old b) : b ≠ old := by
  simpa [bcond, hc] using h

theorem toInt64_ne (v L : Nat) (hv : v < 2 ^ 64) (hL : L < 2 ^ 63) (hne : v ≠ L) : toInt64 v ≠ (L : Int) := by
  unfold toInt64
  split <;> omega

end Morfuse.Archive
