import MorfuseModel.Archive.DamageItems
/-! Substitution anywhere in a whole archive (header included) at a detectable position. -/
namespace Morfuse.Archive

theorem encPrim_set_data (p : Prim) (v : Nat) (q : Nat) (b : UInt8) (h1 : 4 ≤ q) (h2 : q < 4 + p.width) :
    (encPrim p v).set q b = encPrim p (unle ((le p.width v).set (q - 4) b)) ∧
      unle ((le p.width v).set (q - 4) b) < 256 ^ p.width := by
  have hl : ((le p.width v).set (q - 4) b).length = p.width := by simp
  constructor
  · simp only [encPrim]
    rw [set_append_right _ _ _ _ (by simpa using h1)]
    congr 1
    have := le_unle ((le p.width v).set (q - 4) b)
    rw [hl] at this
    simp only [tagB_length]
    exact this.symm
  · have := unle_lt ((le p.width v).set (q - 4) b)
    rwa [hl] at this

/-- a damaged byte in a tagged primitive record whose payload class is `x` -/
theorem layPrim_cases {x c : PC} {p : Prim} {q : Nat} (h : (layPrim x p)[q]? = some c) :
    (q < 4 ∧ c = .tag) ∨ (4 ≤ q ∧ q < 4 + p.width ∧ c = x) := by
  simp only [layPrim] at h
  rcases lay_split h with ⟨hq, rfl⟩ | ⟨hq, h⟩
  · exact Or.inl ⟨hq, rfl⟩
  · obtain ⟨hq2, rfl⟩ := lay_last h
    exact Or.inr ⟨hq, by omega, rfl⟩

theorem readPrim_tag_hit (cfg : Cfg) (p : Prim) (v : Nat) (q : Nat) (b old : UInt8) (hq : q < 4)
    (ho : (encPrim p v)[q]? = some old) (hb : b ≠ old) (tail : Bytes) (pos : Nat) (R : List Lbl) (F : List Nat) :
    ∃ s', readPrim cfg p ⟨(encPrim p v).set q b ++ tail, pos, true, R, F⟩ = .err .typeError s' := by
  simp only [encPrim] at ho ⊢
  unfold readPrim
  rw [readData_tag_hit cfg p.tag (Prim.tag_lt _) _ q b old hq ho hb]
  exact ⟨_, rfl⟩

theorem layStr_body (x : PC) (bs : Bytes) (hx : x ≠ .hdr ∧ x ≠ .ver) : ∀ c ∈ layStr x bs, c ≠ .hdr ∧ c ≠ .ver := by
  intro c hc
  simp only [layStr, layPrim, List.mem_append, List.mem_replicate] at hc
  rcases hc with (⟨_, rfl⟩ | ⟨_, rfl⟩) | hc
  · simp
  · simp
  · split at hc
    · simp at hc
    · simp only [List.mem_append, List.mem_replicate] at hc
      rcases hc with ⟨_, rfl⟩ | ⟨_, rfl⟩
      · simp
      · exact hx

mutual
theorem layItem_body : (it : Item) → ∀ c ∈ layItem it, c ≠ .hdr ∧ c ≠ .ver
  | .prim p v => by
    intro c hc
    simp only [layItem, layPrim, List.mem_append, List.mem_replicate] at hc
    rcases hc with ⟨_, rfl⟩ | ⟨_, rfl⟩
    · simp
    · split <;> simp
  | .raw bs => by
    intro c hc
    simp only [layItem, List.mem_append, List.mem_replicate] at hc
    rcases hc with ⟨_, rfl⟩ | ⟨_, rfl⟩ <;> simp
  | .str bs => by
    intro c hc
    simp only [layItem] at hc
    exact layStr_body _ bs (by simp) c hc
  | .ptr _ _ => by
    intro c hc
    simp only [layItem, List.mem_append, List.mem_replicate] at hc
    rcases hc with ⟨_, rfl⟩ | ⟨_, rfl⟩ <;> simp
  | .position _ => by
    intro c hc
    simp only [layItem, layPrim, List.mem_append, List.mem_replicate] at hc
    rcases hc with ⟨_, rfl⟩ | ⟨_, rfl⟩ <;> simp
  | .object _ _ cls body => by
    intro c hc
    simp only [layItem, layPrim, List.mem_append, List.mem_replicate] at hc
    rcases hc with (((⟨_, rfl⟩ | ⟨_, rfl⟩) | hc) | (⟨_, rfl⟩ | ⟨_, rfl⟩)) | hc
    · simp
    · simp
    · exact layStr_body _ cls (by split <;> simp) c hc
    · simp
    · simp
    · exact layItems_body body c hc
theorem layItems_body : (w : List Item) → ∀ c ∈ layItems w, c ≠ .hdr ∧ c ≠ .ver
  | [] => by simp [layItems]
  | i :: is => by
    intro c hc
    simp only [layItems, List.mem_append] at hc
    rcases hc with hc | hc
    · exact layItem_body i c hc
    · exact layItems_body is c hc
end

/-- classes whose substitution must be noticed, header included -/
def PC.detAll (c : PC) : Prop := c.det ∨ c = .hdr ∨ c = .ver

theorem readAll_damaged (cfg : Cfg) (classes : List Bytes) (info : Info) (w : List Item)
    (hw : WF cfg classes info w) (q : Nat) (b old : UInt8) (c : PC)
    (hlay : (layout info w)[q]? = some c) (hc : c.detAll) (hv : cfg.versionOr = true ∨ c ≠ .ver)
    (ho : (encode info w)[q]? = some old) (hb : bcond c old b) :
    ∃ e s', readAll cfg classes info (schemaOf w) ((encode info w).set q b) = .err e s' := by
  have hsz := hw.size
  have hnull := nullIdx_lt
  have htl := encItems_table_le w []
  have hav := archiveVersion_lt
  simp only [encode, List.length_append] at hsz
  have hnl : info.name.length < 2 ^ 64 := by
    rw [encHeader_length, encStr_length] at hsz; split at hsz <;> omega
  have hbne : c ≠ .cls → b ≠ old := fun h => bcond_ne h hb
  have hnot : c ≠ .len ∧ c ≠ .name ∧ c ≠ .ncls ∧ c ≠ .data ∧ c ≠ .idx := by
    rcases hc with (rfl | rfl | rfl) | rfl | rfl <;> simp
  simp only [layout, List.append_assoc] at hlay
  simp only [encode, encHeader, List.append_assoc] at ho
  simp only [readAll, encode, encHeader, List.append_assoc, RS.init]
  -- the magic
  rcases lay_split hlay with ⟨hq, rfl⟩ | ⟨hq, hlay⟩
  · rw [set_append_left _ _ _ _ hq]
    rw [List.getElem?_append_left hq, List.getElem?_eq_getElem hq] at ho
    have hold : old = info.header[q] := (Option.some.inj ho).symm
    unfold readHeader
    rw [readN_ok cfg (info.header.set q b) _ none 0 [] [] info.header.length (by simp)]
    have hne : info.header.set q b ≠ info.header := set_ne_self _ _ _ hq (hold ▸ hbne (by simp))
    simp only [Res.bind, ne_eq, hne, not_false_eq_true, ↓reduceIte]
    exact ⟨_, _, rfl⟩
  rw [set_append_right _ _ _ _ hq]
  rw [List.getElem?_append_right hq] at ho
  unfold readHeader
  rw [readN_ok cfg info.header _ none 0 [] [] info.header.length rfl]
  simp only [Res.bind, ne_eq, not_true_eq_false, ↓reduceIte]
  have hl1 : (layPrim PC.ver Prim.u16).length = 6 := by simp [layPrim, Prim.width]
  have he1 : ∀ v, (encPrim Prim.u16 v).length = 6 := by intro v; simp [Prim.width]
  -- engine version record
  by_cases hq1 : q - info.header.length < 6
  · rw [List.getElem?_append_left (by omega)] at hlay
    rw [List.getElem?_append_left (by rw [he1]; exact hq1)] at ho
    rw [set_append_left _ _ _ _ (by rw [he1]; exact hq1)]
    rcases layPrim_cases hlay with ⟨hq2, rfl⟩ | ⟨hq2, hq3, rfl⟩
    · obtain ⟨s', hs'⟩ := readPrim_tag_hit cfg .u16 archiveVersion _ b old hq2 ho (hbne (by simp))
        (encPrim Prim.u16 info.version ++ (encStr info.name ++ (encPrim Prim.u32 (encItems [] w).1.length ++ (encItems [] w).2)))
        (0 + info.header.length) [] []
      rw [hs']; exact ⟨_, _, rfl⟩
    · obtain ⟨e1, e2⟩ := encPrim_set_data .u16 archiveVersion _ b hq2 hq3
      rw [e1, readPrim_ok cfg .u16 _ e2]
      simp only [Res.bind]
      rw [readPrim_ok cfg .u16 info.version (by simpa [Prim.width] using hw.version)]
      have hold : old = (le (Prim.u16).width archiveVersion)[q - info.header.length - 4]'(by simp; omega) := by
        simp only [encPrim] at ho
        rw [List.getElem?_append_right (by simpa using hq2)] at ho
        simp only [tagB_length] at ho
        rw [List.getElem?_eq_getElem (by simp; omega)] at ho
        exact (Option.some.inj ho).symm
      have hne := unle_set_ne (le (Prim.u16).width archiveVersion) (q - info.header.length - 4) b (by simp; omega)
        (hold ▸ hbne (by simp))
      rw [unle_le_of_lt (by simpa [Prim.width] using hav)] at hne
      have hb1 : (unle ((le (Prim.u16).width archiveVersion).set (q - info.header.length - 4) b) != archiveVersion) = true := by
        simpa [bne_iff_ne] using hne
      have hvo : cfg.versionOr = true := by simpa using hv
      simp only [Res.bind, hvo, ↓reduceIte, hb1, Bool.true_or]
      exact ⟨_, _, rfl⟩
  have hq1' : 6 ≤ q - info.header.length := Nat.not_lt.mp hq1
  rw [List.getElem?_append_right (by omega), hl1] at hlay
  rw [List.getElem?_append_right (by rw [he1]; exact hq1'), he1] at ho
  rw [set_append_right _ _ _ _ (by rw [he1]; exact hq1'), he1]
  rw [readPrim_ok cfg .u16 archiveVersion (by simpa [Prim.width] using hav)]
  simp only [Res.bind]
  -- program version record
  by_cases hq2 : q - info.header.length - 6 < 6
  · rw [List.getElem?_append_left (by omega)] at hlay
    rw [List.getElem?_append_left (by rw [he1]; exact hq2)] at ho
    rw [set_append_left _ _ _ _ (by rw [he1]; exact hq2)]
    rcases layPrim_cases hlay with ⟨hq3, rfl⟩ | ⟨hq3, hq4, rfl⟩
    · obtain ⟨s', hs'⟩ := readPrim_tag_hit cfg .u16 info.version _ b old hq3 ho (hbne (by simp))
        (encStr info.name ++ (encPrim Prim.u32 (encItems [] w).1.length ++ (encItems [] w).2))
        (0 + info.header.length + 4 + (Prim.u16).width) [] []
      rw [hs']; exact ⟨_, _, rfl⟩
    · obtain ⟨e1, e2⟩ := encPrim_set_data .u16 info.version _ b hq3 hq4
      rw [e1, readPrim_ok cfg .u16 _ e2]
      have hold : old = (le (Prim.u16).width info.version)[q - info.header.length - 6 - 4]'(by simp; omega) := by
        simp only [encPrim] at ho
        rw [List.getElem?_append_right (by simpa using hq3)] at ho
        simp only [tagB_length] at ho
        rw [List.getElem?_eq_getElem (by simp; omega)] at ho
        exact (Option.some.inj ho).symm
      have hne := unle_set_ne (le (Prim.u16).width info.version) (q - info.header.length - 6 - 4) b (by simp; omega)
        (hold ▸ hbne (by simp))
      rw [unle_le_of_lt (by simpa [Prim.width] using hw.version)] at hne
      have hb1 : (unle ((le (Prim.u16).width info.version).set (q - info.header.length - 6 - 4) b) != info.version) = true := by
        simpa [bne_iff_ne] using hne
      have hvo : cfg.versionOr = true := by simpa using hv
      simp only [Res.bind, hvo, ↓reduceIte, hb1, Bool.or_true]
      exact ⟨_, _, rfl⟩
  have hq2' : 6 ≤ q - info.header.length - 6 := Nat.not_lt.mp hq2
  rw [List.getElem?_append_right (by omega), hl1] at hlay
  rw [List.getElem?_append_right (by rw [he1]; exact hq2'), he1] at ho
  rw [set_append_right _ _ _ _ (by rw [he1]; exact hq2'), he1]
  rw [readPrim_ok cfg .u16 info.version (by simpa [Prim.width] using hw.version)]
  simp only [Res.bind, bne_self_eq_false, Bool.or_self, Bool.and_self, ite_self, Bool.false_eq_true, ↓reduceIte]
  -- archive name
  have hSl : (layStr PC.name info.name).length = (encStr info.name).length := layStr_length _ _
  by_cases hq3 : q - info.header.length - 6 - 6 < (encStr info.name).length
  · rw [List.getElem?_append_left (by omega)] at hlay
    rw [List.getElem?_append_left hq3] at ho
    rw [set_append_left _ _ _ _ hq3]
    rcases layStr_cases hlay with ⟨hq4, rfl⟩ | ⟨_, _, rfl⟩ | ⟨h0, hq4, hq5, rfl⟩ | ⟨_, _, rfl⟩
    · obtain ⟨s', hs'⟩ := readStr_tag1_hit cfg info.name _ b old hq4 ho (hbne (by simp)) info.name
        (encPrim Prim.u32 (encItems [] w).1.length ++ (encItems [] w).2)
        (0 + info.header.length + 4 + (Prim.u16).width + 4 + (Prim.u16).width) [] []
      rw [hs']; exact ⟨_, _, rfl⟩
    · simp at hnot
    · obtain ⟨s', hs'⟩ := readStr_tag2_hit cfg info.name _ b old h0 hq4 hq5 ho (hbne (by simp)) hnl hw.name info.name
        (encPrim Prim.u32 (encItems [] w).1.length ++ (encItems [] w).2)
        (0 + info.header.length + 4 + (Prim.u16).width + 4 + (Prim.u16).width) [] []
      rw [hs']; exact ⟨_, _, rfl⟩
    · simp at hnot
  have hq3' : (encStr info.name).length ≤ q - info.header.length - 6 - 6 := Nat.not_lt.mp hq3
  rw [List.getElem?_append_right (by omega), hSl] at hlay
  rw [List.getElem?_append_right hq3'] at ho
  rw [set_append_right _ _ _ _ hq3']
  rw [readStr_ok cfg info.name info.name _ _ [] [] hnl hw.name (fun h => List.eq_nil_of_length_eq_zero h)]
  simp only [Res.bind]
  -- numClasses record
  have hl2 : (layPrim PC.ncls Prim.u32).length = 8 := by simp [layPrim, Prim.width]
  have he2 : ∀ v, (encPrim Prim.u32 v).length = 8 := by intro v; simp [Prim.width]
  by_cases hq4 : q - info.header.length - 6 - 6 - (encStr info.name).length < 8
  · rw [List.getElem?_append_left (by omega)] at hlay
    rw [List.getElem?_append_left (by rw [he2]; exact hq4)] at ho
    rw [set_append_left _ _ _ _ (by rw [he2]; exact hq4)]
    rcases layPrim_cases hlay with ⟨hq5, rfl⟩ | ⟨_, _, rfl⟩
    · obtain ⟨s', hs'⟩ := readPrim_tag_hit cfg .u32 (encItems [] w).1.length _ b old hq5 ho (hbne (by simp))
        (encItems [] w).2
        (0 + info.header.length + 4 + (Prim.u16).width + 4 + (Prim.u16).width + (encStr info.name).length) [] []
      rw [hs']; exact ⟨_, _, rfl⟩
    · simp at hnot
  -- inside the calls
  have hq4' : 8 ≤ q - info.header.length - 6 - 6 - (encStr info.name).length := Nat.not_lt.mp hq4
  rw [List.getElem?_append_right (by omega), hl2] at hlay
  rw [List.getElem?_append_right (by rw [he2]; exact hq4'), he2] at ho
  rw [set_append_right _ _ _ _ (by rw [he2]; exact hq4'), he2]
  have hN : (encItems [] w).1.length < 256 ^ (Prim.u32).width := by
    have := hw.count; simp [Prim.width]; omega
  rw [readPrim_ok cfg .u32 _ hN]
  have hlg : lenGe ((encItems [] w).2.set (q - info.header.length - 6 - 6 - (encStr info.name).length - 8) b)
      (8 * (encItems [] w).1.length) = true := by
    rw [lenGe_iff]; simp at htl ⊢; omega
  have hna2 : ¬ ((encItems [] w).1.length * 8 ≥ cfg.allocLimit) := by have := hw.table; omega
  simp only [Res.bind, hlg, Bool.not_true, Bool.and_false, Bool.false_eq_true, ↓reduceIte, hna2]
  have hcd : c.det := by
    rcases hc with h | rfl | rfl
    · exact h
    · exact absurd rfl (layItems_body w _ (List.mem_of_getElem? hlay)).1
    · exact absurd rfl (layItems_body w _ (List.mem_of_getElem? hlay)).2
  have := readItems_damaged cfg classes (encItems [] w).1 hw.count hw.table w [] []
    (0 + info.header.length + 4 + (Prim.u16).width + 4 + (Prim.u16).width + (encStr info.name).length + 4 + (Prim.u32).width)
    (List.replicate (encItems [] w).1.length 0) []
    (q - info.header.length - 6 - 6 - (encStr info.name).length - 8) b old c (List.prefix_refl _) hw.items (by simp)
    (by omega) hlay hcd ho hb
  simp only [List.append_nil] at this
  exact this

/-- a substitution at a detectable position: the repaired reader reports an archive error -/
theorem substitution_detected (cfg : Cfg) (hf : cfg.allFixed) (classes : List Bytes) (info : Info) (w : List Item)
    (hw : WF cfg classes info w) (hlim : (encode info w).length + 25 < cfg.allocLimit)
    (q : Nat) (b old : UInt8) (c : PC)
    (hlay : (layout info w)[q]? = some c) (hc : c.detAll) (ho : (encode info w)[q]? = some old)
    (hb : bcond c old b) :
    ∃ e, decode cfg classes info (schemaOf w) ((encode info w).set q b) = .error e ∧ e.reported = true := by
  obtain ⟨e, s', h⟩ := readAll_damaged cfg classes info w hw q b old c hlay hc (Or.inl hf.2.1) ho hb
  exact ⟨e, decode_of_err cfg hf classes info (schemaOf w) _ (by simpa using hlim) e s' h⟩

end Morfuse.Archive
