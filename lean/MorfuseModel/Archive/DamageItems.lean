import MorfuseModel.Archive.Damage
/-! Substitution inside the calls of a write sequence: the reader stops with an error. -/
namespace Morfuse.Archive

/-- a position of class tag / size / class-name inside a record that starts with a tagged primitive
    payload of a non-detectable class is in the tag -/
theorem det_in_tagged {n : Nat} {x c : PC} {q : Nat} (hx : x = .data ∨ x = .idx)
    (h : (List.replicate 4 PC.tag ++ List.replicate n x)[q]? = some c) (hc : c.det) : q < 4 ∧ c = .tag := by
  rcases lay_split h with ⟨hq, rfl⟩ | ⟨_, h⟩
  · exact ⟨hq, rfl⟩
  · obtain ⟨_, rfl⟩ := lay_last h
    have := det_not_data hc
    rcases hx with rfl | rfl <;> simp_all

mutual
theorem readItem_damaged (cfg : Cfg) (classes : List Bytes) (T : List Lbl)
    (hT : T.length < nullIdx) (hA : T.length * 8 < cfg.allocLimit) :
    (it : Item) → (t : List Lbl) → (tail : Bytes) → (pos : Nat) → (R : List Lbl) → (F : List Nat) →
    (q : Nat) → (b old : UInt8) → (c : PC) →
    (encItem t it).1 <+: T → WFItem cfg classes it → R.length = T.length → (encItem t it).2.length < 2 ^ 63 →
    (layItem it)[q]? = some c → c.det → (encItem t it).2[q]? = some old → bcond c old b →
    ∃ e s', readItem cfg classes (schemaOfItem it) ⟨(encItem t it).2.set q b ++ tail, pos, true, R, F⟩ = .err e s'
  | .prim p v, t, tail, pos, R, F, q, b, old, c, _, _, _, _, hlay, hc, ho, hb => by
    simp only [layItem, layPrim] at hlay
    obtain ⟨hq, rfl⟩ := det_in_tagged (by split <;> simp) hlay hc
    have hb' := bcond_ne (by simp) hb
    simp only [encItem, encPrim] at ho
    simp only [schemaOfItem, encItem, readItem, readPrim, encPrim]
    rw [readData_tag_hit cfg _ (Prim.tag_lt _) _ q b old hq ho hb']
    exact ⟨_, _, rfl⟩
  | .raw bs, t, tail, pos, R, F, q, b, old, c, _, _, _, _, hlay, hc, ho, hb => by
    simp only [layItem] at hlay
    obtain ⟨hq, rfl⟩ := det_in_tagged (Or.inl rfl) hlay hc
    have hb' := bcond_ne (by simp) hb
    simp only [encItem, encRaw] at ho
    simp only [schemaOfItem, encItem, readItem, encRaw]
    rw [readData_tag_hit cfg rawTag (tagOf_lt _) _ q b old hq ho hb']
    exact ⟨_, _, rfl⟩
  | .str bs, t, tail, pos, R, F, q, b, old, c, _, hw, _, hl, hlay, hc, ho, hb => by
    simp only [WFItem] at hw
    simp only [layItem] at hlay
    simp only [encItem] at ho hl
    have hl2 : bs.length < 2 ^ 64 := by rw [encStr_length] at hl; split at hl <;> omega
    have hnd := det_not_data hc
    simp only [schemaOfItem, encItem, readItem]
    rcases layStr_cases hlay with ⟨hq, rfl⟩ | ⟨_, _, rfl⟩ | ⟨h0, hq1, hq2, rfl⟩ | ⟨_, _, rfl⟩
    · obtain ⟨s', hs'⟩ := readStr_tag1_hit cfg bs q b old hq ho (bcond_ne (by simp) hb) [] tail pos R F
      rw [hs']; exact ⟨_, _, rfl⟩
    · simp at hnd
    · obtain ⟨s', hs'⟩ := readStr_tag2_hit cfg bs q b old h0 hq1 hq2 ho (bcond_ne (by simp) hb) hl2 hw [] tail pos R F
      rw [hs']; exact ⟨_, _, rfl⟩
    · simp at hnd
  | .ptr safe o, t, tail, pos, R, F, q, b, old, c, _, _, _, _, hlay, hc, ho, hb => by
    simp only [layItem] at hlay
    obtain ⟨hq, rfl⟩ := det_in_tagged (Or.inr rfl) hlay hc
    have hb' := bcond_ne (by simp) hb
    simp only [schemaOfItem, readItem, readPtr]
    by_cases h0 : o = 0
    · simp only [encItem, h0, ↓reduceIte] at ho ⊢
      rw [readData_tag_hit cfg _ (ptrTag_lt _) _ q b old hq ho hb']
      exact ⟨_, _, rfl⟩
    · simp only [encItem, h0, ↓reduceIte] at ho ⊢
      rw [readData_tag_hit cfg _ (ptrTag_lt _) _ q b old hq ho hb']
      exact ⟨_, _, rfl⟩
  | .position o, t, tail, pos, R, F, q, b, old, c, _, _, _, _, hlay, hc, ho, hb => by
    simp only [layItem, layPrim] at hlay
    obtain ⟨hq, rfl⟩ := det_in_tagged (Or.inr rfl) hlay hc
    have hb' := bcond_ne (by simp) hb
    simp only [encItem, encPrim] at ho
    simp only [schemaOfItem, encItem, readItem, encPrim]
    rw [readData_tag_hit cfg _ (Prim.tag_lt _) _ q b old hq ho hb']
    exact ⟨_, _, rfl⟩
  | .object m o cls body, t, tail, pos, R, F, q, b, old, c, hp, hw, hR, hl, hlay, hc, ho, hb => by
    simp only [WFItem] at hw
    obtain ⟨hcl, hca, hwb⟩ := hw
    simp only [encItem] at hp hl ho
    have hp1 : (addUnique t o).1 <+: T := (encItems_prefix body _).trans hp
    obtain ⟨e1, e2, e3, e4⟩ := idx_bounds hp1
    have hn := nullIdx_lt
    have hnd := det_not_data hc
    have hBl : (encItems (addUnique t o).1 body).2.length < 2 ^ 63 := by
      simp only [List.length_append] at hl; omega
    have hcll : cls.length < 2 ^ 64 := by
      simp only [List.length_append] at hl; rw [encStr_length] at hl; split at hl <;> omega
    have hto : unle (tagB objTag) = objTag := unle_tagB (tagOf_lt _)
    have hu : unle (le (Prim.u32).width (idxIn T o)) = idxIn T o := unle_le_of_lt (by simp [Prim.width]; omega)
    have h6 : ¬ (idxIn T o = 0) := by omega
    have h7 : ¬ (idxIn T o > R.length) := by omega
    have hs : unle (le 8 (encItems (addUnique t o).1 body).2.length) = (encItems (addUnique t o).1 body).2.length :=
      unle_le_of_lt (by omega)
    simp only [layItem, layPrim, List.append_assoc, Prim.width] at hlay
    simp only [e1, encPrim, List.append_assoc] at ho
    simp only [schemaOfItem, encItem, readItem, e1, encPrim, List.append_assoc]
    rcases lay_split hlay with ⟨hq, rfl⟩ | ⟨hq, hlay⟩
    · -- the Object tag
      have hb' := bcond_ne (by simp) hb
      have e := getElem?_tagB_append hq ho
      rw [set_append_left _ _ _ _ (by simpa using hq), List.append_assoc]
      rw [readN_ok cfg ((tagB objTag).set q b) _ none pos R F 4 (by simp)]
      have hne : unle ((tagB objTag).set q b) ≠ objTag := by
        have := unle_set_ne (tagB objTag) q b (by simpa using hq) (e ▸ hb')
        rwa [hto] at this
      simp only [Res.bind, hne, ne_eq, not_false_eq_true, ↓reduceIte]
      exact ⟨_, _, rfl⟩
    rw [set_append_right _ _ _ _ (by simpa using hq)]
    simp only [List.append_assoc]
    rw [List.getElem?_append_right (by simpa using hq)] at ho
    simp only [tagB_length] at ho ⊢
    rw [readN_ok cfg (tagB objTag) _ none pos R F 4 (tagB_length _)]
    simp only [Res.bind, hto, ne_eq, not_true_eq_false, ↓reduceIte]
    rcases lay_split hlay with ⟨hq2, rfl⟩ | ⟨hq2, hlay⟩
    · -- the stream size
      have hb' := bcond_ne (by simp) hb
      rw [List.getElem?_append_left (by simpa using hq2)] at ho
      rw [List.getElem?_eq_getElem (by simpa using hq2)] at ho
      have hold : old = (le 8 (encItems (addUnique t o).1 body).2.length)[q - 4]'(by simpa using hq2) :=
        (Option.some.inj ho).symm
      rw [set_append_left _ _ _ _ (by simpa using hq2)]
      simp only [List.append_assoc]
      rw [readN_ok cfg ((le 8 _).set (q - 4) b) _ none (pos + 4) R F 8 (by simp)]
      simp only [Res.bind]
      have e5' := readStr_ok cfg cls [] (tagB (Prim.u32).tag ++ (le (Prim.u32).width (idxIn T o) ++
        ((encItems (addUnique t o).1 body).2 ++ tail))) (pos + 4 + 8) R F hcll hca (fun _ => rfl)
      rw [e5']
      simp only [Res.bind, hcl, ne_eq, not_true_eq_false, and_false, ↓reduceIte]
      have e5 := readData_ok cfg (Prim.u32).tag (Prim.tag_lt _) (le (Prim.u32).width (idxIn T o))
        ((encItems (addUnique t o).1 body).2 ++ tail) none (pos + 4 + 8 + (encStr cls).length) R F 4
        (by simp [Prim.width])
      simp only [List.append_assoc] at e5
      rw [e5]
      simp only [Res.bind, hu, beq_iff_eq, h6, decide_eq_true_eq, h7, or_self, Bool.and_false, Bool.false_eq_true,
        ↓reduceIte, Bool.or_self, decide_false]
      rw [readItems_enc cfg classes T hT hA body (addUnique t o).1 tail _ R F hp hwb hR hBl]
      have hd : ((pos + 4 + 8 + (encStr cls).length + 4 + 4 + (encItems (addUnique t o).1 body).2.length : Nat) : Int)
          - ((pos + 4 + 8 + (encStr cls).length + 4 + 4 : Nat) : Int) = ((encItems (addUnique t o).1 body).2.length : Int) := by
        omega
      have hv := unle_set_ne (le 8 (encItems (addUnique t o).1 body).2.length) (q - 4) b (by simpa using hq2)
        (hold ▸ hb')
      rw [hs] at hv
      have hvl := unle_lt ((le 8 (encItems (addUnique t o).1 body).2.length).set (q - 4) b)
      simp only [List.length_set, le_length] at hvl
      have hne := toInt64_ne _ _ (by simpa using hvl) hBl hv
      have h6b : (idxIn T o == 0) = false := by simpa using h6
      simp only [Res.bind, tell, ↓reduceIte, hd, h6b, Bool.or_self, Bool.and_false, Bool.false_eq_true, bracket_ite]
      rcases Int.lt_trichotomy (toInt64 (unle ((le 8 (encItems (addUnique t o).1 body).2.length).set (q - 4) b)))
        ((encItems (addUnique t o).1 body).2.length : Int) with h | h | h
      · simp only [gt_iff_lt, h, ↓reduceIte]; exact ⟨_, _, rfl⟩
      · exact absurd h hne
      · have h' : ¬ ((encItems (addUnique t o).1 body).2.length : Int) >
            toInt64 (unle ((le 8 (encItems (addUnique t o).1 body).2.length).set (q - 4) b)) := by omega
        simp only [h', ↓reduceIte, h]; exact ⟨_, _, rfl⟩
    -- from here on the size field is intact
    rw [set_append_right _ _ _ _ (by simpa using hq2)]
    simp only [List.append_assoc]
    rw [List.getElem?_append_right (by simpa using hq2)] at ho
    simp only [le_length] at ho ⊢
    rw [readN_ok cfg (le 8 _) _ none (pos + 4) R F 8 (le_length _ _)]
    simp only [Res.bind]
    have hSl : (layStr (if m = RMode.poly then PC.pcls else PC.cls) cls).length = (encStr cls).length := layStr_length _ _
    by_cases hq3 : q - 4 - 8 < (encStr cls).length
    · -- inside the class-name string
      rw [List.getElem?_append_left (by omega)] at hlay
      rw [List.getElem?_append_left hq3] at ho
      rw [set_append_left _ _ _ _ hq3]
      simp only [List.append_assoc]
      rcases layStr_cases hlay with ⟨hq4, rfl⟩ | ⟨_, _, rfl⟩ | ⟨h0, hq4, hq5, rfl⟩ | ⟨hq4, hq5, rfl⟩
      · obtain ⟨s', hs'⟩ := readStr_tag1_hit cfg cls (q - 4 - 8) b old hq4 ho (bcond_ne (by simp) hb) []
          (tagB (Prim.u32).tag ++ (le (Prim.u32).width (idxIn T o) ++ ((encItems (addUnique t o).1 body).2 ++ tail)))
          (pos + 4 + 8) R F
        rw [hs']; exact ⟨_, _, rfl⟩
      · simp at hnd
      · obtain ⟨s', hs'⟩ := readStr_tag2_hit cfg cls (q - 4 - 8) b old h0 hq4 hq5 ho (bcond_ne (by simp) hb) hcll hca []
          (tagB (Prim.u32).tag ++ (le (Prim.u32).width (idxIn T o) ++ ((encItems (addUnique t o).1 body).2 ++ tail)))
          (pos + 4 + 8) R F
        rw [hs']; exact ⟨_, _, rfl⟩
      · -- a character of the class name
        by_cases hm : m = .poly
        · simp [hm, PC.det] at hc
        simp only [hm, ↓reduceIte] at hb hc
        rw [readStr_char_hit cfg cls (q - 4 - 8) b hq4 hq5 hcll hca]
        simp only [Res.bind]
        have hj : q - 4 - 8 - 16 < cls.length := by omega
        have hold : old = cls[q - 4 - 8 - 16] := by
          have h0 : cls.length ≠ 0 := by omega
          simp only [encStr, encPrim, h0, ↓reduceIte, encRaw, List.append_assoc] at ho
          rw [List.getElem?_append_right (by simp; omega), List.getElem?_append_right (by simp [Prim.width]; omega),
            List.getElem?_append_right (by simp [Prim.width]; omega)] at ho
          simp only [tagB_length, le_length, Prim.width] at ho
          have : q - 4 - 8 - 4 - 8 - 4 = q - 4 - 8 - 16 := by omega
          rw [this, List.getElem?_eq_getElem hj] at ho
          exact (Option.some.inj ho).symm
        have hbc : upc b ≠ upc cls[q - 4 - 8 - 16] := by
          have := hb; simp only [bcond, ↓reduceIte] at this; rw [hold] at this; exact this
        have hg := getClass_damaged classes cls (q - 4 - 8 - 16) b hj hbc
        cases hgc : getClass classes (cls.set (q - 4 - 8 - 16) b) with
        | none => exact ⟨_, _, rfl⟩
        | some c' =>
          have : c' ≠ cls := by
            intro h; rw [h] at hgc; exact hg hgc
          simp only [ne_eq, hm, this, not_false_eq_true, and_self, ↓reduceIte]
          exact ⟨_, _, rfl⟩
    -- the class name is intact
    have hq3' : (encStr cls).length ≤ q - 4 - 8 := Nat.not_lt.mp hq3
    rw [List.getElem?_append_right (by omega), hSl] at hlay
    rw [List.getElem?_append_right hq3'] at ho
    rw [set_append_right _ _ _ _ hq3']
    simp only [List.append_assoc]
    rw [readStr_ok cfg cls [] _ (pos + 4 + 8) R F hcll hca (fun _ => rfl)]
    simp only [Res.bind, hcl, ne_eq, not_true_eq_false, and_false, ↓reduceIte]
    rcases lay_split hlay with ⟨hq4, rfl⟩ | ⟨hq4, hlay⟩
    · -- the tag of the index record
      rw [readData_tag_hit cfg (Prim.u32).tag (Prim.tag_lt _) _ _ b old hq4 ho (bcond_ne (by simp) hb)]
      exact ⟨_, _, rfl⟩
    rcases lay_split hlay with ⟨hq5, rfl⟩ | ⟨hq5, hlay⟩
    · simp at hnd
    -- inside the body
    rw [List.getElem?_append_right (by simp; omega), List.getElem?_append_right (by simp [Prim.width]; omega)] at ho
    rw [set_append_right _ _ _ _ (by simp; omega), set_append_right _ _ _ _ (by simp [Prim.width]; omega)]
    simp only [tagB_length, le_length, Prim.width] at ho ⊢
    have e5 := readData_ok cfg (Prim.u32).tag (Prim.tag_lt _) (le 4 (idxIn T o))
      ((encItems (addUnique t o).1 body).2.set (q - 4 - 8 - (encStr cls).length - 4 - 4) b ++ tail) none
      (pos + 4 + 8 + (encStr cls).length) R F 4 (by simp)
    simp only [List.append_assoc] at e5 ⊢
    rw [e5]
    have hu' : unle (le 4 (idxIn T o)) = idxIn T o := by simpa [Prim.width] using hu
    have h6b : (idxIn T o == 0) = false := by simpa using h6
    have h7b : decide (idxIn T o > R.length) = false := by simpa using h7
    simp only [hu', h6b, h7b, Bool.or_self, Bool.and_false, Bool.false_eq_true, ↓reduceIte]
    obtain ⟨e, s', hs'⟩ := readItems_damaged cfg classes T hT hA body (addUnique t o).1 tail
      (pos + 4 + 8 + (encStr cls).length + 4 + 4) R F (q - 4 - 8 - (encStr cls).length - 4 - 4) b old c hp hwb hR hBl
      hlay hc ho hb
    rw [hs']
    exact ⟨_, _, rfl⟩
theorem readItems_damaged (cfg : Cfg) (classes : List Bytes) (T : List Lbl)
    (hT : T.length < nullIdx) (hA : T.length * 8 < cfg.allocLimit) :
    (w : List Item) → (t : List Lbl) → (tail : Bytes) → (pos : Nat) → (R : List Lbl) → (F : List Nat) →
    (q : Nat) → (b old : UInt8) → (c : PC) →
    (encItems t w).1 <+: T → WFItems cfg classes w → R.length = T.length → (encItems t w).2.length < 2 ^ 63 →
    (layItems w)[q]? = some c → c.det → (encItems t w).2[q]? = some old → bcond c old b →
    ∃ e s', readItems cfg classes (schemaOf w) ⟨(encItems t w).2.set q b ++ tail, pos, true, R, F⟩ = .err e s'
  | [], t, tail, pos, R, F, q, b, old, c, _, _, _, _, hlay, _, _, _ => by
    simp [layItems] at hlay
  | i :: is, t, tail, pos, R, F, q, b, old, c, hp, hw, hR, hl, hlay, hc, ho, hb => by
    simp only [WFItems] at hw
    simp only [encItems] at hp hl ho
    have hp1 : (encItem t i).1 <+: T := (encItems_prefix is _).trans hp
    simp only [List.length_append] at hl
    simp only [layItems] at hlay
    have hlen := layItem_length i t
    simp only [schemaOf, encItems, readItems]
    by_cases hq : q < (encItem t i).2.length
    · rw [List.getElem?_append_left (by omega)] at hlay
      rw [List.getElem?_append_left hq] at ho
      rw [set_append_left _ _ _ _ hq, List.append_assoc]
      obtain ⟨e, s', hs'⟩ := readItem_damaged cfg classes T hT hA i t _ pos R F q b old c hp1 hw.1 hR (by omega)
        hlay hc ho hb
      rw [hs']; exact ⟨_, _, rfl⟩
    · have hq' : (encItem t i).2.length ≤ q := Nat.not_lt.mp hq
      rw [List.getElem?_append_right (by omega), hlen] at hlay
      rw [List.getElem?_append_right hq'] at ho
      rw [set_append_right _ _ _ _ hq', List.append_assoc]
      rw [readItem_enc cfg classes T hT hA i t _ pos R F hp1 hw.1 hR (by omega)]
      simp only [Res.bind]
      obtain ⟨e, s', hs'⟩ := readItems_damaged cfg classes T hT hA is (encItem t i).1 tail
        (pos + (encItem t i).2.length) ((regLabelsItem i).foldl (setL T) R) (newFixItem T i ++ F)
        (q - (encItem t i).2.length) b old c hp hw.2 (by simp [hR]) (by omega) hlay hc ho hb
      rw [hs']; exact ⟨_, _, rfl⟩
end

end Morfuse.Archive
