import MorfuseModel.Archive.ValueRoundTrip
/-!
# The string dictionary on the reading side (`src/Common/StringDictionary.cpp`)

A ConstString script value (and every other `const_str` archived through
`StringDictionary::ArchiveString`) is stored in the archive by its **text**; on the load side the text read
from the stream becomes a `const_str` of the dictionary of the *reading* script context:

```
str value;  ::Archive(arc, value);  constStringValue = Add(value);
```

The dictionary never touches the stream and `Add` never fails, so the load side is modelled as a pass over
the texts the stream reader (`readValue`, `Value.constString (some text)`) delivered, in load order, threaded
through the reading dictionary `D` — a **parameter**: the archive may be loaded in a session whose dictionary
has never seen the strings, or already holds some of them, or holds other strings at the ids the writer used.
Which call the load side makes (`Add` / `Get`) is read from the source on every run
(`Gen.Archive.dictLoadAdds`); `Dict.load_eq_add` is where a change shows.
-/
namespace Morfuse.Archive

/-- `StringDictionary` (`con::arrayset<str, str>`): the text of id `i ≥ 1` is `d[i - 1]`;
    id `0` is `const_str::None()` -/
abbrev Dict := List Bytes

/-- `Add(text)` (`addKeyIndex`): the id of the text, interned at the next free id when it is new -/
def Dict.add (d : Dict) (bs : Bytes) : Dict × Nat :=
  if bs ∈ d then (d, d.idxOf bs + 1) else (d ++ [bs], d.length + 1)

/-- `Get(text)` (`findKeyIndex`): `const_str::None()` when the dictionary does not hold the text -/
def Dict.find (d : Dict) (bs : Bytes) : Nat := if bs ∈ d then d.idxOf bs + 1 else 0

/-- `Get(id)`: the text an id denotes -/
def Dict.text (d : Dict) (id : Nat) : Option Bytes := if id = 0 then none else d[id - 1]?

/-- load side of `StringDictionary::ArchiveString` for a text read from the archive -/
def Dict.load (d : Dict) (bs : Bytes) : Dict × Nat :=
  if Gen.Archive.dictLoadAdds then d.add bs else (d, d.find bs)

/-- the texts of a whole load, in load order -/
def Dict.loadAll (d : Dict) : List Bytes → Dict × List Nat
  | [] => (d, [])
  | bs :: r =>
    let a := d.load bs
    let b := Dict.loadAll a.1 r
    (b.1, a.2 :: b.2)

mutual
/-- texts handed to the dictionary while one value is loaded (`hasString ≠ 0` only), in call order -/
def constTexts : Value → List Bytes
  | .constString (some bs) => [bs]
  | .constArray _ _ elems => constTextsElems elems
  | .array _ _ _ _ _ kvs => constTextsElems kvs
  | _ => []
def constTextsElems : List (Lbl × Value) → List Bytes
  | [] => []
  | (_, v) :: es => constTexts v ++ constTextsElems es
end

def constTextsW : List WItem → List Bytes
  | [] => []
  | .item _ :: ws => constTextsW ws
  | .value _ v :: ws => constTexts v ++ constTextsW ws
  | .named _ none v :: ws => constTexts v ++ constTextsW ws
  | .named _ (some k) v :: ws => k :: (constTexts v ++ constTextsW ws)

/-- what a load leaves behind: the values (const strings by the text the archive held), the reading
    dictionary afterwards, and the `const_str` each ConstString variable received, in load order -/
structure Loaded where
  items : List WItem
  dict : Dict
  ids : List Nat
  deriving Repr

/-- `decodeW` in a script context whose dictionary is `D` -/
def decodeWD (cfg : Cfg) (classes : List Bytes) (info : Info) (sch : List WSch) (D : Dict) (bytes : Bytes) :
    Except Err Loaded :=
  match decodeW cfg classes info sch bytes with
  | .ok ws => .ok { items := ws, dict := (D.loadAll (constTextsW ws)).1, ids := (D.loadAll (constTextsW ws)).2 }
  | .error e => .error e

/-! ### lemmas -/

theorem Dict.load_eq_add (d : Dict) (bs : Bytes) : d.load bs = d.add bs := by
  simp [Dict.load, Gen.Archive.dictLoadAdds]

theorem Dict.add_prefix (d : Dict) (bs : Bytes) : d <+: (d.add bs).1 := by
  unfold Dict.add; split
  · exact List.prefix_refl d
  · exact List.prefix_append d [bs]

theorem Dict.add_text (d : Dict) (bs : Bytes) : (d.add bs).1.text (d.add bs).2 = some bs := by
  unfold Dict.add; split
  · rename_i h
    have hl := List.idxOf_lt_length_of_mem h
    simp [Dict.text, List.getElem?_eq_getElem hl]
  · simp [Dict.text]

theorem Dict.text_mono {d d' : Dict} (hp : d <+: d') {i : Nat} {bs : Bytes} (h : d.text i = some bs) :
    d'.text i = some bs := by
  obtain ⟨q, rfl⟩ := hp
  unfold Dict.text at h ⊢
  split at h
  · simp at h
  · rename_i h0
    simp only [h0, ↓reduceIte]
    have hl : i - 1 < d.length := by
      rcases Nat.lt_or_ge (i - 1) d.length with h1 | h1
      · exact h1
      · rw [List.getElem?_eq_none h1] at h; simp at h
    rw [List.getElem?_append_left hl]; exact h

theorem Dict.add_mem (d : Dict) (bs : Bytes) : bs ∈ (d.add bs).1 := by
  unfold Dict.add; split <;> simp [*]

theorem idxOf_of_prefixB {p T : Dict} {o : Bytes} (hp : p <+: T) (ho : o ∈ p) : T.idxOf o = p.idxOf o := by
  obtain ⟨q, rfl⟩ := hp
  simp [List.idxOf_append, ho]

/-- once a text is interned its id never changes, however the dictionary grows -/
theorem Dict.add_stable {d d' : Dict} (bs : Bytes) (hp : (d.add bs).1 <+: d') : (d'.add bs).2 = (d.add bs).2 := by
  have hm := Dict.add_mem d bs
  have hm' : bs ∈ d' := hp.subset hm
  have e1 : (d'.add bs).2 = d'.idxOf bs + 1 := by simp [Dict.add, hm']
  have e2 : (d.add bs).2 = (d.add bs).1.idxOf bs + 1 := by
    unfold Dict.add; split
    · rfl
    · rename_i h; simp [List.idxOf_append, h]
  rw [e1, e2, idxOf_of_prefixB hp hm]

theorem Dict.loadAll_prefix : (ts : List Bytes) → (d : Dict) → d <+: (d.loadAll ts).1
  | [], d => List.prefix_refl d
  | bs :: r, d => by
    simp only [Dict.loadAll, Dict.load_eq_add]
    exact (Dict.add_prefix d bs).trans (Dict.loadAll_prefix r _)

theorem Dict.loadAll_length : (ts : List Bytes) → (d : Dict) → (d.loadAll ts).2.length = ts.length
  | [], _ => rfl
  | bs :: r, d => by simp [Dict.loadAll, Dict.loadAll_length r]

/-- every id handed out denotes, in the final dictionary, the text that was loaded -/
theorem Dict.loadAll_text : (ts : List Bytes) → (d : Dict) →
    (d.loadAll ts).2.map ((d.loadAll ts).1.text) = ts.map some
  | [], _ => rfl
  | bs :: r, d => by
    simp only [Dict.loadAll, Dict.load_eq_add, List.map_cons, List.cons.injEq]
    exact ⟨Dict.text_mono (Dict.loadAll_prefix r _) (Dict.add_text d bs), Dict.loadAll_text r _⟩

/-- an id of the dictionary the load started from still denotes what it denoted -/
theorem Dict.loadAll_keeps (ts : List Bytes) (d : Dict) {i : Nat} {bs : Bytes} (h : d.text i = some bs) :
    (d.loadAll ts).1.text i = some bs :=
  Dict.text_mono (Dict.loadAll_prefix ts d) h

/-- a text that is already interned when the load starts keeps its id -/
theorem Dict.loadAll_known : (ts : List Bytes) → (d : Dict) → (k : Nat) → (bs : Bytes) → bs ∈ d →
    ts[k]? = some bs → (d.loadAll ts).2[k]? = some (d.idxOf bs + 1)
  | [], _, _, _, _, h => by simp at h
  | t :: r, d, 0, bs, hm, h => by
    simp only [List.getElem?_cons_zero, Option.some.injEq] at h
    subst h
    simp [Dict.loadAll, Dict.load_eq_add, Dict.add, hm]
  | t :: r, d, k + 1, bs, hm, h => by
    simp only [List.getElem?_cons_succ] at h
    simp only [Dict.loadAll, Dict.load_eq_add, List.getElem?_cons_succ]
    have hp := Dict.add_prefix d t
    rw [Dict.loadAll_known r (d.add t).1 k bs (hp.subset hm) h, idxOf_of_prefixB hp hm]

/-- two loads of the same text yield the same `const_str`, two loads of different texts different ones -/
theorem Dict.loadAll_ids_eq_iff (ts : List Bytes) (d : Dict) (i j : Nat) (hi : i < ts.length) (hj : j < ts.length) :
    (d.loadAll ts).2[i]? = (d.loadAll ts).2[j]? ↔ ts[i]? = ts[j]? := by
  have ht := Dict.loadAll_text ts d
  have hl := Dict.loadAll_length ts d
  have hti : ∀ k, k < ts.length → ((d.loadAll ts).2[k]?).map ((d.loadAll ts).1.text) = some (ts[k]?) := by
    intro k hk
    have := congrArg (fun l => l[k]?) ht
    simp only [List.getElem?_map] at this
    rw [this]; simp [List.getElem?_eq_getElem hk]
  constructor
  · intro h
    have a := hti i hi
    have b := hti j hj
    rw [h] at a
    rw [a] at b
    exact Option.some.inj b
  · intro h
    -- both are the id of the first load of that text
    rw [List.getElem?_eq_getElem hi, List.getElem?_eq_getElem hj] at h
    have h' : ts[i] = ts[j] := Option.some.inj h
    suffices hs : ∀ (ts : List Bytes) (d : Dict) (i j : Nat) (hi : i < ts.length) (hj : j < ts.length), i ≤ j →
        ts[i] = ts[j] → (d.loadAll ts).2[i]? = (d.loadAll ts).2[j]? by
      rcases Nat.le_total i j with hij | hij
      · exact hs ts d i j hi hj hij h'
      · exact (hs ts d j i hj hi hij h'.symm).symm
    clear h h' hti hl ht hi hj i j d ts
    intro ts
    induction ts with
    | nil => intro d i j hi; simp at hi
    | cons t r ih =>
      intro d i j hi hj hij he
      cases i with
      | zero =>
        cases j with
        | zero => rfl
        | succ j =>
          simp only [List.getElem_cons_zero, List.getElem_cons_succ] at he
          simp only [Dict.loadAll, Dict.load_eq_add, List.getElem?_cons_zero, List.getElem?_cons_succ]
          have hj' : j < r.length := by simpa using hj
          have hm := Dict.add_mem d t
          rw [Dict.loadAll_known r (d.add t).1 j t hm (by rw [List.getElem?_eq_getElem hj', he])]
          congr 1
          unfold Dict.add; split
          · rfl
          · rename_i h; simp [List.idxOf_append, h]
      | succ i =>
        cases j with
        | zero => omega
        | succ j =>
          simp only [List.getElem_cons_succ] at he
          simp only [Dict.loadAll, List.getElem?_cons_succ]
          exact ih _ i j (by simpa using hi) (by simpa using hj) (by omega) he

/-- **Round trip through any reading dictionary.**  Whatever the dictionary `D` of the loading script context
    holds, the load completes with the sequence that was written, `D`'s own ids keep their texts, and every
    `const_str` handed to a loaded ConstString value denotes, in the dictionary after the load, exactly the
    text the writer archived. -/
theorem decodeWD_encodeW (cfg : Cfg) (classes : List Bytes) (info : Info) (ws : List WItem)
    (hw : WFW cfg classes info ws) (D : Dict) :
    ∃ L, decodeWD cfg classes info (schemaW ws) D (encodeW info ws) = .ok L ∧ L.items = ws ∧ D <+: L.dict ∧
      L.ids.map L.dict.text = (constTextsW ws).map some := by
  refine ⟨{ items := ws, dict := (D.loadAll (constTextsW ws)).1, ids := (D.loadAll (constTextsW ws)).2 }, ?_, rfl,
    Dict.loadAll_prefix _ D, Dict.loadAll_text _ D⟩
  simp [decodeWD, decodeW_encodeW cfg classes info ws hw]

end Morfuse.Archive
