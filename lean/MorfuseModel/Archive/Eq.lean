import MorfuseModel.Archive.Model
/-! decidable comparison of decode outcomes (`Item` is a nested inductive: no derived `DecidableEq`),
used only to check concrete witnesses with `decide +kernel` -/
namespace Morfuse.Archive

mutual
def Item.beq : Item → Item → Bool
  | .prim p v, .prim p' v' => p == p' && v == v'
  | .raw a, .raw b => a == b
  | .str a, .str b => a == b
  | .ptr s o, .ptr s' o' => s == s' && o == o'
  | .position o, .position o' => o == o'
  | .object m o c b, .object m' o' c' b' => decide (m = m') && o == o' && c == c' && Item.beqL b b'
  | _, _ => false
def Item.beqL : List Item → List Item → Bool
  | [], [] => true
  | a :: as, b :: bs => Item.beq a b && Item.beqL as bs
  | _, _ => false
end

mutual
theorem Item.eq_of_beq : (a b : Item) → Item.beq a b = true → a = b
  | .prim p v, .prim p' v', h => by simp [Item.beq] at h; rw [h.1, h.2]
  | .raw a, .raw b, h => by simp [Item.beq] at h; rw [h]
  | .str a, .str b, h => by simp [Item.beq] at h; rw [h]
  | .ptr s o, .ptr s' o', h => by simp [Item.beq] at h; rw [h.1, h.2]
  | .position o, .position o', h => by simp [Item.beq] at h; rw [h]
  | .object m o c b, .object m' o' c' b', h => by
    simp only [Item.beq, Bool.and_eq_true, beq_iff_eq, decide_eq_true_eq] at h
    rw [h.1.1.1, h.1.1.2, h.1.2, Item.eqL_of_beqL b b' h.2]
  | .prim _ _, .raw _, h | .prim _ _, .str _, h | .prim _ _, .ptr _ _, h | .prim _ _, .position _, h
  | .prim _ _, .object _ _ _ _, h => by simp [Item.beq] at h
  | .raw _, .prim _ _, h | .raw _, .str _, h | .raw _, .ptr _ _, h | .raw _, .position _, h
  | .raw _, .object _ _ _ _, h => by simp [Item.beq] at h
  | .str _, .prim _ _, h | .str _, .raw _, h | .str _, .ptr _ _, h | .str _, .position _, h
  | .str _, .object _ _ _ _, h => by simp [Item.beq] at h
  | .ptr _ _, .prim _ _, h | .ptr _ _, .raw _, h | .ptr _ _, .str _, h | .ptr _ _, .position _, h
  | .ptr _ _, .object _ _ _ _, h => by simp [Item.beq] at h
  | .position _, .prim _ _, h | .position _, .raw _, h | .position _, .str _, h | .position _, .ptr _ _, h
  | .position _, .object _ _ _ _, h => by simp [Item.beq] at h
  | .object _ _ _ _, .prim _ _, h | .object _ _ _ _, .raw _, h | .object _ _ _ _, .str _, h | .object _ _ _ _, .ptr _ _, h
  | .object _ _ _ _, .position _, h => by simp [Item.beq] at h
theorem Item.eqL_of_beqL : (a b : List Item) → Item.beqL a b = true → a = b
  | [], [], _ => rfl
  | a :: as, b :: bs, h => by
    simp only [Item.beqL, Bool.and_eq_true] at h
    rw [Item.eq_of_beq a b h.1, Item.eqL_of_beqL as bs h.2]
  | [], _ :: _, h => by simp [Item.beqL] at h
  | _ :: _, [], h => by simp [Item.beqL] at h
end

/-- Boolean comparison of two decode outcomes -/
def outcomeBeq : Except Err (List Item) → Except Err (List Item) → Bool
  | .ok a, .ok b => Item.beqL a b
  | .error e, .error e' => e == e'
  | _, _ => false

theorem eq_of_outcomeBeq {r r' : Except Err (List Item)} (h : outcomeBeq r r' = true) : r = r' := by
  cases r <;> cases r' <;> simp [outcomeBeq] at h
  · rw [h]
  · rw [Item.eqL_of_beqL _ _ h]

end Morfuse.Archive
