import MorfuseModel.Archive.Eq
import MorfuseModel.Archive.Value
/-! decidable comparison of mixed decode outcomes (for concrete witnesses checked with `decide +kernel`) -/
namespace Morfuse.Archive

mutual
def Value.beq : Value → Value → Bool
  | .none, .none => true
  | .int a, .int b => a == b
  | .float a, .float b => a == b
  | .char a, .char b => a == b
  | .string a, .string b => a == b
  | .constString a, .constString b => a == b
  | .vector a, .vector b => a == b
  | .link c s a, .link c' s' b => c == c' && s == s' && a == b
  | .holderRef c a, .holderRef c' b => c == c' && a == b
  | .pointer p vs, .pointer p' vs' => p == p' && vs == vs'
  | .array h rc tl th tli es, .array h' rc' tl' th' tli' es' =>
    h == h' && rc == rc' && tl == tl' && th == th' && tli == tli' && Value.beqE es es'
  | .constArray h rc es, .constArray h' rc' es' => h == h' && rc == rc' && Value.beqE es es'
  | _, _ => false
def Value.beqE : List (Lbl × Value) → List (Lbl × Value) → Bool
  | [], [] => true
  | (l, v) :: es, (l', v') :: es' => l == l' && Value.beq v v' && Value.beqE es es'
  | _, _ => false
end

mutual
theorem Value.eq_of_beq : (a b : Value) → Value.beq a b = true → a = b := by
  intro a b h
  cases a <;> cases b <;> simp [Value.beq] at h
  all_goals first
    | rfl
    | (rw [h])
    | (obtain ⟨⟨rfl, rfl⟩, rfl⟩ := h; rfl)
    | (obtain ⟨rfl, rfl⟩ := h; rfl)
    | (obtain ⟨⟨rfl, rfl⟩, h3⟩ := h; rw [Value.eqE_of_beqE _ _ h3])
    | (obtain ⟨⟨⟨⟨⟨rfl, rfl⟩, rfl⟩, rfl⟩, rfl⟩, h3⟩ := h; rw [Value.eqE_of_beqE _ _ h3])
theorem Value.eqE_of_beqE : (a b : List (Lbl × Value)) → Value.beqE a b = true → a = b
  | [], [], _ => rfl
  | (l, v) :: es, (l', v') :: es', h => by
    simp only [Value.beqE, Bool.and_eq_true, beq_iff_eq] at h
    rw [h.1.1, Value.eq_of_beq v v' h.1.2, Value.eqE_of_beqE es es' h.2]
  | [], _ :: _, h => by simp [Value.beqE] at h
  | _ :: _, [], h => by simp [Value.beqE] at h
end

def WItem.beqL : List WItem → List WItem → Bool
  | [], [] => true
  | .item a :: as, .item b :: bs => Item.beq a b && WItem.beqL as bs
  | .value s v :: as, .value s' v' :: bs => s == s' && Value.beq v v' && WItem.beqL as bs
  | .named s k v :: as, .named s' k' v' :: bs => s == s' && k == k' && Value.beq v v' && WItem.beqL as bs
  | _, _ => false

theorem WItem.eqL_of_beqL : (a b : List WItem) → WItem.beqL a b = true → a = b
  | [], [], _ => rfl
  | .item a :: as, .item b :: bs, h => by
    simp only [WItem.beqL, Bool.and_eq_true] at h
    rw [Item.eq_of_beq a b h.1, WItem.eqL_of_beqL as bs h.2]
  | .value s v :: as, .value s' v' :: bs, h => by
    simp only [WItem.beqL, Bool.and_eq_true, beq_iff_eq] at h
    rw [h.1.1, Value.eq_of_beq v v' h.1.2, WItem.eqL_of_beqL as bs h.2]
  | [], _ :: _, h => by simp [WItem.beqL] at h
  | _ :: _, [], h => by simp [WItem.beqL] at h
  | .named s k v :: as, .named s' k' v' :: bs, h => by
    simp only [WItem.beqL, Bool.and_eq_true, beq_iff_eq] at h
    rw [h.1.1.1, h.1.1.2, Value.eq_of_beq v v' h.1.2, WItem.eqL_of_beqL as bs h.2]
  | .item _ :: _, .value _ _ :: _, h => by simp [WItem.beqL] at h
  | .value _ _ :: _, .item _ :: _, h => by simp [WItem.beqL] at h
  | .item _ :: _, .named _ _ _ :: _, h => by simp [WItem.beqL] at h
  | .named _ _ _ :: _, .item _ :: _, h => by simp [WItem.beqL] at h
  | .value _ _ :: _, .named _ _ _ :: _, h => by simp [WItem.beqL] at h
  | .named _ _ _ :: _, .value _ _ :: _, h => by simp [WItem.beqL] at h

def outcomeBeqW : Except Err (List WItem) → Except Err (List WItem) → Bool
  | .ok a, .ok b => WItem.beqL a b
  | .error e, .error e' => e == e'
  | _, _ => false

theorem eq_of_outcomeBeqW {r r' : Except Err (List WItem)} (h : outcomeBeqW r r' = true) : r = r' := by
  cases r <;> cases r' <;> simp [outcomeBeqW] at h
  · rw [h]
  · rw [WItem.eqL_of_beqL _ _ h]

end Morfuse.Archive
