import MorfuseModel.Archive.RoundTrip
/-! `Honest T r c a`: a reader `r`, run where the stream holds the encoding of the calls `c`, returns `a`, consumes
exactly that encoding, registers nothing and queues the fix-ups of `c`.  Closed under `Res.bind`; the leaves are the
record lemmas of `Lemmas.lean` / `RoundTrip.lean`.  Used for the data-directed readers (`Tables.lean`, the list of a
`ScriptPointer` in `Value.lean`). -/
namespace Morfuse.Archive

theorem encItems_append (t : List Lbl) (a b : List Item) :
    encItems t (a ++ b) = ((encItems (encItems t a).1 b).1, (encItems t a).2 ++ (encItems (encItems t a).1 b).2) := by
  induction a generalizing t with
  | nil => simp [encItems]
  | cons i is ih => simp [encItems, ih, List.append_assoc]

theorem newFix_append (T : List Lbl) (a b : List Item) : newFix T (a ++ b) = newFix T b ++ newFix T a := by
  induction a with
  | nil => simp [newFix]
  | cons i is ih => simp [newFix, ih, List.append_assoc]

/-- `r`, run where the stream holds the encoding of the calls `c`, returns `a`, consumes exactly that encoding,
    registers nothing and queues the fix-ups of `c` -/
def Honest (T : List Lbl) {α : Type} (r : RS → Res α) (c : List Item) (a : α) : Prop :=
  ∀ (t : List Lbl) (tail : Bytes) (pos : Nat) (R : List Lbl) (F : List Nat),
    (encItems t c).1 <+: T → R.length = T.length →
    r ⟨(encItems t c).2 ++ tail, pos, true, R, F⟩ =
      .ok a ⟨tail, pos + (encItems t c).2.length, true, R, newFix T c ++ F⟩

theorem Honest.bind {T : List Lbl} {α β : Type} {r1 : RS → Res α} {c1 : List Item} {a1 : α}
    {r2 : α → RS → Res β} {c2 : List Item} {a2 : β}
    (h1 : Honest T r1 c1 a1) (h2 : Honest T (r2 a1) c2 a2) :
    Honest T (fun s => (r1 s).bind r2) (c1 ++ c2) a2 := by
  intro t tail pos R F hp hR
  rw [encItems_append] at hp ⊢
  simp only at hp ⊢
  have e1 := h1 t ((encItems (encItems t c1).1 c2).2 ++ tail) pos R F ((encItems_prefix c2 _).trans hp) hR
  rw [List.append_assoc, e1]
  simp only [Res.bind]
  rw [h2 (encItems t c1).1 tail _ R _ hp hR]
  simp [newFix_append, Nat.add_assoc]

theorem Honest.congr {T : List Lbl} {α : Type} {r r' : RS → Res α} {c : List Item} {a : α}
    (h : ∀ s, r s = r' s) (h' : Honest T r' c a) : Honest T r c a := by
  intro t tail pos R F hp hR
  rw [h]; exact h' t tail pos R F hp hR

/-- `r` and `r'` agree on the states the statement is about (checks against what the stream still holds) -/
theorem Honest.congrOn {T : List Lbl} {α : Type} {r r' : RS → Res α} {c : List Item} {a : α}
    (h : ∀ (t : List Lbl) (tail : Bytes) (pos : Nat) (R : List Lbl) (F : List Nat),
      r ⟨(encItems t c).2 ++ tail, pos, true, R, F⟩ = r' ⟨(encItems t c).2 ++ tail, pos, true, R, F⟩)
    (h' : Honest T r' c a) : Honest T r c a := by
  intro t tail pos R F hp hR
  rw [h]; exact h' t tail pos R F hp hR

theorem Honest.calls_eq {T : List Lbl} {α : Type} {r : RS → Res α} {c c' : List Item} {a : α}
    (h : c = c') (h' : Honest T r c' a) : Honest T r c a := h ▸ h'

theorem Honest.pure {T : List Lbl} {α : Type} (a : α) : Honest T (fun s => Res.ok a s) [] a := by
  intro t tail pos R F _ _
  simp [encItems, newFix]

theorem Honest.data {T : List Lbl} (cfg : Cfg) (p : Prim) (v : Nat) (old : Option Bytes) :
    Honest T (readData cfg p.tag p.width old) [.prim p v] (le p.width v) := by
  intro t tail pos R F _ _
  simp only [encItems, encItem, encPrim, List.append_nil, newFix, newFixItem, List.nil_append]
  rw [readData_ok cfg p.tag (Prim.tag_lt _) (le p.width v) tail old pos R F p.width (le_length _ _)]
  simp [Nat.add_assoc]

theorem Honest.str {T : List Lbl} (cfg : Cfg) (bs : Bytes) (hl : bs.length < 2 ^ 64)
    (ha : strAlloc bs.length < cfg.allocLimit) : Honest T (readStr cfg []) [.str bs] bs := by
  intro t tail pos R F _ _
  simp only [encItems, encItem, List.append_nil, newFix, newFixItem, List.nil_append]
  rw [readStr_ok cfg bs [] tail pos R F hl ha (fun _ => rfl)]

theorem Honest.ptr {T : List Lbl} (hT : T.length < nullIdx) (cfg : Cfg) (safe : Bool) (o : Lbl) :
    Honest T (readPtr cfg safe) [.ptr safe o] (if o = 0 then 0 else idxIn T o) := by
  intro t tail pos R F hp hR
  by_cases ho : o = 0
  · subst ho
    simp only [encItems, encItem, ↓reduceIte, List.append_nil, newFix, newFixItem, List.nil_append]
    rw [readPtr_null]
    simp
  · simp only [encItems, encItem, ho, ↓reduceIte] at hp
    obtain ⟨e1, e2, e3, _⟩ := idx_bounds hp
    simp only [encItems, encItem, ho, ↓reduceIte, List.append_nil, newFix, newFixItem, List.nil_append, e1]
    rw [readPtr_idx cfg safe (idxIn T o) tail pos R F e2 (by omega) (by omega)]
    simp

theorem regLabels_append (a b : List Item) : regLabels (a ++ b) = regLabels a ++ regLabels b := by
  induction a with
  | nil => simp [regLabels]
  | cons i is ih => simp [regLabels, ih, List.append_assoc]

/-- every pointer record takes 8 bytes -/
theorem ptrs_enc_length (safe : Bool) : (ls : List Lbl) → (t : List Lbl) →
    (encItems t (ls.map (.ptr safe ·))).2.length = 8 * ls.length
  | [], t => by simp [encItems]
  | o :: ls, t => by
    simp only [List.map_cons, encItems, List.length_append, ptrs_enc_length safe ls, List.length_cons]
    simp only [encItem]
    split <;> simp <;> omega

/-- no pointer record registers an object -/
theorem ptrs_regLabels (safe : Bool) (ls : List Lbl) : regLabels (ls.map (.ptr safe ·)) = [] := by
  induction ls with
  | nil => rfl
  | cons o ls ih => simp [regLabels, regLabelsItem, ih]

end Morfuse.Archive
