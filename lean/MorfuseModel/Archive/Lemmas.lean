import MorfuseModel.Archive.Model
/-! helper lemmas for the Archive model (C10 / C11) -/
namespace Morfuse.Archive

@[simp] theorem le_length (w n : Nat) : (le w n).length = w := by
  induction w generalizing n with
  | zero => rfl
  | succ w ih => simp [le, ih]

theorem unle_le (w n : Nat) : unle (le w n) = n % 256 ^ w := by
  induction w generalizing n with
  | zero => simp [le, unle, Nat.mod_one]
  | succ w ih =>
    simp only [le, unle, ih, UInt8.toNat_ofNat']
    have h1 : n % 256 % (2 ^ 7 * 2) = n % 256 := by omega
    rw [h1, Nat.pow_succ, Nat.mul_comm (256 ^ w) 256, Nat.mod_mul]

theorem unle_le_of_lt {w n : Nat} (h : n < 256 ^ w) : unle (le w n) = n := by
  rw [unle_le, Nat.mod_eq_of_lt h]

end Morfuse.Archive
