import MorfuseModel.Archive.Model
/-! helper lemmas for the Archive model (C10 / C11): byte codecs, honest reads of each record -/
namespace Morfuse.Archive

@[simp] theorem le_length (w n : Nat) : (le w n).length = w := by
  induction w generalizing n with
  | zero => rfl
  | succ w ih => simp [le, ih]

theorem unle_le (w n : Nat) : unle (le w n) = n % 256 ^ w := by
  induction w generalizing n with
  | zero => simp [le, unle, Nat.mod_one]
  | succ w ih =>
    simp only [le, unle, ih, UInt8.toNat_ofNat']
    have h1 : n % 256 % (2 ^ 7 * 2) = n % 256 := by omega
    rw [h1, Nat.pow_succ, Nat.mul_comm (256 ^ w) 256, Nat.mod_mul]

theorem unle_le_of_lt {w n : Nat} (h : n < 256 ^ w) : unle (le w n) = n := by
  rw [unle_le, Nat.mod_eq_of_lt h]

theorem unle_lt (bs : Bytes) : unle bs < 256 ^ bs.length := by
  induction bs with
  | nil => simp [unle]
  | cons b bs ih =>
    simp only [unle, List.length_cons, Nat.pow_succ]
    have := b.toNat_lt
    omega

theorem le_unle (bs : Bytes) : le bs.length (unle bs) = bs := by
  induction bs with
  | nil => rfl
  | cons b bs ih =>
    simp only [List.length_cons, le, unle]
    have hb := b.toNat_lt
    have h1 : (b.toNat + 256 * unle bs) % 256 = b.toNat := by omega
    have h2 : (b.toNat + 256 * unle bs) / 256 = unle bs := by omega
    rw [h1, h2, ih]
    simp

/-- two byte strings of the same length with the same value are the same -/
theorem unle_inj {a b : Bytes} (hl : a.length = b.length) (h : unle a = unle b) : a = b := by
  rw [← le_unle a, ← le_unle b, hl, h]

theorem lenGe_iff {α : Type} (l : List α) (n : Nat) : lenGe l n = true ↔ n ≤ l.length := by
  induction l generalizing n with
  | nil => cases n <;> simp [lenGe]
  | cons a l ih => cases n <;> simp [lenGe, ih]

theorem lenGe_false_iff {α : Type} (l : List α) (n : Nat) : lenGe l n = false ↔ l.length < n := by
  rw [← Bool.not_eq_true, lenGe_iff]; omega

theorem tagOf_le (n : String) : tagOf n ≤ 18 := by
  have h : Gen.Archive.tagNames.length = 18 := by decide
  unfold tagOf
  rw [← h]
  exact List.idxOf_le_length

theorem tagOf_lt (n : String) : tagOf n < 256 ^ 4 := by
  have := tagOf_le n
  omega

theorem Prim.tag_lt (p : Prim) : p.tag < 256 ^ 4 := tagOf_lt _

theorem ptrTag_lt (safe : Bool) : ptrTag safe < 256 ^ 4 := by
  unfold ptrTag; split <;> exact tagOf_lt _

theorem unle_tagB {t : Nat} (h : t < 256 ^ 4) : unle (tagB t) = t := unle_le_of_lt h

@[simp] theorem tagB_length (t : Nat) : (tagB t).length = 4 := le_length 4 t

/-! ### the two copies of the size bracket (as found in the source) do the same thing

This is where a divergence between `ArchiveObject` and the non-template `ReadObject()` shows: the lists are
regenerated from `Archiver.cpp` on every run, and everything below is proved through `bracketOf_eq`. -/

theorem bracketOf_eq (m : RMode) (d size : Int) :
    bracketOf m d size =
      if d > size then some .readPastEnd else if d < size then some .notReadEntire else none := by
  unfold bracketOf
  cases m <;>
    simp [bracket, Gen.Archive.bracketInto, Gen.Archive.bracketPoly, errOfName]

/-- the form in which `readItem` uses it -/
theorem bracket_ite {α : Type} (m : RMode) (d size : Int) (s : RS) (k : Res α) :
    brk (bracketOf m d size) s k =
      if d > size then .err .readPastEnd s else if d < size then .err .notReadEntire s else k := by
  rw [bracketOf_eq]
  by_cases h1 : d > size
  · simp [h1, brk]
  · by_cases h2 : d < size
    · simp [h1, h2, brk]
    · simp [h1, h2, brk]

/-! ### honest reads: the stream starts with what the writer produced -/

theorem readN_ok (cfg : Cfg) (bs tail : Bytes) (old : Option Bytes) (pos : Nat) (R : List Lbl) (F : List Nat)
    (n : Nat) (hn : bs.length = n) :
    readN cfg n old ⟨bs ++ tail, pos, true, R, F⟩ = .ok bs ⟨tail, pos + n, true, R, F⟩ := by
  subst hn
  have h : lenGe (bs ++ tail) bs.length = true := by rw [lenGe_iff]; simp
  simp [readN, h]

theorem readTag_ok (cfg : Cfg) (t : Nat) (ht : t < 256 ^ 4) (tail : Bytes) (pos : Nat) (R : List Lbl) (F : List Nat) :
    readTag cfg t ⟨tagB t ++ tail, pos, true, R, F⟩ = .ok () ⟨tail, pos + 4, true, R, F⟩ := by
  simp [readTag, readN_ok cfg (tagB t) tail none pos R F 4 (tagB_length t), Res.bind, unle_tagB ht]

theorem readData_ok (cfg : Cfg) (t : Nat) (ht : t < 256 ^ 4) (bs tail : Bytes) (old : Option Bytes) (pos : Nat)
    (R : List Lbl) (F : List Nat) (n : Nat) (hn : bs.length = n) :
    readData cfg t n old ⟨tagB t ++ bs ++ tail, pos, true, R, F⟩ = .ok bs ⟨tail, pos + 4 + n, true, R, F⟩ := by
  simp only [readData, List.append_assoc, readTag_ok cfg t ht, Res.bind]
  exact readN_ok cfg bs tail old (pos + 4) R F n hn

theorem width_pos_bound (p : Prim) : p.width ≤ 8 := by cases p <;> simp [Prim.width]

theorem readPrim_ok (cfg : Cfg) (p : Prim) (v : Nat) (hv : v < 256 ^ p.width) (tail : Bytes) (pos : Nat)
    (R : List Lbl) (F : List Nat) :
    readPrim cfg p ⟨encPrim p v ++ tail, pos, true, R, F⟩ = .ok v ⟨tail, pos + 4 + p.width, true, R, F⟩ := by
  simp only [readPrim, encPrim]
  rw [readData_ok cfg p.tag (Prim.tag_lt _) (le p.width v) tail _ pos R F p.width (le_length _ _)]
  simp [Res.bind, unle_le_of_lt hv]

@[simp] theorem encPrim_length (p : Prim) (v : Nat) : (encPrim p v).length = 4 + p.width := by
  simp [encPrim]

@[simp] theorem encRaw_length (bs : Bytes) : (encRaw bs).length = 4 + bs.length := by
  simp [encRaw]

theorem encStr_length (bs : Bytes) :
    (encStr bs).length = 12 + (if bs.length = 0 then 0 else 4 + bs.length) := by
  unfold encStr
  split <;> simp [Prim.width]

theorem readStr_ok (cfg : Cfg) (bs init tail : Bytes) (pos : Nat) (R : List Lbl) (F : List Nat)
    (hl : bs.length < 2 ^ 64) (ha : strAlloc bs.length < cfg.allocLimit) (he : bs.length = 0 → init = []) :
    readStr cfg init ⟨encStr bs ++ tail, pos, true, R, F⟩ =
      .ok bs ⟨tail, pos + (encStr bs).length, true, R, F⟩ := by
  have hw : bs.length < 256 ^ (Prim.size).width := by simpa [Prim.width] using hl
  by_cases h0 : bs.length = 0
  · have hb : bs = [] := List.eq_nil_of_length_eq_zero h0
    subst hb
    simp only [readStr, encStr, encPrim, List.length_nil, ↓reduceIte, List.append_nil]
    rw [readData_ok cfg (Prim.size).tag (Prim.tag_lt _) (le (Prim.size).width 0) tail none pos R F 8 (by simp [Prim.width])]
    simp [Res.bind, unle_le_of_lt, he rfl, Prim.width]
  · simp only [readStr, encStr, encPrim, h0, ↓reduceIte, encRaw, List.append_assoc]
    have e1 := readData_ok cfg (Prim.size).tag (Prim.tag_lt _) (le (Prim.size).width bs.length)
      (tagB rawTag ++ (bs ++ tail)) none pos R F 8 (by simp [Prim.width])
    simp only [List.append_assoc] at e1
    rw [e1]
    simp only [Res.bind, unle_le_of_lt hw, h0, ↓reduceIte]
    have hlg : lenGe (tagB rawTag ++ (bs ++ tail)) bs.length = true := by
      rw [lenGe_iff]; simp; omega
    have hna : ¬ (strAlloc bs.length ≥ cfg.allocLimit) := by omega
    simp only [hlg, Bool.not_true, Bool.and_false, Bool.false_eq_true, ↓reduceIte, hna]
    have e2 := readData_ok cfg rawTag (tagOf_lt _) bs tail (some (resized init bs.length)) (pos + 4 + 8) R F
      bs.length rfl
    simp only [List.append_assoc] at e2
    rw [e2]
    simp [Prim.width]; omega

end Morfuse.Archive
