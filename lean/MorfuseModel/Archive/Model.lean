import MorfuseModel.Gen.ArchiveTable
/-!
# Archive model (properties C10, C11)

Executable transcription of `src/Script/Archiver.cpp` / `include/morfuse/Script/Archiver.h` and of
`mfuse::Archive(Archiver&, str&)` (`src/Common/str.cpp`).

* the **writer** (`encItem`, `encode`): every `Archive*` call in write mode, the object table
  `classpointerList` with `AddUniqueObject` (index by first occurrence), the object bracket with the
  back-patched stream size, the header with the back-patched `numClasses`;
* the **reader** (`readItem`, `decode`): the same calls in read mode over an `std::istream` state
  (`rest`, `pos`, `good`), in the order of checks of the code: `CheckRead` (stream still good?) *before*
  `read`; after it only when `cfg.checkAfterRead`; tag compare; class lookup; size bracket after the
  body; `AddObjectAt`; fix-ups resolved at `Close`, which also runs when an exception unwinds.

Undefined behaviour the code can reach is an explicit outcome: `Err.uninit` (a short read left part of
an uninitialised local unwritten and the code then uses it), `Err.oob` (object table indexed outside
`1..numobjects`), `Err.alloc` (an allocation request taken from the archive that exceeds `allocLimit`:
`malloc` fails and the code writes through the null result).

The three switches of `Cfg` are regenerated from the source text (`Gen/ArchiveTable.lean`).
-/
namespace Morfuse.Archive

abbrev Bytes := List UInt8
/-- object identity (an address on the C++ side); `0` is the null pointer -/
abbrev Lbl := Nat

/-- `w` bytes little-endian (what `write(&x, sizeof x)` stores on the target) -/
def le : Nat → Nat → Bytes
  | 0, _ => []
  | w + 1, n => UInt8.ofNat (n % 256) :: le w (n / 256)

def unle : Bytes → Nat
  | [] => 0
  | b :: bs => b.toNat + 256 * unle bs

def zeros (n : Nat) : Bytes := List.replicate n 0

/-- `n ≤ l.length` without walking the whole list (`lenGe_iff` in Lemmas) -/
def lenGe {α : Type} : List α → Nat → Bool
  | _, 0 => true
  | [], _ + 1 => false
  | _ :: l, n + 1 => lenGe l n

structure Cfg where
  checkAfterRead : Bool
  versionOr : Bool
  indexChecked : Bool
  lengthChecked : Bool
  /-- `ScriptVariable::ArchiveInternal` creates the string of a loaded String value empty (not `new str(4)`) -/
  valueStrFresh : Bool
  /-- `ScriptVariable::ArchiveInternal` gives a loaded variable its kind only once the payload is complete -/
  valueTypeLate : Bool
  /-- `ScriptConstArrayHolder::Archive` bounds the archived element count by what the stream still holds before
      `new ScriptVariable[size + 1]` -/
  arraySizeChecked : Bool
  /-- requests of this many bytes or more are refused by the allocator (`malloc` returns null and the
      code writes through it: `Err.alloc`).  The harness installs an allocator with exactly this limit. -/
  allocLimit : Nat
  deriving Repr, DecidableEq

/-- the reader as it is in the source tree the check runs on -/
def Cfg.current : Cfg :=
  { checkAfterRead := Gen.Archive.checkAfterRead, versionOr := Gen.Archive.versionOr,
    indexChecked := Gen.Archive.indexChecked, lengthChecked := Gen.Archive.lengthChecked,
    valueStrFresh := Gen.Archive.valueStrFresh, valueTypeLate := Gen.Archive.valueTypeLate,
    arraySizeChecked := Gen.Archive.arraySizeChecked,
    allocLimit := 2 ^ 20 }

/-- every defect of the reader repaired -/
def Cfg.fixed : Cfg :=
  { checkAfterRead := true, versionOr := true, indexChecked := true, lengthChecked := true, valueStrFresh := true, valueTypeLate := true,
    arraySizeChecked := true,
    allocLimit := 2 ^ 20 }
/-- the reader of the unrepaired tree (used by the counter-example theorems) -/
def Cfg.legacy : Cfg :=
  { checkAfterRead := false, versionOr := false, indexChecked := false, lengthChecked := false,
    valueStrFresh := false, valueTypeLate := false, arraySizeChecked := false, allocLimit := 2 ^ 20 }

/-- `version_info_t` -/
structure Info where
  header : Bytes
  name : Bytes
  version : Nat
  deriving Repr

/-- tag value of a `dataType_e` enumerator -/
def tagOf (name : String) : Nat := Gen.Archive.tagNames.idxOf name
def nullIdx : Nat := Gen.Archive.nullPointer
def archiveVersion : Nat := Gen.Archive.archiveVersion

/-- `str::resize(n)` asks for `sizeof(strdata) + n + 1` bytes -/
def strAlloc (n : Nat) : Nat := n + 25

inductive Prim
  | i8 | i16 | i32 | i64 | u8 | u16 | u32 | u64 | chr | size | byte | f32 | f64 | bool | pos
  deriving DecidableEq, Repr

def Prim.tagName : Prim → String
  | .i8 => "Char" | .i16 => "Short" | .i32 => "Integer" | .i64 => "Long"
  | .u8 => "Byte" | .u16 => "UShort" | .u32 => "UInteger" | .u64 => "ULong"
  | .chr => "Char" | .size => "Size" | .byte => "Byte" | .f32 => "Float" | .f64 => "Double"
  | .bool => "Boolean" | .pos => "Position"

def Prim.tag (p : Prim) : Nat := tagOf p.tagName

def Prim.width : Prim → Nat
  | .i8 => 1 | .i16 => 2 | .i32 => 4 | .i64 => 8
  | .u8 => 1 | .u16 => 2 | .u32 => 4 | .u64 => 8
  | .chr => 1 | .size => 8 | .byte => 1 | .f32 => 4 | .f64 => 8
  | .bool => 1 | .pos => 4

def rawTag : Nat := tagOf "Raw"
def objTag : Nat := tagOf "Object"
def ptrTag (safe : Bool) : Nat := if safe then tagOf "SafePointer" else tagOf "ObjectPointer"

/-- how the reading host obtains the object of an `Object` record (the writer has one way only) -/
inductive RMode
  | into    -- `ArchiveObject(obj)` on an object the host already has
  | typed   -- `ReadObject<T>()`: `T::staticclass().createInstance()`, then `ArchiveObject(*instance)`
  | poly    -- `Class* ReadObject()`: the instance is created from the class name stored in the record
  deriving DecidableEq, Repr

/-- one `Archive*` call together with the value it is given (write mode) / returns (read mode).
    Integers, floats, booleans are their bit patterns (`v < 256 ^ width`). -/
inductive Item where
  | prim (p : Prim) (v : Nat)
  | raw (bs : Bytes)                                   -- ArchiveRaw(data, bs.length)
  | str (bs : Bytes)                                   -- Archive(arc, str)
  | ptr (safe : Bool) (target : Lbl)                   -- ArchiveObjectPointer / ArchiveSafePointer
  | position (o : Lbl)                                 -- ArchiveObjectPosition(o)
  /-- `ArchiveObject(o)`; body = what `o.Archive(arc)` does; `m` = how the record is read back -/
  | object (m : RMode) (o : Lbl) (cls : Bytes) (body : List Item)
  deriving Repr

/-! ## writer -/

/-- `Container::AddUniqueObject`: 1-based index of the first occurrence, appended when absent -/
def addUnique (t : List Lbl) (o : Lbl) : List Lbl × Nat :=
  if o ∈ t then (t, t.idxOf o + 1) else (t ++ [o], t.length + 1)

def tagB (t : Nat) : Bytes := le 4 t
def encPrim (p : Prim) (v : Nat) : Bytes := tagB p.tag ++ le p.width v
def encRaw (bs : Bytes) : Bytes := tagB rawTag ++ bs
def encStr (bs : Bytes) : Bytes :=
  encPrim .size bs.length ++ (if bs.length = 0 then [] else encRaw bs)

mutual
/-- one call in write mode: object table before → (object table after, bytes appended) -/
def encItem (t : List Lbl) : Item → List Lbl × Bytes
  | .prim p v => (t, encPrim p v)
  | .raw bs => (t, encRaw bs)
  | .str bs => (t, encStr bs)
  | .ptr safe o =>
    if o = 0 then (t, tagB (ptrTag safe) ++ le 4 nullIdx)
    else ((addUnique t o).1, tagB (ptrTag safe) ++ le 4 (addUnique t o).2)
  | .position o => ((addUnique t o).1, encPrim .pos (addUnique t o).2)
  | .object _ o cls body =>
    let t1 := (addUnique t o).1
    let r := encItems t1 body
    (r.1, tagB objTag ++ le 8 r.2.length ++ encStr cls ++ encPrim .u32 (addUnique t o).2 ++ r.2)
def encItems (t : List Lbl) : List Item → List Lbl × Bytes
  | [] => (t, [])
  | i :: is =>
    let r1 := encItem t i
    let r2 := encItems r1.1 is
    (r2.1, r1.2 ++ r2.2)
end

def encHeader (info : Info) (numClasses : Nat) : Bytes :=
  info.header ++ encPrim .u16 archiveVersion ++ encPrim .u16 info.version ++ encStr info.name
    ++ encPrim .u32 numClasses

/-- `CreateWrite`, the calls of `w`, `Close` (which patches `numClasses`) -/
def encode (info : Info) (w : List Item) : Bytes :=
  encHeader info (encItems [] w).1.length ++ (encItems [] w).2

/-! ## reader -/

inductive Err
  | invalidHeader | wrongVersion | typeError | invalidClass | objectClassError
  | readPastEnd | notReadEntire | streamFail | invalidIndex
  | uninit | oob | alloc
  /-- `ScriptVariableErrors::BadHashCodeValue` out of `con::set::Archive` (a script exception, not an archive error) -/
  | badHash
  deriving DecidableEq, Repr

/-- an `ArchiveErrors::*` exception handed to the caller (as opposed to undefined behaviour) -/
def Err.reported : Err → Bool
  | .uninit | .oob | .alloc => false
  | _ => true

/-- what the reading calls expect, in order -/
inductive Sch where
  | prim (p : Prim)
  | raw (n : Nat)
  | str
  | ptr (safe : Bool)
  | position (o : Lbl)
  | object (m : RMode) (o : Lbl) (cls : Bytes) (body : List Sch)
  deriving Repr

mutual
def schemaOfItem : Item → Sch
  | .prim p _ => .prim p
  | .raw bs => .raw bs.length
  | .str _ => .str
  | .ptr safe _ => .ptr safe
  | .position o => .position o
  | .object m o cls body => .object m o cls (schemaOf body)
def schemaOf : List Item → List Sch
  | [] => []
  | i :: is => schemaOfItem i :: schemaOf is
end

/-- read stream + the reading `Archiver`'s members -/
structure RS where
  rest : Bytes            -- bytes not yet consumed
  pos : Nat               -- stream position
  good : Bool             -- `readStream->good()`
  table : List Lbl        -- `classpointerList` (entry `0` = nullptr)
  fixups : List Nat       -- indices of `fixupList`
  deriving Repr

inductive Res (α : Type) where
  | ok (a : α) (s : RS)
  | err (e : Err) (s : RS)

@[inline] def Res.bind {α β : Type} (r : Res α) (f : α → RS → Res β) : Res β :=
  match r with
  | .ok a s => f a s
  | .err e s => .err e s

/-- `ReadDataInternal(data, n)`; `old` is the content of the destination before the call
    (`none`: an uninitialised local) -/
def readN (cfg : Cfg) (n : Nat) (old : Option Bytes) (s : RS) : Res Bytes :=
  if !s.good then .err .streamFail s
  else if lenGe s.rest n then
    .ok (s.rest.take n) { s with rest := s.rest.drop n, pos := s.pos + n }
  else
    let s' := { s with rest := [], pos := s.pos + s.rest.length, good := false }
    if cfg.checkAfterRead then .err .streamFail s'
    else match old with
      | none => .err .uninit s'
      | some o => .ok (s.rest ++ (o.drop s.rest.length).take (n - s.rest.length)) s'

/-- `tellg()`: `-1` once the stream has failed -/
def tell (s : RS) : Int := if s.good then (s.pos : Int) else -1

/-- `CheckType` -/
def readTag (cfg : Cfg) (t : Nat) (s : RS) : Res Unit :=
  (readN cfg 4 none s).bind fun bs s => if unle bs = t then .ok () s else .err .typeError s

/-- `ArchiveData(t, &x, w)` in read mode, `x` holding `old` -/
def readData (cfg : Cfg) (t w : Nat) (old : Option Bytes) (s : RS) : Res Bytes :=
  (readTag cfg t s).bind fun _ s => readN cfg w old s

/-- a typed primitive read into a zero-initialised host variable -/
def readPrim (cfg : Cfg) (p : Prim) (s : RS) : Res Nat :=
  (readData cfg p.tag p.width (some (zeros p.width)) s).bind fun bs s => .ok (unle bs) s

/-- `str::resize(n)` on a string holding `init` -/
def resized (init : Bytes) (n : Nat) : Bytes := (init ++ zeros n).take n

/-- `Archive(arc, s)` in read mode, `s` holding `init` -/
def readStr (cfg : Cfg) (init : Bytes) (s : RS) : Res Bytes :=
  (readData cfg (Prim.size).tag 8 none s).bind fun lb s =>
    let n := unle lb
    if n = 0 then .ok init s
    else if cfg.lengthChecked && !lenGe s.rest n then .err .streamFail s
    else if strAlloc n ≥ cfg.allocLimit then .err .alloc s
    else readData cfg rawTag n (some (resized init n)) s

/-- `classpointerList.AddObjectAt(i, o)` (preceded by the range check when the reader has one) -/
def addAt (cfg : Cfg) (i : Nat) (o : Lbl) (s : RS) : Res Unit :=
  if cfg.indexChecked && (i == 0 || i > s.table.length) then .err .invalidIndex s
  else if i = 0 then .err .oob s
  else if i * 8 ≥ cfg.allocLimit then .err .alloc s
  else .ok () { s with table := (s.table ++ zeros' (i - s.table.length)).set (i - 1) o }
where zeros' (n : Nat) : List Lbl := List.replicate n 0

/-- `ArchiveObjectPointer` / `ArchiveSafePointer` in read mode; the result is the archive index
    (`0` for the null marker), resolved by `Close` -/
def readPtr (cfg : Cfg) (safe : Bool) (s : RS) : Res Nat :=
  (readData cfg (ptrTag safe) 4 (some (zeros 4)) s).bind fun bs s =>
    let i := unle bs
    if i = nullIdx then .ok 0 s
    else if cfg.indexChecked && (i == 0 || i > s.table.length) then .err .invalidIndex s
    else .ok i { s with fixups := i :: s.fixups }

def upc (b : UInt8) : UInt8 := if 97 ≤ b.toNat ∧ b.toNat ≤ 122 then b - 32 else b
/-- `str::icmp(a, b) == 0` on NUL-free strings -/
def eqi (a b : Bytes) : Bool := a.map upc == b.map upc
/-- what `c_str()` shows of a string with embedded NULs -/
def cstr (bs : Bytes) : Bytes := bs.takeWhile (· ≠ 0)

/-- `ClassDef::GetClass(name)`: first registered class whose name matches case-insensitively -/
def getClass (classes : List Bytes) (name : Bytes) : Option Bytes :=
  if cstr name = [] then none else classes.find? fun c => eqi c (cstr name)

def toInt64 (n : Nat) : Int := if n < 2 ^ 63 then (n : Int) else (n : Int) - 2 ^ 64

def errOfName : String → Err
  | "ReadPastEndObject" => .readPastEnd
  | "NotReadEntireDataObject" => .notReadEntire
  | _ => .streamFail

/-- the chain `if ((endpos - objstart) OP size) throw ArchiveErrors::E(); else if …` behind the body of an
    object record, as the translator found it in the source (`d = endpos - objstart`) -/
def bracket : List (String × String) → Int → Int → Option Err
  | [], _, _ => none
  | (op, e) :: r, d, size =>
    if (op = ">" ∧ d > size) ∨ (op = "<" ∧ d < size) ∨ (op = "!=" ∧ d ≠ size) then some (errOfName e)
    else bracket r d size

/-- `Archiver.cpp` has two copies of the bracket: in `ArchiveObject` (also reached by `ReadObject<T>()`) and in
    the non-template `ReadObject()`; each is its own transcription (`Gen/ArchiveTable.lean`) -/
def bracketOf (m : RMode) (d size : Int) : Option Err :=
  bracket (if m = .poly then Gen.Archive.bracketPoly else Gen.Archive.bracketInto) d size

/-- throw what the bracket says, or go on with `k` -/
def brk {α : Type} (o : Option Err) (s : RS) (k : Res α) : Res α :=
  match o with
  | some e => .err e s
  | none => k

mutual
def readItem (cfg : Cfg) (classes : List Bytes) : Sch → RS → Res Item
  | .prim p, s => (readPrim cfg p s).bind fun v s => .ok (.prim p v) s
  | .raw n, s => (readData cfg rawTag n (some (zeros n)) s).bind fun bs s => .ok (.raw bs) s
  | .str, s => (readStr cfg [] s).bind fun bs s => .ok (.str bs) s
  | .ptr safe, s => (readPtr cfg safe s).bind fun i s => .ok (.ptr safe i) s
  | .position o, s =>
    (readData cfg (Prim.pos).tag 4 (some (zeros 4)) s).bind fun bs s =>
      (addAt cfg (unle bs) o s).bind fun _ s => .ok (.position o) s
  | .object m o cls body, s =>
    -- `ArchiveObject` (read mode) and `Class* ReadObject()`: the same text up to the class test and the
    -- creation of the instance; each has its own copy of the size bracket (`bracketOf`)
    (readN cfg 4 none s).bind fun tb s =>
      if unle tb ≠ objTag then .err .typeError s else
      (readN cfg 8 none s).bind fun sb s =>
        let size := toInt64 (unle sb)
        (readStr cfg [] s).bind fun name s =>
          match getClass classes name with
          | none => .err .invalidClass s
          | some c =>
            -- `if (&obj.classinfo() != cls) throw ObjectClassError` — `ReadObject()` has no object to compare with
            if m ≠ .poly ∧ c ≠ cls then .err .objectClassError s else
            (readData cfg (Prim.u32).tag 4 none s).bind fun ib s =>
              if cfg.indexChecked && (unle ib == 0 || unle ib > s.table.length) then .err .invalidIndex s else
              let objstart := tell s
              -- `ReadObject()`: `cls->createInstance()` here (the harness's classes always yield an instance)
              (readItems cfg classes body s).bind fun items s =>
                brk (bracketOf m (tell s - objstart) size) s
                  ((addAt cfg (unle ib) o s).bind fun _ s => .ok (.object m o c items) s)
def readItems (cfg : Cfg) (classes : List Bytes) : List Sch → RS → Res (List Item)
  | [], s => .ok [] s
  | c :: cs, s =>
    (readItem cfg classes c s).bind fun i s =>
      (readItems cfg classes cs s).bind fun is s => .ok (i :: is) s
end

/-- `CreateRead` -/
def readHeader (cfg : Cfg) (info : Info) (s : RS) : Res Unit :=
  (readN cfg info.header.length none s).bind fun hb s =>
    if hb ≠ info.header then .err .invalidHeader s else
    (readPrim cfg .u16 s).bind fun mv s =>
      (readPrim cfg .u16 s).bind fun v s =>
        let bad := if cfg.versionOr then (mv != archiveVersion || v != info.version)
                   else (mv != archiveVersion && v != info.version)
        if bad then .err .wrongVersion s else
        (readStr cfg info.name s).bind fun _ s =>
          (readPrim cfg .u32 s).bind fun n s =>
            if cfg.lengthChecked && !lenGe s.rest (8 * n) then .err .invalidHeader s
            else if n * 8 ≥ cfg.allocLimit then .err .alloc s
            else .ok () { s with table := List.replicate n 0 }

mutual
/-- `Close` in read mode: every fix-up slot receives `classpointerList.ObjectAt(index)` -/
def fixItem (table : List Lbl) : Item → Item
  | .ptr safe i => .ptr safe (if i = 0 then 0 else table.getD (i - 1) 0)
  | .object m o cls body => .object m o cls (fixItems table body)
  | it => it
def fixItems (table : List Lbl) : List Item → List Item
  | [] => []
  | i :: is => fixItem table i :: fixItems table is
end

/-- every pending fix-up index is inside the table (`ObjectAt` has no range check under `NDEBUG`) -/
def closeOk (s : RS) : Bool := s.fixups.all fun i => decide (1 ≤ i ∧ i ≤ s.table.length)

def RS.init (bytes : Bytes) : RS := { rest := bytes, pos := 0, good := true, table := [], fixups := [] }

def readAll (cfg : Cfg) (classes : List Bytes) (info : Info) (sch : List Sch) (bytes : Bytes) : Res (List Item) :=
  (readHeader cfg info (RS.init bytes)).bind fun _ s => readItems cfg classes sch s

/-- `CreateRead`, the calls of the schema, and the destructor (`Close` runs also when an exception
    unwinds; an out-of-range fix-up there is undefined behaviour whatever was thrown) -/
def decode (cfg : Cfg) (classes : List Bytes) (info : Info) (sch : List Sch) (bytes : Bytes) :
    Except Err (List Item) :=
  match readAll cfg classes info sch bytes with
  | .ok items s => if closeOk s then .ok (fixItems s.table items) else .error .oob
  | .err e s => if !e.reported then .error e else if closeOk s then .error e else .error .oob

/-! ## a `const_str` through `StringDictionary::ArchiveString` (stream part; the dictionary part is `Dict.lean`) -/

/-- `StringDictionary::ArchiveString`, write side: `hasString`, then the text -/
def keyCalls : Option Bytes → List Item
  | none => [.prim .byte 0]
  | some bs => [.prim .byte 1, .str bs]

/-- `StringDictionary::ArchiveString`, load side up to the text (`uint8_t hasString;` is uninitialised) -/
def readKey (cfg : Cfg) (s : RS) : Res (Option Bytes) :=
  (readData cfg (Prim.byte).tag 1 none s).bind fun hb s =>
    if unle hb = 0 then .ok none s else (readStr cfg [] s).bind fun bs s => .ok (some bs) s

/-! ## byte classes of an archive (which positions the substitution theorems speak about) -/

inductive PC
  | hdr | tag | ver | size | cls | len | name | ncls | idx | data
  /-- class-name characters of a record read by `ReadObject()`: the reader has no expected class to compare with -/
  | pcls
  deriving DecidableEq, Repr

def layPrim (c : PC) (p : Prim) : List PC := List.replicate 4 .tag ++ List.replicate p.width c
def layStr (c : PC) (bs : Bytes) : List PC :=
  layPrim .len .size ++ (if bs.length = 0 then [] else List.replicate 4 .tag ++ List.replicate bs.length c)

mutual
def layItem : Item → List PC
  | .prim p _ => layPrim (if p = .pos then .idx else .data) p
  | .raw bs => List.replicate 4 .tag ++ List.replicate bs.length .data
  | .str bs => layStr .data bs
  | .ptr _ _ => List.replicate 4 .tag ++ List.replicate 4 .idx
  | .position _ => layPrim .idx .pos
  | .object m _ cls body =>
    List.replicate 4 .tag ++ List.replicate 8 .size ++ layStr (if m = .poly then .pcls else .cls) cls
      ++ layPrim .idx .u32 ++ layItems body
def layItems : List Item → List PC
  | [] => []
  | i :: is => layItem i ++ layItems is
end

/-- class of every byte of `encode info w` -/
def layout (info : Info) (w : List Item) : List PC :=
  List.replicate info.header.length .hdr ++ layPrim .ver .u16 ++ layPrim .ver .u16 ++ layStr .name info.name
    ++ layPrim .ncls .u32 ++ layItems w

end Morfuse.Archive
