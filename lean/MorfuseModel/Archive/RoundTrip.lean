import MorfuseModel.Archive.Lemmas
/-! Round trip (C10): the reader, run on what the writer produced for a well-formed write sequence,
returns the sequence (phase 1: with archive indices in the pointer slots and the object table filled
by the registering calls; phase 2: `Close` turns indices back into the objects). -/
namespace Morfuse.Archive

/-! ### the writer's object table -/

theorem addUnique_prefix (t : List Lbl) (o : Lbl) : t <+: (addUnique t o).1 := by
  unfold addUnique; split
  · exact List.prefix_refl t
  · exact List.prefix_append t [o]

theorem mem_addUnique (t : List Lbl) (o : Lbl) : o ∈ (addUnique t o).1 := by
  unfold addUnique; split <;> simp [*]

theorem addUnique_snd (t : List Lbl) (o : Lbl) : (addUnique t o).2 = (addUnique t o).1.idxOf o + 1 := by
  unfold addUnique; split
  · rfl
  · rename_i h
    simp [List.idxOf_append, h]

theorem idxOf_of_prefix {p T : List Lbl} {o : Lbl} (hp : p <+: T) (ho : o ∈ p) : T.idxOf o = p.idxOf o := by
  obtain ⟨q, rfl⟩ := hp
  simp [List.idxOf_append, ho]

theorem addUnique_idx {t T : List Lbl} {o : Lbl} (hp : (addUnique t o).1 <+: T) :
    (addUnique t o).2 = T.idxOf o + 1 := by
  rw [addUnique_snd, idxOf_of_prefix hp (mem_addUnique t o)]

theorem addUnique_mem_of_prefix {t T : List Lbl} {o : Lbl} (hp : (addUnique t o).1 <+: T) : o ∈ T :=
  hp.subset (mem_addUnique t o)

mutual
theorem encItem_prefix : (it : Item) → (t : List Lbl) → t <+: (encItem t it).1
  | .prim _ _, t => by simp [encItem]
  | .raw _, t => by simp [encItem]
  | .str _, t => by simp [encItem]
  | .ptr _ o, t => by
    simp only [encItem]; split
    · exact List.prefix_refl t
    · exact addUnique_prefix t o
  | .position o, t => by simp only [encItem]; exact addUnique_prefix t o
  | .object o _ body, t => by
    simp only [encItem]
    exact (addUnique_prefix t o).trans (encItems_prefix body _)
theorem encItems_prefix : (w : List Item) → (t : List Lbl) → t <+: (encItems t w).1
  | [], t => by simp [encItems]
  | i :: is, t => by
    simp only [encItems]
    exact (encItem_prefix i t).trans (encItems_prefix is _)
end

/-! ### what phase 1 returns -/

/-- archive index of a label in the final table -/
def idxIn (T : List Lbl) (o : Lbl) : Nat := T.idxOf o + 1

mutual
/-- the sequence as the reading calls return it before `Close`: pointer slots hold archive indices -/
def rawItem (T : List Lbl) : Item → Item
  | .ptr safe o => .ptr safe (if o = 0 then 0 else idxIn T o)
  | .object o cls body => .object o cls (rawItems T body)
  | .prim p v => .prim p v
  | .raw bs => .raw bs
  | .str bs => .str bs
  | .position o => .position o
def rawItems (T : List Lbl) : List Item → List Item
  | [] => []
  | i :: is => rawItem T i :: rawItems T is
end

mutual
/-- labels registered by the reading calls (`AddObjectAt`), in order -/
def regLabelsItem : Item → List Lbl
  | .position o => [o]
  | .object o _ body => regLabels body ++ [o]
  | _ => []
def regLabels : List Item → List Lbl
  | [] => []
  | i :: is => regLabelsItem i ++ regLabels is
end

mutual
/-- fix-ups queued by the reading calls (latest first) -/
def newFixItem (T : List Lbl) : Item → List Nat
  | .ptr _ o => if o = 0 then [] else [idxIn T o]
  | .object _ _ body => newFix T body
  | _ => []
def newFix (T : List Lbl) : List Item → List Nat
  | [] => []
  | i :: is => newFix T is ++ newFixItem T i
end

def setL (T : List Lbl) (R : List Lbl) (l : Lbl) : List Lbl := R.set (T.idxOf l) l

@[simp] theorem foldl_setL_length (T : List Lbl) (ls : List Lbl) (R : List Lbl) :
    (ls.foldl (setL T) R).length = R.length := by
  induction ls generalizing R with
  | nil => rfl
  | cons l ls ih => simp [ih, setL]

mutual
/-- per-call hypotheses of the round trip: values fit their width, strings can be allocated, the class
    of an object resolves to itself in the registry -/
def WFItem (cfg : Cfg) (classes : List Bytes) : Item → Prop
  | .prim p v => v < 256 ^ p.width
  | .str bs => strAlloc bs.length < cfg.allocLimit
  | .object _ cls body =>
    getClass classes cls = some cls ∧ strAlloc cls.length < cfg.allocLimit ∧ WFItems cfg classes body
  | _ => True
def WFItems (cfg : Cfg) (classes : List Bytes) : List Item → Prop
  | [] => True
  | i :: is => WFItem cfg classes i ∧ WFItems cfg classes is
end

theorem toInt64_of_lt {n : Nat} (h : n < 2 ^ 63) : toInt64 n = (n : Int) := by
  simp [toInt64, h]

theorem addAt_ok (cfg : Cfg) (i : Nat) (o : Lbl) (rest : Bytes) (pos : Nat) (g : Bool) (R : List Lbl) (F : List Nat)
    (h1 : 1 ≤ i) (h2 : i ≤ R.length) (ha : R.length * 8 < cfg.allocLimit) :
    addAt cfg i o ⟨rest, pos, g, R, F⟩ = .ok () ⟨rest, pos, g, R.set (i - 1) o, F⟩ := by
  have h3 : ¬ (i = 0) := by omega
  have h4 : ¬ (i > R.length) := by omega
  have h5 : ¬ (i * 8 ≥ cfg.allocLimit) := by omega
  have h6 : i - R.length = 0 := by omega
  simp [addAt, h3, h4, h5, h6, addAt.zeros']

theorem readPtr_null (cfg : Cfg) (safe : Bool) (tail : Bytes) (pos : Nat) (R : List Lbl) (F : List Nat) :
    readPtr cfg safe ⟨tagB (ptrTag safe) ++ le 4 nullIdx ++ tail, pos, true, R, F⟩ =
      .ok 0 ⟨tail, pos + 8, true, R, F⟩ := by
  have hn : nullIdx < 256 ^ 4 := by decide
  simp only [readPtr]
  rw [readData_ok cfg _ (ptrTag_lt safe) (le 4 nullIdx) tail _ pos R F 4 (le_length _ _)]
  simp [Res.bind, unle_le_of_lt hn]

theorem readPtr_idx (cfg : Cfg) (safe : Bool) (i : Nat) (tail : Bytes) (pos : Nat) (R : List Lbl) (F : List Nat)
    (h1 : 1 ≤ i) (h2 : i ≤ R.length) (h3 : R.length < nullIdx) :
    readPtr cfg safe ⟨tagB (ptrTag safe) ++ le 4 i ++ tail, pos, true, R, F⟩ =
      .ok i ⟨tail, pos + 8, true, R, i :: F⟩ := by
  have hn : nullIdx < 256 ^ 4 := by decide
  have hi : i < 256 ^ 4 := by omega
  simp only [readPtr]
  rw [readData_ok cfg _ (ptrTag_lt safe) (le 4 i) tail _ pos R F 4 (le_length _ _)]
  have h4 : ¬ (i = nullIdx) := by omega
  have h5 : ¬ (i = 0) := by omega
  have h6 : ¬ (i > R.length) := by omega
  simp [Res.bind, unle_le_of_lt hi, h4, h5, h6]

end Morfuse.Archive

namespace Morfuse.Archive

theorem idx_bounds {t T : List Lbl} {o : Lbl} (hp : (addUnique t o).1 <+: T) :
    (addUnique t o).2 = idxIn T o ∧ 1 ≤ idxIn T o ∧ idxIn T o ≤ T.length ∧ idxIn T o - 1 = T.idxOf o := by
  have hm := addUnique_mem_of_prefix hp
  have hlt : T.idxOf o < T.length := List.idxOf_lt_length_of_mem hm
  refine ⟨addUnique_idx hp, ?_, ?_, ?_⟩ <;> simp [idxIn] <;> omega

theorem nullIdx_lt : nullIdx < 256 ^ 4 := by decide

mutual
theorem readItem_enc (cfg : Cfg) (classes : List Bytes) (T : List Lbl)
    (hT : T.length < nullIdx) (hA : T.length * 8 < cfg.allocLimit) :
    (it : Item) → (t : List Lbl) → (tail : Bytes) → (pos : Nat) → (R : List Lbl) → (F : List Nat) →
    (encItem t it).1 <+: T → WFItem cfg classes it → R.length = T.length → (encItem t it).2.length < 2 ^ 63 →
    readItem cfg classes (schemaOfItem it) ⟨(encItem t it).2 ++ tail, pos, true, R, F⟩ =
      .ok (rawItem T it) ⟨tail, pos + (encItem t it).2.length, true,
        (regLabelsItem it).foldl (setL T) R, newFixItem T it ++ F⟩
  | .prim p v, t, tail, pos, R, F, _, hw, _, _ => by
    simp only [WFItem] at hw
    simp only [schemaOfItem, encItem, readItem, rawItem, regLabelsItem, newFixItem, List.foldl_nil, List.nil_append]
    rw [readPrim_ok cfg p v hw]
    simp [Res.bind, Nat.add_assoc]
  | .raw bs, t, tail, pos, R, F, _, _, _, _ => by
    simp only [schemaOfItem, encItem, readItem, rawItem, regLabelsItem, newFixItem, List.foldl_nil, List.nil_append, encRaw]
    rw [readData_ok cfg rawTag (tagOf_lt _) bs tail _ pos R F bs.length rfl]
    simp [Res.bind, Nat.add_assoc]
  | .str bs, t, tail, pos, R, F, _, hw, _, hl => by
    simp only [WFItem] at hw
    simp only [encItem] at hl
    have hl2 : bs.length < 2 ^ 64 := by rw [encStr_length] at hl; split at hl <;> omega
    simp only [schemaOfItem, encItem, readItem, rawItem, regLabelsItem, newFixItem, List.foldl_nil, List.nil_append]
    rw [readStr_ok cfg bs [] tail pos R F hl2 hw (fun _ => rfl)]
    simp [Res.bind]
  | .ptr safe o, t, tail, pos, R, F, hp, _, hR, _ => by
    by_cases ho : o = 0
    · subst ho
      simp only [schemaOfItem, encItem, readItem, rawItem, regLabelsItem, newFixItem, List.foldl_nil, ↓reduceIte,
        List.nil_append]
      rw [readPtr_null]
      simp [Res.bind]
    · simp only [encItem, ho, ↓reduceIte] at hp
      obtain ⟨e1, e2, e3, _⟩ := idx_bounds hp
      simp only [schemaOfItem, encItem, readItem, rawItem, regLabelsItem, newFixItem, List.foldl_nil, ho, ↓reduceIte, e1]
      rw [readPtr_idx cfg safe (idxIn T o) tail pos R F e2 (by omega) (by omega)]
      simp [Res.bind]
  | .position o, t, tail, pos, R, F, hp, _, hR, _ => by
    simp only [encItem] at hp
    obtain ⟨e1, e2, e3, e4⟩ := idx_bounds hp
    have hn := nullIdx_lt
    simp only [schemaOfItem, encItem, readItem, rawItem, regLabelsItem, newFixItem, List.foldl_cons, List.foldl_nil,
      List.nil_append, e1, encPrim]
    rw [readData_ok cfg (Prim.pos).tag (Prim.tag_lt _) (le (Prim.pos).width (idxIn T o)) tail _ pos R F 4
      (by simp [Prim.width])]
    have hu : unle (le (Prim.pos).width (idxIn T o)) = idxIn T o := unle_le_of_lt (by simp [Prim.width]; omega)
    simp only [Res.bind, hu]
    rw [addAt_ok cfg (idxIn T o) o tail (pos + 4 + 4) true R F e2 (by omega) (by omega)]
    simp [setL, e4, Prim.width, Nat.add_assoc]
  | .object o cls body, t, tail, pos, R, F, hp, hw, hR, hl => by
    simp only [WFItem] at hw
    obtain ⟨hc, hca, hwb⟩ := hw
    simp only [encItem] at hp hl
    have hp1 : (addUnique t o).1 <+: T := (encItems_prefix body _).trans hp
    obtain ⟨e1, e2, e3, e4⟩ := idx_bounds hp1
    have hn := nullIdx_lt
    have hbl : (encItems (addUnique t o).1 body).2.length < 2 ^ 63 := by
      simp only [List.length_append] at hl; omega
    have hcl : cls.length < 2 ^ 64 := by
      simp only [List.length_append] at hl; rw [encStr_length] at hl; split at hl <;> omega
    simp only [schemaOfItem, encItem, readItem, rawItem, regLabelsItem, newFixItem, List.append_assoc, e1]
    rw [readN_ok cfg (tagB objTag) _ none pos R F 4 (tagB_length _)]
    have hto : unle (tagB objTag) = objTag := unle_tagB (tagOf_lt _)
    simp only [Res.bind, hto, ne_eq, not_true_eq_false, ↓reduceIte]
    rw [readN_ok cfg (le 8 _) _ none (pos + 4) R F 8 (le_length _ _)]
    simp only [Res.bind]
    rw [readStr_ok cfg cls [] _ (pos + 4 + 8) R F hcl hca (fun _ => rfl)]
    simp only [Res.bind, hc, encPrim]
    have e5 := readData_ok cfg (Prim.u32).tag (Prim.tag_lt _) (le (Prim.u32).width (idxIn T o))
      ((encItems (addUnique t o).1 body).2 ++ tail) none (pos + 4 + 8 + (encStr cls).length) R F 4
      (by simp [Prim.width])
    simp only [List.append_assoc] at e5
    simp only [ne_eq, not_true_eq_false, ↓reduceIte, List.append_assoc]
    rw [e5]
    have hu : unle (le (Prim.u32).width (idxIn T o)) = idxIn T o := unle_le_of_lt (by simp [Prim.width]; omega)
    have h6 : ¬ (idxIn T o = 0) := by omega
    have h7 : ¬ (idxIn T o > R.length) := by omega
    simp only [Res.bind, hu, beq_iff_eq, h6, decide_eq_true_eq, h7, or_self, Bool.and_false, Bool.false_eq_true,
      ↓reduceIte, Bool.or_self, decide_false]
    rw [readItems_enc cfg classes T hT hA body (addUnique t o).1 tail _ R F hp hwb hR hbl]
    have hs : unle (le 8 (encItems (addUnique t o).1 body).2.length) = (encItems (addUnique t o).1 body).2.length :=
      unle_le_of_lt (by omega)
    simp only [Res.bind, tell, ↓reduceIte, hs, toInt64_of_lt hbl]
    have hd : ((pos + 4 + 8 + (encStr cls).length + 4 + 4 + (encItems (addUnique t o).1 body).2.length : Nat) : Int)
        - ((pos + 4 + 8 + (encStr cls).length + 4 + 4 : Nat) : Int) = ((encItems (addUnique t o).1 body).2.length : Int) := by
      omega
    simp only [hd, Int.lt_irrefl, gt_iff_lt, ↓reduceIte]
    rw [addAt_ok cfg (idxIn T o) o tail _ true _ _ e2 (by simp; omega) (by simp; omega)]
    simp [setL, e4, List.foldl_append, Prim.width, h6]
    omega
theorem readItems_enc (cfg : Cfg) (classes : List Bytes) (T : List Lbl)
    (hT : T.length < nullIdx) (hA : T.length * 8 < cfg.allocLimit) :
    (w : List Item) → (t : List Lbl) → (tail : Bytes) → (pos : Nat) → (R : List Lbl) → (F : List Nat) →
    (encItems t w).1 <+: T → WFItems cfg classes w → R.length = T.length → (encItems t w).2.length < 2 ^ 63 →
    readItems cfg classes (schemaOf w) ⟨(encItems t w).2 ++ tail, pos, true, R, F⟩ =
      .ok (rawItems T w) ⟨tail, pos + (encItems t w).2.length, true,
        (regLabels w).foldl (setL T) R, newFix T w ++ F⟩
  | [], t, tail, pos, R, F, _, _, _, _ => by
    simp [schemaOf, encItems, readItems, rawItems, regLabels, newFix]
  | i :: is, t, tail, pos, R, F, hp, hw, hR, hl => by
    simp only [WFItems] at hw
    simp only [encItems] at hp hl
    have hp1 : (encItem t i).1 <+: T := (encItems_prefix is _).trans hp
    simp only [List.length_append] at hl
    simp only [schemaOf, encItems, readItems, rawItems, regLabels, newFix, List.append_assoc]
    rw [readItem_enc cfg classes T hT hA i t _ pos R F hp1 hw.1 hR (by omega)]
    simp only [Res.bind]
    rw [readItems_enc cfg classes T hT hA is (encItem t i).1 tail _ _ _ hp hw.2 (by simp [hR]) (by omega)]
    simp [Res.bind, List.foldl_append, Nat.add_assoc]
end

end Morfuse.Archive
