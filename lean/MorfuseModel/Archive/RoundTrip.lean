import MorfuseModel.Archive.Lemmas
/-! Round trip (C10): the reader, run on what the writer produced for a well-formed write sequence,
returns the sequence (phase 1: with archive indices in the pointer slots and the object table filled
by the registering calls; phase 2: `Close` turns indices back into the objects). -/
namespace Morfuse.Archive

/-! ### the writer's object table -/

theorem addUnique_prefix (t : List Lbl) (o : Lbl) : t <+: (addUnique t o).1 := by
  unfold addUnique; split
  · exact List.prefix_refl t
  · exact List.prefix_append t [o]

theorem mem_addUnique (t : List Lbl) (o : Lbl) : o ∈ (addUnique t o).1 := by
  unfold addUnique; split <;> simp [*]

theorem addUnique_snd (t : List Lbl) (o : Lbl) : (addUnique t o).2 = (addUnique t o).1.idxOf o + 1 := by
  unfold addUnique; split
  · rfl
  · rename_i h
    simp [List.idxOf_append, h]

theorem idxOf_of_prefix {p T : List Lbl} {o : Lbl} (hp : p <+: T) (ho : o ∈ p) : T.idxOf o = p.idxOf o := by
  obtain ⟨q, rfl⟩ := hp
  simp [List.idxOf_append, ho]

theorem addUnique_idx {t T : List Lbl} {o : Lbl} (hp : (addUnique t o).1 <+: T) :
    (addUnique t o).2 = T.idxOf o + 1 := by
  rw [addUnique_snd, idxOf_of_prefix hp (mem_addUnique t o)]

theorem addUnique_mem_of_prefix {t T : List Lbl} {o : Lbl} (hp : (addUnique t o).1 <+: T) : o ∈ T :=
  hp.subset (mem_addUnique t o)

mutual
theorem encItem_prefix : (it : Item) → (t : List Lbl) → t <+: (encItem t it).1
  | .prim _ _, t => by simp [encItem]
  | .raw _, t => by simp [encItem]
  | .str _, t => by simp [encItem]
  | .ptr _ o, t => by
    simp only [encItem]; split
    · exact List.prefix_refl t
    · exact addUnique_prefix t o
  | .position o, t => by simp only [encItem]; exact addUnique_prefix t o
  | .object _ o _ body, t => by
    simp only [encItem]
    exact (addUnique_prefix t o).trans (encItems_prefix body _)
theorem encItems_prefix : (w : List Item) → (t : List Lbl) → t <+: (encItems t w).1
  | [], t => by simp [encItems]
  | i :: is, t => by
    simp only [encItems]
    exact (encItem_prefix i t).trans (encItems_prefix is _)
end

/-! ### what phase 1 returns -/

/-- archive index of a label in the final table -/
def idxIn (T : List Lbl) (o : Lbl) : Nat := T.idxOf o + 1

mutual
/-- the sequence as the reading calls return it before `Close`: pointer slots hold archive indices -/
def rawItem (T : List Lbl) : Item → Item
  | .ptr safe o => .ptr safe (if o = 0 then 0 else idxIn T o)
  | .object m o cls body => .object m o cls (rawItems T body)
  | .prim p v => .prim p v
  | .raw bs => .raw bs
  | .str bs => .str bs
  | .position o => .position o
def rawItems (T : List Lbl) : List Item → List Item
  | [] => []
  | i :: is => rawItem T i :: rawItems T is
end

mutual
/-- labels registered by the reading calls (`AddObjectAt`), in order -/
def regLabelsItem : Item → List Lbl
  | .position o => [o]
  | .object _ o _ body => regLabels body ++ [o]
  | _ => []
def regLabels : List Item → List Lbl
  | [] => []
  | i :: is => regLabelsItem i ++ regLabels is
end

mutual
/-- fix-ups queued by the reading calls (latest first) -/
def newFixItem (T : List Lbl) : Item → List Nat
  | .ptr _ o => if o = 0 then [] else [idxIn T o]
  | .object _ _ _ body => newFix T body
  | _ => []
def newFix (T : List Lbl) : List Item → List Nat
  | [] => []
  | i :: is => newFix T is ++ newFixItem T i
end

def setL (T : List Lbl) (R : List Lbl) (l : Lbl) : List Lbl := R.set (T.idxOf l) l

@[simp] theorem foldl_setL_length (T : List Lbl) (ls : List Lbl) (R : List Lbl) :
    (ls.foldl (setL T) R).length = R.length := by
  induction ls generalizing R with
  | nil => rfl
  | cons l ls ih => simp [ih, setL]

mutual
/-- per-call hypotheses of the round trip: values fit their width, strings can be allocated, the class
    of an object resolves to itself in the registry -/
def WFItem (cfg : Cfg) (classes : List Bytes) : Item → Prop
  | .prim p v => v < 256 ^ p.width
  | .str bs => strAlloc bs.length < cfg.allocLimit
  | .object _ _ cls body =>
    getClass classes cls = some cls ∧ strAlloc cls.length < cfg.allocLimit ∧ WFItems cfg classes body
  | _ => True
def WFItems (cfg : Cfg) (classes : List Bytes) : List Item → Prop
  | [] => True
  | i :: is => WFItem cfg classes i ∧ WFItems cfg classes is
end

theorem toInt64_of_lt {n : Nat} (h : n < 2 ^ 63) : toInt64 n = (n : Int) := by
  simp [toInt64, h]

theorem addAt_ok (cfg : Cfg) (i : Nat) (o : Lbl) (rest : Bytes) (pos : Nat) (g : Bool) (R : List Lbl) (F : List Nat)
    (h1 : 1 ≤ i) (h2 : i ≤ R.length) (ha : R.length * 8 < cfg.allocLimit) :
    addAt cfg i o ⟨rest, pos, g, R, F⟩ = .ok () ⟨rest, pos, g, R.set (i - 1) o, F⟩ := by
  have h3 : ¬ (i = 0) := by omega
  have h4 : ¬ (i > R.length) := by omega
  have h5 : ¬ (i * 8 ≥ cfg.allocLimit) := by omega
  have h6 : i - R.length = 0 := by omega
  simp [addAt, h3, h4, h5, h6, addAt.zeros']

theorem readPtr_null (cfg : Cfg) (safe : Bool) (tail : Bytes) (pos : Nat) (R : List Lbl) (F : List Nat) :
    readPtr cfg safe ⟨tagB (ptrTag safe) ++ le 4 nullIdx ++ tail, pos, true, R, F⟩ =
      .ok 0 ⟨tail, pos + 8, true, R, F⟩ := by
  have hn : nullIdx < 256 ^ 4 := by decide
  simp only [readPtr]
  rw [readData_ok cfg _ (ptrTag_lt safe) (le 4 nullIdx) tail _ pos R F 4 (le_length _ _)]
  simp [Res.bind, unle_le_of_lt hn]

theorem readPtr_idx (cfg : Cfg) (safe : Bool) (i : Nat) (tail : Bytes) (pos : Nat) (R : List Lbl) (F : List Nat)
    (h1 : 1 ≤ i) (h2 : i ≤ R.length) (h3 : R.length < nullIdx) :
    readPtr cfg safe ⟨tagB (ptrTag safe) ++ le 4 i ++ tail, pos, true, R, F⟩ =
      .ok i ⟨tail, pos + 8, true, R, i :: F⟩ := by
  have hn : nullIdx < 256 ^ 4 := by decide
  have hi : i < 256 ^ 4 := by omega
  simp only [readPtr]
  rw [readData_ok cfg _ (ptrTag_lt safe) (le 4 i) tail _ pos R F 4 (le_length _ _)]
  have h4 : ¬ (i = nullIdx) := by omega
  have h5 : ¬ (i = 0) := by omega
  have h6 : ¬ (i > R.length) := by omega
  simp [Res.bind, unle_le_of_lt hi, h4, h5, h6]

end Morfuse.Archive

namespace Morfuse.Archive

theorem idx_bounds {t T : List Lbl} {o : Lbl} (hp : (addUnique t o).1 <+: T) :
    (addUnique t o).2 = idxIn T o ∧ 1 ≤ idxIn T o ∧ idxIn T o ≤ T.length ∧ idxIn T o - 1 = T.idxOf o := by
  have hm := addUnique_mem_of_prefix hp
  have hlt : T.idxOf o < T.length := List.idxOf_lt_length_of_mem hm
  refine ⟨addUnique_idx hp, ?_, ?_, ?_⟩ <;> simp [idxIn] <;> omega

theorem nullIdx_lt : nullIdx < 256 ^ 4 := by decide

mutual
theorem readItem_enc (cfg : Cfg) (classes : List Bytes) (T : List Lbl)
    (hT : T.length < nullIdx) (hA : T.length * 8 < cfg.allocLimit) :
    (it : Item) → (t : List Lbl) → (tail : Bytes) → (pos : Nat) → (R : List Lbl) → (F : List Nat) →
    (encItem t it).1 <+: T → WFItem cfg classes it → R.length = T.length → (encItem t it).2.length < 2 ^ 63 →
    readItem cfg classes (schemaOfItem it) ⟨(encItem t it).2 ++ tail, pos, true, R, F⟩ =
      .ok (rawItem T it) ⟨tail, pos + (encItem t it).2.length, true,
        (regLabelsItem it).foldl (setL T) R, newFixItem T it ++ F⟩
  | .prim p v, t, tail, pos, R, F, _, hw, _, _ => by
    simp only [WFItem] at hw
    simp only [schemaOfItem, encItem, readItem, rawItem, regLabelsItem, newFixItem, List.foldl_nil, List.nil_append]
    rw [readPrim_ok cfg p v hw]
    simp [Res.bind, Nat.add_assoc]
  | .raw bs, t, tail, pos, R, F, _, _, _, _ => by
    simp only [schemaOfItem, encItem, readItem, rawItem, regLabelsItem, newFixItem, List.foldl_nil, List.nil_append, encRaw]
    rw [readData_ok cfg rawTag (tagOf_lt _) bs tail _ pos R F bs.length rfl]
    simp [Res.bind, Nat.add_assoc]
  | .str bs, t, tail, pos, R, F, _, hw, _, hl => by
    simp only [WFItem] at hw
    simp only [encItem] at hl
    have hl2 : bs.length < 2 ^ 64 := by rw [encStr_length] at hl; split at hl <;> omega
    simp only [schemaOfItem, encItem, readItem, rawItem, regLabelsItem, newFixItem, List.foldl_nil, List.nil_append]
    rw [readStr_ok cfg bs [] tail pos R F hl2 hw (fun _ => rfl)]
    simp [Res.bind]
  | .ptr safe o, t, tail, pos, R, F, hp, _, hR, _ => by
    by_cases ho : o = 0
    · subst ho
      simp only [schemaOfItem, encItem, readItem, rawItem, regLabelsItem, newFixItem, List.foldl_nil, ↓reduceIte,
        List.nil_append]
      rw [readPtr_null]
      simp [Res.bind]
    · simp only [encItem, ho, ↓reduceIte] at hp
      obtain ⟨e1, e2, e3, _⟩ := idx_bounds hp
      simp only [schemaOfItem, encItem, readItem, rawItem, regLabelsItem, newFixItem, List.foldl_nil, ho, ↓reduceIte, e1]
      rw [readPtr_idx cfg safe (idxIn T o) tail pos R F e2 (by omega) (by omega)]
      simp [Res.bind]
  | .position o, t, tail, pos, R, F, hp, _, hR, _ => by
    simp only [encItem] at hp
    obtain ⟨e1, e2, e3, e4⟩ := idx_bounds hp
    have hn := nullIdx_lt
    simp only [schemaOfItem, encItem, readItem, rawItem, regLabelsItem, newFixItem, List.foldl_cons, List.foldl_nil,
      List.nil_append, e1, encPrim]
    rw [readData_ok cfg (Prim.pos).tag (Prim.tag_lt _) (le (Prim.pos).width (idxIn T o)) tail _ pos R F 4
      (by simp [Prim.width])]
    have hu : unle (le (Prim.pos).width (idxIn T o)) = idxIn T o := unle_le_of_lt (by simp [Prim.width]; omega)
    simp only [Res.bind, hu]
    rw [addAt_ok cfg (idxIn T o) o tail (pos + 4 + 4) true R F e2 (by omega) (by omega)]
    simp [setL, e4, Prim.width, Nat.add_assoc]
  | .object m o cls body, t, tail, pos, R, F, hp, hw, hR, hl => by
    simp only [WFItem] at hw
    obtain ⟨hc, hca, hwb⟩ := hw
    simp only [encItem] at hp hl
    have hp1 : (addUnique t o).1 <+: T := (encItems_prefix body _).trans hp
    obtain ⟨e1, e2, e3, e4⟩ := idx_bounds hp1
    have hn := nullIdx_lt
    have hbl : (encItems (addUnique t o).1 body).2.length < 2 ^ 63 := by
      simp only [List.length_append] at hl; omega
    have hcl : cls.length < 2 ^ 64 := by
      simp only [List.length_append] at hl; rw [encStr_length] at hl; split at hl <;> omega
    simp only [schemaOfItem, encItem, readItem, rawItem, regLabelsItem, newFixItem, List.append_assoc, e1]
    rw [readN_ok cfg (tagB objTag) _ none pos R F 4 (tagB_length _)]
    have hto : unle (tagB objTag) = objTag := unle_tagB (tagOf_lt _)
    simp only [Res.bind, hto, ne_eq, not_true_eq_false, ↓reduceIte]
    rw [readN_ok cfg (le 8 _) _ none (pos + 4) R F 8 (le_length _ _)]
    simp only [Res.bind]
    rw [readStr_ok cfg cls [] _ (pos + 4 + 8) R F hcl hca (fun _ => rfl)]
    simp only [Res.bind, hc, encPrim]
    have e5 := readData_ok cfg (Prim.u32).tag (Prim.tag_lt _) (le (Prim.u32).width (idxIn T o))
      ((encItems (addUnique t o).1 body).2 ++ tail) none (pos + 4 + 8 + (encStr cls).length) R F 4
      (by simp [Prim.width])
    simp only [List.append_assoc] at e5
    simp only [ne_eq, not_true_eq_false, and_false, ↓reduceIte, List.append_assoc]
    rw [e5]
    have hu : unle (le (Prim.u32).width (idxIn T o)) = idxIn T o := unle_le_of_lt (by simp [Prim.width]; omega)
    have h6 : ¬ (idxIn T o = 0) := by omega
    have h7 : ¬ (idxIn T o > R.length) := by omega
    simp only [Res.bind, hu, beq_iff_eq, h6, decide_eq_true_eq, h7, or_self, Bool.and_false, Bool.false_eq_true,
      ↓reduceIte, Bool.or_self, decide_false, bracket_ite]
    rw [readItems_enc cfg classes T hT hA body (addUnique t o).1 tail _ R F hp hwb hR hbl]
    have hs : unle (le 8 (encItems (addUnique t o).1 body).2.length) = (encItems (addUnique t o).1 body).2.length :=
      unle_le_of_lt (by omega)
    simp only [Res.bind, tell, ↓reduceIte, hs, toInt64_of_lt hbl]
    have hd : ((pos + 4 + 8 + (encStr cls).length + 4 + 4 + (encItems (addUnique t o).1 body).2.length : Nat) : Int)
        - ((pos + 4 + 8 + (encStr cls).length + 4 + 4 : Nat) : Int) = ((encItems (addUnique t o).1 body).2.length : Int) := by
      omega
    simp only [hd, Int.lt_irrefl, gt_iff_lt, ↓reduceIte]
    rw [addAt_ok cfg (idxIn T o) o tail _ true _ _ e2 (by simp; omega) (by simp; omega)]
    simp [setL, e4, List.foldl_append, Prim.width, h6]
    omega
theorem readItems_enc (cfg : Cfg) (classes : List Bytes) (T : List Lbl)
    (hT : T.length < nullIdx) (hA : T.length * 8 < cfg.allocLimit) :
    (w : List Item) → (t : List Lbl) → (tail : Bytes) → (pos : Nat) → (R : List Lbl) → (F : List Nat) →
    (encItems t w).1 <+: T → WFItems cfg classes w → R.length = T.length → (encItems t w).2.length < 2 ^ 63 →
    readItems cfg classes (schemaOf w) ⟨(encItems t w).2 ++ tail, pos, true, R, F⟩ =
      .ok (rawItems T w) ⟨tail, pos + (encItems t w).2.length, true,
        (regLabels w).foldl (setL T) R, newFix T w ++ F⟩
  | [], t, tail, pos, R, F, _, _, _, _ => by
    simp [schemaOf, encItems, readItems, rawItems, regLabels, newFix]
  | i :: is, t, tail, pos, R, F, hp, hw, hR, hl => by
    simp only [WFItems] at hw
    simp only [encItems] at hp hl
    have hp1 : (encItem t i).1 <+: T := (encItems_prefix is _).trans hp
    simp only [List.length_append] at hl
    simp only [schemaOf, encItems, readItems, rawItems, regLabels, newFix, List.append_assoc]
    rw [readItem_enc cfg classes T hT hA i t _ pos R F hp1 hw.1 hR (by omega)]
    simp only [Res.bind]
    rw [readItems_enc cfg classes T hT hA is (encItem t i).1 tail _ _ _ hp hw.2 (by simp [hR]) (by omega)]
    simp [Res.bind, List.foldl_append, Nat.add_assoc]
end

end Morfuse.Archive

namespace Morfuse.Archive

/-! ### phase 2: `Close` resolves the indices -/

mutual
/-- non-null pointer targets of a sequence -/
def ptrTargetsItem : Item → List Lbl
  | .ptr _ o => if o = 0 then [] else [o]
  | .object _ _ _ body => ptrTargets body
  | _ => []
def ptrTargets : List Item → List Lbl
  | [] => []
  | i :: is => ptrTargetsItem i ++ ptrTargets is
end

theorem idxOf_inj {T : List Lbl} {a b : Lbl} (ha : a ∈ T) (hb : b ∈ T) (h : T.idxOf a = T.idxOf b) : a = b := by
  have h1 := List.getElem_idxOf (List.idxOf_lt_length_of_mem ha)
  have h2 := List.getElem_idxOf (List.idxOf_lt_length_of_mem hb)
  simp only [h] at h1
  exact h1.symm.trans h2

theorem foldl_setL_keep (T : List Lbl) (l : Lbl) (hl : l ∈ T) :
    ∀ (ls : List Lbl) (R : List Lbl), (∀ x ∈ ls, x ∈ T) → R.getD (T.idxOf l) 0 = l → l ≠ 0 →
      (ls.foldl (setL T) R).getD (T.idxOf l) 0 = l
  | [], R, _, h, _ => h
  | x :: xs, R, hx, h, h0 => by
    simp only [List.foldl_cons]
    apply foldl_setL_keep T l hl xs _ (fun y hy => hx y (List.mem_cons_of_mem _ hy)) _ h0
    by_cases e : T.idxOf x = T.idxOf l
    · have : x = l := idxOf_inj (hx x List.mem_cons_self) hl e
      subst this
      simp only [setL, List.getD_eq_getElem?_getD, List.getElem?_set_self'] at h ⊢
      cases hg : R[T.idxOf x]? <;> simp_all
    · simp only [setL, List.getD_eq_getElem?_getD] at h ⊢
      rw [List.getElem?_set_ne e]
      exact h

theorem foldl_setL_get (T : List Lbl) (l : Lbl) (h0 : l ≠ 0) :
    ∀ (ls : List Lbl) (R : List Lbl), (∀ x ∈ ls, x ∈ T) → R.length = T.length → l ∈ ls →
      (ls.foldl (setL T) R).getD (T.idxOf l) 0 = l
  | [], _, _, _, h => by simp at h
  | x :: xs, R, hx, hR, h => by
    have hxT := hx x List.mem_cons_self
    have hxs : ∀ y ∈ xs, y ∈ T := fun y hy => hx y (List.mem_cons_of_mem _ hy)
    simp only [List.foldl_cons]
    by_cases e : x = l
    · subst e
      apply foldl_setL_keep T x hxT xs _ hxs _ h0
      have : T.idxOf x < R.length := by rw [hR]; exact List.idxOf_lt_length_of_mem hxT
      simp [setL, List.getD_eq_getElem?_getD, List.getElem?_set_self this]
    · have : l ∈ xs := by
        rcases List.mem_cons.mp h with h | h
        · exact absurd h.symm e
        · exact h
      exact foldl_setL_get T l h0 xs _ hxs (by simp [setL, hR]) this

mutual
theorem fixItem_raw (T Rf : List Lbl) : (it : Item) →
    (∀ o ∈ ptrTargetsItem it, Rf.getD (T.idxOf o) 0 = o) → fixItem Rf (rawItem T it) = it
  | .prim _ _, _ => by simp [rawItem, fixItem]
  | .raw _, _ => by simp [rawItem, fixItem]
  | .str _, _ => by simp [rawItem, fixItem]
  | .position _, _ => by simp [rawItem, fixItem]
  | .ptr safe o, h => by
    by_cases ho : o = 0
    · simp [rawItem, fixItem, ho]
    · have := h o (by simp [ptrTargetsItem, ho])
      simp only [List.getD_eq_getElem?_getD] at this
      simp [rawItem, fixItem, ho, idxIn, this]
  | .object m o cls body, h => by
    simp only [rawItem, fixItem]
    rw [fixItems_raw T Rf body (by simpa [ptrTargetsItem] using h)]
theorem fixItems_raw (T Rf : List Lbl) : (w : List Item) →
    (∀ o ∈ ptrTargets w, Rf.getD (T.idxOf o) 0 = o) → fixItems Rf (rawItems T w) = w
  | [], _ => by simp [rawItems, fixItems]
  | i :: is, h => by
    simp only [ptrTargets, List.mem_append] at h
    simp only [rawItems, fixItems]
    rw [fixItem_raw T Rf i (fun o ho => h o (Or.inl ho)), fixItems_raw T Rf is (fun o ho => h o (Or.inr ho))]
end

mutual
theorem regLabelsItem_subset : (it : Item) → (t : List Lbl) → ∀ l ∈ regLabelsItem it, l ∈ (encItem t it).1
  | .prim _ _, _ => by simp [regLabelsItem]
  | .raw _, _ => by simp [regLabelsItem]
  | .str _, _ => by simp [regLabelsItem]
  | .ptr _ _, _ => by simp [regLabelsItem]
  | .position o, t => by
    simp only [regLabelsItem, encItem, List.mem_singleton]
    rintro l rfl; exact mem_addUnique t l
  | .object _ o _ body, t => by
    simp only [regLabelsItem, encItem, List.mem_append, List.mem_singleton]
    rintro l (h | rfl)
    · exact regLabels_subset body _ l h
    · exact (encItems_prefix body _).subset (mem_addUnique t l)
theorem regLabels_subset : (w : List Item) → (t : List Lbl) → ∀ l ∈ regLabels w, l ∈ (encItems t w).1
  | [], _ => by simp [regLabels]
  | i :: is, t => by
    simp only [regLabels, encItems, List.mem_append]
    rintro l (h | h)
    · exact (encItems_prefix is _).subset (regLabelsItem_subset i t l h)
    · exact regLabels_subset is _ l h
end

mutual
theorem newFixItem_bounds (T : List Lbl) : (it : Item) → (t : List Lbl) → (encItem t it).1 <+: T →
    ∀ i ∈ newFixItem T it, 1 ≤ i ∧ i ≤ T.length
  | .prim _ _, _, _ => by simp [newFixItem]
  | .raw _, _, _ => by simp [newFixItem]
  | .str _, _, _ => by simp [newFixItem]
  | .position _, _, _ => by simp [newFixItem]
  | .ptr _ o, t, hp => by
    by_cases ho : o = 0
    · simp [newFixItem, ho]
    · simp only [encItem, ho, ↓reduceIte] at hp
      obtain ⟨_, e2, e3, _⟩ := idx_bounds hp
      simp only [newFixItem, ho, ↓reduceIte, List.mem_singleton]
      rintro i rfl; exact ⟨e2, e3⟩
  | .object _ o _ body, t, hp => by
    simp only [encItem] at hp
    simp only [newFixItem]
    exact newFix_bounds T body _ hp
theorem newFix_bounds (T : List Lbl) : (w : List Item) → (t : List Lbl) → (encItems t w).1 <+: T →
    ∀ i ∈ newFix T w, 1 ≤ i ∧ i ≤ T.length
  | [], _, _ => by simp [newFix]
  | i :: is, t, hp => by
    simp only [encItems] at hp
    simp only [newFix, List.mem_append]
    rintro j (h | h)
    · exact newFix_bounds T is _ hp j h
    · exact newFixItem_bounds T i t ((encItems_prefix is _).trans hp) j h
end

theorem addUnique_length_le (t : List Lbl) (o : Lbl) : (addUnique t o).1.length ≤ t.length + 1 := by
  unfold addUnique; split <;> simp

mutual
/-- every entry of the object table costs at least one 8-byte record -/
theorem encItem_table_le : (it : Item) → (t : List Lbl) →
    (encItem t it).1.length * 8 ≤ t.length * 8 + (encItem t it).2.length
  | .prim _ _, _ => by simp [encItem]
  | .raw _, _ => by simp [encItem]
  | .str _, _ => by simp [encItem]
  | .ptr _ o, t => by
    have := addUnique_length_le t o
    simp only [encItem]; split <;> simp <;> omega
  | .position o, t => by
    have := addUnique_length_le t o
    simp [encItem, Prim.width]; omega
  | .object _ o _ body, t => by
    have h1 := addUnique_length_le t o
    have h2 := encItems_table_le body (addUnique t o).1
    simp only [encItem, List.length_append, tagB_length, le_length]
    omega
theorem encItems_table_le : (w : List Item) → (t : List Lbl) →
    (encItems t w).1.length * 8 ≤ t.length * 8 + (encItems t w).2.length
  | [], _ => by simp [encItems]
  | i :: is, t => by
    have h1 := encItem_table_le i t
    have h2 := encItems_table_le is (encItem t i).1
    simp only [encItems, List.length_append]
    omega
end

end Morfuse.Archive

namespace Morfuse.Archive

theorem archiveVersion_lt : archiveVersion < 256 ^ 2 := by decide

theorem encHeader_length (info : Info) (N : Nat) :
    (encHeader info N).length = info.header.length + 6 + 6 + (encStr info.name).length + 8 := by
  simp [encHeader, Prim.width]; omega

theorem readHeader_ok (cfg : Cfg) (info : Info) (N : Nat) (body : Bytes)
    (hv : info.version < 65536) (hN : N < 2 ^ 32) (hNa : N * 8 < cfg.allocLimit) (hb : 8 * N ≤ body.length)
    (hna : strAlloc info.name.length < cfg.allocLimit) (hnl : info.name.length < 2 ^ 64) :
    readHeader cfg info (RS.init (encHeader info N ++ body)) =
      .ok () ⟨body, (encHeader info N).length, true, List.replicate N 0, []⟩ := by
  have hav := archiveVersion_lt
  simp only [readHeader, RS.init, encHeader, List.append_assoc]
  rw [readN_ok cfg info.header _ none 0 [] [] info.header.length rfl]
  simp only [Res.bind, ne_eq, not_true_eq_false, ↓reduceIte]
  rw [readPrim_ok cfg .u16 archiveVersion (by simpa [Prim.width] using hav)]
  simp only [Res.bind]
  rw [readPrim_ok cfg .u16 info.version (by simpa [Prim.width] using hv)]
  simp only [Res.bind, bne_self_eq_false, Bool.or_self, Bool.and_self, ite_self, Bool.false_eq_true, ↓reduceIte]
  rw [readStr_ok cfg info.name info.name _ _ [] [] hnl hna
    (fun h => List.eq_nil_of_length_eq_zero h)]
  simp only [Res.bind]
  rw [readPrim_ok cfg .u32 N (by simpa [Prim.width] using hN)]
  have hlg : lenGe body (8 * N) = true := by rw [lenGe_iff]; exact hb
  have hna2 : ¬ (N * 8 ≥ cfg.allocLimit) := by omega
  simp [Res.bind, hlg, hna2, Prim.width]
  omega

/-- hypotheses of the round trip -/
structure WF (cfg : Cfg) (classes : List Bytes) (info : Info) (w : List Item) : Prop where
  /-- values fit their width, strings can be allocated, classes resolve -/
  items : WFItems cfg classes w
  /-- every non-null pointer target is registered somewhere in the sequence -/
  targets : ∀ o ∈ ptrTargets w, o ∈ regLabels w
  /-- no registered object is the null pointer -/
  nonnull : ∀ o ∈ ptrTargets w, o ≠ 0
  /-- fewer objects than `ARCHIVE_NULL_POINTER` -/
  count : (encItems [] w).1.length < nullIdx
  /-- the object table can be allocated -/
  table : (encItems [] w).1.length * 8 < cfg.allocLimit
  /-- stream offsets fit `std::streamsize` -/
  size : (encode info w).length < 2 ^ 63
  version : info.version < 65536
  name : strAlloc info.name.length < cfg.allocLimit

mutual
theorem ptrTargetsItem_ne_zero : (it : Item) → ∀ o ∈ ptrTargetsItem it, o ≠ 0
  | .prim _ _ => by simp [ptrTargetsItem]
  | .raw _ => by simp [ptrTargetsItem]
  | .str _ => by simp [ptrTargetsItem]
  | .position _ => by simp [ptrTargetsItem]
  | .ptr _ o => by
    by_cases ho : o = 0 <;> simp [ptrTargetsItem, ho]
  | .object _ _ _ body => by simpa [ptrTargetsItem] using ptrTargets_ne_zero body
theorem ptrTargets_ne_zero : (w : List Item) → ∀ o ∈ ptrTargets w, o ≠ 0
  | [] => by simp [ptrTargets]
  | i :: is => by
    simp only [ptrTargets, List.mem_append]
    rintro o (h | h)
    · exact ptrTargetsItem_ne_zero i o h
    · exact ptrTargets_ne_zero is o h
end

/-- the full run of the reader on an honest archive: result and final state -/
theorem readAll_encode (cfg : Cfg) (classes : List Bytes) (info : Info) (w : List Item)
    (hw : WF cfg classes info w) :
    readAll cfg classes info (schemaOf w) (encode info w) =
      .ok (rawItems (encItems [] w).1 w)
        ⟨[], (encode info w).length, true,
          (regLabels w).foldl (setL (encItems [] w).1) (List.replicate (encItems [] w).1.length 0),
          newFix (encItems [] w).1 w ++ []⟩ := by
  have hsz := hw.size
  have hnull := nullIdx_lt
  have htl := encItems_table_le w []
  simp only [encode, List.length_append] at hsz
  have hnl : info.name.length < 2 ^ 64 := by
    rw [encHeader_length, encStr_length] at hsz; split at hsz <;> omega
  simp only [readAll, encode]
  rw [readHeader_ok cfg info _ _ hw.version (by have := hw.count; omega) hw.table
    (by simp at htl; omega) hw.name hnl]
  simp only [Res.bind]
  have := readItems_enc cfg classes (encItems [] w).1 hw.count hw.table w [] [] (encHeader info (encItems [] w).1.length).length
    (List.replicate (encItems [] w).1.length 0) [] (List.prefix_refl _) hw.items (by simp) (by omega)
  simp only [List.append_nil] at this ⊢
  rw [this]
  simp

end Morfuse.Archive

namespace Morfuse.Archive

theorem decode_encode (cfg : Cfg) (classes : List Bytes) (info : Info) (w : List Item)
    (hw : WF cfg classes info w) :
    decode cfg classes info (schemaOf w) (encode info w) = .ok w := by
  unfold decode
  rw [readAll_encode cfg classes info w hw]
  have hc : closeOk ⟨[], (encode info w).length, true,
      (regLabels w).foldl (setL (encItems [] w).1) (List.replicate (encItems [] w).1.length 0),
      newFix (encItems [] w).1 w ++ []⟩ = true := by
    simp only [closeOk, List.append_nil, List.all_eq_true, decide_eq_true_eq, foldl_setL_length,
      List.length_replicate]
    exact newFix_bounds _ w [] (List.prefix_refl _)
  simp only [hc, ↓reduceIte]
  congr 1
  apply fixItems_raw
  intro o ho
  exact foldl_setL_get _ o (hw.nonnull o ho) _ _ (regLabels_subset w []) (by simp) (hw.targets o ho)

end Morfuse.Archive
