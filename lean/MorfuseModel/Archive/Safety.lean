import MorfuseModel.Archive.Lemmas
/-! Safety of the repaired reader on **arbitrary** bytes (C11): with the four switches on, no run of the
reader model reaches an undefined-behaviour outcome, and the pending fix-ups always point inside the
object table (so `Close`, which also runs while an exception unwinds, stays inside it). -/
namespace Morfuse.Archive

/-- all four reader defects repaired -/
def Cfg.allFixed (cfg : Cfg) : Prop :=
  cfg.checkAfterRead = true ∧ cfg.versionOr = true ∧ cfg.indexChecked = true ∧ cfg.lengthChecked = true

/-- what stays true of the reader state: fix-ups inside the table; table and the unread rest of the stream
    small enough to be allocated -/
def Inv (cfg : Cfg) (s : RS) : Prop :=
  (∀ i ∈ s.fixups, 1 ≤ i ∧ i ≤ s.table.length) ∧ s.table.length * 8 < cfg.allocLimit ∧
    s.rest.length + 25 < cfg.allocLimit

/-- a result that is either a value or an `ArchiveErrors` exception, in a state satisfying `I` -/
def SafeI {α : Type} (I : RS → Prop) (r : Res α) : Prop :=
  match r with
  | .ok _ s => I s
  | .err e s => e.reported = true ∧ I s

abbrev Safe {α : Type} (cfg : Cfg) (r : Res α) : Prop := SafeI (Inv cfg) r

theorem SafeI.bind {α β : Type} {I : RS → Prop} {r : Res α} {f : α → RS → Res β}
    (h : SafeI I r) (hf : ∀ a s, I s → SafeI I (f a s)) : SafeI I (r.bind f) := by
  cases r with
  | ok a s => exact hf a s h
  | err e s => exact h

/-- an invariant that only looks at the table, the fix-ups and (monotonically) the unread length, and
    that bounds the unread length by what can be allocated -/
structure Frame (cfg : Cfg) (I : RS → Prop) : Prop where
  mono : ∀ s s' : RS, s'.table = s.table → s'.fixups = s.fixups → s'.rest.length ≤ s.rest.length → I s → I s'
  small : ∀ s, I s → s.rest.length + 25 < cfg.allocLimit

theorem Inv.frame (cfg : Cfg) : Frame cfg (Inv cfg) where
  mono := by
    intro s s' ht hfx hr ⟨h1, h2, h3⟩
    refine ⟨?_, ?_, ?_⟩
    · rw [hfx, ht]; exact h1
    · rw [ht]; exact h2
    · omega
  small := fun s h => h.2.2

/-- the invariant of the header phase: additionally nothing is queued yet -/
def InvH (cfg : Cfg) (s : RS) : Prop := Inv cfg s ∧ s.fixups = []

theorem InvH.frame (cfg : Cfg) : Frame cfg (InvH cfg) where
  mono := by
    intro s s' ht hfx hr ⟨h, h0⟩
    exact ⟨(Inv.frame cfg).mono s s' ht hfx hr h, by rw [hfx, h0]⟩
  small := fun s h => h.1.2.2

theorem readN_safe (cfg : Cfg) {I : RS → Prop} (hI : Frame cfg I) (hc : cfg.checkAfterRead = true) (n : Nat)
    (old : Option Bytes) (s : RS) (hs : I s) : SafeI I (readN cfg n old s) := by
  unfold readN
  split
  · exact ⟨rfl, hs⟩
  · split
    · exact hI.mono s _ rfl rfl (by simp) hs
    · simp only [hc, ↓reduceIte]
      exact ⟨rfl, hI.mono s _ rfl rfl (by simp) hs⟩

theorem readTag_safe (cfg : Cfg) {I : RS → Prop} (hI : Frame cfg I) (hc : cfg.checkAfterRead = true) (t : Nat)
    (s : RS) (hs : I s) : SafeI I (readTag cfg t s) := by
  unfold readTag
  apply (readN_safe cfg hI hc 4 none s hs).bind
  intro bs s' hs'
  split
  · exact hs'
  · exact ⟨rfl, hs'⟩

theorem readData_safe (cfg : Cfg) {I : RS → Prop} (hI : Frame cfg I) (hc : cfg.checkAfterRead = true) (t w : Nat)
    (old : Option Bytes) (s : RS) (hs : I s) : SafeI I (readData cfg t w old s) := by
  unfold readData
  exact (readTag_safe cfg hI hc t s hs).bind fun _ s' hs' => readN_safe cfg hI hc w old s' hs'

theorem readPrim_safe (cfg : Cfg) {I : RS → Prop} (hI : Frame cfg I) (hc : cfg.checkAfterRead = true) (p : Prim)
    (s : RS) (hs : I s) : SafeI I (readPrim cfg p s) := by
  unfold readPrim
  exact (readData_safe cfg hI hc _ _ _ s hs).bind fun _ s' hs' => hs'

theorem readStr_safe (cfg : Cfg) {I : RS → Prop} (hI : Frame cfg I) (hf : cfg.allFixed) (init : Bytes) (s : RS)
    (hs : I s) : SafeI I (readStr cfg init s) := by
  obtain ⟨hc, _, _, hl⟩ := hf
  unfold readStr
  apply (readData_safe cfg hI hc _ _ _ s hs).bind
  intro lb s' hs'
  simp only [hl, Bool.true_and]
  split
  · exact hs'
  · split
    · exact ⟨rfl, hs'⟩
    · rename_i hlen
      have hge : lenGe s'.rest (unle lb) = true := by simpa using hlen
      rw [lenGe_iff] at hge
      have : ¬ (strAlloc (unle lb) ≥ cfg.allocLimit) := by
        have := hI.small s' hs'; simp only [strAlloc]; omega
      simp only [this, ↓reduceIte]
      exact readData_safe cfg hI hc _ _ _ s' hs'

theorem addAt_safe (cfg : Cfg) (hf : cfg.allFixed) (i : Nat) (o : Lbl) (s : RS) (hs : Inv cfg s) :
    Safe cfg (addAt cfg i o s) := by
  obtain ⟨_, _, hi, _⟩ := hf
  obtain ⟨h1, h2, h3⟩ := hs
  unfold addAt
  simp only [hi, Bool.true_and]
  split
  · exact ⟨rfl, h1, h2, h3⟩
  · rename_i hchk
    simp only [Bool.or_eq_true, beq_iff_eq, decide_eq_true_eq, not_or, Nat.not_lt] at hchk
    have h0 : ¬ (i = 0) := hchk.1
    have hle : i ≤ s.table.length := by omega
    have hna : ¬ (i * 8 ≥ cfg.allocLimit) := by omega
    have hz : i - s.table.length = 0 := by omega
    simp only [h0, ↓reduceIte, hna, hz]
    refine ⟨?_, ?_, h3⟩
    · simpa [addAt.zeros'] using h1
    · simpa [addAt.zeros'] using h2

theorem readPtr_safe (cfg : Cfg) (hf : cfg.allFixed) (safe : Bool) (s : RS) (hs : Inv cfg s) :
    Safe cfg (readPtr cfg safe s) := by
  obtain ⟨hc, _, hi, _⟩ := hf
  unfold readPtr
  apply (readData_safe cfg (Inv.frame cfg) hc _ _ _ s hs).bind
  intro bs s' hs'
  simp only [hi, Bool.true_and]
  split
  · exact hs'
  · split
    · exact ⟨rfl, hs'⟩
    · rename_i hchk
      simp only [Bool.or_eq_true, beq_iff_eq, decide_eq_true_eq, not_or, Nat.not_lt] at hchk
      refine ⟨?_, hs'.2⟩
      intro j hj
      simp only [List.mem_cons] at hj
      rcases hj with rfl | hj
      · dsimp only; omega
      · exact hs'.1 j hj

mutual
theorem readItem_safe (cfg : Cfg) (hf : cfg.allFixed) (classes : List Bytes) :
    (c : Sch) → (s : RS) → Inv cfg s → Safe cfg (readItem cfg classes c s)
  | .prim p, s, hs => by
    simp only [readItem]
    exact (readPrim_safe cfg (Inv.frame cfg) hf.1 p s hs).bind fun _ s' hs' => hs'
  | .raw n, s, hs => by
    simp only [readItem]
    exact (readData_safe cfg (Inv.frame cfg) hf.1 _ _ _ s hs).bind fun _ s' hs' => hs'
  | .str, s, hs => by
    simp only [readItem]
    exact (readStr_safe cfg (Inv.frame cfg) hf [] s hs).bind fun _ s' hs' => hs'
  | .ptr safe, s, hs => by
    simp only [readItem]
    exact (readPtr_safe cfg hf safe s hs).bind fun _ s' hs' => hs'
  | .position o, s, hs => by
    simp only [readItem]
    apply (readData_safe cfg (Inv.frame cfg) hf.1 _ _ _ s hs).bind
    intro bs s' hs'
    exact (addAt_safe cfg hf _ o s' hs').bind fun _ s'' hs'' => hs''
  | .object m o cls body, s, hs => by
    simp only [readItem]
    apply (readN_safe cfg (Inv.frame cfg) hf.1 4 none s hs).bind
    intro tb s1 hs1
    split
    · exact ⟨rfl, hs1⟩
    apply (readN_safe cfg (Inv.frame cfg) hf.1 8 none s1 hs1).bind
    intro sb s2 hs2
    apply (readStr_safe cfg (Inv.frame cfg) hf [] s2 hs2).bind
    intro name s3 hs3
    split
    · exact ⟨rfl, hs3⟩
    split
    · exact ⟨rfl, hs3⟩
    apply (readData_safe cfg (Inv.frame cfg) hf.1 _ _ _ s3 hs3).bind
    intro ib s4 hs4
    split
    · exact ⟨rfl, hs4⟩
    apply (readItems_safe cfg hf classes body s4 hs4).bind
    intro items s5 hs5
    rw [bracket_ite]
    split
    · exact ⟨rfl, hs5⟩
    split
    · exact ⟨rfl, hs5⟩
    exact (addAt_safe cfg hf _ o s5 hs5).bind fun _ s6 hs6 => hs6
theorem readItems_safe (cfg : Cfg) (hf : cfg.allFixed) (classes : List Bytes) :
    (cs : List Sch) → (s : RS) → Inv cfg s → Safe cfg (readItems cfg classes cs s)
  | [], s, hs => by simpa [readItems, Safe, SafeI] using hs
  | c :: cs, s, hs => by
    simp only [readItems]
    apply (readItem_safe cfg hf classes c s hs).bind
    intro i s1 hs1
    exact (readItems_safe cfg hf classes cs s1 hs1).bind fun _ s2 hs2 => hs2
end

theorem readHeader_safe (cfg : Cfg) (hf : cfg.allFixed) (info : Info) (s : RS) (hs : InvH cfg s) :
    Safe cfg (readHeader cfg info s) := by
  have hI := InvH.frame cfg
  have weaken : ∀ {α : Type} {r : Res α}, SafeI (InvH cfg) r → Safe cfg r := by
    intro α r h
    cases r with
    | ok a s => exact h.1
    | err e s => exact ⟨h.1, h.2.1⟩
  have lift : ∀ (e : Err) (s : RS), e.reported = true → InvH cfg s → Safe cfg (Res.err (α := Unit) e s) :=
    fun e s he h => ⟨he, h.1⟩
  unfold readHeader
  cases h1 : readN cfg info.header.length none s with
  | err e s1 =>
    have := readN_safe cfg hI hf.1 info.header.length none s hs
    rw [h1] at this
    exact ⟨this.1, this.2.1⟩
  | ok hb s1 =>
    have hs1 : InvH cfg s1 := by
      have := readN_safe cfg hI hf.1 info.header.length none s hs
      rw [h1] at this; exact this
    simp only [Res.bind]
    split
    · exact lift _ _ rfl hs1
    cases h2 : readPrim cfg .u16 s1 with
    | err e s2 =>
      have := readPrim_safe cfg hI hf.1 .u16 s1 hs1
      rw [h2] at this
      exact ⟨this.1, this.2.1⟩
    | ok mv s2 =>
      have hs2 : InvH cfg s2 := by
        have := readPrim_safe cfg hI hf.1 .u16 s1 hs1
        rw [h2] at this; exact this
      simp only [Res.bind]
      cases h3 : readPrim cfg .u16 s2 with
      | err e s3 =>
        have := readPrim_safe cfg hI hf.1 .u16 s2 hs2
        rw [h3] at this
        exact ⟨this.1, this.2.1⟩
      | ok v s3 =>
        have hs3 : InvH cfg s3 := by
          have := readPrim_safe cfg hI hf.1 .u16 s2 hs2
          rw [h3] at this; exact this
        simp only [hf.2.1, ↓reduceIte]
        split
        · exact lift _ _ rfl hs3
        cases h4 : readStr cfg info.name s3 with
        | err e s4 =>
          have := readStr_safe cfg hI hf info.name s3 hs3
          rw [h4] at this
          exact ⟨this.1, this.2.1⟩
        | ok nm s4 =>
          have hs4 : InvH cfg s4 := by
            have := readStr_safe cfg hI hf info.name s3 hs3
            rw [h4] at this; exact this
          simp only [Res.bind]
          cases h5 : readPrim cfg .u32 s4 with
          | err e s5 =>
            have := readPrim_safe cfg hI hf.1 .u32 s4 hs4
            rw [h5] at this
            exact ⟨this.1, this.2.1⟩
          | ok n s5 =>
            have hs5 : InvH cfg s5 := by
              have := readPrim_safe cfg hI hf.1 .u32 s4 hs4
              rw [h5] at this; exact this
            simp only [hf.2.2.2, Bool.true_and]
            split
            · exact lift _ _ rfl hs5
            · rename_i hlen
              have hge : lenGe s5.rest (8 * n) = true := by simpa using hlen
              rw [lenGe_iff] at hge
              have hsm := hs5.1.2.2
              have : ¬ (n * 8 ≥ cfg.allocLimit) := by omega
              simp only [this, ↓reduceIte]
              refine ⟨?_, ?_, hsm⟩
              · intro i hi
                have h0 := hs5.2
                simp only [h0] at hi
                simp at hi
              · simp; omega

theorem closeOk_of_inv {cfg : Cfg} {s : RS} (h : Inv cfg s) : closeOk s = true := by
  simp only [closeOk, List.all_eq_true, decide_eq_true_eq]
  exact h.1

theorem init_inv (cfg : Cfg) (bytes : Bytes) (h : bytes.length + 25 < cfg.allocLimit) : InvH cfg (RS.init bytes) := by
  refine ⟨⟨?_, ?_, ?_⟩, rfl⟩ <;> simp [RS.init] <;> omega

theorem readAll_safe (cfg : Cfg) (hf : cfg.allFixed) (classes : List Bytes) (info : Info) (sch : List Sch)
    (bytes : Bytes) (h : bytes.length + 25 < cfg.allocLimit) : Safe cfg (readAll cfg classes info sch bytes) := by
  unfold readAll
  exact (readHeader_safe cfg hf info _ (init_inv cfg bytes h)).bind fun _ s hs => readItems_safe cfg hf classes sch s hs

/-- whatever the bytes, the repaired reader either completes or reports an archive error -/
theorem decode_safe (cfg : Cfg) (hf : cfg.allFixed) (classes : List Bytes) (info : Info) (sch : List Sch)
    (bytes : Bytes) (h : bytes.length + 25 < cfg.allocLimit) :
    match decode cfg classes info sch bytes with
    | .ok _ => True
    | .error e => e.reported = true := by
  have hs := readAll_safe cfg hf classes info sch bytes h
  unfold decode
  cases hr : readAll cfg classes info sch bytes with
  | ok items s =>
    rw [hr] at hs
    simp [closeOk_of_inv hs]
  | err e s =>
    rw [hr] at hs
    simp [closeOk_of_inv hs.2, hs.1]

/-- when the run of the reader ends in an error, that error is what `decode` reports -/
theorem decode_of_err (cfg : Cfg) (hf : cfg.allFixed) (classes : List Bytes) (info : Info) (sch : List Sch)
    (bytes : Bytes) (h : bytes.length + 25 < cfg.allocLimit) (e : Err) (s : RS)
    (hr : readAll cfg classes info sch bytes = .err e s) :
    decode cfg classes info sch bytes = .error e ∧ e.reported = true := by
  have hs := readAll_safe cfg hf classes info sch bytes h
  rw [hr] at hs
  unfold decode
  simp [hr, closeOk_of_inv hs.2, hs.1]

end Morfuse.Archive
