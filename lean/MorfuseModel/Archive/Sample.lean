import MorfuseModel.Archive.RoundTrip
/-! a concrete well-formed write sequence used by the non-vacuity examples of Props/C10 and Props/C11 -/
namespace Morfuse.Archive

/-- a graph with a forward reference (1 before its object), a backward one, a self reference inside the
    body of object 2, a null pointer and a position-only object -/
def sample : List Item :=
  [.prim .u8 255, .str [104, 105], .str [], .ptr true 1, .object .poly 1 [76] [.prim .u8 0], .ptr false 1,
   .object .into 2 [86] [.ptr false 2, .ptr true 3], .ptr false 0, .position 3, .raw [0, 1, 2]]

def sampleInfo : Info := { header := [77, 70, 85, 83], name := [97], version := 1 }

theorem sample_wf (cfg : Cfg) (h : 1000 < cfg.allocLimit) : WF cfg [[76], [86]] sampleInfo sample where
  items := by
    simp [sample, WFItems, WFItem, Prim.width, strAlloc, getClass, cstr, eqi, upc]
    omega
  targets := by decide
  nonnull := by decide
  count := by decide
  table := by
    have : (encItems [] sample).1.length = 3 := by decide
    omega
  size := by
    have : (encode sampleInfo sample).length = 210 := by set_option maxRecDepth 100000 in decide
    omega
  version := by decide
  name := by simp [sampleInfo, strAlloc]; omega

end Morfuse.Archive
