import MorfuseModel.Archive.RoundTrip
/-!
# `Listener::Archive`'s own tables: `con::Container<T>` and `con::set<K, V>` archives

Transcription of `include/morfuse/Container/Container_archive.h` (`con::Archive(arc, container, func)`),
`include/morfuse/Container/set_archive.h` (`con::set::Archive`), `con::Archive(arc, Entry<const_str, ConList>&)`,
`ConList::Archive` (`src/Script/Listener.cpp`) and of the part of `Listener::Archive` that concerns the three
`con::set<const_str, ConList>` tables (`m_NotifyList`, `m_WaitForList`, `m_EndList`).

* the **writer** is a function into the calls of `Model.lean` (`listenerCalls`): the bytes of a Listener record
  with tables are `encItem t (.object m o "Listener" (listenerCalls st))`, nothing new at the byte level;
* the **reader** (`readListener`) is **data-directed** like the code: the flag byte says which tables follow,
  `count` how many entries, `hasString` whether a key text follows, `num` how many pointers.

A set is described by what its archive depends on: the three header numbers it stores besides `count`
(`tableLength`, `threshold`, `tableLengthIndex`) and its entries in the order the writer's table walk visits
them.  Keys are `const_str`, archived by text through `StringDictionary::ArchiveString` (`Dict.lean` is about
which id the text receives).
-/
namespace Morfuse.Archive

/-- one entry of a `con::set<const_str, ConList>`: key text (`none`: `const_str` 0) and the listeners of the
    `ConList` (`Container<SafePtr<Listener>>`), `0` = a null `SafePtr` -/
abbrev ConEntry := Option Bytes × List Lbl

structure ConSet where
  tableLength : Nat
  threshold : Nat
  tableLengthIndex : Nat
  entries : List ConEntry
  deriving Repr

/-- the three event tables of a Listener (`none`: the pointer is null, the flag bit clear) -/
structure LTables where
  notify : Option ConSet
  waitFor : Option ConSet
  endl : Option ConSet
  deriving Repr

/-! ## writer: the calls -/


/-- `con::Archive(arc, container, ArchiveListenerPtr)`: `num`, then every element -/
def conListCalls (ls : List Lbl) : List Item := .prim .u32 ls.length :: ls.map (.ptr true ·)

def entryCalls (e : ConEntry) : List Item := keyCalls e.1 ++ conListCalls e.2

def entriesCalls : List ConEntry → List Item
  | [] => []
  | e :: es => entryCalls e ++ entriesCalls es

/-- `con::set::Archive`, write side: `tableLength`, `threshold`, `count`, `tableLengthIndex`, the entries -/
def setCalls (s : ConSet) : List Item :=
  [.prim .u32 s.tableLength, .prim .u32 s.threshold, .prim .u32 s.entries.length, .prim .u16 s.tableLengthIndex]
    ++ entriesCalls s.entries

def optSetCalls : Option ConSet → List Item
  | none => []
  | some s => setCalls s

def flagOf (st : LTables) : Nat :=
  (if st.notify.isSome then 1 else 0) + (if st.waitFor.isSome then 2 else 0) + (if st.endl.isSome then 8 else 0)

/-- `Listener::Archive`, write side (`vars == nullptr`) -/
def listenerCalls (st : LTables) : List Item :=
  .prim .u8 (flagOf st) :: (optSetCalls st.notify ++ optSetCalls st.waitFor ++ optSetCalls st.endl)

/-! ## reader -/

/-- `sizeof(SafePtr<Listener>)` (vtable pointer, object, prev, next) -/
def safePtrSize : Nat := 32


/-- the loop `for (i = 1; i <= num; i++) ArchiveFunc(arc, container.ObjectAt(i))` with `ArchiveSafePointer` -/
def readPtrs (cfg : Cfg) : Nat → RS → Res (List Nat)
  | 0, s => .ok [] s
  | n + 1, s => (readPtr cfg true s).bind fun i s => (readPtrs cfg n s).bind fun is s => .ok (i :: is) s

/-- `con::Archive(arc, container, func)`, load side: `uint32_t num;` uninitialised, `SetNumObjects(num)`
    allocates `num` elements on the say-so of the archive -/
def readConList (cfg : Cfg) (s : RS) : Res (List Nat) :=
  (readData cfg (Prim.u32).tag 4 none s).bind fun nb s =>
    -- `if (num > arc.GetRemainingSize()) throw ReadStreamFail` (`GetRemainingSize` starts with `CheckRead()`)
    if !s.good || !lenGe s.rest (unle nb) then .err .streamFail s
    else if unle nb * safePtrSize ≥ cfg.allocLimit then .err .alloc s else readPtrs cfg (unle nb) s

/-- the entry loop of `con::set::Archive`: `NewEntry()`, `con::Archive(arc, *e)`, then
    `HashT()(e->Key()) % tableLength` (`tableLength = 0` is rejected before the loop since fix 1137e36; the test is
    kept here so that the loop is safe on its own) -/
def readEntries (cfg : Cfg) (tableLength : Nat) : Nat → RS → Res (List (Option Bytes × List Nat))
  | 0, s => .ok [] s
  | n + 1, s =>
    (readKey cfg s).bind fun k s =>
      (readConList cfg s).bind fun ls s =>
        if tableLength = 0 then .err .oob s else
        (readEntries cfg tableLength n s).bind fun es s => .ok ((k, ls) :: es) s

/-- a set as the reading calls return it: pointer slots hold archive indices until `Close` -/
structure RawSet where
  tableLength : Nat
  threshold : Nat
  tableLengthIndex : Nat
  entries : List (Option Bytes × List Nat)
  deriving Repr

/-- `con::set::Archive`, load side (`tableLength32`, `threshold32`, `count32` are uninitialised locals; the table
    of `tableLength` pointers is allocated unless `tableLength == 1`) -/
def readSet (cfg : Cfg) (s : RS) : Res RawSet :=
  (readData cfg (Prim.u32).tag 4 none s).bind fun tl s =>
  (readData cfg (Prim.u32).tag 4 none s).bind fun th s =>
  (readData cfg (Prim.u32).tag 4 none s).bind fun cnt s =>
    -- `remaining = GetRemainingSize()`; no bucket to hash into / more entries than bytes left: `ReadStreamFail`;
    -- a table longer than the rest of the stream is sized by its entries instead
    if !s.good then .err .streamFail s
    else if unle tl = 0 || !lenGe s.rest (unle cnt) then .err .streamFail s
    else
      let clamp := !lenGe s.rest (unle tl)
      let tl' := if clamp then (if unle cnt > 1 then unle cnt else 1) else unle tl
      let th' := if clamp then tl' else unle th
      (readData cfg (Prim.u16).tag 2 (some (zeros 2)) s).bind fun tli s =>
        if tl' ≠ 1 ∧ tl' * 8 ≥ cfg.allocLimit then .err .alloc s else
        (readEntries cfg tl' (unle cnt) s).bind fun es s =>
          .ok { tableLength := tl', threshold := th', tableLengthIndex := unle tli, entries := es } s

def readOptSet (cfg : Cfg) (present : Bool) (s : RS) : Res (Option RawSet) :=
  if present then (readSet cfg s).bind fun r s => .ok (some r) s else .ok none s

structure RawTables where
  notify : Option RawSet
  waitFor : Option RawSet
  endl : Option RawSet
  deriving Repr

/-- `Listener::Archive`, load side, for a flag byte whose `LF_VarList` bit is clear -/
def readListener (cfg : Cfg) (s : RS) : Res RawTables :=
  (readData cfg (Prim.u8).tag 1 (some (zeros 1)) s).bind fun fb s =>
    let flag := unle fb
    (readOptSet cfg (flag % 2 = 1) s).bind fun a s =>
    (readOptSet cfg (flag / 2 % 2 = 1) s).bind fun b s =>
    (readOptSet cfg (flag / 8 % 2 = 1) s).bind fun c s =>
      .ok { notify := a, waitFor := b, endl := c } s

/-! ## `Close`: indices back to objects -/

def fixSet (table : List Lbl) (r : RawSet) : ConSet :=
  { tableLength := r.tableLength, threshold := r.threshold, tableLengthIndex := r.tableLengthIndex,
    entries := r.entries.map fun e => (e.1, e.2.map fun i => if i = 0 then 0 else table.getD (i - 1) 0) }

def fixTables (table : List Lbl) (r : RawTables) : LTables :=
  { notify := r.notify.map (fixSet table), waitFor := r.waitFor.map (fixSet table), endl := r.endl.map (fixSet table) }

def rawSet (T : List Lbl) (s : ConSet) : RawSet :=
  { tableLength := s.tableLength, threshold := s.threshold, tableLengthIndex := s.tableLengthIndex,
    entries := s.entries.map fun e => (e.1, e.2.map fun o => if o = 0 then 0 else idxIn T o) }

def rawTables (T : List Lbl) (st : LTables) : RawTables :=
  { notify := st.notify.map (rawSet T), waitFor := st.waitFor.map (rawSet T), endl := st.endl.map (rawSet T) }

end Morfuse.Archive
