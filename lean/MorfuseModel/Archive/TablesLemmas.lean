import MorfuseModel.Archive.Tables
import MorfuseModel.Archive.Honest
/-! Round trip of `Listener::Archive`'s tables: the data-directed reader of `Tables.lean`, run on what the
writer produced, returns the tables (phase 1: archive indices in the pointer slots; `fixTables` = `Close`). -/
namespace Morfuse.Archive

/-! ### the pieces -/

/-- what a key needs to be loadable: its text can be allocated -/
def WFKey (cfg : Cfg) : Option Bytes → Prop
  | none => True
  | some bs => bs.length < 2 ^ 64 ∧ strAlloc bs.length < cfg.allocLimit

theorem readKey_honest {T : List Lbl} (cfg : Cfg) (k : Option Bytes) (hk : WFKey cfg k) :
    Honest T (readKey cfg) (keyCalls k) k := by
  cases k with
  | none =>
    have h := Honest.bind (T := T) (Honest.data cfg .byte 0 none)
      (r2 := fun hb s => if unle hb = 0 then Res.ok (none : Option Bytes) s
        else (readStr cfg [] s).bind fun bs s => .ok (some bs) s) (c2 := []) (a2 := none)
      (Honest.congr (fun s => by simp [unle_le_of_lt, Prim.width]) (Honest.pure none))
    exact h
  | some bs =>
    have h2 : Honest T (fun s => (readStr cfg [] s).bind fun b s => Res.ok (some b) s) ([.str bs] ++ []) (some bs) :=
      Honest.bind (Honest.str cfg bs hk.1 hk.2) (Honest.pure (some bs))
    have h := Honest.bind (T := T) (Honest.data cfg .byte 1 none)
      (r2 := fun hb s => if unle hb = 0 then Res.ok (none : Option Bytes) s
        else (readStr cfg [] s).bind fun bs s => .ok (some bs) s) (c2 := [.str bs] ++ []) (a2 := some bs)
      (Honest.congr (fun s => by simp [unle_le_of_lt, Prim.width]) h2)
    exact h

theorem readPtrs_honest {T : List Lbl} (hT : T.length < nullIdx) (cfg : Cfg) : (ls : List Lbl) →
    Honest T (readPtrs cfg ls.length) (ls.map (.ptr true ·)) (ls.map fun o => if o = 0 then 0 else idxIn T o)
  | [] => by simpa [readPtrs] using Honest.pure (T := T) ([] : List Nat)
  | o :: ls => by
    have h3 : Honest T (fun s => (readPtrs cfg ls.length s).bind fun is s =>
        Res.ok ((if o = 0 then 0 else idxIn T o) :: is) s) (ls.map (.ptr true ·) ++ [])
        ((if o = 0 then 0 else idxIn T o) :: ls.map fun o => if o = 0 then 0 else idxIn T o) :=
      Honest.bind (readPtrs_honest hT cfg ls) (Honest.pure _)
    have h := Honest.bind (T := T) (Honest.ptr hT cfg true o)
      (r2 := fun i s => (readPtrs cfg ls.length s).bind fun is s => Res.ok (i :: is) s) h3
    simpa [readPtrs] using h

/-- a `ConList` can be loaded: `SetNumObjects` succeeds -/
def WFList (cfg : Cfg) (ls : List Lbl) : Prop := ls.length < 2 ^ 32 ∧ ls.length * safePtrSize < cfg.allocLimit

theorem readConList_honest {T : List Lbl} (hT : T.length < nullIdx) (cfg : Cfg) (ls : List Lbl) (hw : WFList cfg ls) :
    Honest T (readConList cfg) (conListCalls ls) (ls.map fun o => if o = 0 then 0 else idxIn T o) := by
  have hu : unle (le (Prim.u32).width ls.length) = ls.length := unle_le_of_lt (by simpa [Prim.width] using hw.1)
  have hna : ¬ (ls.length * safePtrSize ≥ cfg.allocLimit) := by have := hw.2; omega
  have h := Honest.bind (T := T) (Honest.data cfg .u32 ls.length none)
    (r2 := fun nb s => if !s.good || !lenGe s.rest (unle nb) then Res.err Err.streamFail s
      else if unle nb * safePtrSize ≥ cfg.allocLimit then Res.err Err.alloc s else readPtrs cfg (unle nb) s)
    (Honest.congrOn (fun t tail pos R F => by
      have hlg : lenGe ((encItems t (ls.map (.ptr true ·))).2 ++ tail) ls.length = true := by
        rw [lenGe_iff]; simp [ptrs_enc_length]; omega
      simp only [hu, hna, hlg, Bool.not_true, Bool.or_self, Bool.false_eq_true, ↓reduceIte]) (readPtrs_honest hT cfg ls))
  exact h

def WFEntry (cfg : Cfg) (e : ConEntry) : Prop := WFKey cfg e.1 ∧ WFList cfg e.2

def rawEntry (T : List Lbl) (e : ConEntry) : Option Bytes × List Nat :=
  (e.1, e.2.map fun o => if o = 0 then 0 else idxIn T o)

theorem readEntries_honest {T : List Lbl} (hT : T.length < nullIdx) (cfg : Cfg) (tl : Nat) (htl : tl ≠ 0) :
    (es : List ConEntry) → (∀ e ∈ es, WFEntry cfg e) →
    Honest T (readEntries cfg tl es.length) (entriesCalls es) (es.map (rawEntry T))
  | [], _ => by simpa [readEntries, entriesCalls] using Honest.pure (T := T) ([] : List (Option Bytes × List Nat))
  | e :: es, hw => by
    have hwe := hw e List.mem_cons_self
    have ih := readEntries_honest hT cfg tl htl es (fun x hx => hw x (List.mem_cons_of_mem _ hx))
    have h4 : Honest T (fun s => (readEntries cfg tl es.length s).bind fun r s => Res.ok (rawEntry T e :: r) s)
        (entriesCalls es ++ []) (rawEntry T e :: es.map (rawEntry T)) := Honest.bind ih (Honest.pure _)
    have h3 : Honest T (fun s => (readConList cfg s).bind fun ls s =>
        if tl = 0 then Res.err Err.oob s else (readEntries cfg tl es.length s).bind fun r s => Res.ok ((e.1, ls) :: r) s)
        (conListCalls e.2 ++ (entriesCalls es ++ [])) (rawEntry T e :: es.map (rawEntry T)) :=
      Honest.bind (readConList_honest hT cfg e.2 hwe.2)
        (r2 := fun ls s => if tl = 0 then Res.err Err.oob s
          else (readEntries cfg tl es.length s).bind fun r s => Res.ok ((e.1, ls) :: r) s)
        (Honest.congr (fun s => by simp only [htl, ↓reduceIte]; rfl) h4)
    have h := Honest.bind (T := T) (readKey_honest cfg e.1 hwe.1)
      (r2 := fun k s => (readConList cfg s).bind fun ls s =>
        if tl = 0 then Res.err Err.oob s else (readEntries cfg tl es.length s).bind fun r s => Res.ok ((k, ls) :: r) s) h3
    simpa [readEntries, entriesCalls, entryCalls, List.append_assoc] using h

/-- a set the writer can have produced and the reader can load -/
structure WFSet (cfg : Cfg) (s : ConSet) : Prop where
  tl : s.tableLength ≠ 0 ∧ s.tableLength < 2 ^ 32 ∧ s.tableLength * 8 < cfg.allocLimit
  th : s.threshold < 2 ^ 32
  tli : s.tableLengthIndex < 2 ^ 16
  cnt : s.entries.length < 2 ^ 32
  /-- `count` and `tableLength` do not exceed what the stream holds behind them (always true of `count`: every entry
      takes bytes; a table sparser than that is loaded into a smaller one and its `tableLength` does not round-trip) -/
  bounds : ∀ t : List Lbl,
    s.entries.length ≤ (encItems t (.prim .u16 s.tableLengthIndex :: (entriesCalls s.entries ++ []))).2.length ∧
    s.tableLength ≤ (encItems t (.prim .u16 s.tableLengthIndex :: (entriesCalls s.entries ++ []))).2.length
  entries : ∀ e ∈ s.entries, WFEntry cfg e

theorem rawSet_entries (T : List Lbl) (s : ConSet) : (rawSet T s).entries = s.entries.map (rawEntry T) := rfl

theorem readSet_honest {T : List Lbl} (hT : T.length < nullIdx) (cfg : Cfg) (s : ConSet) (hw : WFSet cfg s) :
    Honest T (readSet cfg) (setCalls s) (rawSet T s) := by
  have u1 : unle (le (Prim.u32).width s.tableLength) = s.tableLength :=
    unle_le_of_lt (by simpa [Prim.width] using hw.tl.2.1)
  have u2 : unle (le (Prim.u32).width s.threshold) = s.threshold := unle_le_of_lt (by simpa [Prim.width] using hw.th)
  have u3 : unle (le (Prim.u32).width s.entries.length) = s.entries.length :=
    unle_le_of_lt (by simpa [Prim.width] using hw.cnt)
  have u4 : unle (le (Prim.u16).width s.tableLengthIndex) = s.tableLengthIndex :=
    unle_le_of_lt (by simpa [Prim.width] using hw.tli)
  have hna : ¬ (s.tableLength ≠ 1 ∧ s.tableLength * 8 ≥ cfg.allocLimit) := by have := hw.tl.2.2; omega
  have h5 : Honest T (fun s' => (readEntries cfg s.tableLength s.entries.length s').bind fun es s' =>
      Res.ok (RawSet.mk (s.tableLength) (s.threshold) (s.tableLengthIndex) es) s') (entriesCalls s.entries ++ []) (rawSet T s) :=
    Honest.bind (readEntries_honest hT cfg s.tableLength hw.tl.1 s.entries hw.entries)
      (r2 := fun es s' => Res.ok (RawSet.mk (s.tableLength) (s.threshold) (s.tableLengthIndex) es) s') (Honest.pure _)
  have h4 := Honest.bind (T := T) (Honest.data cfg .u16 s.tableLengthIndex (some (zeros 2)))
    (r2 := fun tli s' =>
      if s.tableLength ≠ 1 ∧ s.tableLength * 8 ≥ cfg.allocLimit then Res.err Err.alloc s' else
      (readEntries cfg s.tableLength s.entries.length s').bind fun es s' =>
        Res.ok (RawSet.mk (s.tableLength) (s.threshold) (unle tli) es) s')
    (c2 := entriesCalls s.entries ++ []) (a2 := rawSet T s)
    (Honest.congr (fun s' => by simp only [hna, ↓reduceIte, u4]) h5)
  have htl0 : decide (s.tableLength = 0) = false := by simpa using hw.tl.1
  have h3 := Honest.bind (T := T) (Honest.data cfg .u32 s.entries.length none)
    (r2 := fun cnt s' =>
      if !s'.good then Res.err Err.streamFail s'
      else if s.tableLength = 0 || !lenGe s'.rest (unle cnt) then Res.err Err.streamFail s'
      else
        (readData cfg (Prim.u16).tag (Prim.u16).width (some (zeros 2)) s').bind fun tli s'' =>
          if (if !lenGe s'.rest s.tableLength then (if unle cnt > 1 then unle cnt else 1) else s.tableLength) ≠ 1 ∧
              (if !lenGe s'.rest s.tableLength then (if unle cnt > 1 then unle cnt else 1) else s.tableLength) * 8 ≥ cfg.allocLimit
          then Res.err Err.alloc s'' else
          (readEntries cfg (if !lenGe s'.rest s.tableLength then (if unle cnt > 1 then unle cnt else 1) else s.tableLength)
              (unle cnt) s'').bind fun es s'' =>
            Res.ok (RawSet.mk (if !lenGe s'.rest s.tableLength then (if unle cnt > 1 then unle cnt else 1) else s.tableLength)
              (if !lenGe s'.rest s.tableLength then
                (if !lenGe s'.rest s.tableLength then (if unle cnt > 1 then unle cnt else 1) else s.tableLength) else s.threshold)
              (unle tli) es) s'')
    (Honest.congrOn (fun t tail pos R F => by
      obtain ⟨b1, b2⟩ := hw.bounds t
      have g1 : lenGe ((encItems t ([Item.prim Prim.u16 s.tableLengthIndex] ++ (entriesCalls s.entries ++ []))).2 ++ tail)
          s.entries.length = true := by rw [lenGe_iff]; simp only [List.length_append, List.singleton_append]; omega
      have g2 : lenGe ((encItems t ([Item.prim Prim.u16 s.tableLengthIndex] ++ (entriesCalls s.entries ++ []))).2 ++ tail)
          s.tableLength = true := by rw [lenGe_iff]; simp only [List.length_append, List.singleton_append]; omega
      simp only [u3, g1, g2, htl0, Bool.not_true, Bool.or_self, Bool.false_eq_true, ↓reduceIte]) h4)
  have h2 := Honest.bind (T := T) (Honest.data cfg .u32 s.threshold none)
    (r2 := fun th s0 => (readData cfg (Prim.u32).tag (Prim.u32).width none s0).bind fun cnt s' =>
      if !s'.good then Res.err Err.streamFail s'
      else if s.tableLength = 0 || !lenGe s'.rest (unle cnt) then Res.err Err.streamFail s'
      else
        (readData cfg (Prim.u16).tag (Prim.u16).width (some (zeros 2)) s').bind fun tli s'' =>
          if (if !lenGe s'.rest s.tableLength then (if unle cnt > 1 then unle cnt else 1) else s.tableLength) ≠ 1 ∧
              (if !lenGe s'.rest s.tableLength then (if unle cnt > 1 then unle cnt else 1) else s.tableLength) * 8 ≥ cfg.allocLimit
          then Res.err Err.alloc s'' else
          (readEntries cfg (if !lenGe s'.rest s.tableLength then (if unle cnt > 1 then unle cnt else 1) else s.tableLength)
              (unle cnt) s'').bind fun es s'' =>
            Res.ok (RawSet.mk (if !lenGe s'.rest s.tableLength then (if unle cnt > 1 then unle cnt else 1) else s.tableLength)
              (if !lenGe s'.rest s.tableLength then
                (if !lenGe s'.rest s.tableLength then (if unle cnt > 1 then unle cnt else 1) else s.tableLength) else unle th)
              (unle tli) es) s'')
    (Honest.congr (fun s' => by simp only [u2]) h3)
  have h1 := Honest.bind (T := T) (Honest.data cfg .u32 s.tableLength none)
    (r2 := fun tl s00 => (readData cfg (Prim.u32).tag (Prim.u32).width none s00).bind fun th s0 =>
      (readData cfg (Prim.u32).tag (Prim.u32).width none s0).bind fun cnt s' =>
      if !s'.good then Res.err Err.streamFail s'
      else if unle tl = 0 || !lenGe s'.rest (unle cnt) then Res.err Err.streamFail s'
      else
        (readData cfg (Prim.u16).tag (Prim.u16).width (some (zeros 2)) s').bind fun tli s'' =>
          if (if !lenGe s'.rest (unle tl) then (if unle cnt > 1 then unle cnt else 1) else unle tl) ≠ 1 ∧
              (if !lenGe s'.rest (unle tl) then (if unle cnt > 1 then unle cnt else 1) else unle tl) * 8 ≥ cfg.allocLimit
          then Res.err Err.alloc s'' else
          (readEntries cfg (if !lenGe s'.rest (unle tl) then (if unle cnt > 1 then unle cnt else 1) else unle tl)
              (unle cnt) s'').bind fun es s'' =>
            Res.ok (RawSet.mk (if !lenGe s'.rest (unle tl) then (if unle cnt > 1 then unle cnt else 1) else unle tl)
              (if !lenGe s'.rest (unle tl) then
                (if !lenGe s'.rest (unle tl) then (if unle cnt > 1 then unle cnt else 1) else unle tl) else unle th)
              (unle tli) es) s'')
    (Honest.congr (fun s' => by simp only [u1]) h2)
  exact Honest.calls_eq (by simp [setCalls]) (Honest.congr (fun s' => by simp only [readSet]; rfl) h1)

def WFOptSet (cfg : Cfg) : Option ConSet → Prop
  | none => True
  | some s => WFSet cfg s

theorem readOptSet_honest {T : List Lbl} (hT : T.length < nullIdx) (cfg : Cfg) (o : Option ConSet)
    (hw : WFOptSet cfg o) : Honest T (readOptSet cfg o.isSome) (optSetCalls o) (o.map (rawSet T)) := by
  cases o with
  | none => exact Honest.congr (fun s' => by simp [readOptSet]) (Honest.pure (T := T) (none : Option RawSet))
  | some s =>
    have h := Honest.bind (T := T) (readSet_honest hT cfg s hw)
      (r2 := fun r s' => Res.ok (some r) s') (Honest.pure _)
    exact Honest.congr (fun s' => by simp [readOptSet]) (Honest.calls_eq (by simp [optSetCalls]) h)

structure WFTables (cfg : Cfg) (st : LTables) : Prop where
  notify : WFOptSet cfg st.notify
  waitFor : WFOptSet cfg st.waitFor
  endl : WFOptSet cfg st.endl

theorem flagOf_bits (st : LTables) :
    flagOf st < 256 ∧ (decide (flagOf st % 2 = 1) = st.notify.isSome) ∧
      (decide (flagOf st / 2 % 2 = 1) = st.waitFor.isSome) ∧ (decide (flagOf st / 8 % 2 = 1) = st.endl.isSome) := by
  unfold flagOf
  cases st.notify.isSome <;> cases st.waitFor.isSome <;> cases st.endl.isSome <;> decide

/-- the data-directed reader of `Listener::Archive`, run on what the writer produced, returns the tables -/
theorem readListener_honest {T : List Lbl} (hT : T.length < nullIdx) (cfg : Cfg) (st : LTables)
    (hw : WFTables cfg st) : Honest T (readListener cfg) (listenerCalls st) (rawTables T st) := by
  obtain ⟨hf, b1, b2, b3⟩ := flagOf_bits st
  have hu : unle (le (Prim.u8).width (flagOf st)) = flagOf st := unle_le_of_lt (by simpa [Prim.width] using hf)
  have h3 := Honest.bind (T := T) (readOptSet_honest hT cfg st.endl hw.endl)
    (r2 := fun c s => Res.ok (RawTables.mk (st.notify.map (rawSet T)) (st.waitFor.map (rawSet T)) c) s)
    (Honest.pure _)
  have h2 := Honest.bind (T := T) (readOptSet_honest hT cfg st.waitFor hw.waitFor)
    (r2 := fun b s => (readOptSet cfg st.endl.isSome s).bind fun c s =>
      Res.ok (RawTables.mk (st.notify.map (rawSet T)) b c) s) h3
  have h1 := Honest.bind (T := T) (readOptSet_honest hT cfg st.notify hw.notify)
    (r2 := fun a s => (readOptSet cfg st.waitFor.isSome s).bind fun b s =>
      (readOptSet cfg st.endl.isSome s).bind fun c s => Res.ok (RawTables.mk a b c) s) h2
  have h0 := Honest.bind (T := T) (Honest.data cfg .u8 (flagOf st) (some (zeros 1)))
    (r2 := fun fb s =>
      (readOptSet cfg (unle fb % 2 = 1) s).bind fun a s =>
      (readOptSet cfg (unle fb / 2 % 2 = 1) s).bind fun b s =>
      (readOptSet cfg (unle fb / 8 % 2 = 1) s).bind fun c s => Res.ok (RawTables.mk a b c) s)
    (Honest.congr (fun s => by simp only [hu, b1, b2, b3]) h1)
  exact Honest.calls_eq (by simp [listenerCalls]) h0

/-! ### `Close` -/

/-- the listeners the tables point to -/
def setTargets (s : ConSet) : List Lbl := (s.entries.flatMap (·.2)).filter (· ≠ 0)
def optTargets : Option ConSet → List Lbl
  | none => []
  | some s => setTargets s
def tableTargets (st : LTables) : List Lbl := optTargets st.notify ++ optTargets st.waitFor ++ optTargets st.endl

theorem fixSet_raw (T Rf : List Lbl) (s : ConSet) (h : ∀ o ∈ setTargets s, Rf.getD (T.idxOf o) 0 = o) :
    fixSet Rf (rawSet T s) = s := by
  cases s with
  | mk tl th tli es =>
    simp only [fixSet, rawSet, List.map_map, ConSet.mk.injEq, true_and]
    have : ∀ e ∈ es, ((fun e : Option Bytes × List Nat => (e.1, e.2.map fun i => if i = 0 then 0 else Rf.getD (i - 1) 0)) ∘
        fun e : ConEntry => (e.1, e.2.map fun o => if o = 0 then 0 else idxIn T o)) e = e := by
      intro e he
      simp only [Function.comp, List.map_map]
      have : ∀ o ∈ e.2, ((fun i => if i = 0 then 0 else Rf.getD (i - 1) 0) ∘ fun o => if o = 0 then 0 else idxIn T o) o = o := by
        intro o ho
        by_cases h0 : o = 0
        · simp [h0]
        · have hm : o ∈ setTargets ⟨tl, th, tli, es⟩ := by
            simp only [setTargets, List.mem_filter, List.mem_flatMap]
            exact ⟨⟨e, he, ho⟩, by simpa using h0⟩
          have := h o hm
          simp only [List.getD_eq_getElem?_getD] at this
          simp [Function.comp, h0, idxIn, this]
      rw [List.map_congr_left this]
      simp
    rw [List.map_congr_left this]
    simp

theorem fixTables_raw (T Rf : List Lbl) (st : LTables) (h : ∀ o ∈ tableTargets st, Rf.getD (T.idxOf o) 0 = o) :
    fixTables Rf (rawTables T st) = st := by
  cases st with
  | mk a b c =>
    simp only [tableTargets, List.mem_append] at h
    have fa : ∀ (o : Option ConSet), (∀ x ∈ optTargets o, Rf.getD (T.idxOf x) 0 = x) →
        (o.map (rawSet T)).map (fixSet Rf) = o := by
      intro o ho
      cases o with
      | none => rfl
      | some s => simp [fixSet_raw T Rf s (by simpa [optTargets] using ho)]
    simp only [fixTables, rawTables, LTables.mk.injEq]
    exact ⟨fa a (fun x hx => h x (Or.inl (Or.inl hx))), fa b (fun x hx => h x (Or.inl (Or.inr hx))),
      fa c (fun x hx => h x (Or.inr hx))⟩

end Morfuse.Archive
