import MorfuseModel.Archive.Safety
import MorfuseModel.Archive.Value
/-! Safety (C11) of the count-directed readers of `Container_archive.h` / `set_archive.h` / `ScriptVariableList` as they
are after fixes 1137e36 and 00f4e12: on **arbitrary** bytes they end in a value or a reported archive error — no count
taken from the archive is allocated or iterated beyond what the stream still holds, no table length of 0 is divided by —
and every queued fix-up stays inside the object table. -/
namespace Morfuse.Archive

/-- the invariant of `Safety.lean`, with the unread rest small enough that a count bounded by it can be allocated
    (32 = the largest element the readers allocate per count: `sizeof(SafePtr<Listener>)`) -/
def InvW (cfg : Cfg) (s : RS) : Prop := Inv cfg s ∧ s.rest.length * 32 + 25 < cfg.allocLimit

abbrev SafeW {α : Type} (cfg : Cfg) (r : Res α) : Prop := SafeI (InvW cfg) r

theorem InvW.frame (cfg : Cfg) : Frame cfg (InvW cfg) where
  mono := by
    intro s s' ht hfx hr ⟨h, h4⟩
    exact ⟨(Inv.frame cfg).mono s s' ht hfx hr h, by omega⟩
  small := fun s h => h.1.2.2

theorem readPtr_safeW (cfg : Cfg) (hf : cfg.allFixed) (safe : Bool) (s : RS) (hs : InvW cfg s) :
    SafeW cfg (readPtr cfg safe s) := by
  obtain ⟨hc, _, hi, _⟩ := hf
  unfold readPtr
  apply (readData_safe cfg (InvW.frame cfg) hc _ _ _ s hs).bind
  intro bs s' hs'
  simp only [hi, Bool.true_and]
  split
  · exact hs'
  · split
    · exact ⟨rfl, hs'⟩
    · rename_i hchk
      simp only [Bool.or_eq_true, beq_iff_eq, decide_eq_true_eq, not_or, Nat.not_lt] at hchk
      refine ⟨⟨?_, hs'.1.2⟩, hs'.2⟩
      intro j hj
      simp only [List.mem_cons] at hj
      rcases hj with rfl | hj
      · dsimp only; omega
      · exact hs'.1.1 j hj

theorem readKey_safeW (cfg : Cfg) (hf : cfg.allFixed) (s : RS) (hs : InvW cfg s) : SafeW cfg (readKey cfg s) := by
  unfold readKey
  apply (readData_safe cfg (InvW.frame cfg) hf.1 _ _ _ s hs).bind
  intro hb s' hs'
  split
  · exact hs'
  · exact (readStr_safe cfg (InvW.frame cfg) hf [] s' hs').bind fun _ s'' hs'' => hs''

theorem readPtrs_safeW (cfg : Cfg) (hf : cfg.allFixed) : (n : Nat) → (s : RS) → InvW cfg s →
    SafeW cfg (readPtrs cfg n s)
  | 0, s, hs => hs
  | n + 1, s, hs => by
    simp only [readPtrs]
    apply (readPtr_safeW cfg hf true s hs).bind
    intro i s' hs'
    exact (readPtrs_safeW cfg hf n s' hs').bind fun _ s'' hs'' => hs''

/-- **`con::Archive(arc, Container&, func)`**: `num` is bounded by the stream before `SetNumObjects(num)` -/
theorem readConList_safeW (cfg : Cfg) (hf : cfg.allFixed) (s : RS) (hs : InvW cfg s) :
    SafeW cfg (readConList cfg s) := by
  unfold readConList
  apply (readData_safe cfg (InvW.frame cfg) hf.1 _ _ _ s hs).bind
  intro nb s' hs'
  split
  · exact ⟨rfl, hs'⟩
  · rename_i hg
    simp only [Bool.or_eq_true, Bool.not_eq_eq_eq_not, Bool.not_true, not_or, Bool.not_eq_false] at hg
    have hle := (lenGe_iff _ _).mp hg.2
    have hsm := hs'.2
    have : ¬ (unle nb * safePtrSize ≥ cfg.allocLimit) := by simp only [safePtrSize]; omega
    simp only [this, ↓reduceIte]
    exact readPtrs_safeW cfg hf _ s' hs'

theorem readEntries_safeW (cfg : Cfg) (hf : cfg.allFixed) (tl : Nat) (htl : tl ≠ 0) : (n : Nat) → (s : RS) →
    InvW cfg s → SafeW cfg (readEntries cfg tl n s)
  | 0, s, hs => hs
  | n + 1, s, hs => by
    simp only [readEntries]
    apply (readKey_safeW cfg hf s hs).bind
    intro k s1 hs1
    apply (readConList_safeW cfg hf s1 hs1).bind
    intro ls s2 hs2
    simp only [htl, ↓reduceIte]
    exact (readEntries_safeW cfg hf tl htl n s2 hs2).bind fun _ s3 hs3 => hs3

/-- **`con::set::Archive`** (load side, after 1137e36 / 00f4e12): no division by a table length of 0, no table or entry
    count beyond what the stream holds -/
theorem readSet_safeW (cfg : Cfg) (hf : cfg.allFixed) (s : RS) (hs : InvW cfg s) : SafeW cfg (readSet cfg s) := by
  unfold readSet
  apply (readData_safe cfg (InvW.frame cfg) hf.1 _ _ _ s hs).bind
  intro tl s1 hs1
  apply (readData_safe cfg (InvW.frame cfg) hf.1 _ _ _ s1 hs1).bind
  intro th s2 hs2
  apply (readData_safe cfg (InvW.frame cfg) hf.1 _ _ _ s2 hs2).bind
  intro cnt s3 hs3
  split
  · exact ⟨rfl, hs3⟩
  split
  · exact ⟨rfl, hs3⟩
  rename_i hgood hchk
  simp only [Bool.or_eq_true, decide_eq_true_eq, Bool.not_eq_eq_eq_not, Bool.not_true, not_or, Bool.not_eq_false] at hchk
  have hcnt := (lenGe_iff _ _).mp hchk.2
  have hsm := hs3.2
  -- the table length actually used: at least 1, at most the unread rest
  have htl' : ∀ tl', tl' = (if (!lenGe s3.rest (unle tl)) = true then (if unle cnt > 1 then unle cnt else 1) else unle tl) →
      tl' ≠ 0 ∧ tl' * 8 < cfg.allocLimit := by
    intro tl' h
    by_cases hc : (!lenGe s3.rest (unle tl)) = true
    · simp only [hc, ↓reduceIte] at h
      split at h <;> omega
    · simp only [hc, Bool.false_eq_true, ↓reduceIte] at h
      have : lenGe s3.rest (unle tl) = true := by simpa using hc
      have := (lenGe_iff _ _).mp this
      omega
  obtain ⟨h0, hal⟩ := htl' _ rfl
  dsimp only
  apply (readData_safe cfg (InvW.frame cfg) hf.1 _ _ _ s3 hs3).bind
  intro tli s4 hs4
  have hna : ¬ ((if (!lenGe s3.rest (unle tl)) = true then (if unle cnt > 1 then unle cnt else 1) else unle tl) ≠ 1 ∧
      (if (!lenGe s3.rest (unle tl)) = true then (if unle cnt > 1 then unle cnt else 1) else unle tl) * 8 ≥ cfg.allocLimit) := by
    omega
  simp only [hna, ↓reduceIte]
  exact (readEntries_safeW cfg hf _ h0 _ s4 hs4).bind fun _ s5 hs5 => hs5

/-- the entry loop of a variable list, given that the value reader is safe -/
theorem readVarEntries_safeW (cfg : Cfg) (hf : cfg.allFixed) (rv : Lbl → Supply → RS → Res (Value × Supply))
    (hrv : ∀ l sup s, InvW cfg s → SafeW cfg (rv l sup s)) : (n : Nat) → (specs : List (Lbl × Supply)) → (s : RS) →
    InvW cfg s → SafeW cfg (readVarEntries cfg rv n specs s)
  | 0, _, s, hs => hs
  | n + 1, specs, s, hs => by
    simp only [readVarEntries]
    apply (readKey_safeW cfg hf s hs).bind
    intro k s1 hs1
    apply (hrv _ _ s1 hs1).bind
    intro r s2 hs2
    exact (readVarEntries_safeW cfg hf rv hrv n specs.tail s2 hs2).bind fun _ s3 hs3 => hs3

/-- **`ScriptVariableList::Archive`** (the same set template), given that the value reader is safe -/
theorem readVars_safeW (cfg : Cfg) (hf : cfg.allFixed) (fuel : Nat)
    (hrv : ∀ l sup s, InvW cfg s → SafeW cfg (readValue cfg fuel l sup s)) (specs : List (Lbl × Supply)) (s : RS)
    (hs : InvW cfg s) : SafeW cfg (readVars cfg fuel specs s) := by
  unfold readVars
  apply (readData_safe cfg (InvW.frame cfg) hf.1 _ _ _ s hs).bind
  intro tl s1 hs1
  apply (readData_safe cfg (InvW.frame cfg) hf.1 _ _ _ s1 hs1).bind
  intro th s2 hs2
  apply (readData_safe cfg (InvW.frame cfg) hf.1 _ _ _ s2 hs2).bind
  intro cnt s3 hs3
  split
  · exact ⟨rfl, hs3⟩
  split
  · exact ⟨rfl, hs3⟩
  rename_i hgood hchk
  simp only [Bool.or_eq_true, decide_eq_true_eq, Bool.not_eq_eq_eq_not, Bool.not_true, not_or, Bool.not_eq_false] at hchk
  have hcnt := (lenGe_iff _ _).mp hchk.2
  have hsm := hs3.2
  dsimp only
  apply (readData_safe cfg (InvW.frame cfg) hf.1 _ _ _ s3 hs3).bind
  intro tli s4 hs4
  have hna : ¬ ((if (!lenGe s3.rest (unle tl)) = true then (if unle cnt > 1 then unle cnt else 1) else unle tl) ≠ 1 ∧
      (if (!lenGe s3.rest (unle tl)) = true then (if unle cnt > 1 then unle cnt else 1) else unle tl) * 8 ≥ cfg.allocLimit) := by
    by_cases hc : (!lenGe s3.rest (unle tl)) = true
    · simp only [hc, ↓reduceIte]; split <;> omega
    · simp only [hc, Bool.false_eq_true, ↓reduceIte]
      have : lenGe s3.rest (unle tl) = true := by simpa using hc
      have := (lenGe_iff _ _).mp this
      omega
  simp only [hna, ↓reduceIte]
  exact (readVarEntries_safeW cfg hf _ hrv _ specs s4 hs4).bind fun _ s5 hs5 => hs5

end Morfuse.Archive
