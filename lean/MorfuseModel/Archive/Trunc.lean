import MorfuseModel.Archive.RoundTrip
import MorfuseModel.Archive.Safety
/-! Truncation (C11): a reader that reports short reads at once cannot complete on a strict prefix of
an archive it completes on only by consuming all of it.  `TO`: whatever a run on the cut stream
returns successfully, the run on the whole stream returns too, having consumed no more than the cut. -/
namespace Morfuse.Archive

/-- the same reader state over the stream cut to its first `k` unread bytes -/
def RS.cut (s : RS) (k : Nat) : RS := { s with rest := s.rest.take k }

@[simp] theorem RS.cut_table (s : RS) (k : Nat) : (s.cut k).table = s.table := rfl
@[simp] theorem RS.cut_fixups (s : RS) (k : Nat) : (s.cut k).fixups = s.fixups := rfl
@[simp] theorem RS.cut_pos (s : RS) (k : Nat) : (s.cut k).pos = s.pos := rfl
@[simp] theorem RS.cut_good (s : RS) (k : Nat) : (s.cut k).good = s.good := rfl
@[simp] theorem RS.cut_rest (s : RS) (k : Nat) : (s.cut k).rest = s.rest.take k := rfl
@[simp] theorem tell_cut (s : RS) (k : Nat) : tell (s.cut k) = tell s := rfl

/-- success on the cut stream is success on the whole stream, within the cut -/
def TO {α : Type} (s : RS) (k : Nat) (r2 r : Res α) : Prop :=
  ∀ a s2, r2 = .ok a s2 →
    ∃ s', r = .ok a s' ∧ s.pos ≤ s'.pos ∧ s'.pos - s.pos ≤ k ∧ s2 = s'.cut (k - (s'.pos - s.pos))

theorem TO.bind {α β : Type} {s : RS} {k : Nat} {r2 r : Res α} {f : α → RS → Res β}
    (h : TO s k r2 r) (hf : ∀ a s' k', TO s' k' (f a (s'.cut k')) (f a s')) :
    TO s k (r2.bind f) (r.bind f) := by
  intro b s3 hb
  cases r2 with
  | err e s2 => simp [Res.bind] at hb
  | ok a s2 =>
    obtain ⟨s', hr, hp1, hp2, hs2⟩ := h a s2 rfl
    subst hs2
    simp only [Res.bind] at hb
    obtain ⟨s'', hr2, hq1, hq2, hs3⟩ := hf a s' _ b s3 hb
    refine ⟨s'', by simp [hr, Res.bind, hr2], by omega, by omega, ?_⟩
    rw [hs3]
    congr 1
    omega

theorem TO.pure {α : Type} (s : RS) (k : Nat) (g : RS → Res α)
    (hg : ∀ a s2, g (s.cut k) = .ok a s2 → ∃ s', g s = .ok a s' ∧ s'.pos = s.pos ∧ s2 = s'.cut k) :
    TO s k (g (s.cut k)) (g s) := by
  intro a s2 h
  obtain ⟨s', h1, h2, h3⟩ := hg a s2 h
  exact ⟨s', h1, by omega, by omega, by simp [h2, h3]⟩

theorem readN_TO (cfg : Cfg) (hc : cfg.checkAfterRead = true) (n : Nat) (old : Option Bytes) (s : RS) (k : Nat) :
    TO s k (readN cfg n old (s.cut k)) (readN cfg n old s) := by
  intro a s2 h
  unfold readN at h ⊢
  simp only [RS.cut_good, RS.cut_rest, RS.cut_pos, hc, ↓reduceIte] at h ⊢
  by_cases hg : s.good = true
  · simp only [hg, Bool.not_true, Bool.false_eq_true, ↓reduceIte] at h ⊢
    by_cases hl : lenGe (s.rest.take k) n = true
    · simp only [hl, ↓reduceIte, Res.ok.injEq] at h
      rw [lenGe_iff, List.length_take] at hl
      have hl' : lenGe s.rest n = true := by rw [lenGe_iff]; omega
      simp only [hl', ↓reduceIte]
      obtain ⟨h1, h2⟩ := h
      subst h2
      have e1 : (s.rest.take k).take n = s.rest.take n := by
        rw [List.take_take]; congr 1; omega
      refine ⟨⟨s.rest.drop n, s.pos + n, true, s.table, s.fixups⟩, ?_, by simp, by simp; omega, ?_⟩
      · rw [← h1, e1]
      · simp only [RS.cut, RS.mk.injEq, and_true, true_and, Nat.add_sub_cancel_left]
        rw [List.drop_take]
    · simp [hl] at h
  · simp [hg] at h

theorem readTag_TO (cfg : Cfg) (hc : cfg.checkAfterRead = true) (t : Nat) (s : RS) (k : Nat) :
    TO s k (readTag cfg t (s.cut k)) (readTag cfg t s) := by
  unfold readTag
  apply (readN_TO cfg hc 4 none s k).bind
  intro bs s' k'
  apply TO.pure s' k' (fun s => if unle bs = t then Res.ok () s else Res.err Err.typeError s)
  intro a s2 h
  split at h
  · rename_i ht
    simp only [Res.ok.injEq] at h
    exact ⟨s', by simp [ht], rfl, h.2.symm⟩
  · simp at h

theorem readData_TO (cfg : Cfg) (hc : cfg.checkAfterRead = true) (t w : Nat) (old : Option Bytes) (s : RS) (k : Nat) :
    TO s k (readData cfg t w old (s.cut k)) (readData cfg t w old s) := by
  unfold readData
  exact (readTag_TO cfg hc t s k).bind fun _ s' k' => readN_TO cfg hc w old s' k'

theorem ok_TO {α : Type} (a : α) (s : RS) (k : Nat) : TO s k (Res.ok a (s.cut k)) (Res.ok a s) := by
  intro b s2 h
  simp only [Res.ok.injEq] at h
  exact ⟨s, by simp [h.1], by omega, by omega, by simp [h.2]⟩

theorem err_TO {α : Type} (e : Err) (s s0 : RS) (k : Nat) (r : Res α) : TO s k (Res.err e s0) r := by
  intro b s2 h; simp at h

theorem TO.ite {α : Type} {c : Prop} [Decidable c] {s : RS} {k : Nat} {a2 b2 a b : Res α}
    (ht : c → TO s k a2 a) (hf : ¬ c → TO s k b2 b) : TO s k (if c then a2 else b2) (if c then a else b) := by
  by_cases h : c
  · simp only [h, ↓reduceIte]; exact ht h
  · simp only [h, ↓reduceIte]; exact hf h

theorem readPrim_TO (cfg : Cfg) (hc : cfg.checkAfterRead = true) (p : Prim) (s : RS) (k : Nat) :
    TO s k (readPrim cfg p (s.cut k)) (readPrim cfg p s) := by
  unfold readPrim
  exact (readData_TO cfg hc _ _ _ s k).bind fun bs s' k' => ok_TO _ s' k'

theorem readStr_TO (cfg : Cfg) (hc : cfg.checkAfterRead = true) (init : Bytes) (s : RS) (k : Nat) :
    TO s k (readStr cfg init (s.cut k)) (readStr cfg init s) := by
  unfold readStr
  apply (readData_TO cfg hc _ _ _ s k).bind
  intro lb s' k'
  dsimp only
  split
  · exact ok_TO _ s' k'
  · by_cases h1 : (cfg.lengthChecked && !lenGe (s'.cut k').rest (unle lb)) = true
    · simp only [h1, ↓reduceIte]; exact err_TO _ _ _ _ _
    · have h2 : ¬ ((cfg.lengthChecked && !lenGe s'.rest (unle lb)) = true) := by
        simp only [RS.cut_rest, Bool.and_eq_true, Bool.not_eq_eq_eq_not, Bool.not_true, not_and,
          Bool.not_eq_false] at h1 ⊢
        intro hl
        have := h1 hl
        rw [lenGe_iff, List.length_take] at this
        rw [lenGe_iff]; omega
      simp only [h1, h2, ↓reduceIte]
      by_cases h3 : strAlloc (unle lb) ≥ cfg.allocLimit
      · simp only [h3, ↓reduceIte]; exact err_TO _ _ _ _ _
      · simp only [h3, ↓reduceIte]; exact readData_TO cfg hc _ _ _ s' k'

theorem addAt_TO (cfg : Cfg) (i : Nat) (o : Lbl) (s : RS) (k : Nat) :
    TO s k (addAt cfg i o (s.cut k)) (addAt cfg i o s) := by
  unfold addAt
  simp only [RS.cut_table]
  refine TO.ite (fun _ => err_TO _ _ _ _ _) (fun _ => ?_)
  refine TO.ite (fun _ => err_TO _ _ _ _ _) (fun _ => ?_)
  refine TO.ite (fun _ => err_TO _ _ _ _ _) (fun _ => ?_)
  exact ok_TO () { s with table := (s.table ++ addAt.zeros' (i - s.table.length)).set (i - 1) o } k

theorem readPtr_TO (cfg : Cfg) (hc : cfg.checkAfterRead = true) (safe : Bool) (s : RS) (k : Nat) :
    TO s k (readPtr cfg safe (s.cut k)) (readPtr cfg safe s) := by
  unfold readPtr
  apply (readData_TO cfg hc _ _ _ s k).bind
  intro bs s' k'
  dsimp only
  split
  · exact ok_TO _ s' k'
  · simp only [RS.cut_table]
    refine TO.ite (fun _ => err_TO _ _ _ _ _) (fun _ => ?_)
    exact ok_TO (unle bs) { s' with fixups := unle bs :: s'.fixups } k'

mutual
theorem readItem_TO (cfg : Cfg) (hc : cfg.checkAfterRead = true) (classes : List Bytes) :
    (c : Sch) → (s : RS) → (k : Nat) → TO s k (readItem cfg classes c (s.cut k)) (readItem cfg classes c s)
  | .prim p, s, k => by
    simp only [readItem]
    exact (readPrim_TO cfg hc p s k).bind fun v s' k' => ok_TO _ s' k'
  | .raw n, s, k => by
    simp only [readItem]
    exact (readData_TO cfg hc _ _ _ s k).bind fun v s' k' => ok_TO _ s' k'
  | .str, s, k => by
    simp only [readItem]
    exact (readStr_TO cfg hc [] s k).bind fun v s' k' => ok_TO _ s' k'
  | .ptr safe, s, k => by
    simp only [readItem]
    exact (readPtr_TO cfg hc safe s k).bind fun v s' k' => ok_TO _ s' k'
  | .position o, s, k => by
    simp only [readItem]
    apply (readData_TO cfg hc _ _ _ s k).bind
    intro bs s' k'
    exact (addAt_TO cfg _ o s' k').bind fun _ s'' k'' => ok_TO _ s'' k''
  | .object m o cls body, s, k => by
    simp only [readItem]
    apply (readN_TO cfg hc 4 none s k).bind
    intro tb s1 k1
    split
    · exact err_TO _ _ _ _ _
    apply (readN_TO cfg hc 8 none s1 k1).bind
    intro sb s2 k2
    apply (readStr_TO cfg hc [] s2 k2).bind
    intro name s3 k3
    split
    · exact err_TO _ _ _ _ _
    split
    · exact err_TO _ _ _ _ _
    apply (readData_TO cfg hc _ _ _ s3 k3).bind
    intro ib s4 k4
    simp only [RS.cut_table, tell_cut]
    refine TO.ite (fun _ => err_TO _ _ _ _ _) (fun _ => ?_)
    apply (readItems_TO cfg hc classes body s4 k4).bind
    intro items s5 k5
    simp only [tell_cut, bracket_ite]
    refine TO.ite (fun _ => err_TO _ _ _ _ _) (fun _ => ?_)
    refine TO.ite (fun _ => err_TO _ _ _ _ _) (fun _ => ?_)
    exact (addAt_TO cfg _ o s5 k5).bind fun _ s6 k6 => ok_TO _ s6 k6
theorem readItems_TO (cfg : Cfg) (hc : cfg.checkAfterRead = true) (classes : List Bytes) :
    (cs : List Sch) → (s : RS) → (k : Nat) → TO s k (readItems cfg classes cs (s.cut k)) (readItems cfg classes cs s)
  | [], s, k => by simp only [readItems]; exact ok_TO _ s k
  | c :: cs, s, k => by
    simp only [readItems]
    apply (readItem_TO cfg hc classes c s k).bind
    intro i s1 k1
    exact (readItems_TO cfg hc classes cs s1 k1).bind fun is s2 k2 => ok_TO _ s2 k2
end

end Morfuse.Archive

namespace Morfuse.Archive

theorem readHeader_TO (cfg : Cfg) (hc : cfg.checkAfterRead = true) (info : Info) (s : RS) (k : Nat) :
    TO s k (readHeader cfg info (s.cut k)) (readHeader cfg info s) := by
  unfold readHeader
  apply (readN_TO cfg hc _ none s k).bind
  intro hb s1 k1
  refine TO.ite (fun _ => err_TO _ _ _ _ _) (fun _ => ?_)
  apply (readPrim_TO cfg hc _ s1 k1).bind
  intro mv s2 k2
  apply (readPrim_TO cfg hc _ s2 k2).bind
  intro v s3 k3
  dsimp only
  refine TO.ite (fun _ => err_TO _ _ _ _ _) (fun _ => ?_)
  apply (readStr_TO cfg hc _ s3 k3).bind
  intro _ s4 k4
  apply (readPrim_TO cfg hc _ s4 k4).bind
  intro n s5 k5
  by_cases h1 : (cfg.lengthChecked && !lenGe (s5.cut k5).rest (8 * n)) = true
  · simp only [h1, ↓reduceIte]; exact err_TO _ _ _ _ _
  · have h2 : ¬ ((cfg.lengthChecked && !lenGe s5.rest (8 * n)) = true) := by
      simp only [RS.cut_rest, Bool.and_eq_true, Bool.not_eq_eq_eq_not, Bool.not_true, not_and,
        Bool.not_eq_false] at h1 ⊢
      intro hl
      have := h1 hl
      rw [lenGe_iff, List.length_take] at this
      rw [lenGe_iff]; omega
    simp only [h1, h2, ↓reduceIte]
    by_cases h3 : n * 8 ≥ cfg.allocLimit
    · simp only [h3, ↓reduceIte]; exact err_TO _ _ _ _ _
    · simp only [h3, ↓reduceIte]
      exact ok_TO () { s5 with table := List.replicate n 0 } k5

theorem readAll_TO (cfg : Cfg) (hc : cfg.checkAfterRead = true) (classes : List Bytes) (info : Info)
    (sch : List Sch) (bytes : Bytes) (k : Nat) :
    TO (RS.init bytes) k (readAll cfg classes info sch (bytes.take k)) (readAll cfg classes info sch bytes) := by
  unfold readAll
  have : RS.init (bytes.take k) = (RS.init bytes).cut k := rfl
  rw [this]
  exact (readHeader_TO cfg hc info _ k).bind fun _ s' k' => readItems_TO cfg hc classes sch s' k'

/-- every strict prefix of an honest archive makes the repaired reader report an archive error -/
theorem truncation_detected (cfg : Cfg) (hf : cfg.allFixed) (classes : List Bytes) (info : Info) (w : List Item)
    (hw : WF cfg classes info w) (hlim : (encode info w).length + 25 < cfg.allocLimit)
    (k : Nat) (hk : k < (encode info w).length) :
    ∃ e, decode cfg classes info (schemaOf w) ((encode info w).take k) = .error e ∧ e.reported = true := by
  have hto := readAll_TO cfg hf.1 classes info (schemaOf w) (encode info w) k
  have hfull := readAll_encode cfg classes info w hw
  cases hr : readAll cfg classes info (schemaOf w) ((encode info w).take k) with
  | ok a s2 =>
    obtain ⟨s', h1, _, h3, _⟩ := hto a s2 hr
    rw [hfull] at h1
    simp only [Res.ok.injEq] at h1
    rw [← h1.2] at h3
    simp [RS.init] at h3
    omega
  | err e s2 =>
    refine ⟨e, decode_of_err cfg hf classes info (schemaOf w) _ ?_ e s2 hr⟩
    simp only [List.length_take]; omega

end Morfuse.Archive
