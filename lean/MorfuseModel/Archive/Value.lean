import MorfuseModel.Archive.Model
/-!
# Script values (`ScriptVariable::ArchiveInternal`, `ScriptConstArrayHolder::Archive`,
`StringDictionary::ArchiveString`) on top of the Archiver model

The writer of a value is a function into the calls of `Model.lean` (`valCalls`: which `Archive*` calls
`ArchiveInternal` performs, given the object table at that moment — `ObjectPositionExists` decides between
writing a shared holder and a reference to it).  The reader (`readValue`) is **data-directed** like the
code: the kind byte read from the archive selects the calls that follow; objects the reader allocates
(`new ScriptConstArrayHolder`, the element variables) are named from a label supply carried by the schema.

Kinds covered: None, String, Integer, Float, Char, ConstString, Listener, ConstArray (nested, shared),
Vector.  Not covered (the harness never generates them): Ref, Array (hash-map holder), Container,
SafeContainer, Pointer.
-/
namespace Morfuse.Archive

inductive Value where
  | none
  | int (v : Nat)                                      -- 64-bit pattern
  | float (v : Nat)                                    -- 32-bit pattern
  | char (v : Nat)
  | string (bs : Bytes)
  | constString (s : Option Bytes)                     -- `none`: dictionary index 0
  | vector (bs : Bytes)                                -- the 12 bytes of float[3]
  | listener (o : Lbl)
  | constArray (h : Lbl) (rc : Nat) (elems : List (Lbl × Value))   -- holder, refCount, elements with their own addresses
  | constArrayRef (h : Lbl)                            -- a variable sharing a holder already archived
  deriving Repr

/-- `variableType_e` -/
def Value.code : Value → Nat
  | .none => 0 | .string _ => 1 | .int _ => 2 | .float _ => 3 | .char _ => 4 | .constString _ => 5
  | .listener _ => 6 | .constArray _ _ _ => 9 | .constArrayRef _ => 9 | .vector _ => 13

/-- `sizeof(ScriptVariable)` (for `new ScriptVariable[size + 1]`) -/
def svSize : Nat := 16

mutual
/-- `v.ArchiveInternal(arc)` in write mode for the variable at address `self`:
    object table before → (object table after, the calls performed) -/
def valCalls (t : List Lbl) (self : Lbl) : Value → List Lbl × List Item
  | .none => ((addUnique t self).1, [.position self, .prim .byte 0])
  | .int v => ((addUnique t self).1, [.position self, .prim .byte 2, .prim .i64 v])
  | .float v => ((addUnique t self).1, [.position self, .prim .byte 3, .prim .f32 v])
  | .char v => ((addUnique t self).1, [.position self, .prim .byte 4, .prim .chr v])
  | .string bs => ((addUnique t self).1, [.position self, .prim .byte 1, .str bs])
  | .constString none => ((addUnique t self).1, [.position self, .prim .byte 5, .prim .byte 0])
  | .constString (some bs) => ((addUnique t self).1, [.position self, .prim .byte 5, .prim .byte 1, .str bs])
  | .vector bs => ((addUnique t self).1, [.position self, .prim .byte 13, .raw bs, .raw bs, .raw bs])
  | .listener o =>
    let t1 := (addUnique t self).1
    ((if o = 0 then t1 else (addUnique t1 o).1), [.position self, .prim .byte 6, .ptr true o])
  | .constArrayRef h =>
    let t1 := (addUnique t self).1
    if h ∈ t1 then (t1, [.position self, .prim .byte 9, .prim .bool 0, .ptr false h])
    else
      -- the code would archive the holder's content here; a `constArrayRef` to a holder that was never
      -- archived is not a state the generator produces: written as an empty new holder
      ((addUnique t1 h).1, [.position self, .prim .byte 9, .prim .bool 1, .position h, .prim .u32 0, .prim .u32 0])
  | .constArray h rc elems =>
    let t1 := (addUnique t self).1
    if h ∈ t1 then (t1, [.position self, .prim .byte 9, .prim .bool 0, .ptr false h])
    else
      let t2 := (addUnique t1 h).1
      let r := elemCalls t2 elems
      (r.1, [.position self, .prim .byte 9, .prim .bool 1, .position h, .prim .u32 rc, .prim .u32 elems.length] ++ r.2)
def elemCalls (t : List Lbl) : List (Lbl × Value) → List Lbl × List Item
  | [] => (t, [])
  | (s, v) :: es =>
    let r1 := valCalls t s v
    let r2 := elemCalls r1.1 es
    (r2.1, r1.2 ++ r2.2)
end

/-- what a mixed write sequence consists of -/
inductive WItem where
  | item (i : Item)
  | value (self : Lbl) (v : Value)
  deriving Repr

/-- all the `Archive*` calls of a mixed sequence -/
def expand (t : List Lbl) : List WItem → List Lbl × List Item
  | [] => (t, [])
  | .item i :: ws =>
    let r := expand (encItem t i).1 ws
    (r.1, i :: r.2)
  | .value s v :: ws =>
    let r1 := valCalls t s v
    let r2 := expand r1.1 ws
    (r2.1, r1.2 ++ r2.2)

def encodeW (info : Info) (ws : List WItem) : Bytes := encode info (expand [] ws).2

/-! ## reader -/

/-- labels for the objects the reader allocates while loading one value, in allocation order -/
abbrev Supply := List Lbl

def Supply.next (s : Supply) : Lbl × Supply :=
  match s with
  | [] => (0, [])
  | l :: r => (l, r)

/-- `cfg.valueStrFresh`: `ArchiveInternal` creates the string of a String value empty (`new str`) rather
    than as the text of the number 4 (`new str(4)`) -/
def strInit (fresh : Bool) : Bytes := if fresh then [] else [52]

/-- the loop of `ScriptConstArrayHolder::Archive` over the elements, `rv` loading one element variable -/
def readElemsWith (rv : Lbl → Supply → RS → Res (Value × Supply)) :
    Nat → Supply → RS → Res (List (Lbl × Value) × Supply)
  | 0, sup, s => .ok ([], sup) s
  | n + 1, sup, s =>
    (rv sup.next.1 sup.next.2 s).bind fun r s =>
      (readElemsWith rv n r.2 s).bind fun r2 s => .ok ((sup.next.1, r.1) :: r2.1, r2.2) s

/-- An exception while the variable already has kind ConstArray but its holder pointer is still whatever the
    union held: the caller's `~ScriptVariable` follows that pointer (`ClearInternal`).  Undefined behaviour
    unless the kind is assigned only after the payload (`cfg.valueTypeLate`). -/
def guardKind {α : Type} (cfg : Cfg) (r : Res α) : Res α :=
  match r with
  | .ok a s => .ok a s
  | .err e s => if cfg.valueTypeLate then .err e s else .err .uninit s

/-- `v.ArchiveInternal(arc)` in read mode (fuel bounds the nesting depth) -/
def readValue (cfg : Cfg) : Nat → Lbl → Supply → RS → Res (Value × Supply)
  | 0, _, _, s => .err .uninit s          -- not reached when fuel ≥ stream length (see Driver)
  | fuel + 1, self, sup, s =>
    (readData cfg (Prim.pos).tag 4 (some (zeros 4)) s).bind fun pb s =>
    (addAt cfg (unle pb) self s).bind fun _ s =>
    -- ArchiveEnum: `uint8_t byteValue;` uninitialised
    (readData cfg (Prim.byte).tag 1 none s).bind fun kb s =>
      match unle kb with
      | 1 => (readStr cfg (strInit cfg.valueStrFresh) s).bind fun bs s => .ok (.string bs, sup) s
      | 2 => (readPrim cfg .i64 s).bind fun v s => .ok (.int v, sup) s
      | 3 => (readPrim cfg .f32 s).bind fun v s => .ok (.float v, sup) s
      | 4 => (readPrim cfg .chr s).bind fun v s => .ok (.char v, sup) s
      | 5 =>
        (readData cfg (Prim.byte).tag 1 none s).bind fun hb s =>
          if unle hb = 0 then .ok (.constString none, sup) s
          else (readStr cfg [] s).bind fun bs s => .ok (.constString (some bs), sup) s
      | 6 => (readPtr cfg true s).bind fun i s => .ok (.listener i, sup) s
      | 9 =>
        -- `bool newRef;` uninitialised
        (guardKind cfg (readData cfg (Prim.bool).tag 1 none s)).bind fun nb s =>
          if unle nb = 0 then (guardKind cfg (readPtr cfg false s)).bind fun i s => .ok (.constArrayRef i, sup) s
          else
            (readData cfg (Prim.pos).tag 4 (some (zeros 4)) s).bind fun pb s =>
            (addAt cfg (unle pb) sup.next.1 s).bind fun _ s =>
            (readPrim cfg .u32 s).bind fun rc s =>
            -- `uint32_t sz32;` uninitialised
            (readData cfg (Prim.u32).tag 4 none s).bind fun szb s =>
              if (unle szb + 1) * svSize ≥ cfg.allocLimit then .err .alloc s
              else (readElemsWith (readValue cfg fuel) (unle szb) sup.next.2 s).bind fun r s =>
                .ok (.constArray sup.next.1 rc r.1, r.2) s
      | 13 =>
        -- `new float[3]` is uninitialised; `ArchiveElements` reads the whole array three times
        (readData cfg rawTag 12 none s).bind fun b1 s =>
        (readData cfg rawTag 12 (some b1) s).bind fun b2 s =>
        (readData cfg rawTag 12 (some b2) s).bind fun b3 s => .ok (.vector b3, sup) s
      | 0 => .ok (.none, sup) s
      -- Ref/Container (7, 10): a plain pointer; Array, SafeContainer, Pointer: not modelled;
      -- any other byte: `default: break`
      | _ => .ok (.none, sup) s

end Morfuse.Archive

namespace Morfuse.Archive

mutual
/-- labels of the objects the reader will allocate for a value, in allocation order -/
def supplyOf : Value → Supply
  | .constArray h _ elems => h :: supplyOfElems elems
  | _ => []
def supplyOfElems : List (Lbl × Value) → Supply
  | [] => []
  | (l, v) :: es => l :: (supplyOf v ++ supplyOfElems es)
end

inductive WSch where
  | item (c : Sch)
  | value (self : Lbl) (sup : Supply)

def schemaW : List WItem → List WSch
  | [] => []
  | .item i :: ws => .item (schemaOfItem i) :: schemaW ws
  | .value s v :: ws => .value s (supplyOf v) :: schemaW ws

def readW (cfg : Cfg) (classes : List Bytes) (fuel : Nat) : List WSch → RS → Res (List WItem)
  | [], s => .ok [] s
  | .item c :: cs, s =>
    (readItem cfg classes c s).bind fun i s => (readW cfg classes fuel cs s).bind fun is s => .ok (.item i :: is) s
  | .value self sup :: cs, s =>
    (readValue cfg fuel self sup s).bind fun r s =>
      (readW cfg classes fuel cs s).bind fun is s => .ok (.value self r.1 :: is) s

def look (table : List Lbl) (i : Nat) : Lbl := if i = 0 then 0 else table.getD (i - 1) 0

mutual
def fixValue (table : List Lbl) : Value → Value
  | .listener i => .listener (look table i)
  | .constArrayRef i => .constArrayRef (look table i)
  | .constArray h rc elems => .constArray h rc (fixElems table elems)
  | v => v
def fixElems (table : List Lbl) : List (Lbl × Value) → List (Lbl × Value)
  | [] => []
  | (l, v) :: es => (l, fixValue table v) :: fixElems table es
end

def fixW (table : List Lbl) : WItem → WItem
  | .item i => .item (fixItem table i)
  | .value s v => .value s (fixValue table v)

/-- `decode` for mixed sequences (fuel: nesting depth the value reader may descend) -/
def decodeW (cfg : Cfg) (classes : List Bytes) (info : Info) (sch : List WSch) (bytes : Bytes) :
    Except Err (List WItem) :=
  match (readHeader cfg info (RS.init bytes)).bind fun _ s => readW cfg classes (bytes.length + 1) sch s with
  | .ok ws s => if closeOk s then .ok (ws.map (fixW s.table)) else .error .oob
  | .err e s => if !e.reported then .error e else if closeOk s then .error e else .error .oob

end Morfuse.Archive
