import MorfuseModel.Archive.Model
import MorfuseModel.Archive.Tables
/-!
# Script values (`ScriptVariable::ArchiveInternal`, `ScriptConstArrayHolder::Archive`,
`StringDictionary::ArchiveString`) on top of the Archiver model

The writer of a value is a function into the calls of `Model.lean` (`valCalls`: which `Archive*` calls
`ArchiveInternal` performs, given the object table at that moment — `ObjectPositionExists` decides between
writing a shared holder and a reference to it).  The reader (`readValue`) is **data-directed** like the
code: the kind byte read from the archive selects the calls that follow; objects the reader allocates
(`new ScriptConstArrayHolder`, the element variables) are named from a label supply carried by the schema.

Kinds covered: every `variableType_e` that `ArchiveInternal` handles — None, String, Integer, Float, Char,
ConstString, Listener / Ref / Container / SafeContainer (`Value.link`: one pointer record each), ConstArray and
Array (nested, holders shared between variables: `refCount`, later variables refer to the holder by archive
index), Pointer (a `ScriptPointer` cell shared by several variables, archived as the list of the variables that
point at it), Vector.
-/
namespace Morfuse.Archive

inductive Value where
  | none
  | int (v : Nat)                                      -- 64-bit pattern
  | float (v : Nat)                                    -- 32-bit pattern
  | char (v : Nat)
  | string (bs : Bytes)
  | constString (s : Option Bytes)                     -- `none`: dictionary index 0
  | vector (bs : Bytes)                                -- the 12 bytes of float[3]
  /-- the kinds that are one pointer record: Listener (6, `SafePtr<Listener>`), Ref (7, plain pointer to another
      `ScriptVariable`), Container (10, plain pointer), SafeContainer (11, `SafePtr<ConList>`) -/
  | link (code : Nat) (safe : Bool) (o : Lbl)
  | constArray (h : Lbl) (rc : Nat) (elems : List (Lbl × Value))   -- holder, refCount, elements with their own addresses
  /-- Array (8): `ScriptArrayHolder` `h` with `refCount`, the `con::set` header numbers besides `count`, and the
      entries in the order of the writer's table walk, flattened: key₁, value₁, key₂, value₂, … (each a
      `ScriptVariable` of the entry, with its own address) -/
  | array (h : Lbl) (rc tl th tli : Nat) (kvs : List (Lbl × Value))
  /-- Pointer (12): the `ScriptPointer` cell `p` and its `list` (the variables that point at it) -/
  | pointer (p : Lbl) (vars : List Lbl)
  /-- a variable sharing a holder / cell already archived (`code` = 8 Array, 9 ConstArray, 12 Pointer) -/
  | holderRef (code : Nat) (h : Lbl)
  deriving Repr

/-- `variableType_e` -/
def Value.code : Value → Nat
  | .none => 0 | .string _ => 1 | .int _ => 2 | .float _ => 3 | .char _ => 4 | .constString _ => 5
  | .link c _ _ => c | .constArray _ _ _ => 9 | .holderRef c _ => c | .vector _ => 13
  | .array _ _ _ _ _ _ => 8 | .pointer _ _ => 12

/-- `sizeof(ScriptVariable)` (for `new ScriptVariable[size + 1]`) -/
def svSize : Nat := 16

mutual
/-- `v.ArchiveInternal(arc)` in write mode for the variable at address `self`:
    object table before → (object table after, the calls performed) -/
def valCalls (t : List Lbl) (self : Lbl) : Value → List Lbl × List Item
  | .none => ((addUnique t self).1, [.position self, .prim .byte 0])
  | .int v => ((addUnique t self).1, [.position self, .prim .byte 2, .prim .i64 v])
  | .float v => ((addUnique t self).1, [.position self, .prim .byte 3, .prim .f32 v])
  | .char v => ((addUnique t self).1, [.position self, .prim .byte 4, .prim .chr v])
  | .string bs => ((addUnique t self).1, [.position self, .prim .byte 1, .str bs])
  | .constString none => ((addUnique t self).1, [.position self, .prim .byte 5, .prim .byte 0])
  | .constString (some bs) => ((addUnique t self).1, [.position self, .prim .byte 5, .prim .byte 1, .str bs])
  | .vector bs => ((addUnique t self).1, [.position self, .prim .byte 13, .raw bs, .raw bs, .raw bs])
  | .link c safe o =>
    let t1 := (addUnique t self).1
    ((if o = 0 then t1 else (addUnique t1 o).1), [.position self, .prim .byte c, .ptr safe o])
  | .holderRef c h =>
    let t1 := (addUnique t self).1
    if h ∈ t1 then (t1, [.position self, .prim .byte c, .prim .bool 0, .ptr false h])
    else
      -- the code would archive the holder's content here; a reference to a holder that was never
      -- archived is not a state the generator produces (`WFValue` excludes it): written as the bare position
      ((addUnique t1 h).1, [.position self, .prim .byte c, .prim .bool 1, .position h])
  | .pointer p vars =>
    let t1 := (addUnique t self).1
    if p ∈ t1 then (t1, [.position self, .prim .byte 12, .prim .bool 0, .ptr false p])
    else
      -- `con::Archive(arc, list, &ScriptVariable::Archive)`: `num`, then `ArchiveObjectPointer` per variable
      let r := encItems (addUnique t1 p).1 (vars.map (.ptr false ·))
      (r.1, [.position self, .prim .byte 12, .prim .bool 1, .position p, .prim .u32 vars.length] ++ vars.map (.ptr false ·))
  | .array h rc tl th tli kvs =>
    let t1 := (addUnique t self).1
    if h ∈ t1 then (t1, [.position self, .prim .byte 8, .prim .bool 0, .ptr false h])
    else
      let t2 := (addUnique t1 h).1
      let r := elemCalls t2 kvs
      (r.1, [.position self, .prim .byte 8, .prim .bool 1, .position h, .prim .u32 rc, .prim .u32 tl, .prim .u32 th,
             .prim .u32 (kvs.length / 2), .prim .u16 tli] ++ r.2)
  | .constArray h rc elems =>
    let t1 := (addUnique t self).1
    if h ∈ t1 then (t1, [.position self, .prim .byte 9, .prim .bool 0, .ptr false h])
    else
      let t2 := (addUnique t1 h).1
      let r := elemCalls t2 elems
      (r.1, [.position self, .prim .byte 9, .prim .bool 1, .position h, .prim .u32 rc, .prim .u32 elems.length] ++ r.2)
def elemCalls (t : List Lbl) : List (Lbl × Value) → List Lbl × List Item
  | [] => (t, [])
  | (s, v) :: es =>
    let r1 := valCalls t s v
    let r2 := elemCalls r1.1 es
    (r2.1, r1.2 ++ r2.2)
end

/-- what a mixed write sequence consists of -/
inductive WItem where
  | item (i : Item)
  | value (self : Lbl) (v : Value)
  /-- `ScriptVariable::Archive(arc)`: a named variable — its `key` through `StringDictionary::ArchiveString`, then
      `ArchiveInternal` (what `con::Archive(arc, Entry<const_str, ScriptVariable>&)` does for every entry of a
      `ScriptVariableList`) -/
  | named (self : Lbl) (key : Option Bytes) (v : Value)
  deriving Repr

/-- all the `Archive*` calls of a mixed sequence -/
def expand (t : List Lbl) : List WItem → List Lbl × List Item
  | [] => (t, [])
  | .item i :: ws =>
    let r := expand (encItem t i).1 ws
    (r.1, i :: r.2)
  | .value s v :: ws =>
    let r1 := valCalls t s v
    let r2 := expand r1.1 ws
    (r2.1, r1.2 ++ r2.2)
  | .named s k v :: ws =>
    let r1 := valCalls t s v
    let r2 := expand r1.1 ws
    (r2.1, keyCalls k ++ (r1.2 ++ r2.2))

def encodeW (info : Info) (ws : List WItem) : Bytes := encode info (expand [] ws).2

/-! ## reader -/

/-- labels for the objects the reader allocates while loading one value, in allocation order -/
abbrev Supply := List Lbl

def Supply.next (s : Supply) : Lbl × Supply :=
  match s with
  | [] => (0, [])
  | l :: r => (l, r)

/-- `cfg.valueStrFresh`: `ArchiveInternal` creates the string of a String value empty (`new str`) rather
    than as the text of the number 4 (`new str(4)`) -/
def strInit (fresh : Bool) : Bytes := if fresh then [] else [52]

/-- the loop of `ScriptConstArrayHolder::Archive` over the elements, `rv` loading one element variable -/
def readElemsWith (rv : Lbl → Supply → RS → Res (Value × Supply)) :
    Nat → Supply → RS → Res (List (Lbl × Value) × Supply)
  | 0, sup, s => .ok ([], sup) s
  | n + 1, sup, s =>
    (rv sup.next.1 sup.next.2 s).bind fun r s =>
      (readElemsWith rv n r.2 s).bind fun r2 s => .ok ((sup.next.1, r.1) :: r2.1, r2.2) s

/-- `Hash<ScriptVariable>`: the kinds a hash-array key may have (any other: `BadHashCodeValue`, a script
    exception, is thrown out of `con::set::Archive`) -/
def Value.hashable : Value → Bool
  | .string _ | .constString _ | .int _ => true
  | .link c _ _ => c == 6
  | _ => false

/-! ### looking a key up in a loaded hash array

`con::set::Archive` files every loaded entry in bucket `Hash<ScriptVariable>()(key) % tableLength` **while the archive
is open**.  A Listener key is a `SafePtr<Listener>` that `Archiver::Close` resolves later: at that moment
`key.listenerValue()` is null and hashes 0.  A look-up after the load hashes the listener's address. -/

/-- `Hash<ScriptVariable>` of a key while its entry is being loaded (`hash`: the hash of the other key kinds, the same
    before and after) -/
def keyHashAtLoad (hash : Value → Nat) : Value → Nat
  | .link 6 _ _ => 0
  | k => hash k

/-- `Hash<ScriptVariable>` of the same key once the archive is closed (`addr`: the address of a listener) -/
def keyHashAfter (hash : Value → Nat) (addr : Lbl → Nat) : Value → Nat
  | .link 6 _ o => if o = 0 then 0 else addr o
  | k => hash k

/-- `array[key]` finds the loaded entry: the bucket it was filed in is the bucket the look-up searches.
    `refiled`: the holder files its entries again once the archive is closed (`Gen.Archive.arrayRefiled`, read from
    `ScriptArrayHolder::Archive`) -/
def foundAfterLoad (refiled : Bool) (hash : Value → Nat) (addr : Lbl → Nat) (tableLength : Nat) (k : Value) : Bool :=
  refiled || keyHashAtLoad hash k % tableLength == keyHashAfter hash addr k % tableLength

/-- the entry loop of `con::set<ScriptVariable, ScriptVariable>::Archive`: `NewEntry()` (key and value variable),
    `Key().ArchiveInternal`, `Value().ArchiveInternal`, then the key is hashed -/
def readPairsWith (rv : Lbl → Supply → RS → Res (Value × Supply)) :
    Nat → Supply → RS → Res (List (Lbl × Value) × Supply)
  | 0, sup, s => .ok ([], sup) s
  | n + 1, sup, s =>
    (rv sup.next.1 sup.next.2 s).bind fun k s =>
      (rv k.2.next.1 k.2.next.2 s).bind fun v s =>
        if !k.1.hashable then .err .badHash s else
        (readPairsWith rv n v.2 s).bind fun r s =>
          .ok ((sup.next.1, k.1) :: (k.2.next.1, v.1) :: r.1, r.2) s

/-- the element loop of `con::Archive(arc, list, &ScriptVariable::Archive)`: one `ArchiveObjectPointer` each -/
def readPlainPtrs (cfg : Cfg) : Nat → RS → Res (List Nat)
  | 0, s => .ok [] s
  | n + 1, s => (readPtr cfg false s).bind fun i s => (readPlainPtrs cfg n s).bind fun is s => .ok (i :: is) s

/-- An exception while the variable already has kind ConstArray but its holder pointer is still whatever the
    union held: the caller's `~ScriptVariable` follows that pointer (`ClearInternal`).  Undefined behaviour
    unless the kind is assigned only after the payload (`cfg.valueTypeLate`). -/
def guardKind {α : Type} (cfg : Cfg) (r : Res α) : Res α :=
  match r with
  | .ok a s => .ok a s
  | .err e s => if cfg.valueTypeLate then .err e s else .err .uninit s

/-- `v.ArchiveInternal(arc)` in read mode (fuel bounds the nesting depth) -/
def readValue (cfg : Cfg) : Nat → Lbl → Supply → RS → Res (Value × Supply)
  | 0, _, _, s => .err .uninit s          -- not reached when fuel ≥ stream length (see Driver)
  | fuel + 1, self, sup, s =>
    (readData cfg (Prim.pos).tag 4 (some (zeros 4)) s).bind fun pb s =>
    (addAt cfg (unle pb) self s).bind fun _ s =>
    -- ArchiveEnum: `uint8_t byteValue;` uninitialised
    (readData cfg (Prim.byte).tag 1 none s).bind fun kb s =>
      match unle kb with
      | 1 => (readStr cfg (strInit cfg.valueStrFresh) s).bind fun bs s => .ok (.string bs, sup) s
      | 2 => (readPrim cfg .i64 s).bind fun v s => .ok (.int v, sup) s
      | 3 => (readPrim cfg .f32 s).bind fun v s => .ok (.float v, sup) s
      | 4 => (readPrim cfg .chr s).bind fun v s => .ok (.char v, sup) s
      | 5 =>
        (readData cfg (Prim.byte).tag 1 none s).bind fun hb s =>
          if unle hb = 0 then .ok (.constString none, sup) s
          else (readStr cfg [] s).bind fun bs s => .ok (.constString (some bs), sup) s
      | 6 => (readPtr cfg true s).bind fun i s => .ok (.link 6 true i, sup) s
      -- Ref / Container: `ArchiveObjectPointer((void*&)m_data.refValue)`
      | 7 => (readPtr cfg false s).bind fun i s => .ok (.link 7 false i, sup) s
      | 10 => (readPtr cfg false s).bind fun i s => .ok (.link 10 false i, sup) s
      -- SafeContainer: `new ConListPtr`, `ArchiveSafePointer`
      | 11 => (readPtr cfg true s).bind fun i s => .ok (.link 11 true i, sup) s
      | 12 =>
        -- `ScriptPointer::Archive(arc, pointerValue)`: `bool newRef;` uninitialised
        (guardKind cfg (readData cfg (Prim.bool).tag 1 none s)).bind fun nb s =>
          if unle nb = 0 then (guardKind cfg (readPtr cfg false s)).bind fun i s => .ok (.holderRef 12 i, sup) s
          else
            (readData cfg (Prim.pos).tag 4 (some (zeros 4)) s).bind fun pb s =>
            (addAt cfg (unle pb) sup.next.1 s).bind fun _ s =>
            -- `con::Archive(arc, list, func)`: `uint32_t num;` uninitialised; `num` is bounded by the stream, then
            -- `SetNumObjects(num)` allocates `num` pointers
            (readData cfg (Prim.u32).tag 4 none s).bind fun nb s =>
              if !s.good || !lenGe s.rest (unle nb) then .err .streamFail s
              else if unle nb * 8 ≥ cfg.allocLimit then .err .alloc s
              else (readPlainPtrs cfg (unle nb) s).bind fun is s => .ok (.pointer sup.next.1 is, sup.next.2) s
      | 8 =>
        -- `ScriptArrayHolder::Archive(arc, arrayValue)`
        (guardKind cfg (readData cfg (Prim.bool).tag 1 none s)).bind fun nb s =>
          if unle nb = 0 then (guardKind cfg (readPtr cfg false s)).bind fun i s => .ok (.holderRef 8 i, sup) s
          else
            (readData cfg (Prim.pos).tag 4 (some (zeros 4)) s).bind fun pb s =>
            (addAt cfg (unle pb) sup.next.1 s).bind fun _ s =>
            (readPrim cfg .u32 s).bind fun rc s =>
            -- `con::set::Archive`: `tableLength32`, `threshold32`, `count32` uninitialised locals
            (readData cfg (Prim.u32).tag 4 none s).bind fun tlb s =>
            (readData cfg (Prim.u32).tag 4 none s).bind fun thb s =>
            (readData cfg (Prim.u32).tag 4 none s).bind fun cb s =>
              -- `remaining = GetRemainingSize()` (which starts with `CheckRead()`)
              if !s.good then .err .streamFail s
              else if unle tlb = 0 || !lenGe s.rest (unle cb) then .err .streamFail s
              else
                let clamp := !lenGe s.rest (unle tlb)
                let tl := if clamp then (if unle cb > 1 then unle cb else 1) else unle tlb
                let th := if clamp then tl else unle thb
                (readData cfg (Prim.u16).tag 2 (some (zeros 2)) s).bind fun tlib s =>
                  if tl ≠ 1 ∧ tl * 8 ≥ cfg.allocLimit then .err .alloc s
                  else (readPairsWith (readValue cfg fuel) (unle cb) sup.next.2 s).bind fun r s =>
                    .ok (.array sup.next.1 rc tl th (unle tlib) r.1, r.2) s
      | 9 =>
        -- `bool newRef;` uninitialised
        (guardKind cfg (readData cfg (Prim.bool).tag 1 none s)).bind fun nb s =>
          if unle nb = 0 then (guardKind cfg (readPtr cfg false s)).bind fun i s => .ok (.holderRef 9 i, sup) s
          else
            (readData cfg (Prim.pos).tag 4 (some (zeros 4)) s).bind fun pb s =>
            (addAt cfg (unle pb) sup.next.1 s).bind fun _ s =>
            (readPrim cfg .u32 s).bind fun rc s =>
            -- `uint32_t sz32;` uninitialised
            (readData cfg (Prim.u32).tag 4 none s).bind fun szb s =>
              -- (repaired reader) `if (sz32 > arc.GetRemainingSize()) throw ReadStreamFail`
              if cfg.arraySizeChecked && (!s.good || !lenGe s.rest (unle szb)) then .err .streamFail s
              else if (unle szb + 1) * svSize ≥ cfg.allocLimit then .err .alloc s
              else (readElemsWith (readValue cfg fuel) (unle szb) sup.next.2 s).bind fun r s =>
                .ok (.constArray sup.next.1 rc r.1, r.2) s
      | 13 =>
        -- `new float[3]` is uninitialised; `ArchiveElements` reads the whole array three times
        (readData cfg rawTag 12 none s).bind fun b1 s =>
        (readData cfg rawTag 12 (some b1) s).bind fun b2 s =>
        (readData cfg rawTag 12 (some b2) s).bind fun b3 s => .ok (.vector b3, sup) s
      | 0 => .ok (.none, sup) s
      -- any other byte: `default: break`
      | _ => .ok (.none, sup) s

end Morfuse.Archive

namespace Morfuse.Archive

mutual
/-- labels of the objects the reader will allocate for a value, in allocation order -/
def supplyOf : Value → Supply
  | .constArray h _ elems => h :: supplyOfElems elems
  | .array h _ _ _ _ kvs => h :: supplyOfElems kvs
  | .pointer p _ => [p]
  | _ => []
def supplyOfElems : List (Lbl × Value) → Supply
  | [] => []
  | (l, v) :: es => l :: (supplyOf v ++ supplyOfElems es)
end

inductive WSch where
  | item (c : Sch)
  | value (self : Lbl) (sup : Supply)
  | named (self : Lbl) (sup : Supply)
  /-- `ScriptVariableList::Archive` = `con::set<const_str, ScriptVariable>::Archive`, **count-directed**: the header
      numbers, then as many named variables as the archive says (`specs`: address and label supply the host's list
      gives the entries, in load order) -/
  | vars (specs : List (Lbl × Supply))
  /-- an object record the host reads as a real `Listener` (`cls`): `Listener::Archive` is directed by its flag
      byte — event tables (`con::set<const_str, ConList>`) and a `ScriptVariableList` follow as the flag says -/
  | lobj (m : RMode) (o : Lbl) (cls : Bytes)

def schemaW : List WItem → List WSch
  | [] => []
  | .item i :: ws => .item (schemaOfItem i) :: schemaW ws
  | .value s v :: ws => .value s (supplyOf v) :: schemaW ws
  | .named s _ v :: ws => .named s (supplyOf v) :: schemaW ws

/-- the entry loop of `con::set<const_str, ScriptVariable>::Archive`: `NewEntry()`, then `ScriptVariable::Archive`
    (the name through the dictionary, `ArchiveInternal`) -/
def readVarEntries (cfg : Cfg) (rv : Lbl → Supply → RS → Res (Value × Supply)) :
    Nat → List (Lbl × Supply) → RS → Res (List WItem)
  | 0, _, s => .ok [] s
  | n + 1, specs, s =>
    (readKey cfg s).bind fun k s =>
      (rv (specs.headD (0, [])).1 (specs.headD (0, [])).2 s).bind fun r s =>
        (readVarEntries cfg rv n specs.tail s).bind fun es s => .ok (.named (specs.headD (0, [])).1 k r.1 :: es) s

/-- `ScriptVariableList::Archive` (`Class::Archive` archives nothing), load side: the set header with the checks of
    `con::set::Archive` as they are (uninitialised locals; `tableLength = 0` or `count` beyond the stream:
    `ReadStreamFail`; a `tableLength` beyond the stream is replaced by the count; the members are assigned once the
    table exists), then `count` entries.  Returned as the calls it consists of. -/
def readVars (cfg : Cfg) (fuel : Nat) (specs : List (Lbl × Supply)) (s : RS) : Res (List WItem) :=
  (readData cfg (Prim.u32).tag 4 none s).bind fun tlb s =>
  (readData cfg (Prim.u32).tag 4 none s).bind fun thb s =>
  (readData cfg (Prim.u32).tag 4 none s).bind fun cb s =>
    if !s.good then .err .streamFail s
    else if unle tlb = 0 || !lenGe s.rest (unle cb) then .err .streamFail s
    else
      let clamp := !lenGe s.rest (unle tlb)
      let tl := if clamp then (if unle cb > 1 then unle cb else 1) else unle tlb
      let th := if clamp then tl else unle thb
      (readData cfg (Prim.u16).tag 2 (some (zeros 2)) s).bind fun tlib s =>
        if tl ≠ 1 ∧ tl * 8 ≥ cfg.allocLimit then .err .alloc s
        else (readVarEntries cfg (readValue cfg fuel) (unle cb) specs s).bind fun es s =>
          .ok ([.item (.prim .u32 tl), .item (.prim .u32 th), .item (.prim .u32 (unle cb)),
                .item (.prim .u16 (unle tlib))] ++ es) s

/-- `Listener::Archive`, load side: `uint8_t flag = 0`, then what the flag says, in the order of the code -/
def readListenerBody (cfg : Cfg) (fuel : Nat) (s : RS) : Res Nat :=
  (readPrim cfg .u8 s).bind fun flag s =>
    (if flag % 2 = 1 then (readSet cfg s).bind fun _ s => .ok () s else .ok () s).bind fun _ s =>
    (if flag / 2 % 2 = 1 then (readSet cfg s).bind fun _ s => .ok () s else .ok () s).bind fun _ s =>
    (if flag / 4 % 2 = 1 then (readVars cfg fuel [] s).bind fun _ s => .ok () s else .ok () s).bind fun _ s =>
    (if flag / 8 % 2 = 1 then (readSet cfg s).bind fun _ s => .ok () s else .ok () s).bind fun _ s => .ok flag s

/-- an object record read as a real Listener (`ArchiveObject` / `ReadObject<Listener>()` / `ReadObject()`): the record
    logic of `readItem (.object …)` (same text of `Archiver.cpp`) around the data-directed body; when `ReadObject()`
    finds another class in the record, the instance it creates is one of the harness's scripted classes and reads the
    host's script `p u8` -/
def readLobj (cfg : Cfg) (classes : List Bytes) (fuel : Nat) (m : RMode) (o : Lbl) (cls : Bytes) (s : RS) : Res WItem :=
  (readN cfg 4 none s).bind fun tb s =>
    if unle tb ≠ objTag then .err .typeError s else
    (readN cfg 8 none s).bind fun sb s =>
      (readStr cfg [] s).bind fun name s =>
        match getClass classes name with
        | none => .err .invalidClass s
        | some c =>
          if m ≠ .poly ∧ c ≠ cls then .err .objectClassError s else
          (readData cfg (Prim.u32).tag 4 none s).bind fun ib s =>
            if cfg.indexChecked && (unle ib == 0 || unle ib > s.table.length) then .err .invalidIndex s else
            let objstart := tell s
            (if c = cls then readListenerBody cfg fuel s else readPrim cfg .u8 s).bind fun flag s =>
              brk (bracketOf m (tell s - objstart) (toInt64 (unle sb))) s
                ((addAt cfg (unle ib) o s).bind fun _ s => .ok (.item (.object m o c [.prim .u8 (flag % 16)])) s)

def readW (cfg : Cfg) (classes : List Bytes) (fuel : Nat) : List WSch → RS → Res (List WItem)
  | [], s => .ok [] s
  | .item c :: cs, s =>
    (readItem cfg classes c s).bind fun i s => (readW cfg classes fuel cs s).bind fun is s => .ok (.item i :: is) s
  | .value self sup :: cs, s =>
    (readValue cfg fuel self sup s).bind fun r s =>
      (readW cfg classes fuel cs s).bind fun is s => .ok (.value self r.1 :: is) s
  | .named self sup :: cs, s =>
    (readKey cfg s).bind fun k s =>
      (readValue cfg fuel self sup s).bind fun r s =>
        (readW cfg classes fuel cs s).bind fun is s => .ok (.named self k r.1 :: is) s
  | .vars specs :: cs, s =>
    (readVars cfg fuel specs s).bind fun vs s =>
      (readW cfg classes fuel cs s).bind fun is s => .ok (vs ++ is) s
  | .lobj m o cls :: cs, s =>
    (readLobj cfg classes fuel m o cls s).bind fun i s =>
      (readW cfg classes fuel cs s).bind fun is s => .ok (i :: is) s

def look (table : List Lbl) (i : Nat) : Lbl := if i = 0 then 0 else table.getD (i - 1) 0

mutual
def fixValue (table : List Lbl) : Value → Value
  | .link c s i => .link c s (look table i)
  | .holderRef c i => .holderRef c (look table i)
  | .constArray h rc elems => .constArray h rc (fixElems table elems)
  | .array h rc tl th tli kvs => .array h rc tl th tli (fixElems table kvs)
  | .pointer p vars => .pointer p (vars.map (look table))
  | v => v
def fixElems (table : List Lbl) : List (Lbl × Value) → List (Lbl × Value)
  | [] => []
  | (l, v) :: es => (l, fixValue table v) :: fixElems table es
end

def fixW (table : List Lbl) : WItem → WItem
  | .item i => .item (fixItem table i)
  | .value s v => .value s (fixValue table v)
  | .named s k v => .named s k (fixValue table v)

/-- `decode` for mixed sequences (fuel: nesting depth the value reader may descend) -/
def decodeW (cfg : Cfg) (classes : List Bytes) (info : Info) (sch : List WSch) (bytes : Bytes) :
    Except Err (List WItem) :=
  match (readHeader cfg info (RS.init bytes)).bind fun _ s => readW cfg classes (bytes.length + 1) sch s with
  | .ok ws s => if closeOk s then .ok (ws.map (fixW s.table)) else .error .oob
  | .err e s => if !e.reported then .error e else if closeOk s then .error e else .error .oob

end Morfuse.Archive
