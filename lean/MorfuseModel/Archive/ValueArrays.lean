import MorfuseModel.Archive.ValueCases
/-! the value round trip of the two array kinds, given the round trip of their elements -/
namespace Morfuse.Archive

/-- the statement of the round trip of a list of element variables (const array) -/
def REE (cfg : Cfg) (T : List Lbl) (es : List (Lbl × Value)) (fuel : Nat) : Prop :=
  ∀ (t : List Lbl) (tail : Bytes) (pos : Nat) (R : List Lbl) (F : List Nat) (sup' : Supply),
    depthE es < fuel → (encItems t (elemCalls t es).2).1 <+: T → WFElems cfg t es →
    R.length = T.length → (encItems t (elemCalls t es).2).2.length < 2 ^ 63 →
    readElemsWith (readValue cfg fuel) es.length (supplyOfElems es ++ sup') ⟨(encItems t (elemCalls t es).2).2 ++ tail, pos, true, R, F⟩ =
      .ok (rawElems T es, sup') ⟨tail, pos + (encItems t (elemCalls t es).2).2.length, true,
        (regLabels (elemCalls t es).2).foldl (setL T) R, newFix T (elemCalls t es).2 ++ F⟩

/-- … of the flattened entries of a hash array -/
def RPE (cfg : Cfg) (T : List Lbl) (es : List (Lbl × Value)) (fuel : Nat) : Prop :=
  ∀ (t : List Lbl) (tail : Bytes) (pos : Nat) (R : List Lbl) (F : List Nat) (sup' : Supply),
    pairsOk es = true → depthE es < fuel → (encItems t (elemCalls t es).2).1 <+: T → WFElems cfg t es →
    R.length = T.length → (encItems t (elemCalls t es).2).2.length < 2 ^ 63 →
    readPairsWith (readValue cfg fuel) (es.length / 2) (supplyOfElems es ++ sup') ⟨(encItems t (elemCalls t es).2).2 ++ tail, pos, true, R, F⟩ =
      .ok (rawElems T es, sup') ⟨tail, pos + (encItems t (elemCalls t es).2).2.length, true,
        (regLabels (elemCalls t es).2).foldl (setL T) R, newFix T (elemCalls t es).2 ++ F⟩

theorem rve_array (cfg : Cfg) (T : List Lbl) (hT : T.length < nullIdx) (hA : T.length * 8 < cfg.allocLimit)
    (h rc tl th tli : Nat) (kvs : List (Lbl × Value)) (fuel : Nat) (ih : RPE cfg T kvs fuel) :
    RVE cfg T (.array h rc tl th tli kvs) (fuel + 1) := by
  intro self t tail pos R F sup' hd hp hw hR hl
  simp only [WFValue] at hw
  obtain ⟨hm, hrc, htl0, htl, hth, htli, hn32, hal, hpo, ⟨hcl, htlL⟩, hwe⟩ := hw
  have hn := nullIdx_lt
  simp only [depth] at hd
  simp only [valCalls, hm, ↓reduceIte] at hp hl
  have hp2 : (addUnique (addUnique t self).1 h).1 <+: T := (elemCalls_table kvs _ ▸ encItems_prefix _ _).trans hp
  have hp1 : (addUnique t self).1 <+: T := (addUnique_prefix _ h).trans hp2
  obtain ⟨e1, e2, e3, e4⟩ := idx_bounds hp1
  obtain ⟨f1, f2, f3, f4⟩ := idx_bounds hp2
  simp only [List.cons_append, List.nil_append, encItems, encItem, List.length_append, List.append_nil,
    encPrim_length, Prim.width] at hl
  simp only [valCalls, hm, ↓reduceIte, List.cons_append, List.nil_append, encItems, encItem, e1, f1, List.append_assoc,
    supplyOf, List.cons_append, rawValue, regLabels, regLabelsItem, newFix, newFixItem, List.foldl_cons,
    List.foldl_nil, List.append_nil]
  rw [readValue, value_head_ok cfg self (idxIn T self) 8 _ pos R F _ e2 (by omega) (by omega) (by omega)]
  simp only [unle_le1 8 (by decide)]
  rw [readDataU_ok cfg .bool 1 _ _ _ _ 1 rfl]
  simp only [guardKind, Res.bind, Prim.width, unle_le1 1 (by decide), Nat.one_ne_zero, ↓reduceIte, Supply.next]
  have e5 := readData_ok cfg (Prim.pos).tag (Prim.tag_lt _) (le (Prim.pos).width (idxIn T h))
  simp only [encPrim, List.append_assoc] at e5 ⊢
  rw [e5 _ (some (zeros 4)) _ _ F 4 (by simp [Prim.width])]
  have hu : unle (le (Prim.pos).width (idxIn T h)) = idxIn T h := unle_le_of_lt (by simp [Prim.width]; omega)
  simp only [Res.bind, hu]
  rw [addAt_ok cfg (idxIn T h) h _ _ true _ F f2 (by simp; omega) (by simp; omega)]
  simp only [Res.bind]
  have e6 := readPrim_ok cfg .u32 rc (by simpa [Prim.width] using hrc)
  simp only [encPrim, List.append_assoc] at e6
  rw [e6]
  simp only [Res.bind]
  have e7 := fun v => readData_ok cfg (Prim.u32).tag (Prim.tag_lt _) (le (Prim.u32).width v)
  simp only [List.append_assoc] at e7
  rw [e7 tl _ none _ _ F 4 (by simp [Prim.width])]
  simp only [Res.bind]
  rw [e7 th _ none _ _ F 4 (by simp [Prim.width])]
  simp only [Res.bind]
  rw [e7 (kvs.length / 2) _ none _ _ F 4 (by simp [Prim.width])]
  have u1 : unle (le (Prim.u32).width tl) = tl := unle_le_of_lt (by simpa [Prim.width] using htl)
  have u2 : unle (le (Prim.u32).width th) = th := unle_le_of_lt (by simpa [Prim.width] using hth)
  have u3 : unle (le (Prim.u32).width (kvs.length / 2)) = kvs.length / 2 := unle_le_of_lt (by simpa [Prim.width] using hn32)
  have u4 : unle (le (Prim.u16).width tli) = tli := unle_le_of_lt (by simpa [Prim.width] using htli)
  have hlg1 : lenGe (tagB (Prim.u16).tag ++ (le (Prim.u16).width tli ++
      ((encItems (addUnique (addUnique t self).1 h).1 (elemCalls (addUnique (addUnique t self).1 h).1 kvs).2).2 ++ tail)))
      (kvs.length / 2) = true := by
    rw [lenGe_iff]; simp [Prim.width]; omega
  have hlg2 : lenGe (tagB (Prim.u16).tag ++ (le (Prim.u16).width tli ++
      ((encItems (addUnique (addUnique t self).1 h).1 (elemCalls (addUnique (addUnique t self).1 h).1 kvs).2).2 ++ tail)))
      tl = true := by
    rw [lenGe_iff]; simp [Prim.width]; omega
  have htlb : decide (tl = 0) = false := by simpa using htl0
  simp only [Res.bind, u1, u2, u3, hlg1, hlg2, htlb, Bool.not_true, Bool.or_self, Bool.false_eq_true, ↓reduceIte]
  have e8 := readData_ok cfg (Prim.u16).tag (Prim.tag_lt _) (le (Prim.u16).width tli)
  simp only [List.append_assoc] at e8
  rw [e8 _ (some (zeros 2)) _ _ F 2 (by simp [Prim.width])]
  have hna : ¬ (tl ≠ 1 ∧ tl * 8 ≥ cfg.allocLimit) := by omega
  simp only [Res.bind, u4, hna, ↓reduceIte]
  rw [ih _ tail _ _ F sup' hpo (by omega) (elemCalls_table kvs _ ▸ hp) hwe
    (by simp [hR]) (by omega)]
  simp only [Res.bind, setL, e4, f4, Prim.width, regLabels_append, newFix_append, List.foldl_append, regLabels,
    regLabelsItem, newFix, newFixItem, List.foldl_cons, List.foldl_nil, List.append_nil, List.nil_append,
    List.length_append, encPrim_length, tagB_length, le_length, List.append_assoc, List.length_cons, List.length_nil,
    Res.ok.injEq, RS.mk.injEq, true_and, and_true]
  omega

theorem rve_constArray (cfg : Cfg) (T : List Lbl) (hT : T.length < nullIdx) (hA : T.length * 8 < cfg.allocLimit)
    (h rc : Nat) (es : List (Lbl × Value)) (fuel : Nat) (ih : REE cfg T es fuel) :
    RVE cfg T (.constArray h rc es) (fuel + 1) := by
  intro self t tail pos R F sup' hd hp hw hR hl
  simp only [WFValue] at hw
  obtain ⟨hm, hrc, hn32, hal, hwe⟩ := hw
  have hn := nullIdx_lt
  simp only [depth] at hd
  simp only [valCalls, hm, ↓reduceIte] at hp hl
  have hp2 : (addUnique (addUnique t self).1 h).1 <+: T := (elemCalls_table es _ ▸ encItems_prefix _ _).trans hp
  have hp1 : (addUnique t self).1 <+: T := (addUnique_prefix _ h).trans hp2
  obtain ⟨e1, e2, e3, e4⟩ := idx_bounds hp1
  obtain ⟨f1, f2, f3, f4⟩ := idx_bounds hp2
  simp only [List.cons_append, List.nil_append, encItems, encItem, List.length_append, List.append_nil] at hl
  simp only [valCalls, hm, ↓reduceIte, List.cons_append, List.nil_append, encItems, encItem, e1, f1, List.append_assoc,
    supplyOf, List.cons_append, rawValue, regLabels, regLabelsItem, newFix, newFixItem, List.foldl_cons,
    List.foldl_nil, List.append_nil]
  rw [readValue, value_head_ok cfg self (idxIn T self) 9 _ pos R F _ e2 (by omega) (by omega) (by omega)]
  simp only [unle_le1 9 (by decide)]
  rw [readDataU_ok cfg .bool 1 _ _ _ _ 1 rfl]
  simp only [guardKind, Res.bind, Prim.width, unle_le1 1 (by decide), Nat.one_ne_zero, ↓reduceIte, Supply.next]
  have e5 := readData_ok cfg (Prim.pos).tag (Prim.tag_lt _) (le (Prim.pos).width (idxIn T h))
  simp only [encPrim, List.append_assoc] at e5 ⊢
  rw [e5 _ (some (zeros 4)) _ _ F 4 (by simp [Prim.width])]
  have hu : unle (le (Prim.pos).width (idxIn T h)) = idxIn T h := unle_le_of_lt (by simp [Prim.width]; omega)
  simp only [Res.bind, hu]
  rw [addAt_ok cfg (idxIn T h) h _ _ true _ F f2 (by simp; omega) (by simp; omega)]
  simp only [Res.bind]
  have e6 := readPrim_ok cfg .u32 rc (by simpa [Prim.width] using hrc)
  simp only [encPrim, List.append_assoc] at e6
  rw [e6]
  simp only [Res.bind]
  have e7 := readData_ok cfg (Prim.u32).tag (Prim.tag_lt _) (le (Prim.u32).width es.length)
  simp only [List.append_assoc] at e7
  rw [e7 _ none _ _ F 4 (by simp [Prim.width])]
  have hu2 : unle (le (Prim.u32).width es.length) = es.length := unle_le_of_lt (by simpa [Prim.width] using hn32)
  have hna : ¬ ((es.length + 1) * svSize ≥ cfg.allocLimit) := by omega
  have hlg : lenGe ((encItems (addUnique (addUnique t self).1 h).1 (elemCalls (addUnique (addUnique t self).1 h).1 es).2).2 ++ tail)
      es.length = true := by
    have := elemCalls_enc_len es (addUnique (addUnique t self).1 h).1
    rw [lenGe_iff]; simp only [List.length_append]; omega
  simp only [Res.bind, hu2, hna, hlg, Bool.not_true, Bool.or_self, Bool.and_false, Bool.false_eq_true, ↓reduceIte]
  rw [ih _ tail _ _ F sup' (by omega) (elemCalls_table es _ ▸ hp) hwe
    (by simp [hR]) (by omega)]
  simp [Res.bind, setL, e4, f4, Prim.width, regLabels_append, newFix_append, List.foldl_append, regLabels,
    regLabelsItem, newFix, newFixItem]
  omega

end Morfuse.Archive
