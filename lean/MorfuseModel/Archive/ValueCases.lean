import MorfuseModel.Archive.ValueDefs
/-! the value round trip, one kind at a time (the kinds that hold no nested values) -/
namespace Morfuse.Archive

theorem rve_case1 (cfg : Cfg) (T : List Lbl) (hT : T.length < nullIdx) (hA : T.length * 8 < cfg.allocLimit)  (fuel : Nat) :
    RVE cfg T (.none) (fuel + 1) := by
  intro self t tail pos R F sup' _ hp _ hR _
  simp only [valCalls] at hp
  obtain ⟨e1, e2, e3, e4⟩ := idx_bounds hp
  have hn := nullIdx_lt
  simp only [valCalls, encItems, encItem, e1, List.append_assoc, List.append_nil, supplyOf, List.nil_append,
    rawValue, regLabels, regLabelsItem, newFix, newFixItem, List.foldl_cons, List.foldl_nil]
  rw [readValue, value_head_ok cfg self (idxIn T self) 0 _ pos R F _ e2 (by omega) (by omega) (by omega)]
  simp [unle_le1, setL, e4, Prim.width]

theorem rve_case2 (cfg : Cfg) (T : List Lbl) (hT : T.length < nullIdx) (hA : T.length * 8 < cfg.allocLimit) (v : Nat) (fuel : Nat) :
    RVE cfg T (.int v) (fuel + 1) := by
  intro self t tail pos R F sup' _ hp hw hR _
  simp only [WFValue] at hw
  simp only [valCalls] at hp
  obtain ⟨e1, e2, e3, e4⟩ := idx_bounds hp
  have hn := nullIdx_lt
  simp only [valCalls, encItems, encItem, e1, List.append_assoc, List.append_nil, supplyOf, List.nil_append,
    rawValue, regLabels, regLabelsItem, newFix, newFixItem, List.foldl_cons, List.foldl_nil]
  rw [readValue, value_head_ok cfg self (idxIn T self) 2 _ pos R F _ e2 (by omega) (by omega) (by omega)]
  simp only [unle_le1 2 (by decide)]
  rw [readPrim_ok cfg .i64 v (by simpa [Prim.width] using hw)]
  simp [Res.bind, setL, e4, Prim.width]

theorem rve_case3 (cfg : Cfg) (T : List Lbl) (hT : T.length < nullIdx) (hA : T.length * 8 < cfg.allocLimit) (v : Nat) (fuel : Nat) :
    RVE cfg T (.float v) (fuel + 1) := by
  intro self t tail pos R F sup' _ hp hw hR _
  simp only [WFValue] at hw
  simp only [valCalls] at hp
  obtain ⟨e1, e2, e3, e4⟩ := idx_bounds hp
  have hn := nullIdx_lt
  simp only [valCalls, encItems, encItem, e1, List.append_assoc, List.append_nil, supplyOf, List.nil_append,
    rawValue, regLabels, regLabelsItem, newFix, newFixItem, List.foldl_cons, List.foldl_nil]
  rw [readValue, value_head_ok cfg self (idxIn T self) 3 _ pos R F _ e2 (by omega) (by omega) (by omega)]
  simp only [unle_le1 3 (by decide)]
  rw [readPrim_ok cfg .f32 v (by simpa [Prim.width] using hw)]
  simp [Res.bind, setL, e4, Prim.width]

theorem rve_case4 (cfg : Cfg) (T : List Lbl) (hT : T.length < nullIdx) (hA : T.length * 8 < cfg.allocLimit) (v : Nat) (fuel : Nat) :
    RVE cfg T (.char v) (fuel + 1) := by
  intro self t tail pos R F sup' _ hp hw hR _
  simp only [WFValue] at hw
  simp only [valCalls] at hp
  obtain ⟨e1, e2, e3, e4⟩ := idx_bounds hp
  have hn := nullIdx_lt
  simp only [valCalls, encItems, encItem, e1, List.append_assoc, List.append_nil, supplyOf, List.nil_append,
    rawValue, regLabels, regLabelsItem, newFix, newFixItem, List.foldl_cons, List.foldl_nil]
  rw [readValue, value_head_ok cfg self (idxIn T self) 4 _ pos R F _ e2 (by omega) (by omega) (by omega)]
  simp only [unle_le1 4 (by decide)]
  rw [readPrim_ok cfg .chr v (by simpa [Prim.width] using hw)]
  simp [Res.bind, setL, e4, Prim.width]

theorem rve_case5 (cfg : Cfg) (T : List Lbl) (hT : T.length < nullIdx) (hA : T.length * 8 < cfg.allocLimit) (bs : Bytes) (fuel : Nat) :
    RVE cfg T (.string bs) (fuel + 1) := by
  intro self t tail pos R F sup' _ hp hw hR hl
  simp only [WFValue] at hw
  simp only [valCalls] at hp
  obtain ⟨e1, e2, e3, e4⟩ := idx_bounds hp
  have hn := nullIdx_lt
  simp only [valCalls, encItems, encItem, List.append_nil, List.length_append] at hl
  have hl2 : bs.length < 2 ^ 64 := by rw [encStr_length] at hl; split at hl <;> omega
  simp only [valCalls, encItems, encItem, e1, List.append_assoc, List.append_nil, supplyOf, List.nil_append,
    rawValue, regLabels, regLabelsItem, newFix, newFixItem, List.foldl_cons, List.foldl_nil]
  rw [readValue, value_head_ok cfg self (idxIn T self) 1 _ pos R F _ e2 (by omega) (by omega) (by omega)]
  simp only [unle_le1 1 (by decide)]
  rw [readStr_ok cfg bs (strInit cfg.valueStrFresh) tail _ _ F hl2 hw.1 (by
    intro h0
    rcases hw.2 with hf | hne
    · simp [strInit, hf]
    · exact absurd (List.eq_nil_of_length_eq_zero h0) hne)]
  simp [Res.bind, setL, e4, Prim.width]
  omega

theorem rve_case6 (cfg : Cfg) (T : List Lbl) (hT : T.length < nullIdx) (hA : T.length * 8 < cfg.allocLimit)  (fuel : Nat) :
    RVE cfg T (.constString none) (fuel + 1) := by
  intro self t tail pos R F sup' _ hp _ hR _
  simp only [valCalls] at hp
  obtain ⟨e1, e2, e3, e4⟩ := idx_bounds hp
  have hn := nullIdx_lt
  simp only [valCalls, encItems, encItem, e1, List.append_assoc, List.append_nil, supplyOf, List.nil_append,
    rawValue, regLabels, regLabelsItem, newFix, newFixItem, List.foldl_cons, List.foldl_nil]
  rw [readValue, value_head_ok cfg self (idxIn T self) 5 _ pos R F _ e2 (by omega) (by omega) (by omega)]
  simp only [unle_le1 5 (by decide)]
  rw [readDataU_ok cfg .byte 0 _ _ _ _ 1 rfl]
  simp [Res.bind, setL, e4, Prim.width, unle_le1]

theorem rve_case7 (cfg : Cfg) (T : List Lbl) (hT : T.length < nullIdx) (hA : T.length * 8 < cfg.allocLimit) (bs : Bytes) (fuel : Nat) :
    RVE cfg T (.constString (some bs)) (fuel + 1) := by
  intro self t tail pos R F sup' _ hp hw hR hl
  simp only [WFValue] at hw
  simp only [valCalls] at hp
  obtain ⟨e1, e2, e3, e4⟩ := idx_bounds hp
  have hn := nullIdx_lt
  simp only [valCalls, encItems, encItem, List.append_nil, List.length_append] at hl
  have hl2 : bs.length < 2 ^ 64 := by rw [encStr_length] at hl; split at hl <;> omega
  simp only [valCalls, encItems, encItem, e1, List.append_assoc, List.append_nil, supplyOf, List.nil_append,
    rawValue, regLabels, regLabelsItem, newFix, newFixItem, List.foldl_cons, List.foldl_nil]
  rw [readValue, value_head_ok cfg self (idxIn T self) 5 _ pos R F _ e2 (by omega) (by omega) (by omega)]
  simp only [unle_le1 5 (by decide)]
  rw [readDataU_ok cfg .byte 1 _ _ _ _ 1 rfl]
  simp only [Res.bind, Prim.width, unle_le1 1 (by decide), Nat.one_ne_zero, ↓reduceIte]
  rw [readStr_ok cfg bs [] tail _ _ F hl2 hw (fun _ => rfl)]
  simp [Res.bind, setL, e4, Prim.width]
  omega

theorem rve_case8 (cfg : Cfg) (T : List Lbl) (hT : T.length < nullIdx) (hA : T.length * 8 < cfg.allocLimit) (bs : Bytes) (fuel : Nat) :
    RVE cfg T (.vector bs) (fuel + 1) := by
  intro self t tail pos R F sup' _ hp hw hR _
  simp only [WFValue] at hw
  simp only [valCalls] at hp
  obtain ⟨e1, e2, e3, e4⟩ := idx_bounds hp
  have hn := nullIdx_lt
  simp only [valCalls, encItems, encItem, e1, List.append_assoc, List.append_nil, supplyOf, List.nil_append,
    rawValue, regLabels, regLabelsItem, newFix, newFixItem, List.foldl_cons, List.foldl_nil, encRaw]
  rw [readValue, value_head_ok cfg self (idxIn T self) 13 _ pos R F _ e2 (by omega) (by omega) (by omega)]
  simp only [unle_le1 13 (by decide)]
  have r1 := fun tl ps old => readData_ok cfg rawTag (tagOf_lt _) bs tl old ps (R.set (idxIn T self - 1) self) F 12 hw
  simp only [List.append_assoc] at r1
  rw [r1]
  simp only [Res.bind]
  rw [r1]
  simp only [Res.bind]
  rw [r1]
  simp [Res.bind, setL, e4, Prim.width, hw]

theorem rve_case9 (cfg : Cfg) (T : List Lbl) (hT : T.length < nullIdx) (hA : T.length * 8 < cfg.allocLimit) (c : Nat) (safe : Bool) (o : Lbl) (fuel : Nat) :
    RVE cfg T (.link c safe o) (fuel + 1) := by
  intro self t tail pos R F sup' _ hp hw hR _
  have hn := nullIdx_lt
  simp only [WFValue] at hw
  rcases hw with ⟨rfl, rfl⟩ | ⟨rfl, rfl⟩ | ⟨rfl, rfl⟩ | ⟨rfl, rfl⟩ <;>
  (by_cases ho : o = 0
   · subst ho
     simp only [valCalls, ↓reduceIte] at hp
     obtain ⟨e1, e2, e3, e4⟩ := idx_bounds hp
     simp only [valCalls, encItems, encItem, e1, List.append_assoc, List.append_nil, supplyOf, List.nil_append,
       rawValue, regLabels, regLabelsItem, newFix, newFixItem, List.foldl_cons, List.foldl_nil, ↓reduceIte]
     rw [readValue, value_head_ok cfg self (idxIn T self) _ _ pos R F _ e2 (by omega) (by omega) (by omega)]
     simp only [unle_le1 6 (by decide), unle_le1 7 (by decide), unle_le1 10 (by decide), unle_le1 11 (by decide)]
     rw [readPtr_null']
     simp [Res.bind, setL, e4, Prim.width]
   · simp only [valCalls, ho, ↓reduceIte] at hp
     have hp1 : (addUnique t self).1 <+: T := (addUnique_prefix _ o).trans hp
     obtain ⟨e1, e2, e3, e4⟩ := idx_bounds hp1
     obtain ⟨f1, f2, f3, _⟩ := idx_bounds hp
     simp only [valCalls, encItems, encItem, e1, f1, List.append_assoc, List.append_nil, supplyOf, List.nil_append,
       rawValue, regLabels, regLabelsItem, newFix, newFixItem, List.foldl_cons, List.foldl_nil, ho, ↓reduceIte]
     rw [readValue, value_head_ok cfg self (idxIn T self) _ _ pos R F _ e2 (by omega) (by omega) (by omega)]
     simp only [unle_le1 6 (by decide), unle_le1 7 (by decide), unle_le1 10 (by decide), unle_le1 11 (by decide)]
     rw [readPtr_idx' cfg _ (idxIn T o) tail _ _ F f2 (by simp; omega) (by simp; omega)]
     simp [Res.bind, setL, e4, Prim.width])

theorem rve_case10 (cfg : Cfg) (T : List Lbl) (hT : T.length < nullIdx) (hA : T.length * 8 < cfg.allocLimit) (c : Nat) (h : Lbl) (fuel : Nat) :
    RVE cfg T (.holderRef c h) (fuel + 1) := by
  intro self t tail pos R F sup' _ hp hw hR _
  simp only [WFValue] at hw
  obtain ⟨hc, h0, hm⟩ := hw
  have hn := nullIdx_lt
  simp only [valCalls, hm, ↓reduceIte] at hp
  obtain ⟨e1, e2, e3, e4⟩ := idx_bounds hp
  have hp2 : (addUnique (addUnique t self).1 h).1 <+: T := by rw [addUnique_of_mem hm]; exact hp
  obtain ⟨f1, f2, f3, _⟩ := idx_bounds hp2
  rcases hc with rfl | rfl | rfl <;>
  (simp only [valCalls, hm, encItems, encItem, e1, f1, List.append_assoc, List.append_nil, supplyOf, List.nil_append,
     rawValue, regLabels, regLabelsItem, newFix, newFixItem, List.foldl_cons, List.foldl_nil, h0, ↓reduceIte]
   rw [readValue, value_head_ok cfg self (idxIn T self) _ _ pos R F _ e2 (by omega) (by omega) (by omega)]
   simp only [unle_le1 8 (by decide), unle_le1 9 (by decide), unle_le1 12 (by decide)]
   rw [readDataU_ok cfg .bool 0 _ _ _ _ 1 rfl]
   simp only [guardKind, Res.bind, Prim.width, unle_le1 0 (by decide), ↓reduceIte]
   rw [readPtr_idx' cfg false (idxIn T h) tail _ _ F f2 (by simp; omega) (by simp; omega)]
   simp [Res.bind, setL, e4, Prim.width])

theorem rve_case11 (cfg : Cfg) (T : List Lbl) (hT : T.length < nullIdx) (hA : T.length * 8 < cfg.allocLimit) (p : Lbl) (vars : List Lbl) (fuel : Nat) :
    RVE cfg T (.pointer p vars) (fuel + 1) := by
  intro self t tail pos R F sup' _ hp hw hR _
  simp only [WFValue] at hw
  obtain ⟨hm, hn32, hal⟩ := hw
  have hn := nullIdx_lt
  simp only [valCalls, hm, ↓reduceIte] at hp
  have hp2 : (addUnique (addUnique t self).1 p).1 <+: T := (encItems_prefix _ _).trans hp
  have hp1 : (addUnique t self).1 <+: T := (addUnique_prefix _ p).trans hp2
  obtain ⟨e1, e2, e3, e4⟩ := idx_bounds hp1
  obtain ⟨f1, f2, f3, f4⟩ := idx_bounds hp2
  simp only [valCalls, hm, ↓reduceIte, List.cons_append, List.nil_append, encItems, encItem, e1, f1, List.append_assoc,
    supplyOf, rawValue, regLabels, regLabelsItem, newFix, newFixItem, List.foldl_cons,
    List.foldl_nil, List.append_nil]
  rw [readValue, value_head_ok cfg self (idxIn T self) 12 _ pos R F _ e2 (by omega) (by omega) (by omega)]
  simp only [unle_le1 12 (by decide)]
  rw [readDataU_ok cfg .bool 1 _ _ _ _ 1 rfl]
  simp only [guardKind, Res.bind, Prim.width, unle_le1 1 (by decide), Nat.one_ne_zero, ↓reduceIte, Supply.next]
  have e5 := readData_ok cfg (Prim.pos).tag (Prim.tag_lt _) (le (Prim.pos).width (idxIn T p))
  simp only [encPrim, List.append_assoc] at e5 ⊢
  rw [e5 _ (some (zeros 4)) _ _ F 4 (by simp [Prim.width])]
  have hu : unle (le (Prim.pos).width (idxIn T p)) = idxIn T p := unle_le_of_lt (by simp [Prim.width]; omega)
  simp only [Res.bind, hu]
  rw [addAt_ok cfg (idxIn T p) p _ _ true _ F f2 (by simp; omega) (by simp; omega)]
  simp only [Res.bind]
  have e7 := readData_ok cfg (Prim.u32).tag (Prim.tag_lt _) (le (Prim.u32).width vars.length)
  simp only [List.append_assoc] at e7
  rw [e7 _ none _ _ F 4 (by simp [Prim.width])]
  have hu2 : unle (le (Prim.u32).width vars.length) = vars.length := unle_le_of_lt (by simpa [Prim.width] using hn32)
  have hna : ¬ (vars.length * 8 ≥ cfg.allocLimit) := by omega
  have hlg : lenGe ((encItems (addUnique (addUnique t self).1 p).1 (vars.map (.ptr false ·))).2 ++ tail) vars.length = true := by
    rw [lenGe_iff]; simp [ptrs_enc_length]; omega
  simp only [Res.bind, hu2, hna, hlg, Bool.not_true, Bool.or_self, Bool.false_eq_true, ↓reduceIte]
  rw [readPlainPtrs_honest hT cfg vars _ tail _ _ F hp (by simp [hR])]
  simp [Res.bind, setL, e4, f4, Prim.width, ptrs_regLabels, ptrs_enc_length]
  omega

end Morfuse.Archive
