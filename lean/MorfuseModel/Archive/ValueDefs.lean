import MorfuseModel.Archive.Value
import MorfuseModel.Archive.RoundTrip
import MorfuseModel.Archive.Honest
/-! Round trip of script values: the data-directed reader `readValue`, run on what `valCalls` wrote,
returns the value (archive indices in the pointer slots) and leaves the state the schema-directed reader of
the same calls would leave. -/
namespace Morfuse.Archive

theorem addUnique_of_mem {t : List Lbl} {o : Lbl} (h : o ∈ t) : (addUnique t o).1 = t := by
  unfold addUnique; simp [h]

mutual
/-- the table `valCalls` returns is the table the writer has after performing the calls -/
theorem valCalls_table : (v : Value) → (t : List Lbl) → (self : Lbl) →
    (encItems t (valCalls t self v).2).1 = (valCalls t self v).1
  | .none, t, self => by simp [valCalls, encItems, encItem]
  | .int _, t, self => by simp [valCalls, encItems, encItem]
  | .float _, t, self => by simp [valCalls, encItems, encItem]
  | .char _, t, self => by simp [valCalls, encItems, encItem]
  | .string _, t, self => by simp [valCalls, encItems, encItem]
  | .constString none, t, self => by simp [valCalls, encItems, encItem]
  | .constString (some _), t, self => by simp [valCalls, encItems, encItem]
  | .vector _, t, self => by simp [valCalls, encItems, encItem]
  | .link c safe o, t, self => by
    simp only [valCalls, encItems, encItem]
    split <;> simp_all
  | .pointer p vars, t, self => by
    simp only [valCalls]
    split
    · rename_i hm
      have : (addUnique (addUnique t self).1 p).1 = (addUnique t self).1 := addUnique_of_mem hm
      simp only [encItems, encItem]
      split <;> simp_all
    · simp only [List.cons_append, List.nil_append, encItems, encItem]
  | .array h rc tl th tli kvs, t, self => by
    simp only [valCalls]
    split
    · rename_i hm
      have : (addUnique (addUnique t self).1 h).1 = (addUnique t self).1 := addUnique_of_mem hm
      simp only [encItems, encItem]
      split <;> simp_all
    · have := elemCalls_table kvs (addUnique (addUnique t self).1 h).1
      simp only [List.cons_append, List.nil_append, encItems, encItem]
      exact this
  | .holderRef c h, t, self => by
    simp only [valCalls]
    split
    · rename_i hm
      have : (addUnique (addUnique t self).1 h).1 = (addUnique t self).1 := addUnique_of_mem hm
      simp only [encItems, encItem]
      split <;> simp_all
    · simp [encItems, encItem]
  | .constArray h rc elems, t, self => by
    simp only [valCalls]
    split
    · rename_i hm
      have : (addUnique (addUnique t self).1 h).1 = (addUnique t self).1 := addUnique_of_mem hm
      simp only [encItems, encItem]
      split <;> simp_all
    · have := elemCalls_table elems (addUnique (addUnique t self).1 h).1
      simp only [List.cons_append, List.nil_append, encItems, encItem]
      exact this
theorem elemCalls_table : (es : List (Lbl × Value)) → (t : List Lbl) →
    (encItems t (elemCalls t es).2).1 = (elemCalls t es).1
  | [], t => by simp [elemCalls, encItems]
  | (s, v) :: es, t => by
    simp only [elemCalls]
    rw [encItems_append]
    simp only [valCalls_table v t s]
    exact elemCalls_table es _
end

end Morfuse.Archive

namespace Morfuse.Archive

theorem position_head_len (self : Lbl) (rest : List Item) (t' : List Lbl) :
    8 ≤ (encItems t' (Item.position self :: rest)).2.length := by
  simp [encItems, encItem, Prim.width]

/-- every `ArchiveInternal` starts with the position record of the variable: at least 8 bytes -/
theorem valCalls_enc_pos : (v : Value) → (t : List Lbl) → (self : Lbl) →
    8 ≤ (encItems t (valCalls t self v).2).2.length
  | .none, _, _ => by simp only [valCalls]; exact position_head_len _ _ _
  | .int _, _, _ => by simp only [valCalls]; exact position_head_len _ _ _
  | .float _, _, _ => by simp only [valCalls]; exact position_head_len _ _ _
  | .char _, _, _ => by simp only [valCalls]; exact position_head_len _ _ _
  | .string _, _, _ => by simp only [valCalls]; exact position_head_len _ _ _
  | .constString none, _, _ => by simp only [valCalls]; exact position_head_len _ _ _
  | .constString (some _), _, _ => by simp only [valCalls]; exact position_head_len _ _ _
  | .vector _, _, _ => by simp only [valCalls]; exact position_head_len _ _ _
  | .link _ _ _, _, _ => by simp only [valCalls]; exact position_head_len _ _ _
  | .holderRef _ _, _, _ => by simp only [valCalls]; split <;> exact position_head_len _ _ _
  | .pointer _ _, _, _ => by simp only [valCalls]; split <;> exact position_head_len _ _ _
  | .array _ _ _ _ _ _, _, _ => by simp only [valCalls]; split <;> exact position_head_len _ _ _
  | .constArray _ _ _, _, _ => by simp only [valCalls]; split <;> exact position_head_len _ _ _

theorem elemCalls_enc_len : (es : List (Lbl × Value)) → (t : List Lbl) →
    es.length ≤ (encItems t (elemCalls t es).2).2.length
  | [], _ => by simp
  | (s, v) :: es, t => by
    have h1 := valCalls_enc_pos v t s
    have h2 := elemCalls_enc_len es (valCalls t s v).1
    simp only [elemCalls, encItems_append, valCalls_table, List.length_append, List.length_cons]
    omega

mutual
/-- a value as the reading calls return it before `Close`: pointer slots hold archive indices -/
def rawValue (T : List Lbl) : Value → Value
  | .link c s o => .link c s (if o = 0 then 0 else idxIn T o)
  | .holderRef c h => .holderRef c (if h = 0 then 0 else idxIn T h)
  | .constArray h rc es => .constArray h rc (rawElems T es)
  | .array h rc tl th tli kvs => .array h rc tl th tli (rawElems T kvs)
  | .pointer p vars => .pointer p (vars.map fun o => if o = 0 then 0 else idxIn T o)
  | .none => .none
  | .int v => .int v
  | .float v => .float v
  | .char v => .char v
  | .string bs => .string bs
  | .constString s => .constString s
  | .vector bs => .vector bs
def rawElems (T : List Lbl) : List (Lbl × Value) → List (Lbl × Value)
  | [] => []
  | (l, v) :: es => (l, rawValue T v) :: rawElems T es
end

mutual
def depth : Value → Nat
  | .constArray _ _ es => 1 + depthE es
  | .array _ _ _ _ _ kvs => 1 + depthE kvs
  | _ => 0
def depthE : List (Lbl × Value) → Nat
  | [] => 0
  | (_, v) :: es => max (depth v) (depthE es)
end

/-- a flattened entry list: an even number of variables, every key of a kind `Hash<ScriptVariable>` accepts -/
def pairsOk : List (Lbl × Value) → Bool
  | [] => true
  | [_] => false
  | (_, k) :: _ :: es => k.hashable && pairsOk es

mutual
/-- hypotheses of the value round trip (`t`: the writer's object table when the value is archived) -/
def WFValue (cfg : Cfg) (t : List Lbl) (self : Lbl) : Value → Prop
  | .int v => v < 2 ^ 64
  | .float v => v < 2 ^ 32
  | .char v => v < 256
  | .string bs => strAlloc bs.length < cfg.allocLimit ∧ (cfg.valueStrFresh = true ∨ bs ≠ [])
  | .constString (some bs) => strAlloc bs.length < cfg.allocLimit
  | .vector bs => bs.length = 12
  | .link c s _ => (c = 6 ∧ s = true) ∨ (c = 7 ∧ s = false) ∨ (c = 10 ∧ s = false) ∨ (c = 11 ∧ s = true)
  | .holderRef c h => (c = 8 ∨ c = 9 ∨ c = 12) ∧ h ≠ 0 ∧ h ∈ (addUnique t self).1
  | .pointer p vars => p ∉ (addUnique t self).1 ∧ vars.length < 2 ^ 32 ∧ vars.length * 8 < cfg.allocLimit
  | .array h rc tl th tli kvs =>
    h ∉ (addUnique t self).1 ∧ rc < 2 ^ 32 ∧ tl ≠ 0 ∧ tl < 2 ^ 32 ∧ th < 2 ^ 32 ∧ tli < 2 ^ 16 ∧ kvs.length / 2 < 2 ^ 32 ∧
      tl * 8 < cfg.allocLimit ∧ pairsOk kvs = true ∧
      -- `count` and `tableLength` are bounded by what the stream still holds (a sparser table is loaded into a
      -- smaller one: `tableLength` then does not round-trip)
      (let L := (encItems (addUnique (addUnique t self).1 h).1 (elemCalls (addUnique (addUnique t self).1 h).1 kvs).2).2.length
       kvs.length / 2 ≤ 6 + L ∧ tl ≤ 6 + L) ∧
      WFElems cfg (addUnique (addUnique t self).1 h).1 kvs
  | .constArray h rc es =>
    h ∉ (addUnique t self).1 ∧ rc < 2 ^ 32 ∧ es.length < 2 ^ 32 ∧ (es.length + 1) * svSize < cfg.allocLimit ∧
      WFElems cfg (addUnique (addUnique t self).1 h).1 es
  | _ => True
def WFElems (cfg : Cfg) (t : List Lbl) : List (Lbl × Value) → Prop
  | [] => True
  | (s, v) :: es => WFValue cfg t s v ∧ WFElems cfg (valCalls t s v).1 es
end

/-- position of the variable itself, then the kind byte: what every `ArchiveInternal` starts with -/
theorem value_head_ok {α : Type} (cfg : Cfg) (self : Lbl) (i c : Nat) (rest : Bytes) (pos : Nat) (R : List Lbl)
    (F : List Nat) (k : Bytes → RS → Res α) (h1 : 1 ≤ i) (h2 : i ≤ R.length) (ha : R.length * 8 < cfg.allocLimit)
    (hi : i < 2 ^ 32) :
    ((readData cfg (Prim.pos).tag 4 (some (zeros 4)) ⟨encPrim .pos i ++ (encPrim .byte c ++ rest), pos, true, R, F⟩).bind
      fun pb s => (addAt cfg (unle pb) self s).bind fun _ s => (readData cfg (Prim.byte).tag 1 none s).bind k) =
    k (le 1 c) ⟨rest, pos + 8 + 5, true, R.set (i - 1) self, F⟩ := by
  simp only [encPrim, List.append_assoc]
  have e1 := readData_ok cfg (Prim.pos).tag (Prim.tag_lt _) (le (Prim.pos).width i)
    (tagB (Prim.byte).tag ++ (le (Prim.byte).width c ++ rest)) (some (zeros 4)) pos R F 4 (by simp [Prim.width])
  simp only [List.append_assoc] at e1
  rw [e1]
  have hu : unle (le (Prim.pos).width i) = i := unle_le_of_lt (by simpa [Prim.width] using hi)
  simp only [Res.bind, hu]
  rw [addAt_ok cfg i self _ _ true R F h1 h2 ha]
  simp only [Res.bind]
  have e2 := readData_ok cfg (Prim.byte).tag (Prim.tag_lt _) (le (Prim.byte).width c) rest none (pos + 4 + 4)
    (R.set (i - 1) self) F 1 (by simp [Prim.width])
  simp only [List.append_assoc] at e2
  rw [e2]
  simp [Prim.width, Nat.add_assoc]

end Morfuse.Archive

namespace Morfuse.Archive

theorem unle_le1 (c : Nat) (h : c < 256) : unle (le 1 c) = c := unle_le_of_lt (by simpa using h)

theorem readDataU_ok (cfg : Cfg) (p : Prim) (v : Nat) (tail : Bytes) (pos : Nat) (R : List Lbl) (F : List Nat)
    (w : Nat) (hw : p.width = w) :
    readData cfg p.tag w none ⟨encPrim p v ++ tail, pos, true, R, F⟩ =
      .ok (le w v) ⟨tail, pos + 4 + w, true, R, F⟩ := by
  subst hw
  simp only [encPrim]
  exact readData_ok cfg p.tag (Prim.tag_lt _) (le p.width v) tail none pos R F p.width (le_length _ _)

theorem readPtr_null' (cfg : Cfg) (safe : Bool) (tail : Bytes) (pos : Nat) (R : List Lbl) (F : List Nat) :
    readPtr cfg safe ⟨tagB (ptrTag safe) ++ (le 4 nullIdx ++ tail), pos, true, R, F⟩ =
      .ok 0 ⟨tail, pos + 8, true, R, F⟩ := by
  rw [← List.append_assoc]; exact readPtr_null cfg safe tail pos R F

theorem readPtr_idx' (cfg : Cfg) (safe : Bool) (i : Nat) (tail : Bytes) (pos : Nat) (R : List Lbl) (F : List Nat)
    (h1 : 1 ≤ i) (h2 : i ≤ R.length) (h3 : R.length < nullIdx) :
    readPtr cfg safe ⟨tagB (ptrTag safe) ++ (le 4 i ++ tail), pos, true, R, F⟩ =
      .ok i ⟨tail, pos + 8, true, R, i :: F⟩ := by
  rw [← List.append_assoc]; exact readPtr_idx cfg safe i tail pos R F h1 h2 h3

theorem readPlainPtrs_honest {T : List Lbl} (hT : T.length < nullIdx) (cfg : Cfg) : (ls : List Lbl) →
    Honest T (readPlainPtrs cfg ls.length) (ls.map (.ptr false ·)) (ls.map fun o => if o = 0 then 0 else idxIn T o)
  | [] => by simpa [readPlainPtrs] using Honest.pure (T := T) ([] : List Nat)
  | o :: ls => by
    have h3 : Honest T (fun s => (readPlainPtrs cfg ls.length s).bind fun is s =>
        Res.ok ((if o = 0 then 0 else idxIn T o) :: is) s) (ls.map (.ptr false ·) ++ [])
        ((if o = 0 then 0 else idxIn T o) :: ls.map fun o => if o = 0 then 0 else idxIn T o) :=
      Honest.bind (readPlainPtrs_honest hT cfg ls) (Honest.pure _)
    have h := Honest.bind (T := T) (Honest.ptr hT cfg false o)
      (r2 := fun i s => (readPlainPtrs cfg ls.length s).bind fun is s => Res.ok (i :: is) s) h3
    simpa [readPlainPtrs] using h

theorem rawValue_hashable (T : List Lbl) (v : Value) : (rawValue T v).hashable = v.hashable := by
  cases v <;> simp [rawValue, Value.hashable]

/-- the statement of the value round trip for one value and one amount of fuel -/
def RVE (cfg : Cfg) (T : List Lbl) (v : Value) (fuel : Nat) : Prop :=
  ∀ (self : Lbl) (t : List Lbl) (tail : Bytes) (pos : Nat) (R : List Lbl) (F : List Nat) (sup' : Supply),
    depth v < fuel → (valCalls t self v).1 <+: T → WFValue cfg t self v →
    R.length = T.length → (encItems t (valCalls t self v).2).2.length < 2 ^ 63 →
    readValue cfg fuel self (supplyOf v ++ sup') ⟨(encItems t (valCalls t self v).2).2 ++ tail, pos, true, R, F⟩ =
      .ok (rawValue T v, sup') ⟨tail, pos + (encItems t (valCalls t self v).2).2.length, true,
        (regLabels (valCalls t self v).2).foldl (setL T) R, newFix T (valCalls t self v).2 ++ F⟩

end Morfuse.Archive
