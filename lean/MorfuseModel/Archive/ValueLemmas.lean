import MorfuseModel.Archive.ValueArrays
/-! Round trip of script values: the data-directed reader `readValue`, run on what `valCalls` wrote,
returns the value (archive indices in the pointer slots) and leaves the state the schema-directed reader of
the same calls would leave.  (`ValueDefs`: definitions and hypotheses; `ValueCases`: the kinds without nested values.) -/
namespace Morfuse.Archive

mutual
theorem readValue_enc (cfg : Cfg) (T : List Lbl) (hT : T.length < nullIdx) (hA : T.length * 8 < cfg.allocLimit) :
    (v : Value) → (fuel : Nat) → (self : Lbl) → (t : List Lbl) → (tail : Bytes) → (pos : Nat) → (R : List Lbl) →
    (F : List Nat) → (sup' : Supply) → depth v < fuel → (valCalls t self v).1 <+: T → WFValue cfg t self v →
    R.length = T.length → (encItems t (valCalls t self v).2).2.length < 2 ^ 63 →
    readValue cfg fuel self (supplyOf v ++ sup') ⟨(encItems t (valCalls t self v).2).2 ++ tail, pos, true, R, F⟩ =
      .ok (rawValue T v, sup') ⟨tail, pos + (encItems t (valCalls t self v).2).2.length, true,
        (regLabels (valCalls t self v).2).foldl (setL T) R, newFix T (valCalls t self v).2 ++ F⟩
  | .none, 0, _, _, _, _, _, _, _, hd, _, _, _, _ => by simp at hd
  | .int _, 0, _, _, _, _, _, _, _, hd, _, _, _, _ => by simp at hd
  | .float _, 0, _, _, _, _, _, _, _, hd, _, _, _, _ => by simp at hd
  | .char _, 0, _, _, _, _, _, _, _, hd, _, _, _, _ => by simp at hd
  | .string _, 0, _, _, _, _, _, _, _, hd, _, _, _, _ => by simp at hd
  | .constString _, 0, _, _, _, _, _, _, _, hd, _, _, _, _ => by simp at hd
  | .vector _, 0, _, _, _, _, _, _, _, hd, _, _, _, _ => by simp at hd
  | .link _ _ _, 0, _, _, _, _, _, _, _, hd, _, _, _, _ => by simp at hd
  | .holderRef _ _, 0, _, _, _, _, _, _, _, hd, _, _, _, _ => by simp at hd
  | .array _ _ _ _ _ _, 0, _, _, _, _, _, _, _, hd, _, _, _, _ => by simp at hd
  | .pointer _ _, 0, _, _, _, _, _, _, _, hd, _, _, _, _ => by simp at hd
  | .constArray _ _ _, 0, _, _, _, _, _, _, _, hd, _, _, _, _ => by simp at hd
  | .none, fuel + 1, self, t, tail, pos, R, F, sup', hd, hp, hw, hR, hl => rve_case1 cfg T hT hA  fuel self t tail pos R F sup' hd hp hw hR hl
  | .int v, fuel + 1, self, t, tail, pos, R, F, sup', hd, hp, hw, hR, hl => rve_case2 cfg T hT hA v fuel self t tail pos R F sup' hd hp hw hR hl
  | .float v, fuel + 1, self, t, tail, pos, R, F, sup', hd, hp, hw, hR, hl => rve_case3 cfg T hT hA v fuel self t tail pos R F sup' hd hp hw hR hl
  | .char v, fuel + 1, self, t, tail, pos, R, F, sup', hd, hp, hw, hR, hl => rve_case4 cfg T hT hA v fuel self t tail pos R F sup' hd hp hw hR hl
  | .string bs, fuel + 1, self, t, tail, pos, R, F, sup', hd, hp, hw, hR, hl => rve_case5 cfg T hT hA bs fuel self t tail pos R F sup' hd hp hw hR hl
  | .constString none, fuel + 1, self, t, tail, pos, R, F, sup', hd, hp, hw, hR, hl => rve_case6 cfg T hT hA  fuel self t tail pos R F sup' hd hp hw hR hl
  | .constString (some bs), fuel + 1, self, t, tail, pos, R, F, sup', hd, hp, hw, hR, hl => rve_case7 cfg T hT hA bs fuel self t tail pos R F sup' hd hp hw hR hl
  | .vector bs, fuel + 1, self, t, tail, pos, R, F, sup', hd, hp, hw, hR, hl => rve_case8 cfg T hT hA bs fuel self t tail pos R F sup' hd hp hw hR hl
  | .link c safe o, fuel + 1, self, t, tail, pos, R, F, sup', hd, hp, hw, hR, hl => rve_case9 cfg T hT hA c safe o fuel self t tail pos R F sup' hd hp hw hR hl
  | .holderRef c h, fuel + 1, self, t, tail, pos, R, F, sup', hd, hp, hw, hR, hl => rve_case10 cfg T hT hA c h fuel self t tail pos R F sup' hd hp hw hR hl
  | .constArray h rc es, fuel + 1, self, t, tail, pos, R, F, sup', hd, hp, hw, hR, hl =>
    rve_constArray cfg T hT hA h rc es fuel (readElems_enc cfg T hT hA es fuel) self t tail pos R F sup' hd hp hw hR hl
  | .pointer p vars, fuel + 1, self, t, tail, pos, R, F, sup', hd, hp, hw, hR, hl => rve_case11 cfg T hT hA p vars fuel self t tail pos R F sup' hd hp hw hR hl
  | .array h rc tl th tli kvs, fuel + 1, self, t, tail, pos, R, F, sup', hd, hp, hw, hR, hl =>
    rve_array cfg T hT hA h rc tl th tli kvs fuel (readPairs_enc cfg T hT hA kvs fuel) self t tail pos R F sup' hd hp hw hR hl
theorem readPairs_enc (cfg : Cfg) (T : List Lbl) (hT : T.length < nullIdx) (hA : T.length * 8 < cfg.allocLimit) :
    (es : List (Lbl × Value)) → (fuel : Nat) → (t : List Lbl) → (tail : Bytes) → (pos : Nat) → (R : List Lbl) →
    (F : List Nat) → (sup' : Supply) → pairsOk es = true → depthE es < fuel → (encItems t (elemCalls t es).2).1 <+: T →
    WFElems cfg t es → R.length = T.length → (encItems t (elemCalls t es).2).2.length < 2 ^ 63 →
    readPairsWith (readValue cfg fuel) (es.length / 2) (supplyOfElems es ++ sup') ⟨(encItems t (elemCalls t es).2).2 ++ tail, pos, true, R, F⟩ =
      .ok (rawElems T es, sup') ⟨tail, pos + (encItems t (elemCalls t es).2).2.length, true,
        (regLabels (elemCalls t es).2).foldl (setL T) R, newFix T (elemCalls t es).2 ++ F⟩
  | [], fuel, t, tail, pos, R, F, sup', _, _, _, _, _, _ => by
    simp [readPairsWith, elemCalls, encItems, supplyOfElems, rawElems, regLabels, newFix]
  | [_], _, _, _, _, _, _, _, hpo, _, _, _, _, _ => by simp [pairsOk] at hpo
  | (l, k) :: (l2, v) :: es, fuel, t, tail, pos, R, F, sup', hpo, hd, hp, hw, hR, hl => by
    simp only [WFElems] at hw
    simp only [depthE] at hd
    simp only [pairsOk, Bool.and_eq_true] at hpo
    simp only [elemCalls, encItems_append, valCalls_table] at hp hl
    have hp2 : (valCalls (valCalls t l k).1 l2 v).1 <+: T := by
      have := encItems_prefix (elemCalls (valCalls (valCalls t l k).1 l2 v).1 es).2 (valCalls (valCalls t l k).1 l2 v).1
      exact this.trans hp
    have hp1 : (valCalls t l k).1 <+: T := by
      have := encItems_prefix (valCalls (valCalls t l k).1 l2 v).2 (valCalls t l k).1
      rw [valCalls_table] at this
      exact this.trans hp2
    simp only [List.length_append] at hl
    have hlen : ((l, k) :: (l2, v) :: es).length / 2 = es.length / 2 + 1 := by simp; omega
    simp only [elemCalls, encItems_append, valCalls_table, supplyOfElems, List.cons_append,
      List.append_assoc, rawElems, regLabels_append, newFix_append, List.foldl_append]
    rw [hlen, readPairsWith]
    simp only [Supply.next]
    rw [readValue_enc cfg T hT hA k fuel l t _ pos R F (l2 :: (supplyOf v ++ (supplyOfElems es ++ sup'))) (by omega) hp1 hw.1 hR
      (by omega)]
    simp only [Res.bind, Supply.next]
    rw [readValue_enc cfg T hT hA v fuel l2 (valCalls t l k).1 _ _ _ _ (supplyOfElems es ++ sup') (by omega) hp2 hw.2.1
      (by simp [hR]) (by omega)]
    simp only [Res.bind, rawValue_hashable, hpo.1, Bool.not_true, Bool.false_eq_true, ↓reduceIte]
    rw [readPairs_enc cfg T hT hA es fuel (valCalls (valCalls t l k).1 l2 v).1 tail _ _ _ sup' hpo.2 (by omega) hp hw.2.2
      (by simp [hR]) (by omega)]
    simp [Res.bind, Nat.add_assoc]
theorem readElems_enc (cfg : Cfg) (T : List Lbl) (hT : T.length < nullIdx) (hA : T.length * 8 < cfg.allocLimit) :
    (es : List (Lbl × Value)) → (fuel : Nat) → (t : List Lbl) → (tail : Bytes) → (pos : Nat) → (R : List Lbl) →
    (F : List Nat) → (sup' : Supply) → depthE es < fuel → (encItems t (elemCalls t es).2).1 <+: T → WFElems cfg t es →
    R.length = T.length → (encItems t (elemCalls t es).2).2.length < 2 ^ 63 →
    readElemsWith (readValue cfg fuel) es.length (supplyOfElems es ++ sup') ⟨(encItems t (elemCalls t es).2).2 ++ tail, pos, true, R, F⟩ =
      .ok (rawElems T es, sup') ⟨tail, pos + (encItems t (elemCalls t es).2).2.length, true,
        (regLabels (elemCalls t es).2).foldl (setL T) R, newFix T (elemCalls t es).2 ++ F⟩
  | [], fuel, t, tail, pos, R, F, sup', _, _, _, _, _ => by
    simp [readElemsWith, elemCalls, encItems, supplyOfElems, rawElems, regLabels, newFix]
  | (l, v) :: es, fuel, t, tail, pos, R, F, sup', hd, hp, hw, hR, hl => by
    simp only [WFElems] at hw
    simp only [depthE] at hd
    simp only [elemCalls, encItems_append, valCalls_table] at hp hl
    have hp1 : (valCalls t l v).1 <+: T := by
      have := encItems_prefix (elemCalls (valCalls t l v).1 es).2 (valCalls t l v).1
      exact this.trans hp
    simp only [List.length_append] at hl
    simp only [elemCalls, encItems_append, valCalls_table, List.length_cons, supplyOfElems, List.cons_append,
      List.append_assoc, rawElems, regLabels_append, newFix_append, List.foldl_append]
    rw [readElemsWith]
    simp only [Supply.next]
    rw [readValue_enc cfg T hT hA v fuel l t _ pos R F (supplyOfElems es ++ sup') (by omega) hp1 hw.1 hR (by omega)]
    simp only [Res.bind]
    rw [readElems_enc cfg T hT hA es fuel (valCalls t l v).1 tail _ _ _ sup' (by omega) hp hw.2 (by simp [hR]) (by omega)]
    simp [Res.bind, Nat.add_assoc]
end

end Morfuse.Archive
