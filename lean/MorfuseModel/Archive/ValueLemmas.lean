import MorfuseModel.Archive.Value
import MorfuseModel.Archive.RoundTrip
import MorfuseModel.Archive.Honest
/-! Round trip of script values: the data-directed reader `readValue`, run on what `valCalls` wrote,
returns the value (archive indices in the pointer slots) and leaves the state the schema-directed reader of
the same calls would leave. -/
namespace Morfuse.Archive

theorem addUnique_of_mem {t : List Lbl} {o : Lbl} (h : o ∈ t) : (addUnique t o).1 = t := by
  unfold addUnique; simp [h]

mutual
/-- the table `valCalls` returns is the table the writer has after performing the calls -/
theorem valCalls_table : (v : Value) → (t : List Lbl) → (self : Lbl) →
    (encItems t (valCalls t self v).2).1 = (valCalls t self v).1
  | .none, t, self => by simp [valCalls, encItems, encItem]
  | .int _, t, self => by simp [valCalls, encItems, encItem]
  | .float _, t, self => by simp [valCalls, encItems, encItem]
  | .char _, t, self => by simp [valCalls, encItems, encItem]
  | .string _, t, self => by simp [valCalls, encItems, encItem]
  | .constString none, t, self => by simp [valCalls, encItems, encItem]
  | .constString (some _), t, self => by simp [valCalls, encItems, encItem]
  | .vector _, t, self => by simp [valCalls, encItems, encItem]
  | .link c safe o, t, self => by
    simp only [valCalls, encItems, encItem]
    split <;> simp_all
  | .pointer p vars, t, self => by
    simp only [valCalls]
    split
    · rename_i hm
      have : (addUnique (addUnique t self).1 p).1 = (addUnique t self).1 := addUnique_of_mem hm
      simp only [encItems, encItem]
      split <;> simp_all
    · simp only [List.cons_append, List.nil_append, encItems, encItem]
  | .array h rc tl th tli kvs, t, self => by
    simp only [valCalls]
    split
    · rename_i hm
      have : (addUnique (addUnique t self).1 h).1 = (addUnique t self).1 := addUnique_of_mem hm
      simp only [encItems, encItem]
      split <;> simp_all
    · have := elemCalls_table kvs (addUnique (addUnique t self).1 h).1
      simp only [List.cons_append, List.nil_append, encItems, encItem]
      exact this
  | .holderRef c h, t, self => by
    simp only [valCalls]
    split
    · rename_i hm
      have : (addUnique (addUnique t self).1 h).1 = (addUnique t self).1 := addUnique_of_mem hm
      simp only [encItems, encItem]
      split <;> simp_all
    · simp [encItems, encItem]
  | .constArray h rc elems, t, self => by
    simp only [valCalls]
    split
    · rename_i hm
      have : (addUnique (addUnique t self).1 h).1 = (addUnique t self).1 := addUnique_of_mem hm
      simp only [encItems, encItem]
      split <;> simp_all
    · have := elemCalls_table elems (addUnique (addUnique t self).1 h).1
      simp only [List.cons_append, List.nil_append, encItems, encItem]
      exact this
theorem elemCalls_table : (es : List (Lbl × Value)) → (t : List Lbl) →
    (encItems t (elemCalls t es).2).1 = (elemCalls t es).1
  | [], t => by simp [elemCalls, encItems]
  | (s, v) :: es, t => by
    simp only [elemCalls]
    rw [encItems_append]
    simp only [valCalls_table v t s]
    exact elemCalls_table es _
end

end Morfuse.Archive

namespace Morfuse.Archive

mutual
/-- a value as the reading calls return it before `Close`: pointer slots hold archive indices -/
def rawValue (T : List Lbl) : Value → Value
  | .link c s o => .link c s (if o = 0 then 0 else idxIn T o)
  | .holderRef c h => .holderRef c (if h = 0 then 0 else idxIn T h)
  | .constArray h rc es => .constArray h rc (rawElems T es)
  | .array h rc tl th tli kvs => .array h rc tl th tli (rawElems T kvs)
  | .pointer p vars => .pointer p (vars.map fun o => if o = 0 then 0 else idxIn T o)
  | .none => .none
  | .int v => .int v
  | .float v => .float v
  | .char v => .char v
  | .string bs => .string bs
  | .constString s => .constString s
  | .vector bs => .vector bs
def rawElems (T : List Lbl) : List (Lbl × Value) → List (Lbl × Value)
  | [] => []
  | (l, v) :: es => (l, rawValue T v) :: rawElems T es
end

mutual
def depth : Value → Nat
  | .constArray _ _ es => 1 + depthE es
  | .array _ _ _ _ _ kvs => 1 + depthE kvs
  | _ => 0
def depthE : List (Lbl × Value) → Nat
  | [] => 0
  | (_, v) :: es => max (depth v) (depthE es)
end

/-- a flattened entry list: an even number of variables, every key of a kind `Hash<ScriptVariable>` accepts -/
def pairsOk : List (Lbl × Value) → Bool
  | [] => true
  | [_] => false
  | (_, k) :: _ :: es => k.hashable && pairsOk es

mutual
/-- hypotheses of the value round trip (`t`: the writer's object table when the value is archived) -/
def WFValue (cfg : Cfg) (t : List Lbl) (self : Lbl) : Value → Prop
  | .int v => v < 2 ^ 64
  | .float v => v < 2 ^ 32
  | .char v => v < 256
  | .string bs => strAlloc bs.length < cfg.allocLimit ∧ (cfg.valueStrFresh = true ∨ bs ≠ [])
  | .constString (some bs) => strAlloc bs.length < cfg.allocLimit
  | .vector bs => bs.length = 12
  | .link c s _ => (c = 6 ∧ s = true) ∨ (c = 7 ∧ s = false) ∨ (c = 10 ∧ s = false) ∨ (c = 11 ∧ s = true)
  | .holderRef c h => (c = 8 ∨ c = 9 ∨ c = 12) ∧ h ≠ 0 ∧ h ∈ (addUnique t self).1
  | .pointer p vars => p ∉ (addUnique t self).1 ∧ vars.length < 2 ^ 32 ∧ vars.length * 8 < cfg.allocLimit
  | .array h rc tl th tli kvs =>
    h ∉ (addUnique t self).1 ∧ rc < 2 ^ 32 ∧ tl ≠ 0 ∧ tl < 2 ^ 32 ∧ th < 2 ^ 32 ∧ tli < 2 ^ 16 ∧ kvs.length / 2 < 2 ^ 32 ∧
      tl * 8 < cfg.allocLimit ∧ pairsOk kvs = true ∧
      -- `count` and `tableLength` are bounded by what the stream still holds (a sparser table is loaded into a
      -- smaller one: `tableLength` then does not round-trip)
      (let L := (encItems (addUnique (addUnique t self).1 h).1 (elemCalls (addUnique (addUnique t self).1 h).1 kvs).2).2.length
       kvs.length / 2 ≤ 6 + L ∧ tl ≤ 6 + L) ∧
      WFElems cfg (addUnique (addUnique t self).1 h).1 kvs
  | .constArray h rc es =>
    h ∉ (addUnique t self).1 ∧ rc < 2 ^ 32 ∧ es.length < 2 ^ 32 ∧ (es.length + 1) * svSize < cfg.allocLimit ∧
      WFElems cfg (addUnique (addUnique t self).1 h).1 es
  | _ => True
def WFElems (cfg : Cfg) (t : List Lbl) : List (Lbl × Value) → Prop
  | [] => True
  | (s, v) :: es => WFValue cfg t s v ∧ WFElems cfg (valCalls t s v).1 es
end

/-- position of the variable itself, then the kind byte: what every `ArchiveInternal` starts with -/
theorem value_head_ok {α : Type} (cfg : Cfg) (self : Lbl) (i c : Nat) (rest : Bytes) (pos : Nat) (R : List Lbl)
    (F : List Nat) (k : Bytes → RS → Res α) (h1 : 1 ≤ i) (h2 : i ≤ R.length) (ha : R.length * 8 < cfg.allocLimit)
    (hi : i < 2 ^ 32) :
    ((readData cfg (Prim.pos).tag 4 (some (zeros 4)) ⟨encPrim .pos i ++ (encPrim .byte c ++ rest), pos, true, R, F⟩).bind
      fun pb s => (addAt cfg (unle pb) self s).bind fun _ s => (readData cfg (Prim.byte).tag 1 none s).bind k) =
    k (le 1 c) ⟨rest, pos + 8 + 5, true, R.set (i - 1) self, F⟩ := by
  simp only [encPrim, List.append_assoc]
  have e1 := readData_ok cfg (Prim.pos).tag (Prim.tag_lt _) (le (Prim.pos).width i)
    (tagB (Prim.byte).tag ++ (le (Prim.byte).width c ++ rest)) (some (zeros 4)) pos R F 4 (by simp [Prim.width])
  simp only [List.append_assoc] at e1
  rw [e1]
  have hu : unle (le (Prim.pos).width i) = i := unle_le_of_lt (by simpa [Prim.width] using hi)
  simp only [Res.bind, hu]
  rw [addAt_ok cfg i self _ _ true R F h1 h2 ha]
  simp only [Res.bind]
  have e2 := readData_ok cfg (Prim.byte).tag (Prim.tag_lt _) (le (Prim.byte).width c) rest none (pos + 4 + 4)
    (R.set (i - 1) self) F 1 (by simp [Prim.width])
  simp only [List.append_assoc] at e2
  rw [e2]
  simp [Prim.width, Nat.add_assoc]

end Morfuse.Archive

namespace Morfuse.Archive

theorem unle_le1 (c : Nat) (h : c < 256) : unle (le 1 c) = c := unle_le_of_lt (by simpa using h)

theorem readDataU_ok (cfg : Cfg) (p : Prim) (v : Nat) (tail : Bytes) (pos : Nat) (R : List Lbl) (F : List Nat)
    (w : Nat) (hw : p.width = w) :
    readData cfg p.tag w none ⟨encPrim p v ++ tail, pos, true, R, F⟩ =
      .ok (le w v) ⟨tail, pos + 4 + w, true, R, F⟩ := by
  subst hw
  simp only [encPrim]
  exact readData_ok cfg p.tag (Prim.tag_lt _) (le p.width v) tail none pos R F p.width (le_length _ _)

theorem readPtr_null' (cfg : Cfg) (safe : Bool) (tail : Bytes) (pos : Nat) (R : List Lbl) (F : List Nat) :
    readPtr cfg safe ⟨tagB (ptrTag safe) ++ (le 4 nullIdx ++ tail), pos, true, R, F⟩ =
      .ok 0 ⟨tail, pos + 8, true, R, F⟩ := by
  rw [← List.append_assoc]; exact readPtr_null cfg safe tail pos R F

theorem readPtr_idx' (cfg : Cfg) (safe : Bool) (i : Nat) (tail : Bytes) (pos : Nat) (R : List Lbl) (F : List Nat)
    (h1 : 1 ≤ i) (h2 : i ≤ R.length) (h3 : R.length < nullIdx) :
    readPtr cfg safe ⟨tagB (ptrTag safe) ++ (le 4 i ++ tail), pos, true, R, F⟩ =
      .ok i ⟨tail, pos + 8, true, R, i :: F⟩ := by
  rw [← List.append_assoc]; exact readPtr_idx cfg safe i tail pos R F h1 h2 h3

theorem readPlainPtrs_honest {T : List Lbl} (hT : T.length < nullIdx) (cfg : Cfg) : (ls : List Lbl) →
    Honest T (readPlainPtrs cfg ls.length) (ls.map (.ptr false ·)) (ls.map fun o => if o = 0 then 0 else idxIn T o)
  | [] => by simpa [readPlainPtrs] using Honest.pure (T := T) ([] : List Nat)
  | o :: ls => by
    have h3 : Honest T (fun s => (readPlainPtrs cfg ls.length s).bind fun is s =>
        Res.ok ((if o = 0 then 0 else idxIn T o) :: is) s) (ls.map (.ptr false ·) ++ [])
        ((if o = 0 then 0 else idxIn T o) :: ls.map fun o => if o = 0 then 0 else idxIn T o) :=
      Honest.bind (readPlainPtrs_honest hT cfg ls) (Honest.pure _)
    have h := Honest.bind (T := T) (Honest.ptr hT cfg false o)
      (r2 := fun i s => (readPlainPtrs cfg ls.length s).bind fun is s => Res.ok (i :: is) s) h3
    simpa [readPlainPtrs] using h

theorem rawValue_hashable (T : List Lbl) (v : Value) : (rawValue T v).hashable = v.hashable := by
  cases v <;> simp [rawValue, Value.hashable]

set_option maxHeartbeats 1600000 in
mutual
theorem readValue_enc (cfg : Cfg) (T : List Lbl) (hT : T.length < nullIdx) (hA : T.length * 8 < cfg.allocLimit) :
    (v : Value) → (fuel : Nat) → (self : Lbl) → (t : List Lbl) → (tail : Bytes) → (pos : Nat) → (R : List Lbl) →
    (F : List Nat) → (sup' : Supply) → depth v < fuel → (valCalls t self v).1 <+: T → WFValue cfg t self v →
    R.length = T.length → (encItems t (valCalls t self v).2).2.length < 2 ^ 63 →
    readValue cfg fuel self (supplyOf v ++ sup') ⟨(encItems t (valCalls t self v).2).2 ++ tail, pos, true, R, F⟩ =
      .ok (rawValue T v, sup') ⟨tail, pos + (encItems t (valCalls t self v).2).2.length, true,
        (regLabels (valCalls t self v).2).foldl (setL T) R, newFix T (valCalls t self v).2 ++ F⟩
  | .none, 0, _, _, _, _, _, _, _, hd, _, _, _, _ => by simp at hd
  | .int _, 0, _, _, _, _, _, _, _, hd, _, _, _, _ => by simp at hd
  | .float _, 0, _, _, _, _, _, _, _, hd, _, _, _, _ => by simp at hd
  | .char _, 0, _, _, _, _, _, _, _, hd, _, _, _, _ => by simp at hd
  | .string _, 0, _, _, _, _, _, _, _, hd, _, _, _, _ => by simp at hd
  | .constString _, 0, _, _, _, _, _, _, _, hd, _, _, _, _ => by simp at hd
  | .vector _, 0, _, _, _, _, _, _, _, hd, _, _, _, _ => by simp at hd
  | .link _ _ _, 0, _, _, _, _, _, _, _, hd, _, _, _, _ => by simp at hd
  | .holderRef _ _, 0, _, _, _, _, _, _, _, hd, _, _, _, _ => by simp at hd
  | .array _ _ _ _ _ _, 0, _, _, _, _, _, _, _, hd, _, _, _, _ => by simp at hd
  | .pointer _ _, 0, _, _, _, _, _, _, _, hd, _, _, _, _ => by simp at hd
  | .constArray _ _ _, 0, _, _, _, _, _, _, _, hd, _, _, _, _ => by simp at hd
  | .none, fuel + 1, self, t, tail, pos, R, F, sup', _, hp, _, hR, _ => by
    simp only [valCalls] at hp
    obtain ⟨e1, e2, e3, e4⟩ := idx_bounds hp
    have hn := nullIdx_lt
    simp only [valCalls, encItems, encItem, e1, List.append_assoc, List.append_nil, supplyOf, List.nil_append,
      rawValue, regLabels, regLabelsItem, newFix, newFixItem, List.foldl_cons, List.foldl_nil]
    rw [readValue, value_head_ok cfg self (idxIn T self) 0 _ pos R F _ e2 (by omega) (by omega) (by omega)]
    simp [unle_le1, setL, e4, Prim.width]
  | .int v, fuel + 1, self, t, tail, pos, R, F, sup', _, hp, hw, hR, _ => by
    simp only [WFValue] at hw
    simp only [valCalls] at hp
    obtain ⟨e1, e2, e3, e4⟩ := idx_bounds hp
    have hn := nullIdx_lt
    simp only [valCalls, encItems, encItem, e1, List.append_assoc, List.append_nil, supplyOf, List.nil_append,
      rawValue, regLabels, regLabelsItem, newFix, newFixItem, List.foldl_cons, List.foldl_nil]
    rw [readValue, value_head_ok cfg self (idxIn T self) 2 _ pos R F _ e2 (by omega) (by omega) (by omega)]
    simp only [unle_le1 2 (by decide)]
    rw [readPrim_ok cfg .i64 v (by simpa [Prim.width] using hw)]
    simp [Res.bind, setL, e4, Prim.width]
  | .float v, fuel + 1, self, t, tail, pos, R, F, sup', _, hp, hw, hR, _ => by
    simp only [WFValue] at hw
    simp only [valCalls] at hp
    obtain ⟨e1, e2, e3, e4⟩ := idx_bounds hp
    have hn := nullIdx_lt
    simp only [valCalls, encItems, encItem, e1, List.append_assoc, List.append_nil, supplyOf, List.nil_append,
      rawValue, regLabels, regLabelsItem, newFix, newFixItem, List.foldl_cons, List.foldl_nil]
    rw [readValue, value_head_ok cfg self (idxIn T self) 3 _ pos R F _ e2 (by omega) (by omega) (by omega)]
    simp only [unle_le1 3 (by decide)]
    rw [readPrim_ok cfg .f32 v (by simpa [Prim.width] using hw)]
    simp [Res.bind, setL, e4, Prim.width]
  | .char v, fuel + 1, self, t, tail, pos, R, F, sup', _, hp, hw, hR, _ => by
    simp only [WFValue] at hw
    simp only [valCalls] at hp
    obtain ⟨e1, e2, e3, e4⟩ := idx_bounds hp
    have hn := nullIdx_lt
    simp only [valCalls, encItems, encItem, e1, List.append_assoc, List.append_nil, supplyOf, List.nil_append,
      rawValue, regLabels, regLabelsItem, newFix, newFixItem, List.foldl_cons, List.foldl_nil]
    rw [readValue, value_head_ok cfg self (idxIn T self) 4 _ pos R F _ e2 (by omega) (by omega) (by omega)]
    simp only [unle_le1 4 (by decide)]
    rw [readPrim_ok cfg .chr v (by simpa [Prim.width] using hw)]
    simp [Res.bind, setL, e4, Prim.width]
  | .string bs, fuel + 1, self, t, tail, pos, R, F, sup', _, hp, hw, hR, hl => by
    simp only [WFValue] at hw
    simp only [valCalls] at hp
    obtain ⟨e1, e2, e3, e4⟩ := idx_bounds hp
    have hn := nullIdx_lt
    simp only [valCalls, encItems, encItem, List.append_nil, List.length_append] at hl
    have hl2 : bs.length < 2 ^ 64 := by rw [encStr_length] at hl; split at hl <;> omega
    simp only [valCalls, encItems, encItem, e1, List.append_assoc, List.append_nil, supplyOf, List.nil_append,
      rawValue, regLabels, regLabelsItem, newFix, newFixItem, List.foldl_cons, List.foldl_nil]
    rw [readValue, value_head_ok cfg self (idxIn T self) 1 _ pos R F _ e2 (by omega) (by omega) (by omega)]
    simp only [unle_le1 1 (by decide)]
    rw [readStr_ok cfg bs (strInit cfg.valueStrFresh) tail _ _ F hl2 hw.1 (by
      intro h0
      rcases hw.2 with hf | hne
      · simp [strInit, hf]
      · exact absurd (List.eq_nil_of_length_eq_zero h0) hne)]
    simp [Res.bind, setL, e4, Prim.width]
    omega
  | .constString none, fuel + 1, self, t, tail, pos, R, F, sup', _, hp, _, hR, _ => by
    simp only [valCalls] at hp
    obtain ⟨e1, e2, e3, e4⟩ := idx_bounds hp
    have hn := nullIdx_lt
    simp only [valCalls, encItems, encItem, e1, List.append_assoc, List.append_nil, supplyOf, List.nil_append,
      rawValue, regLabels, regLabelsItem, newFix, newFixItem, List.foldl_cons, List.foldl_nil]
    rw [readValue, value_head_ok cfg self (idxIn T self) 5 _ pos R F _ e2 (by omega) (by omega) (by omega)]
    simp only [unle_le1 5 (by decide)]
    rw [readDataU_ok cfg .byte 0 _ _ _ _ 1 rfl]
    simp [Res.bind, setL, e4, Prim.width, unle_le1]
  | .constString (some bs), fuel + 1, self, t, tail, pos, R, F, sup', _, hp, hw, hR, hl => by
    simp only [WFValue] at hw
    simp only [valCalls] at hp
    obtain ⟨e1, e2, e3, e4⟩ := idx_bounds hp
    have hn := nullIdx_lt
    simp only [valCalls, encItems, encItem, List.append_nil, List.length_append] at hl
    have hl2 : bs.length < 2 ^ 64 := by rw [encStr_length] at hl; split at hl <;> omega
    simp only [valCalls, encItems, encItem, e1, List.append_assoc, List.append_nil, supplyOf, List.nil_append,
      rawValue, regLabels, regLabelsItem, newFix, newFixItem, List.foldl_cons, List.foldl_nil]
    rw [readValue, value_head_ok cfg self (idxIn T self) 5 _ pos R F _ e2 (by omega) (by omega) (by omega)]
    simp only [unle_le1 5 (by decide)]
    rw [readDataU_ok cfg .byte 1 _ _ _ _ 1 rfl]
    simp only [Res.bind, Prim.width, unle_le1 1 (by decide), Nat.one_ne_zero, ↓reduceIte]
    rw [readStr_ok cfg bs [] tail _ _ F hl2 hw (fun _ => rfl)]
    simp [Res.bind, setL, e4, Prim.width]
    omega
  | .vector bs, fuel + 1, self, t, tail, pos, R, F, sup', _, hp, hw, hR, _ => by
    simp only [WFValue] at hw
    simp only [valCalls] at hp
    obtain ⟨e1, e2, e3, e4⟩ := idx_bounds hp
    have hn := nullIdx_lt
    simp only [valCalls, encItems, encItem, e1, List.append_assoc, List.append_nil, supplyOf, List.nil_append,
      rawValue, regLabels, regLabelsItem, newFix, newFixItem, List.foldl_cons, List.foldl_nil, encRaw]
    rw [readValue, value_head_ok cfg self (idxIn T self) 13 _ pos R F _ e2 (by omega) (by omega) (by omega)]
    simp only [unle_le1 13 (by decide)]
    have r1 := fun tl ps old => readData_ok cfg rawTag (tagOf_lt _) bs tl old ps (R.set (idxIn T self - 1) self) F 12 hw
    simp only [List.append_assoc] at r1
    rw [r1]
    simp only [Res.bind]
    rw [r1]
    simp only [Res.bind]
    rw [r1]
    simp [Res.bind, setL, e4, Prim.width, hw]
  | .link c safe o, fuel + 1, self, t, tail, pos, R, F, sup', _, hp, hw, hR, _ => by
    have hn := nullIdx_lt
    simp only [WFValue] at hw
    rcases hw with ⟨rfl, rfl⟩ | ⟨rfl, rfl⟩ | ⟨rfl, rfl⟩ | ⟨rfl, rfl⟩ <;>
    (by_cases ho : o = 0
     · subst ho
       simp only [valCalls, ↓reduceIte] at hp
       obtain ⟨e1, e2, e3, e4⟩ := idx_bounds hp
       simp only [valCalls, encItems, encItem, e1, List.append_assoc, List.append_nil, supplyOf, List.nil_append,
         rawValue, regLabels, regLabelsItem, newFix, newFixItem, List.foldl_cons, List.foldl_nil, ↓reduceIte]
       rw [readValue, value_head_ok cfg self (idxIn T self) _ _ pos R F _ e2 (by omega) (by omega) (by omega)]
       simp only [unle_le1 6 (by decide), unle_le1 7 (by decide), unle_le1 10 (by decide), unle_le1 11 (by decide)]
       rw [readPtr_null']
       simp [Res.bind, setL, e4, Prim.width]
     · simp only [valCalls, ho, ↓reduceIte] at hp
       have hp1 : (addUnique t self).1 <+: T := (addUnique_prefix _ o).trans hp
       obtain ⟨e1, e2, e3, e4⟩ := idx_bounds hp1
       obtain ⟨f1, f2, f3, _⟩ := idx_bounds hp
       simp only [valCalls, encItems, encItem, e1, f1, List.append_assoc, List.append_nil, supplyOf, List.nil_append,
         rawValue, regLabels, regLabelsItem, newFix, newFixItem, List.foldl_cons, List.foldl_nil, ho, ↓reduceIte]
       rw [readValue, value_head_ok cfg self (idxIn T self) _ _ pos R F _ e2 (by omega) (by omega) (by omega)]
       simp only [unle_le1 6 (by decide), unle_le1 7 (by decide), unle_le1 10 (by decide), unle_le1 11 (by decide)]
       rw [readPtr_idx' cfg _ (idxIn T o) tail _ _ F f2 (by simp; omega) (by simp; omega)]
       simp [Res.bind, setL, e4, Prim.width])
  | .holderRef c h, fuel + 1, self, t, tail, pos, R, F, sup', _, hp, hw, hR, _ => by
    simp only [WFValue] at hw
    obtain ⟨hc, h0, hm⟩ := hw
    have hn := nullIdx_lt
    simp only [valCalls, hm, ↓reduceIte] at hp
    obtain ⟨e1, e2, e3, e4⟩ := idx_bounds hp
    have hp2 : (addUnique (addUnique t self).1 h).1 <+: T := by rw [addUnique_of_mem hm]; exact hp
    obtain ⟨f1, f2, f3, _⟩ := idx_bounds hp2
    rcases hc with rfl | rfl | rfl <;>
    (simp only [valCalls, hm, encItems, encItem, e1, f1, List.append_assoc, List.append_nil, supplyOf, List.nil_append,
       rawValue, regLabels, regLabelsItem, newFix, newFixItem, List.foldl_cons, List.foldl_nil, h0, ↓reduceIte]
     rw [readValue, value_head_ok cfg self (idxIn T self) _ _ pos R F _ e2 (by omega) (by omega) (by omega)]
     simp only [unle_le1 8 (by decide), unle_le1 9 (by decide), unle_le1 12 (by decide)]
     rw [readDataU_ok cfg .bool 0 _ _ _ _ 1 rfl]
     simp only [guardKind, Res.bind, Prim.width, unle_le1 0 (by decide), ↓reduceIte]
     rw [readPtr_idx' cfg false (idxIn T h) tail _ _ F f2 (by simp; omega) (by simp; omega)]
     simp [Res.bind, setL, e4, Prim.width])
  | .constArray h rc es, fuel + 1, self, t, tail, pos, R, F, sup', hd, hp, hw, hR, hl => by
    simp only [WFValue] at hw
    obtain ⟨hm, hrc, hn32, hal, hwe⟩ := hw
    have hn := nullIdx_lt
    simp only [depth] at hd
    simp only [valCalls, hm, ↓reduceIte] at hp hl
    have hp2 : (addUnique (addUnique t self).1 h).1 <+: T := (elemCalls_table es _ ▸ encItems_prefix _ _).trans hp
    have hp1 : (addUnique t self).1 <+: T := (addUnique_prefix _ h).trans hp2
    obtain ⟨e1, e2, e3, e4⟩ := idx_bounds hp1
    obtain ⟨f1, f2, f3, f4⟩ := idx_bounds hp2
    simp only [List.cons_append, List.nil_append, encItems, encItem, List.length_append, List.append_nil] at hl
    simp only [valCalls, hm, ↓reduceIte, List.cons_append, List.nil_append, encItems, encItem, e1, f1, List.append_assoc,
      supplyOf, List.cons_append, rawValue, regLabels, regLabelsItem, newFix, newFixItem, List.foldl_cons,
      List.foldl_nil, List.append_nil]
    rw [readValue, value_head_ok cfg self (idxIn T self) 9 _ pos R F _ e2 (by omega) (by omega) (by omega)]
    simp only [unle_le1 9 (by decide)]
    rw [readDataU_ok cfg .bool 1 _ _ _ _ 1 rfl]
    simp only [guardKind, Res.bind, Prim.width, unle_le1 1 (by decide), Nat.one_ne_zero, ↓reduceIte, Supply.next]
    have e5 := readData_ok cfg (Prim.pos).tag (Prim.tag_lt _) (le (Prim.pos).width (idxIn T h))
    simp only [encPrim, List.append_assoc] at e5 ⊢
    rw [e5 _ (some (zeros 4)) _ _ F 4 (by simp [Prim.width])]
    have hu : unle (le (Prim.pos).width (idxIn T h)) = idxIn T h := unle_le_of_lt (by simp [Prim.width]; omega)
    simp only [Res.bind, hu]
    rw [addAt_ok cfg (idxIn T h) h _ _ true _ F f2 (by simp; omega) (by simp; omega)]
    simp only [Res.bind]
    have e6 := readPrim_ok cfg .u32 rc (by simpa [Prim.width] using hrc)
    simp only [encPrim, List.append_assoc] at e6
    rw [e6]
    simp only [Res.bind]
    have e7 := readData_ok cfg (Prim.u32).tag (Prim.tag_lt _) (le (Prim.u32).width es.length)
    simp only [List.append_assoc] at e7
    rw [e7 _ none _ _ F 4 (by simp [Prim.width])]
    have hu2 : unle (le (Prim.u32).width es.length) = es.length := unle_le_of_lt (by simpa [Prim.width] using hn32)
    have hna : ¬ ((es.length + 1) * svSize ≥ cfg.allocLimit) := by omega
    simp only [Res.bind, hu2, hna, ↓reduceIte]
    rw [readElems_enc cfg T hT hA es fuel _ tail _ _ F sup' (by omega) (elemCalls_table es _ ▸ hp) hwe
      (by simp [hR]) (by omega)]
    simp [Res.bind, setL, e4, f4, Prim.width, regLabels_append, newFix_append, List.foldl_append, regLabels,
      regLabelsItem, newFix, newFixItem]
    omega
  | .pointer p vars, fuel + 1, self, t, tail, pos, R, F, sup', _, hp, hw, hR, _ => by
    simp only [WFValue] at hw
    obtain ⟨hm, hn32, hal⟩ := hw
    have hn := nullIdx_lt
    simp only [valCalls, hm, ↓reduceIte] at hp
    have hp2 : (addUnique (addUnique t self).1 p).1 <+: T := (encItems_prefix _ _).trans hp
    have hp1 : (addUnique t self).1 <+: T := (addUnique_prefix _ p).trans hp2
    obtain ⟨e1, e2, e3, e4⟩ := idx_bounds hp1
    obtain ⟨f1, f2, f3, f4⟩ := idx_bounds hp2
    simp only [valCalls, hm, ↓reduceIte, List.cons_append, List.nil_append, encItems, encItem, e1, f1, List.append_assoc,
      supplyOf, rawValue, regLabels, regLabelsItem, newFix, newFixItem, List.foldl_cons,
      List.foldl_nil, List.append_nil]
    rw [readValue, value_head_ok cfg self (idxIn T self) 12 _ pos R F _ e2 (by omega) (by omega) (by omega)]
    simp only [unle_le1 12 (by decide)]
    rw [readDataU_ok cfg .bool 1 _ _ _ _ 1 rfl]
    simp only [guardKind, Res.bind, Prim.width, unle_le1 1 (by decide), Nat.one_ne_zero, ↓reduceIte, Supply.next]
    have e5 := readData_ok cfg (Prim.pos).tag (Prim.tag_lt _) (le (Prim.pos).width (idxIn T p))
    simp only [encPrim, List.append_assoc] at e5 ⊢
    rw [e5 _ (some (zeros 4)) _ _ F 4 (by simp [Prim.width])]
    have hu : unle (le (Prim.pos).width (idxIn T p)) = idxIn T p := unle_le_of_lt (by simp [Prim.width]; omega)
    simp only [Res.bind, hu]
    rw [addAt_ok cfg (idxIn T p) p _ _ true _ F f2 (by simp; omega) (by simp; omega)]
    simp only [Res.bind]
    have e7 := readData_ok cfg (Prim.u32).tag (Prim.tag_lt _) (le (Prim.u32).width vars.length)
    simp only [List.append_assoc] at e7
    rw [e7 _ none _ _ F 4 (by simp [Prim.width])]
    have hu2 : unle (le (Prim.u32).width vars.length) = vars.length := unle_le_of_lt (by simpa [Prim.width] using hn32)
    have hna : ¬ (vars.length * 8 ≥ cfg.allocLimit) := by omega
    have hlg : lenGe ((encItems (addUnique (addUnique t self).1 p).1 (vars.map (.ptr false ·))).2 ++ tail) vars.length = true := by
      rw [lenGe_iff]; simp [ptrs_enc_length]; omega
    simp only [Res.bind, hu2, hna, hlg, Bool.not_true, Bool.or_self, Bool.false_eq_true, ↓reduceIte]
    rw [readPlainPtrs_honest hT cfg vars _ tail _ _ F hp (by simp [hR])]
    simp [Res.bind, setL, e4, f4, Prim.width, ptrs_regLabels, ptrs_enc_length]
    omega
  | .array h rc tl th tli kvs, fuel + 1, self, t, tail, pos, R, F, sup', hd, hp, hw, hR, hl => by
    simp only [WFValue] at hw
    obtain ⟨hm, hrc, htl0, htl, hth, htli, hn32, hal, hpo, ⟨hcl, htlL⟩, hwe⟩ := hw
    have hn := nullIdx_lt
    simp only [depth] at hd
    simp only [valCalls, hm, ↓reduceIte] at hp hl
    have hp2 : (addUnique (addUnique t self).1 h).1 <+: T := (elemCalls_table kvs _ ▸ encItems_prefix _ _).trans hp
    have hp1 : (addUnique t self).1 <+: T := (addUnique_prefix _ h).trans hp2
    obtain ⟨e1, e2, e3, e4⟩ := idx_bounds hp1
    obtain ⟨f1, f2, f3, f4⟩ := idx_bounds hp2
    simp only [List.cons_append, List.nil_append, encItems, encItem, List.length_append, List.append_nil,
      encPrim_length, Prim.width] at hl
    simp only [valCalls, hm, ↓reduceIte, List.cons_append, List.nil_append, encItems, encItem, e1, f1, List.append_assoc,
      supplyOf, List.cons_append, rawValue, regLabels, regLabelsItem, newFix, newFixItem, List.foldl_cons,
      List.foldl_nil, List.append_nil]
    rw [readValue, value_head_ok cfg self (idxIn T self) 8 _ pos R F _ e2 (by omega) (by omega) (by omega)]
    simp only [unle_le1 8 (by decide)]
    rw [readDataU_ok cfg .bool 1 _ _ _ _ 1 rfl]
    simp only [guardKind, Res.bind, Prim.width, unle_le1 1 (by decide), Nat.one_ne_zero, ↓reduceIte, Supply.next]
    have e5 := readData_ok cfg (Prim.pos).tag (Prim.tag_lt _) (le (Prim.pos).width (idxIn T h))
    simp only [encPrim, List.append_assoc] at e5 ⊢
    rw [e5 _ (some (zeros 4)) _ _ F 4 (by simp [Prim.width])]
    have hu : unle (le (Prim.pos).width (idxIn T h)) = idxIn T h := unle_le_of_lt (by simp [Prim.width]; omega)
    simp only [Res.bind, hu]
    rw [addAt_ok cfg (idxIn T h) h _ _ true _ F f2 (by simp; omega) (by simp; omega)]
    simp only [Res.bind]
    have e6 := readPrim_ok cfg .u32 rc (by simpa [Prim.width] using hrc)
    simp only [encPrim, List.append_assoc] at e6
    rw [e6]
    simp only [Res.bind]
    have e7 := fun v => readData_ok cfg (Prim.u32).tag (Prim.tag_lt _) (le (Prim.u32).width v)
    simp only [List.append_assoc] at e7
    rw [e7 tl _ none _ _ F 4 (by simp [Prim.width])]
    simp only [Res.bind]
    rw [e7 th _ none _ _ F 4 (by simp [Prim.width])]
    simp only [Res.bind]
    rw [e7 (kvs.length / 2) _ none _ _ F 4 (by simp [Prim.width])]
    have u1 : unle (le (Prim.u32).width tl) = tl := unle_le_of_lt (by simpa [Prim.width] using htl)
    have u2 : unle (le (Prim.u32).width th) = th := unle_le_of_lt (by simpa [Prim.width] using hth)
    have u3 : unle (le (Prim.u32).width (kvs.length / 2)) = kvs.length / 2 := unle_le_of_lt (by simpa [Prim.width] using hn32)
    have u4 : unle (le (Prim.u16).width tli) = tli := unle_le_of_lt (by simpa [Prim.width] using htli)
    have hlg1 : lenGe (tagB (Prim.u16).tag ++ (le (Prim.u16).width tli ++
        ((encItems (addUnique (addUnique t self).1 h).1 (elemCalls (addUnique (addUnique t self).1 h).1 kvs).2).2 ++ tail)))
        (kvs.length / 2) = true := by
      rw [lenGe_iff]; simp [Prim.width]; omega
    have hlg2 : lenGe (tagB (Prim.u16).tag ++ (le (Prim.u16).width tli ++
        ((encItems (addUnique (addUnique t self).1 h).1 (elemCalls (addUnique (addUnique t self).1 h).1 kvs).2).2 ++ tail)))
        tl = true := by
      rw [lenGe_iff]; simp [Prim.width]; omega
    have htlb : (tl == 0) = false := by simpa using htl0
    simp only [Res.bind, u1, u2, u3, hlg1, hlg2, htlb, Bool.not_true, Bool.or_self, Bool.false_eq_true, ↓reduceIte]
    have e8 := readData_ok cfg (Prim.u16).tag (Prim.tag_lt _) (le (Prim.u16).width tli)
    simp only [List.append_assoc] at e8
    rw [e8 _ (some (zeros 2)) _ _ F 2 (by simp [Prim.width])]
    have hna : ¬ (tl ≠ 1 ∧ tl * 8 ≥ cfg.allocLimit) := by omega
    simp only [Res.bind, u4, hna, ↓reduceIte]
    rw [readPairs_enc cfg T hT hA kvs fuel _ tail _ _ F sup' hpo (by omega) (elemCalls_table kvs _ ▸ hp) hwe
      (by simp [hR]) (by omega)]
    simp [Res.bind, setL, e4, f4, Prim.width, regLabels_append, newFix_append, List.foldl_append, regLabels,
      regLabelsItem, newFix, newFixItem, htl0]
    omega
theorem readPairs_enc (cfg : Cfg) (T : List Lbl) (hT : T.length < nullIdx) (hA : T.length * 8 < cfg.allocLimit) :
    (es : List (Lbl × Value)) → (fuel : Nat) → (t : List Lbl) → (tail : Bytes) → (pos : Nat) → (R : List Lbl) →
    (F : List Nat) → (sup' : Supply) → pairsOk es = true → depthE es < fuel → (encItems t (elemCalls t es).2).1 <+: T →
    WFElems cfg t es → R.length = T.length → (encItems t (elemCalls t es).2).2.length < 2 ^ 63 →
    readPairsWith (readValue cfg fuel) (es.length / 2) (supplyOfElems es ++ sup') ⟨(encItems t (elemCalls t es).2).2 ++ tail, pos, true, R, F⟩ =
      .ok (rawElems T es, sup') ⟨tail, pos + (encItems t (elemCalls t es).2).2.length, true,
        (regLabels (elemCalls t es).2).foldl (setL T) R, newFix T (elemCalls t es).2 ++ F⟩
  | [], fuel, t, tail, pos, R, F, sup', _, _, _, _, _, _ => by
    simp [readPairsWith, elemCalls, encItems, supplyOfElems, rawElems, regLabels, newFix]
  | [_], _, _, _, _, _, _, _, hpo, _, _, _, _, _ => by simp [pairsOk] at hpo
  | (l, k) :: (l2, v) :: es, fuel, t, tail, pos, R, F, sup', hpo, hd, hp, hw, hR, hl => by
    simp only [WFElems] at hw
    simp only [depthE] at hd
    simp only [pairsOk, Bool.and_eq_true] at hpo
    simp only [elemCalls, encItems_append, valCalls_table] at hp hl
    have hp2 : (valCalls (valCalls t l k).1 l2 v).1 <+: T := by
      have := encItems_prefix (elemCalls (valCalls (valCalls t l k).1 l2 v).1 es).2 (valCalls (valCalls t l k).1 l2 v).1
      exact this.trans hp
    have hp1 : (valCalls t l k).1 <+: T := by
      have := encItems_prefix (valCalls (valCalls t l k).1 l2 v).2 (valCalls t l k).1
      rw [valCalls_table] at this
      exact this.trans hp2
    simp only [List.length_append] at hl
    have hlen : ((l, k) :: (l2, v) :: es).length / 2 = es.length / 2 + 1 := by simp; omega
    simp only [elemCalls, encItems_append, valCalls_table, supplyOfElems, List.cons_append,
      List.append_assoc, rawElems, regLabels_append, newFix_append, List.foldl_append]
    rw [hlen, readPairsWith]
    simp only [Supply.next]
    rw [readValue_enc cfg T hT hA k fuel l t _ pos R F (l2 :: (supplyOf v ++ (supplyOfElems es ++ sup'))) (by omega) hp1 hw.1 hR
      (by omega)]
    simp only [Res.bind, Supply.next]
    rw [readValue_enc cfg T hT hA v fuel l2 (valCalls t l k).1 _ _ _ _ (supplyOfElems es ++ sup') (by omega) hp2 hw.2.1
      (by simp [hR]) (by omega)]
    simp only [Res.bind, rawValue_hashable, hpo.1, Bool.not_true, Bool.false_eq_true, ↓reduceIte]
    rw [readPairs_enc cfg T hT hA es fuel (valCalls (valCalls t l k).1 l2 v).1 tail _ _ _ sup' hpo.2 (by omega) hp hw.2.2
      (by simp [hR]) (by omega)]
    simp [Res.bind, Nat.add_assoc]
theorem readElems_enc (cfg : Cfg) (T : List Lbl) (hT : T.length < nullIdx) (hA : T.length * 8 < cfg.allocLimit) :
    (es : List (Lbl × Value)) → (fuel : Nat) → (t : List Lbl) → (tail : Bytes) → (pos : Nat) → (R : List Lbl) →
    (F : List Nat) → (sup' : Supply) → depthE es < fuel → (encItems t (elemCalls t es).2).1 <+: T → WFElems cfg t es →
    R.length = T.length → (encItems t (elemCalls t es).2).2.length < 2 ^ 63 →
    readElemsWith (readValue cfg fuel) es.length (supplyOfElems es ++ sup') ⟨(encItems t (elemCalls t es).2).2 ++ tail, pos, true, R, F⟩ =
      .ok (rawElems T es, sup') ⟨tail, pos + (encItems t (elemCalls t es).2).2.length, true,
        (regLabels (elemCalls t es).2).foldl (setL T) R, newFix T (elemCalls t es).2 ++ F⟩
  | [], fuel, t, tail, pos, R, F, sup', _, _, _, _, _ => by
    simp [readElemsWith, elemCalls, encItems, supplyOfElems, rawElems, regLabels, newFix]
  | (l, v) :: es, fuel, t, tail, pos, R, F, sup', hd, hp, hw, hR, hl => by
    simp only [WFElems] at hw
    simp only [depthE] at hd
    simp only [elemCalls, encItems_append, valCalls_table] at hp hl
    have hp1 : (valCalls t l v).1 <+: T := by
      have := encItems_prefix (elemCalls (valCalls t l v).1 es).2 (valCalls t l v).1
      exact this.trans hp
    simp only [List.length_append] at hl
    simp only [elemCalls, encItems_append, valCalls_table, List.length_cons, supplyOfElems, List.cons_append,
      List.append_assoc, rawElems, regLabels_append, newFix_append, List.foldl_append]
    rw [readElemsWith]
    simp only [Supply.next]
    rw [readValue_enc cfg T hT hA v fuel l t _ pos R F (supplyOfElems es ++ sup') (by omega) hp1 hw.1 hR (by omega)]
    simp only [Res.bind]
    rw [readElems_enc cfg T hT hA es fuel (valCalls t l v).1 tail _ _ _ sup' (by omega) hp hw.2 (by simp [hR]) (by omega)]
    simp [Res.bind, Nat.add_assoc]
end

end Morfuse.Archive
