import MorfuseModel.Archive.ValueLemmas
import MorfuseModel.Archive.TablesLemmas
/-! Round trip of mixed write sequences (calls of the Archiver and script values). -/
namespace Morfuse.Archive

theorem keyCalls_table (t : List Lbl) (k : Option Bytes) : (encItems t (keyCalls k)).1 = t := by
  cases k <;> simp [keyCalls, encItems, encItem]

theorem keyCalls_newFix (T : List Lbl) (k : Option Bytes) : newFix T (keyCalls k) = [] := by
  cases k <;> simp [keyCalls, newFix, newFixItem]

theorem keyCalls_regLabels (k : Option Bytes) : regLabels (keyCalls k) = [] := by
  cases k <;> simp [keyCalls, regLabels, regLabelsItem]

theorem expand_table : (ws : List WItem) → (t : List Lbl) → (encItems t (expand t ws).2).1 = (expand t ws).1
  | [], t => by simp [expand, encItems]
  | .item i :: ws, t => by
    simp only [expand, encItems]
    exact expand_table ws _
  | .value s v :: ws, t => by
    simp only [expand]
    rw [encItems_append]
    simp only [valCalls_table]
    exact expand_table ws _
  | .named s k v :: ws, t => by
    simp only [expand]
    rw [encItems_append, keyCalls_table, encItems_append]
    simp only [valCalls_table]
    exact expand_table ws _

def rawW (T : List Lbl) : WItem → WItem
  | .item i => .item (rawItem T i)
  | .value s v => .value s (rawValue T v)
  | .named s k v => .named s k (rawValue T v)

/-- per-call hypotheses along the sequence (the object table is threaded as the writer does) -/
def WFWs (cfg : Cfg) (classes : List Bytes) : List Lbl → List WItem → Prop
  | _, [] => True
  | t, .item i :: ws => WFItem cfg classes i ∧ WFWs cfg classes (encItem t i).1 ws
  | t, .value s v :: ws => WFValue cfg t s v ∧ WFWs cfg classes (valCalls t s v).1 ws
  | t, .named s k v :: ws => WFKey cfg k ∧ WFValue cfg t s v ∧ WFWs cfg classes (valCalls t s v).1 ws

def depthW : List WItem → Nat
  | [] => 0
  | .item _ :: ws => depthW ws
  | .value _ v :: ws => max (depth v) (depthW ws)
  | .named _ _ v :: ws => max (depth v) (depthW ws)

theorem readW_enc (cfg : Cfg) (classes : List Bytes) (T : List Lbl) (hT : T.length < nullIdx)
    (hA : T.length * 8 < cfg.allocLimit) :
    (ws : List WItem) → (t : List Lbl) → (tail : Bytes) → (pos : Nat) → (R : List Lbl) → (F : List Nat) → (fuel : Nat) →
    depthW ws < fuel → (expand t ws).1 <+: T → WFWs cfg classes t ws → R.length = T.length →
    (encItems t (expand t ws).2).2.length < 2 ^ 63 →
    readW cfg classes fuel (schemaW ws) ⟨(encItems t (expand t ws).2).2 ++ tail, pos, true, R, F⟩ =
      .ok (ws.map (rawW T)) ⟨tail, pos + (encItems t (expand t ws).2).2.length, true,
        (regLabels (expand t ws).2).foldl (setL T) R, newFix T (expand t ws).2 ++ F⟩
  | [], t, tail, pos, R, F, fuel, _, _, _, _, _ => by
    simp [expand, encItems, readW, schemaW, regLabels, newFix]
  | .item i :: ws, t, tail, pos, R, F, fuel, hd, hp, hw, hR, hl => by
    simp only [WFWs] at hw
    simp only [depthW] at hd
    simp only [expand, encItems] at hp hl
    have hp1 : (encItem t i).1 <+: T := by
      have := encItems_prefix (expand (encItem t i).1 ws).2 (encItem t i).1
      rw [expand_table] at this
      exact this.trans hp
    rw [← expand_table] at hp
    simp only [List.length_append] at hl
    simp only [expand, encItems, schemaW, readW, List.append_assoc, List.map_cons, rawW, regLabels, newFix]
    rw [readItem_enc cfg classes T hT hA i t _ pos R F hp1 hw.1 hR (by omega)]
    simp only [Res.bind]
    rw [readW_enc cfg classes T hT hA ws (encItem t i).1 tail _ _ _ fuel hd (by rw [← expand_table]; exact hp) hw.2
      (by simp [hR]) (by omega)]
    simp [Res.bind, List.foldl_append, Nat.add_assoc]
  | .value s v :: ws, t, tail, pos, R, F, fuel, hd, hp, hw, hR, hl => by
    simp only [WFWs] at hw
    simp only [depthW] at hd
    simp only [expand, encItems_append, valCalls_table] at hp hl
    have hp1 : (valCalls t s v).1 <+: T := by
      have := encItems_prefix (expand (valCalls t s v).1 ws).2 (valCalls t s v).1
      rw [expand_table] at this
      exact this.trans hp
    simp only [List.length_append] at hl
    simp only [expand, encItems_append, valCalls_table, schemaW, readW, List.append_assoc, List.map_cons, rawW,
      regLabels_append, newFix_append, List.foldl_append]
    have := readValue_enc cfg T hT hA v fuel s t ((encItems (valCalls t s v).1 (expand (valCalls t s v).1 ws).2).2 ++ tail)
      pos R F [] (by omega) hp1 hw.1 hR (by omega)
    simp only [List.append_nil] at this
    rw [this]
    simp only [Res.bind]
    rw [readW_enc cfg classes T hT hA ws (valCalls t s v).1 tail _ _ _ fuel (by omega) hp hw.2 (by simp [hR]) (by omega)]
    simp [Res.bind, Nat.add_assoc]

  | .named s k v :: ws, t, tail, pos, R, F, fuel, hd, hp, hw, hR, hl => by
    simp only [WFWs] at hw
    simp only [depthW] at hd
    simp only [expand, encItems_append, keyCalls_table, valCalls_table] at hp hl
    have hp1 : (valCalls t s v).1 <+: T := by
      have := encItems_prefix (expand (valCalls t s v).1 ws).2 (valCalls t s v).1
      rw [expand_table] at this
      exact this.trans hp
    have hpt : t <+: T := by
      have := encItems_prefix (valCalls t s v).2 t
      rw [valCalls_table] at this
      exact this.trans hp1
    simp only [List.length_append] at hl
    simp only [expand, encItems_append, keyCalls_table, valCalls_table, schemaW, readW, List.append_assoc, List.map_cons,
      rawW, regLabels_append, newFix_append, List.foldl_append, keyCalls_regLabels, keyCalls_newFix, List.foldl_nil,
      List.append_nil]
    rw [readKey_honest (T := T) cfg k hw.1 t _ pos R F (by rw [keyCalls_table]; exact hpt) hR]
    simp only [Res.bind, keyCalls_newFix, List.nil_append]
    have := readValue_enc cfg T hT hA v fuel s t ((encItems (valCalls t s v).1 (expand (valCalls t s v).1 ws).2).2 ++ tail)
      (pos + (encItems t (keyCalls k)).2.length) R F [] (by omega) hp1 hw.2.1 hR (by omega)
    simp only [List.append_nil] at this
    rw [this]
    simp only [Res.bind]
    rw [readW_enc cfg classes T hT hA ws (valCalls t s v).1 tail _ _ _ fuel (by omega) hp hw.2.2 (by simp [hR]) (by omega)]
    simp [Res.bind, Nat.add_assoc]

/-! ### `Close` on values -/


mutual
/-- non-null object references inside a value -/
def vTargets : Value → List Lbl
  | .link _ _ o => if o = 0 then [] else [o]
  | .holderRef _ h => if h = 0 then [] else [h]
  | .constArray _ _ es => vTargetsE es
  | .array _ _ _ _ _ kvs => vTargetsE kvs
  | .pointer _ vars => vars.filter (· ≠ 0)
  | _ => []
def vTargetsE : List (Lbl × Value) → List Lbl
  | [] => []
  | (_, v) :: es => vTargets v ++ vTargetsE es
end

def wTargets : List WItem → List Lbl
  | [] => []
  | .item i :: ws => ptrTargetsItem i ++ wTargets ws
  | .value _ v :: ws => vTargets v ++ wTargets ws
  | .named _ _ v :: ws => vTargets v ++ wTargets ws

mutual
theorem fixValue_raw (T Rf : List Lbl) : (v : Value) →
    (∀ o ∈ vTargets v, Rf.getD (T.idxOf o) 0 = o) → fixValue Rf (rawValue T v) = v
  | .none, _ => by simp [rawValue, fixValue]
  | .int _, _ => by simp [rawValue, fixValue]
  | .float _, _ => by simp [rawValue, fixValue]
  | .char _, _ => by simp [rawValue, fixValue]
  | .string _, _ => by simp [rawValue, fixValue]
  | .constString _, _ => by simp [rawValue, fixValue]
  | .vector _, _ => by simp [rawValue, fixValue]
  | .link c s o, h => by
    by_cases ho : o = 0
    · simp [rawValue, fixValue, look, ho]
    · have := h o (by simp [vTargets, ho])
      simp only [List.getD_eq_getElem?_getD] at this
      simp [rawValue, fixValue, look, ho, idxIn, this]
  | .array hh rc tl th tli kvs, h => by
    simp only [rawValue, fixValue]
    rw [fixElems_raw T Rf kvs (by simpa [vTargets] using h)]
  | .pointer p vars, h => by
    simp only [rawValue, fixValue, List.map_map, Value.pointer.injEq, true_and]
    have : ∀ o ∈ vars, (look Rf ∘ fun o => if o = 0 then 0 else idxIn T o) o = o := by
      intro o hov
      by_cases ho : o = 0
      · simp [look, ho]
      · have := h o (by simp [vTargets, hov, ho])
        simp only [List.getD_eq_getElem?_getD] at this
        simp [look, ho, idxIn, this]
    rw [List.map_congr_left this]; simp
  | .holderRef c o, h => by
    by_cases ho : o = 0
    · simp [rawValue, fixValue, look, ho]
    · have := h o (by simp [vTargets, ho])
      simp only [List.getD_eq_getElem?_getD] at this
      simp [rawValue, fixValue, look, ho, idxIn, this]
  | .constArray hh rc es, h => by
    simp only [rawValue, fixValue]
    rw [fixElems_raw T Rf es (by simpa [vTargets] using h)]
theorem fixElems_raw (T Rf : List Lbl) : (es : List (Lbl × Value)) →
    (∀ o ∈ vTargetsE es, Rf.getD (T.idxOf o) 0 = o) → fixElems Rf (rawElems T es) = es
  | [], _ => by simp [rawElems, fixElems]
  | (l, v) :: es, h => by
    simp only [vTargetsE, List.mem_append] at h
    simp only [rawElems, fixElems]
    rw [fixValue_raw T Rf v (fun o ho => h o (Or.inl ho)), fixElems_raw T Rf es (fun o ho => h o (Or.inr ho))]
end

theorem fixW_raw (T Rf : List Lbl) : (ws : List WItem) →
    (∀ o ∈ wTargets ws, Rf.getD (T.idxOf o) 0 = o) → (ws.map (rawW T)).map (fixW Rf) = ws
  | [], _ => rfl
  | .item i :: ws, h => by
    simp only [wTargets, List.mem_append] at h
    simp only [List.map_cons, rawW, fixW]
    rw [fixItem_raw T Rf i (fun o ho => h o (Or.inl ho)), fixW_raw T Rf ws (fun o ho => h o (Or.inr ho))]
  | .value s v :: ws, h => by
    simp only [wTargets, List.mem_append] at h
    simp only [List.map_cons, rawW, fixW]
    rw [fixValue_raw T Rf v (fun o ho => h o (Or.inl ho)), fixW_raw T Rf ws (fun o ho => h o (Or.inr ho))]
  | .named s k v :: ws, h => by
    simp only [wTargets, List.mem_append] at h
    simp only [List.map_cons, rawW, fixW]
    rw [fixValue_raw T Rf v (fun o ho => h o (Or.inl ho)), fixW_raw T Rf ws (fun o ho => h o (Or.inr ho))]

mutual
theorem vTargets_ne_zero : (v : Value) → ∀ o ∈ vTargets v, o ≠ 0
  | .none => by simp [vTargets]
  | .int _ => by simp [vTargets]
  | .float _ => by simp [vTargets]
  | .char _ => by simp [vTargets]
  | .string _ => by simp [vTargets]
  | .constString _ => by simp [vTargets]
  | .vector _ => by simp [vTargets]
  | .link _ _ o => by by_cases ho : o = 0 <;> simp [vTargets, ho]
  | .holderRef _ o => by by_cases ho : o = 0 <;> simp [vTargets, ho]
  | .constArray _ _ es => by simpa [vTargets] using vTargetsE_ne_zero es
  | .array _ _ _ _ _ kvs => by simpa [vTargets] using vTargetsE_ne_zero kvs
  | .pointer _ vars => by simp [vTargets]
theorem vTargetsE_ne_zero : (es : List (Lbl × Value)) → ∀ o ∈ vTargetsE es, o ≠ 0
  | [] => by simp [vTargetsE]
  | (_, v) :: es => by
    simp only [vTargetsE, List.mem_append]
    rintro o (h | h)
    · exact vTargets_ne_zero v o h
    · exact vTargetsE_ne_zero es o h
end

theorem wTargets_ne_zero : (ws : List WItem) → ∀ o ∈ wTargets ws, o ≠ 0
  | [] => by simp [wTargets]
  | .item i :: ws => by
    simp only [wTargets, List.mem_append]
    rintro o (h | h)
    · exact ptrTargetsItem_ne_zero i o h
    · exact wTargets_ne_zero ws o h
  | .value _ v :: ws => by
    simp only [wTargets, List.mem_append]
    rintro o (h | h)
    · exact vTargets_ne_zero v o h
    · exact wTargets_ne_zero ws o h
  | .named _ _ v :: ws => by
    simp only [wTargets, List.mem_append]
    rintro o (h | h)
    · exact vTargets_ne_zero v o h
    · exact wTargets_ne_zero ws o h

/-- hypotheses of the round trip of a mixed sequence -/
structure WFW (cfg : Cfg) (classes : List Bytes) (info : Info) (ws : List WItem) : Prop where
  items : WFWs cfg classes [] ws
  /-- every object referred to (by a pointer call, a Listener value, a shared const array) is registered -/
  targets : ∀ o ∈ wTargets ws, o ∈ regLabels (expand [] ws).2
  count : (expand [] ws).1.length < nullIdx
  table : (expand [] ws).1.length * 8 < cfg.allocLimit
  size : (encodeW info ws).length < 2 ^ 63
  /-- nesting depth of the values (always far below the archive length; the reader's fuel) -/
  depth : depthW ws ≤ (encodeW info ws).length
  version : info.version < 65536
  name : strAlloc info.name.length < cfg.allocLimit

theorem decodeW_encodeW (cfg : Cfg) (classes : List Bytes) (info : Info) (ws : List WItem)
    (hw : WFW cfg classes info ws) :
    decodeW cfg classes info (schemaW ws) (encodeW info ws) = .ok ws := by
  have hsz := hw.size
  have hnull := nullIdx_lt
  have htab := expand_table ws []
  have htl := encItems_table_le (expand [] ws).2 []
  rw [htab] at htl
  simp only [encodeW, encode, List.length_append] at hsz
  rw [htab] at hsz
  have hnl : info.name.length < 2 ^ 64 := by
    rw [encHeader_length, encStr_length] at hsz; split at hsz <;> omega
  unfold decodeW
  simp only [encodeW, encode]
  rw [htab]
  rw [readHeader_ok cfg info _ _ hw.version (by have := hw.count; omega) hw.table
    (by simp at htl; omega) hw.name hnl]
  simp only [Res.bind]
  have hd := hw.depth
  simp only [encodeW, encode, htab] at hd
  have := readW_enc cfg classes (expand [] ws).1 hw.count hw.table ws [] []
    (encHeader info (expand [] ws).1.length).length (List.replicate (expand [] ws).1.length 0) []
    ((encHeader info (expand [] ws).1.length ++ (encItems [] (expand [] ws).2).2).length + 1)
    (by omega) (List.prefix_refl _) hw.items (by simp) (by omega)
  simp only [List.append_nil] at this
  rw [this]
  have hc : closeOk ⟨[], (encHeader info (expand [] ws).1.length).length + (encItems [] (expand [] ws).2).2.length, true,
      (regLabels (expand [] ws).2).foldl (setL (expand [] ws).1) (List.replicate (expand [] ws).1.length 0),
      newFix (expand [] ws).1 (expand [] ws).2⟩ = true := by
    simp only [closeOk, List.all_eq_true, decide_eq_true_eq, foldl_setL_length, List.length_replicate]
    exact newFix_bounds _ (expand [] ws).2 [] (by rw [htab]; exact List.prefix_refl _)
  simp only [hc, ↓reduceIte]
  congr 1
  apply fixW_raw
  intro o ho
  have hsub : ∀ l ∈ regLabels (expand [] ws).2, l ∈ (expand [] ws).1 := by
    have := regLabels_subset (expand [] ws).2 []
    rwa [htab] at this
  exact foldl_setL_get _ o (wTargets_ne_zero ws o ho) _ _ hsub (by simp) (hw.targets o ho)

end Morfuse.Archive
