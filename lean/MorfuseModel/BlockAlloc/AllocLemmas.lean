import MorfuseModel.BlockAlloc.StepLemmas
/-!
# `Alloc` preserves the invariant, returns a slot that is not live, and adds exactly that slot
-/
namespace Morfuse.BlockAlloc
open Morfuse.Ring

/-! ### consequences of `(A.blocks s).Nodup` -/

theorem Inv.used_not_full {bs s A} (h : Inv bs s A) {b : Nat} (hb : b ∈ A.usedL) : b ∉ A.fullL := by
  intro hf
  have := h.nodup
  simp only [Abs.blocks, List.append_assoc] at this
  exact (List.nodup_append.1 this).2.2 b hb b (List.mem_append_left _ hf) rfl

theorem Inv.used_ne_free {bs s A} (h : Inv bs s A) {b : Nat} (hb : b ∈ A.usedL) (hf : s.freeBlock ≠ 0) :
    s.freeBlock ≠ b := by
  intro e
  have := h.nodup
  simp only [Abs.blocks, List.append_assoc, fbL, hf, if_false] at this
  exact (List.nodup_append.1 this).2.2 b hb b (List.mem_append_right _ (by simp [e])) rfl

theorem Inv.full_ne_free {bs s A} (h : Inv bs s A) {b : Nat} (hb : b ∈ A.fullL) (hf : s.freeBlock ≠ 0) :
    s.freeBlock ≠ b := by
  intro e
  have := h.nodup
  simp only [Abs.blocks, fbL, hf, if_false] at this
  exact (List.nodup_append.1 this).2.2 b (List.mem_append_right _ hb) b (by simp [e]) rfl

theorem Inv.lists_nodup {bs s A} (h : Inv bs s A) : (A.fullL ++ A.usedL).Nodup := by
  have := h.nodup
  simp only [Abs.blocks] at this
  exact (List.perm_append_comm.nodup_iff).1 (List.nodup_append.1 this).1

theorem Inv.nodup_uf {bs s A} (h : Inv bs s A) : (A.usedL ++ A.fullL).Nodup := by
  have := h.nodup
  simp only [Abs.blocks] at this
  exact (List.nodup_append.1 this).1

/-- `ok` for the new abstract state: every block but `b` keeps its rings -/
theorem ok_transfer {bs : Nat} {s s' : State} {A A' : Abs} {b : Nat} (h : Inv bs s A)
    (hsub : ∀ c ∈ A'.blocks s', c ≠ b → c ∈ A.blocks s)
    (hother : OtherRings s s' b)
    (hU : ∀ c, c ≠ b → A'.U c = A.U c) (hF : ∀ c, c ≠ b → A'.F c = A.F c)
    (hbok : BlockOk bs s' b (A'.U b) (A'.F b)) :
    ∀ c ∈ A'.blocks s', BlockOk bs s' c (A'.U c) (A'.F c) := by
  intro c hc
  by_cases hcb : c = b
  · subst hcb; exact hbok
  · have hok := h.ok c (hsub c hc hcb)
    rw [hU c hcb, hF c hcb]
    exact ⟨hother c hcb _ _ hok.rings, hok.lt, hok.len⟩

structure AllocSpec (bs : Nat) (s : State) (A : Abs) (r : State × Slot) (A' : Abs) : Prop where
  inv : Inv bs r.1 A'
  fresh : r.2 ∉ A.live
  live : A'.live.Perm (r.2 :: A.live)
  keep : (A.usedL ≠ [] ∨ s.freeBlock ≠ 0) → r.1.blockCount = s.blockCount
  grow : A.usedL = [] → s.freeBlock = 0 → r.1.blockCount = s.blockCount + 1

/-! ### path 1b: the first used block still has more than one free slot -/

theorem alloc_more {bs : Nat} {s : State} {A : Abs} {b fd m : Nat} {rest u : List Nat}
    (h : Inv bs s A) (hu : A.usedL = b :: rest) (hF : A.F b = fd :: m :: u) :
    ∃ A', AllocSpec bs s A (alloc bs s) A' := by
  have hbu : b ∈ A.usedL := by rw [hu]; simp
  have hbmem : b ∈ A.blocks s := h.blocks_used b hbu
  have hok := h.ok b hbmem
  have hroot : s.used.root = b := by rw [h.usedDL.root, hu]; rfl
  have hb0 : b ≠ 0 := Nat.pos_iff_ne_zero.1 (h.pos b hbmem).1
  have hfree := hok.rings.free
  rw [hF] at hfree
  obtain ⟨_, hhd, hring⟩ := hfree
  have hnx : s.nd.get b fd = m := hring.2.1
  have hmfd : m ≠ fd := by
    intro e; have := hring.1; simp [e] at this
  have halloc : alloc bs s = allocTail s b fd m := by
    unfold alloc; simp [hroot, hb0, hhd, hnx, hmfd]
  obtain ⟨hp, hr, hfr⟩ := allocTail_rings (U := A.U b) (by rw [← hF]; exact hok.rings)
  rw [halloc]
  let A' : Abs := { A with U := updL A.U b (A.U b ++ [fd]), F := updL A.F b (m :: u) }
  have hbl : A'.blocks (allocTail s b fd m).1 = A.blocks s := by
    simp [A', Abs.blocks, fbL, hfr.freeBlock]
  refine ⟨A', ⟨?_, ?_, ?_, ?_, ?_⟩⟩
  · refine ⟨h.bs2, by rw [hfr.nextId]; exact h.idpos, ?_, ?_, ?_, ?_, ?_, ?_, ?_, ?_, ?_⟩
    · rw [hfr.bnext, hfr.bprev, hfr.used]; exact h.usedDL
    · rw [hfr.bnext, hfr.bprev, hfr.full]; exact h.fullDL
    · rw [hbl]; exact h.nodup
    · rw [hbl, hfr.nextId]; exact h.pos
    · rw [hbl, hfr.blockCount]; exact h.cnt
    · apply ok_transfer h (b := b)
      · intro c hc _; rw [hbl] at hc; exact hc
      · exact OtherRings.ofBlock hfr
      · intro c hc; simp [A', updL_ne _ _ _ _ hc]
      · intro c hc; simp [A', updL_ne _ _ _ _ hc]
      · simp only [A', updL_same]
        apply hok.of_perm hr
        rw [hF]; simp
    · intro c hc
      by_cases hcb : c = b
      · subst hcb; simp [A']
      · simp only [A', updL_ne _ _ _ _ hcb]; exact h.usedP c hc
    · intro c hc
      have hcb : c ≠ b := fun e => h.used_not_full hbu (e ▸ hc)
      simp only [A', updL_ne _ _ _ _ hcb]; exact h.fullP c hc
    · intro hf
      rw [hfr.freeBlock] at hf ⊢
      have := h.used_ne_free hbu hf
      simp only [A', updL_ne _ _ _ _ this]; exact h.freeP hf
  · rw [hp]
    intro hm
    have := (mem_slotsOf.1 hm).2
    exact hok.rings.disj fd this (by rw [hF]; simp)
  · rw [hp]
    apply slotsOf_gain (List.Perm.refl _) h.lists_nodup (by simp [hbu])
    · simp [A']
    · intro c _ hcb; simp [A', updL_ne _ _ _ _ hcb]
  · intro _; exact hfr.blockCount
  · intro he; rw [hu] at he; cases he

/-! ### path 1a: the first used block has exactly one free slot left; it moves to the full list -/

theorem clearFree_rings {s : State} {b fd : Nat} {U : List Nat} (h : Rings s b U [fd]) :
    Rings { s with hasFree := s.hasFree.set b 0 } b U [] ∧
      BlockFrame s { s with hasFree := s.hasFree.set b 0 } b := by
  refine ⟨⟨h.used, by simp [RingOf], ?_⟩, ?_⟩
  · have := h.nodup
    rw [List.nodup_append] at this
    simpa using this.1
  · constructor <;> intros <;> simp_all [Mem.get_set_ne]

theorem alloc_last {bs : Nat} {s : State} {A : Abs} {b fd : Nat} {rest : List Nat}
    (h : Inv bs s A) (hu : A.usedL = b :: rest) (hF : A.F b = [fd]) :
    ∃ A', AllocSpec bs s A (alloc bs s) A' := by
  have hbu : b ∈ A.usedL := by rw [hu]; simp
  have hbmem : b ∈ A.blocks s := h.blocks_used b hbu
  have hok := h.ok b hbmem
  have hroot : s.used.root = b := by rw [h.usedDL.root, hu]; rfl
  have hb0 : b ≠ 0 := Nat.pos_iff_ne_zero.1 (h.pos b hbmem).1
  have hfree := hok.rings.free
  rw [hF] at hfree
  obtain ⟨_, hhd, hring⟩ := hfree
  have hnx : s.nd.get b fd = fd := (ring_single_iff.1 hring).1
  have hnd := h.nodup_uf
  rw [hu] at hnd
  have hbrest : b ∉ rest := by
    have := (List.nodup_append.1 hnd).1; exact (List.nodup_cons.1 this).1
  have hDLu : DL s.bnext.get s.bprev.get s.used (b :: rest) := by rw [← hu]; exact h.usedDL
  have hnext : s.bnext.get b ≠ b := hDLu.root_next_ne hb0 hbrest
  have h0 : 0 ∉ A.blocks s := h.zero_notin
  have h0u : 0 ∉ b :: rest := by rw [← hu]; exact fun hm => h0 (h.blocks_used 0 hm)
  have h0f : 0 ∉ A.fullL := fun hm => h0 (h.blocks_full 0 hm)
  -- the list moves
  obtain ⟨hu1, hf1, hl1, hs1⟩ := usedRemove_spec (S := []) (T := rest) (Y := A.fullL) (x := b)
    (by simpa using hDLu) h.fullDL (by simpa using h0u) (by simpa using hnd)
  generalize hs1def : setUsedK s ((usedK s).remove b) = s1 at hu1 hf1 hl1 hs1
  have hnd2 : (b :: (A.fullL ++ rest)).Nodup := by
    have : (b :: (A.fullL ++ rest)).Perm (b :: rest ++ A.fullL) := by
      simpa using (List.perm_append_comm (l₁ := A.fullL) (l₂ := rest)).cons b
    exact this.nodup_iff.2 hnd
  obtain ⟨hf2, hu2, hl2, hs2⟩ := fullAddFirst_spec (X := A.fullL) (Y := rest) (x := b) hf1
    (by simpa using hu1) h0f hnd2
  generalize hs2def : setFullK s1 ((fullK s1).addFirst b) = s2 at hu2 hf2 hl2 hs2
  have hU : A.U b ≠ [] := (h.usedP b hbu).1
  obtain ⟨a, t, hUb⟩ : ∃ a t, A.U b = a :: t := by
    cases hUb : A.U b with
    | nil => exact absurd hUb hU
    | cons a t => exact ⟨a, t, rfl⟩
  have hr2 : Rings s2 b (a :: t) [fd] := by
    have := hok.rings; rw [hUb, hF] at this
    exact (this.listFrame hl1).listFrame hl2
  obtain ⟨hr3, hfr3⟩ := clearFree_rings hr2
  generalize hs3def : ({ s2 with hasFree := s2.hasFree.set b 0 } : State) = s3 at hr3 hfr3
  have hfdU : fd ∉ (a :: t) ++ [] := by
    have := hok.rings.disj fd
    rw [hUb, hF] at this
    simpa using fun hm => this hm (by simp)
  obtain ⟨hp, hr4, hfr4⟩ := takeFree_rings hr3 hfdU
  have halloc : alloc bs s = takeFree s3 b fd := by
    unfold alloc
    simp only [hroot, ne_eq, hb0, not_false_eq_true, if_true, hhd, hnx]
    have := remove_after_setRoot s.bnext s.bprev s.used b hroot hnext
    simp only [usedK] at hs1def ⊢
    rw [this, hs1def, hs2def, hs3def]
  rw [halloc]
  have hfr : BlockFrame s2 (takeFree s3 b fd).1 b := hfr3.trans hfr4
  let A' : Abs := { usedL := rest, fullL := b :: A.fullL, U := updL A.U b (A.U b ++ [fd]), F := updL A.F b [] }
  have hfb : (takeFree s3 b fd).1.freeBlock = s.freeBlock := by
    rw [hfr.freeBlock, hs2.freeBlock, hs1.freeBlock]
  have hbl : (A'.blocks (takeFree s3 b fd).1).Perm (A.blocks s) := by
    simp only [A', Abs.blocks, fbL, hfb, hu]
    apply List.Perm.append_right
    simpa using (List.perm_middle (a := b) (l₁ := rest) (l₂ := A.fullL))
  refine ⟨A', ⟨?_, ?_, ?_, ?_, ?_⟩⟩
  · refine ⟨h.bs2, by rw [hfr.nextId, hs2.nextId, hs1.nextId]; exact h.idpos, ?_, ?_, ?_, ?_, ?_, ?_, ?_, ?_, ?_⟩
    · rw [hfr.bnext, hfr.bprev, hfr.used]; exact hu2
    · rw [hfr.bnext, hfr.bprev, hfr.full]; exact hf2
    · exact hbl.nodup_iff.2 h.nodup
    · intro c hc
      rw [hfr.nextId, hs2.nextId, hs1.nextId]
      exact h.pos c (hbl.mem_iff.1 hc)
    · rw [hbl.length_eq, hfr.blockCount, hs2.blockCount, hs1.blockCount]; exact h.cnt
    · apply ok_transfer h (b := b)
      · intro c hc _; exact hbl.mem_iff.1 hc
      · exact ((OtherRings.ofList b hl1).trans (OtherRings.ofList b hl2)).trans (OtherRings.ofBlock hfr)
      · intro c hc; simp [A', updL_ne _ _ _ _ hc]
      · intro c hc; simp [A', updL_ne _ _ _ _ hc]
      · simp only [A', updL_same]
        apply hok.of_perm (by rw [hUb]; exact hr4)
        rw [hF]; simp
    · intro c hc
      have hcu : c ∈ A.usedL := by rw [hu]; exact List.mem_cons_of_mem _ hc
      have hcb : c ≠ b := fun e => hbrest (e ▸ hc)
      simp only [A', updL_ne _ _ _ _ hcb]; exact h.usedP c hcu
    · intro c hc
      by_cases hcb : c = b
      · subst hcb; simp [A']
      · have : c ∈ A.fullL := by simpa [A', hcb] using hc
        simp only [A', updL_ne _ _ _ _ hcb]; exact h.fullP c this
    · intro hf
      rw [hfb] at hf ⊢
      have := h.used_ne_free hbu hf
      simp only [A', updL_ne _ _ _ _ this]; exact h.freeP hf
  · rw [hp]
    intro hm
    have := (mem_slotsOf.1 hm).2
    exact hok.rings.disj fd this (by rw [hF]; simp)
  · rw [hp]
    apply slotsOf_gain (L := A.fullL ++ A.usedL) _ h.lists_nodup (by simp [hbu])
    · simp [A']
    · intro c _ hcb; simp [A', updL_ne _ _ _ _ hcb]
    · simp only [A', hu]
      simpa using (List.perm_middle (a := b) (l₁ := A.fullL) (l₂ := rest)).symm
  · intro _; rw [hfr.blockCount, hs2.blockCount, hs1.blockCount]
  · intro he; rw [hu] at he; cases he

/-! ### path 2: no used block, the cached free block is taken -/

theorem two_le_length {l : List Nat} (h : 2 ≤ l.length) : ∃ a b t, l = a :: b :: t := by
  match l, h with
  | a :: b :: t, _ => exact ⟨a, b, t, rfl⟩

theorem alloc_cached {bs : Nat} {s : State} {A : Abs} {g : Nat}
    (h : Inv bs s A) (hu : A.usedL = []) (hg : s.freeBlock = g) (hg0 : g ≠ 0) :
    ∃ A', AllocSpec bs s A (alloc bs s) A' := by
  have hfne : s.freeBlock ≠ 0 := by rw [hg]; exact hg0
  have hgmem : g ∈ A.blocks s := by simp [Abs.blocks, fbL, hg, hg0]
  have hok := h.ok g hgmem
  have hroot : s.used.root = 0 := by rw [h.usedDL.root, hu]; rfl
  have hUg : A.U g = [] := by have := h.freeP hfne; rwa [hg] at this
  obtain ⟨fd, m, u, hF⟩ : ∃ fd m u, A.F g = fd :: m :: u := by
    apply two_le_length
    have := hok.len; rw [hUg] at this; simp at this; rw [this]; exact h.bs2
  have hfree := hok.rings.free
  rw [hF] at hfree
  obtain ⟨_, hhd, hring⟩ := hfree
  have hnx : s.nd.get g fd = m := hring.2.1
  have hgfull : g ∉ A.fullL := fun hm => h.full_ne_free hm hfne hg
  have hblk : A.blocks s = A.fullL ++ [g] := by simp [Abs.blocks, fbL, hu, hg, hg0]
  have hnd : (A.fullL ++ [g]).Nodup := by rw [← hblk]; exact h.nodup
  have h0 : 0 ∉ A.blocks s := h.zero_notin
  -- the state after `m_FreeBlock = nullptr`
  generalize hs0def : ({ s with freeBlock := 0 } : State) = s0
  have hl0 : ListFrame s s0 := by subst hs0def; exact ⟨rfl, rfl, rfl, rfl, rfl, rfl⟩
  have hDLu0 : DL s0.bnext.get s0.bprev.get s0.used [] := by
    subst hs0def; simpa [hu] using h.usedDL
  have hDLf0 : DL s0.bnext.get s0.bprev.get s0.full A.fullL := by subst hs0def; exact h.fullDL
  obtain ⟨hu1, hf1, hl1, hs1⟩ := usedAddFirst_spec (X := []) (Y := A.fullL) (x := g) hDLu0 hDLf0
    (by simp) (by
      have : (g :: A.fullL).Perm (A.fullL ++ [g]) := (List.perm_append_singleton g A.fullL).symm
      simpa using this.nodup_iff.2 hnd)
  generalize hs1def : setUsedK s0 ((usedK s0).addFirst g) = s1 at hu1 hf1 hl1 hs1
  have hr1 : Rings s1 g [] (fd :: m :: u) := by
    have := hok.rings; rw [hUg, hF] at this
    exact (this.listFrame hl0).listFrame hl1
  obtain ⟨hp, hr2, hfr⟩ := allocTail_rings hr1
  have halloc : alloc bs s = allocTail s1 g fd m := by
    unfold alloc
    rw [if_neg (fun hn => hn hroot), if_pos hfne]
    simp only [hg]
    rw [hs0def, hhd, hnx, hs1def]
  rw [halloc]
  let A' : Abs := { usedL := [g], fullL := A.fullL, U := updL A.U g [fd], F := updL A.F g (m :: u) }
  have hfb : (allocTail s1 g fd m).1.freeBlock = 0 := by
    rw [hfr.freeBlock, hs1.freeBlock]; subst hs0def; rfl
  have hbc : (allocTail s1 g fd m).1.blockCount = s.blockCount := by
    rw [hfr.blockCount, hs1.blockCount]; subst hs0def; rfl
  have hni : (allocTail s1 g fd m).1.nextId = s.nextId := by
    rw [hfr.nextId, hs1.nextId]; subst hs0def; rfl
  have hbl : (A'.blocks (allocTail s1 g fd m).1).Perm (A.blocks s) := by
    rw [hblk]
    simp only [A', Abs.blocks, fbL, hfb, if_true, List.append_nil]
    simpa using (List.perm_append_singleton g A.fullL).symm
  refine ⟨A', ⟨?_, ?_, ?_, ?_, ?_⟩⟩
  · refine ⟨h.bs2, by rw [hni]; exact h.idpos, ?_, ?_, ?_, ?_, ?_, ?_, ?_, ?_, ?_⟩
    · rw [hfr.bnext, hfr.bprev, hfr.used]; exact hu1
    · rw [hfr.bnext, hfr.bprev, hfr.full]; exact hf1
    · exact hbl.nodup_iff.2 h.nodup
    · intro c hc; rw [hni]; exact h.pos c (hbl.mem_iff.1 hc)
    · rw [hbl.length_eq, hbc]; exact h.cnt
    · apply ok_transfer h (b := g)
      · intro c hc _; exact hbl.mem_iff.1 hc
      · exact ((OtherRings.ofList g hl0).trans (OtherRings.ofList g hl1)).trans (OtherRings.ofBlock hfr)
      · intro c hc; simp [A', updL_ne _ _ _ _ hc]
      · intro c hc; simp [A', updL_ne _ _ _ _ hc]
      · simp only [A', updL_same]
        apply hok.of_perm (by simpa using hr2)
        rw [hUg, hF]; simp
    · intro c hc
      have : c = g := by simpa [A'] using hc
      subst this; simp [A']
    · intro c hc
      have hcf : c ∈ A.fullL := hc
      have hcg : c ≠ g := fun e => hgfull (e ▸ hcf)
      simp only [A', updL_ne _ _ _ _ hcg]; exact h.fullP c hcf
    · intro hf; exact absurd hfb hf
  · rw [hp]
    intro hm
    have := (mem_slotsOf.1 hm).1
    simp [hu] at this
    exact hgfull this
  · rw [hp]
    apply slotsOf_join (L := A.fullL ++ A.usedL) (b := g) (x := fd)
    · simp only [A', hu, List.append_nil]
      exact List.perm_append_singleton g A.fullL
    · simpa [hu] using hgfull
    · simp [A']
    · intro c hc
      have hcg : c ≠ g := fun e => hgfull (by simpa [hu, e] using hc)
      simp [A', updL_ne _ _ _ _ hcg]
  · intro _; exact hbc
  · intro _ he; exact absurd he hfne

/-! ### path 3: no used block, no cached block: a new block is constructed -/

theorem alloc_new {bs : Nat} {s : State} {A : Abs}
    (h : Inv bs s A) (hu : A.usedL = []) (hfb0 : s.freeBlock = 0) :
    ∃ A', AllocSpec bs s A (alloc bs s) A' := by
  have hroot : s.used.root = 0 := by rw [h.usedDL.root, hu]; rfl
  have hblk : A.blocks s = A.fullL := by simp [Abs.blocks, fbL, hu, hfb0]
  have h0 : 0 ∉ A.blocks s := h.zero_notin
  obtain ⟨b, hbdef⟩ : ∃ b, s.nextId = b := ⟨_, rfl⟩
  have hlt : ∀ c ∈ A.fullL, c < b := fun c hc => by
    rw [← hbdef]; exact (h.pos c (by rw [hblk]; exact hc)).2
  have hbfull : b ∉ A.fullL := fun hm => Nat.lt_irrefl _ (hlt _ hm)
  have hbpos : 0 < b := by rw [← hbdef]; exact h.idpos
  generalize hs0def : ({ s with blockCount := s.blockCount + 1 } : State) = s0
  have hl0 : ListFrame s s0 := by subst hs0def; exact ⟨rfl, rfl, rfl, rfl, rfl, rfl⟩
  have hid0 : s0.nextId = s.nextId := by subst hs0def; rfl
  obtain ⟨hb, hr1, hn1⟩ := newBlock_rings h.bs2 s0
  rw [hid0, hbdef] at hb hr1 hn1
  generalize hs1def : (newBlock bs s0).1 = s1 at hr1 hn1
  have hDLu1 : DL s1.bnext.get s1.bprev.get s1.used [] := by
    refine ⟨?_, fun hne => absurd rfl hne, trivial⟩
    rw [hn1.used]; subst hs0def; exact hroot
  have hDLf1 : DL s1.bnext.get s1.bprev.get s1.full A.fullL := by
    rw [hn1.full]
    have : DL s0.bnext.get s0.bprev.get s0.full A.fullL := by subst hs0def; exact h.fullDL
    apply this.congr
    intro y hy
    have hyb : y ≠ b := fun e => hbfull (e ▸ hy)
    exact ⟨hn1.bnext y hyb, hn1.bprev y hyb⟩
  obtain ⟨hu2, hf2, hl2, hs2⟩ := usedAddFirst_spec (X := []) (Y := A.fullL) (x := b) hDLu1 hDLf1
    (by simp) (by
      have := h.nodup; rw [hblk] at this
      simpa using ⟨hbfull, this⟩)
  generalize hs2def : setUsedK s1 ((usedK s1).addFirst b) = s2 at hu2 hf2 hl2 hs2
  have hrange : List.range' 1 (bs - 1) = 1 :: List.range' 2 (bs - 2) := by
    have : bs - 1 = (bs - 2) + 1 := by have := h.bs2; omega
    rw [this, List.range'_succ]
  have hr2 : Rings s2 b [] (0 :: 1 :: List.range' 2 (bs - 2)) := by
    rw [← hrange]; exact hr1.listFrame hl2
  obtain ⟨hp, hr3, hfr⟩ := allocTail_rings hr2
  have halloc : alloc bs s = allocTail s2 b 0 1 := by
    unfold alloc
    rw [if_neg (fun hn => hn hroot), if_neg (fun hn => hn hfb0)]
    dsimp only
    rw [hs0def, hb, hs1def, hs2def]
  rw [halloc]
  let A' : Abs := { usedL := [b], fullL := A.fullL, U := updL A.U b [0],
                    F := updL A.F b (1 :: List.range' 2 (bs - 2)) }
  have hfb : (allocTail s2 b 0 1).1.freeBlock = 0 := by
    rw [hfr.freeBlock, hs2.freeBlock, hn1.freeBlock]; subst hs0def; exact hfb0
  have hbc : (allocTail s2 b 0 1).1.blockCount = s.blockCount + 1 := by
    rw [hfr.blockCount, hs2.blockCount, hn1.blockCount]; subst hs0def; rfl
  have hni : (allocTail s2 b 0 1).1.nextId = b + 1 := by
    rw [hfr.nextId, hs2.nextId, hn1.nextId]
  have hbl : A'.blocks (allocTail s2 b 0 1).1 = b :: A.blocks s := by
    rw [hblk]; simp [A', Abs.blocks, fbL, hfb]
  have hother : OtherRings s (allocTail s2 b 0 1).1 b :=
    (((OtherRings.ofList b hl0).trans (OtherRings.ofNew hn1)).trans (OtherRings.ofList b hl2)).trans
      (OtherRings.ofBlock hfr)
  refine ⟨A', ⟨?_, ?_, ?_, ?_, ?_⟩⟩
  · refine ⟨h.bs2, by rw [hni]; omega, ?_, ?_, ?_, ?_, ?_, ?_, ?_, ?_, ?_⟩
    · rw [hfr.bnext, hfr.bprev, hfr.used]; exact hu2
    · rw [hfr.bnext, hfr.bprev, hfr.full]; exact hf2
    · rw [hbl, hblk]
      have := h.nodup; rw [hblk] at this
      exact List.nodup_cons.2 ⟨hbfull, this⟩
    · intro c hc
      rw [hbl] at hc
      rw [hni]
      rcases List.mem_cons.1 hc with rfl | hc
      · exact ⟨hbpos, Nat.lt_succ_self _⟩
      · have := h.pos c hc; rw [hbdef] at this; exact ⟨this.1, Nat.lt_succ_of_lt this.2⟩
    · rw [hbl, hbc, List.length_cons, h.cnt]
    · apply ok_transfer h (b := b) _ hother
      · intro c hc; simp [A', updL_ne _ _ _ _ hc]
      · intro c hc; simp [A', updL_ne _ _ _ _ hc]
      · simp only [A', updL_same]
        refine ⟨by simpa using hr3, ?_, ?_⟩
        · intro x hx
          have hbs := h.bs2
          simp [List.mem_range'_1] at hx
          omega
        · have hbs := h.bs2
          simp; omega
      · intro c hc hcb
        rw [hbl] at hc
        rcases List.mem_cons.1 hc with rfl | hc
        · exact absurd rfl hcb
        · exact hc
    · intro c hc
      have : c = b := by simpa [A'] using hc
      subst this; simp [A']
    · intro c hc
      have hcf : c ∈ A.fullL := hc
      have hcb : c ≠ b := fun e => hbfull (e ▸ hcf)
      simp only [A', updL_ne _ _ _ _ hcb]; exact h.fullP c hcf
    · intro hf; exact absurd hfb hf
  · rw [hp]
    intro hm
    have := (mem_slotsOf.1 hm).1
    simp [hu] at this
    exact hbfull this
  · rw [hp]
    apply slotsOf_join (L := A.fullL ++ A.usedL) (b := b) (x := 0)
    · simp only [A', hu, List.append_nil]
      exact List.perm_append_singleton b A.fullL
    · simpa [hu] using hbfull
    · simp [A']
    · intro c hc
      have hcb : c ≠ b := fun e => hbfull (by simpa [hu, e] using hc)
      simp [A', updL_ne _ _ _ _ hcb]
  · intro hk
    rcases hk with hk | hk
    · exact absurd hu hk
    · exact absurd hfb0 hk
  · intro _ _; exact hbc

/-! ### all paths -/

theorem alloc_spec {bs : Nat} {s : State} {A : Abs} (h : Inv bs s A) :
    ∃ A', AllocSpec bs s A (alloc bs s) A' := by
  cases hu : A.usedL with
  | nil =>
    by_cases hf : s.freeBlock = 0
    · exact alloc_new h hu hf
    · exact alloc_cached h hu rfl hf
  | cons b rest =>
    have hbu : b ∈ A.usedL := by rw [hu]; simp
    have hF := (h.usedP b hbu).2
    cases hFb : A.F b with
    | nil => exact absurd hFb hF
    | cons fd F' =>
      cases F' with
      | nil => exact alloc_last h hu hFb
      | cons m u => exact alloc_more h hu hFb

end Morfuse.BlockAlloc
