import MorfuseModel.BlockAlloc.Model
import MorfuseModel.BlockAlloc.RingLemmas
/-!
# One block: the used ring and the free ring share `next_data[] / prev_data[]`

`Rings s b U F`: in block `b` the used slots form the ring `U` (head first, empty iff
`has_used_data` is clear) and the free slots form the ring `F`, and no index is in both.
Each statement group of `Alloc` / `Free` is a lemma `Rings … → Rings …` together with a frame
fact (`BlockFrame`: nothing outside block `b`'s ring fields moves).
-/
namespace Morfuse.BlockAlloc
open Morfuse.Ring

def RingOf (nx pv : Nat → Nat) (hd flag : Nat) : List Nat → Prop
  | [] => flag = 0
  | a :: t => flag = 1 ∧ hd = a ∧ IsRing nx pv a t

theorem RingOf.congr {nx pv nx' pv' : Nat → Nat} {hd flag hd' flag' : Nat} {L : List Nat}
    (h : RingOf nx pv hd flag L) (hh : hd' = hd) (hf : flag' = flag)
    (hc : ∀ x ∈ L, nx' x = nx x ∧ pv' x = pv x) : RingOf nx' pv' hd' flag' L := by
  cases L with
  | nil => simpa [RingOf, hf] using h
  | cons a t =>
    obtain ⟨h1, h2, h3⟩ := h
    exact ⟨by rw [hf]; exact h1, by rw [hh]; exact h2,
      h3.congr (fun x hx => (hc x hx).1) (fun x hx => (hc x hx).2)⟩

structure Rings (s : State) (b : Nat) (U F : List Nat) : Prop where
  used : RingOf (s.nd.row b) (s.pd.row b) (s.usedData.get b) (s.hasUsed.get b) U
  free : RingOf (s.nd.row b) (s.pd.row b) (s.freeData.get b) (s.hasFree.get b) F
  nodup : (U ++ F).Nodup

/-- nothing but the ring fields of block `b` differs between `s` and `s'` -/
structure BlockFrame (s s' : State) (b : Nat) : Prop where
  nd : ∀ b', b' ≠ b → s'.nd.row b' = s.nd.row b'
  pd : ∀ b', b' ≠ b → s'.pd.row b' = s.pd.row b'
  usedData : ∀ b', b' ≠ b → s'.usedData.get b' = s.usedData.get b'
  hasUsed : ∀ b', b' ≠ b → s'.hasUsed.get b' = s.hasUsed.get b'
  freeData : ∀ b', b' ≠ b → s'.freeData.get b' = s.freeData.get b'
  hasFree : ∀ b', b' ≠ b → s'.hasFree.get b' = s.hasFree.get b'
  bnext : s'.bnext = s.bnext
  bprev : s'.bprev = s.bprev
  used : s'.used = s.used
  full : s'.full = s.full
  freeBlock : s'.freeBlock = s.freeBlock
  blockCount : s'.blockCount = s.blockCount
  nextId : s'.nextId = s.nextId

theorem BlockFrame.refl (s : State) (b : Nat) : BlockFrame s s b := by
  constructor <;> intros <;> rfl

theorem BlockFrame.trans {s s' s'' : State} {b : Nat} (h1 : BlockFrame s s' b) (h2 : BlockFrame s' s'' b) :
    BlockFrame s s'' b := by
  constructor
  · intro b' hb; rw [h2.nd b' hb, h1.nd b' hb]
  · intro b' hb; rw [h2.pd b' hb, h1.pd b' hb]
  · intro b' hb; rw [h2.usedData b' hb, h1.usedData b' hb]
  · intro b' hb; rw [h2.hasUsed b' hb, h1.hasUsed b' hb]
  · intro b' hb; rw [h2.freeData b' hb, h1.freeData b' hb]
  · intro b' hb; rw [h2.hasFree b' hb, h1.hasFree b' hb]
  · rw [h2.bnext, h1.bnext]
  · rw [h2.bprev, h1.bprev]
  · rw [h2.used, h1.used]
  · rw [h2.full, h1.full]
  · rw [h2.freeBlock, h1.freeBlock]
  · rw [h2.blockCount, h1.blockCount]
  · rw [h2.nextId, h1.nextId]

theorem Rings.frame {s s' : State} {b b' : Nat} {U F : List Nat} (hf : BlockFrame s s' b) (hb : b' ≠ b)
    (h : Rings s b' U F) : Rings s' b' U F := by
  refine ⟨?_, ?_, h.nodup⟩
  · rw [hf.nd b' hb, hf.pd b' hb, hf.usedData b' hb, hf.hasUsed b' hb]; exact h.used
  · rw [hf.nd b' hb, hf.pd b' hb, hf.freeData b' hb, hf.hasFree b' hb]; exact h.free

/-- the ring fields did not move at all (only block-list fields did) -/
structure ListFrame (s s' : State) : Prop where
  nd : s'.nd = s.nd
  pd : s'.pd = s.pd
  usedData : s'.usedData = s.usedData
  hasUsed : s'.hasUsed = s.hasUsed
  freeData : s'.freeData = s.freeData
  hasFree : s'.hasFree = s.hasFree

theorem Rings.listFrame {s s' : State} {b : Nat} {U F : List Nat} (hf : ListFrame s s')
    (h : Rings s b U F) : Rings s' b U F := by
  refine ⟨?_, ?_, h.nodup⟩
  · rw [hf.nd, hf.pd, hf.usedData, hf.hasUsed]; exact h.used
  · rw [hf.nd, hf.pd, hf.freeData, hf.hasFree]; exact h.free

/-! ### membership helpers -/

theorem Rings.disj {s : State} {b : Nat} {U F : List Nat} (h : Rings s b U F) :
    ∀ x, x ∈ U → x ∈ F → False :=
  fun x hu hf => (List.nodup_append.1 h.nodup).2.2 x hu x hf rfl

/-! ### `popFree`: unlink the free head (the free ring has at least two nodes) -/

theorem popFree_rings {s : State} {b fd m : Nat} {u U : List Nat} (h : Rings s b U (fd :: m :: u)) :
    Rings (popFree s b fd m) b U (m :: u) ∧ BlockFrame s (popFree s b fd m) b ∧ fd ∉ U ++ m :: u := by
  obtain ⟨hU, hF, hnd⟩ := h
  obtain ⟨_, _, hring⟩ := hF
  obtain ⟨e, hr'⟩ := ring_pop_head hring
  have hpvmem : s.pd.row b fd ∈ fd :: m :: u := (ring_links hring fd (by simp)).2.2.2
  have hndF : (fd :: m :: u).Nodup := hring.1
  have hfd : fd ∉ U ++ m :: u := by
    intro hm
    rcases List.mem_append.1 hm with h1 | h1
    · exact (List.nodup_append.1 hnd).2.2 fd h1 fd (by simp) rfl
    · exact (List.nodup_cons.1 hndF).1 h1
  have hrowN : (popFree s b fd m).nd.row b = upd (s.nd.row b) (s.pd.row b fd) m := by
    simp [popFree, Mem2.row_set_same, Mem2.get_eq_row]
  have hrowP : (popFree s b fd m).pd.row b = upd (s.pd.row b) m (s.pd.row b fd) := by
    simp [popFree, Mem2.row_set_same, Mem2.get_eq_row]
  refine ⟨⟨?_, ?_, ?_⟩, ?_, hfd⟩
  · apply hU.congr (by simp [popFree]) (by simp [popFree])
    intro x hx
    have hxF : x ∉ fd :: m :: u := fun hm => (List.nodup_append.1 hnd).2.2 x hx x hm rfl
    have h1 : x ≠ s.pd.row b fd := fun e => hxF (e ▸ hpvmem)
    have h2 : x ≠ m := fun e => hxF (by simp [e])
    rw [hrowN, hrowP]; simp [upd, h1, h2]
  · rw [hrowN, hrowP]
    rw [e] at hr'
    exact ⟨by simp [popFree], by simp [popFree], hr'⟩
  · have : (U ++ fd :: m :: u).Perm (fd :: (U ++ m :: u)) := List.perm_middle
    exact (List.nodup_cons.1 (this.nodup_iff.1 hnd)).2
  · constructor <;> intros <;> simp_all [popFree, Mem2.row_set_ne, Mem.get_set_ne]

/-! ### `startUsed`: the first used slot of a block -/

theorem startUsed_rings {s : State} {b fd : Nat} {G : List Nat} (h : Rings s b [] G) (hfd : fd ∉ G) :
    Rings (startUsed s b fd) b [fd] G ∧ BlockFrame s (startUsed s b fd) b := by
  have hrowN : (startUsed s b fd).nd.row b = upd (s.nd.row b) fd fd := by
    simp [startUsed, Mem2.row_set_same]
  have hrowP : (startUsed s b fd).pd.row b = upd (s.pd.row b) fd fd := by
    simp [startUsed, Mem2.row_set_same]
  refine ⟨⟨?_, ?_, ?_⟩, ?_⟩
  · rw [hrowN, hrowP]
    exact ⟨by simp [startUsed], by simp [startUsed], ring_self _ _ _⟩
  · apply h.free.congr (by simp [startUsed]) (by simp [startUsed])
    intro x hx
    have : x ≠ fd := fun e => hfd (e ▸ hx)
    rw [hrowN, hrowP]; simp [upd, this]
  · have := h.nodup
    simp only [List.nil_append] at this
    simpa using ⟨hfd, this⟩
  · constructor <;> intros <;> simp_all [startUsed, Mem2.row_set_ne, Mem.get_set_ne]

/-! ### `takeFree`: append to a non-empty used ring -/

theorem takeFree_rings {s : State} {b fd a : Nat} {t G : List Nat} (h : Rings s b (a :: t) G)
    (hfd : fd ∉ (a :: t) ++ G) :
    (takeFree s b fd).2 = (b, fd) ∧ Rings (takeFree s b fd).1 b (a :: t ++ [fd]) G ∧
      BlockFrame s (takeFree s b fd).1 b := by
  obtain ⟨hU, hG, hnd⟩ := h
  obtain ⟨hflag, hhd, hring⟩ := hU
  have hfdU : fd ∉ a :: t := fun hm => hfd (List.mem_append_left _ hm)
  have hfdG : fd ∉ G := fun hm => hfd (List.mem_append_right _ hm)
  have hpvmem : s.pd.row b a ∈ a :: t := (ring_links hring a (by simp)).2.2.2
  have hrowN : (takeFree s b fd).1.nd.row b = upd (upd (s.nd.row b) (s.pd.row b a) fd) fd a := by
    simp [takeFree, Mem2.row_set_same, Mem2.get_eq_row, hhd]
  have hrowP : (takeFree s b fd).1.pd.row b = upd (upd (s.pd.row b) a fd) fd (s.pd.row b a) := by
    simp [takeFree, Mem2.row_set_same, Mem2.get_eq_row, hhd]
  refine ⟨rfl, ⟨?_, ?_, ?_⟩, ?_⟩
  · rw [hrowN, hrowP]
    exact ⟨by simpa [takeFree] using hflag, by simpa [takeFree] using hhd, ring_push hring hfdU⟩
  · apply hG.congr (by simp [takeFree]) (by simp [takeFree])
    intro x hx
    have hxU : x ∉ a :: t := fun hm => (List.nodup_append.1 hnd).2.2 x hm x hx rfl
    have h1 : x ≠ s.pd.row b a := fun e => hxU (e ▸ hpvmem)
    have h2 : x ≠ a := fun e => hxU (by simp [e])
    have h3 : x ≠ fd := fun e => hfdG (e ▸ hx)
    rw [hrowN, hrowP]; simp [upd, h1, h2, h3]
  · have : ((a :: t ++ [fd]) ++ G).Perm (fd :: ((a :: t) ++ G)) := by
      have : (a :: t ++ [fd]) ++ G = (a :: t) ++ fd :: G := by simp
      rw [this]; exact List.perm_middle
    exact this.nodup_iff.2 (List.nodup_cons.2 ⟨hfd, hnd⟩)
  · constructor <;> intros <;> simp_all [takeFree, Mem2.row_set_ne, Mem.get_set_ne]

/-! ### `pushFree`: append to a non-empty free ring -/

theorem pushFree_rings {s : State} {b i f : Nat} {t U : List Nat} (h : Rings s b U (f :: t))
    (hi : i ∉ U ++ f :: t) :
    Rings (pushFree s b i) b U (f :: t ++ [i]) ∧ BlockFrame s (pushFree s b i) b := by
  obtain ⟨hU, hF, hnd⟩ := h
  obtain ⟨hflag, hhd, hring⟩ := hF
  have hiF : i ∉ f :: t := fun hm => hi (List.mem_append_right _ hm)
  have hiU : i ∉ U := fun hm => hi (List.mem_append_left _ hm)
  have hpvmem : s.pd.row b f ∈ f :: t := (ring_links hring f (by simp)).2.2.2
  have hrowN : (pushFree s b i).nd.row b = upd (upd (s.nd.row b) (s.pd.row b f) i) i f := by
    simp [pushFree, Mem2.row_set_same, Mem2.get_eq_row, hhd]
  have hrowP : (pushFree s b i).pd.row b = upd (upd (s.pd.row b) f i) i (s.pd.row b f) := by
    simp [pushFree, Mem2.row_set_same, Mem2.get_eq_row, hhd]
  refine ⟨⟨?_, ?_, ?_⟩, ?_⟩
  · apply hU.congr (by simp [pushFree]) (by simp [pushFree])
    intro x hx
    have hxF : x ∉ f :: t := fun hm => (List.nodup_append.1 hnd).2.2 x hx x hm rfl
    have h1 : x ≠ s.pd.row b f := fun e => hxF (e ▸ hpvmem)
    have h2 : x ≠ f := fun e => hxF (by simp [e])
    have h3 : x ≠ i := fun e => hiU (e ▸ hx)
    rw [hrowN, hrowP]; simp [upd, h1, h2, h3]
  · rw [hrowN, hrowP]
    exact ⟨by simpa [pushFree] using hflag, by simpa [pushFree] using hhd, ring_push hring hiF⟩
  · have : (U ++ (f :: t ++ [i])).Perm (i :: (U ++ f :: t)) := by
      have : U ++ (f :: t ++ [i]) = (U ++ f :: t) ++ [i] := by simp
      rw [this]; exact List.perm_append_singleton _ _
    exact this.nodup_iff.2 (List.nodup_cons.2 ⟨hi, hnd⟩)
  · constructor <;> intros <;> simp_all [pushFree, Mem2.row_set_ne, Mem.get_set_ne]

/-! ### `unlinkUsed`: remove a used slot that is not alone; its successor becomes the used head -/

theorem unlinkUsed_rings {s : State} {b i : Nat} {U F : List Nat} (h : Rings s b U F) (hi : i ∈ U)
    (hne : s.nd.get b i ≠ i) :
    ∃ u, Rings (unlinkUsed s b i (s.nd.get b i)) b (s.nd.get b i :: u) F ∧
      (i :: s.nd.get b i :: u).Perm U ∧ BlockFrame s (unlinkUsed s b i (s.nd.get b i)) b := by
  obtain ⟨hU, hF, hnd⟩ := h
  cases U with
  | nil => simp at hi
  | cons a t =>
    obtain ⟨hflag, hhd, hring⟩ := hU
    obtain ⟨u, hr', hperm⟩ := ring_unlink hring hi hne
    have hlinks := ring_links hring i hi
    have hrowN : (unlinkUsed s b i (s.nd.get b i)).nd.row b =
        upd (s.nd.row b) (s.pd.row b i) (s.nd.row b i) := by
      simp [unlinkUsed, Mem2.row_set_same, Mem2.get_eq_row]
    have hrowP : (unlinkUsed s b i (s.nd.get b i)).pd.row b =
        upd (s.pd.row b) (s.nd.row b i) (s.pd.row b i) := by
      simp [unlinkUsed, Mem2.row_set_same, Mem2.get_eq_row]
    refine ⟨u, ⟨?_, ?_, ?_⟩, hperm, ?_⟩
    · rw [hrowN, hrowP]
      exact ⟨by simp [unlinkUsed], by simp [unlinkUsed, Mem2.get_eq_row], hr'⟩
    · apply hF.congr (by simp [unlinkUsed]) (by simp [unlinkUsed])
      intro x hx
      have hxU : x ∉ a :: t := fun hm => (List.nodup_append.1 hnd).2.2 x hm x hx rfl
      have h1 : x ≠ s.pd.row b i := fun e => hxU (e ▸ hlinks.2.2.2)
      have h2 : x ≠ s.nd.row b i := fun e => hxU (e ▸ hlinks.2.2.1)
      rw [hrowN, hrowP]; simp [upd, h1, h2]
    · have hp : ((i :: s.nd.get b i :: u) ++ F).Perm ((a :: t) ++ F) := hperm.append_right F
      have := hp.nodup_iff.2 hnd
      simp only [List.cons_append, List.nodup_cons] at this
      simpa using this.2
    · constructor <;> intros <;> simp_all [unlinkUsed, Mem2.row_set_ne, Mem.get_set_ne]

/-! ### `startFree`: the first free slot of a block that was full -/

theorem startFree_rings {s : State} {b i : Nat} {U : List Nat} (h : Rings s b U []) (hi : i ∉ U) :
    Rings (startFree s b i) b U [i] ∧ BlockFrame s (startFree s b i) b := by
  have hrowN : (startFree s b i).nd.row b = upd (s.nd.row b) i i := by
    simp [startFree, Mem2.row_set_same]
  have hrowP : (startFree s b i).pd.row b = upd (s.pd.row b) i i := by
    simp [startFree, Mem2.row_set_same]
  refine ⟨⟨?_, ?_, ?_⟩, ?_⟩
  · apply h.used.congr (by simp [startFree]) (by simp [startFree])
    intro x hx
    have : x ≠ i := fun e => hi (e ▸ hx)
    rw [hrowN, hrowP]; simp [upd, this]
  · rw [hrowN, hrowP]
    exact ⟨by simp [startFree], by simp [startFree], ring_self _ _ _⟩
  · have := h.nodup
    simp only [List.append_nil] at this
    rw [List.nodup_append]
    exact ⟨this, by simp, by intro x hx y hy; simp at hy; subst hy; exact fun e => hi (e ▸ hx)⟩
  · constructor <;> intros <;> simp_all [startFree, Mem2.row_set_ne, Mem.get_set_ne]

/-! ### `block_s::block_s()`: all slots in one free ring `0 → 1 → … → bs-1 → 0` -/

theorem initLinks_nd (b : Nat) (nd pd : Mem2) : ∀ (k b' i : Nat),
    (initLinks b k nd pd).1.get b' i = if b' = b ∧ i < k then i + 1 else nd.get b' i
  | 0, _, _ => by simp [initLinks]
  | k + 1, b', i => by
    simp only [initLinks, Mem2.get_set, initLinks_nd b nd pd k b' i]
    by_cases hb : b' = b <;> by_cases hi : i = k <;> by_cases hik : i < k <;> simp [hb, hi, hik] <;> omega

theorem initLinks_pd (b : Nat) (nd pd : Mem2) : ∀ (k b' i : Nat),
    (initLinks b k nd pd).2.get b' i = if b' = b ∧ 0 < i ∧ i ≤ k then i - 1 else pd.get b' i
  | 0, _, _ => by simp [initLinks]; omega
  | k + 1, b', i => by
    simp only [initLinks, Mem2.get_set, initLinks_pd b nd pd k b' i]
    repeat' split
    all_goals first | rfl | omega

theorem path_succ (nx pv : Nat → Nat) : ∀ (k c e : Nat),
    (∀ j, c ≤ j → j < c + k → nx j = j + 1 ∧ pv (j + 1) = j) → nx (c + k) = e → pv e = c + k →
    Path nx pv c (List.range' (c + 1) k) e
  | 0, c, e, _, h1, h2 => by simpa [Path] using ⟨h1, h2⟩
  | k + 1, c, e, h, h1, h2 => by
    simp only [List.range'_succ, Path]
    refine ⟨(h c (Nat.le_refl _) (by omega)).1, (h c (Nat.le_refl _) (by omega)).2, ?_⟩
    apply path_succ nx pv k (c + 1) e
    · intro j hj1 hj2; exact h j (by omega) (by omega)
    · rw [← h1]; congr 1; omega
    · rw [h2]; omega

/-- what `newBlock` leaves outside the new block -/
structure NewFrame (s s' : State) (b : Nat) : Prop where
  nd : ∀ b', b' ≠ b → s'.nd.row b' = s.nd.row b'
  pd : ∀ b', b' ≠ b → s'.pd.row b' = s.pd.row b'
  usedData : ∀ b', b' ≠ b → s'.usedData.get b' = s.usedData.get b'
  hasUsed : ∀ b', b' ≠ b → s'.hasUsed.get b' = s.hasUsed.get b'
  freeData : ∀ b', b' ≠ b → s'.freeData.get b' = s.freeData.get b'
  hasFree : ∀ b', b' ≠ b → s'.hasFree.get b' = s.hasFree.get b'
  bnext : ∀ b', b' ≠ b → s'.bnext.get b' = s.bnext.get b'
  bprev : ∀ b', b' ≠ b → s'.bprev.get b' = s.bprev.get b'
  used : s'.used = s.used
  full : s'.full = s.full
  freeBlock : s'.freeBlock = s.freeBlock
  blockCount : s'.blockCount = s.blockCount
  nextId : s'.nextId = b + 1

theorem newBlock_rings {bs : Nat} (hbs : 2 ≤ bs) (s : State) :
    (newBlock bs s).2 = s.nextId ∧
    Rings (newBlock bs s).1 s.nextId [] (0 :: List.range' 1 (bs - 1)) ∧
    NewFrame s (newBlock bs s).1 s.nextId := by
  have hN : ∀ i, (newBlock bs s).1.nd.row s.nextId i =
      if i = bs - 1 then 0 else if i < bs - 1 then i + 1 else s.nd.get s.nextId i := by
    intro i; simp [newBlock, Mem2.row, Mem2.get_set, initLinks_nd]
  have hP : ∀ i, (newBlock bs s).1.pd.row s.nextId i =
      if i = 0 then bs - 1 else if i ≤ bs - 1 then i - 1 else s.pd.get s.nextId i := by
    intro i; simp only [newBlock, Mem2.row, Mem2.get_set, initLinks_pd, true_and]
    by_cases h0 : i = 0
    · simp [h0]
    · have : 0 < i := by omega
      simp [h0, this]
  refine ⟨rfl, ⟨?_, ?_, ?_⟩, ?_⟩
  · simp [RingOf, newBlock]
  · refine ⟨by simp [newBlock], by simp [newBlock], ?_, ?_⟩
    · rw [List.nodup_cons]
      exact ⟨by simp [List.mem_range'_1], List.nodup_range' (step := 1) (by omega)⟩
    · have := path_succ ((newBlock bs s).1.nd.row s.nextId) ((newBlock bs s).1.pd.row s.nextId) (bs - 1) 0 0
        (by intro j _ hj
            rw [hN, hP]
            have h1 : j ≠ bs - 1 := by omega
            have h2 : j < bs - 1 := by omega
            have h3 : j + 1 ≤ bs - 1 := by omega
            simp [h1, h2, h3])
        (by rw [hN]; simp)
        (by rw [hP]; simp)
      simpa using this
  · simp only [List.nil_append, List.nodup_cons]
    exact ⟨by simp [List.mem_range'_1], List.nodup_range' (step := 1) (by omega)⟩
  · constructor
    · intro b' hb; funext x; simp [newBlock, Mem2.row, Mem2.get_set, initLinks_nd, hb]
    · intro b' hb; funext x; simp [newBlock, Mem2.row, Mem2.get_set, initLinks_pd, hb]
    all_goals (intros; simp_all [newBlock, Mem.get_set_ne])

end Morfuse.BlockAlloc
