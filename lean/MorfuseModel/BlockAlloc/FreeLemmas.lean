import MorfuseModel.BlockAlloc.AllocLemmas
/-!
# `Free` preserves the invariant and removes exactly the freed slot
-/
namespace Morfuse.BlockAlloc
open Morfuse.Ring

structure FreeSpec (bs : Nat) (s : State) (A : Abs) (p : Slot) (s' : State) (A' : Abs) : Prop where
  inv : Inv bs s' A'
  live : A'.live.Perm (A.live.erase p)
  full : A.fullL = [] → A'.fullL = []

theorem mem_split {α : Type} {x : α} {l : List α} (h : x ∈ l) : ∃ S T, l = S ++ x :: T :=
  List.append_of_mem h

/-! ### helpers -/

theorem dropFreeBlock_frame (s : State) : ListFrame s (dropFreeBlock s) ∧
    (dropFreeBlock s).bnext = s.bnext ∧ (dropFreeBlock s).bprev = s.bprev ∧
    (dropFreeBlock s).used = s.used ∧ (dropFreeBlock s).full = s.full ∧
    (dropFreeBlock s).nextId = s.nextId ∧
    (dropFreeBlock s).blockCount = s.blockCount - (fbL s).length := by
  unfold dropFreeBlock fbL
  split
  · rename_i h
    simp only [ne_eq] at h
    exact ⟨⟨rfl, rfl, rfl, rfl, rfl, rfl⟩, rfl, rfl, rfl, rfl, rfl, by simp [h]⟩
  · rename_i h
    simp only [ne_eq, Decidable.not_not] at h
    exact ⟨⟨rfl, rfl, rfl, rfl, rfl, rfl⟩, rfl, rfl, rfl, rfl, rfl, by simp [h]⟩

/-- `m_FreeBlock = block; block->has_used_data = false` on a block whose only used slot goes -/
theorem clearUsed_rings {s : State} {b i g : Nat} {F : List Nat} (h : Rings s b [i] F) :
    Rings { s with freeBlock := g, hasUsed := s.hasUsed.set b 0 } b [] F ∧
      OtherRings s { s with freeBlock := g, hasUsed := s.hasUsed.set b 0 } b := by
  refine ⟨⟨by simp [RingOf], h.free, ?_⟩, ?_⟩
  · have := h.nodup
    simp only [List.cons_append, List.nil_append, List.nodup_cons] at this
    simpa using this.2
  · intro c hc U F' hr
    refine ⟨?_, hr.free, hr.nodup⟩
    have : (s.hasUsed.set b 0).get c = s.hasUsed.get c := Mem.get_set_ne _ _ _ _ hc
    show RingOf _ _ _ ((s.hasUsed.set b 0).get c) U
    rw [this]; exact hr.used

/-- the conditional `SetRoot(block->next_block)` before `Remove(block)` changes nothing -/
theorem remove_setRoot_ite {nx pv : Mem} {l : LL} {S T : List Nat} {x : Nat}
    (h : DL nx.get pv.get l (S ++ x :: T)) (h0 : 0 ∉ S ++ x :: T) (hnd : (S ++ x :: T).Nodup) :
    Lnk.remove (if l.root = x then { nx := nx, pv := pv, l := { l with root := nx.get x } }
                else ⟨nx, pv, l⟩) x = Lnk.remove ⟨nx, pv, l⟩ x := by
  split
  · rename_i hr
    apply remove_after_setRoot _ _ _ _ hr
    obtain ⟨_, hxT⟩ := (seg_append 0 S (x :: T) 0).1 h.seg
    obtain ⟨_, hN, _⟩ := hxT
    rw [hN]
    have hx0 : x ≠ 0 := fun e => h0 (by simp [e])
    have hxT' : x ∉ T := by
      have := (List.nodup_append.1 hnd).2.1
      exact (List.nodup_cons.1 this).1
    cases T with
    | nil => simpa using hx0.symm
    | cons n T' => simp at hxT' ⊢; exact fun e => hxT'.1 e.symm
  · rfl

/-- a live slot: its block is listed and its index is in the block's used ring -/
theorem Inv.live_mem {bs s A} (_ : Inv bs s A) {p : Slot} (hp : p ∈ A.live) :
    p.1 ∈ A.fullL ++ A.usedL ∧ p.2 ∈ A.U p.1 := mem_slotsOf.1 hp

theorem Inv.block_of_live {bs s A} (h : Inv bs s A) {b : Nat} (hb : b ∈ A.fullL ++ A.usedL) :
    b ∈ A.blocks s := by
  rcases List.mem_append.1 hb with hb | hb
  · exact h.blocks_full b hb
  · exact h.blocks_used b hb

/-! ### path 1: the only used slot of its block -/

theorem free_only {bs : Nat} {s : State} {A : Abs} {b i : Nat} (h : Inv bs s A)
    (hp : (b, i) ∈ A.live) (hnx : s.nd.get b i = i) :
    ∃ A', FreeSpec bs s A (b, i) (free bs s (b, i)) A' := by
  obtain ⟨hbL, hiU⟩ := h.live_mem hp
  simp only at hbL hiU
  have hbmem := h.block_of_live hbL
  have hok := h.ok b hbmem
  -- the used ring is `[i]`
  have hUb : A.U b = [i] := by
    cases hU : A.U b with
    | nil => rw [hU] at hiU; simp at hiU
    | cons a t =>
      have := hok.rings.used; rw [hU] at this
      obtain ⟨ht, hia⟩ := ring_alone this.2.2 (by rw [← hU]; exact hiU) hnx
      rw [ht, hia]
  have hbfull : b ∉ A.fullL := by
    intro hm
    have := hok.len
    rw [hUb, h.fullP b hm] at this
    have := h.bs2
    simp at *; omega
  have hbu : b ∈ A.usedL := by
    rcases List.mem_append.1 hbL with hm | hm
    · exact absurd hm hbfull
    · exact hm
  obtain ⟨S, T, hu⟩ := mem_split hbu
  obtain ⟨f, t', hF⟩ : ∃ f t', A.F b = f :: t' := by
    cases hF : A.F b with
    | nil => exact absurd hF (h.usedP b hbu).2
    | cons f t' => exact ⟨f, t', rfl⟩
  have h0 : 0 ∉ A.blocks s := h.zero_notin
  have hb0 : b ≠ 0 := fun e => h0 (e ▸ hbmem)
  have hnduf := h.nodup_uf
  rw [hu] at hnduf
  have hDLu : DL s.bnext.get s.bprev.get s.used (S ++ b :: T) := by rw [← hu]; exact h.usedDL
  obtain ⟨hu1, hf1, hl1, hs1⟩ := usedRemove_spec (Y := A.fullL) hDLu h.fullDL
    (by rw [← hu]; exact fun hm => h0 (h.blocks_used 0 hm)) hnduf
  generalize hs1def : setUsedK s ((usedK s).remove b) = s1 at hu1 hf1 hl1 hs1
  obtain ⟨hl2, e1, e2, e3, e4, e5, e6⟩ := dropFreeBlock_frame s1
  generalize hs2def : dropFreeBlock s1 = s2 at hl2 e1 e2 e3 e4 e5 e6
  have hr2 : Rings s2 b [i] (f :: t') := by
    have := hok.rings; rw [hUb, hF] at this
    exact (this.listFrame hl1).listFrame hl2
  obtain ⟨hr3, ho3⟩ := clearUsed_rings (g := b) hr2
  generalize hs3def : ({ s2 with freeBlock := b, hasUsed := s2.hasUsed.set b 0 } : State) = s3 at hr3 ho3
  have hiF : i ∉ [] ++ f :: t' := by
    have := hok.rings.disj i
    rw [hUb, hF] at this
    simpa using fun hm => this (by simp) hm
  obtain ⟨hr4, hfr4⟩ := pushFree_rings hr3 hiF
  have hfree : free bs s (b, i) = pushFree s3 b i := by
    unfold free
    simp only [hnx, if_true]
    rw [hs1def, hs2def, hs3def]
  rw [hfree]
  let A' : Abs := { usedL := S ++ T, fullL := A.fullL, U := updL A.U b [], F := updL A.F b (A.F b ++ [i]) }
  -- scalars and lists of the final state
  have hfb : (pushFree s3 b i).freeBlock = b := by rw [hfr4.freeBlock, ← hs3def]
  have hni : (pushFree s3 b i).nextId = s.nextId := by
    rw [hfr4.nextId, ← hs3def]; show s2.nextId = _; rw [e5, hs1.nextId]
  have hbc : (pushFree s3 b i).blockCount = s.blockCount - (fbL s).length := by
    rw [hfr4.blockCount, ← hs3def]; show s2.blockCount = _
    rw [e6, hs1.blockCount]; simp [fbL, hs1.freeBlock]
  have hbn : (pushFree s3 b i).bnext = s1.bnext := by rw [hfr4.bnext, ← hs3def]; exact e1
  have hbp : (pushFree s3 b i).bprev = s1.bprev := by rw [hfr4.bprev, ← hs3def]; exact e2
  have hus : (pushFree s3 b i).used = s1.used := by rw [hfr4.used, ← hs3def]; exact e3
  have hfu : (pushFree s3 b i).full = s1.full := by rw [hfr4.full, ← hs3def]; exact e4
  -- blocks
  have hB0 : A.blocks s = ((S ++ b :: T) ++ A.fullL) ++ fbL s := by simp [Abs.blocks, hu]
  have hbl : (A'.blocks (pushFree s3 b i)).Perm ((S ++ b :: T) ++ A.fullL) := by
    simp only [A', Abs.blocks, fbL, hfb, hb0, if_false]
    have : (S ++ T ++ A.fullL ++ [b]).Perm (b :: (S ++ T ++ A.fullL)) := List.perm_append_singleton _ _
    refine this.trans ?_
    have : S ++ b :: T ++ A.fullL = S ++ b :: (T ++ A.fullL) := by simp
    rw [this]
    have : S ++ T ++ A.fullL = S ++ (T ++ A.fullL) := by simp
    rw [this]
    exact List.perm_middle.symm
  have hsub : ∀ c ∈ A'.blocks (pushFree s3 b i), c ∈ A.blocks s := by
    intro c hc; rw [hB0]; exact List.mem_append_left _ (hbl.mem_iff.1 hc)
  have hother : OtherRings s (pushFree s3 b i) b :=
    (((OtherRings.ofList b hl1).trans (OtherRings.ofList b hl2)).trans ho3).trans (OtherRings.ofBlock hfr4)
  have hbS : b ∉ S ++ T := by
    have := (List.nodup_append.1 hnduf).1
    intro hm
    have h2 : (S ++ b :: T).Perm (b :: (S ++ T)) := List.perm_middle
    exact (List.nodup_cons.1 (h2.nodup_iff.1 this)).1 hm
  refine ⟨A', ⟨?_, ?_, fun he => he⟩⟩
  · refine ⟨h.bs2, by rw [hni]; exact h.idpos, ?_, ?_, ?_, ?_, ?_, ?_, ?_, ?_, ?_⟩
    · rw [hbn, hbp, hus]; exact hu1
    · rw [hbn, hbp, hfu]; exact hf1
    · apply hbl.nodup_iff.2
      have := h.nodup; rw [hB0] at this
      exact (List.nodup_append.1 this).1
    · intro c hc; rw [hni]; exact h.pos c (hsub c hc)
    · rw [hbl.length_eq, hbc, h.cnt, hB0]; simp; omega
    · apply ok_transfer h (b := b) (fun c hc _ => hsub c hc) hother
      · intro c hc; simp [A', updL_ne _ _ _ _ hc]
      · intro c hc; simp [A', updL_ne _ _ _ _ hc]
      · simp only [A', updL_same]
        apply hok.of_perm (by rw [hF]; exact hr4)
        rw [hUb, hF]
        simpa using (List.perm_append_singleton i (f :: t'))
    · intro c hc
      have hcu : c ∈ A.usedL := by
        rw [hu]
        rcases List.mem_append.1 hc with hm | hm
        · exact List.mem_append_left _ hm
        · exact List.mem_append_right _ (List.mem_cons_of_mem _ hm)
      have hcb : c ≠ b := fun e => hbS (e ▸ hc)
      simp only [A', updL_ne _ _ _ _ hcb]; exact h.usedP c hcu
    · intro c hc
      have hcf : c ∈ A.fullL := hc
      have hcb : c ≠ b := fun e => hbfull (e ▸ hcf)
      simp only [A', updL_ne _ _ _ _ hcb]; exact h.fullP c hcf
    · intro _; rw [hfb]; simp [A']
  · apply slotsOf_leave (L := A.fullL ++ A.usedL) (b := b) (x := i)
    · rw [hu]
      have : A.fullL ++ (S ++ b :: T) = (A.fullL ++ S) ++ b :: T := by simp
      rw [this]
      have : A.fullL ++ (S ++ T) = (A.fullL ++ S) ++ T := by simp
      simp only [A']
      rw [this]
      exact List.perm_middle
    · simp only [A']
      intro hm
      rcases List.mem_append.1 hm with hm | hm
      · exact hbfull hm
      · exact hbS hm
    · exact hUb
    · intro c hc
      have hcb : c ≠ b := by
        intro e
        rcases List.mem_append.1 hc with hm | hm
        · exact hbfull (e ▸ hm)
        · exact hbS (e ▸ hm)
      simp [A', updL_ne _ _ _ _ hcb]

/-! ### path 2a: other used slots remain and the block already has free slots -/

theorem free_more {bs : Nat} {s : State} {A : Abs} {b i : Nat} (h : Inv bs s A)
    (hp : (b, i) ∈ A.live) (hnx : s.nd.get b i ≠ i) (hflag : s.hasFree.get b ≠ 0) :
    ∃ A', FreeSpec bs s A (b, i) (free bs s (b, i)) A' := by
  obtain ⟨hbL, hiU⟩ := h.live_mem hp
  simp only at hbL hiU
  have hbmem := h.block_of_live hbL
  have hok := h.ok b hbmem
  obtain ⟨u, hr1, hperm, hfr1⟩ := unlinkUsed_rings hok.rings hiU hnx
  generalize hndef : s.nd.get b i = n at hr1 hperm hfr1 hnx
  generalize hs1def : unlinkUsed s b i n = s1 at hr1 hfr1
  have hflag1 : s1.hasFree.get b = s.hasFree.get b := by subst hs1def; simp [unlinkUsed]
  obtain ⟨f, t', hF⟩ : ∃ f t', A.F b = f :: t' := by
    cases hF : A.F b with
    | nil => have := hok.rings.free; rw [hF] at this; exact absurd this hflag
    | cons f t' => exact ⟨f, t', rfl⟩
  have hbfull : b ∉ A.fullL := fun hm => by
    have := h.fullP b hm; rw [hF] at this; cases this
  have hbu : b ∈ A.usedL := by
    rcases List.mem_append.1 hbL with hm | hm
    · exact absurd hm hbfull
    · exact hm
  have hndU : (A.U b).Nodup := (List.nodup_append.1 hok.rings.nodup).1
  have hi_nu : i ∉ n :: u := (List.nodup_cons.1 (hperm.nodup_iff.2 hndU)).1
  have hiF : i ∉ (n :: u) ++ f :: t' := by
    intro hm
    rcases List.mem_append.1 hm with hm | hm
    · exact hi_nu hm
    · exact hok.rings.disj i hiU (by rw [hF]; exact hm)
  rw [hF] at hr1
  obtain ⟨hr2, hfr2⟩ := pushFree_rings hr1 hiF
  have hfree : free bs s (b, i) = pushFree s1 b i := by
    unfold free
    simp only [hndef, hnx, if_false, hs1def, hflag1, ne_eq, hflag, not_false_eq_true, if_true]
  rw [hfree]
  have hfr := hfr1.trans hfr2
  let A' : Abs := { A with U := updL A.U b (n :: u), F := updL A.F b (A.F b ++ [i]) }
  have hbl : A'.blocks (pushFree s1 b i) = A.blocks s := by
    simp [A', Abs.blocks, fbL, hfr.freeBlock]
  refine ⟨A', ⟨?_, ?_, fun he => he⟩⟩
  · refine ⟨h.bs2, by rw [hfr.nextId]; exact h.idpos, ?_, ?_, ?_, ?_, ?_, ?_, ?_, ?_, ?_⟩
    · rw [hfr.bnext, hfr.bprev, hfr.used]; exact h.usedDL
    · rw [hfr.bnext, hfr.bprev, hfr.full]; exact h.fullDL
    · rw [hbl]; exact h.nodup
    · rw [hbl, hfr.nextId]; exact h.pos
    · rw [hbl, hfr.blockCount]; exact h.cnt
    · apply ok_transfer h (b := b)
      · intro c hc _; rw [hbl] at hc; exact hc
      · exact OtherRings.ofBlock hfr
      · intro c hc; simp [A', updL_ne _ _ _ _ hc]
      · intro c hc; simp [A', updL_ne _ _ _ _ hc]
      · simp only [A', updL_same]
        apply hok.of_perm (by rw [hF]; exact hr2)
        rw [hF]
        have h1 : (n :: u ++ (f :: t' ++ [i])).Perm (i :: (n :: u ++ f :: t')) := by
          have : n :: u ++ (f :: t' ++ [i]) = (n :: u ++ f :: t') ++ [i] := by simp
          rw [this]; exact List.perm_append_singleton _ _
        refine h1.trans ?_
        have : (i :: (n :: u ++ f :: t')) = (i :: n :: u) ++ f :: t' := by simp
        rw [this]
        exact hperm.append_right _
    · intro c hc
      by_cases hcb : c = b
      · subst hcb; simp [A']
      · simp only [A', updL_ne _ _ _ _ hcb]; exact h.usedP c hc
    · intro c hc
      have hcb : c ≠ b := fun e => hbfull (e ▸ hc)
      simp only [A', updL_ne _ _ _ _ hcb]; exact h.fullP c hc
    · intro hf
      rw [hfr.freeBlock] at hf ⊢
      have := h.used_ne_free hbu hf
      simp only [A', updL_ne _ _ _ _ this]; exact h.freeP hf
  · apply slotsOf_lose (L := A.fullL ++ A.usedL) (b := b) (x := i) (List.Perm.refl _) h.lists_nodup hbL
    · simpa [A'] using hperm
    · intro c _ hcb; simp [A', updL_ne _ _ _ _ hcb]

/-! ### path 2b: other used slots remain and the block was full; it moves to the used list -/

theorem free_full {bs : Nat} {s : State} {A : Abs} {b i : Nat} (h : Inv bs s A)
    (hp : (b, i) ∈ A.live) (hnx : s.nd.get b i ≠ i) (hflag : s.hasFree.get b = 0) :
    ∃ A', FreeSpec bs s A (b, i) (free bs s (b, i)) A' := by
  obtain ⟨hbL, hiU⟩ := h.live_mem hp
  simp only at hbL hiU
  have hbmem := h.block_of_live hbL
  have hok := h.ok b hbmem
  obtain ⟨u, hr1, hperm, hfr1⟩ := unlinkUsed_rings hok.rings hiU hnx
  generalize hndef : s.nd.get b i = n at hr1 hperm hfr1 hnx
  generalize hs1def : unlinkUsed s b i n = s1 at hr1 hfr1
  have hflag1 : s1.hasFree.get b = 0 := by subst hs1def; simpa [unlinkUsed] using hflag
  have hF : A.F b = [] := by
    cases hF : A.F b with
    | nil => rfl
    | cons f t' =>
      have := hok.rings.free; rw [hF] at this
      rw [this.1] at hflag; cases hflag
  have hbused : b ∉ A.usedL := fun hm => (h.usedP b hm).2 hF
  have hbf : b ∈ A.fullL := by
    rcases List.mem_append.1 hbL with hm | hm
    · exact hm
    · exact absurd hm hbused
  obtain ⟨S, T, hfl⟩ := mem_split hbf
  have h0 : 0 ∉ A.blocks s := h.zero_notin
  have hnd : (S ++ b :: T ++ A.usedL).Nodup := by rw [← hfl]; exact h.lists_nodup
  have h0f : 0 ∉ S ++ b :: T := by rw [← hfl]; exact fun hm => h0 (h.blocks_full 0 hm)
  have hDLf1 : DL s1.bnext.get s1.bprev.get s1.full (S ++ b :: T) := by
    rw [hfr1.bnext, hfr1.bprev, hfr1.full, ← hfl]; exact h.fullDL
  have hDLu1 : DL s1.bnext.get s1.bprev.get s1.used A.usedL := by
    rw [hfr1.bnext, hfr1.bprev, hfr1.used]; exact h.usedDL
  have hite := remove_setRoot_ite hDLf1 h0f (List.nodup_append.1 hnd).1
  obtain ⟨hf2, hu2, hl2, hs2⟩ := fullRemove_spec (Y := A.usedL) hDLf1 hDLu1 h0f hnd
  generalize hs2def : setFullK s1 ((fullK s1).remove b) = s2 at hf2 hu2 hl2 hs2
  have hbST : b ∉ S ++ T := by
    have := (List.nodup_append.1 hnd).1
    intro hm
    have h2 : (S ++ b :: T).Perm (b :: (S ++ T)) := List.perm_middle
    exact (List.nodup_cons.1 (h2.nodup_iff.1 this)).1 hm
  have hnd3 : (b :: (A.usedL ++ (S ++ T))).Nodup := by
    have h1 : (S ++ b :: T ++ A.usedL).Perm (b :: (A.usedL ++ (S ++ T))) := by
      have : (S ++ b :: T ++ A.usedL).Perm (A.usedL ++ (S ++ b :: T)) := List.perm_append_comm
      refine this.trans ?_
      have : A.usedL ++ (S ++ b :: T) = (A.usedL ++ S) ++ b :: T := by simp
      rw [this]
      have : A.usedL ++ (S ++ T) = (A.usedL ++ S) ++ T := by simp
      rw [this]
      exact List.perm_middle
    exact h1.nodup_iff.1 hnd
  obtain ⟨hu3, hf3, hl3, hs3⟩ := usedAddFirst_spec (X := A.usedL) (Y := S ++ T) (x := b) hu2 hf2
    (fun hm => h0 (h.blocks_used 0 hm)) hnd3
  generalize hs3def : setUsedK s2 ((usedK s2).addFirst b) = s3 at hu3 hf3 hl3 hs3
  have hi_nu : i ∉ n :: u := by
    have hndU : (A.U b).Nodup := (List.nodup_append.1 hok.rings.nodup).1
    exact (List.nodup_cons.1 (hperm.nodup_iff.2 hndU)).1
  have hr3 : Rings s3 b (n :: u) [] := by
    rw [hF] at hr1; exact (hr1.listFrame hl2).listFrame hl3
  obtain ⟨hr4, hfr4⟩ := startFree_rings hr3 hi_nu
  have hfree : free bs s (b, i) = startFree s3 b i := by
    unfold free
    simp only [hndef, hnx, if_false, hs1def, hflag1, ne_eq, not_true_eq_false]
    simp only [fullK] at hite hs2def ⊢
    rw [hite, hs2def, hs3def]
  rw [hfree]
  let A' : Abs := { usedL := b :: A.usedL, fullL := S ++ T, U := updL A.U b (n :: u), F := updL A.F b [i] }
  have hfb : (startFree s3 b i).freeBlock = s.freeBlock := by
    rw [hfr4.freeBlock, hs3.freeBlock, hs2.freeBlock, hfr1.freeBlock]
  have hbc : (startFree s3 b i).blockCount = s.blockCount := by
    rw [hfr4.blockCount, hs3.blockCount, hs2.blockCount, hfr1.blockCount]
  have hni : (startFree s3 b i).nextId = s.nextId := by
    rw [hfr4.nextId, hs3.nextId, hs2.nextId, hfr1.nextId]
  have hbl : (A'.blocks (startFree s3 b i)).Perm (A.blocks s) := by
    simp only [A', Abs.blocks, fbL, hfb, hfl]
    apply List.Perm.append_right
    have : b :: A.usedL ++ (S ++ T) = b :: (A.usedL ++ S ++ T) := by simp
    rw [this]
    have : A.usedL ++ (S ++ b :: T) = (A.usedL ++ S) ++ b :: T := by simp
    rw [this]
    exact List.perm_middle.symm
  have hother : OtherRings s (startFree s3 b i) b :=
    (((OtherRings.ofBlock hfr1).trans (OtherRings.ofList b hl2)).trans (OtherRings.ofList b hl3)).trans
      (OtherRings.ofBlock hfr4)
  refine ⟨A', ⟨?_, ?_, ?_⟩⟩
  · refine ⟨h.bs2, by rw [hni]; exact h.idpos, ?_, ?_, ?_, ?_, ?_, ?_, ?_, ?_, ?_⟩
    · rw [hfr4.bnext, hfr4.bprev, hfr4.used]; exact hu3
    · rw [hfr4.bnext, hfr4.bprev, hfr4.full]; exact hf3
    · exact hbl.nodup_iff.2 h.nodup
    · intro c hc; rw [hni]; exact h.pos c (hbl.mem_iff.1 hc)
    · rw [hbl.length_eq, hbc]; exact h.cnt
    · apply ok_transfer h (b := b) (fun c hc _ => hbl.mem_iff.1 hc) hother
      · intro c hc; simp [A', updL_ne _ _ _ _ hc]
      · intro c hc; simp [A', updL_ne _ _ _ _ hc]
      · simp only [A', updL_same]
        apply hok.of_perm hr4
        rw [hF]
        have h1 : (n :: u ++ [i]).Perm (i :: n :: u) := List.perm_append_singleton _ _
        simpa using h1.trans hperm
    · intro c hc
      by_cases hcb : c = b
      · subst hcb; simp [A']
      · have : c ∈ A.usedL := by simpa [A', hcb] using hc
        simp only [A', updL_ne _ _ _ _ hcb]; exact h.usedP c this
    · intro c hc
      have hcST : c ∈ S ++ T := hc
      have hcb : c ≠ b := fun e => hbST (e ▸ hcST)
      have hcf : c ∈ A.fullL := by
        rw [hfl]
        rcases List.mem_append.1 hcST with hm | hm
        · exact List.mem_append_left _ hm
        · exact List.mem_append_right _ (List.mem_cons_of_mem _ hm)
      simp only [A', updL_ne _ _ _ _ hcb]; exact h.fullP c hcf
    · intro hf
      rw [hfb] at hf ⊢
      have := h.full_ne_free hbf hf
      simp only [A', updL_ne _ _ _ _ this]; exact h.freeP hf
  · apply slotsOf_lose (L := A.fullL ++ A.usedL) (b := b) (x := i) _ h.lists_nodup hbL
    · simpa [A'] using hperm
    · intro c _ hcb; simp [A', updL_ne _ _ _ _ hcb]
    · simp only [A', hfl]
      have : S ++ T ++ b :: A.usedL = (S ++ T) ++ b :: A.usedL := rfl
      have h1 : (S ++ T ++ b :: A.usedL).Perm (b :: (S ++ T ++ A.usedL)) := List.perm_middle
      refine h1.trans ?_
      have : S ++ b :: T ++ A.usedL = S ++ b :: (T ++ A.usedL) := by simp
      rw [this]
      have : S ++ T ++ A.usedL = S ++ (T ++ A.usedL) := by simp
      rw [this]
      exact List.perm_middle.symm
  · intro he; rw [hfl] at he; simp at he

/-! ### all paths -/

theorem free_spec {bs : Nat} {s : State} {A : Abs} {p : Slot} (h : Inv bs s A) (hp : p ∈ A.live) :
    ∃ A', FreeSpec bs s A p (free bs s p) A' := by
  obtain ⟨b, i⟩ := p
  by_cases hnx : s.nd.get b i = i
  · exact free_only h hp hnx
  · by_cases hflag : s.hasFree.get b = 0
    · exact free_full h hp hnx hflag
    · exact free_more h hp hnx hflag

end Morfuse.BlockAlloc
