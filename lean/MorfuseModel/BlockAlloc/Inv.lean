import MorfuseModel.BlockAlloc.BlockLemmas
import MorfuseModel.BlockAlloc.ListLemmas
/-!
# The pool invariant and its abstraction

`Abs` is the abstract reading of a pool state: the two block lists in order and, per block, the
used ring and the free ring (head first).  `Inv bs s A` says the concrete links of `s` are exactly
that.  `A.live` is the abstract live set; `liveOf_eq` / `count_eq` show that what `Count()` walks
and counts is exactly `A.live`.
-/
namespace Morfuse.BlockAlloc
open Morfuse.Ring

structure Abs where
  usedL : List Nat
  fullL : List Nat
  U : Nat → List Nat
  F : Nat → List Nat

def updL (f : Nat → List Nat) (a : Nat) (v : List Nat) : Nat → List Nat := fun x => if x = a then v else f x
@[simp] theorem updL_same (f a v) : updL f a v a = v := by simp [updL]
theorem updL_ne (f a v x) (h : x ≠ a) : updL f a v x = f x := by simp [updL, h]

/-- `m_FreeBlock` as a list -/
def fbL (s : State) : List Nat := if s.freeBlock = 0 then [] else [s.freeBlock]

/-- every block the pool currently owns -/
def Abs.blocks (A : Abs) (s : State) : List Nat := A.usedL ++ A.fullL ++ fbL s

structure BlockOk (bs : Nat) (s : State) (b : Nat) (U F : List Nat) : Prop where
  rings : Rings s b U F
  lt : ∀ x ∈ U ++ F, x < bs
  len : (U ++ F).length = bs

structure Inv (bs : Nat) (s : State) (A : Abs) : Prop where
  bs2 : 2 ≤ bs
  idpos : 0 < s.nextId
  usedDL : DL s.bnext.get s.bprev.get s.used A.usedL
  fullDL : DL s.bnext.get s.bprev.get s.full A.fullL
  nodup : (A.blocks s).Nodup
  pos : ∀ b ∈ A.blocks s, 0 < b ∧ b < s.nextId
  cnt : s.blockCount = (A.blocks s).length
  ok : ∀ b ∈ A.blocks s, BlockOk bs s b (A.U b) (A.F b)
  usedP : ∀ b ∈ A.usedL, A.U b ≠ [] ∧ A.F b ≠ []
  fullP : ∀ b ∈ A.fullL, A.F b = []
  freeP : s.freeBlock ≠ 0 → A.U s.freeBlock = []

/-- slots of the blocks `L` according to the rings `U` -/
def slotsOf (L : List Nat) (U : Nat → List Nat) : List Slot :=
  L.flatMap fun b => (U b).map fun i => (b, i)

/-- the abstract live set, in the order `Count()` visits it -/
def Abs.live (A : Abs) : List Slot := slotsOf (A.fullL ++ A.usedL) A.U

theorem BlockOk.of_perm {bs : Nat} {s s' : State} {b : Nat} {U F U' F' : List Nat}
    (h : BlockOk bs s b U F) (hr : Rings s' b U' F') (hp : (U' ++ F').Perm (U ++ F)) :
    BlockOk bs s' b U' F' :=
  ⟨hr, fun x hx => h.lt x (hp.mem_iff.1 hx), by rw [hp.length_eq]; exact h.len⟩

/-! ### the abstract live set under a change of one block -/

theorem mem_slotsOf {L : List Nat} {U : Nat → List Nat} {p : Slot} :
    p ∈ slotsOf L U ↔ p.1 ∈ L ∧ p.2 ∈ U p.1 := by
  simp only [slotsOf, List.mem_flatMap, List.mem_map]
  constructor
  · rintro ⟨b, hb, i, hi, rfl⟩; exact ⟨hb, hi⟩
  · rintro ⟨h1, h2⟩; exact ⟨p.1, h1, p.2, h2, rfl⟩

theorem slotsOf_congr {L : List Nat} {U U' : Nat → List Nat} (h : ∀ c ∈ L, U' c = U c) :
    slotsOf L U' = slotsOf L U := by
  induction L with
  | nil => rfl
  | cons a t ih =>
    simp only [slotsOf, List.flatMap_cons] at ih ⊢
    rw [h a (by simp), ih (fun c hc => h c (List.mem_cons_of_mem _ hc))]

theorem slotsOf_perm {L L' : List Nat} (U : Nat → List Nat) (h : L'.Perm L) :
    (slotsOf L' U).Perm (slotsOf L U) := h.flatMap_right _

/-- split off one block -/
theorem slotsOf_split {L' L₀ : List Nat} {U U' : Nat → List Nat} {b : Nat}
    (hL : L'.Perm (b :: L₀)) (_hb : b ∉ L₀) (hO : ∀ c ∈ L₀, U' c = U c) :
    (slotsOf L' U').Perm ((U' b).map (fun i => (b, i)) ++ slotsOf L₀ U) := by
  refine (slotsOf_perm U' hL).trans ?_
  simp only [slotsOf, List.flatMap_cons]
  have := slotsOf_congr (L := L₀) hO
  simp only [slotsOf] at this
  rw [this]

/-- one block's ring gains `x`; the list of blocks is permuted -/
theorem slotsOf_gain {L L' : List Nat} {U U' : Nat → List Nat} {b x : Nat}
    (hL : L'.Perm L) (hnd : L.Nodup) (hb : b ∈ L) (hU : (U' b).Perm (x :: U b))
    (hO : ∀ c ∈ L, c ≠ b → U' c = U c) :
    (slotsOf L' U').Perm ((b, x) :: slotsOf L U) := by
  have hLb : L.Perm (b :: L.erase b) := List.perm_cons_erase hb
  have hbe : b ∉ L.erase b := fun hm => by
    have := (List.Nodup.mem_erase_iff hnd).1 hm
    exact this.1 rfl
  have hO' : ∀ c ∈ L.erase b, U' c = U c := fun c hc =>
    hO c (List.mem_of_mem_erase hc) (fun e => hbe (e ▸ hc))
  have h1 := slotsOf_split (U := U) (U' := U') (hL.trans hLb) hbe hO'
  have h2 := slotsOf_split (U := U) (U' := U) hLb hbe (fun _ _ => rfl)
  refine h1.trans ?_
  have h3 : ((U' b).map (fun i => (b, i))).Perm ((b, x) :: (U b).map (fun i => (b, i))) := by
    simpa using hU.map (fun i => (b, i))
  refine (h3.append_right _).trans ?_
  simp only [List.cons_append]
  exact (h2.symm).cons _

/-- a block that was not listed joins with a single used slot -/
theorem slotsOf_join {L L' : List Nat} {U U' : Nat → List Nat} {b x : Nat}
    (hL : L'.Perm (b :: L)) (hb : b ∉ L) (hU : U' b = [x]) (hO : ∀ c ∈ L, U' c = U c) :
    (slotsOf L' U').Perm ((b, x) :: slotsOf L U) := by
  have := slotsOf_split (U := U) (U' := U') hL hb hO
  simpa [hU] using this

/-- one block's ring loses `x`; the list of blocks is permuted -/
theorem slotsOf_lose {L L' : List Nat} {U U' : Nat → List Nat} {b x : Nat}
    (hL : L'.Perm L) (hnd : L.Nodup) (hb : b ∈ L) (hU : (x :: U' b).Perm (U b))
    (hO : ∀ c ∈ L, c ≠ b → U' c = U c) :
    (slotsOf L' U').Perm ((slotsOf L U).erase (b, x)) := by
  have hnd' : L'.Nodup := hL.nodup_iff.2 hnd
  have hb' : b ∈ L' := hL.mem_iff.2 hb
  have := slotsOf_gain (U := U') (U' := U) (b := b) (x := x) hL.symm hnd' hb' hU.symm
    (fun c hc hcb => (hO c (hL.mem_iff.1 hc) hcb).symm)
  have h2 := this.erase (b, x)
  simp only [List.erase_cons_head] at h2
  exact h2.symm

/-- the only used slot of a block goes away and the block leaves the lists -/
theorem slotsOf_leave {L L' : List Nat} {U U' : Nat → List Nat} {b x : Nat}
    (hL : L.Perm (b :: L')) (hb : b ∉ L') (hU : U b = [x]) (hO : ∀ c ∈ L', U' c = U c) :
    (slotsOf L' U').Perm ((slotsOf L U).erase (b, x)) := by
  have := slotsOf_join (U := U') (U' := U) (x := x) hL hb hU (fun c hc => (hO c hc).symm)
  have h2 := this.erase (b, x)
  simp only [List.erase_cons_head] at h2
  exact h2.symm

/-! ### what `Count()` walks is the abstract live set -/

theorem flatMap_congr' {α β : Type} {f g : α → List β} : ∀ (l : List α), (∀ a ∈ l, f a = g a) →
    l.flatMap f = l.flatMap g
  | [], _ => rfl
  | a :: t, h => by
    simp only [List.flatMap_cons]
    rw [h a (by simp), flatMap_congr' t (fun x hx => h x (List.mem_cons_of_mem _ hx))]

theorem Inv.blocks_used {bs s A} (_ : Inv bs s A) : ∀ b ∈ A.usedL, b ∈ A.blocks s := by
  intro b hb; simp [Abs.blocks, hb]
theorem Inv.blocks_full {bs s A} (_ : Inv bs s A) : ∀ b ∈ A.fullL, b ∈ A.blocks s := by
  intro b hb; simp [Abs.blocks, hb]

theorem Inv.zero_notin {bs s A} (h : Inv bs s A) : 0 ∉ A.blocks s :=
  fun hm => Nat.lt_irrefl 0 (h.pos 0 hm).1

theorem liveList_eq {bs : Nat} {s : State} {A : Abs} (h : Inv bs s A) (l : LL) (L : List Nat)
    (hDL : DL s.bnext.get s.bprev.get l L) (hsub : ∀ b ∈ L, b ∈ A.blocks s)
    (hlen : L.length ≤ s.blockCount) :
    liveList bs s l.root = slotsOf L A.U := by
  have h0 : 0 ∉ L := fun hm => h.zero_notin (hsub 0 hm)
  simp only [liveList, listWalk_DL hDL h0 hlen, slotsOf]
  apply flatMap_congr'
  intro b hb
  have hok := h.ok b (hsub b hb)
  have hU := hok.rings.used
  cases hUb : A.U b with
  | nil => rw [hUb] at hU; simp [RingOf] at hU; simp [hU]
  | cons a t =>
    rw [hUb] at hU
    obtain ⟨h1, h2, h3⟩ := hU
    have hlen : t.length < bs := by
      have := hok.len
      rw [hUb] at this
      simp at this; omega
    simp [h1, h2, ringWalk_ring h3 hlen]

theorem Inv.len_le {bs s A} (h : Inv bs s A) :
    A.usedL.length ≤ s.blockCount ∧ A.fullL.length ≤ s.blockCount := by
  rw [h.cnt]; simp [Abs.blocks]; omega

theorem liveOf_eq {bs : Nat} {s : State} {A : Abs} (h : Inv bs s A) : liveOf bs s = A.live := by
  simp only [liveOf, Abs.live, slotsOf, List.flatMap_append]
  have h1 := liveList_eq h s.full A.fullL h.fullDL h.blocks_full h.len_le.2
  have h2 := liveList_eq h s.used A.usedL h.usedDL h.blocks_used h.len_le.1
  simp only [slotsOf] at h1 h2
  rw [h1, h2]

/-- `Count(list)` counts what `liveList` collects (no invariant needed) -/
theorem countList_eq (bs : Nat) (s : State) (root : Nat) :
    countList bs s root = (liveList bs s root).length := by
  simp only [countList, liveList]
  generalize listWalk s.bnext s.blockCount root = L
  suffices ∀ c, L.foldl (fun c b => if s.hasUsed.get b = 0 then c
      else ringCount s.nd b bs (s.usedData.get b) (s.usedData.get b) c) c =
      c + (L.flatMap fun b => if s.hasUsed.get b = 0 then []
        else (ringWalk s.nd b bs (s.usedData.get b) (s.usedData.get b)).map fun i => (b, i)).length by
    simpa using this 0
  induction L with
  | nil => intro c; simp
  | cons a t ih =>
    intro c
    simp only [List.foldl_cons, List.flatMap_cons, List.length_append]
    rw [ih]
    split
    · simp
    · rw [ringCount_eq]; simp; omega

theorem count_eq_length (bs : Nat) (s : State) : count bs s = (liveOf bs s).length := by
  simp [count, liveOf, countList_eq]

end Morfuse.BlockAlloc
