import MorfuseModel.BlockAlloc.FreeLemmas
/-!
# `FreeAll`, reachability, and the counting facts used by the property theorems
-/
namespace Morfuse.BlockAlloc
open Morfuse.Ring

/-! ### the initial state -/

def Abs.empty : Abs := { usedL := [], fullL := [], U := fun _ => [], F := fun _ => [] }

theorem init_inv {bs : Nat} (hbs : 2 ≤ bs) : Inv bs init Abs.empty := by
  refine ⟨hbs, by simp [init], ⟨rfl, fun h => absurd rfl h, trivial⟩, ⟨rfl, fun h => absurd rfl h, trivial⟩,
    ?_, ?_, ?_, ?_, ?_, ?_, ?_⟩ <;> simp [Abs.empty, Abs.blocks, fbL, init]

/-! ### freeing a list of distinct live slots (what a destructor cascade does) -/

theorem foldl_free_spec {bs : Nat} : ∀ (kids : List Slot) (s : State) (A : Abs), Inv bs s A →
    kids.Nodup → (∀ q ∈ kids, q ∈ A.live) →
    ∃ A', Inv bs (kids.foldl (free bs) s) A' ∧ (kids ++ A'.live).Perm A.live ∧
      (A.fullL = [] → A'.fullL = [])
  | [], s, A, h, _, _ => ⟨A, h, List.Perm.refl _, fun he => he⟩
  | q :: ks, s, A, h, hnd, hsub => by
    obtain ⟨A1, h1⟩ := free_spec h (hsub q (by simp))
    have hks : ∀ k ∈ ks, k ∈ A1.live := by
      intro k hk
      have hkq : k ≠ q := fun e => (List.nodup_cons.1 hnd).1 (e ▸ hk)
      exact h1.live.mem_iff.2 ((List.mem_erase_of_ne hkq).2 (hsub k (List.mem_cons_of_mem _ hk)))
    obtain ⟨A2, h2, hp2, hf2⟩ := foldl_free_spec ks (free bs s q) A1 h1.inv (List.nodup_cons.1 hnd).2 hks
    refine ⟨A2, h2, ?_, fun he => hf2 (h1.full he)⟩
    have : (q :: (ks ++ A2.live)).Perm (q :: A.live.erase q) := (hp2.trans h1.live).cons q
    exact this.trans (List.perm_cons_erase (hsub q (by simp))).symm

/-! ### one loop of `FreeAll` -/

/-- what the two loops have in common: `sel` reads the root of the list `pick` -/
structure Picks (bs : Nat) (sel : State → Nat) (pick : Abs → List Nat) : Prop where
  root : ∀ s A, Inv bs s A → sel s = (pick A).headD 0
  sub : ∀ s A, Inv bs s A → ∀ b ∈ pick A, b ∈ A.fullL ++ A.usedL ∧ A.U b ≠ []

theorem picks_full (bs : Nat) : Picks bs (fun s => s.full.root) (fun A => A.fullL) := by
  refine ⟨fun s A h => h.fullDL.root, fun s A h b hb => ⟨List.mem_append_left _ hb, ?_⟩⟩
  intro hU
  have := (h.ok b (h.blocks_full b hb)).len
  rw [hU, h.fullP b hb] at this
  have := h.bs2
  simp at *; omega

theorem picks_used (bs : Nat) : Picks bs (fun s => s.used.root) (fun A => A.usedL) :=
  ⟨fun s A h => h.usedDL.root, fun s A h b hb => ⟨List.mem_append_right _ hb, (h.usedP b hb).1⟩⟩

theorem drain_spec {bs : Nat} {dtor : State → Slot → List Slot} (hd : DtorOk bs dtor)
    {sel : State → Nat} {pick : Abs → List Nat} (hpk : Picks bs sel pick) :
    ∀ (fuel : Nat) (s : State) (A : Abs) (acc : List Slot), Inv bs s A → A.live.length ≤ fuel →
      ∃ s' A' d, drain bs dtor sel fuel s acc = some (s', acc ++ d) ∧ Inv bs s' A' ∧
        (d ++ A'.live).Perm A.live ∧ pick A' = [] ∧ (A.fullL = [] → A'.fullL = []) := by
  -- a listed block contributes a live slot
  have hlive : ∀ s A, Inv bs s A → ∀ b ∈ pick A, ∃ a t, A.U b = a :: t ∧ (b, a) ∈ A.live ∧
      s.hasUsed.get b = 1 ∧ s.usedData.get b = a := by
    intro s A h b hb
    obtain ⟨hbl, hU⟩ := hpk.sub s A h b hb
    cases hUb : A.U b with
    | nil => exact absurd hUb hU
    | cons a t =>
      have := (h.ok b (h.block_of_live hbl)).rings.used
      rw [hUb] at this
      exact ⟨a, t, rfl, mem_slotsOf.2 ⟨hbl, by rw [hUb]; simp⟩, this.1, this.2.1⟩
  have hzero : ∀ s A, Inv bs s A → sel s = 0 → pick A = [] := by
    intro s A h hs
    rw [hpk.root s A h] at hs
    cases hp : pick A with
    | nil => rfl
    | cons b t =>
      rw [hp] at hs; simp at hs
      have hb : b ∈ pick A := by rw [hp]; simp
      have hbl := h.block_of_live (hpk.sub s A h b hb).1
      rw [hs] at hbl
      exact absurd hbl h.zero_notin
  intro fuel
  induction fuel with
  | zero =>
    intro s A acc h hlen
    have hnil : A.live = [] := List.eq_nil_of_length_eq_zero (Nat.le_zero.1 hlen)
    have hpick : pick A = [] := by
      cases hp : pick A with
      | nil => rfl
      | cons b t =>
        obtain ⟨a, _, _, hm, _, _⟩ := hlive s A h b (by rw [hp]; simp)
        rw [hnil] at hm; cases hm
    have hsel : sel s = 0 := by rw [hpk.root s A h, hpick]; rfl
    exact ⟨s, A, [], by simp [drain, hsel], h, by simp, hpick, fun he => he⟩
  | succ f ih =>
    intro s A acc h hlen
    by_cases hsel : sel s = 0
    · exact ⟨s, A, [], by simp [drain, hsel], h, by simp, hzero s A h hsel, fun he => he⟩
    · -- the root block and its used head
      have hb : sel s ∈ pick A := by
        have := hpk.root s A h
        cases hp : pick A with
        | nil => rw [hp] at this; exact absurd this hsel
        | cons b t => rw [hp] at this; simp at this; simp [this]
      obtain ⟨a, t, _, hpl, hflag, hud⟩ := hlive s A h (sel s) hb
      have hflag' : ¬ s.hasUsed.get (sel s) = 0 := by rw [hflag]; decide
      -- the destructor's cascade
      have hlo : liveOf bs s = A.live := liveOf_eq h
      obtain ⟨hknd, hpk', hksub⟩ := hd s (sel s, a) (by rw [hlo]; exact hpl)
      rw [hlo] at hksub
      obtain ⟨A1, h1, hp1, hf1⟩ := foldl_free_spec (dtor s (sel s, a)) s A h hknd hksub
      have hp_in1 : (sel s, a) ∈ A1.live := by
        have := hp1.mem_iff.2 hpl
        rcases List.mem_append.1 this with hm | hm
        · exact absurd hm hpk'
        · exact hm
      obtain ⟨A2, h2⟩ := free_spec h1 hp_in1
      have hlen1 : (dtor s (sel s, a)).length + A1.live.length = A.live.length := by
        rw [← List.length_append]; exact hp1.length_eq
      have hlen2 : A2.live.length ≤ f := by
        rw [h2.live.length_eq, List.length_erase_of_mem hp_in1]
        have : 0 < A1.live.length := List.length_pos_of_mem hp_in1
        omega
      obtain ⟨s', A', d', hdr, hinv, hperm, hpick, hfull⟩ :=
        ih (free bs ((dtor s (sel s, a)).foldl (free bs) s) (sel s, a)) A2
          (acc ++ dtor s (sel s, a) ++ [(sel s, a)]) h2.inv hlen2
      refine ⟨s', A', dtor s (sel s, a) ++ [(sel s, a)] ++ d', ?_, hinv, ?_, hpick,
        fun he => hfull (h2.full (hf1 he))⟩
      · simp only [drain, hsel, if_false, hflag', hud]
        rw [hdr]; simp
      · -- kids ++ [p] ++ d' ++ live' ~ kids ++ (p :: live1.erase p) ~ kids ++ live1 ~ live
        have e1 : ((sel s, a) :: (d' ++ A'.live)).Perm A1.live :=
          ((hperm.trans h2.live).cons _).trans (List.perm_cons_erase hp_in1).symm
        have e2 : (dtor s (sel s, a) ++ ((sel s, a) :: (d' ++ A'.live))).Perm A.live :=
          (e1.append_left _).trans hp1
        simpa using e2

/-! ### `FreeAll` -/

theorem dropFreeBlock_inv {bs : Nat} {s : State} {A : Abs} (h : Inv bs s A)
    (hu : A.usedL = []) (hf : A.fullL = []) :
    Inv bs (dropFreeBlock s) A ∧ (dropFreeBlock s).blockCount = 0 ∧ A.live = [] := by
  obtain ⟨_, e1, e2, e3, e4, e5, e6⟩ := dropFreeBlock_frame s
  have hfb : (dropFreeBlock s).freeBlock = 0 := by
    unfold dropFreeBlock; split
    · rfl
    · rename_i hn; simpa using hn
  have hbl : A.blocks (dropFreeBlock s) = [] := by simp [Abs.blocks, fbL, hu, hf, hfb]
  have hcnt : (dropFreeBlock s).blockCount = 0 := by
    rw [e6, h.cnt]; simp [Abs.blocks, hu, hf]
  refine ⟨⟨h.bs2, by rw [e5]; exact h.idpos, by rw [e1, e2, e3]; exact h.usedDL,
    by rw [e1, e2, e4]; exact h.fullDL, by rw [hbl]; simp, by rw [hbl]; simp, by rw [hbl, hcnt]; rfl,
    by rw [hbl]; simp, h.usedP, h.fullP, fun hne => absurd hfb hne⟩, hcnt, ?_⟩
  simp [Abs.live, slotsOf, hu, hf]

theorem freeAll_spec {bs : Nat} {dtor : State → Slot → List Slot} (hd : DtorOk bs dtor)
    {s : State} {A : Abs} (h : Inv bs s A) :
    ∃ s' A' d, freeAll bs dtor s = some (s', d) ∧ Inv bs s' A' ∧ d.Perm A.live ∧ A'.live = [] ∧
      s'.blockCount = 0 := by
  have hn : count bs s = A.live.length := by rw [count_eq_length, liveOf_eq h]
  obtain ⟨s1, A1, d1, hdr1, h1, hp1, hpick1, _⟩ :=
    drain_spec hd (picks_full bs) (count bs s) s A [] h (by rw [hn]; exact Nat.le_refl _)
  have hlen1 : A1.live.length ≤ count bs s := by
    rw [hn, ← hp1.length_eq, List.length_append]; omega
  obtain ⟨s2, A2, d2, hdr2, h2, hp2, hpick2, hfull2⟩ :=
    drain_spec hd (picks_used bs) (count bs s) s1 A1 ([] ++ d1) h1 hlen1
  obtain ⟨h3, hcnt, hlive⟩ := dropFreeBlock_inv h2 hpick2 (hfull2 hpick1)
  refine ⟨dropFreeBlock s2, A2, d1 ++ d2, ?_, h3, ?_, hlive, hcnt⟩
  · simp only [freeAll, hdr1, Option.bind_some, hdr2]
    simp
  · rw [hlive] at hp2
    have : d2.Perm A1.live := by simpa using hp2
    exact (this.append_left d1).trans hp1

/-! ### every reachable state satisfies the invariant -/

theorem step_inv {bs : Nat} {s s' : State} {A : Abs} (h : Inv bs s A) (op : Op bs)
    (hs : step bs s op = some s') : ∃ A', Inv bs s' A' := by
  cases op with
  | alloc =>
    simp only [step, Option.some.injEq] at hs
    obtain ⟨A', ha⟩ := alloc_spec h
    exact ⟨A', hs ▸ ha.inv⟩
  | free p =>
    simp only [step] at hs
    split at hs
    · rename_i hp
      simp only [Option.some.injEq] at hs
      rw [liveOf_eq h] at hp
      obtain ⟨A', hf⟩ := free_spec h hp
      exact ⟨A', hs ▸ hf.inv⟩
    · cases hs
  | freeAll d =>
    simp only [step] at hs
    obtain ⟨s1, A', dd, hfa, hinv, _⟩ := freeAll_spec d.ok h
    rw [hfa] at hs
    simp only [Option.map_some, Option.some.injEq] at hs
    exact ⟨A', hs ▸ hinv⟩

theorem run_inv {bs : Nat} : ∀ (ops : List (Op bs)) (s s' : State) (A : Abs), Inv bs s A →
    run bs s ops = some s' → ∃ A', Inv bs s' A'
  | [], s, s', A, h, hr => by
    simp only [run, Option.some.injEq] at hr; exact ⟨A, hr ▸ h⟩
  | op :: ops, s, s', A, h, hr => by
    simp only [run] at hr
    cases hst : step bs s op with
    | none => rw [hst] at hr; cases hr
    | some s1 =>
      rw [hst] at hr
      obtain ⟨A1, h1⟩ := step_inv h op hst
      exact run_inv ops s1 s' A1 h1 hr

theorem reachable_inv {bs : Nat} (hbs : 2 ≤ bs) {s : State} (h : Reachable bs s) : ∃ A, Inv bs s A := by
  obtain ⟨ops, hr⟩ := h
  exact run_inv ops init s Abs.empty (init_inv hbs) hr

/-! ### counting -/

theorem slotsOf_length_le {bs : Nat} {U : Nat → List Nat} : ∀ (L : List Nat),
    (∀ b ∈ L, (U b).length ≤ bs) → (slotsOf L U).length ≤ bs * L.length
  | [], _ => by simp [slotsOf]
  | a :: t, h => by
    have ih := slotsOf_length_le t (fun b hb => h b (List.mem_cons_of_mem _ hb))
    have ha := h a (by simp)
    simp only [slotsOf, List.flatMap_cons, List.length_append, List.length_map, List.length_cons] at ih ⊢
    rw [Nat.mul_succ]; omega

theorem slotsOf_length_eq {bs : Nat} {U : Nat → List Nat} : ∀ (L : List Nat),
    (∀ b ∈ L, (U b).length = bs) → (slotsOf L U).length = bs * L.length
  | [], _ => by simp [slotsOf]
  | a :: t, h => by
    have ih := slotsOf_length_eq t (fun b hb => h b (List.mem_cons_of_mem _ hb))
    have ha := h a (by simp)
    simp only [slotsOf, List.flatMap_cons, List.length_append, List.length_map, List.length_cons] at ih ⊢
    rw [Nat.mul_succ]; omega

theorem Inv.ring_len_le {bs s A} (h : Inv bs s A) {b : Nat} (hb : b ∈ A.blocks s) :
    (A.U b).length ≤ bs := by
  have := (h.ok b hb).len; simp at this; omega

/-- the pool never holds more live slots than its blocks have room for -/
theorem Inv.live_le_capacity {bs s A} (h : Inv bs s A) : A.live.length ≤ bs * s.blockCount := by
  have h1 := slotsOf_length_le (bs := bs) (U := A.U) (A.fullL ++ A.usedL)
    (fun b hb => h.ring_len_le (h.block_of_live hb))
  have h2 : (A.fullL ++ A.usedL).length ≤ s.blockCount := by
    rw [h.cnt]; simp [Abs.blocks]; omega
  exact Nat.le_trans h1 (Nat.mul_le_mul_left bs h2)

/-- with no partially used block and no cached block every block is full -/
theorem Inv.live_eq_capacity {bs s A} (h : Inv bs s A) (hu : A.usedL = []) (hf : s.freeBlock = 0) :
    A.live.length = bs * s.blockCount := by
  have h1 := slotsOf_length_eq (bs := bs) (U := A.U) A.fullL (fun b hb => by
    have := (h.ok b (h.blocks_full b hb)).len
    rw [h.fullP b hb] at this; simpa using this)
  rw [h.cnt]
  simp [Abs.live, Abs.blocks, fbL, hu, hf, h1]

theorem nodup_map_pair (a : Nat) : ∀ (l : List Nat), l.Nodup → (l.map fun i => (a, i)).Nodup
  | [], _ => by simp
  | x :: t, h => by
    have ih := nodup_map_pair a t (List.nodup_cons.1 h).2
    simp only [List.map_cons, List.nodup_cons, List.mem_map, Prod.mk.injEq, true_and, exists_eq_right]
    exact ⟨(List.nodup_cons.1 h).1, ih⟩

theorem slotsOf_nodup {U : Nat → List Nat} : ∀ (L : List Nat), L.Nodup → (∀ b ∈ L, (U b).Nodup) →
    (slotsOf L U).Nodup
  | [], _, _ => by simp [slotsOf]
  | a :: t, hnd, hU => by
    have ih := slotsOf_nodup t (List.nodup_cons.1 hnd).2 (fun b hb => hU b (List.mem_cons_of_mem _ hb))
    simp only [slotsOf, List.flatMap_cons] at ih ⊢
    rw [List.nodup_append]
    refine ⟨?_, ih, ?_⟩
    · exact nodup_map_pair a _ (hU a (by simp))
    · intro p hp q hq e
      subst e
      simp only [List.mem_map] at hp
      obtain ⟨i, _, rfl⟩ := hp
      have := (mem_slotsOf (L := t) (U := U) (p := (a, i))).1 (by simpa [slotsOf] using hq)
      exact (List.nodup_cons.1 hnd).1 this.1

theorem Inv.live_nodup {bs s A} (h : Inv bs s A) : A.live.Nodup :=
  slotsOf_nodup _ h.lists_nodup (fun b hb =>
    (List.nodup_append.1 (h.ok b (h.block_of_live hb)).rings.nodup).1)

/-! ### histories -/

def Op.isAlloc {bs : Nat} : Op bs → Bool
  | .alloc => true
  | _ => false
def Op.isFree {bs : Nat} : Op bs → Bool
  | .free _ => true
  | _ => false
def Op.isFreeAll {bs : Nat} : Op bs → Bool
  | .freeAll _ => true
  | _ => false

/-- number of `Alloc` calls in a history -/
def allocs {bs : Nat} (ops : List (Op bs)) : Nat := ops.countP Op.isAlloc
/-- number of `Free` calls in a history -/
def frees {bs : Nat} (ops : List (Op bs)) : Nat := ops.countP Op.isFree

theorem run_append {bs : Nat} : ∀ (ops1 ops2 : List (Op bs)) (s : State),
    run bs s (ops1 ++ ops2) = (run bs s ops1).bind (run bs · ops2)
  | [], _, _ => by simp [run]
  | op :: ops1, ops2, s => by
    simp only [List.cons_append, run]
    cases step bs s op with
    | none => simp
    | some s1 => simp [run_append ops1 ops2 s1]

theorem Reachable.step {bs : Nat} {s s' : State} (h : Reachable bs s) (op : Op bs)
    (hs : step bs s op = some s') : Reachable bs s' := by
  obtain ⟨ops, hr⟩ := h
  exact ⟨ops ++ [op], by simp [run_append, hr, run, hs]⟩

/-- every state reached by `Alloc` from a reachable state is reachable -/
theorem reachable_alloc {bs : Nat} {s : State} (h : Reachable bs s) : Reachable bs (alloc bs s).1 :=
  h.step .alloc rfl

theorem run_count {bs : Nat} : ∀ (ops : List (Op bs)) (s s' : State) (A : Abs), Inv bs s A →
    run bs s ops = some s' → (∀ op ∈ ops, op.isFreeAll = false) →
    count bs s' + frees ops = count bs s + allocs ops
  | [], s, s', A, _, hr, _ => by
    simp only [run, Option.some.injEq] at hr; subst hr; simp [frees, allocs]
  | op :: ops, s, s', A, h, hr, hno => by
    simp only [run] at hr
    cases hst : step bs s op with
    | none => rw [hst] at hr; cases hr
    | some s1 =>
      rw [hst] at hr
      obtain ⟨A1, h1⟩ := step_inv h op hst
      have ih := run_count ops s1 s' A1 h1 hr (fun o ho => hno o (List.mem_cons_of_mem _ ho))
      have hc : count bs s = A.live.length := by rw [count_eq_length, liveOf_eq h]
      cases op with
      | alloc =>
        simp only [step, Option.some.injEq] at hst
        obtain ⟨A', ha⟩ := alloc_spec h
        have hc1 : count bs s1 = A.live.length + 1 := by
          rw [← hst, count_eq_length, liveOf_eq ha.inv, ha.live.length_eq]; simp
        simp only [frees, allocs, List.countP_cons, Op.isFree, Op.isAlloc] at ih ⊢
        simp at ih ⊢; omega
      | free p =>
        simp only [step] at hst
        split at hst
        · rename_i hp
          simp only [Option.some.injEq] at hst
          rw [liveOf_eq h] at hp
          obtain ⟨A', hf⟩ := free_spec h hp
          have hc1 : count bs s1 + 1 = A.live.length := by
            rw [← hst, count_eq_length, liveOf_eq hf.inv, hf.live.length_eq, List.length_erase_of_mem hp]
            have : 0 < A.live.length := List.length_pos_of_mem hp
            omega
          simp only [frees, allocs, List.countP_cons, Op.isFree, Op.isAlloc] at ih ⊢
          simp at ih ⊢; omega
        · cases hst
      | freeAll d =>
        have := hno (.freeAll d) (by simp)
        simp [Op.isFreeAll] at this

end Morfuse.BlockAlloc
