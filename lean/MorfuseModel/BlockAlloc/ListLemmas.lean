import MorfuseModel.BlockAlloc.Model
import MorfuseModel.Common.Ring
/-!
# `LinkedList<T*, next, prev>`: null-terminated doubly linked list with `rootnode` / `tail`

`Seg nx pv p L e`: the nodes of `L` are linked both ways, the first one's `prev` is `p`, the last
one's `next` is `e`.  `DL nx pv l L`: the list object `l` (root, tail) represents `L`.
`AddFirst` and `Remove` (any position, also after the `SetRoot(next)` the callers do) preserve it.
-/
namespace Morfuse.BlockAlloc
open Morfuse.Ring

def Seg (nx pv : Nat → Nat) : Nat → List Nat → Nat → Prop
  | _, [], _ => True
  | p, a :: t, e => pv a = p ∧ nx a = t.headD e ∧ Seg nx pv a t e

theorem seg_congr {nx pv nx' pv' : Nat → Nat} : ∀ (p : Nat) (L : List Nat) (e : Nat),
    (∀ y ∈ L, nx' y = nx y ∧ pv' y = pv y) → Seg nx pv p L e → Seg nx' pv' p L e
  | _, [], _, _, _ => trivial
  | p, a :: t, e, h, hs => by
    obtain ⟨h1, h2, h3⟩ := hs
    refine ⟨by rw [(h a (by simp)).2]; exact h1, by rw [(h a (by simp)).1]; exact h2, ?_⟩
    exact seg_congr a t e (fun y hy => h y (List.mem_cons_of_mem _ hy)) h3

theorem seg_append {nx pv : Nat → Nat} : ∀ (p : Nat) (S T : List Nat) (e : Nat),
    Seg nx pv p (S ++ T) e ↔ Seg nx pv p S (T.headD e) ∧ Seg nx pv (S.getLastD p) T e
  | p, [], T, e => by simp [Seg]
  | p, a :: S, T, e => by
    simp only [List.cons_append, Seg, List.getLastD_cons]
    rw [seg_append a S T e]
    have : (S ++ T).headD e = S.headD (T.headD e) := by cases S <;> simp
    rw [this]
    simp [and_assoc]

/-- redirect the `next` of the last node -/
theorem seg_relast {nx pv : Nat → Nat} : ∀ (p : Nat) (S : List Nat) (e e' : Nat),
    S ≠ [] → S.Nodup → Seg nx pv p S e → Seg (upd nx (S.getLastD p) e') pv p S e'
  | _, [], _, _, h, _, _ => absurd rfl h
  | p, [a], e, e', _, _, hs => by
    obtain ⟨h1, _, _⟩ := hs
    simp [Seg, h1]
  | p, a :: b :: t, e, e', _, hnd, hs => by
    obtain ⟨h1, h2, h3⟩ := hs
    have hne : a ≠ (b :: t).getLastD a := by
      intro e0
      have hmem : (b :: t).getLastD a ∈ b :: t := by
        rw [List.getLastD_cons]
        cases t with
        | nil => simp
        | cons c t' =>
          have : (c :: t').getLastD b = (c :: t').getLast (by simp) := by
            simp [List.getLastD_eq_getLast?, List.getLast?_eq_some_getLast (l := c :: t') (by simp)]
          rw [this]; exact List.mem_cons_of_mem _ (List.getLast_mem _)
      exact (List.nodup_cons.1 hnd).1 (e0 ▸ hmem)
    refine ⟨h1, ?_, ?_⟩
    · simp only [List.getLastD_cons] at hne ⊢
      rw [upd_ne _ _ _ _ hne]; simpa using h2
    · have ih := seg_relast a (b :: t) e e' (by simp) (List.nodup_cons.1 hnd).2 h3
      simp only [List.getLastD_cons] at ih ⊢; exact ih

/-- redirect the `prev` of the first node -/
theorem seg_rehead {nx pv : Nat → Nat} (p p' : Nat) (a : Nat) (t : List Nat) (e : Nat)
    (hnd : (a :: t).Nodup) (hs : Seg nx pv p (a :: t) e) : Seg nx (upd pv a p') p' (a :: t) e := by
  obtain ⟨_, h2, h3⟩ := hs
  refine ⟨by simp, h2, ?_⟩
  apply seg_congr a t e _ h3
  intro y hy
  have : y ≠ a := fun e0 => (List.nodup_cons.1 hnd).1 (e0 ▸ hy)
  simp [upd, this]

structure DL (nx pv : Nat → Nat) (l : LL) (L : List Nat) : Prop where
  root : l.root = L.headD 0
  tail : L ≠ [] → l.tail = L.getLastD 0
  seg : Seg nx pv 0 L 0

theorem DL.root_eq_zero_iff {nx pv : Nat → Nat} {l : LL} {L : List Nat} (h : DL nx pv l L)
    (h0 : 0 ∉ L) : l.root = 0 ↔ L = [] := by
  rw [h.root]
  cases L with
  | nil => simp
  | cons a t => simp; intro e; exact h0 (by simp [e])

theorem DL.congr {nx pv nx' pv' : Nat → Nat} {l : LL} {L : List Nat} (h : DL nx pv l L)
    (hc : ∀ y ∈ L, nx' y = nx y ∧ pv' y = pv y) : DL nx' pv' l L :=
  ⟨h.root, h.tail, seg_congr 0 L 0 hc h.seg⟩

/-! ### AddFirst -/

theorem addFirst_DL {nx pv : Mem} {l : LL} {L : List Nat} {n : Nat}
    (h : DL nx.get pv.get l L) (h0 : 0 ∉ L) (hnd : L.Nodup) (hn : n ∉ L) :
    let k := Lnk.addFirst ⟨nx, pv, l⟩ n
    DL k.nx.get k.pv.get k.l (n :: L) := by
  intro k
  cases L with
  | nil =>
    have hr : l.root = 0 := h.root
    have : k = { nx := nx.set n 0, pv := pv.set n 0, l := { root := n, tail := n } } := by
      simp [k, Lnk.addFirst, hr]
    rw [this]
    exact ⟨rfl, fun _ => rfl, by simp [Seg]⟩
  | cons a t =>
    have hr : l.root = a := h.root
    have ha0 : a ≠ 0 := fun e => h0 (by simp [e])
    have hna : n ≠ a := fun e => hn (by simp [e])
    have : k = { nx := nx.set n a, pv := (pv.set n 0).set a n, l := { l with root := n } } := by
      simp [k, Lnk.addFirst, hr, ha0]
    rw [this]
    refine ⟨rfl, fun _ => ?_, ?_⟩
    · simpa [List.getLastD_cons] using h.tail (by simp)
    · refine ⟨by simp [Mem.get_set, hna], by simp, ?_⟩
      obtain ⟨_, h2, h3⟩ := h.seg
      refine ⟨by simp, by simpa [Mem.get_set, hna.symm] using h2, ?_⟩
      apply seg_congr a t 0 _ h3
      intro y hy
      have hyn : y ≠ n := fun e => hn (by simp [← e, hy])
      have hya : y ≠ a := fun e => (List.nodup_cons.1 hnd).1 (e ▸ hy)
      simp [Mem.get_set, hyn, hya]

/-! ### Remove -/

theorem getLastD_append_cons {α : Type} (S : List α) (n : α) (T : List α) (d : α) :
    (S ++ n :: T).getLastD d = T.getLastD n := by
  induction S generalizing d with
  | nil => rw [List.nil_append, List.getLastD_cons]
  | cons a S ih => simp only [List.cons_append, List.getLastD_cons]; exact ih a

theorem getLastD_mem {α : Type} (L : List α) (d : α) (h : L ≠ []) : L.getLastD d ∈ L := by
  rcases List.eq_nil_or_concat L with rfl | ⟨S, z, rfl⟩
  · exact absurd rfl h
  · rw [List.concat_eq_append, getLastD_append_cons]; simp

/-- `SetRoot(node->next)` before `Remove(node)` on the root changes nothing -/
theorem remove_after_setRoot (nx pv : Mem) (l : LL) (x : Nat) (hr : l.root = x) (hne : nx.get x ≠ x) :
    Lnk.remove ⟨nx, pv, { l with root := nx.get x }⟩ x = Lnk.remove ⟨nx, pv, l⟩ x := by
  simp only [Lnk.remove, hr, if_true]
  have : ¬ x = nx.get x := fun e => hne e.symm
  simp [this]

theorem remove_DL {nx pv : Mem} {l : LL} {S T : List Nat} {x : Nat}
    (h : DL nx.get pv.get l (S ++ x :: T)) (h0 : 0 ∉ S ++ x :: T) (hnd : (S ++ x :: T).Nodup) :
    let k := Lnk.remove ⟨nx, pv, l⟩ x
    DL k.nx.get k.pv.get k.l (S ++ T) ∧
      ∀ y, y ∉ S ++ T → k.nx.get y = nx.get y ∧ k.pv.get y = pv.get y := by
  intro k
  obtain ⟨hS, hxT⟩ := (seg_append 0 S (x :: T) 0).1 h.seg
  obtain ⟨hP, hN, hT⟩ := hxT
  simp only [List.headD_cons] at hS
  have hx0 : x ≠ 0 := fun e => h0 (by simp [e])
  have hndS : S.Nodup := (List.nodup_append.1 hnd).1
  have hndxT : (x :: T).Nodup := (List.nodup_append.1 hnd).2.1
  have hxS : x ∉ S := fun hm => (List.nodup_append.1 hnd).2.2 x hm x (by simp) rfl
  have hxT' : x ∉ T := (List.nodup_cons.1 hndxT).1
  have hdis : ∀ y ∈ S, y ∉ T := fun y hy hy' =>
    (List.nodup_append.1 hnd).2.2 y hy y (List.mem_cons_of_mem _ hy') rfl
  -- the predecessor and the successor
  have hP0 : S.getLastD 0 ≠ 0 ↔ S ≠ [] := by
    constructor
    · intro hne e; subst e; simp at hne
    · intro hne e
      have := getLastD_mem S 0 hne
      rw [e] at this; exact h0 (by simp [this])
  have hN0 : T.headD 0 ≠ 0 ↔ T ≠ [] := by
    cases T with
    | nil => simp
    | cons n T' => simp; intro e; exact h0 (by simp [e])
  have hPx : S.getLastD 0 ≠ x := by
    intro e
    by_cases hs : S = []
    · subst hs; simp at e; exact hx0 e.symm
    · exact hxS (e ▸ getLastD_mem S 0 hs)
  -- unfold the four statements
  have hnx1 : k.nx = if S = [] then nx else nx.set (S.getLastD 0) (T.headD 0) := by
    simp only [k, Lnk.remove, hP, hN]
    by_cases hs : S = []
    · subst hs; simp
    · rw [if_pos (hP0.2 hs), if_neg hs]
  have hnx1x : k.nx.get x = T.headD 0 := by
    rw [hnx1]; split
    · exact hN
    · rw [Mem.get_set_ne _ _ _ _ (Ne.symm hPx)]; exact hN
  have hpv1 : k.pv = if T = [] then pv else pv.set (T.headD 0) (S.getLastD 0) := by
    have : k.pv = if k.nx.get x ≠ 0 then pv.set (k.nx.get x) (pv.get x) else pv := rfl
    rw [this, hnx1x, hP]
    by_cases ht : T = []
    · subst ht; simp
    · rw [if_pos (hN0.2 ht), if_neg ht]
  have hroot : k.l.root = (S ++ T).headD 0 := by
    have : k.l.root = if x = l.root then nx.get l.root else l.root := rfl
    rw [this, h.root]
    cases S with
    | nil => simp [hN]
    | cons a S' =>
      have : x ≠ a := fun e => hxS (by simp [e])
      simp [this]
  have htail : S ++ T ≠ [] → k.l.tail = (S ++ T).getLastD 0 := by
    intro _
    have : k.l.tail = if x = l.tail then pv.get l.tail else l.tail := rfl
    rw [this, h.tail (by simp), getLastD_append_cons]
    cases T with
    | nil => simp [hP]
    | cons n T' =>
      have hmem : T'.getLastD n ∈ n :: T' := by
        have := getLastD_mem (n :: T') 0 (by simp)
        rwa [List.getLastD_cons] at this
      have : x ≠ T'.getLastD n := fun e => hxT' (e ▸ hmem)
      rw [List.getLastD_cons, getLastD_append_cons, if_neg this]
  refine ⟨⟨hroot, htail, ?_⟩, ?_⟩
  · rw [seg_append]
    constructor
    · -- the prefix, whose last node now points to the successor
      by_cases hs : S = []
      · subst hs; trivial
      · have h1 := seg_relast 0 S x (T.headD 0) hs hndS hS
        apply seg_congr 0 S _ _ h1
        intro y hy
        constructor
        · rw [hnx1]; simp [hs, Mem.get_set_fun]
        · rw [hpv1]
          split
          · rfl
          · rename_i ht
            have : y ≠ T.headD 0 := by
              intro e
              cases T with
              | nil => exact ht rfl
              | cons n T' => simp at e; exact hdis y hy (by simp [e])
            rw [Mem.get_set_ne _ _ _ _ this]
    · -- the suffix, whose first node now points back to the predecessor
      cases T with
      | nil => trivial
      | cons n T' =>
        have h1 := seg_rehead x (S.getLastD 0) n T' 0 (List.nodup_cons.1 hndxT).2 hT
        apply seg_congr _ _ _ _ h1
        intro y hy
        constructor
        · rw [hnx1]
          split
          · rfl
          · rename_i hs
            have : y ≠ S.getLastD 0 := fun e => hdis _ (getLastD_mem S 0 hs) (e ▸ hy)
            rw [Mem.get_set_ne _ _ _ _ this]
        · rw [hpv1]; simp [Mem.get_set_fun]
  · intro y hy
    constructor
    · rw [hnx1]; split
      · rfl
      · rename_i hs
        have : y ≠ S.getLastD 0 := fun e => hy (by
          rw [e]; exact List.mem_append_left _ (getLastD_mem S 0 hs))
        rw [Mem.get_set_ne _ _ _ _ this]
    · rw [hpv1]; split
      · rfl
      · rename_i ht
        have : y ≠ T.headD 0 := by
          intro e
          cases T with
          | nil => exact ht rfl
          | cons n T' => simp at e; exact hy (by simp [e])
        rw [Mem.get_set_ne _ _ _ _ this]

theorem addFirst_frame (nx pv : Mem) (l : LL) (L : List Nat) (n : Nat)
    (h : DL nx.get pv.get l L) :
    let k := Lnk.addFirst ⟨nx, pv, l⟩ n
    ∀ y, y ≠ n → y ∉ L → k.nx.get y = nx.get y ∧ k.pv.get y = pv.get y := by
  intro k y hyn hyL
  simp only [k, Lnk.addFirst]
  split
  · simp [Mem.get_set, hyn]
  · rename_i hr
    have : y ≠ l.root := by
      rw [h.root]
      cases L with
      | nil => exact absurd h.root hr
      | cons a t => simp at hyL ⊢; exact hyL.1
    simp [Mem.get_set, hyn, this]

/-! ### the block-list walk of `Count` -/

theorem listWalk_seg (nx : Mem) (pv : Nat → Nat) : ∀ (L : List Nat) (p fuel : Nat),
    Seg nx.get pv p L 0 → 0 ∉ L → L.length ≤ fuel → listWalk nx fuel (L.headD 0) = L
  | [], _, fuel, _, _, _ => by cases fuel <;> simp [listWalk]
  | a :: t, _, fuel, hs, h0, hf => by
    obtain ⟨f, rfl⟩ : ∃ f, fuel = f + 1 := ⟨fuel - 1, by simp at hf; omega⟩
    have ha : a ≠ 0 := fun e => h0 (by simp [e])
    obtain ⟨_, h2, h3⟩ := hs
    simp only [List.headD_cons, listWalk, ha, if_false, h2]
    rw [listWalk_seg nx pv t a f h3 (fun h => h0 (List.mem_cons_of_mem _ h)) (by simp at hf; omega)]

theorem listWalk_DL {nx : Mem} {pv : Nat → Nat} {l : LL} {L : List Nat} {fuel : Nat}
    (h : DL nx.get pv l L) (h0 : 0 ∉ L) (hf : L.length ≤ fuel) : listWalk nx fuel l.root = L := by
  rw [h.root]; exact listWalk_seg nx pv L 0 fuel h.seg h0 hf

end Morfuse.BlockAlloc
