import MorfuseModel.Common.Mem
import MorfuseModel.Common.Mem2
/-!
# Model of `MEM::BlockAlloc<aclass, blocksize>`  (include/morfuse/Common/MEM/BlockAlloc.h,
# `LinkedList<T*, next, prev>` of include/morfuse/Common/Linklist.h)

Transcribed statement by statement from the `!_DEBUG_MEMBLOCK` code.  Block ids are `Nat`
(`0` = `nullptr`, fresh ids come from `nextId` and are never reused — the harness maps block
addresses to allocation ordinals the same way).  A slot is `(block id, index)`; the C++ recovers
exactly this pair from an address in `Free` (`header->index`, then the block base).

Per-block fields (keyed by block id): `nd pd` = `next_data[] prev_data[]`, `freeData usedData`,
`hasFree hasUsed` (0/1), `bnext bprev` = `next_block prev_block`.  `used full` are the two
`LinkedList<block_t*>` objects (`rootnode`, `tail`), `freeBlock` = `m_FreeBlock`.
`used_data` of a fresh block is uninitialised in C++; nothing reads it before it is written.
-/
namespace Morfuse.BlockAlloc

abbrev Slot := Nat × Nat

/-- `LinkedList<T*>`: `rootnode`, `tail` -/
structure LL where
  root : Nat := 0
  tail : Nat := 0

structure State where
  nd : Mem2
  pd : Mem2
  freeData : Mem
  usedData : Mem
  hasFree : Mem
  hasUsed : Mem
  bnext : Mem
  bprev : Mem
  freeBlock : Nat
  used : LL
  full : LL
  blockCount : Nat
  nextId : Nat             -- ghost: id the next `new block_t` gets

def init : State :=
  { nd := .empty, pd := .empty, freeData := .empty, usedData := .empty, hasFree := .empty,
    hasUsed := .empty, bnext := .empty, bprev := .empty, freeBlock := 0, used := {}, full := {},
    blockCount := 0, nextId := 1 }

/-! ### `LinkedList<T*, next, prev>` (pointer specialisation) -/

/-- one list together with the link fields it threads through -/
structure Lnk where
  nx : Mem
  pv : Mem
  l : LL

/-- `LinkedList::AddFirst` -/
def Lnk.addFirst (k : Lnk) (n : Nat) : Lnk :=
  if k.l.root = 0 then
    -- tail = newnode; newnode->next = newnode->prev = nullptr; rootnode = newnode
    { nx := k.nx.set n 0, pv := k.pv.set n 0, l := { root := n, tail := n } }
  else
    -- newnode->next = rootnode; newnode->prev = nullptr; rootnode->prev = newnode; rootnode = newnode
    { nx := k.nx.set n k.l.root, pv := (k.pv.set n 0).set k.l.root n, l := { k.l with root := n } }

/-- `LinkedList::Remove` -/
def Lnk.remove (k : Lnk) (n : Nat) : Lnk :=
  -- if (node == rootnode) rootnode = rootnode->next;
  let root1 := if n = k.l.root then k.nx.get k.l.root else k.l.root
  -- if (node == tail) tail = tail->prev;
  let tail1 := if n = k.l.tail then k.pv.get k.l.tail else k.l.tail
  -- if (node->prev) node->prev->next = node->next;
  let nx1 := if k.pv.get n ≠ 0 then k.nx.set (k.pv.get n) (k.nx.get n) else k.nx
  -- if (node->next) node->next->prev = node->prev;
  let pv1 := if nx1.get n ≠ 0 then k.pv.set (nx1.get n) (k.pv.get n) else k.pv
  { nx := nx1, pv := pv1, l := { root := root1, tail := tail1 } }

def usedK (s : State) : Lnk := ⟨s.bnext, s.bprev, s.used⟩
def fullK (s : State) : Lnk := ⟨s.bnext, s.bprev, s.full⟩
def setUsedK (s : State) (k : Lnk) : State := { s with bnext := k.nx, bprev := k.pv, used := k.l }
def setFullK (s : State) (k : Lnk) : State := { s with bnext := k.nx, bprev := k.pv, full := k.l }

/-! ### `block_s::block_s()` -/

/-- the constructor loop `for (curr = 0; curr < blocksize - 1; ++curr)`:
    `prev_data[curr + 1] = curr; next_data[curr] = curr + 1;` -/
def initLinks (b : Nat) : Nat → Mem2 → Mem2 → Mem2 × Mem2
  | 0, nd, pd => (nd, pd)
  | k + 1, nd, pd =>
    let r := initLinks b k nd pd
    (r.1.set b k (k + 1), r.2.set b (k + 1) k)

/-- `new (MEM::Alloc(sizeof(block_t))) block_t()` -/
def newBlock (bs : Nat) (s : State) : State × Nat :=
  let b := s.nextId
  let r := initLinks b (bs - 1) s.nd s.pd
  -- prev_data[0] = blocksize - 1; next_data[blocksize - 1] = 0;
  let pd := r.2.set b 0 (bs - 1)
  let nd := r.1.set b (bs - 1) 0
  ({ s with nd := nd, pd := pd, freeData := s.freeData.set b 0,
            bprev := s.bprev.set b 0, bnext := s.bnext.set b 0,
            hasFree := s.hasFree.set b 1, hasUsed := s.hasUsed.set b 0, nextId := b + 1 }, b)

/-! ### `Alloc` -/

/-- `BlockAlloc::TakeFree`: link `fd` in front of the used head, i.e. at the end of the used ring -/
def takeFree (s : State) (b fd : Nat) : State × Slot :=
  let ud := s.usedData.get b
  let pvd := s.pd.get b ud
  -- next_data[prev_data] = free_data; prev_data[used_data] = free_data;
  let s := { s with nd := s.nd.set b pvd fd }
  let s := { s with pd := s.pd.set b ud fd }
  -- next_data[free_data] = used_data; prev_data[free_data] = prev_data;
  let s := { s with nd := s.nd.set b fd ud }
  let s := { s with pd := s.pd.set b fd pvd }
  (s, (b, fd))

/-- first half of the common tail of `Alloc` (from `const block_offset_t prev_data = …` on):
    unlink `free_data` from the free ring, its successor becomes the free head -/
def popFree (s : State) (b fd nxd : Nat) : State :=
  let pvd := s.pd.get b fd
  -- next_data[prev_data] = next_data; prev_data[next_data] = prev_data;
  let s := { s with nd := s.nd.set b pvd nxd }
  let s := { s with pd := s.pd.set b nxd pvd }
  -- free_data = next_data; has_free_data = true;
  { s with freeData := s.freeData.set b nxd, hasFree := s.hasFree.set b 1 }

/-- `used_data = free_data; has_used_data = true; next_data[free_data] = prev_data[free_data] = free_data` -/
def startUsed (s : State) (b fd : Nat) : State :=
  { s with usedData := s.usedData.set b fd, hasUsed := s.hasUsed.set b 1,
           nd := s.nd.set b fd fd, pd := s.pd.set b fd fd }

/-- the common tail of `Alloc` -/
def allocTail (s : State) (b fd nxd : Nat) : State × Slot :=
  let s := popFree s b fd nxd
  if s.hasUsed.get b = 0 then
    (startUsed s b fd, (b, fd))
  else
    takeFree s b fd

/-- `BlockAlloc::Alloc` -/
def alloc (bs : Nat) (s : State) : State × Slot :=
  if s.used.root ≠ 0 then
    let b := s.used.root
    let fd := s.freeData.get b
    let nxd := s.nd.get b fd
    if nxd = fd then
      -- last free slot of the block: move it to the full list
      -- m_StartUsedBlock.SetRoot(used_block->next_block); m_StartUsedBlock.Remove(used_block);
      let k : Lnk := { usedK s with l := { s.used with root := s.bnext.get b } }
      let s := setUsedK s (k.remove b)
      -- m_StartFullBlock.AddFirst(used_block);
      let s := setFullK s ((fullK s).addFirst b)
      -- used_block->has_free_data = false;
      let s := { s with hasFree := s.hasFree.set b 0 }
      takeFree s b fd
    else
      allocTail s b fd nxd
  else if s.freeBlock ≠ 0 then
    -- start from the cached free block
    let b := s.freeBlock
    let s := { s with freeBlock := 0 }
    let fd := s.freeData.get b
    let nxd := s.nd.get b fd
    let s := setUsedK s ((usedK s).addFirst b)
    allocTail s b fd nxd
  else
    -- m_BlockCount++; allocate and construct a new block; free_data = 0; next_data = 1
    let s := { s with blockCount := s.blockCount + 1 }
    let r := newBlock bs s
    let s := setUsedK r.1 ((usedK r.1).addFirst r.2)
    allocTail s r.2 0 1

/-! ### `Free` -/

/-- link `i` in front of the free head (end of the free ring); the four statements that appear twice
    in `Free` -/
def pushFree (s : State) (b i : Nat) : State :=
  let fd := s.freeData.get b
  let pvd := s.pd.get b fd
  -- next_data[prev_data] = used_data; prev_data[free_data] = used_data;
  let s := { s with nd := s.nd.set b pvd i }
  let s := { s with pd := s.pd.set b fd i }
  -- next_data[used_data] = free_data; prev_data[used_data] = prev_data;
  let s := { s with nd := s.nd.set b i fd }
  let s := { s with pd := s.pd.set b i pvd }
  s

/-- `Free`, slot with other used slots in its block: unlink it from the used ring, the successor
    becomes the used head -/
def unlinkUsed (s : State) (b i nxd : Nat) : State :=
  let pvd := s.pd.get b i
  -- next_data[prev_data] = next_data; prev_data[next_data] = prev_data;
  let s := { s with nd := s.nd.set b pvd nxd }
  let s := { s with pd := s.pd.set b nxd pvd }
  -- used_data = next_data; has_used_data = true;
  { s with usedData := s.usedData.set b nxd, hasUsed := s.hasUsed.set b 1 }

/-- `free_data = used_data; has_free_data = true; prev_data[used_data] = next_data[used_data] = used_data` -/
def startFree (s : State) (b i : Nat) : State :=
  let s := { s with freeData := s.freeData.set b i, hasFree := s.hasFree.set b 1 }
  let s := { s with pd := s.pd.set b i i }
  { s with nd := s.nd.set b i i }

/-- `if (m_FreeBlock) { --m_BlockCount; MEM::Free(m_FreeBlock); m_FreeBlock = nullptr; }` -/
def dropFreeBlock (s : State) : State :=
  if s.freeBlock ≠ 0 then { s with blockCount := s.blockCount - 1, freeBlock := 0 } else s

/-- `BlockAlloc::Free` on the slot `(b, i)` (the pair the C++ computes from the address) -/
def free (_bs : Nat) (s : State) (p : Slot) : State :=
  let b := p.1
  let i := p.2
  let nxd := s.nd.get b i
  if nxd = i then
    -- the only used slot of its block
    let s := setUsedK s ((usedK s).remove b)
    let s := dropFreeBlock s
    -- m_FreeBlock = block; block->has_used_data = false;
    let s := { s with freeBlock := b, hasUsed := s.hasUsed.set b 0 }
    pushFree s b i
  else
    let s := unlinkUsed s b i nxd
    if s.hasFree.get b ≠ 0 then
      pushFree s b i
    else
      -- the block was full: move it to the used list
      -- if (m_StartFullBlock == block) m_StartFullBlock.SetRoot(block->next_block);
      let k : Lnk := if s.full.root = b then { fullK s with l := { s.full with root := s.bnext.get b } } else fullK s
      -- m_StartFullBlock.Remove(block); m_StartUsedBlock.AddFirst(block);
      let s := setFullK s (k.remove b)
      let s := setUsedK s ((usedK s).addFirst b)
      startFree s b i

/-! ### `Count` and the set of live slots -/

/-- `do { count++; cur = next_data[cur]; } while (cur != used_data);` with explicit fuel,
    collecting the visited indices -/
def ringWalk (nd : Mem2) (b : Nat) : Nat → Nat → Nat → List Nat
  | 0, _, _ => []
  | f + 1, cur, start =>
    let n := nd.get b cur
    cur :: (if n = start then [] else ringWalk nd b f n start)

/-- the same loop, counting as the C++ does -/
def ringCount (nd : Mem2) (b : Nat) : Nat → Nat → Nat → Nat → Nat
  | 0, _, _, c => c
  | f + 1, cur, start, c =>
    let n := nd.get b cur
    if n = start then c + 1 else ringCount nd b f n start (c + 1)

/-- `for (block = list.Root(); block; block = block->next_block)` with explicit fuel -/
def listWalk (nx : Mem) : Nat → Nat → List Nat
  | 0, _ => []
  | f + 1, b => if b = 0 then [] else b :: listWalk nx f (nx.get b)

/-- `BlockAlloc::Count(const List&)` -/
def countList (bs : Nat) (s : State) (root : Nat) : Nat :=
  (listWalk s.bnext s.blockCount root).foldl (fun c b =>
    if s.hasUsed.get b = 0 then c
    else ringCount s.nd b bs (s.usedData.get b) (s.usedData.get b) c) 0

/-- `BlockAlloc::Count()` -/
def count (bs : Nat) (s : State) : Nat :=
  countList bs s s.full.root + countList bs s s.used.root

/-- the slots `Count(list)` visits -/
def liveList (bs : Nat) (s : State) (root : Nat) : List Slot :=
  (listWalk s.bnext s.blockCount root).flatMap fun b =>
    if s.hasUsed.get b = 0 then []
    else (ringWalk s.nd b bs (s.usedData.get b) (s.usedData.get b)).map fun i => (b, i)

/-- the live slots: exactly what `Count()` visits, in its order (full list, then used list) -/
def liveOf (bs : Nat) (s : State) : List Slot :=
  liveList bs s s.full.root ++ liveList bs s s.used.root

/-! ### `FreeAll` -/

/-- One of the two loops of `FreeAll`:
    `while (block) { if (block->usedDataAvailable()) { ptr->~a(); Free(ptr); block = list.CreateIterator(); } }`.
    `sel` reads the root of the list being drained.  `dtor s p` is what the element destructor of
    `p` does to the pool in state `s`: the other slots it frees, in order (a cascade is flattened
    in the order of the `Free` calls).  The result collects every destroyed slot in the order the
    destructors complete.  `none`: the C++ loop would not terminate (a listed block without used
    data makes it spin; otherwise out of fuel). -/
def drain (bs : Nat) (dtor : State → Slot → List Slot) (sel : State → Nat) :
    Nat → State → List Slot → Option (State × List Slot)
  | 0, s, acc => if sel s = 0 then some (s, acc) else none
  | f + 1, s, acc =>
    let b := sel s
    if b = 0 then some (s, acc)
    else if s.hasUsed.get b = 0 then none
    else
      let p : Slot := (b, s.usedData.get b)
      let kids := dtor s p
      let s1 := kids.foldl (free bs) s
      drain bs dtor sel f (free bs s1 p) (acc ++ kids ++ [p])

/-- `BlockAlloc::FreeAll` -/
def freeAll (bs : Nat) (dtor : State → Slot → List Slot) (s : State) : Option (State × List Slot) :=
  -- every round of either loop frees at least one live slot
  let n := count bs s
  (drain bs dtor (fun s => s.full.root) n s []).bind fun r1 =>
  (drain bs dtor (fun s => s.used.root) n r1.1 r1.2).bind fun r2 =>
  -- if (m_FreeBlock) { m_BlockCount--; MEM::Free(m_FreeBlock); m_FreeBlock = nullptr; }
  some (dropFreeBlock r2.1, r2.2)

/-! ### histories -/

/-- a destructor behaviour is admissible when, whatever the state, destroying a live `p` frees
    distinct live slots other than `p` (no double free, `p` itself is freed by the caller) -/
def DtorOk (bs : Nat) (dtor : State → Slot → List Slot) : Prop :=
  ∀ s p, p ∈ liveOf bs s → (dtor s p).Nodup ∧ p ∉ dtor s p ∧ ∀ q ∈ dtor s p, q ∈ liveOf bs s

structure Dtor (bs : Nat) where
  f : State → Slot → List Slot
  ok : DtorOk bs f

inductive Op (bs : Nat)
  | alloc
  | free (p : Slot)
  | freeAll (d : Dtor bs)

/-- One host operation; `none` when it is not a legal use of the pool (freeing a slot that is not
    live) or when `FreeAll` does not terminate. -/
def step (bs : Nat) (s : State) : Op bs → Option State
  | .alloc => some (alloc bs s).1
  | .free p => if p ∈ liveOf bs s then some (free bs s p) else none
  | .freeAll d => (freeAll bs d.f s).map (·.1)

def run (bs : Nat) : State → List (Op bs) → Option State
  | s, [] => some s
  | s, op :: ops => (step bs s op).bind (run bs · ops)

def Reachable (bs : Nat) (s : State) : Prop := ∃ ops, run bs init ops = some s

end Morfuse.BlockAlloc
