import MorfuseModel.Common.Ring
import MorfuseModel.Common.Mem2
import MorfuseModel.BlockAlloc.Model
/-!
# Ring facts in the shape the `BlockAlloc` code needs

Built on `Common/Ring.lean`: the update orders of `TakeFree` / `Free`, unlinking an arbitrary
node with the successor as new head, and the two fuel-indexed walks of `Count`.
-/
namespace Morfuse.Ring

theorem upd_comm (f : Nat → Nat) (a x b y : Nat) (h : a ≠ b) :
    upd (upd f a x) b y = upd (upd f b y) a x := by
  funext z; simp only [upd]; split <;> split <;> simp_all

theorem upd_upd_same (f : Nat → Nat) (a x y : Nat) : upd (upd f a x) a y = upd f a y := by
  funext z; simp only [upd]; split <;> rfl

theorem IsRing.congr {nx pv nx' pv' : Nat → Nat} {a : Nat} {t : List Nat} (h : IsRing nx pv a t)
    (hn : ∀ x ∈ a :: t, nx' x = nx x) (hp : ∀ x ∈ a :: t, pv' x = pv x) : IsRing nx' pv' a t := by
  refine ⟨h.1, path_congr a t a hn ?_ h.2⟩
  intro x hx
  apply hp
  rcases List.mem_append.1 hx with h | h
  · exact List.mem_cons_of_mem _ h
  · simp at h; simp [h]

/-- `TakeFree` / the free-ring push of `Free`: link `x` in front of the head `a` with the code's
    statement order `next[prev[a]] = x; prev[a] = x; next[x] = a; prev[x] = prev[a]` -/
theorem ring_push {nx pv : Nat → Nat} {a : Nat} {t : List Nat} {x : Nat}
    (h : IsRing nx pv a t) (hx : x ∉ a :: t) :
    IsRing (upd (upd nx (pv a) x) x a) (upd (upd pv a x) x (pv a)) a (t ++ [x]) := by
  have hl : pv a ∈ a :: t := (ring_links h a (by simp)).2.2.2
  have h1 : pv a ≠ x := fun e => hx (e ▸ hl)
  have h2 : a ≠ x := fun e => hx (by simp [e])
  have := add_ref h hx
  rw [upd_comm nx x a (pv a) x (Ne.symm h1), upd_comm pv x (pv a) a x (Ne.symm h2)] at this
  exact this

/-- a ring of one node, as the code writes it -/
theorem ring_self (nx pv : Nat → Nat) (x : Nat) : IsRing (upd nx x x) (upd pv x x) x [] := by
  simp [IsRing, Path]

/-- unlinking the head `a` of a ring with at least two nodes by
    `next[prev[a]] = next[a]; prev[next[a]] = prev[a]`; the successor becomes the head.
    (`a`'s own links are left dangling: the caller overwrites them.) -/
theorem ring_pop_head {nx pv : Nat → Nat} {a m : Nat} {u : List Nat} (h : IsRing nx pv a (m :: u)) :
    nx a = m ∧ IsRing (upd nx (pv a) (nx a)) (upd pv (nx a) (pv a)) m u := by
  refine ⟨h.2.1, ?_⟩
  have hnd : a ∉ m :: u := (List.nodup_cons.1 h.1).1
  apply (ring_remove_head h).congr
  · intro x hx
    have : x ≠ a := fun e => hnd (e ▸ hx)
    simp [upd, this]
  · intro x hx
    have : x ≠ a := fun e => hnd (e ▸ hx)
    simp [upd, this]

/-- any node of a ring can be taken as its head -/
theorem ring_rotate_to {nx pv : Nat → Nat} {a x : Nat} {s u : List Nat}
    (h : IsRing nx pv a (s ++ x :: u)) : IsRing nx pv x (u ++ a :: s) := by
  obtain ⟨hnd, hp⟩ := h
  obtain ⟨h1, h2⟩ := (path_append nx pv a s x u a).1 hp
  refine ⟨?_, (path_append nx pv x u a s x).2 ⟨h2, h1⟩⟩
  have : (a :: (s ++ x :: u)).Perm (x :: (u ++ a :: s)) := by
    have e1 : a :: (s ++ x :: u) = (a :: s) ++ (x :: u) := by simp
    have e2 : x :: (u ++ a :: s) = (x :: u) ++ (a :: s) := by simp
    rw [e1, e2]; exact List.perm_append_comm
  exact this.nodup_iff.1 hnd

/-- the ring seen from an arbitrary member -/
theorem ring_from {nx pv : Nat → Nat} {a x : Nat} {t : List Nat} (h : IsRing nx pv a t)
    (hx : x ∈ a :: t) : ∃ t', IsRing nx pv x t' ∧ (x :: t').Perm (a :: t) := by
  rcases List.mem_cons.1 hx with rfl | hxt
  · exact ⟨t, h, List.Perm.refl _⟩
  · obtain ⟨s, u, rfl⟩ := List.append_of_mem hxt
    refine ⟨u ++ a :: s, ring_rotate_to h, ?_⟩
    have e1 : a :: (s ++ x :: u) = (a :: s) ++ (x :: u) := by simp
    have e2 : x :: (u ++ a :: s) = (x :: u) ++ (a :: s) := by simp
    rw [e1, e2]; exact List.perm_append_comm

/-- `Free` of a used slot that is not the only one: unlink `x`, the successor becomes the head -/
theorem ring_unlink {nx pv : Nat → Nat} {a x : Nat} {t : List Nat} (h : IsRing nx pv a t)
    (hx : x ∈ a :: t) (hne : nx x ≠ x) :
    ∃ u, IsRing (upd nx (pv x) (nx x)) (upd pv (nx x) (pv x)) (nx x) u ∧
      (x :: nx x :: u).Perm (a :: t) := by
  obtain ⟨t', hr, hperm⟩ := ring_from h hx
  cases t' with
  | nil => exact absurd (ring_single_iff.1 hr).1 hne
  | cons m u =>
    obtain ⟨e, hr'⟩ := ring_pop_head hr
    rw [e] at hr' ⊢
    exact ⟨u, hr', hperm⟩

/-- a node whose successor is itself is alone in its ring -/
theorem ring_alone {nx pv : Nat → Nat} {a x : Nat} {t : List Nat} (h : IsRing nx pv a t)
    (hx : x ∈ a :: t) (he : nx x = x) : t = [] ∧ x = a := by
  by_cases ht : t = []
  · subst ht; simp at hx; exact ⟨rfl, hx⟩
  · exact absurd he (ring_nx_ne h ht x hx)

end Morfuse.Ring

namespace Morfuse.BlockAlloc
open Morfuse.Ring

/-! ### the walks of `Count` -/

theorem ringWalk_path (nd : Mem2) (b start : Nat) (pv : Nat → Nat) :
    ∀ (l : List Nat) (c fuel : Nat), Path (nd.row b) pv c l start → start ∉ l → l.length < fuel →
      ringWalk nd b fuel c start = c :: l
  | [], c, fuel, hp, _, hf => by
    obtain ⟨f, rfl⟩ : ∃ f, fuel = f + 1 := ⟨fuel - 1, by simp at hf; omega⟩
    have : nd.get b c = start := hp.1
    simp [ringWalk, this]
  | y :: l, c, fuel, hp, hs, hf => by
    obtain ⟨f, rfl⟩ : ∃ f, fuel = f + 1 := ⟨fuel - 1, by simp at hf; omega⟩
    obtain ⟨h1, _, h3⟩ := hp
    have h1' : nd.get b c = y := h1
    have hy : y ≠ start := fun e => hs (by simp [e])
    simp only [ringWalk, h1', hy, if_false]
    rw [ringWalk_path nd b start pv l y f h3 (fun h => hs (List.mem_cons_of_mem _ h)) (by simp at hf; omega)]

theorem ringWalk_ring {nd : Mem2} {b a : Nat} {pv : Nat → Nat} {t : List Nat} {fuel : Nat}
    (h : IsRing (nd.row b) pv a t) (hf : t.length < fuel) : ringWalk nd b fuel a a = a :: t :=
  ringWalk_path nd b a pv t a fuel h.2 (List.nodup_cons.1 h.1).1 hf

/-- the counting loop and the collecting loop visit the same nodes (no invariant needed) -/
theorem ringCount_eq (nd : Mem2) (b start : Nat) :
    ∀ (fuel cur c : Nat), ringCount nd b fuel cur start c = c + (ringWalk nd b fuel cur start).length
  | 0, _, _ => by simp [ringCount, ringWalk]
  | f + 1, cur, c => by
    simp only [ringCount, ringWalk]
    split
    · simp
    · rw [ringCount_eq nd b start f]; simp; omega

end Morfuse.BlockAlloc
