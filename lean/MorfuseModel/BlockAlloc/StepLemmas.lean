import MorfuseModel.BlockAlloc.Inv
/-!
# State-level pieces of `Alloc` / `Free`: list moves and the composite ring steps
-/
namespace Morfuse.BlockAlloc
open Morfuse.Ring

/-- rings of every block other than `b` survive the step -/
def OtherRings (s s' : State) (b : Nat) : Prop :=
  ∀ c, c ≠ b → ∀ U F, Rings s c U F → Rings s' c U F

theorem OtherRings.ofBlock {s s' : State} {b : Nat} (h : BlockFrame s s' b) : OtherRings s s' b :=
  fun _ hc _ _ hr => hr.frame h hc
theorem OtherRings.ofList {s s' : State} (b : Nat) (h : ListFrame s s') : OtherRings s s' b :=
  fun _ _ _ _ hr => hr.listFrame h
theorem OtherRings.trans {s s' s'' : State} {b : Nat} (h1 : OtherRings s s' b) (h2 : OtherRings s' s'' b) :
    OtherRings s s'' b := fun c hc U F hr => h2 c hc U F (h1 c hc U F hr)
theorem OtherRings.ofNew {s s' : State} {b : Nat} (h : NewFrame s s' b) : OtherRings s s' b := by
  intro c hc U F hr
  refine ⟨?_, ?_, hr.nodup⟩
  · rw [h.nd c hc, h.pd c hc, h.usedData c hc, h.hasUsed c hc]; exact hr.used
  · rw [h.nd c hc, h.pd c hc, h.freeData c hc, h.hasFree c hc]; exact hr.free

/-- the three scalars that only `Alloc`'s new-block path and `dropFreeBlock` touch -/
structure Scalars (s s' : State) : Prop where
  freeBlock : s'.freeBlock = s.freeBlock
  blockCount : s'.blockCount = s.blockCount
  nextId : s'.nextId = s.nextId

theorem Scalars.trans {s s' s'' : State} (h1 : Scalars s s') (h2 : Scalars s' s'') : Scalars s s'' :=
  ⟨by rw [h2.freeBlock, h1.freeBlock], by rw [h2.blockCount, h1.blockCount], by rw [h2.nextId, h1.nextId]⟩

theorem ListFrame.trans {s s' s'' : State} (h1 : ListFrame s s') (h2 : ListFrame s' s'') : ListFrame s s'' :=
  ⟨by rw [h2.nd, h1.nd], by rw [h2.pd, h1.pd], by rw [h2.usedData, h1.usedData],
   by rw [h2.hasUsed, h1.hasUsed], by rw [h2.freeData, h1.freeData], by rw [h2.hasFree, h1.hasFree]⟩

/-! ### list moves on the state -/

theorem usedRemove_spec {s : State} {S T Y : List Nat} {x : Nat}
    (hX : DL s.bnext.get s.bprev.get s.used (S ++ x :: T)) (hY : DL s.bnext.get s.bprev.get s.full Y)
    (h0 : 0 ∉ S ++ x :: T) (hnd : (S ++ x :: T ++ Y).Nodup) :
    let s' := setUsedK s ((usedK s).remove x)
    DL s'.bnext.get s'.bprev.get s'.used (S ++ T) ∧ DL s'.bnext.get s'.bprev.get s'.full Y ∧
      ListFrame s s' ∧ Scalars s s' := by
  intro s'
  have hndX : (S ++ x :: T).Nodup := (List.nodup_append.1 hnd).1
  obtain ⟨h1, h2⟩ := remove_DL hX h0 hndX
  refine ⟨h1, ?_, ⟨rfl, rfl, rfl, rfl, rfl, rfl⟩, ⟨rfl, rfl, rfl⟩⟩
  apply hY.congr
  intro y hy
  apply h2 y
  intro hm
  have : y ∈ S ++ x :: T := by
    rcases List.mem_append.1 hm with h | h
    · exact List.mem_append_left _ h
    · exact List.mem_append_right _ (List.mem_cons_of_mem _ h)
  exact (List.nodup_append.1 hnd).2.2 y this y hy rfl

theorem fullRemove_spec {s : State} {S T Y : List Nat} {x : Nat}
    (hX : DL s.bnext.get s.bprev.get s.full (S ++ x :: T)) (hY : DL s.bnext.get s.bprev.get s.used Y)
    (h0 : 0 ∉ S ++ x :: T) (hnd : (S ++ x :: T ++ Y).Nodup) :
    let s' := setFullK s ((fullK s).remove x)
    DL s'.bnext.get s'.bprev.get s'.full (S ++ T) ∧ DL s'.bnext.get s'.bprev.get s'.used Y ∧
      ListFrame s s' ∧ Scalars s s' := by
  intro s'
  have hndX : (S ++ x :: T).Nodup := (List.nodup_append.1 hnd).1
  obtain ⟨h1, h2⟩ := remove_DL hX h0 hndX
  refine ⟨h1, ?_, ⟨rfl, rfl, rfl, rfl, rfl, rfl⟩, ⟨rfl, rfl, rfl⟩⟩
  apply hY.congr
  intro y hy
  apply h2 y
  intro hm
  have : y ∈ S ++ x :: T := by
    rcases List.mem_append.1 hm with h | h
    · exact List.mem_append_left _ h
    · exact List.mem_append_right _ (List.mem_cons_of_mem _ h)
  exact (List.nodup_append.1 hnd).2.2 y this y hy rfl

theorem usedAddFirst_spec {s : State} {X Y : List Nat} {x : Nat}
    (hX : DL s.bnext.get s.bprev.get s.used X) (hY : DL s.bnext.get s.bprev.get s.full Y)
    (h0 : 0 ∉ X) (hnd : (x :: (X ++ Y)).Nodup) :
    let s' := setUsedK s ((usedK s).addFirst x)
    DL s'.bnext.get s'.bprev.get s'.used (x :: X) ∧ DL s'.bnext.get s'.bprev.get s'.full Y ∧
      ListFrame s s' ∧ Scalars s s' := by
  intro s'
  have hxXY : x ∉ X ++ Y := (List.nodup_cons.1 hnd).1
  have hndXY : (X ++ Y).Nodup := (List.nodup_cons.1 hnd).2
  have h1 := addFirst_DL hX h0 (List.nodup_append.1 hndXY).1 (fun hm => hxXY (List.mem_append_left _ hm))
  have h2 := addFirst_frame s.bnext s.bprev s.used X x hX
  refine ⟨h1, ?_, ⟨rfl, rfl, rfl, rfl, rfl, rfl⟩, ⟨rfl, rfl, rfl⟩⟩
  apply hY.congr
  intro y hy
  apply h2 y
  · intro e; exact hxXY (e ▸ List.mem_append_right _ hy)
  · intro hm; exact (List.nodup_append.1 hndXY).2.2 y hm y hy rfl

theorem fullAddFirst_spec {s : State} {X Y : List Nat} {x : Nat}
    (hX : DL s.bnext.get s.bprev.get s.full X) (hY : DL s.bnext.get s.bprev.get s.used Y)
    (h0 : 0 ∉ X) (hnd : (x :: (X ++ Y)).Nodup) :
    let s' := setFullK s ((fullK s).addFirst x)
    DL s'.bnext.get s'.bprev.get s'.full (x :: X) ∧ DL s'.bnext.get s'.bprev.get s'.used Y ∧
      ListFrame s s' ∧ Scalars s s' := by
  intro s'
  have hxXY : x ∉ X ++ Y := (List.nodup_cons.1 hnd).1
  have hndXY : (X ++ Y).Nodup := (List.nodup_cons.1 hnd).2
  have h1 := addFirst_DL hX h0 (List.nodup_append.1 hndXY).1 (fun hm => hxXY (List.mem_append_left _ hm))
  have h2 := addFirst_frame s.bnext s.bprev s.full X x hX
  refine ⟨h1, ?_, ⟨rfl, rfl, rfl, rfl, rfl, rfl⟩, ⟨rfl, rfl, rfl⟩⟩
  apply hY.congr
  intro y hy
  apply h2 y
  · intro e; exact hxXY (e ▸ List.mem_append_right _ hy)
  · intro hm; exact (List.nodup_append.1 hndXY).2.2 y hm y hy rfl

/-- the successor of the root of a list is not the root itself -/
theorem DL.root_next_ne {nx pv : Nat → Nat} {l : LL} {x : Nat} {T : List Nat}
    (h : DL nx pv l (x :: T)) (hx0 : x ≠ 0) (hxT : x ∉ T) : nx x ≠ x := by
  obtain ⟨_, h2, _⟩ := h.seg
  rw [h2]
  cases T with
  | nil => simpa using hx0.symm
  | cons n T' => simp at hxT ⊢; exact fun e => hxT.1 e.symm

/-! ### the common tail of `Alloc` on one block -/

theorem allocTail_rings {s : State} {b fd m : Nat} {u U : List Nat} (h : Rings s b U (fd :: m :: u)) :
    (allocTail s b fd m).2 = (b, fd) ∧ Rings (allocTail s b fd m).1 b (U ++ [fd]) (m :: u) ∧
      BlockFrame s (allocTail s b fd m).1 b := by
  obtain ⟨h1, hf1, hfd⟩ := popFree_rings h
  cases U with
  | nil =>
    have hflag : (popFree s b fd m).hasUsed.get b = 0 := h1.used
    have hfdG : fd ∉ m :: u := by simpa using hfd
    obtain ⟨h2, hf2⟩ := startUsed_rings h1 hfdG
    simp only [allocTail, hflag, if_true, List.nil_append]
    exact ⟨trivial, h2, hf1.trans hf2⟩
  | cons a t =>
    have hflag : (popFree s b fd m).hasUsed.get b = 1 := h1.used.1
    obtain ⟨h2, h3, hf2⟩ := takeFree_rings h1 hfd
    have : ¬ (popFree s b fd m).hasUsed.get b = 0 := by rw [hflag]; decide
    simp only [allocTail, this, if_false]
    exact ⟨h2, by simpa using h3, hf1.trans hf2⟩

end Morfuse.BlockAlloc
