import MorfuseModel.Bytecode.Model
import MorfuseModel.Bytecode.VmErrors

/-! Soundness of the checker `Bytecode.check` (and with it of `Bytecode.verify`): the annotation is an
inductive invariant of the abstract VM, and every annotated state is safe. -/
namespace Morfuse.Bytecode
open Gen

/-! ### the opcode enumeration is complete -/

theorem Opcode.mem_all (o : Opcode) : o ∈ Opcode.all := by
  cases o <;> decide

theorem forall_opcode_of_all {P : Opcode → Bool} (h : Opcode.all.all P = true) (o : Opcode) : P o = true :=
  (List.all_eq_true.mp h) o (Opcode.mem_all o)

/-! ### what `check` guarantees -/

/-- the annotation is an invariant candidate: the state is annotated exactly as it is -/
def Inv (p : Program) (H : Ann) (s : St) : Prop := s.pc < p.size ∧ H.at s.pc = some (s.h, s.mark)

theorem holds_iff (H : Ann) (s : St) : H.holds s = true ↔ H.at s.pc = some (s.h, s.mark) := by
  unfold Ann.holds
  constructor
  · intro h; exact eq_of_beq h
  · intro h; rw [h]; exact beq_self_eq_true _

theorem check_facts (p : Program) (H : Ann) (h : check p H = true) :
    (∀ e ∈ p.entries, e < p.size ∧ H.holds (St.start e) = true) ∧
    (∀ pc, pc < p.size → checkAt p H pc = true) := by
  unfold check at h
  simp only [Bool.and_eq_true, List.all_eq_true, decide_eq_true_eq] at h
  refine ⟨?_, ?_⟩
  · intro e he
    exact h.1.1.1.2 e he
  · intro pc hpc
    exact h.1.1.2 pc (List.mem_range.mpr hpc)

/-- the local condition, taken apart -/
theorem checkAt_facts (p : Program) (H : Ann) (s : St)
    (hat : H.at s.pc = some (s.h, s.mark)) (hc : checkAt p H s.pc = true) :
    interiorFree p H s.pc = true ∧ s.h + 1 ≤ p.declared ∧ refsOk p s.pc = true ∧
    (∀ k, endHeight p s = some k → k = 0) ∧
    (∃ l, step p s = some l ∧ ∀ s' ∈ l, s'.pc < p.size ∧ H.holds s' = true) := by
  unfold checkAt at hc
  rw [hat] at hc
  simp only [Bool.and_eq_true, decide_eq_true_eq] at hc
  obtain ⟨⟨⟨⟨hB, hd⟩, hr⟩, he⟩, hs⟩ := hc
  have hs' : s = ⟨s.pc, s.h, s.mark⟩ := rfl
  refine ⟨hB, hd, hr, ?_, ?_⟩
  · intro k hk
    rw [← hs'] at he
    rw [hk] at he
    simpa using he
  · rw [← hs'] at hs
    split at hs
    · exact absurd hs (by simp)
    · rename_i l hl
      refine ⟨l, hl, ?_⟩
      intro s' hs'
      have := (List.all_eq_true.mp hs) s' hs'
      simpa [Bool.and_eq_true, decide_eq_true_eq] using this

theorem inv_start (p : Program) (H : Ann) (h : check p H = true) (e : Nat) (he : e ∈ p.entries) :
    Inv p H (St.start e) := by
  obtain ⟨hent, _⟩ := check_facts p H h
  obtain ⟨h1, h2⟩ := hent e he
  exact ⟨h1, (holds_iff H _).mp h2⟩

theorem inv_step (p : Program) (H : Ann) (h : check p H = true) (s : St) (hi : Inv p H s)
    (l : List St) (hl : step p s = some l) (s' : St) (hs' : s' ∈ l) : Inv p H s' := by
  obtain ⟨_, hloc⟩ := check_facts p H h
  obtain ⟨_, _, _, _, l', hl', hall⟩ := checkAt_facts p H s hi.2 (hloc s.pc hi.1)
  rw [hl] at hl'
  cases hl'
  obtain ⟨h1, h2⟩ := hall s' hs'
  exact ⟨h1, (holds_iff H _).mp h2⟩

theorem inv_run (p : Program) (H : Ann) (h : check p H = true) (cs : List Nat) :
    ∀ s, Inv p H s → ∀ s', AbsVM.run p s cs = some s' → Inv p H s' := by
  induction cs with
  | nil =>
    intro s hi s' hr
    simp only [AbsVM.run] at hr
    cases hr
    exact hi
  | cons c cs ih =>
    intro s hi s' hr
    simp only [AbsVM.run] at hr
    split at hr
    · exact absurd hr (by simp)
    · rename_i l hl
      split at hr
      · exact absurd hr (by simp)
      · rename_i s1 hs1
        have hm : s1 ∈ l := List.mem_of_getElem? hs1
        exact ih s1 (inv_step p H h s hi l hl s1 hm) s' hr

theorem decode_inside (p : Program) (pc : Nat) (i : Instr) (h : decode p pc = some i) : pc + i.len ≤ p.size := by
  unfold decode at h
  split at h
  · split at h
    · exact absurd h (by simp)
    · dsimp only at h
      split at h
      · exact absurd h (by simp)
      · split at h
        · cases h; assumption
        · exact absurd h (by simp)
  · exact absurd h (by simp)

theorem safe_of_inv (p : Program) (H : Ann) (h : check p H = true) (s : St) (hi : Inv p H s) : Safe p s := by
  obtain ⟨_, hloc⟩ := check_facts p H h
  obtain ⟨_, hd, hr, he, l, hl, _⟩ := checkAt_facts p H s hi.2 (hloc s.pc hi.1)
  exact {
    inside := hi.1
    executable := by rw [hl]; rfl
    decodes_inside := fun i hdec => decode_inside p s.pc i hdec
    height := hd
    endsEmpty := he
    refs := hr }

/-- two annotated states never overlap: the second does not start strictly inside the first's instruction -/
theorem no_overlap_of_inv (p : Program) (H : Ann) (h : check p H = true) (s₁ s₂ : St)
    (h₁ : Inv p H s₁) (h₂ : Inv p H s₂) : ¬ insideInstr p s₁.pc s₂.pc := by
  intro ⟨i, hdec, hlo, hhi⟩
  obtain ⟨_, hloc⟩ := check_facts p H h
  obtain ⟨hfree, _⟩ := checkAt_facts p H s₁ h₁.2 (hloc s₁.pc h₁.1)
  unfold interiorFree at hfree
  rw [hdec] at hfree
  have hk : s₂.pc - (s₁.pc + 1) ∈ List.range (i.len - 1) := by
    apply List.mem_range.mpr
    omega
  have := (List.all_eq_true.mp hfree) _ hk
  have hpc : s₁.pc + 1 + (s₂.pc - (s₁.pc + 1)) = s₂.pc := by omega
  rw [hpc, h₂.2] at this
  simp at this

/-- soundness of the checker for any annotation -/
theorem check_sound (p : Program) (H : Ann) (h : check p H = true) (e : Nat) (he : e ∈ p.entries)
    (cs : List Nat) (s : St) (hr : AbsVM.run p (AbsVM.start e) cs = some s) : Safe p s :=
  safe_of_inv p H h s (inv_run p H h cs _ (inv_start p H h e he) s hr)

end Morfuse.Bytecode
