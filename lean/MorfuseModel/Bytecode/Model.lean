import MorfuseModel.Bytecode.VmModel

/-!
# C02: compiled programs, the abstract VM, and the verifier

`Program` is what `harness/bytecode.cpp` reads out of a compiled `ProgramScript`.  `step` is the abstract
VM: the decode loop of `ScriptVM::Process` with values forgotten - state = (code offset, stack height,
height at the pending `OP_MARK_STACK_POS` if any); a conditional instruction has several successors.
`check p H` validates a height annotation `H` (one local condition per annotated offset); `infer` computes
an annotation by a work list (nothing is proved about it, nothing needs to be); `verify p = check p (infer p)`.
-/
namespace Morfuse.Bytecode
open Gen

structure SwitchTable where
  /-- the address of the `StateScript`, as the 8 operand bytes of `OP_SWITCH` spell it (little endian) -/
  token : Nat
  cases : List Nat
  deriving Repr

structure CatchBlock where
  tryStart : Nat
  tryEnd : Nat
  labels : List Nat
  deriving Repr

structure Program where
  /-- the whole allocated code buffer (`m_ProgBuffer[0 .. m_ProgLength)`), one `Nat < 256` per byte -/
  code : Array Nat
  /-- `requiredStackSize`: number of `ScriptVariable` slots of every thread's stack -/
  declared : Nat
  /-- number of strings in the dictionary: valid `const_str` operands are `0 .. dictSize` -/
  dictSize : Nat
  /-- number of events: valid event numbers are `1 .. numEvents` -/
  numEvents : Nat
  /-- number of event names: valid event-name operands are `0` (none) `.. numEventNames` -/
  numEventNames : Nat
  /-- event numbers of the commands that end the thread or move it to a label: `end`, `goto`, `throw`, `delete`, `remove`, `immediateremove` -/
  ctl : List Nat
  labels : List Nat
  switches : List SwitchTable
  catches : List CatchBlock
  deriving Repr

namespace Program

def size (p : Program) : Nat := p.code.size

def byte (p : Program) (i : Nat) : Nat := p.code.getD i 0

/-- little-endian read of `n` bytes -/
def readLE (p : Program) (i : Nat) : Nat → Nat
  | 0 => 0
  | n + 1 => p.byte i + 256 * readLE p (i + 1) n

/-- start of the script, every label of the main table, every case label, every catch label -/
def entries (p : Program) : List Nat :=
  0 :: (p.labels ++ (p.switches.flatMap (·.cases) ++ p.catches.flatMap (·.labels)))

end Program

/-- a decoded instruction: what the VM will do at this offset -/
structure Instr where
  op : Opcode
  /-- bytes the VM consumes on the fall-through path, opcode byte included -/
  len : Nat
  pops : Nat
  pushes : Nat
  deriving DecidableEq, Repr

/-- `OP_FUNC`: `bool` flag, then label (and file name), then the parameter count -/
def funcOperandBytes (flag : Nat) : Nat :=
  if flag = 0 then sizeof_bool + sizeof_name + sizeof_parmNum else sizeof_bool + 2 * sizeof_name + sizeof_parmNum

/-- decode the instruction at `pc`; `none`: outside the buffer, unknown opcode byte, an opcode the VM has
no `case` for, or operands running past the end of the buffer -/
def decode (p : Program) (pc : Nat) : Option Instr :=
  if pc < p.size then
    match Opcode.ofCode (p.byte pc) with
    | none => none
    | some o =>
      let v := vmOp o
      let r : Option Instr :=
        match v.flow with
        | .invalid => none
        | .func =>
          let n := funcOperandBytes (p.byte (pc + 1))
          some ⟨o, 1 + n, v.pops + p.byte (pc + n), v.pushes⟩
        | .constArray => some ⟨o, 1 + v.operandBytes, v.pops + p.readLE (pc + 1) sizeof_arrayParmNum, v.pushes⟩
        | .exec _ _ none => some ⟨o, 1 + v.operandBytes, v.pops + p.byte (pc + 1), v.pushes⟩
        | .exec _ _ (some n) => some ⟨o, 1 + v.operandBytes, v.pops + n, v.pushes⟩
        | _ => some ⟨o, 1 + v.operandBytes, v.pops, v.pushes⟩
      match r with
      | none => none
      | some i => if pc + i.len ≤ p.size then some i else none
  else none

/-- the event-number operand of a command instruction -/
def execEvent (p : Program) (pc : Nat) (i : Instr) : Nat :=
  match (vmOp i.op).flow with
  | .exec _ _ none => p.readLE (pc + 1 + sizeof_parmNum) sizeof_ev
  | _ => p.readLE (pc + 1) sizeof_ev

/-- abstract state of one thread -/
structure St where
  pc : Nat
  h : Nat
  /-- `some h0`: between `OP_MARK_STACK_POS` (executed at height `h0`) and `OP_RESTORE_STACK_POS` -/
  mark : Option Nat
  deriving DecidableEq, Repr

def St.start (e : Nat) : St := ⟨e, 0, none⟩

/-- the switch table an `OP_SWITCH` at `pc` names -/
def switchAt (p : Program) (pc : Nat) : Option SwitchTable :=
  p.switches.find? (fun t => t.token == p.readLE (pc + 1) sizeof_statePtr)

/-- One step of the abstract VM: all states the real VM can be in before its next instruction, or `none`
when the instruction is not executable in this state (undecodable, stack underflow, jump outside the rules
of the bracket, dangling switch table).  A script error raised by the instruction is assumed to leave the
VM where the fall-through path leaves it (that is what `C02_error_effect` is about). -/
def step (p : Program) (s : St) : Option (List St) :=
  match decode p s.pc with
  | none => none
  | some i =>
    if s.mark.isSome && !allowedInMark i.op then none
    else if s.h < i.pops then none
    else
      let h' := s.h - i.pops + i.pushes
      let nxt := s.pc + i.len
      match (vmOp i.op).flow with
      | .next => some [⟨nxt, h', s.mark⟩]
      | .done => some []
      | .jump => some [⟨nxt + p.readLE (s.pc + 1) sizeof_offset, h', s.mark⟩]
      | .jumpBack =>
        let off := p.readLE (s.pc + 1) sizeof_offset
        if off ≤ s.pc + 1 then some [⟨s.pc + 1 - off, h', s.mark⟩] else none
      | .condJump => some [⟨nxt, h', s.mark⟩, ⟨nxt + p.readLE (s.pc + 1) sizeof_offset, h', s.mark⟩]
      | .logical => some [⟨nxt, h', s.mark⟩, ⟨nxt + p.readLE (s.pc + 1) sizeof_offset, s.h, s.mark⟩]
      | .switch =>
        match switchAt p s.pc with
        | none => none
        | some t => some (⟨nxt, h', s.mark⟩ :: t.cases.map (fun c => ⟨c, h', s.mark⟩))
      | .exec _ _ _ =>
        if p.ctl.contains (execEvent p s.pc i) then
          -- `goto` / `throw` continue at a label of some table with the stack as it is; `end` … stop
          some (⟨nxt, h', s.mark⟩ :: p.entries.map (fun e => ⟨e, h', s.mark⟩))
        else some [⟨nxt, h', s.mark⟩]
      | .func => some [⟨nxt, h', s.mark⟩]
      | .constArray => some [⟨nxt, h', s.mark⟩]
      | .mark => if s.mark.isSome then none else some [⟨nxt, s.h, some s.h⟩]
      | .storeParam => if s.mark == some s.h then some [⟨nxt, h', s.mark⟩] else none
      | .restore => if s.mark == some s.h then some [⟨nxt, s.h, none⟩] else none
      | .invalid => none

/-- the height with which the thread can end at this instruction: `OP_DONE` ends it with the current
height, a thread-ending command (`end`, uncaught `throw`, `delete` …) after popping its arguments -/
def endHeight (p : Program) (s : St) : Option Nat :=
  match decode p s.pc with
  | none => none
  | some i =>
    match (vmOp i.op).flow with
    | .done => some s.h
    | .exec _ _ _ => if p.ctl.contains (execEvent p s.pc i) then some (s.h - i.pops + i.pushes) else none
    | _ => none

/-! ## references embedded in the code -/

def operandRefOk (p : Program) (at_ : Nat) : Operand → Bool
  | .name => decide (p.readLE at_ sizeof_name ≤ p.dictSize)
  | .evName => decide (p.readLE at_ sizeof_evName ≤ p.numEventNames)
  | .ev => decide (1 ≤ p.readLE at_ sizeof_ev ∧ p.readLE at_ sizeof_ev ≤ p.numEvents)
  | .state => p.switches.any (fun t => t.token == p.readLE at_ sizeof_statePtr)
  | _ => true

def operandsRefOk (p : Program) : Nat → List Operand → Bool
  | _, [] => true
  | at_, o :: os => operandRefOk p at_ o && operandsRefOk p (at_ + o.size) os

/-- every string / event / event-name / switch-table operand of the instruction at `pc` names an existing object -/
def refsOk (p : Program) (pc : Nat) : Bool :=
  match decode p pc with
  | none => false
  | some i =>
    match (vmOp i.op).flow with
    | .func =>
      if p.byte (pc + 1) = 0 then operandsRefOk p (pc + 1 + sizeof_bool) [.name]
      else operandsRefOk p (pc + 1 + sizeof_bool) [.name, .name]
    | _ => operandsRefOk p (pc + 1) (vmOp i.op).operands

/-! ## instruction boundaries

The code reachable from the entries must decode in exactly one way: no reachable instruction may start
strictly inside another reachable instruction.  (The whole buffer need not decode front to back: behind
the final `OP_DONE` the emitter leaves the tail of instructions its peephole absorbed - `1 || 9223372036854775807`
ends in `OP_BOOL_STORE_TRUE` followed by eight stale literal bytes - and that tail is unreachable.) -/

/-- `pc` lies strictly inside the instruction that starts at `q` -/
def insideInstr (p : Program) (q pc : Nat) : Prop := ∃ i, decode p q = some i ∧ q < pc ∧ pc < q + i.len

/-- diagnostics only: offsets of the instructions met when the buffer is decoded front to back, `none` if
some position does not decode (stale bytes behind the last instruction) -/
def sweepFrom (p : Program) : Nat → Nat → Option (List Nat)
  | 0, pc => if pc = p.size then some [] else none
  | fuel + 1, pc =>
    if pc = p.size then some []
    else match decode p pc with
      | none => none
      | some i => (sweepFrom p fuel (pc + i.len)).map (pc :: ·)

def boundaries (p : Program) : Option (List Nat) := sweepFrom p p.size 0

/-! ## the checker -/

abbrev Ann := Array (Option (Nat × Option Nat))

def Ann.at (H : Ann) (pc : Nat) : Option (Nat × Option Nat) := (H[pc]?).join

def Ann.holds (H : Ann) (s : St) : Bool := H.at s.pc == some (s.h, s.mark)

/-- no annotated offset strictly inside the instruction at `pc` -/
def interiorFree (p : Program) (H : Ann) (pc : Nat) : Bool :=
  match decode p pc with
  | none => false
  | some i => (List.range (i.len - 1)).all (fun k => (H.at (pc + 1 + k)).isNone)

/-- the local condition at one annotated offset -/
def checkAt (p : Program) (H : Ann) (pc : Nat) : Bool :=
  match H.at pc with
  | none => true
  | some (h, m) =>
    let s : St := ⟨pc, h, m⟩
    interiorFree p H pc
      && decide (h + 1 ≤ p.declared)
      && refsOk p pc
      && (match endHeight p s with | none => true | some k => k == 0)
      && (match step p s with
          | none => false
          | some l => l.all (fun s' => decide (s'.pc < p.size) && H.holds s'))

def catchOk (p : Program) (c : CatchBlock) : Bool :=
  decide (c.tryStart ≤ c.tryEnd) && decide (c.tryEnd ≤ p.size)

/-- the stack the emitter declares: `internal max + 9 * external max + 1` (`ProgramScript::Load`), recomputed
from the annotation: heights after internal instructions, heights before external ones -/
def marginOk (p : Program) (H : Ann) : Bool :=
  let f := fun (acc : Nat × Nat) (pc : Nat) =>
    match H.at pc, decode p pc with
    | some (h, _), some i =>
      if i.op.tableExternal then (acc.1, max acc.2 h) else (max acc.1 (max h (h - i.pops + i.pushes)), acc.2)
    | _, _ => acc
  let r := (List.range p.size).foldl f (0, 0)
  decide (r.1 + 9 * r.2 + 1 ≤ p.declared)

def check (p : Program) (H : Ann) : Bool :=
  decide (H.size = p.size)
    && p.entries.all (fun e => decide (e < p.size) && H.holds (St.start e))
    && (List.range p.size).all (checkAt p H)
    && p.catches.all (catchOk p)
    && marginOk p H

/-- work-list inference of the annotation: first height seen wins (a second, different height at the same
offset is left for `check` to refuse) -/
def inferGo (p : Program) : Nat → List St → Ann → Ann
  | 0, _, H => H
  | _, [], H => H
  | fuel + 1, s :: rest, H =>
    if s.pc < p.size then
      match H.at s.pc with
      | some _ => inferGo p fuel rest H
      | none =>
        let H' := H.setIfInBounds s.pc (some (s.h, s.mark))
        match step p s with
        | none => inferGo p fuel rest H'
        | some l => inferGo p fuel (l ++ rest) H'
    else inferGo p fuel rest H

def infer (p : Program) : Ann :=
  let es := p.entries
  inferGo p ((p.size + 1) * (es.length + 3) + es.length) (es.map St.start) (Array.replicate p.size none)

def verify (p : Program) : Bool := check p (infer p)

/-! ## the abstract VM as a machine driven by a list of choices (which successor is taken) -/

namespace AbsVM

def start (e : Nat) : St := St.start e

/-- run from `s`, at every step taking the successor the next choice selects -/
def run (p : Program) (s : St) : List Nat → Option St
  | [] => some s
  | c :: cs =>
    match step p s with
    | none => none
    | some l => match l[c]? with
      | none => none
      | some s' => run p s' cs

end AbsVM

/-- what `C02_verifier_sound` promises about every reachable state -/
structure Safe (p : Program) (s : St) : Prop where
  inside : s.pc < p.size
  executable : (step p s).isSome = true
  decodes_inside : ∀ i, decode p s.pc = some i → s.pc + i.len ≤ p.size
  height : s.h + 1 ≤ p.declared
  endsEmpty : ∀ k, endHeight p s = some k → k = 0
  refs : refsOk p s.pc = true

end Morfuse.Bytecode
