import MorfuseModel.Bytecode.VmModel
import MorfuseModel.Gen.VmCases

/-!
# Hand model of the error paths of `ScriptVM::Process`

A script error (`ScriptException`) thrown inside a `case` block leaves `Process`; `ScriptVM::Execute`
reports it (`HandleScriptException`) and calls `Process` again: the thread goes on *at whatever position
`m_CodePos` had and with whatever height `pTop` had when the exception left the block*.  The verifier
assumes that this is the state the fall-through path produces (`Bytecode.step`).  `vmErrPaths o` lists, for
every way an exception can leave the block of opcode `o` (and the `catch (...)` repairs of
`OP_LOAD_FIELD_VAR`, `OP_STORE_FIELD`, `OP_STORE_FIELD_REF`, `OP_STORE_ARRAY`, `ExecFunction`,
`executeCommandInternal<true>`), the net height change and the operand bytes consumed at that moment.

Transcribed from the source after the repairs a52b745 (loadTop), e5a4ad9 (OP_STORE_OWNER), 8a45e3b
(OP_LOAD_STORE_SELF_VAR), 4d71043 + 8694c74 (OP_STORE_FIELD_REF), 94b2e98 (OP_STORE_FIELD); `Gen.caseVariant` /
`Gen.helperVariant_*` (regenerated fingerprints) say whether each block still has the transcribed text.
-/
namespace Morfuse.Bytecode
open Gen

structure ErrPath where
  /-- pushes − pops of the fixed part at the moment the exception leaves the block -/
  net : Int
  /-- the count-dependent parameters (`Pop(param)`) have been popped as well -/
  count : Bool
  /-- operand bytes stepped over (`none`: every operand of the instruction, whatever their number) -/
  consumed : Option Nat
  deriving DecidableEq, Repr

private def fieldBytes : Nat := sizeof_name + sizeof_evName

/-- `loadTop<false>`: operands read, then `executeSetter` may throw ("Cannot set a read-only variable", or
the setter's handler raises); the `catch (...)` pops the value like the normal path does, then rethrows -/
def loadTopErr : ErrPath := ⟨-1, false, some fieldBytes⟩

/-- `storeTop<false>`: operands read, `Push`, then `executeGetter` may throw -/
def storeTopErr : ErrPath := ⟨1, false, some fieldBytes⟩
/-- `loadStoreTop`: operands read, then `executeSetter` may throw; the value stays -/
def loadStoreTopErr : ErrPath := ⟨0, false, some fieldBytes⟩

def vmErrPaths : Opcode → List ErrPath
  -- Pop a; GetTop b; `b op= a` throws on a type / zero error
  | .OP_BIN_BITWISE_AND | .OP_BIN_BITWISE_OR | .OP_BIN_BITWISE_EXCL_OR | .OP_BIN_EQUALITY | .OP_BIN_INEQUALITY
  | .OP_BIN_LESS_THAN | .OP_BIN_GREATER_THAN | .OP_BIN_LESS_THAN_OR_EQUAL | .OP_BIN_GREATER_THAN_OR_EQUAL
  | .OP_BIN_PLUS | .OP_BIN_MINUS | .OP_BIN_MULTIPLY | .OP_BIN_DIVIDE | .OP_BIN_PERCENTAGE
  | .OP_BIN_SHIFT_LEFT | .OP_BIN_SHIFT_RIGHT => [⟨-1, false, some 0⟩]
  | .OP_CALC_VECTOR => [⟨-2, false, some 0⟩]
  -- ExecCmdCommon: event read, Pop(n), then the command throws
  | .OP_EXEC_CMD0 | .OP_EXEC_CMD1 | .OP_EXEC_CMD2 | .OP_EXEC_CMD3 | .OP_EXEC_CMD4 | .OP_EXEC_CMD5
  | .OP_EXEC_CMD_COUNT1 => [⟨0, true, none⟩]
  -- ExecCmdMethodCommon: Pop, event read, Pop(n), then NIL / NULL receiver or the command throws
  | .OP_EXEC_CMD_METHOD0 | .OP_EXEC_CMD_METHOD1 | .OP_EXEC_CMD_METHOD2 | .OP_EXEC_CMD_METHOD3 | .OP_EXEC_CMD_METHOD4
  | .OP_EXEC_CMD_METHOD5 | .OP_EXEC_CMD_METHOD_COUNT1 => [⟨-1, true, none⟩]
  -- ExecMethodCommon: Pop, event read, Pop(n), Push; NULL receiver (top cleared) or executeCommandInternal<true>'s catch (top cleared)
  | .OP_EXEC_METHOD0 | .OP_EXEC_METHOD1 | .OP_EXEC_METHOD2 | .OP_EXEC_METHOD3 | .OP_EXEC_METHOD4
  | .OP_EXEC_METHOD5 | .OP_EXEC_METHOD_COUNT1 => [⟨0, true, none⟩]
  -- ExecFunction: every operand read first; cast / NULL listener: catch does Pop(params) (the listener's slot
  -- stays and plays the result); later (`ProcessEventReturn`): Pop, Pop(params), Push
  | .OP_FUNC => [⟨0, true, none⟩, ⟨0, true, none⟩]
  | .OP_LOAD_ARRAY_VAR => [⟨-3, false, some 0⟩]
  -- Pop a; try { group of listeners (const array, size > 1): skipField, loadStoreTop per member, Pop |
  --              cast / NULL: peeks | loadTop } catch { if nothing of that was reached: Pop, skipField }
  | .OP_LOAD_FIELD_VAR =>
    [ ⟨-2, false, some fieldBytes⟩,                       -- cast error or NULL listener: Pop (a), Pop, skipField
      ⟨-1 + loadTopErr.net, false, some fieldBytes⟩,      -- loadTop reached and throws: Pop (a) + loadTop's own repair
      ⟨-2, false, some fieldBytes⟩,                       -- group (6c30d63): a member's setter raises: Pop (a), inner catch pops the value
      -- group: an element of the array is no listener (`listenerAt` throws, e.g. NIL::"b"::1): text variant 1
      -- throws outside the inner try and keeps the value; variant 2 (notes/C02-suggested-fix-6.diff) pops it
      ⟨if caseVariant .OP_LOAD_FIELD_VAR = 2 then -2 else -1, false, some fieldBytes⟩ ]
  | .OP_LOAD_GAME_VAR | .OP_LOAD_LEVEL_VAR | .OP_LOAD_LOCAL_VAR | .OP_LOAD_PARM_VAR | .OP_LOAD_GROUP_VAR => [loadTopErr]
  -- self NULL: Pop, skipField, throw
  | .OP_LOAD_SELF_VAR => [⟨-1, false, some fieldBytes⟩, loadTopErr]
  | .OP_LOAD_OWNER_VAR => [⟨-1, false, some fieldBytes⟩, ⟨-1, false, some fieldBytes⟩, loadTopErr]
  | .OP_LOAD_STORE_GAME_VAR | .OP_LOAD_STORE_LEVEL_VAR | .OP_LOAD_STORE_LOCAL_VAR | .OP_LOAD_STORE_PARM_VAR
  | .OP_LOAD_STORE_GROUP_VAR => [loadStoreTopErr]
  -- self NULL: skipField, throw
  | .OP_LOAD_STORE_SELF_VAR => [⟨0, false, some fieldBytes⟩, loadStoreTopErr]
  | .OP_LOAD_STORE_OWNER_VAR => [⟨0, false, some fieldBytes⟩, ⟨0, false, some fieldBytes⟩, loadStoreTopErr]
  -- try { Pop; evalArrayAt } catch { top.Clear() }
  | .OP_STORE_ARRAY => [⟨-1, false, some 0⟩]
  | .OP_STORE_ARRAY_REF => [⟨-1, false, some 0⟩]
  -- try { cast; NULL: peek + skipField; storeTop<true> } catch { skipField unless the operands were read; top := ref to itself }
  | .OP_STORE_FIELD_REF =>
    [ ⟨0, false, some fieldBytes⟩,      -- the cast throws (NIL, integer …): the catch steps over the operands
      ⟨0, false, some fieldBytes⟩,      -- NULL listener: peek + skipField
      ⟨0, false, some fieldBytes⟩,      -- storeTop<true> throws after reading them
      ⟨0, false, some fieldBytes⟩ ]     -- the field is provided by a getter (8694c74): "Cannot assign to an element of a read-only field"
  -- try { cast; NULL: peek; storeTop<true> } catch { skipField unless storeTop read them; top.Clear() }
  | .OP_STORE_FIELD =>
    [ ⟨0, false, some fieldBytes⟩, ⟨0, false, some fieldBytes⟩, ⟨0, false, some fieldBytes⟩ ]
  | .OP_STORE_GAME_VAR | .OP_STORE_LEVEL_VAR | .OP_STORE_LOCAL_VAR | .OP_STORE_PARM_VAR | .OP_STORE_GROUP_VAR => [storeTopErr]
  -- self NULL: Push, skipField, throw
  | .OP_STORE_SELF_VAR => [⟨1, false, some fieldBytes⟩, storeTopErr]
  | .OP_STORE_OWNER_VAR => [⟨1, false, some fieldBytes⟩, ⟨1, false, some fieldBytes⟩, storeTopErr]
  -- Push; self NULL: throw
  | .OP_STORE_OWNER => [⟨1, false, some 0⟩]
  | .OP_UN_MINUS | .OP_UN_COMPLEMENT | .OP_UN_TARGETNAME | .OP_UN_CAST_BOOLEAN | .OP_UN_INC | .OP_UN_DEC
  | .OP_UN_SIZE => [⟨0, false, some 0⟩]
  | _ => []

/-- the fixed part of the fall-through effect and whether a count-dependent part is popped -/
def fixedNet (o : Opcode) : Int := ((vmOp o).pushes : Int) - ((vmOp o).pops : Int)

def popsCount (o : Opcode) : Bool :=
  match (vmOp o).flow with
  | .exec _ _ _ | .func => true
  | _ => false

/-- the error path leaves the VM where the fall-through path would -/
def errPathOk (o : Opcode) (e : ErrPath) : Bool :=
  e.net == fixedNet o && e.count == popsCount o &&
    (match e.consumed with | none => true | some n => n == (vmOp o).operandBytes)

def errOk (o : Opcode) : Bool := (vmErrPaths o).all (errPathOk o)

/-- every error path of the decode loop, as the source reads now, restores what the verifier assumes -/
def errorPathsRepaired : Bool := Opcode.all.all errOk

/-- opcodes with an error path that, in one of the known texts of the source, does *not* restore what the
verifier assumes (notes/C02-findings.md F6: the group branch of `OP_LOAD_FIELD_VAR`) -/
def errorPathSuspects : List Opcode := [.OP_LOAD_FIELD_VAR]

/-- every `case` block and helper has a text this model knows -/
def transcriptionCurrent : Bool :=
  Opcode.all.all (fun o => caseVariant o != 0) && caseVariant_default != 0 && helperVariants.all (fun kv => kv.2 != 0)

end Morfuse.Bytecode
