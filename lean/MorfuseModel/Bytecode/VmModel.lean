import MorfuseModel.Gen.OpcodeTable

/-!
# Hand model of the decode loop `ScriptVM::Process` (src/Script/ScriptVMOperation.cpp)

For every opcode: which operand bytes the VM really consumes after the opcode byte (`ReadOpcodeValue<T>` /
`skipField` / `m_CodePos += …`; `ReadGetOpcodeValue<T>` only peeks), how many operand-stack slots it pops
and pushes (`m_Stack.Pop/Push/PopAndGet/PushAndGet`, `GetTop()` = pop+push of the same slot), and how
control continues.  Transcribed case by case; the helper functions `doJumpIf`, `doJumpVarIf`, `jumpVar`,
`loadTop`, `storeTop`, `loadStoreTop`, `ExecCmdCommon`, `ExecCmdMethodCommon`, `ExecMethodCommon`,
`ExecFunction`, `Switch`, `skipField` are inlined.

The model is tied to the source three ways: (1) `table_matches_vm` compares it with the regenerated
`OpcodeInfo[]` table (`Gen/OpcodeTable.lean`); (2) the text of every `case` block and helper is
fingerprinted on every run (`Gen/VmCases.lean`, tools/props/c02.py) - an unknown fingerprint means this file
must be re-read against the source; (3) every transition of the real VM observed through hook H4 is
compared with `Bytecode.step` built from this model.
-/
namespace Morfuse.Bytecode
open Gen

/-- kinds of operands embedded after the opcode byte -/
inductive Operand where
  | name      -- `op_name_t`: index into the string dictionary
  | evName    -- `op_evName_t`: index into the event-name table (0 = none)
  | ev        -- `op_ev_t`: event number
  | off       -- `op_offset_t`: jump distance
  | cnt1      -- `op_parmNum_t`
  | cnt2      -- `op_arrayParmNum_t`
  | state     -- `StateScript*`
  | raw (n : Nat)   -- literal bytes
  deriving DecidableEq, Repr

def Operand.size : Operand → Nat
  | .name => sizeof_name
  | .evName => sizeof_evName
  | .ev => sizeof_ev
  | .off => sizeof_offset
  | .cnt1 => sizeof_parmNum
  | .cnt2 => sizeof_arrayParmNum
  | .state => sizeof_statePtr
  | .raw n => n

/-- how the loop continues after the instruction -/
inductive Flow where
  | next                 -- falls through
  | done                 -- `OP_DONE`: `End()`, the thread is destroyed
  | jump                 -- reads the offset, `m_CodePos += offset`
  | jumpBack             -- *peeks* the offset (`ReadGetOpcodeValue`), `m_CodePos -= offset`
  | condJump             -- pops the condition, reads the offset, jumps or not
  | logical              -- looks at the top, reads the offset; jumps keeping the top, or pops and goes on
  | switch               -- pops the value, peeks the `StateScript*`; jumps to a case label of that table, or `m_CodePos += 8`
  | exec (recv ret : Bool) (n : Option Nat)  -- command with `n` parameters (`none`: the count operand); receiver on top; pushes a result
  | func                 -- `OP_FUNC`
  | constArray           -- `OP_LOAD_CONST_ARRAY1`: `PopAndGet(n - 1)`
  | mark | storeParam | restore
  | invalid              -- no `case`: the `default:` branch writes through the (possibly null) debug stream
  deriving DecidableEq, Repr

structure VmOp where
  /-- operand bytes that belong to the instruction, in order: consumed on the fall-through path (peeked by
  `OP_JUMP_BACK4`, which never falls through); `[]` and flow `func` for the variable-length `OP_FUNC` -/
  operands : List Operand
  /-- fixed number of slots popped (for `exec … none`, `func`, `constArray` the operand-dependent part is added by `step`) -/
  pops : Nat
  pushes : Nat
  flow : Flow
  deriving Repr

def VmOp.operandBytes (v : VmOp) : Nat := (v.operands.map Operand.size).sum

private def plain (operands : List Operand) (pops pushes : Nat) : VmOp := ⟨operands, pops, pushes, .next⟩
private def fieldOps : List Operand := [.name, .evName]

/-- the decode loop, case by case -/
def vmOp : Opcode → VmOp
  | .OP_DONE => ⟨[], 0, 0, .done⟩
  -- doJumpIf(m_Stack.Pop()…): pop, read offset, jumpBool
  | .OP_BOOL_JUMP_FALSE4 | .OP_BOOL_JUMP_TRUE4 | .OP_VAR_JUMP_FALSE4 | .OP_VAR_JUMP_TRUE4 => ⟨[.off], 1, 0, .condJump⟩
  -- doJumpVarIf(m_Stack.GetTop()…): read offset; jumpVar: jump, or Pop
  | .OP_BOOL_LOGICAL_AND | .OP_BOOL_LOGICAL_OR | .OP_VAR_LOGICAL_AND | .OP_VAR_LOGICAL_OR => ⟨[.off], 1, 0, .logical⟩
  | .OP_BOOL_TO_VAR => ⟨[], 0, 0, .invalid⟩
  | .OP_JUMP4 => ⟨[.off], 0, 0, .jump⟩
  -- ReadGetOpcodeValue *peeks* the offset (m_CodePos stays at pc + 1), then m_CodePos -= offset; the four
  -- bytes belong to the instruction (the next one starts behind them) but are never stepped over
  | .OP_JUMP_BACK4 => ⟨[.off], 0, 0, .jumpBack⟩
  | .OP_STORE_INT0 => plain [] 0 1
  | .OP_STORE_INT1 => plain [.raw 1] 0 1
  | .OP_STORE_INT2 => plain [.raw 2] 0 1
  | .OP_STORE_INT3 => plain [.raw sizeof_short3] 0 1
  | .OP_STORE_INT4 => plain [.raw 4] 0 1
  | .OP_STORE_INT8 => plain [.raw 8] 0 1
  | .OP_BOOL_STORE_FALSE | .OP_BOOL_STORE_TRUE => plain [] 0 1
  | .OP_STORE_STRING => plain [.name] 0 1
  | .OP_STORE_FLOAT => plain [.raw sizeof_float] 0 1
  | .OP_STORE_VECTOR => plain [.raw sizeof_vector] 0 1
  | .OP_CALC_VECTOR => plain [] 3 1
  | .OP_STORE_NULL | .OP_STORE_NIL => plain [] 0 1
  -- ExecCmdCommon(n): read event, Pop(n), executeCommand on the thread
  | .OP_EXEC_CMD0 => ⟨[.ev], 0, 0, .exec false false (some 0)⟩
  | .OP_EXEC_CMD1 => ⟨[.ev], 0, 0, .exec false false (some 1)⟩
  | .OP_EXEC_CMD2 => ⟨[.ev], 0, 0, .exec false false (some 2)⟩
  | .OP_EXEC_CMD3 => ⟨[.ev], 0, 0, .exec false false (some 3)⟩
  | .OP_EXEC_CMD4 => ⟨[.ev], 0, 0, .exec false false (some 4)⟩
  | .OP_EXEC_CMD5 => ⟨[.ev], 0, 0, .exec false false (some 5)⟩
  | .OP_EXEC_CMD_COUNT1 => ⟨[.cnt1, .ev], 0, 0, .exec false false none⟩
  -- ExecCmdMethodCommon(n): Pop (receiver), read event, Pop(n)
  | .OP_EXEC_CMD_METHOD0 => ⟨[.ev], 1, 0, .exec true false (some 0)⟩
  | .OP_EXEC_CMD_METHOD1 => ⟨[.ev], 1, 0, .exec true false (some 1)⟩
  | .OP_EXEC_CMD_METHOD2 => ⟨[.ev], 1, 0, .exec true false (some 2)⟩
  | .OP_EXEC_CMD_METHOD3 => ⟨[.ev], 1, 0, .exec true false (some 3)⟩
  | .OP_EXEC_CMD_METHOD4 => ⟨[.ev], 1, 0, .exec true false (some 4)⟩
  | .OP_EXEC_CMD_METHOD5 => ⟨[.ev], 1, 0, .exec true false (some 5)⟩
  | .OP_EXEC_CMD_METHOD_COUNT1 => ⟨[.cnt1, .ev], 1, 0, .exec true false none⟩
  -- ExecMethodCommon(n): Pop (receiver), read event, Pop(n), Push (result)
  | .OP_EXEC_METHOD0 => ⟨[.ev], 1, 1, .exec true true (some 0)⟩
  | .OP_EXEC_METHOD1 => ⟨[.ev], 1, 1, .exec true true (some 1)⟩
  | .OP_EXEC_METHOD2 => ⟨[.ev], 1, 1, .exec true true (some 2)⟩
  | .OP_EXEC_METHOD3 => ⟨[.ev], 1, 1, .exec true true (some 3)⟩
  | .OP_EXEC_METHOD4 => ⟨[.ev], 1, 1, .exec true true (some 4)⟩
  | .OP_EXEC_METHOD5 => ⟨[.ev], 1, 1, .exec true true (some 5)⟩
  | .OP_EXEC_METHOD_COUNT1 => ⟨[.cnt1, .ev], 1, 1, .exec true true none⟩
  -- loadTop<false>: read name, event name; set; Pop
  | .OP_LOAD_GAME_VAR | .OP_LOAD_LEVEL_VAR | .OP_LOAD_LOCAL_VAR | .OP_LOAD_PARM_VAR
  | .OP_LOAD_SELF_VAR | .OP_LOAD_GROUP_VAR | .OP_LOAD_OWNER_VAR => plain fieldOps 1 0
  -- Pop (listener); loadTop<false>
  | .OP_LOAD_FIELD_VAR => plain fieldOps 2 0
  | .OP_LOAD_ARRAY_VAR => plain [] 3 0
  | .OP_LOAD_CONST_ARRAY1 => ⟨[.cnt2], 0, 1, .constArray⟩
  -- GetTop (listener); storeTop<true>: read name, event name; top := field / ref
  | .OP_STORE_FIELD_REF => plain fieldOps 1 1
  | .OP_STORE_ARRAY_REF => plain [] 2 1
  | .OP_MARK_STACK_POS => ⟨[], 0, 0, .mark⟩
  | .OP_STORE_PARAM => ⟨[], 0, 1, .storeParam⟩
  | .OP_RESTORE_STACK_POS => ⟨[], 0, 0, .restore⟩
  -- loadStoreTop: read name, event name; copy the top into the variable
  | .OP_LOAD_STORE_GAME_VAR | .OP_LOAD_STORE_LEVEL_VAR | .OP_LOAD_STORE_LOCAL_VAR | .OP_LOAD_STORE_PARM_VAR
  | .OP_LOAD_STORE_SELF_VAR | .OP_LOAD_STORE_GROUP_VAR | .OP_LOAD_STORE_OWNER_VAR => plain fieldOps 1 1
  -- storeTop<false>: read name, event name; Push; top := variable
  | .OP_STORE_GAME_VAR | .OP_STORE_LEVEL_VAR | .OP_STORE_LOCAL_VAR | .OP_STORE_PARM_VAR
  | .OP_STORE_SELF_VAR | .OP_STORE_GROUP_VAR | .OP_STORE_OWNER_VAR => plain fieldOps 0 1
  | .OP_STORE_FIELD => plain fieldOps 1 1
  | .OP_STORE_ARRAY => plain [] 2 1
  | .OP_STORE_GAME | .OP_STORE_LEVEL | .OP_STORE_LOCAL | .OP_STORE_PARM
  | .OP_STORE_SELF | .OP_STORE_GROUP | .OP_STORE_OWNER => plain [] 0 1
  | .OP_BIN_BITWISE_AND | .OP_BIN_BITWISE_OR | .OP_BIN_BITWISE_EXCL_OR | .OP_BIN_EQUALITY | .OP_BIN_INEQUALITY
  | .OP_BIN_LESS_THAN | .OP_BIN_GREATER_THAN | .OP_BIN_LESS_THAN_OR_EQUAL | .OP_BIN_GREATER_THAN_OR_EQUAL
  | .OP_BIN_PLUS | .OP_BIN_MINUS | .OP_BIN_MULTIPLY | .OP_BIN_DIVIDE | .OP_BIN_PERCENTAGE
  | .OP_BIN_SHIFT_LEFT | .OP_BIN_SHIFT_RIGHT => plain [] 2 1
  | .OP_UN_MINUS | .OP_UN_COMPLEMENT | .OP_UN_TARGETNAME | .OP_BOOL_UN_NOT | .OP_VAR_UN_NOT
  | .OP_UN_CAST_BOOLEAN | .OP_UN_INC | .OP_UN_DEC | .OP_UN_SIZE => plain [] 1 1
  -- Switch(ReadGetOpcodeValue<StateScript*>(), Pop()): jumps to a label of the table, else m_CodePos += 8
  | .OP_SWITCH => ⟨[.state], 1, 0, .switch⟩
  | .OP_FUNC => ⟨[], 1, 1, .func⟩
  | .OP_NOP => plain [] 0 0
  | .OP_END | .OP_RETURN => ⟨[], 0, 0, .invalid⟩

/-- operand bytes the VM consumes on the normal path; `none`: depends on the operands (`OP_FUNC`) or the
opcode has no `case` at all -/
def vmOperandBytes (o : Opcode) : Option Nat :=
  match (vmOp o).flow with
  | .func | .invalid => none
  | _ => some (vmOp o).operandBytes

/-- net change of the stack height on the fall-through path; `none`: depends on a count operand, or no `case` -/
def vmStackEffect (o : Opcode) : Option Int :=
  match (vmOp o).flow with
  | .func | .invalid | .constArray | .exec _ _ none => none
  | .exec _ _ (some n) => some (((vmOp o).pushes : Int) - (((vmOp o).pops + n : Nat) : Int))
  | _ => some (((vmOp o).pushes : Int) - ((vmOp o).pops : Int))

/-- opcodes that may appear between `OP_MARK_STACK_POS` and `OP_RESTORE_STACK_POS` (parameter binding:
`EmitLabelParameterList` emits `STORE_PARAM; LOAD_<scope>_VAR name` pairs and nothing else) -/
def allowedInMark : Opcode → Bool
  | .OP_STORE_PARAM | .OP_RESTORE_STACK_POS
  | .OP_LOAD_GAME_VAR | .OP_LOAD_LEVEL_VAR | .OP_LOAD_LOCAL_VAR | .OP_LOAD_PARM_VAR
  | .OP_LOAD_SELF_VAR | .OP_LOAD_GROUP_VAR | .OP_LOAD_OWNER_VAR => true
  | _ => false

/-! ## The table against the VM

`agrees o` is what must hold for the emitter (which believes the table) and the VM (which does what `vmOp`
says) to decode the same instruction stream and count the same heights.  The exceptions are listed one by
one with the reason each is harmless *as long as the stated side condition holds*; anything else that
differs breaks `table_matches_vm`. -/

/-- the table length the VM's behaviour corresponds to, when fixed -/
def vmLength (o : Opcode) : Option Nat := (vmOperandBytes o).map (· + sizeof_opval)

inductive TableException where
  /-- `OP_DONE`: the table says length 0, the VM consumes the opcode byte.  Harmless: the only reader of the
  length, `AbsorbPrevOpcode`, is never reached with `OP_DONE` as previous opcode (`EmitEof` only compares). -/
  | doneLengthZero
  /-- `OP_STORE_FIELD_REF`: the table says 1 + 4, emitter (`EmitRef`) and VM (`storeTop<true>`) both use
  1 + 4 + 4.  Harmless only while the opcode is never absorbed (no peephole tests for it). -/
  | storeFieldRefShort
  /-- `OP_FUNC`: 7 or 11 bytes depending on the first operand byte; the table says 11 and -128. -/
  | funcVariable
  /-- count-carrying opcodes: table stack effect -128 is a marker, the emitter passes the real effect to
  `EmitOpcodeWithStack`. -/
  | countMarker
  /-- opcodes the VM has no `case` for (`OP_BOOL_TO_VAR`, `OP_END`, `OP_RETURN`): never written to the code
  buffer (`OP_BOOL_TO_VAR` is only an entry of the peephole window); the verifier rejects them. -/
  | neverEmitted
  deriving DecidableEq, Repr

def tableException : Opcode → Option TableException
  | .OP_DONE => some .doneLengthZero
  | .OP_STORE_FIELD_REF => some .storeFieldRefShort
  | .OP_FUNC => some .funcVariable
  | .OP_EXEC_CMD_COUNT1 | .OP_EXEC_CMD_METHOD_COUNT1 | .OP_EXEC_METHOD_COUNT1 | .OP_LOAD_CONST_ARRAY1 => some .countMarker
  | .OP_BOOL_TO_VAR | .OP_END | .OP_RETURN => some .neverEmitted
  | _ => none

/-- what is demanded of each opcode, exception by exception -/
def agrees (o : Opcode) : Bool :=
  match tableException o with
  | none => vmLength o == some o.tableLength && vmStackEffect o == some o.tableStack
  | some .doneLengthZero => o.tableLength == 0 && vmLength o == some 1 && vmStackEffect o == some o.tableStack
  | some .storeFieldRefShort =>
      o.tableLength == 1 + sizeof_name && vmLength o == some (1 + sizeof_name + sizeof_evName)
        && vmStackEffect o == some o.tableStack
  | some .funcVariable => o.tableLength == 1 + sizeof_bool + 2 * sizeof_name + sizeof_parmNum && o.tableStack == -128
  | some .countMarker => vmLength o == some o.tableLength && o.tableStack == -128 && vmStackEffect o == none
  | some .neverEmitted => vmLength o == none

end Morfuse.Bytecode
