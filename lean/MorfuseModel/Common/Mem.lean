import Std.Data.HashMap
/-!
# `Mem` — a total store `Nat → Nat` that is both executable and easy to reason about

A C++ field that holds a pointer / index becomes one `Mem` keyed by the owner's id
(`0` plays the role of `nullptr`; real ids start at 1).  Proofs use only `get_set`
and `get_empty`; execution is a hash map, so long histories stay cheap in the driver.
-/
namespace Morfuse

structure Mem where
  m : Std.HashMap Nat Nat

namespace Mem

def empty : Mem := ⟨∅⟩
def get (s : Mem) (a : Nat) : Nat := s.m.getD a 0
def set (s : Mem) (a v : Nat) : Mem := ⟨s.m.insert a v⟩

@[simp] theorem get_empty (a : Nat) : empty.get a = 0 := by
  simp [empty, get]

theorem get_set (s : Mem) (a v x : Nat) : (s.set a v).get x = if x = a then v else s.get x := by
  simp only [get, set, Std.HashMap.getD_insert]
  by_cases h : x = a
  · subst h; simp
  · have : (a == x) = false := by simp; exact fun e => h e.symm
    simp [this, h]

@[simp] theorem get_set_same (s : Mem) (a v : Nat) : (s.set a v).get a = v := by
  simp [get_set]

theorem get_set_ne (s : Mem) (a v x : Nat) (h : x ≠ a) : (s.set a v).get x = s.get x := by
  simp [get_set, h]

end Mem
end Morfuse
