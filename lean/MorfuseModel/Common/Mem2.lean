import Std.Data.HashMap
import MorfuseModel.Common.Ring
/-!
# `Mem2` — a total two-key store `Nat → Nat → Nat`

A C++ member array of a pooled object (`block->next_data[i]`) becomes one `Mem2` keyed by the
owner's id and the index.  Proofs use only `get_set` / `get_empty` and the row view `row m b`
(the array of owner `b` as a function `Nat → Nat`, which is what the `Ring` lemmas speak about);
execution is a hash map.
-/
namespace Morfuse

structure Mem2 where
  m : Std.HashMap (Nat × Nat) Nat

namespace Mem2

def empty : Mem2 := ⟨∅⟩
def get (s : Mem2) (b i : Nat) : Nat := s.m.getD (b, i) 0
def set (s : Mem2) (b i v : Nat) : Mem2 := ⟨s.m.insert (b, i) v⟩

@[simp] theorem get_empty (b i : Nat) : empty.get b i = 0 := by
  simp [empty, get]

theorem get_set (s : Mem2) (b i v b' i' : Nat) :
    (s.set b i v).get b' i' = if b' = b ∧ i' = i then v else s.get b' i' := by
  simp only [get, set, Std.HashMap.getD_insert]
  by_cases h : b' = b ∧ i' = i
  · obtain ⟨rfl, rfl⟩ := h; simp
  · have : ((b, i) == (b', i')) = false := by
      simp only [beq_eq_false_iff_ne, ne_eq, Prod.mk.injEq, not_and]
      intro e1 e2; exact h ⟨e1.symm, e2.symm⟩
    simp [this, h]

/-- the array of owner `b` -/
def row (s : Mem2) (b : Nat) : Nat → Nat := fun i => s.get b i

theorem row_set_same (s : Mem2) (b i v : Nat) : (s.set b i v).row b = Ring.upd (s.row b) i v := by
  funext x; simp [row, get_set, Ring.upd]

theorem row_set_ne (s : Mem2) (b i v b' : Nat) (h : b' ≠ b) : (s.set b i v).row b' = s.row b' := by
  funext x; simp [row, get_set, h]

theorem get_eq_row (s : Mem2) (b i : Nat) : s.get b i = s.row b i := rfl

end Mem2
end Morfuse
