import MorfuseModel.Common.Mem
/-!
# Cyclic doubly linked lists through `prev/next` links

Representation chosen at design time (DESIGN.md 7.1): no modular indices.  Links are two
functions `nx pv : Nat → Nat`; `Path a l b` says that `a → l₀ → … → lₖ → b` is linked both ways.
A ring with head `a` and remaining nodes `t` is `(a :: t).Nodup ∧ Path a t a`; a one-element ring
is `nx a = a ∧ pv a = a`, which is what the C++ writes.
-/
namespace Morfuse.Ring

def upd (f : Nat → Nat) (a b : Nat) : Nat → Nat := fun x => if x = a then b else f x
@[simp] theorem upd_same (f a b) : upd f a b a = b := by simp [upd]
theorem upd_ne (f a b x) (h : x ≠ a) : upd f a b x = f x := by simp [upd, h]

theorem _root_.Morfuse.Mem.get_set_fun (s : Mem) (a v : Nat) : (s.set a v).get = upd s.get a v := by
  funext x; simp [Mem.get_set, upd]

/-- `Path nx pv a l b`: from `a`, through the nodes of `l`, to `b`, linked both ways. -/
def Path (nx pv : Nat → Nat) : Nat → List Nat → Nat → Prop
  | a, [], b => nx a = b ∧ pv b = a
  | a, x :: t, b => nx a = x ∧ pv x = a ∧ Path nx pv x t b

theorem path_append (nx pv : Nat → Nat) : ∀ (a : Nat) (s : List Nat) (m : Nat) (u : List Nat) (b : Nat),
    Path nx pv a (s ++ m :: u) b ↔ Path nx pv a s m ∧ Path nx pv m u b
  | a, [], m, u, b => by simp [Path, and_assoc]
  | a, x :: s, m, u, b => by
    simp only [List.cons_append, Path]
    rw [path_append nx pv x s m u b]
    simp [and_assoc]

/-- frame lemma: a path only reads `nx` on `a :: l` and `pv` on `l ++ [b]`. -/
theorem path_congr {nx pv nx' pv' : Nat → Nat} : ∀ (a : Nat) (l : List Nat) (b : Nat),
    (∀ x ∈ a :: l, nx' x = nx x) → (∀ x ∈ l ++ [b], pv' x = pv x) →
    Path nx pv a l b → Path nx' pv' a l b
  | a, [], b, hn, hp, h => by
    obtain ⟨h1, h2⟩ := h
    exact ⟨by rw [hn a (by simp)]; exact h1, by rw [hp b (by simp)]; exact h2⟩
  | a, x :: t, b, hn, hp, h => by
    obtain ⟨h1, h2, h3⟩ := h
    refine ⟨by rw [hn a (by simp)]; exact h1, by rw [hp x (by simp)]; exact h2, ?_⟩
    apply path_congr x t b _ _ h3
    · intro y hy; exact hn y (by simp at hy ⊢; right; exact hy)
    · intro y hy; exact hp y (by simp at hy ⊢; right; exact hy)

/-- ring with head `a` and the remaining nodes `t` in order -/
def IsRing (nx pv : Nat → Nat) (a : Nat) (t : List Nat) : Prop := (a :: t).Nodup ∧ Path nx pv a t a

theorem ring_single_iff {nx pv : Nat → Nat} {a : Nat} : IsRing nx pv a [] ↔ (nx a = a ∧ pv a = a) := by
  simp [IsRing, Path]

/-- in a ring with at least two nodes no node is its own successor or predecessor -/
theorem ring_nx_ne {nx pv : Nat → Nat} {a : Nat} {t : List Nat} (h : IsRing nx pv a t) (ht : t ≠ []) :
    ∀ x ∈ a :: t, nx x ≠ x := by
  obtain ⟨hnd, hp⟩ := h
  intro x hx
  -- split the ring at x
  rcases List.mem_cons.1 hx with rfl | hxt
  · cases t with
    | nil => exact absurd rfl ht
    | cons m u =>
      have : nx x = m := hp.1
      rw [this]; intro e; subst e
      simp at hnd
  · obtain ⟨s, u, rfl⟩ := List.append_of_mem hxt
    have := (path_append nx pv a s x u a).1 hp
    have h2 := this.2
    cases u with
    | nil =>
      have : nx x = a := h2.1
      rw [this]; intro e; subst e
      simp at hnd
    | cons m u =>
      have : nx x = m := h2.1
      rw [this]; intro e; subst e
      have : (a :: (s ++ m :: m :: u)).Nodup := hnd
      simp [List.nodup_append] at this

/-- AddReference: insert `n` before the head, i.e. at the end of the list. -/
theorem add_ref {nx pv : Nat → Nat} {a : Nat} {t : List Nat} {n : Nat}
    (h : IsRing nx pv a t) (hn : n ∉ a :: t) :
    IsRing (upd (upd nx n a) (pv a) n) (upd (upd pv n (pv a)) a n) a (t ++ [n]) := by
  generalize hl : pv a = l
  obtain ⟨hnd, hp⟩ := h
  have hna : n ≠ a := fun e => hn (by simp [e])
  constructor
  · have : (a :: t ++ [n]).Nodup := by
      rw [List.nodup_append]; exact ⟨hnd, by simp, by
        intro x hx y hy; simp at hy; subst hy; exact fun e => hn (e ▸ hx)⟩
    simpa using this
  · rcases List.eq_nil_or_concat t with rfl | ⟨s, m, rfl⟩
    · obtain ⟨h1, h2⟩ := hp
      have hl : l = a := by rw [← hl]; exact h2
      simp only [List.nil_append, Path, hl]
      refine ⟨by simp, ?_, ?_, by simp⟩
      · simp [upd, hna]
      · simp [upd, hna]
    · rw [List.concat_eq_append] at hp hnd hn ⊢
      have hp' := (path_append nx pv a s m [] a).1 hp
      obtain ⟨hps, hm1, hm2⟩ := hp'
      have hl : l = m := by rw [← hl]; exact hm2
      have hm_mem : m ∈ a :: (s ++ [m]) := by simp
      have hnm : n ≠ m := fun e => hn (e ▸ hm_mem)
      have hnd' : (a :: s ++ [m]).Nodup := by simpa using hnd
      have hm_notin : m ∉ a :: s := by
        rw [List.nodup_append] at hnd'
        intro hmem; exact hnd'.2.2 m hmem m (by simp) rfl
      have ha_notin : a ∉ s ++ [m] := by
        have := hnd; simp only [List.nodup_cons] at this; exact this.1
      have : (s ++ [m]) ++ [n] = s ++ m :: [n] := by simp
      rw [this, path_append]
      constructor
      · apply path_congr a s m _ _ hps
        · intro x hx
          have hxm : x ≠ m := fun e => hm_notin (e ▸ hx)
          have hxn : x ≠ n := fun e => hn (by
            subst e; rcases List.mem_cons.1 hx with h | h
            · simp [h]
            · simp [h])
          simp [upd, hl, hxm, hxn]
        · intro x hx
          have hxa : x ≠ a := fun e => ha_notin (e ▸ hx)
          have hxn : x ≠ n := fun e => hn (by subst e; simp at hx ⊢; right; exact hx)
          simp [upd, hxa, hxn]
      · simp only [Path, hl]
        refine ⟨by simp, ?_, ?_, by simp⟩
        · simp [upd, hna]
        · simp [upd, hnm]

/-- rotation: the ring `a, m, u…` is also the ring `m, u…, a` -/
theorem ring_rotate {nx pv : Nat → Nat} {a m : Nat} {u : List Nat} (h : IsRing nx pv a (m :: u)) :
    IsRing nx pv m (u ++ [a]) := by
  obtain ⟨hnd, hp⟩ := h
  constructor
  · have : (a :: m :: u).Perm (m :: (u ++ [a])) := by
      have : (a :: (m :: u)).Perm ((m :: u) ++ [a]) := by
        simpa using (List.perm_append_comm (l₁ := [a]) (l₂ := m :: u))
      simpa using this
    exact this.nodup_iff.1 hnd
  · obtain ⟨h1, h2, h3⟩ := hp
    exact (path_append nx pv m u a [] m).2 ⟨h3, h1, h2⟩

/-- Unlinking `x` out of the middle of a path (`prev->next = next; next->prev = prev;
    next = this; prev = this`). -/
theorem path_remove {nx pv : Nat → Nat} {a b x : Nat} {s u : List Nat}
    (hp : Path nx pv a (s ++ x :: u) b)
    (hxs : x ∉ a :: s) (hxu : x ∉ u ++ [b])
    (hnd1 : (a :: s).Nodup) (hnd2 : (u ++ [b]).Nodup)
    (hdis : ∀ y ∈ s, y ∉ u ++ [b]) (hau : a ∉ u) :
    Path (upd (upd nx (pv x) (nx x)) x x) (upd (upd pv (nx x) (pv x)) x x) a (s ++ u) b := by
  obtain ⟨hps, hpu⟩ := (path_append nx pv a s x u b).1 hp
  have hax : a ≠ x := fun e => hxs (by simp [e])
  have hbx : b ≠ x := fun e => hxu (by simp [e])
  rcases List.eq_nil_or_concat s with rfl | ⟨s', p, rfl⟩
  · -- predecessor is `a`
    have hP : pv x = a := hps.2
    cases u with
    | nil =>
      have hN : nx x = b := hpu.1
      rw [hP, hN]
      simp [Path, upd, hax, hbx]
    | cons n u' =>
      obtain ⟨hN, _, h3⟩ := hpu
      have hnx : n ≠ x := fun e => hxu (by simp [e])
      rw [hP, hN]
      simp only [List.nil_append, Path]
      refine ⟨by simp [upd, hax], by simp [upd, hnx], ?_⟩
      apply path_congr n u' b _ _ h3
      · intro y hy
        have h1 : y ≠ a := fun e => hau (e ▸ hy)
        have h2 : y ≠ x := fun e => hxu (by
          rw [← e]; rcases List.mem_cons.1 hy with h | h
          · simp [h]
          · simp [h])
        simp [upd, h1, h2]
      · intro y hy
        have h1 : y ≠ n := fun e => by
          have : (n :: (u' ++ [b])).Nodup := by simpa using hnd2
          exact (List.nodup_cons.1 this).1 (e ▸ hy)
        have h2 : y ≠ x := fun e => hxu (by
          rw [← e]; rcases List.mem_append.1 hy with h | h
          · simp [h]
          · simp at h; simp [h])
        simp [upd, h1, h2]
  · rw [List.concat_eq_append] at *
    obtain ⟨hps', hl1, hP⟩ := (path_append nx pv a s' p [] x).1 hps
    have hnd1' : (a :: s' ++ [p]).Nodup := by simpa using hnd1
    have hp_notin : p ∉ a :: s' := by
      rw [List.nodup_append] at hnd1'
      intro hmem; exact hnd1'.2.2 p hmem p (by simp) rfl
    have hp_notin_ub : p ∉ u ++ [b] := hdis p (by simp)
    have hpx : p ≠ x := fun e => hxs (by simp [e])
    have hpb : p ≠ b := fun e => hp_notin_ub (by simp [e])
    -- the part a ⟶ s' ⟶ p is untouched whatever the successor `n ∈ u ++ [b]` is
    have part1 : ∀ n, n ∈ u ++ [b] →
        Path (upd (upd nx p n) x x) (upd (upd pv n p) x x) a s' p := by
      intro n hn
      apply path_congr a s' p _ _ hps'
      · intro y hy
        have h1 : y ≠ p := fun e => hp_notin (e ▸ hy)
        have h2 : y ≠ x := fun e => hxs (by
          rw [← e]; rcases List.mem_cons.1 hy with h | h
          · simp [h]
          · simp [h])
        simp [upd, h1, h2]
      · intro y hy
        have h1 : y ≠ n := fun e => by
          rcases List.mem_append.1 hy with h | h
          · exact hdis y (by simp [h]) (e ▸ hn)
          · simp at h; exact hp_notin_ub (h ▸ e ▸ hn)
        have h2 : y ≠ x := fun e => hxs (by
          rw [← e]; rcases List.mem_append.1 hy with h | h
          · simp [h]
          · simp at h; simp [h])
        simp [upd, h1, h2]
    cases u with
    | nil =>
      have hN : nx x = b := hpu.1
      rw [hP, hN]
      have : s' ++ [p] ++ [] = s' ++ p :: [] := by simp
      rw [this, path_append]
      exact ⟨part1 b (by simp), by simp [Path, upd, hpx, hbx]⟩
    | cons n u' =>
      obtain ⟨hN, _, h3⟩ := hpu
      have hnx : n ≠ x := fun e => hxu (by simp [e])
      rw [hP, hN]
      have : s' ++ [p] ++ n :: u' = s' ++ p :: (n :: u') := by simp
      rw [this, path_append]
      refine ⟨part1 n (by simp), by simp [upd, hpx], by simp [upd, hnx], ?_⟩
      apply path_congr n u' b _ _ h3
      · intro y hy
        have h1 : y ≠ p := fun e => hp_notin_ub (by
          rw [← e]; rcases List.mem_cons.1 hy with h | h
          · simp [h]
          · simp [h])
        have h2 : y ≠ x := fun e => hxu (by
          rw [← e]; rcases List.mem_cons.1 hy with h | h
          · simp [h]
          · simp [h])
        simp [upd, h1, h2]
      · intro y hy
        have h1 : y ≠ n := fun e => by
          have : (n :: (u' ++ [b])).Nodup := by simpa using hnd2
          exact (List.nodup_cons.1 this).1 (e ▸ hy)
        have h2 : y ≠ x := fun e => hxu (by
          rw [← e]; rcases List.mem_append.1 hy with h | h
          · simp [h]
          · simp at h; simp [h])
        simp [upd, h1, h2]

/-- removing a non-head node of a ring -/
theorem ring_remove_mid {nx pv : Nat → Nat} {a x : Nat} {s u : List Nat}
    (h : IsRing nx pv a (s ++ x :: u)) :
    IsRing (upd (upd nx (pv x) (nx x)) x x) (upd (upd pv (nx x) (pv x)) x x) a (s ++ u) := by
  obtain ⟨hnd, hp⟩ := h
  have hnd' : (a :: s ++ x :: u).Nodup := by simpa using hnd
  have h1 := List.nodup_append.1 hnd'
  obtain ⟨hA, hB, hC⟩ := h1
  have hxu : x ∉ u := (List.nodup_cons.1 hB).1
  have hu : u.Nodup := (List.nodup_cons.1 hB).2
  have hxs : x ∉ a :: s := fun hm => hC x hm x (by simp) rfl
  have hau : a ∉ u := fun hm => hC a (by simp) a (by simp [hm]) rfl
  have hax : a ≠ x := fun e => hC a (by simp) x (by simp) e
  constructor
  · have : (a :: s ++ u).Nodup := by
      rw [List.nodup_append]
      exact ⟨hA, hu, fun y hy z hz e => hC y hy z (by simp [hz]) e⟩
    simpa using this
  · apply path_remove hp hxs
    · intro hm; rcases List.mem_append.1 hm with h | h
      · exact hxu h
      · simp at h; exact hax h.symm
    · exact hA
    · rw [List.nodup_append]; exact ⟨hu, by simp, by
        intro y hy z hz; simp at hz; subst hz; exact fun e => hau (e ▸ hy)⟩
    · intro y hy hm
      rcases List.mem_append.1 hm with h | h
      · exact hC y (by simp [hy]) y (by simp [h]) rfl
      · simp at h; subst h; exact (List.nodup_cons.1 hA).1 hy
    · exact hau

/-- removing the head of a ring with at least two nodes: the successor becomes the head -/
theorem ring_remove_head {nx pv : Nat → Nat} {a m : Nat} {u : List Nat}
    (h : IsRing nx pv a (m :: u)) :
    IsRing (upd (upd nx (pv a) (nx a)) a a) (upd (upd pv (nx a) (pv a)) a a) m u := by
  have := ring_remove_mid (s := u) (u := []) (x := a) (a := m) (by simpa using ring_rotate h)
  simpa using this

/-- local link facts for every node of a ring -/
theorem ring_links {nx pv : Nat → Nat} {a : Nat} {t : List Nat} (h : IsRing nx pv a t) :
    ∀ x ∈ a :: t, nx (pv x) = x ∧ pv (nx x) = x ∧ nx x ∈ a :: t ∧ pv x ∈ a :: t := by
  obtain ⟨hnd, hp⟩ := h
  intro x hx
  rcases List.mem_cons.1 hx with rfl | hxt
  · -- x is the head
    rcases List.eq_nil_or_concat t with rfl | ⟨s, z, rfl⟩
    · obtain ⟨h1, h2⟩ := hp
      simp [h1, h2]
    · rw [List.concat_eq_append] at hp ⊢
      obtain ⟨hps, hz1, hz2⟩ := (path_append nx pv x s z [] x).1 hp
      have hnxx : nx x ∈ x :: (s ++ [z]) ∧ pv (nx x) = x := by
        cases s with
        | nil => obtain ⟨h1, h2⟩ := hps; simp [h1, h2]
        | cons m s' => obtain ⟨h1, h2, _⟩ := hps; simp [h1, h2]
      refine ⟨by rw [hz2, hz1], hnxx.2, hnxx.1, by rw [hz2]; simp⟩
  · obtain ⟨s, u, rfl⟩ := List.append_of_mem hxt
    obtain ⟨hps, hpu⟩ := (path_append nx pv a s x u a).1 hp
    have hpred : nx (pv x) = x ∧ pv x ∈ a :: (s ++ x :: u) := by
      rcases List.eq_nil_or_concat s with rfl | ⟨s', p, rfl⟩
      · obtain ⟨h1, h2⟩ := hps; simp [h1, h2]
      · rw [List.concat_eq_append] at hps ⊢
        obtain ⟨_, h1, h2⟩ := (path_append nx pv a s' p [] x).1 hps
        simp [h1, h2]
    have hsucc : pv (nx x) = x ∧ nx x ∈ a :: (s ++ x :: u) := by
      cases u with
      | nil => obtain ⟨h1, h2⟩ := hpu; simp [h1, h2]
      | cons n u' => obtain ⟨h1, h2, _⟩ := hpu; simp [h1, h2]
    exact ⟨hpred.1, hsucc.1, hsucc.2, hpred.2⟩

theorem ring_pv_ne {nx pv : Nat → Nat} {a : Nat} {t : List Nat} (h : IsRing nx pv a t) (ht : t ≠ []) :
    ∀ x ∈ a :: t, pv x ≠ x := by
  intro x hx e
  have h1 := (ring_links h x hx).1
  rw [e] at h1
  exact ring_nx_ne h ht x hx h1

end Morfuse.Ring
