import MorfuseModel.Conc.Model
/-!
# C20 — invariant of the lock model

`Inv`: the mutex state is exactly the bookkeeping of who is inside what (reader count = number of
threads inside a shared section of that mutex; writer flag set iff exactly one thread is inside an
exclusive section, and then no reader), and nobody but thread 0 is inside anything while thread 0
has not finished.  Preserved by every step, hence by every schedule.
-/
namespace Morfuse.Conc

/-! ### counting over `List.set` -/

theorem countP_set_add {α : Type} (p : α → Bool) :
    ∀ (l : List α) (i : Nat) (a : α) (h : i < l.length),
      (l.set i a).countP p + (if p l[i] then 1 else 0) = l.countP p + (if p a then 1 else 0)
  | [], i, a, h => by simp at h
  | x :: xs, 0, a, _ => by
    simp only [List.set_cons_zero, List.countP_cons, List.getElem_cons_zero]
    omega
  | x :: xs, i + 1, a, h => by
    have ih := countP_set_add p xs i a (by simpa using h)
    simp only [List.set_cons_succ, List.countP_cons, List.getElem_cons_succ]
    omega

theorem countP_set_same {α : Type} (p : α → Bool) (l : List α) (i : Nat) (a b : α)
    (h : l[i]? = some b) (hp : p a = p b) : (l.set i a).countP p = l.countP p := by
  obtain ⟨hi, rfl⟩ := List.getElem?_eq_some_iff.mp h
  have := countP_set_add p l i a hi
  rw [hp] at this; omega

theorem countP_set_inc {α : Type} (p : α → Bool) (l : List α) (i : Nat) (a b : α)
    (h : l[i]? = some b) (hb : p b = false) (ha : p a = true) :
    (l.set i a).countP p = l.countP p + 1 := by
  obtain ⟨hi, rfl⟩ := List.getElem?_eq_some_iff.mp h
  have := countP_set_add p l i a hi
  simp only [hb, ha] at this; simpa using this

theorem countP_set_dec {α : Type} (p : α → Bool) (l : List α) (i : Nat) (a b : α)
    (h : l[i]? = some b) (hb : p b = true) (ha : p a = false) :
    (l.set i a).countP p + 1 = l.countP p := by
  obtain ⟨hi, rfl⟩ := List.getElem?_eq_some_iff.mp h
  have := countP_set_add p l i a hi
  simp only [hb, ha] at this; simpa using this

theorem countP_pos_of_get {α : Type} (p : α → Bool) (l : List α) (i : Nat) (a : α)
    (h : l[i]? = some a) (hp : p a = true) : 0 < l.countP p :=
  List.countP_pos_iff.mpr ⟨a, List.mem_of_getElem? h, hp⟩

theorem two_le_countP {α : Type} (p : α → Bool) :
    ∀ (l : List α) (i j : Nat) (a b : α), i ≠ j → l[i]? = some a → l[j]? = some b →
      p a = true → p b = true → 2 ≤ l.countP p
  | [], i, j, a, b, _, h, _, _, _ => by simp at h
  | x :: xs, 0, 0, a, b, hne, _, _, _, _ => absurd rfl hne
  | x :: xs, 0, j + 1, a, b, _, hi, hj, ha, hb => by
    simp only [List.getElem?_cons_zero, Option.some.injEq] at hi
    simp only [List.getElem?_cons_succ] at hj
    have := countP_pos_of_get p xs j b hj hb
    subst hi
    simp only [List.countP_cons, ha, if_true]; omega
  | x :: xs, i + 1, 0, a, b, _, hi, hj, ha, hb => by
    simp only [List.getElem?_cons_zero, Option.some.injEq] at hj
    simp only [List.getElem?_cons_succ] at hi
    have := countP_pos_of_get p xs i a hi ha
    subst hj
    simp only [List.countP_cons, hb, if_true]; omega
  | x :: xs, i + 1, j + 1, a, b, hne, hi, hj, ha, hb => by
    simp only [List.getElem?_cons_succ] at hi hj
    have := two_le_countP p xs i j a b (by omega) hi hj ha hb
    simp only [List.countP_cons]; omega

/-! ### who holds what -/

/-- thread `t` is inside a section of mutex `m` taken in mode `k` -/
def holds (m : Nat) (k : LockKind) (t : Thread) : Bool :=
  t.inside && (match t.todo with
    | [] => false
    | sec :: _ => sec.mtx == m && sec.mode == k)

structure Inv (s : St) : Prop where
  gate0 : ∀ t0, s.thr[0]? = some t0 → t0.finished = false →
    ∀ i t, i ≠ 0 → s.thr[i]? = some t → t.inside = false
  readers : ∀ m, (s.mtx m).readers = s.thr.countP (holds m .shared)
  wr1 : ∀ m, (s.mtx m).writer = true → s.thr.countP (holds m .exclusive) = 1 ∧ (s.mtx m).readers = 0
  wr0 : ∀ m, (s.mtx m).writer = false → s.thr.countP (holds m .exclusive) = 0

theorem countP_false {α : Type} (p : α → Bool) (l : List α) (h : ∀ a ∈ l, p a = false) :
    l.countP p = 0 := by
  rw [List.countP_eq_zero]; intro a ha; simp [h a ha]

theorem inv_init (P : List (List Section)) : Inv (initSt P) := by
  have hz : ∀ m k, (initSt P).thr.countP (holds m k) = 0 := by
    intro m k
    apply countP_false
    intro a ha
    simp only [initSt, List.mem_map] at ha
    obtain ⟨todo, _, rfl⟩ := ha
    simp [holds]
  refine ⟨?_, ?_, ?_, ?_⟩
  · intro t0 _ _ i t _ hi
    have := List.mem_of_getElem? hi
    simp only [initSt, List.mem_map] at this
    obtain ⟨todo, _, rfl⟩ := this
    rfl
  · intro m; rw [hz]; rfl
  · intro m h; simp [initSt, Mtx.idle] at h
  · intro m _; exact hz m _

/-- the two shapes of an enabled step -/
theorem step_cases {s s' : St} {i : Nat} (h : step s i = some s') :
    ∃ t sec rest, s.thr[i]? = some t ∧ gate s i = true ∧ t.todo = sec :: rest ∧
      ((t.inside = true ∧
        s' = { mtx := s.setMtx sec.mtx ((s.mtx sec.mtx).release sec.mode),
               thr := s.thr.set i { inside := false, todo := rest } }) ∨
       (t.inside = false ∧ (s.mtx sec.mtx).canAcquire sec.mode = true ∧
        s' = { mtx := s.setMtx sec.mtx ((s.mtx sec.mtx).acquire sec.mode),
               thr := s.thr.set i { inside := true, todo := sec :: rest } })) := by
  unfold step at h
  cases ht : s.thr[i]? with
  | none => simp [ht] at h
  | some t =>
    simp only [ht] at h
    cases hg : gate s i with
    | false => simp [hg] at h
    | true =>
      simp only [hg, Bool.not_true, Bool.false_eq_true, if_false] at h
      cases htd : t.todo with
      | nil => simp [htd] at h
      | cons sec rest =>
        simp only [htd] at h
        refine ⟨t, sec, rest, rfl, rfl, htd, ?_⟩
        cases hin : t.inside with
        | true =>
          simp only [hin, if_true, Option.some.injEq] at h
          exact Or.inl ⟨rfl, h.symm⟩
        | false =>
          simp only [hin, Bool.false_eq_true, if_false] at h
          cases hc : (s.mtx sec.mtx).canAcquire sec.mode with
          | false => simp [hc] at h
          | true =>
            simp only [hc, if_true, Option.some.injEq] at h
            exact Or.inr ⟨rfl, rfl, h.symm⟩

theorem holds_outside (m : Nat) (k : LockKind) (todo : List Section) :
    holds m k { inside := false, todo := todo } = false := by simp [holds]

theorem holds_inside (m : Nat) (k : LockKind) (sec : Section) (rest : List Section) :
    holds m k { inside := true, todo := sec :: rest } = (sec.mtx == m && sec.mode == k) := by
  simp [holds]

theorem holds_of (m : Nat) (k : LockKind) (t : Thread) (sec : Section) (rest : List Section)
    (hin : t.inside = true) (htd : t.todo = sec :: rest) :
    holds m k t = (sec.mtx == m && sec.mode == k) := by
  simp [holds, hin, htd]

theorem holds_of_out (m : Nat) (k : LockKind) (t : Thread) (hin : t.inside = false) :
    holds m k t = false := by simp [holds, hin]

/-- `gate0` is preserved by any step that rewrites thread `i` only -/
theorem gate0_step {s : St} {i : Nat} {t tnew : Thread} {sec : Section} {rest : List Section}
    (hinv : Inv s) (ht : s.thr[i]? = some t) (hg : gate s i = true) (htd : t.todo = sec :: rest) :
    ∀ t0, (s.thr.set i tnew)[0]? = some t0 → t0.finished = false →
      ∀ j u, j ≠ 0 → (s.thr.set i tnew)[j]? = some u → u.inside = false := by
  intro t0 h0 hf j u hj hu
  by_cases hi0 : i = 0
  · subst hi0
    rw [List.getElem?_set_ne (by omega)] at hu
    have hfin : t.finished = false := by simp [Thread.finished, htd]
    exact hinv.gate0 t ht hfin j u hj hu
  · -- thread 0 is untouched and, by the gate, finished
    rw [List.getElem?_set_ne hi0] at h0
    simp only [gate, h0] at hg
    have : t0.finished = true := by
      cases h : (i == 0) with
      | true => simp at h; exact absurd h hi0
      | false => simpa [h] using hg
    rw [this] at hf; cases hf

theorem inv_step {s s' : St} {i : Nat} (hinv : Inv s) (h : step s i = some s') : Inv s' := by
  obtain ⟨t, sec, rest, ht, hg, htd, hcase⟩ := step_cases h
  have hi : i < s.thr.length := (List.getElem?_eq_some_iff.mp ht).1
  rcases hcase with ⟨hin, rfl⟩ | ⟨hin, hcan, rfl⟩
  · -- release
    have hold : ∀ m k, holds m k t = (sec.mtx == m && sec.mode == k) := fun m k => holds_of m k t sec rest hin htd
    have hnew : ∀ m k, holds m k ({ inside := false, todo := rest } : Thread) = false := fun m k => holds_outside m k rest
    refine ⟨gate0_step hinv ht hg htd, ?_, ?_, ?_⟩
    · intro m
      by_cases hm : m = sec.mtx
      · subst hm
        cases hk : sec.mode with
        | shared =>
          have := countP_set_dec (holds sec.mtx .shared) s.thr i _ t ht (by simp [hold, hk]) (hnew _ _)
          have hr := hinv.readers sec.mtx
          simp only [St.setMtx, if_true, Mtx.release]
          omega
        | none =>
          have := countP_set_same (holds sec.mtx .shared) s.thr i { inside := false, todo := rest } t ht
            (by simp [hold, hnew, hk])
          simp only [St.setMtx, if_true, Mtx.release]; rw [this]; exact hinv.readers _
        | exclusive =>
          have := countP_set_same (holds sec.mtx .shared) s.thr i { inside := false, todo := rest } t ht
            (by simp [hold, hnew, hk])
          simp only [St.setMtx, if_true, Mtx.release]; rw [this]; exact hinv.readers _
      · have := countP_set_same (holds m .shared) s.thr i { inside := false, todo := rest } t ht
          (by simp [hold, hnew]; intro e; exact absurd e.symm hm)
        simp only [St.setMtx, hm, if_false]; rw [this]; exact hinv.readers _
    · intro m hw
      by_cases hm : m = sec.mtx
      · subst hm
        cases hk : sec.mode with
        | exclusive => simp [St.setMtx, Mtx.release, hk] at hw
        | shared =>
          simp only [St.setMtx, if_true, Mtx.release, hk] at hw ⊢
          obtain ⟨h1, h0⟩ := hinv.wr1 _ hw
          -- a reader is inside while the writer flag is set: impossible
          have hpos := countP_pos_of_get (holds sec.mtx .shared) s.thr i t ht (by simp [hold, hk])
          have := hinv.readers sec.mtx
          omega
        | none =>
          simp only [St.setMtx, if_true, Mtx.release, hk] at hw ⊢
          have := countP_set_same (holds sec.mtx .exclusive) s.thr i { inside := false, todo := rest } t ht
            (by simp [hold, hnew, hk])
          rw [this]; exact hinv.wr1 _ hw
      · simp only [St.setMtx, hm, if_false] at hw ⊢
        have := countP_set_same (holds m .exclusive) s.thr i { inside := false, todo := rest } t ht
          (by simp [hold, hnew]; intro e; exact absurd e.symm hm)
        rw [this]; exact hinv.wr1 _ hw
    · intro m hw
      by_cases hm : m = sec.mtx
      · subst hm
        cases hk : sec.mode with
        | exclusive =>
          have hdec := countP_set_dec (holds sec.mtx .exclusive) s.thr i _ t ht (by simp [hold, hk]) (hnew _ _)
          have hpos := countP_pos_of_get (holds sec.mtx .exclusive) s.thr i t ht (by simp [hold, hk])
          show List.countP (holds sec.mtx .exclusive) (s.thr.set i { inside := false, todo := rest }) = 0
          cases hwr : (s.mtx sec.mtx).writer with
          | true => have := (hinv.wr1 _ hwr).1; omega
          | false => have := hinv.wr0 _ hwr; omega
        | shared =>
          simp only [St.setMtx, if_true, Mtx.release, hk] at hw
          have := countP_set_same (holds sec.mtx .exclusive) s.thr i { inside := false, todo := rest } t ht
            (by simp [hold, hnew, hk])
          rw [this]; exact hinv.wr0 _ hw
        | none =>
          simp only [St.setMtx, if_true, Mtx.release, hk] at hw
          have := countP_set_same (holds sec.mtx .exclusive) s.thr i { inside := false, todo := rest } t ht
            (by simp [hold, hnew, hk])
          rw [this]; exact hinv.wr0 _ hw
      · simp only [St.setMtx, hm, if_false] at hw
        have := countP_set_same (holds m .exclusive) s.thr i { inside := false, todo := rest } t ht
          (by simp [hold, hnew]; intro e; exact absurd e.symm hm)
        rw [this]; exact hinv.wr0 _ hw
  · -- acquire
    have hold : ∀ m k, holds m k t = false := fun m k => holds_of_out m k t hin
    have hnew : ∀ m k, holds m k ({ inside := true, todo := sec :: rest } : Thread) = (sec.mtx == m && sec.mode == k) :=
      fun m k => holds_inside m k sec rest
    have hg0 : ∀ t0, (s.thr.set i { inside := true, todo := sec :: rest })[0]? = some t0 → t0.finished = false →
        ∀ j u, j ≠ 0 → (s.thr.set i { inside := true, todo := sec :: rest })[j]? = some u → u.inside = false := by
      intro t0 h0 hf j u hj hu
      by_cases hi0 : i = 0
      · subst hi0
        rw [List.getElem?_set_ne (by omega)] at hu
        exact hinv.gate0 t ht (by simp [Thread.finished, htd]) j u hj hu
      · rw [List.getElem?_set_ne hi0] at h0
        simp only [gate, h0] at hg
        have : t0.finished = true := by
          cases hh : (i == 0) with
          | true => simp at hh; exact absurd hh hi0
          | false => simpa [hh] using hg
        rw [this] at hf; cases hf
    refine ⟨hg0, ?_, ?_, ?_⟩
    · intro m
      by_cases hm : m = sec.mtx
      · subst hm
        cases hk : sec.mode with
        | shared =>
          have := countP_set_inc (holds sec.mtx .shared) s.thr i { inside := true, todo := sec :: rest } t ht
            (hold _ _) (by simp [hnew, hk])
          have hr := hinv.readers sec.mtx
          simp only [St.setMtx, if_true, Mtx.acquire]
          omega
        | none =>
          have := countP_set_same (holds sec.mtx .shared) s.thr i { inside := true, todo := sec :: rest } t ht
            (by simp [hold, hnew, hk])
          simp only [St.setMtx, if_true, Mtx.acquire]; rw [this]; exact hinv.readers _
        | exclusive =>
          have := countP_set_same (holds sec.mtx .shared) s.thr i { inside := true, todo := sec :: rest } t ht
            (by simp [hold, hnew, hk])
          simp only [St.setMtx, if_true, Mtx.acquire]; rw [this]; exact hinv.readers _
      · have := countP_set_same (holds m .shared) s.thr i { inside := true, todo := sec :: rest } t ht
          (by simp [hold, hnew]; intro e; exact absurd e.symm hm)
        simp only [St.setMtx, hm, if_false]; rw [this]; exact hinv.readers _
    · intro m hw
      by_cases hm : m = sec.mtx
      · subst hm
        cases hk : sec.mode with
        | exclusive =>
          simp only [hk, Mtx.canAcquire, Bool.and_eq_true, Bool.not_eq_true', beq_iff_eq] at hcan
          have h0 := hinv.wr0 _ hcan.1
          have := countP_set_inc (holds sec.mtx .exclusive) s.thr i { inside := true, todo := sec :: rest } t ht
            (hold _ _) (by simp [hnew, hk])
          simp only [St.setMtx, if_true, Mtx.acquire]
          exact ⟨by omega, hcan.2⟩
        | shared =>
          simp only [hk, Mtx.canAcquire, Bool.not_eq_true'] at hcan
          simp only [St.setMtx, if_true, Mtx.acquire, hk] at hw
          rw [hcan] at hw; cases hw
        | none =>
          simp only [St.setMtx, if_true, Mtx.acquire, hk] at hw ⊢
          have := countP_set_same (holds sec.mtx .exclusive) s.thr i { inside := true, todo := sec :: rest } t ht
            (by simp [hold, hnew, hk])
          rw [this]; exact hinv.wr1 _ hw
      · simp only [St.setMtx, hm, if_false] at hw ⊢
        have := countP_set_same (holds m .exclusive) s.thr i { inside := true, todo := sec :: rest } t ht
          (by simp [hold, hnew]; intro e; exact absurd e.symm hm)
        rw [this]; exact hinv.wr1 _ hw
    · intro m hw
      by_cases hm : m = sec.mtx
      · subst hm
        cases hk : sec.mode with
        | exclusive => simp [St.setMtx, Mtx.acquire, hk] at hw
        | shared =>
          simp only [St.setMtx, if_true, Mtx.acquire, hk] at hw
          have := countP_set_same (holds sec.mtx .exclusive) s.thr i { inside := true, todo := sec :: rest } t ht
            (by simp [hold, hnew, hk])
          rw [this]; exact hinv.wr0 _ hw
        | none =>
          simp only [St.setMtx, if_true, Mtx.acquire, hk] at hw
          have := countP_set_same (holds sec.mtx .exclusive) s.thr i { inside := true, todo := sec :: rest } t ht
            (by simp [hold, hnew, hk])
          rw [this]; exact hinv.wr0 _ hw
      · simp only [St.setMtx, hm, if_false] at hw
        have := countP_set_same (holds m .exclusive) s.thr i { inside := true, todo := sec :: rest } t ht
          (by simp [hold, hnew]; intro e; exact absurd e.symm hm)
        rw [this]; exact hinv.wr0 _ hw

theorem inv_run {s : St} (hinv : Inv s) : ∀ sched, Inv (run s sched)
  | [] => hinv
  | i :: is => by
    simp only [run]
    cases h : step s i with
    | none => simpa using inv_run hinv is
    | some s' => simpa using inv_run (inv_step hinv h) is

/-! ### mutual exclusion from the invariant -/

/-- a thread inside an exclusive section of `m` excludes every other thread from `m` -/
theorem excl_alone {s : St} (hinv : Inv s) {m : Nat} {i j : Nat} (hij : i ≠ j) {ti tj : Thread}
    (hti : s.thr[i]? = some ti) (htj : s.thr[j]? = some tj) {k : LockKind}
    (hi : holds m .exclusive ti = true) (hj : holds m k tj = true) (hk : k ≠ .none) : False := by
  have hpos := countP_pos_of_get _ _ _ _ hti hi
  cases hw : (s.mtx m).writer with
  | false => have := hinv.wr0 m hw; omega
  | true =>
    obtain ⟨h1, h0⟩ := hinv.wr1 m hw
    cases k with
    | none => exact hk rfl
    | exclusive => have := two_le_countP _ _ _ _ _ _ hij hti htj hi hj; omega
    | shared =>
      have := countP_pos_of_get _ _ _ _ htj hj
      have := hinv.readers m
      omega

theorem holds_of_inside {t : Thread} {sec : Section} (hin : t.inside = true)
    (hh : t.todo.head? = some sec) : holds sec.mtx sec.mode t = true := by
  cases htd : t.todo with
  | nil => simp [htd] at hh
  | cons x rest =>
    simp only [htd, List.head?_cons, Option.some.injEq] at hh
    subst hh
    simp [holds, hin, htd]

/-! ### the programs only shrink -/

/-- every remaining section of thread `i` in `s` is a section of its program -/
def Within (P : List (List Section)) (s : St) : Prop :=
  ∀ (i : Nat) (t : Thread), s.thr[i]? = some t → ∃ prog, P[i]? = some prog ∧ ∀ sec ∈ t.todo, sec ∈ prog

theorem within_init (P : List (List Section)) : Within P (initSt P) := by
  intro i t h
  simp only [initSt, List.getElem?_map, Option.map_eq_some_iff] at h
  obtain ⟨prog, hp, rfl⟩ := h
  exact ⟨prog, hp, fun _ h => h⟩

theorem within_step {P : List (List Section)} {s s' : St} {i : Nat} (hw : Within P s)
    (h : step s i = some s') : Within P s' := by
  obtain ⟨t, sec, rest, ht, _, htd, hcase⟩ := step_cases h
  have hi : i < s.thr.length := (List.getElem?_eq_some_iff.mp ht).1
  obtain ⟨prog, hp, hsub⟩ := hw i t ht
  intro j u hu
  rcases hcase with ⟨_, rfl⟩ | ⟨_, _, rfl⟩
  all_goals
    by_cases hij : i = j
    · subst hij
      simp only [List.getElem?_set_self hi, Option.some.injEq] at hu
      subst hu
      refine ⟨prog, hp, fun x hx => hsub x ?_⟩
      rw [htd]
      first
        | exact List.mem_cons_of_mem _ hx
        | exact hx
    · rw [List.getElem?_set_ne hij] at hu
      exact hw j u hu

theorem within_run {P : List (List Section)} {s : St} (hw : Within P s) : ∀ sched, Within P (run s sched)
  | [] => hw
  | i :: is => by
    simp only [run]
    cases h : step s i with
    | none => simpa using within_run hw is
    | some s' => simpa using within_run (within_step hw h) is

end Morfuse.Conc
