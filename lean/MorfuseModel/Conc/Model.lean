import MorfuseModel.Conc.Table
/-!
# C20 — lock discipline model

`std::shared_mutex` as a state machine, N threads each running a sequence of critical sections,
interleaving semantics ("any enabled thread steps").

* `Mtx` — reader count and writer flag.  `lock()` is enabled when there is no writer and no reader,
  `lock_shared()` when there is no writer; a blocked call is a step that is not enabled.
* `Section` — one critical section: the mutex, the mode (`LockKind.none` = no lock taken at all),
  and the accesses `(location, read|write)` performed while inside.  A thread is *inside* its head
  section from the step that acquires the lock to the step that releases it; every access of the
  section is in progress at some time in between, so "two conflicting accesses simultaneously in
  progress" is over-approximated by "two threads inside sections with conflicting accesses".
* thread `0` is the initialisation phase (static initialisation before `main`, and the one-time
  guarded construction of the function-local registries): threads `≥ 1` can only step once thread 0
  has finished.  That the C++ runtime really orders these phases (`__cxa_guard_acquire`, program
  start-up) is runtime truth, not proved here.
-/
namespace Morfuse.Conc

/-- `std::shared_mutex` -/
structure Mtx where
  readers : Nat
  writer : Bool
  deriving DecidableEq, Repr

def Mtx.idle : Mtx := ⟨0, false⟩

/-- is `lock_shared()` / `lock()` enabled? -/
def Mtx.canAcquire (m : Mtx) : LockKind → Bool
  | .none => true
  | .shared => !m.writer
  | .exclusive => !m.writer && m.readers == 0

def Mtx.acquire (m : Mtx) : LockKind → Mtx
  | .none => m
  | .shared => { m with readers := m.readers + 1 }
  | .exclusive => { m with writer := true }

def Mtx.release (m : Mtx) : LockKind → Mtx
  | .none => m
  | .shared => { m with readers := m.readers - 1 }
  | .exclusive => { m with writer := false }

inductive Acc
  | read
  | write
  deriving DecidableEq, Repr

structure Section where
  mtx : Nat
  mode : LockKind
  accs : List (Nat × Acc)
  deriving Repr

structure Thread where
  /-- inside the head section of `todo` (its lock is held) -/
  inside : Bool
  todo : List Section
  deriving Repr

def Thread.finished (t : Thread) : Bool := t.todo.isEmpty && !t.inside

structure St where
  mtx : Nat → Mtx
  thr : List Thread

def St.setMtx (s : St) (m : Nat) (v : Mtx) : Nat → Mtx := fun x => if x = m then v else s.mtx x

/-- may thread `i` move at all?  Thread 0 always; the others once thread 0 has finished. -/
def gate (s : St) (i : Nat) : Bool :=
  i == 0 || (match s.thr[0]? with | some t0 => t0.finished | none => true)

/-- one step of thread `i`: enter its head section (acquire), or leave it (release).
    `none`: not enabled (blocked on the mutex, finished, gated, or no such thread). -/
def step (s : St) (i : Nat) : Option St :=
  match s.thr[i]? with
  | none => none
  | some t =>
    if !gate s i then none else
    match t.todo with
    | [] => none
    | sec :: rest =>
      if t.inside then
        some { mtx := s.setMtx sec.mtx ((s.mtx sec.mtx).release sec.mode),
               thr := s.thr.set i { inside := false, todo := rest } }
      else if (s.mtx sec.mtx).canAcquire sec.mode then
        some { mtx := s.setMtx sec.mtx ((s.mtx sec.mtx).acquire sec.mode),
               thr := s.thr.set i { inside := true, todo := sec :: rest } }
      else none

/-- a schedule is any list of thread ids; a choice that is not enabled is skipped, so the set of
    all schedules covers every interleaving (and every prefix of one) -/
def run (s : St) : List Nat → St
  | [] => s
  | i :: is => run ((step s i).getD s) is

/-- `P[0]` is the initialisation phase, `P[i]`, `i ≥ 1`, the program of OS thread `i` -/
def initSt (P : List (List Section)) : St :=
  { mtx := fun _ => Mtx.idle, thr := P.map fun todo => { inside := false, todo := todo } }

/-- thread `i` is inside section `sec` -/
def InsideSec (s : St) (i : Nat) (sec : Section) : Prop :=
  ∃ t, s.thr[i]? = some t ∧ t.inside = true ∧ t.todo.head? = some sec

/-- two different threads are inside sections that contain conflicting accesses
    (same location, at least one write) -/
def ConflictNow (s : St) : Prop :=
  ∃ i j si sj l a b, i ≠ j ∧ InsideSec s i si ∧ InsideSec s j sj ∧
    (l, a) ∈ si.accs ∧ (l, b) ∈ sj.accs ∧ (a = .write ∨ b = .write)

/-- how a location may be shared -/
inductive LocClass
  /-- only thread `owner` touches it (`thread_local`, or state of one context) -/
  | local (owner : Nat)
  /-- every access under mutex `m`; writes in exclusive mode, reads in shared or exclusive mode -/
  | guarded (m : Nat)
  /-- written only by the initialisation phase (thread 0); threads `≥ 1` only read it -/
  | initOnly
  deriving Repr

def AccessOk (cls : Nat → LocClass) (i : Nat) (sec : Section) (l : Nat) (a : Acc) : Prop :=
  match cls l with
  | .local o => o = i
  | .guarded m => sec.mtx = m ∧ (a = .write → sec.mode = .exclusive) ∧ sec.mode ≠ .none
  | .initOnly => a = .read

def SectionOk (cls : Nat → LocClass) (i : Nat) (sec : Section) : Prop :=
  ∀ l a, (l, a) ∈ sec.accs → AccessOk cls i sec l a

/-- the locking discipline: every section of every thread `≥ 1` respects the class of every
    location it touches.  The initialisation phase `P[0]` is unconstrained. -/
def Disciplined (cls : Nat → LocClass) (P : List (List Section)) : Prop :=
  ∀ i, i ≠ 0 → ∀ prog, P[i]? = some prog → ∀ sec ∈ prog, SectionOk cls i sec

end Morfuse.Conc
